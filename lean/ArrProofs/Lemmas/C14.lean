import ArrModel.C14
import ArrProofs.Lemmas.Index
import Mathlib.Algebra.BigOperators.Group.Finset.Basic
import Mathlib.Algebra.BigOperators.Intervals
import Mathlib.Tactic.Ring
/-! helper lemmas for C14: `Res` plumbing, uniform-block indexing, folds as `Finset` sums -/

namespace ArrModel

/-- entry of an integer array at a coordinate vector, `0` outside (specification language; on a well-formed
array and an in-range coordinate vector the read is `some`, see `C14.get?_eq_some_ent`) -/
def Arr.ent (a : Arr Int) (c : List Nat) : Int := (a.get? c).getD 0

namespace C14
open Finset

/-! ### `Res` plumbing -/

theorem bind_eq_ok {α β} {x : Res α} {f : α → Res β} {r : β} (h : (x >>= f) = .ok r) :
    ∃ v, x = .ok v ∧ f v = .ok r := by
  cases x with
  | ok v => exact ⟨v, rfl, h⟩
  | err e => cases h
  | panic => cases h

theorem sequence_map_ok {α} (l : List α) : Res.sequence (l.map Res.ok) = .ok l := by
  induction l with
  | nil => rfl
  | cons x xs ih => simp [Res.sequence, ih]

theorem collectRes_map_ok {α} (l : List α) : collectRes (l.map Res.ok) = .ok l := by
  unfold collectRes
  have : (l.map Res.ok).any Res.isPanic = false := by
    induction l with
    | nil => rfl
    | cons x xs ih => simp [Res.isPanic, ih]
  simp [this, sequence_map_ok]

theorem collectRes_map {ι α} (l : List ι) (f : ι → Res α) (g : ι → α) (h : ∀ x ∈ l, f x = .ok (g x)) :
    collectRes (l.map f) = .ok (l.map g) := by
  have : l.map f = (l.map g).map Res.ok := by
    rw [List.map_map]; exact List.map_congr_left h
  rw [this, collectRes_map_ok]

theorem collectRes_flatMap {ι κ α} (l1 : List ι) (l2 : List κ) (f : ι → κ → Res α) (g : ι → κ → α)
    (h : ∀ i ∈ l1, ∀ j ∈ l2, f i j = .ok (g i j)) :
    collectRes (l1.flatMap (fun i => l2.map (f i))) = .ok (l1.flatMap (fun i => l2.map (g i))) := by
  have : l1.flatMap (fun i => l2.map (f i)) = (l1.flatMap (fun i => l2.map (g i))).map Res.ok := by
    rw [List.map_flatMap]
    apply List.flatMap_congr
    intro i hi
    rw [List.map_map]
    exact List.map_congr_left (h i hi)
  rw [this, collectRes_map_ok]

theorem bind_eq_ok_iff {α β} (x : Res α) (f : α → Res β) (r : β) :
    (x >>= f) = .ok r ↔ ∃ v, x = .ok v ∧ f v = .ok r := by
  constructor
  · exact bind_eq_ok
  · rintro ⟨v, rfl, h⟩; exact h

/-- all collected results are the same error (and there is at least one) -/
theorem collectRes_all_err {ι α} (l : List ι) (f : ι → Res α) (e : Err) (hne : l ≠ []) (h : ∀ x ∈ l, f x = .err e) :
    collectRes (l.map f) = .err e := by
  have hm : l.map f = l.map (fun _ => (Res.err e : Res α)) := List.map_congr_left h
  rw [hm]
  unfold collectRes
  have hp : (l.map (fun _ => (Res.err e : Res α))).any Res.isPanic = false := by
    simp [Res.isPanic]
  rw [hp]
  cases l with
  | nil => exact absurd rfl hne
  | cons x xs => simp [Res.sequence]

/-- an error among the collected results (and no panic) is an error -/
theorem collectRes_err {α} (l : List (Res α)) (hp : l.any Res.isPanic = false) (he : l.any Res.isErr = true) :
    ∃ e, collectRes l = .err e := by
  unfold collectRes
  rw [hp]; simp only [Bool.false_eq_true, if_false]
  induction l with
  | nil => simp at he
  | cons x xs ih =>
    cases x with
    | err e => exact ⟨e, rfl⟩
    | panic => simp [Res.isPanic] at hp
    | ok v =>
      simp only [List.any_cons, Res.isPanic, Res.isErr, Bool.false_or] at hp he
      obtain ⟨e, he'⟩ := ih hp he
      exact ⟨e, by simp [Res.sequence, he']⟩

theorem foldRes_ok {β} (f : β → Nat → Res β) (g : β → Nat → β) (l : List Nat)
    (h : ∀ k ∈ l, ∀ acc, f acc k = .ok (g acc k)) (acc : β) :
    foldRes f l acc = .ok (l.foldl g acc) := by
  induction l generalizing acc with
  | nil => rfl
  | cons k ks ih =>
    simp only [foldRes, List.foldl_cons]
    rw [h k List.mem_cons_self acc]
    exact ih (fun k' hk' => h k' (List.mem_cons_of_mem _ hk')) _

theorem idx_ok {α} (l : List α) (i : Nat) (d : α) (h : i < l.length) : Res.idx l i = .ok (l.getD i d) := by
  unfold Res.idx
  simp [List.getD_eq_getElem?_getD, List.getElem?_eq_getElem h]

/-! ### folds are sums -/

theorem foldl_mul_add_eq_sum (f : Nat → Int) (m : Nat) :
    (List.range m).foldl (fun acc k => f k + acc) 0 = ∑ k ∈ range m, f k := by
  induction m with
  | zero => simp
  | succ m ih => rw [List.range_succ, List.foldl_append, ih, Finset.sum_range_succ]; simp [add_comm]

theorem foldl_add_eq_sum (f : Nat → Int) (m : Nat) :
    (List.range m).foldl (fun acc k => acc + f k) 0 = ∑ k ∈ range m, f k := by
  induction m with
  | zero => simp
  | succ m ih => rw [List.range_succ, List.foldl_append, ih, Finset.sum_range_succ]; simp

theorem foldl_zipWith_eq_sum (xs ys : List Int) (acc : Int) :
    (List.zipWith (· * ·) xs ys).foldl (· + ·) acc
      = acc + ∑ i ∈ range (min xs.length ys.length), xs.getD i 0 * ys.getD i 0 := by
  induction xs generalizing ys acc with
  | nil => simp
  | cons x xs ih =>
    cases ys with
    | nil => simp
    | cons y ys =>
      simp only [List.zipWith_cons_cons, List.foldl_cons, List.length_cons, Nat.add_min_add_right]
      rw [ih, Finset.sum_range_succ']
      simp only [List.getD_cons_succ, List.getD_cons_zero]
      ring

theorem sumProd_eq_sum (xs ys : List Int) (h : xs.length = ys.length) :
    sumProd xs ys = ∑ i ∈ range xs.length, xs.getD i 0 * ys.getD i 0 := by
  unfold sumProd
  rw [foldl_zipWith_eq_sum, ← h]; simp

/-! ### indexing into a concatenation of equally long blocks -/

theorem length_flatMap_uniform {ι α} (l : List ι) (g : ι → List α) (L : Nat) (h : ∀ x ∈ l, (g x).length = L) :
    (l.flatMap g).length = l.length * L := by
  induction l with
  | nil => simp
  | cons x xs ih =>
    rw [List.flatMap_cons, List.length_append, h x List.mem_cons_self,
      ih (fun y hy => h y (List.mem_cons_of_mem _ hy)), List.length_cons, Nat.succ_mul, Nat.add_comm]

theorem getElem?_flatMap_uniform {ι α} (l : List ι) (g : ι → List α) (L : Nat) (h : ∀ x ∈ l, (g x).length = L)
    (t : Nat) (ht : t < l.length) (q : Nat) (hq : q < L) :
    (l.flatMap g)[t * L + q]? = (g l[t])[q]? := by
  induction l generalizing t with
  | nil => simp at ht
  | cons x xs ih =>
    rw [List.flatMap_cons]
    have hx : (g x).length = L := h x List.mem_cons_self
    cases t with
    | zero =>
      simp only [Nat.zero_mul, Nat.zero_add, List.getElem_cons_zero]
      rw [List.getElem?_append_left (by omega)]
    | succ t =>
      have : (t + 1) * L + q = (g x).length + (t * L + q) := by rw [hx, Nat.succ_mul]; omega
      rw [this, List.getElem?_append_right (by omega)]
      simp only [Nat.add_sub_cancel_left, List.getElem_cons_succ]
      exact ih (fun y hy => h y (List.mem_cons_of_mem _ hy)) t (by simpa using ht)

/-- cell `(i, j)` of a row-major double loop -/
theorem getElem?_flatMap_range {α} (n p : Nat) (f : Nat → Nat → α) (i j : Nat) (hi : i < n) (hj : j < p) :
    ((List.range n).flatMap (fun i => (List.range p).map (f i)))[i * p + j]? = some (f i j) := by
  rw [getElem?_flatMap_uniform (List.range n) _ p (by intro x _; simp) i (by simpa using hi) j hj]
  simp [hj]

theorem length_flatMap_range {α} (n p : Nat) (f : Nat → Nat → α) :
    ((List.range n).flatMap (fun i => (List.range p).map (f i))).length = n * p := by
  rw [length_flatMap_uniform (List.range n) _ p (by intro x _; simp)]; simp

/-! ### pieces -/

theorem length_pieces (k : Nat) (xs : List Int) (cnt : Nat) : (pieces k xs cnt).length = cnt := by
  simp [pieces]

theorem getElem_pieces (k : Nat) (xs : List Int) (cnt t : Nat) (ht : t < cnt) :
    (pieces k xs cnt)[t]'(by simpa [pieces] using ht) = (xs.drop (t * k)).take k := by
  simp [pieces]

theorem length_piece (k : Nat) (xs : List Int) (t : Nat) (h : (t + 1) * k ≤ xs.length) :
    ((xs.drop (t * k)).take k).length = k := by
  rw [List.length_take, List.length_drop]
  rw [Nat.succ_mul] at h; omega

theorem getD_piece (k : Nat) (xs : List Int) (t q : Nat) (hq : q < k) :
    ((xs.drop (t * k)).take k).getD q 0 = xs.getD (t * k + q) 0 := by
  simp [List.getD_eq_getElem?_getD, hq]

/-! ### coordinates -/

theorem ravel_append : ∀ (s1 c1 s2 c2 : List Nat), s1.length = c1.length →
    ravel (s1 ++ s2) (c1 ++ c2) = ravel s1 c1 * s2.prod + ravel s2 c2
  | [], [], s2, c2, _ => by simp [ravel]
  | d :: ds, c :: cs, s2, c2, h => by
    simp only [List.cons_append, ravel, List.prod_append]
    rw [ravel_append ds cs s2 c2 (by simpa using h)]
    rw [Nat.add_mul, Nat.mul_assoc, Nat.add_assoc]
  | [], _ :: _, _, _, h => by simp at h
  | _ :: _, [], _, _, h => by simp at h

theorem inRange_append : ∀ (s1 c1 s2 c2 : List Nat), inRange s1 c1 = true → inRange s2 c2 = true →
    inRange (s1 ++ s2) (c1 ++ c2) = true
  | [], [], _, _, _, h2 => by simpa using h2
  | d :: ds, c :: cs, s2, c2, h1, h2 => by
    simp only [inRange, Bool.and_eq_true, decide_eq_true_eq] at h1
    simp only [List.cons_append, inRange, Bool.and_eq_true, decide_eq_true_eq]
    exact ⟨h1.1, inRange_append ds cs s2 c2 h1.2 h2⟩
  | [], _ :: _, _, _, h, _ => by simp [inRange] at h
  | _ :: _, [], _, _, h, _ => by simp [inRange] at h

theorem get?_eq_some_ent (a : Arr Int) (hwf : a.WF) (c : List Nat) (h : inRange a.shape c = true) :
    a.get? c = some (a.ent c) := by
  have hlt : ravel a.shape c < a.elems.length := by rw [hwf]; exact ravel_lt _ _ h
  unfold Arr.ent Arr.get?
  rw [List.getElem?_eq_getElem hlt]; rfl

theorem ent_eq_getD (a : Arr Int) (c : List Nat) : a.ent c = a.elems.getD (ravel a.shape c) 0 := by
  unfold Arr.ent Arr.get?; rw [List.getD_eq_getElem?_getD]

/-! ### explicit results of the matrix arms -/

theorem idx2_lt {i n k m : Nat} (hi : i < n) (hk : k < m) : i * m + k < n * m := by
  have := Nat.mul_le_mul_right m (Nat.succ_le_of_lt hi)
  rw [Nat.succ_mul] at this; omega

theorem wf_len2 {a : A} {n m : Nat} (hwf : a.WF) (hs : a.shape = [n, m]) : a.elems.length = n * m := by
  rw [hwf, hs]; simp

theorem wf_len3 {a : A} {s n m : Nat} (hwf : a.WF) (hs : a.shape = [s, n, m]) : a.elems.length = s * (n * m) := by
  rw [hwf, hs]; simp

/-- value of one cell of the matrix product, total form -/
def cellSpec (a b : A) (m p i j : Nat) : Int :=
  ∑ k ∈ range m, a.elems.getD (i * m + k) 0 * b.elems.getD (k * p + j) 0

theorem cell_ok (a b : A) (m p i j : Nat) (ha : ∀ k < m, i * m + k < a.elems.length)
    (hb : ∀ k < m, k * p + j < b.elems.length) : cell a b m p i j = .ok (cellSpec a b m p i j) := by
  unfold cell cellSpec
  rw [foldRes_ok _ (fun acc k => a.elems.getD (i * m + k) 0 * b.elems.getD (k * p + j) 0 + acc)]
  · rw [foldl_mul_add_eq_sum]
  · intro k hk acc
    have hk' : k < m := by simpa using hk
    rw [idx_ok _ _ 0 (ha k hk'), idx_ok _ _ 0 (hb k hk')]; rfl

/-- the product matrix, explicitly -/
def mm22 (a b : A) (n m p : Nat) : A :=
  ⟨(List.range n).flatMap (fun i => (List.range p).map (fun j => cellSpec a b m p i j)), [n, p]⟩

theorem matmulIterate_eq (a b : A) (n m p : Nat) (ha : a.WF) (hb : b.WF)
    (hsa : a.shape = [n, m]) (hsb : b.shape = [m, p]) : matmulIterate a b = .ok (mm22 a b n m p) := by
  have hla := wf_len2 ha hsa
  have hlb := wf_len2 hb hsb
  unfold matmulIterate
  simp only [hsa, hsb, Res.idx, List.getElem?_cons_zero, List.getElem?_cons_succ, Res.bind_ok]
  rw [collectRes_flatMap _ _ _ (fun i j => cellSpec a b m p i j)]
  · simp only [Res.bind_ok, reshape, mm22]
    rw [if_pos (by rw [length_flatMap_range]; simp)]
  · intro i hi j hj
    have hi' : i < n := by simpa using hi
    have hj' : j < p := by simpa using hj
    apply cell_ok
    · intro k hk; rw [hla]; exact idx2_lt hi' hk
    · intro k hk; rw [hlb]; exact idx2_lt hk hj'

theorem matmul22_eq (a b : A) (n m p : Nat) (ha : a.WF) (hb : b.WF)
    (hsa : a.shape = [n, m]) (hsb : b.shape = [m, p]) : matmul22 a b = .ok (mm22 a b n m p) := by
  unfold matmul22
  have : shapesAlign a.shape 1 b.shape 0 = .ok () := by simp [shapesAlign, hsa, hsb]
  rw [this]; simp only [Res.bind_ok]
  exact matmulIterate_eq a b n m p ha hb hsa hsb

theorem mm22_get (a b : A) (n m p i j : Nat) (hi : i < n) (hj : j < p) :
    (mm22 a b n m p).get? [i, j] = some (cellSpec a b m p i j) := by
  unfold Arr.get? mm22
  have : ravel [n, p] [i, j] = i * p + j := by simp [ravel]
  simp only [this]
  exact getElem?_flatMap_range n p _ i j hi hj

theorem cellSpec_eq_ent (a b : A) (n m p i j : Nat) (hsa : a.shape = [n, m]) (hsb : b.shape = [m, p]) :
    cellSpec a b m p i j = ∑ k ∈ range m, a.ent [i, k] * b.ent [k, j] := by
  unfold cellSpec
  apply Finset.sum_congr rfl
  intro k _
  rw [ent_eq_getD, ent_eq_getD, hsa, hsb]
  simp [ravel]

/-! ### explicit results of the vector arms of `matmul_1d_nd` -/

theorem vecMatCell_ok (a b : A) (n p j : Nat) (ha : n ≤ a.elems.length)
    (hb : ∀ i < n, i * p + j < b.elems.length) :
    vecMatCell a b n p j = .ok (∑ i ∈ range n, a.elems.getD i 0 * b.elems.getD (i * p + j) 0) := by
  unfold vecMatCell
  rw [foldRes_ok _ (fun acc i => acc + a.elems.getD i 0 * b.elems.getD (i * p + j) 0)]
  · rw [foldl_add_eq_sum]
  · intro i hi acc
    have hi' : i < n := by simpa using hi
    rw [idx_ok _ _ 0 (by omega : i < a.elems.length), idx_ok _ _ 0 (hb i hi')]; rfl

theorem matVecCell_ok (row : List Int) (b : A) (k : Nat) (hr : k ≤ row.length) (hb : k ≤ b.elems.length) :
    matVecCell row b k = .ok (∑ q ∈ range k, row.getD q 0 * b.elems.getD q 0) := by
  unfold matVecCell
  rw [foldRes_ok _ (fun acc q => acc + row.getD q 0 * b.elems.getD q 0)]
  · rw [foldl_add_eq_sum]
  · intro q hq acc
    have hq' : q < k := by simpa using hq
    rw [idx_ok _ _ 0 (by omega : q < row.length), idx_ok _ _ 0 (by omega : q < b.elems.length)]; rfl

/-- vector · matrix, explicitly -/
def vm12 (a b : A) (k p : Nat) : A :=
  Arr.flat ((List.range p).map (fun j => ∑ i ∈ range k, a.elems.getD i 0 * b.elems.getD (i * p + j) 0))

theorem matmul1dNd_vecmat (fuel : Nat) (a b : A) (k p : Nat) (ha : a.WF) (hb : b.WF)
    (hsa : a.shape = [k]) (hsb : b.shape = [k, p]) : matmul1dNd (fuel + 1) a b = .ok (vm12 a b k p) := by
  have hla : a.elems.length = k := by rw [ha, hsa]; simp
  have hlb := wf_len2 hb hsb
  unfold matmul1dNd
  simp only [Arr.ndim, hsa, hsb, List.length_cons, List.length_nil]
  simp only [Nat.zero_add, Nat.reduceAdd, if_true, Nat.lt_irrefl, if_false, Res.idx,
    List.getElem?_cons_zero, List.getElem?_cons_succ, Res.bind_ok]
  rw [collectRes_map _ _ (fun j => ∑ i ∈ range k, a.elems.getD i 0 * b.elems.getD (i * p + j) 0)]
  · rfl
  · intro j hj
    have hj' : j < p := by simpa using hj
    apply vecMatCell_ok
    · omega
    · intro i hi; rw [hlb]; exact idx2_lt hi hj'

/-- matrix · vector, explicitly -/
def mv21 (a b : A) (n k : Nat) : A :=
  Arr.flat ((List.range n).map (fun i => ∑ q ∈ range k, a.elems.getD (i * k + q) 0 * b.elems.getD q 0))

theorem matmul1dNd_matvec (fuel : Nat) (a b : A) (n k : Nat) (ha : a.WF) (hb : b.WF) (hn : 0 < n) (hk : 0 < k)
    (hsa : a.shape = [n, k]) (hsb : b.shape = [k]) : matmul1dNd (fuel + 1) a b = .ok (mv21 a b n k) := by
  have hla := wf_len2 ha hsa
  have hlb : b.elems.length = k := by rw [hb, hsb]; simp
  have hpos : 0 < n * k := Nat.mul_pos hn hk
  unfold matmul1dNd
  simp only [Arr.ndim, hsa, hsb, List.length_cons, List.length_nil]
  simp only [Nat.zero_add, Nat.reduceAdd, Nat.reduceEqDiff, if_false, Nat.lt_irrefl, splitAxis0, Arr.len, hla, hsa,
    Res.idx, List.getElem?_cons_zero, List.getElem?_cons_succ, Res.bind_ok, Nat.add_one_sub_one]
  rw [if_neg (by omega), if_neg (by omega)]
  simp only [Res.bind_ok, Nat.mul_div_cancel_left k hn, pieces, List.map_map]
  rw [collectRes_map _ _ (fun i => ∑ q ∈ range k, a.elems.getD (i * k + q) 0 * b.elems.getD q 0)]
  · rfl
  · intro i hi
    have hi' : i < n := by simpa using hi
    have hle : (i + 1) * k ≤ a.elems.length := by rw [hla]; exact Nat.mul_le_mul_right k hi'
    simp only [Function.comp]
    rw [matVecCell_ok _ b k (by rw [length_piece k a.elems i hle]) (by omega)]
    congr 1
    apply Finset.sum_congr rfl
    intro q hq
    rw [getD_piece k a.elems i q (by simpa using hq)]

/-! ### stacks of matrices -/

/-- the `t`-th matrix of a stack: elements `t*L .. (t+1)*L` -/
def slab (x : A) (L t : Nat) : List Int := (x.elems.drop (t * L)).take L

theorem getD_pieces (k : Nat) (xs : List Int) (cnt t : Nat) (ht : t < cnt) :
    (pieces k xs cnt).getD t [] = (xs.drop (t * k)).take k := by
  simp [pieces, List.getD_eq_getElem?_getD, ht]

theorem matmulSplit_stack (x : A) (s u v : Nat) (hx : x.WF) (hs : 0 < s) (hu : 0 < u) (hv : 0 < v)
    (hsx : x.shape = [s, u, v]) :
    matmulSplit x s (u * v) = .ok ((List.range s).map (fun t => (⟨slab x (u * v) t, [u, v]⟩ : A))) := by
  have hl := wf_len3 hx hsx
  have huv : 0 < u * v := Nat.mul_pos hu hv
  have hdiv : s * (u * v) / (u * v) = s := Nat.mul_div_cancel s huv
  have hdiv2 : s * (u * v) / s = u * v := Nat.mul_div_cancel_left _ hs
  unfold matmulSplit
  simp only [Arr.ndim, Arr.len, hsx, hl, hdiv, hdiv2, List.length_cons, List.length_nil, List.getElem?_cons_zero]
  rw [if_neg (by omega), if_neg (by omega)]
  simp only [Nat.mod_self, ne_eq, not_true_eq_false, if_false]
  apply collectRes_map
  intro t ht
  have ht' : t < s := by simpa using ht
  have hle : (t + 1) * (u * v) ≤ x.elems.length := by rw [hl]; exact Nat.mul_le_mul_right _ ht'
  rw [Nat.mod_eq_of_lt ht', getD_pieces _ _ _ _ ht']
  unfold reshapeUnwrap
  rw [if_pos (by rw [length_piece _ _ _ hle]; simp)]
  rfl

/-- the stack product, explicitly: the concatenation of the per-matrix products -/
def ms33 (a b : A) (s n m p : Nat) : A :=
  ⟨(List.range s).flatMap (fun t => (mm22 ⟨slab a (n * m) t, [n, m]⟩ ⟨slab b (m * p) t, [m, p]⟩ n m p).elems), [s, n, p]⟩

theorem slab_wf (x : A) (s u v t : Nat) (hx : x.WF) (hsx : x.shape = [s, u, v]) (ht : t < s) :
    (⟨slab x (u * v) t, [u, v]⟩ : A).WF := by
  have hl := wf_len3 hx hsx
  have hle : (t + 1) * (u * v) ≤ x.elems.length := by rw [hl]; exact Nat.mul_le_mul_right _ ht
  simp [Arr.WF, slab, length_piece _ _ _ hle]

theorem matmulNd_stack (a b : A) (s n m p : Nat) (ha : a.WF) (hb : b.WF)
    (hs : 0 < s) (hn : 0 < n) (hm : 0 < m) (hp : 0 < p)
    (hsa : a.shape = [s, n, m]) (hsb : b.shape = [s, m, p]) : matmulNd a b = .ok (ms33 a b s n m p) := by
  have hla := wf_len3 ha hsa
  have hlb := wf_len3 hb hsb
  have hnm : 0 < n * m := Nat.mul_pos hn hm
  have hmp : 0 < m * p := Nat.mul_pos hm hp
  unfold matmulNd
  simp only [Arr.ndim, Arr.len, hsa, hsb, hla, hlb, List.length_cons, List.length_nil, Res.idx]
  simp only [Nat.zero_add, Nat.reduceAdd, Nat.reduceSub, ge_iff_le, Nat.le_refl, if_true, List.getElem?_cons_succ,
    List.getElem?_cons_zero, Res.bind_ok, List.drop_succ_cons, List.drop_zero,
    List.prod_cons, List.prod_nil, Nat.mul_one]
  simp only [List.length_cons, List.length_nil, Nat.zero_add, Nat.reduceAdd, Nat.reduceLT, if_false, Nat.reduceSub,
    List.set_cons_succ, List.set_cons_zero]
  rw [if_neg (by omega)]
  simp only [Nat.mul_div_cancel s hnm, Nat.mul_div_cancel s hmp, Nat.max_self]
  rw [matmulSplit_stack a s n m ha hs hn hm hsa, matmulSplit_stack b s m p hb hs hm hp hsb]
  simp only [Res.bind_ok, List.zip_map', List.map_map]
  rw [collectRes_map _ _ (fun t => mm22 ⟨slab a (n * m) t, [n, m]⟩ ⟨slab b (m * p) t, [m, p]⟩ n m p)]
  · simp only [Res.bind_ok, reshape, List.flatMap_map, ms33]
    rw [if_pos]
    rw [length_flatMap_uniform _ _ (n * p) (by intro t _; simp [mm22])]
    simp
  · intro t ht
    have ht' : t < s := by simpa using ht
    simp only [Function.comp]
    exact matmul22_eq _ _ n m p (slab_wf a s n m t ha hsa ht') (slab_wf b s m p t hb hsb ht') rfl rfl

theorem ms33_get (a b : A) (s n m p t i j : Nat) (ht : t < s) (hi : i < n) (hj : j < p)
    (hsa : a.shape = [s, n, m]) (hsb : b.shape = [s, m, p]) :
    (ms33 a b s n m p).get? [t, i, j] = some (∑ k ∈ range m, a.ent [t, i, k] * b.ent [t, k, j]) := by
  unfold Arr.get? ms33
  have hr : ravel [s, n, p] [t, i, j] = t * (n * p) + (i * p + j) := by simp [ravel]
  simp only [hr]
  rw [getElem?_flatMap_uniform (List.range s) _ (n * p) (by intro t _; simp [mm22]) t
    (by simpa using ht) (i * p + j) (idx2_lt hi hj)]
  simp only [List.getElem_range, mm22]
  rw [getElem?_flatMap_range n p _ i j hi hj]
  congr 1
  unfold cellSpec
  apply Finset.sum_congr rfl
  intro k hk
  have hk' : k < m := by simpa using hk
  simp only [slab]
  rw [getD_piece _ _ _ _ (idx2_lt hi hk'), getD_piece _ _ _ _ (idx2_lt hk' hj), ent_eq_getD, ent_eq_getD, hsa, hsb]
  simp [ravel]

/-- the `t`-th matrix of the stack product is the product of the `t`-th matrices -/
theorem slab_ms33 (a b : A) (s n m p t : Nat) (ht : t < s) :
    slab (ms33 a b s n m p) (n * p) t
      = (mm22 ⟨slab a (n * m) t, [n, m]⟩ ⟨slab b (m * p) t, [m, p]⟩ n m p).elems := by
  have hlen : ∀ t, (mm22 ⟨slab a (n * m) t, [n, m]⟩ ⟨slab b (m * p) t, [m, p]⟩ n m p).elems.length = n * p := by
    intro t; simp [mm22]
  apply List.ext_getElem?
  intro q
  show (((ms33 a b s n m p).elems.drop (t * (n * p))).take (n * p))[q]? = _
  by_cases hq : q < n * p
  · rw [List.getElem?_take_of_lt hq, List.getElem?_drop]
    show ((List.range s).flatMap _)[t * (n * p) + q]? = _
    rw [getElem?_flatMap_uniform (List.range s) _ (n * p) (by intro t _; exact hlen t) t (by simpa using ht) q hq]
    simp
  · rw [List.getElem?_eq_none (by rw [List.length_take]; omega), List.getElem?_eq_none (by rw [hlen]; omega)]

/-! ### inner -/

theorem eraseIdx_concat_length (s : List Nat) (k : Nat) : (s ++ [k]).eraseIdx s.length = s := by
  induction s with
  | nil => rfl
  | cons d ds ih => simp [ih]

/-- row `u` of the array seen as a `prod(outer shape) × k` matrix -/
def row (x : A) (k u : Nat) : List Int := (x.elems.drop (u * k)).take k

theorem wf_len_concat {a : A} {sa : List Nat} {k : Nat} (hwf : a.WF) (hs : a.shape = sa ++ [k]) :
    a.elems.length = sa.prod * k := by
  rw [hwf, hs]; simp

theorem innerSplit_eq (a : A) (sa : List Nat) (k : Nat) (ha : a.WF) (hs : a.shape = sa ++ [k]) (hp : 0 < sa.prod)
    (hk : 0 < k) :
    innerSplit a = .ok ((List.range sa.prod).map (fun u => Arr.flat (row a k u))) := by
  have hl := wf_len_concat ha hs
  have hpos : sa.prod * k ≠ 0 := Nat.ne_of_gt (Nat.mul_pos hp hk)
  unfold innerSplit removeAt
  simp only [Arr.ndim, Arr.len, hs, List.length_append, List.length_cons, List.length_nil, Nat.zero_add,
    Nat.add_sub_cancel, Nat.lt_succ_self, if_true, Res.bind_ok, eraseIdx_concat_length, hl]
  rw [if_neg (by omega), if_neg hpos, Nat.mul_div_cancel_left k hp]
  simp [pieces, row]

theorem inner11_rows (ra rb : List Int) (h : ra.length = rb.length) (h0 : rb.length ≠ 0) :
    inner11 (Arr.flat ra) (Arr.flat rb) = .ok ⟨[sumProd ra rb], [1]⟩ := by
  unfold inner11 shapesAlign
  simp [Arr.flat, Arr.len, h, h0]

theorem length_row (x : A) (k u : Nat) (h : (u + 1) * k ≤ x.elems.length) : (row x k u).length = k :=
  length_piece k x.elems u h

/-- the inner product, explicitly -/
def inn (a b : A) (sa sb : List Nat) (k : Nat) : A :=
  ⟨(List.range sa.prod).flatMap (fun u => (List.range sb.prod).map (fun v => sumProd (row a k u) (row b k v))), sa ++ sb⟩

theorem innerNd_eq (a b : A) (sa sb : List Nat) (k : Nat) (ha : a.WF) (hb : b.WF)
    (hsa : a.shape = sa ++ [k]) (hsb : b.shape = sb ++ [k]) (hpa : 0 < sa.prod) (hpb : 0 < sb.prod) (hk : 0 < k) :
    innerNd a b = .ok (inn a b sa sb k) := by
  have hla := wf_len_concat ha hsa
  have hlb := wf_len_concat hb hsb
  unfold innerNd
  rw [innerSplit_eq a sa k ha hsa hpa hk, innerSplit_eq b sb k hb hsb hpb hk]
  simp only [removeAt, Arr.ndim, hsa, hsb, List.length_append, List.length_cons, List.length_nil, Nat.zero_add,
    Nat.add_sub_cancel, Nat.lt_succ_self, if_true, Res.bind_ok, eraseIdx_concat_length, List.flatMap_map, List.map_map]
  rw [collectRes_flatMap _ _ _ (fun u v => (⟨[sumProd (row a k u) (row b k v)], [1]⟩ : A))]
  · simp only [Res.bind_ok, reshape, inn, List.flatMap_assoc, List.flatMap_map, ← List.map_eq_flatMap]
    rw [if_pos (by rw [length_flatMap_range]; simp)]
  · intro u hu v hv
    have hu' : u < sa.prod := by simpa using hu
    have hv' : v < sb.prod := by simpa using hv
    simp only [Function.comp]
    have hlv := length_row b k v (by rw [hlb]; exact Nat.mul_le_mul_right k hv')
    apply inner11_rows
    · rw [length_row a k u (by rw [hla]; exact Nat.mul_le_mul_right k hu'), hlv]
    · rw [hlv]; omega

theorem inn_get (a b : A) (sa sb : List Nat) (k : Nat) (ha : a.WF) (hb : b.WF)
    (hsa : a.shape = sa ++ [k]) (hsb : b.shape = sb ++ [k]) (ca cb : List Nat)
    (hca : inRange sa ca = true) (hcb : inRange sb cb = true) :
    (inn a b sa sb k).get? (ca ++ cb) = some (∑ q ∈ range k, a.ent (ca ++ [q]) * b.ent (cb ++ [q])) := by
  have hla := wf_len_concat ha hsa
  have hlb := wf_len_concat hb hsb
  have hu := ravel_lt sa ca hca
  have hv := ravel_lt sb cb hcb
  have hlca := inRange_length sa ca hca
  have hlcb := inRange_length sb cb hcb
  unfold Arr.get? inn
  simp only [ravel_append sa ca sb cb hlca.symm]
  rw [getElem?_flatMap_range _ _ _ _ _ hu hv]
  congr 1
  have h1 : (row a k (ravel sa ca)).length = k := length_row a k _ (by rw [hla]; exact Nat.mul_le_mul_right k hu)
  have h2 : (row b k (ravel sb cb)).length = k := length_row b k _ (by rw [hlb]; exact Nat.mul_le_mul_right k hv)
  rw [sumProd_eq_sum _ _ (by rw [h1, h2]), h1]
  apply Finset.sum_congr rfl
  intro q hq
  have hq' : q < k := by simpa using hq
  simp only [row]
  rw [getD_piece _ _ _ _ hq', getD_piece _ _ _ _ hq', ent_eq_getD, ent_eq_getD, hsa, hsb,
    ravel_append sa ca [k] [q] hlca.symm, ravel_append sb cb [k] [q] hlcb.symm]
  simp [ravel]

/-! ### outer, vdot -/

theorem outer_eq (a b : A) :
    outer a b = .ok ⟨a.elems.flatMap (fun x => b.elems.map (fun y => x * y)), [a.len, b.len]⟩ := by
  unfold outer reshape
  rw [if_pos]
  rw [length_flatMap_uniform _ _ b.elems.length (by intro x _; simp)]
  simp [Arr.len]

theorem outer_get (a b : A) (i j : Nat) (hi : i < a.len) (hj : j < b.len) :
    (⟨a.elems.flatMap (fun x => b.elems.map (fun y => x * y)), [a.len, b.len]⟩ : A).get? [i, j]
      = some (a.elems.getD i 0 * b.elems.getD j 0) := by
  unfold Arr.get?
  have hr : ravel [a.len, b.len] [i, j] = i * b.elems.length + j := by simp [ravel, Arr.len]
  simp only [hr]
  rw [getElem?_flatMap_uniform a.elems _ b.elems.length (by intro x _; simp) i hi j hj]
  have hi' : i < a.elems.length := hi
  have hj' : j < b.elems.length := hj
  simp only [List.getD_eq_getElem?_getD, List.getElem?_eq_getElem hi', List.getElem?_eq_getElem hj',
    List.getElem?_map, Option.map_some, Option.getD_some]
  rfl

/-! ### the scalar arm of `dot` -/

theorem zipWith_ones_left (t : List Nat) :
    List.zipWith (fun d1 d2 => if d1 = 1 then d2 else d1) (List.replicate t.length 1) t = t := by
  induction t with
  | nil => rfl
  | cons d ds ih => simp [List.replicate_succ, ih]

theorem zipWith_ones_right (t : List Nat) :
    List.zipWith (fun d1 d2 => if d1 = 1 then d2 else d1) t (List.replicate t.length 1) = t := by
  induction t with
  | nil => rfl
  | cons d ds ih =>
    simp only [List.length_cons, List.replicate_succ, List.zipWith_cons_cons, ih]
    by_cases h : d = 1 <;> simp [h]

theorem bshape_ones_left (r : Nat) (t : List Nat) (h : r ≤ t.length) : bshape (List.replicate r 1) t = t := by
  unfold bshape
  simp only [List.length_replicate, List.reverse_replicate, Nat.max_eq_right h, Nat.sub_self, List.replicate_zero,
    List.append_nil, List.replicate_append_replicate, Nat.add_sub_cancel' h]
  have := zipWith_ones_left t.reverse
  rw [List.length_reverse] at this
  rw [this, List.reverse_reverse]

theorem bshape_ones_right (r : Nat) (t : List Nat) (h : r ≤ t.length) : bshape t (List.replicate r 1) = t := by
  unfold bshape
  simp only [List.length_replicate, List.reverse_replicate, Nat.max_eq_left h, Nat.sub_self, List.replicate_zero,
    List.append_nil, List.replicate_append_replicate, Nat.add_sub_cancel' h]
  have := zipWith_ones_right t.reverse
  rw [List.length_reverse] at this
  rw [this, List.reverse_reverse]

theorem bshape_ones_left' (r : Nat) (t : List Nat) :
    bshape (List.replicate r 1) t = List.replicate (r - t.length) 1 ++ t := by
  unfold bshape
  simp only [List.length_replicate, List.reverse_replicate, List.replicate_append_replicate]
  have h1 : r + (max r t.length - r) = max r t.length := by omega
  have h2 : max r t.length - t.length = r - t.length := by omega
  rw [h1, h2]
  have := zipWith_ones_left (t.reverse ++ List.replicate (r - t.length) 1)
  have hl : (t.reverse ++ List.replicate (r - t.length) 1).length = max r t.length := by simp; omega
  rw [hl] at this
  rw [this]; simp

theorem bshape_ones_right' (r : Nat) (t : List Nat) :
    bshape t (List.replicate r 1) = List.replicate (r - t.length) 1 ++ t := by
  unfold bshape
  simp only [List.length_replicate, List.reverse_replicate, List.replicate_append_replicate]
  have h1 : r + (max t.length r - r) = max t.length r := by omega
  have h2 : max t.length r - t.length = r - t.length := by omega
  rw [h1, h2]
  have := zipWith_ones_right (t.reverse ++ List.replicate (r - t.length) 1)
  have hl : (t.reverse ++ List.replicate (r - t.length) 1).length = max t.length r := by simp; omega
  rw [hl] at this
  rw [this]; simp

theorem ones_of_prod_eq_one : ∀ (s : List Nat), s.prod = 1 → s = List.replicate s.length 1
  | [], _ => rfl
  | d :: ds, h => by
    simp only [List.prod_cons] at h
    have h1 : d = 1 := Nat.eq_one_of_mul_eq_one_right h
    have h2 : ds.prod = 1 := Nat.eq_one_of_mul_eq_one_left h
    rw [List.length_cons, List.replicate_succ, ← ones_of_prod_eq_one ds h2, h1]

/-! ### `dot_1d` on a matrix and a vector -/

theorem getRows_eq (a : A) (n k : Nat) (hsa : a.shape = [n, k]) :
    getRows a = .ok ((List.range n).map (fun i => Arr.flat (row a k i))) := by
  unfold getRows
  simp [hsa, Res.idx, pieces, row]

/-- column `j` of a `k × p` matrix -/
def col (b : A) (k p j : Nat) : List Int := (List.range k).map (fun i => b.elems.getD (i * p + j) 0)

theorem getColumns_eq (b : A) (k p : Nat) (hsb : b.shape = [k, p]) :
    getColumns b = .ok ((List.range p).map (fun j => Arr.flat (col b k p j))) := by
  unfold getColumns
  simp [hsb, Res.idx, col]

theorem vdot_flat (ra : List Int) (b : A) (h : ra.length = b.elems.length) (h0 : b.elems.length ≠ 0) :
    vdot (Arr.flat ra) b = .ok ⟨[sumProd ra b.elems], [1]⟩ := by
  unfold vdot; simp [Arr.flat, Arr.len, h, h0]

theorem vdot_flat_right (a : A) (rb : List Int) (h : a.elems.length = rb.length) (h0 : rb.length ≠ 0) :
    vdot a (Arr.flat rb) = .ok ⟨[sumProd a.elems rb], [1]⟩ := by
  unfold vdot; simp [Arr.flat, Arr.len, h, h0]

theorem dot1d_matvec (a b : A) (n k : Nat) (ha : a.WF) (hb : b.WF) (hsa : a.shape = [n, k]) (hsb : b.shape = [k])
    (hk : 0 < k) :
    dot1d a b = .ok (Arr.flat ((List.range n).map (fun i => sumProd (row a k i) b.elems))) := by
  have hla := wf_len2 ha hsa
  have hlb : b.elems.length = k := by rw [hb, hsb]; simp
  unfold dot1d
  simp only [Arr.ndim, hsa, hsb, List.length_cons, List.length_nil, Nat.zero_add, Nat.reduceAdd, Nat.one_lt_ofNat,
    if_true, Nat.lt_irrefl, if_false, getRows_eq a n k hsa, Res.bind_ok, Res.pure_eq, dotIterate,
    List.map_cons, List.map_nil, List.flatMap_map]
  rw [← List.map_eq_flatMap, collectRes_map _ _ (fun i => (⟨[sumProd (row a k i) b.elems], [1]⟩ : A))]
  · simp only [Res.bind_ok, List.flatMap_map, ← List.map_eq_flatMap]
  · intro i hi
    have hi' : i < n := by simpa using hi
    apply vdot_flat
    · rw [length_row a k i (by rw [hla]; exact Nat.mul_le_mul_right k hi'), hlb]
    · rw [hlb]; omega

theorem dot1d_vecmat (a b : A) (k p : Nat) (ha : a.WF) (hsa : a.shape = [k]) (hsb : b.shape = [k, p]) (hk : 0 < k) :
    dot1d a b = .ok (Arr.flat ((List.range p).map (fun j => sumProd a.elems (col b k p j)))) := by
  have hla : a.elems.length = k := by rw [ha, hsa]; simp
  unfold dot1d
  simp only [Arr.ndim, hsa, hsb, List.length_cons, List.length_nil, Nat.zero_add, Nat.reduceAdd, Nat.one_lt_ofNat,
    if_true, Nat.lt_irrefl, if_false, getColumns_eq b k p hsb, Res.bind_ok, Res.pure_eq, dotIterate,
    List.flatMap_cons, List.flatMap_nil, List.append_nil, List.map_map]
  rw [collectRes_map _ _ (fun j => (⟨[sumProd a.elems (col b k p j)], [1]⟩ : A))]
  · simp only [Res.bind_ok, List.flatMap_map, ← List.map_eq_flatMap]
  · intro j _
    simp only [Function.comp]
    apply vdot_flat_right
    · simp [col, hla]
    · simp [col]; omega

theorem getD_col (b : A) (k p j i : Nat) (hi : i < k) : (col b k p j).getD i 0 = b.elems.getD (i * p + j) 0 := by
  simp [col, List.getD_eq_getElem?_getD, hi]

/-! ### every `ok` exit builds a well-formed array -/

theorem reshape_wf {e : List Int} {s : List Nat} {r : A} (h : reshape e s = .ok r) : r.WF := by
  unfold reshape at h
  split at h
  · cases h; simpa [Arr.WF] using (by assumption : s.prod = e.length).symm
  · cases h

theorem flat_wf (c : List Int) : (Arr.flat c).WF := by simp [Arr.flat, Arr.WF]

theorem vdot_wf {a b r : A} (h : vdot a b = .ok r) : r.WF := by
  unfold vdot at h
  split at h
  · split at h
    · cases h
    · cases h; simp [Arr.WF]
  · cases h

theorem matmul1dNd_wf (fuel : Nat) (a b r : A) (h : matmul1dNd fuel a b = .ok r) : r.WF := by
  cases fuel with
  | zero => simp [matmul1dNd] at h
  | succ fuel =>
    unfold matmul1dNd at h
    split at h
    · split at h
      · simp only [bind_eq_ok_iff] at h
        obtain ⟨_, _, _, _, _, _, h⟩ := h
        exact reshape_wf h
      · simp only [bind_eq_ok_iff] at h
        obtain ⟨_, _, _, _, _, _, h⟩ := h
        cases h; exact flat_wf _
    · split at h
      · simp only [bind_eq_ok_iff] at h
        obtain ⟨_, _, _, _, _, _, h⟩ := h
        exact reshape_wf h
      · simp only [bind_eq_ok_iff] at h
        obtain ⟨_, _, _, _, _, _, h⟩ := h
        cases h; exact flat_wf _

theorem matmul22_wf {a b r : A} (h : matmul22 a b = .ok r) : r.WF := by
  unfold matmul22 matmulIterate at h
  simp only [bind_eq_ok_iff] at h
  obtain ⟨_, _, _, _, _, _, _, _, _, _, h⟩ := h
  exact reshape_wf h

theorem matmulNd_wf {a b r : A} (h : matmulNd a b = .ok r) : r.WF := by
  unfold matmulNd at h
  simp only [bind_eq_ok_iff] at h
  obtain ⟨d1, _, d2, _, h⟩ := h
  by_cases h2 : (if a.ndim ≥ b.ndim then a.shape else b.shape).length < 2
  · rw [if_pos h2] at h; cases h
  · rw [if_neg h2] at h
    split at h
    · cases h
    · simp only [bind_eq_ok_iff] at h
      obtain ⟨_, _, _, _, _, _, h⟩ := h
      exact reshape_wf h

theorem prod_replicate_one (n : Nat) : (List.replicate n 1).prod = 1 := by
  induction n with
  | zero => rfl
  | succ n ih => simp [List.replicate_succ, ih]

theorem multiplyScalar_wf (a b r : A) (ha : a.WF) (hb : b.WF) (h : multiplyScalar a b = .ok r) : r.WF := by
  unfold multiplyScalar at h
  split at h
  · cases h
  · cases h
  · rename_i x hx _
    cases h
    have hs : a.shape = List.replicate a.ndim 1 := ones_of_prod_eq_one a.shape (by rw [← ha, hx]; rfl)
    simp only [Arr.WF, List.length_map]
    rw [hs, bshape_ones_left', List.prod_append, prod_replicate_one, Nat.one_mul, ← hb]
  · have hy : ∃ y, b.elems = [y] := ⟨_, by assumption⟩
    obtain ⟨y, hy⟩ := hy
    cases h
    have hs : b.shape = List.replicate b.ndim 1 := ones_of_prod_eq_one b.shape (by rw [← hb, hy]; rfl)
    simp only [Arr.WF, List.length_map]
    rw [hs, bshape_ones_right', List.prod_append, prod_replicate_one, Nat.one_mul, ← ha]
  · cases h

theorem dotIterate_wf {v1 v2 : List A} {r : A} (h : dotIterate v1 v2 = .ok r) : r.WF := by
  unfold dotIterate at h
  simp only [bind_eq_ok_iff] at h
  obtain ⟨_, _, h⟩ := h
  cases h; exact flat_wf _

theorem dot1d_wf {a b r : A} (h : dot1d a b = .ok r) : r.WF := by
  unfold dot1d at h
  by_cases h1 : a.ndim > 1 <;> by_cases h2 : b.ndim > 1 <;>
    simp only [h1, h2, if_true, if_false, bind_eq_ok_iff] at h <;>
    obtain ⟨_, _, _, _, h⟩ := h <;> exact dotIterate_wf h

end C14
end ArrModel
