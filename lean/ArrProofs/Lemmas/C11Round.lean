import ArrProofs.Lemmas.C11Concat
/-! C11: statements in whole coordinates (`c.set k …`), blocks of a flat list, the round trip -/
namespace ArrModel.C11
open ArrModel Arr
variable {α : Type}

/-! ### a shape cut at an axis inside the rank -/

theorem shape_cut (s : List Nat) (k : Nat) (hk : k < s.length) :
    s = s.take k ++ s.getD k 0 :: s.drop (k + 1) ∧ (s.take k).length = k := ⟨cut_at s k hk, length_take_of_lt s k hk⟩

theorem not_mem_take (s : List Nat) (k : Nat) (h : 0 ∉ s) : 0 ∉ s.take k := fun hm => h (List.mem_of_mem_take hm)
theorem not_mem_drop (s : List Nat) (k : Nat) (h : 0 ∉ s) : 0 ∉ s.drop k := fun hm => h (List.mem_of_mem_drop hm)

theorem not_mem_of_eraseIdx (s : List Nat) (k : Nat) (h : 0 ∉ s.eraseIdx k) : 0 ∉ s.take k ∧ 0 ∉ s.drop (k + 1) := by
  rw [List.eraseIdx_eq_take_drop_succ] at h
  simp only [List.mem_append, not_or] at h
  exact h

/-! ### `array_split` in whole coordinates -/

/-- **`array_split` along axis `k`**: `parts` pieces; piece `i` is the input with axis `k` cut down to
`sizes[i]`, and its element at `c` is the input element at `c` shifted by the block offset along axis `k` -/
theorem arraySplit_coord (a : Arr α) (zero : α) (parts k : Nat) (hwf : a.WF) (hnz : 0 ∉ a.shape) (hp : 0 < parts)
    (hk : k < a.ndim) :
    ∃ pieces, a.arraySplit zero parts (some k) = .ok pieces ∧ pieces.length = parts ∧
      ∀ i (hi : i < pieces.length),
        pieces[i].shape = a.shape.set k ((sectionSizes (a.shape.getD k 0) parts).getD i 0) ∧ pieces[i].WF ∧
        ∀ c, inRange pieces[i].shape c = true →
          pieces[i].get? c = a.get? (c.set k (((sectionSizes (a.shape.getD k 0) parts).take i).sum + c.getD k 0)) := by
  obtain ⟨hs, hPl⟩ := shape_cut a.shape k hk
  generalize a.shape.take k = P at hs hPl
  generalize a.shape.drop (k + 1) = Q at hs
  generalize a.shape.getD k 0 = n at hs ⊢
  subst hPl
  obtain ⟨pieces, h1, h2, h3⟩ := arraySplit_cut a zero parts n P Q hwf hs hnz hp
  refine ⟨pieces, h1, h2, ?_⟩
  intro i hi
  obtain ⟨g1, g2, g3⟩ := h3 i hi
  refine ⟨by rw [g1, hs, set_mid], g2, ?_⟩
  intro c hc
  rw [g1] at hc
  obtain ⟨p, j, q, rfl, hp', hj, hq⟩ := inRange_cut _ _ _ _ hc
  have hpl : P.length = p.length := (inRange_length _ _ hp').symm
  rw [hpl, set_mid, getD_mid]
  exact g3 p q j hp' hq hj

/-- the default axis is axis 0 — for every rank (a rank-0 receiver is refused either way: the DEFAULTED axis is validated) -/
theorem arraySplit_none (a : Arr α) (zero : α) (parts : Nat) :
    a.arraySplit zero parts none = a.arraySplit zero parts (some 0) := by
  unfold Arr.arraySplit
  simp only [Option.getD_none, Option.getD_some]

theorem split_none (a : Arr α) (zero : α) (parts : Nat) :
    a.split zero parts none = a.split zero parts (some 0) := by
  unfold Arr.split
  simp only [Option.getD_none, Option.getD_some, arraySplit_none]

/-! ### `concatenate` in whole coordinates -/

/-- **`concatenate` along axis `k`** of inputs that agree off the axis -/
theorem concatenate_coord (zero : α) (k : Nat) (a0 : Arr α) (rest : List (Arr α))
    (h : ∀ b ∈ a0 :: rest, b.WF ∧ k < b.ndim ∧ b.shape.eraseIdx k = a0.shape.eraseIdx k) :
    ∃ r, concatenate (a0 :: rest) zero (some k) = .ok r ∧
      r.shape = a0.shape.set k (((a0 :: rest).map (axLen k)).sum) ∧ r.WF ∧
      ∀ i (hi : i < (a0 :: rest).length) c, inRange ((a0 :: rest)[i]).shape c = true →
        r.get? (c.set k (offsetOf k (a0 :: rest) i + c.getD k 0)) = ((a0 :: rest)[i]).get? c := by
  have hk0 : k < a0.shape.length := (h a0 List.mem_cons_self).2.1
  obtain ⟨hs, hPl⟩ := shape_cut a0.shape k hk0
  have her : a0.shape.eraseIdx k = a0.shape.take k ++ a0.shape.drop (k + 1) := List.eraseIdx_eq_take_drop_succ _ _
  generalize a0.shape.take k = P at hs hPl her
  generalize a0.shape.drop (k + 1) = Q at hs her
  subst hPl
  have hcut : ∀ b ∈ a0 :: rest, b.WF ∧ b.shape = P ++ axLen P.length b :: Q := by
    intro b hb
    obtain ⟨g1, g2, g3⟩ := h b hb
    exact ⟨g1, shape_cut_of_eraseIdx b.shape P.length P Q g2 rfl (by rw [g3, her])⟩
  obtain ⟨r, h1, h2, h3, h4⟩ := concatenate_cut zero P Q a0 rest hcut
  refine ⟨r, h1, ?_, h3, ?_⟩
  · rw [h2, hs, set_mid]
  · intro i hi c hc
    rw [(hcut _ (List.getElem_mem hi)).2] at hc
    obtain ⟨p, j, q, rfl, hp', hj, hq⟩ := inRange_cut _ _ _ _ hc
    have hpl : P.length = p.length := (inRange_length _ _ hp').symm
    have := h4 i hi p q j hp' hq hj
    rw [hpl] at this ⊢
    rw [set_mid, getD_mid]
    exact this

/-! ### consecutive blocks of a flat list -/

/-- chaining the first `m` blocks gives the prefix up to the `m`-th division point -/
theorem flatMap_blocks (L : List α) (sizes : List Nat) : ∀ m, m ≤ sizes.length →
    (List.range m).flatMap (fun i => (L.drop (sizes.take i).sum).take (sizes.getD i 0)) = L.take (sizes.take m).sum
  | 0, _ => by simp
  | m + 1, hm => by
    rw [List.range_succ, List.flatMap_append, flatMap_blocks L sizes m (by omega)]
    have hg : sizes.getD m 0 = sizes[m] := by simp [List.getD_eq_getElem?_getD, (by omega : m < sizes.length)]
    simp only [List.flatMap_cons, List.flatMap_nil, List.append_nil, hg]
    rw [sum_take_succ sizes m (by omega), List.take_add]

/-- every position below the total lies in exactly one block -/
theorem find_block (sizes : List Nat) (j : Nat) : ∀ m, m ≤ sizes.length → j < (sizes.take m).sum →
    ∃ i, i < m ∧ (sizes.take i).sum ≤ j ∧ j < (sizes.take i).sum + sizes.getD i 0
  | 0, _, h => by simp at h
  | m + 1, hm, h => by
    have hg : sizes.getD m 0 = sizes[m] := by simp [List.getD_eq_getElem?_getD, (by omega : m < sizes.length)]
    by_cases hj : j < (sizes.take m).sum
    · obtain ⟨i, h1, h2⟩ := find_block sizes j m (by omega) hj
      exact ⟨i, by omega, h2⟩
    · rw [sum_take_succ sizes m (by omega)] at h
      exact ⟨m, by omega, by omega, by rw [hg]; exact h⟩

/-! ### `concatenate(…, None)` -/

theorem foldAppend_none (zero : α) : ∀ (rest : List (Arr α)) (a0 : Arr α),
    foldAppend a0 rest zero none = .ok (rest.foldl appendFlat' a0)
  | [], _ => rfl
  | b :: rest, a0 => by
    have := foldAppend_none zero rest (a0.appendFlat' b)
    simp only [foldAppend, List.foldl_cons, Res.bind_ok, Arr.append] at this ⊢
    exact this

theorem foldl_appendFlat_elems : ∀ (rest : List (Arr α)) (a0 : Arr α),
    (rest.foldl appendFlat' a0).elems = a0.elems ++ rest.flatMap (·.elems)
  | [], _ => by simp
  | b :: rest, a0 => by
    simp only [List.foldl_cons, foldl_appendFlat_elems rest, appendFlat', Arr.flat, List.flatMap_cons, List.append_assoc]

theorem foldl_appendFlat_shape : ∀ (rest : List (Arr α)) (a0 b : Arr α),
    ((b :: rest).foldl appendFlat' a0).shape = [((b :: rest).foldl appendFlat' a0).elems.length]
  | [], _, _ => rfl
  | c :: rest, a0, b => by
    have := foldl_appendFlat_shape rest (a0.appendFlat' b) c
    simpa only [List.foldl_cons] using this

end ArrModel.C11
