import ArrModel.C19
/-!
# Lemmas for C19 (bit packing)
-/
namespace ArrModel.C19
open ArrModel

/-! ### the finite table -/

/-- all 512 rows `(byte, order)`: packing the eight unpacked bits gives the byte back.  The quantifier is a
genuinely finite table; the kernel evaluates every row. -/
theorem packGroup_unpackByte : ∀ b, b < 256 → ∀ o : BitOrder, packGroup o (unpackByte o b) = .ok b := by
  intro b hb o
  cases o
  · revert b; decide +kernel
  · revert b; decide +kernel

set_option synthInstance.maxSize 4096 in
set_option synthInstance.maxHeartbeats 400000 in
/-- the other direction, all 2·256 rows `(eight bits, order)` -/
theorem unpackByte_packGroup : ∀ o : BitOrder,
    ∀ x0, x0 < 2 → ∀ x1, x1 < 2 → ∀ x2, x2 < 2 → ∀ x3, x3 < 2 → ∀ x4, x4 < 2 → ∀ x5, x5 < 2 → ∀ x6, x6 < 2 → ∀ x7, x7 < 2 →
      (packGroup o [x0, x1, x2, x3, x4, x5, x6, x7]).map (unpackByte o) = .ok [x0, x1, x2, x3, x4, x5, x6, x7] := by
  intro o
  cases o
  · decide +kernel
  · decide +kernel

theorem unpackByte_length (o : BitOrder) (b : Nat) : (unpackByte o b).length = 8 := by
  unfold unpackByte; cases o <;> simp

theorem unpackFlat_length (o : BitOrder) : ∀ bs : List Nat, (unpackFlat o bs).length = 8 * bs.length
  | [] => by simp [unpackFlat]
  | b :: bs => by
    have ih := unpackFlat_length o bs
    simp only [unpackFlat, List.flatMap_cons, List.length_append, unpackByte_length] at ih ⊢
    rw [ih, List.length_cons]; omega

theorem unpackFlat_cons (o : BitOrder) (b : Nat) (bs : List Nat) :
    unpackFlat o (b :: bs) = unpackByte o b ++ unpackFlat o bs := by
  simp [unpackFlat]

/-- every unpacked element is a bit -/
theorem unpackByte_bits (o : BitOrder) (b : Nat) : ∀ x ∈ unpackByte o b, x < 2 := by
  intro x hx
  have h1 : ∀ idx : Nat, (b >>> idx) &&& 1 < 2 := fun idx => by
    have := @Nat.and_le_right (b >>> idx) 1; omega
  unfold unpackByte at hx
  cases o <;> simp only [List.mem_map, List.mem_reverse, if_true, reduceCtorEq, if_false] at hx <;>
    obtain ⟨i, _, rfl⟩ := hx <;> exact h1 i

/-! ### packing, one group at a time -/

theorem pad8_of_dvd (xs : List Nat) (h : xs.length % 8 = 0) : pad8 xs = xs := by
  simp [pad8, h]

theorem pad8_length_mod (xs : List Nat) : (pad8 xs).length % 8 = 0 := by
  unfold pad8; split
  · simp only [List.length_append, List.length_replicate]; omega
  · omega

theorem pad8_idem (xs : List Nat) : pad8 (pad8 xs) = pad8 xs := pad8_of_dvd _ (pad8_length_mod xs)

theorem pad8_append8 (g rest : List Nat) (hg : g.length = 8) : pad8 (g ++ rest) = g ++ pad8 rest := by
  unfold pad8
  have : (g ++ rest).length % 8 = rest.length % 8 := by simp [hg]
  rw [this]; split <;> simp

theorem group8_zero (g rest : List Nat) (hg : g.length = 8) : group8 (g ++ rest) 0 = .ok g := by
  unfold group8; simp [hg]

theorem group8_succ (g rest : List Nat) (hg : g.length = 8) (p : Nat) :
    group8 (g ++ rest) (p + 1) = group8 rest p := by
  unfold group8
  have h1 : (p + 1 + 1) * 8 ≤ (g ++ rest).length ↔ (p + 1) * 8 ≤ rest.length := by
    simp only [List.length_append, hg]; omega
  have h2 : List.drop ((p + 1) * 8) (g ++ rest) = List.drop (p * 8) rest := by
    rw [List.drop_append]; simp [hg]
    have : (p + 1) * 8 - 8 = p * 8 := by omega
    rw [List.drop_eq_nil_of_le (by omega), this]; simp
  by_cases h : (p + 1) * 8 ≤ rest.length
  · rw [if_pos (h1.2 h), if_pos h, h2]
  · rw [if_neg (fun h' => h (h1.1 h')), if_neg h]

theorem mapM'_cons {α β} (f : α → Res β) (x : α) (xs : List α) :
    Res.mapM' f (x :: xs) = (f x >>= fun b => Res.mapM' f xs >>= fun bs => .ok (b :: bs)) := rfl

theorem mapM'_map {α β γ} (f : β → Res γ) (g : α → β) (xs : List α) :
    Res.mapM' f (xs.map g) = Res.mapM' (fun x => f (g x)) xs := by
  simp [Res.mapM', List.map_map, Function.comp_def]

theorem mapM'_congr {α β} (f g : α → Res β) (xs : List α) (h : ∀ x ∈ xs, f x = g x) :
    Res.mapM' f xs = Res.mapM' g xs := by
  unfold Res.mapM'; rw [List.map_congr_left h]

/-- **one step of the packing loop**: the first eight elements make the first byte -/
theorem packFlat_append8 (o : BitOrder) (g rest : List Nat) (hg : g.length = 8) :
    packFlat o (g ++ rest) = (packGroup o g >>= fun b => packFlat o rest >>= fun bs => .ok (b :: bs)) := by
  unfold packFlat
  simp only [pad8_append8 g rest hg]
  have hl : (g ++ pad8 rest).length / 8 = (pad8 rest).length / 8 + 1 := by
    simp only [List.length_append, hg]; omega
  rw [hl, List.range_succ_eq_map, mapM'_cons, group8_zero _ _ hg, mapM'_map]
  simp only [Res.bind_ok]
  congr 1
  funext b
  congr 1
  exact mapM'_congr _ _ _ (fun p _ => by rw [group8_succ _ _ hg])

theorem packFlat_nil (o : BitOrder) : packFlat o [] = .ok [] := by
  simp [packFlat, pad8, Res.mapM', Res.sequence]

/-- **pack ∘ unpack = id on byte lists** -/
theorem packFlat_unpackFlat (o : BitOrder) : ∀ bs : List Nat, (∀ b ∈ bs, b < 256) →
    packFlat o (unpackFlat o bs) = .ok bs
  | [], _ => by simp [unpackFlat, packFlat_nil]
  | b :: bs, h => by
    rw [unpackFlat_cons, packFlat_append8 _ _ _ (unpackByte_length o b),
      packGroup_unpackByte b (h b (by simp)) o,
      packFlat_unpackFlat o bs (fun x hx => h x (by simp [hx]))]
    rfl

/-- the number of bytes produced: `⌈len / 8⌉` -/
theorem packFlat_length (o : BitOrder) (xs r : List Nat) (h : packFlat o xs = .ok r) :
    r.length = (xs.length + 7) / 8 := by
  unfold packFlat at h
  have hlen : ∀ {α β} (f : α → Res β) (l : List α) (r : List β), Res.mapM' f l = .ok r → r.length = l.length := by
    intro α β f l
    induction l with
    | nil => intro r h; simp [Res.mapM', Res.sequence] at h; subst h; rfl
    | cons x xs ih =>
      intro r h
      rw [mapM'_cons] at h
      cases hx : f x with
      | ok b =>
        rw [hx] at h; simp only [Res.bind_ok] at h
        cases hxs : Res.mapM' f xs with
        | ok bs => rw [hxs] at h; simp only [Res.bind_ok] at h; cases h; simp [ih bs hxs]
        | err e => rw [hxs] at h; cases h
        | panic => rw [hxs] at h; cases h
      | err e => rw [hx] at h; cases h
      | panic => rw [hx] at h; cases h
  have := hlen _ _ _ h
  rw [this, List.length_range]
  unfold pad8; split
  · simp only [List.length_append, List.length_replicate]; omega
  · omega

/-! ### unpack ∘ pack on bit lists -/

theorem res_map_ok {α β} (x : Res α) (f : α → β) (y : β) (h : x.map f = .ok y) : ∃ b, x = .ok b ∧ f b = y := by
  cases x with
  | ok b => exact ⟨b, rfl, by simpa [Res.map] using h⟩
  | err e => simp [Res.map] at h
  | panic => simp [Res.map] at h

theorem unpack_packGroup8 (o : BitOrder) (g : List Nat) (hg : g.length = 8) (hb : ∀ x ∈ g, x < 2) :
    (packGroup o g).map (unpackByte o) = .ok g := by
  match g, hg with
  | [x0, x1, x2, x3, x4, x5, x6, x7], _ =>
    exact unpackByte_packGroup o x0 (hb _ (by simp)) x1 (hb _ (by simp)) x2 (hb _ (by simp)) x3 (hb _ (by simp))
      x4 (hb _ (by simp)) x5 (hb _ (by simp)) x6 (hb _ (by simp)) x7 (hb _ (by simp))

theorem unpackFlat_packFlat_mul8 (o : BitOrder) : ∀ (k : Nat) (xs : List Nat), xs.length = 8 * k →
    (∀ x ∈ xs, x < 2) → (packFlat o xs).map (unpackFlat o) = .ok xs
  | 0, xs, hl, _ => by
    have : xs = [] := List.eq_nil_of_length_eq_zero (by omega)
    subst this; rw [packFlat_nil]; rfl
  | k + 1, xs, hl, hb => by
    have hsplit : xs = xs.take 8 ++ xs.drop 8 := (List.take_append_drop 8 xs).symm
    have hg : (xs.take 8).length = 8 := by rw [List.length_take]; omega
    have hr : (xs.drop 8).length = 8 * k := by rw [List.length_drop]; omega
    obtain ⟨b, hb1, hb2⟩ := res_map_ok _ _ _ (unpack_packGroup8 o (xs.take 8) hg
      (fun x hx => hb x (List.mem_of_mem_take hx)))
    obtain ⟨bs, hbs1, hbs2⟩ := res_map_ok _ _ _ (unpackFlat_packFlat_mul8 o k (xs.drop 8) hr
      (fun x hx => hb x (List.mem_of_mem_drop hx)))
    rw [hsplit, packFlat_append8 o _ _ hg, hb1, hbs1]
    simp only [Res.bind_ok, Res.map, unpackFlat_cons, hb2, hbs2]

theorem pad8_bits (xs : List Nat) (hb : ∀ x ∈ xs, x < 2) : ∀ x ∈ pad8 xs, x < 2 := by
  intro x hx
  unfold pad8 at hx
  split at hx
  · rcases List.mem_append.1 hx with h | h
    · exact hb x h
    · have := (List.mem_replicate.1 h).2; omega
  · exact hb x hx

/-- **unpack ∘ pack = zero-padding** on lists of bits -/
theorem unpackFlat_packFlat (o : BitOrder) (xs : List Nat) (hb : ∀ x ∈ xs, x < 2) :
    (packFlat o xs).map (unpackFlat o) = .ok (pad8 xs) := by
  have h1 : packFlat o xs = packFlat o (pad8 xs) := by unfold packFlat; simp only [pad8_idem]
  rw [h1]
  have hm := pad8_length_mod xs
  exact unpackFlat_packFlat_mul8 o ((pad8 xs).length / 8) (pad8 xs) (by omega) (pad8_bits xs hb)

theorem take_pad8 (xs : List Nat) : (pad8 xs).take xs.length = xs := by
  unfold pad8; split <;> simp

/-! ### values > 1 count as set bits -/

def norm (i : Nat) : Nat := if i > 0 then 1 else 0

theorem bitChar_norm (i : Nat) : bitChar (norm i) = bitChar i := by
  unfold bitChar norm; split <;> simp_all

theorem packGroup_norm (o : BitOrder) (g : List Nat) : packGroup o (g.map norm) = packGroup o g := by
  unfold packGroup
  simp [List.map_map, Function.comp_def, bitChar_norm]

/-! ### slices -/

theorem slice1_full (xs : List Nat) : slice1 xs 0 xs.length = .ok (Arr.flat xs) := by
  simp [slice1]

theorem slice1_ok (xs : List Nat) (hi : Nat) (h : hi ≤ xs.length) : slice1 xs 0 hi = .ok (Arr.flat (xs.take hi)) := by
  simp [slice1, h]

theorem slice1_err (xs : List Nat) (hi : Nat) (h : xs.length < hi) : slice1 xs 0 hi = .err .OutOfBounds := by
  simp [slice1]; omega

/-! ### `binary_repr` -/

/-- value of a most-significant-first digit list -/
def ofDigitsBE (ds : List Nat) : Nat := ds.foldl (fun acc d => acc * 2 + d) 0

/-- value of a least-significant-first digit list -/
def ofDigitsLE : List Nat → Nat
  | [] => 0
  | d :: ds => d + 2 * ofDigitsLE ds

theorem foldl_digits_append (ds : List Nat) (d v : Nat) :
    (ds ++ [d]).foldl (fun acc d => acc * 2 + d) v = (ds.foldl (fun acc d => acc * 2 + d) v) * 2 + d := by
  simp [List.foldl_append]

theorem ofDigitsBE_reverse : ∀ ds : List Nat, ofDigitsBE ds.reverse = ofDigitsLE ds
  | [] => rfl
  | d :: ds => by
    have ih := ofDigitsBE_reverse ds
    unfold ofDigitsBE at ih ⊢
    rw [List.reverse_cons, foldl_digits_append, ih, ofDigitsLE]; omega

theorem reprLoop_value : ∀ (fuel x : Nat), x < fuel → ofDigitsLE (reprLoop fuel x) = x
  | 0, _, h => by omega
  | fuel + 1, x, h => by
    unfold reprLoop
    by_cases h0 : x / 2 = 0
    · simp only [h0, if_true, ofDigitsLE]; omega
    · simp only [h0, if_false, ofDigitsLE]
      rw [reprLoop_value fuel (x / 2) (by omega)]; omega

theorem reprLoop_digits : ∀ (fuel x : Nat), ∀ d ∈ reprLoop fuel x, d < 2
  | 0, _ => by simp [reprLoop]
  | fuel + 1, x => by
    intro d hd
    unfold reprLoop at hd
    simp only [List.mem_cons] at hd
    rcases hd with rfl | hd
    · omega
    · split at hd
      · simp at hd
      · exact reprLoop_digits fuel _ d hd

theorem reprLoop_ne_nil (fuel x : Nat) : reprLoop (fuel + 1) x ≠ [] := by simp [reprLoop]

theorem parse_fold_digits : ∀ (ds : List Nat) (v : Nat), (∀ d ∈ ds, d < 2) →
    (ds.map digitChar).foldl (fun acc c => acc.bind fun v =>
      if c = '0' then some (v * 2) else if c = '1' then some (v * 2 + 1) else none) (some v)
      = some (ds.foldl (fun acc d => acc * 2 + d) v)
  | [], v, _ => rfl
  | d :: ds, v, h => by
    have hd : d < 2 := h d (by simp)
    simp only [List.map_cons, List.foldl_cons]
    have : d = 0 ∨ d = 1 := by omega
    rcases this with rfl | rfl
    · simp only [digitChar, if_true, Option.bind_some]
      exact parse_fold_digits ds _ (fun x hx => h x (by simp [hx]))
    · have h1 : digitChar 1 = '1' := by decide
      have h2 : ('1' = '0') = False := by decide
      simp only [h1, h2, if_false, if_true, Option.bind_some]
      exact parse_fold_digits ds _ (fun x hx => h x (by simp [hx]))

/-- a non-empty text of binary digits parses to its value -/
theorem parseRadix2_digits (ds : List Nat) (hne : ds ≠ []) (h : ∀ d ∈ ds, d < 2) :
    parseRadix2 (ds.map digitChar) = some (ofDigitsBE ds) := by
  unfold parseRadix2
  rw [if_neg (by simpa using hne)]
  exact parse_fold_digits ds 0 h

theorem binaryDigits_value (n : Nat) : ofDigitsBE (binaryDigits n) = n := by
  unfold binaryDigits
  rw [ofDigitsBE_reverse, reprLoop_value _ _ (by omega)]

/-- a most-significant-first list of `k` binary digits is below `2^k` -/
theorem foldl_digits_lt : ∀ (ds : List Nat) (v : Nat), (∀ d ∈ ds, d < 2) →
    ds.foldl (fun acc d => acc * 2 + d) v < (v + 1) * 2 ^ ds.length
  | [], v, _ => by simp
  | d :: ds, v, h => by
    have hd : d < 2 := h d (by simp)
    have ih := foldl_digits_lt ds (v * 2 + d) (fun x hx => h x (by simp [hx]))
    simp only [List.foldl_cons, List.length_cons]
    have : (v * 2 + d + 1) * 2 ^ ds.length ≤ (v + 1) * 2 ^ (ds.length + 1) := by
      rw [Nat.pow_succ, Nat.mul_comm (2 ^ ds.length) 2, ← Nat.mul_assoc]
      exact Nat.mul_le_mul_right _ (by omega)
    omega

theorem bitChar_eq_digitChar (i : Nat) : bitChar i = digitChar (norm i) := by
  unfold bitChar digitChar norm; split <;> simp_all

/-- a group of eight always packs (the `unwrap` cannot fail) -/
theorem packGroup_total (o : BitOrder) (g : List Nat) (hg : g.length = 8) : ∃ b, packGroup o g = .ok b := by
  obtain ⟨ds, hds, hlen, hbits⟩ : ∃ ds : List Nat,
      (if o = .little then (g.map bitChar).reverse else g.map bitChar) = ds.map digitChar ∧ ds.length = 8 ∧ ∀ d ∈ ds, d < 2 := by
    by_cases ho : o = .little
    · refine ⟨(g.map norm).reverse, by simp [ho, List.map_reverse, bitChar_eq_digitChar, Function.comp_def], by simp [hg], ?_⟩
      intro d hd; simp only [List.mem_reverse, List.mem_map] at hd
      obtain ⟨i, _, rfl⟩ := hd; unfold norm; split <;> omega
    · refine ⟨g.map norm, by simp [ho, bitChar_eq_digitChar, Function.comp_def], by simp [hg], ?_⟩
      intro d hd; simp only [List.mem_map] at hd
      obtain ⟨i, _, rfl⟩ := hd; unfold norm; split <;> omega
  have hne : ds ≠ [] := by intro e; rw [e] at hlen; simp at hlen
  have hv : ofDigitsBE ds < 2 ^ 8 := by
    have := foldl_digits_lt ds 0 hbits
    rw [hlen] at this; simpa [ofDigitsBE] using this
  refine ⟨ofDigitsBE ds, ?_⟩
  unfold packGroup
  simp only [hds, parseRadix2U, parseRadix2_digits ds hne hbits, Option.bind_some, hv, if_true, Res.unwrap]

theorem mapM'_total {α β} (f : α → Res β) : ∀ xs : List α, (∀ x ∈ xs, ∃ y, f x = .ok y) → ∃ ys, Res.mapM' f xs = .ok ys
  | [], _ => ⟨[], rfl⟩
  | x :: xs, h => by
    obtain ⟨y, hy⟩ := h x (by simp)
    obtain ⟨ys, hys⟩ := mapM'_total f xs (fun x' hx' => h x' (by simp [hx']))
    exact ⟨y :: ys, by rw [mapM'_cons, hy]; simp only [Res.bind_ok]; rw [hys]; rfl⟩

/-- **packing never fails**, whatever the values and the length -/
theorem packFlat_total (o : BitOrder) (xs : List Nat) : ∃ r, packFlat o xs = .ok r := by
  unfold packFlat
  apply mapM'_total
  intro p hp
  have hp' : p < (pad8 xs).length / 8 := by simpa using hp
  have hle : (p + 1) * 8 ≤ (pad8 xs).length := by have := pad8_length_mod xs; omega
  have hg : group8 (pad8 xs) p = .ok (((pad8 xs).drop (p * 8)).take 8) := by simp [group8, hle]
  obtain ⟨b, hb⟩ := packGroup_total o (((pad8 xs).drop (p * 8)).take 8) (by simp [List.length_take, List.length_drop]; omega)
  exact ⟨b, by rw [hg]; simpa using hb⟩

theorem two_pow_pred (w : Nat) (hw : 0 < w) : 2 ^ w = 2 * 2 ^ (w - 1) := by
  cases w with
  | zero => omega
  | succ k => simp [Nat.pow_succ]; omega

/-! ### the order of the checks in `unpack_bits` / `pack_bits` (commit 97c65b7): order, axis, empty shortcut -/

theorem axisCheck_ok (ndim : Nat) (ax : Int) (hk : normalizeAxis ndim ax < ndim) :
    axisCheck ndim (some ax) = .ok () := by
  simp only [axisCheck, ge_iff_le]; rw [if_neg (by omega)]

theorem axisCheck_err (ndim : Nat) (ax : Int) (hk : ndim ≤ normalizeAxis ndim ax) :
    axisCheck ndim (some ax) = .err .AxisOutOfBounds := by
  simp only [axisCheck, ge_iff_le]; rw [if_pos hk]

/-- accepted order, in-range axis, non-empty array: `unpack_bits` is `apply_along_axis` with the lane function -/
theorem unpackBits_axis (along : Along) (a : Arr Nat) (ax : Int) (count : Option Int) (ord : Option Spelling)
    (o : BitOrder) (ho : optOrder ord = .ok o) (hk : normalizeAxis a.ndim ax < a.ndim) (hne : a.isEmpty = false) :
    unpackBits along a (some ax) count ord = along a (normalizeAxis a.ndim ax) (unpackLane o count) := by
  simp only [unpackBits, ho, axisCheck_ok _ _ hk, hne, Bool.false_eq_true, if_false]

theorem packBits_axis (along : Along) (a : Arr Nat) (ax : Int) (ord : Option Spelling)
    (o : BitOrder) (ho : optOrder ord = .ok o) (hk : normalizeAxis a.ndim ax < a.ndim) (hne : a.isEmpty = false) :
    packBits along a (some ax) ord = along a (normalizeAxis a.ndim ax) (packLane o) := by
  simp only [packBits, ho, axisCheck_ok _ _ hk, hne, Bool.false_eq_true, if_false]

/-- accepted order, flat form, non-empty array -/
theorem unpackBits_flat (along : Along) (a : Arr Nat) (count : Option Int) (ord : Option Spelling)
    (o : BitOrder) (ho : optOrder ord = .ok o) (hne : a.isEmpty = false) :
    unpackBits along a none count ord = unpackFlatArr o count a := by
  simp only [unpackBits, ho, axisCheck, hne, Bool.false_eq_true, if_false]

theorem packBits_flat (along : Along) (a : Arr Nat) (ord : Option Spelling)
    (o : BitOrder) (ho : optOrder ord = .ok o) (hne : a.isEmpty = false) :
    packBits along a none ord = packFlatArr o a := by
  simp only [packBits, ho, axisCheck, hne, Bool.false_eq_true, if_false]

end ArrModel.C19
