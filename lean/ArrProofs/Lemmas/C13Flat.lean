import ArrProofs.Lemmas.C13List
/-!
# C13 helper lemmas: flat `delete`, `trim_zeros`
-/
namespace ArrModel
open Arr
variable {α β : Type}

/-! ### flat delete -/

/-- the elements whose POSITION is not requested, in order -/
def keepPositions (l : List α) (idxs : List Nat) : List α :=
  (l.zipIdx.filter (fun p => decide (p.2 ∉ idxs))).map (·.1)

theorem keepPositions_eq_dropIdx (l : List α) (idxs : List Nat) :
    keepPositions l idxs = dropIdx (fun i => decide (i ∈ idxs)) l := by
  rw [dropIdx_eq_filter0]; unfold keepPositions
  congr 2; funext p; simp

theorem deleteOrder_any (idxs : List Nat) (n : Nat) :
    (deleteOrder idxs).any (fun i => decide (i ≥ n)) = true ↔ ∃ i ∈ idxs, n ≤ i := by
  simp only [List.any_eq_true, mem_deleteOrder, decide_eq_true_eq, ge_iff_le]

theorem Arr.deleteFlat_ok (a : Arr α) (idxs : List Nat) (h : ∀ i ∈ idxs, i < a.elems.length) :
    a.deleteFlat idxs = .ok (Arr.flat (keepPositions a.elems idxs)) := by
  unfold Arr.deleteFlat
  have hany : (deleteOrder idxs).any (fun i => decide (i ≥ a.elems.length)) = false := by
    cases hb : (deleteOrder idxs).any (fun i => decide (i ≥ a.elems.length))
    · rfl
    · obtain ⟨i, hi, hle⟩ := (deleteOrder_any _ _).1 hb
      have := h i hi; omega
  simp only [hany, Bool.false_eq_true, if_false]
  rw [eraseFold_eq_dropIdx _ _ (deleteOrder_desc idxs), keepPositions_eq_dropIdx]
  congr 2
  apply dropIdx_congr
  intro i; simp [mem_deleteOrder]

theorem Arr.deleteFlat_err (a : Arr α) (idxs : List Nat) (h : ∃ i ∈ idxs, a.elems.length ≤ i) :
    a.deleteFlat idxs = .err .OutOfBounds := by
  unfold Arr.deleteFlat
  simp only [(deleteOrder_any _ _).2 h, if_true]

theorem keepPositions_length (l : List α) (idxs : List Nat) :
    (keepPositions l idxs).length + ((List.range l.length).filter (fun i => decide (i ∈ idxs))).length = l.length := by
  rw [keepPositions_eq_dropIdx]; exact length_dropIdx_add l _

/-- the kept positions, as numbers -/
def keptIdx (n : Nat) (idxs : List Nat) : List Nat := (List.range n).filter (fun i => decide (i ∉ idxs))

theorem keptIdx_lt (n : Nat) (idxs : List Nat) (k : Nat) (h : k ∈ keptIdx n idxs) : k < n ∧ k ∉ idxs := by
  simpa [keptIdx] using h

theorem keptIdx_length (n : Nat) (idxs : List Nat) :
    (keptIdx n idxs).length + ((List.range n).filter (fun i => decide (i ∈ idxs))).length = n := by
  unfold keptIdx
  induction n with
  | zero => rfl
  | succ n ih =>
    rw [List.range_succ, List.filter_append, List.filter_append, List.length_append, List.length_append]
    by_cases h : n ∈ idxs <;> simp [h] at ih ⊢ <;> omega

theorem filterMap_congr_mem {f g : β → Option α} : ∀ (l : List β), (∀ x ∈ l, f x = g x) → l.filterMap f = l.filterMap g
  | [], _ => rfl
  | x :: xs, h => by
    rw [List.filterMap_cons, List.filterMap_cons, h x List.mem_cons_self,
      filterMap_congr_mem xs (fun y hy => h y (List.mem_cons_of_mem _ hy))]

/-- the elements kept by a removal are the elements at the kept positions, in increasing position order -/
theorem keepPositions_eq_kept : ∀ (n : Nat) (l : List α) (idxs : List Nat), l.length = n →
    keepPositions l idxs = (keptIdx n idxs).filterMap (fun i => l[i]?)
  | 0, l, idxs, h => by
    have : l = [] := List.length_eq_zero_iff.1 h
    subst this; rfl
  | n + 1, l, idxs, h => by
    rcases List.eq_nil_or_concat l with rfl | ⟨l', x, rfl⟩
    · simp at h
    · rw [List.concat_eq_append] at h ⊢
      have hl' : l'.length = n := by simpa using h
      have ih := keepPositions_eq_kept n l' idxs hl'
      unfold keepPositions keptIdx at ih ⊢
      rw [List.zipIdx_append, List.filter_append, List.map_append, ih, List.range_succ, List.filter_append,
        List.filterMap_append]
      congr 1
      · apply filterMap_congr_mem
        intro i hi
        have : i < n := by simpa using (List.mem_filter.1 hi).1
        rw [List.getElem?_append_left (by omega)]
      · by_cases hn : n ∈ idxs
        · simp [hn, hl']
        · simp [hn, hl']

/-! ### trim_zeros -/

/-- the list operation of `trim_zeros` -/
def trimList [DecidableEq α] (z : α) (l : List α) : List α :=
  ((l.reverse.dropWhile (· = z)).reverse).dropWhile (· = z)

theorem dropWhile_all [DecidableEq α] (z : α) : ∀ (l : List α), (∀ x ∈ l, x = z) → l.dropWhile (· = z) = []
  | [], _ => rfl
  | x :: xs, h => by
    rw [List.dropWhile_cons_of_pos (by simpa using h x List.mem_cons_self)]
    exact dropWhile_all z xs (fun y hy => h y (List.mem_cons_of_mem _ hy))

theorem mem_takeWhile_eq [DecidableEq α] (z : α) : ∀ (l : List α) (x : α), x ∈ l.takeWhile (· = z) → x = z
  | [], _, h => by simp at h
  | y :: ys, x, h => by
    by_cases hy : y = z
    · rw [List.takeWhile_cons_of_pos (by simpa using hy)] at h
      rcases List.mem_cons.1 h with rfl | h'
      · exact hy
      · exact mem_takeWhile_eq z ys x h'
    · rw [List.takeWhile_cons_of_neg (by simpa using hy)] at h
      simp at h

theorem dropWhile_head_ne [DecidableEq α] (z : α) (l : List α) (h : l.head? ≠ some z) : l.dropWhile (· = z) = l := by
  cases l with
  | nil => rfl
  | cons x xs =>
    have : x ≠ z := by intro e; apply h; simp [e]
    rw [List.dropWhile_cons_of_neg (by simpa using this)]

/-- any decomposition `zeros ++ r ++ zeros` with `r` not starting or ending with zero is the one `trim_zeros` finds -/
theorem trimList_of_decomp [DecidableEq α] (z : α) (l p r s : List α) (hl : l = p ++ r ++ s)
    (hp : ∀ x ∈ p, x = z) (hs : ∀ x ∈ s, x = z) (hh : r.head? ≠ some z) (ht : r.getLast? ≠ some z) :
    trimList z l = r := by
  subst hl
  unfold trimList
  rw [List.reverse_append, List.reverse_append,
    List.dropWhile_append_of_pos (by intro x hx; simpa using hs x (List.mem_reverse.1 hx))]
  by_cases hr : r = []
  · subst hr
    rw [List.reverse_nil, List.nil_append,
      dropWhile_all z p.reverse (by intro x hx; exact hp x (List.mem_reverse.1 hx))]
    rfl
  · have hrr : (r.reverse ++ p.reverse).head? ≠ some z := by
      rw [List.head?_append, List.head?_reverse]
      cases hg : r.getLast? with
      | none => rw [List.getLast?_eq_none_iff] at hg; exact absurd hg hr
      | some y => rw [hg] at ht; simpa using ht
    rw [dropWhile_head_ne z _ hrr, List.reverse_append, List.reverse_reverse, List.reverse_reverse,
      List.dropWhile_append_of_pos (by intro x hx; simpa using hp x hx), dropWhile_head_ne z _ hh]

/-- the decomposition exists -/
theorem trimList_decomp [DecidableEq α] (z : α) (l : List α) :
    ∃ p s, l = p ++ trimList z l ++ s ∧ (∀ x ∈ p, x = z) ∧ (∀ x ∈ s, x = z) ∧
      (trimList z l).head? ≠ some z ∧ (trimList z l).getLast? ≠ some z := by
  let m := (l.reverse.dropWhile (· = z)).reverse
  have hm : l = m ++ (l.reverse.takeWhile (· = z)).reverse := by
    have := List.takeWhile_append_dropWhile (p := (· = z)) (l := l.reverse)
    have h2 := congrArg List.reverse this
    rw [List.reverse_append, List.reverse_reverse] at h2
    exact h2.symm
  have hmm : m = m.takeWhile (· = z) ++ trimList z l := (List.takeWhile_append_dropWhile).symm
  have hhead : ∀ (q : List α), (q.dropWhile (· = z)).head? ≠ some z := by
    intro q hq
    have := List.head?_dropWhile_not (fun x => decide (x = z)) q
    rw [hq] at this
    simp at this
  refine ⟨m.takeWhile (· = z), (l.reverse.takeWhile (· = z)).reverse, ?_, ?_, ?_, hhead _, ?_⟩
  · rw [← hmm]; exact hm
  · intro x hx; exact mem_takeWhile_eq z _ x hx
  · intro x hx; exact mem_takeWhile_eq z _ x (List.mem_reverse.1 hx)
  · intro hg
    have hml : m.getLast? = some z := by
      rw [hmm, List.getLast?_append, hg]; rfl
    have : (l.reverse.dropWhile (· = z)).head? = some z := by
      rw [← List.getLast?_reverse]; exact hml
    exact hhead _ this

end ArrModel
