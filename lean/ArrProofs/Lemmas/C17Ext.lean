import ArrProofs.Lemmas.C17Misc
/-! helper lemmas for C17 (extension): the ASCII tables of the case maps and of the `is_*` classes, `translate`, `zfill` -/
set_option linter.unusedSimpArgs false
set_option linter.unusedVariables false
namespace ArrModel.C17

/-! ### characters: everything is reduced to the code point -/

theorem toNat_ofNat_small (n : Nat) (h : n < 55296) : (Char.ofNat n).toNat = n := by
  have hv : n.isValidChar := Or.inl h
  unfold Char.ofNat
  rw [dif_pos hv]
  simp [Char.ofNatAux, Char.toNat]

theorem toNat_toUpperC (c : Char) :
    (toUpperC c).toNat = if 97 ≤ c.toNat ∧ c.toNat ≤ 122 then c.toNat - 32 else c.toNat := by
  unfold toUpperC isLowerC
  by_cases h : 97 ≤ c.toNat ∧ c.toNat ≤ 122
  · rw [if_pos (by simpa using h), if_pos h]; exact toNat_ofNat_small _ (by omega)
  · rw [if_neg (by simpa using h), if_neg h]

theorem toNat_toLowerC (c : Char) :
    (toLowerC c).toNat = if 65 ≤ c.toNat ∧ c.toNat ≤ 90 then c.toNat + 32 else c.toNat := by
  unfold toLowerC isUpperC
  by_cases h : 65 ≤ c.toNat ∧ c.toNat ≤ 90
  · rw [if_pos (by simpa using h), if_pos h]; exact toNat_ofNat_small _ (by omega)
  · rw [if_neg (by simpa using h), if_neg h]

/-- the per-character function of `_swapcase` -/
def swapC (c : Char) : Char := if isLowerC c then toUpperC c else if isUpperC c then toLowerC c else c

theorem swapcase_eq_map (s : Str) : swapcase s = s.map swapC := rfl

theorem toNat_swapC (c : Char) :
    (swapC c).toNat = if 97 ≤ c.toNat ∧ c.toNat ≤ 122 then c.toNat - 32
      else if 65 ≤ c.toNat ∧ c.toNat ≤ 90 then c.toNat + 32 else c.toNat := by
  unfold swapC isLowerC isUpperC
  by_cases h : 97 ≤ c.toNat ∧ c.toNat ≤ 122
  · rw [if_pos (by simpa using h), if_pos h, toNat_toUpperC, if_pos h]
  · rw [if_neg (by simpa using h), if_neg h]
    by_cases h2 : 65 ≤ c.toNat ∧ c.toNat ≤ 90
    · rw [if_pos (by simpa using h2), if_pos h2, toNat_toLowerC, if_pos h2]
    · rw [if_neg (by simpa using h2), if_neg h2]

/-- close a goal about code points: split every `if`, then linear arithmetic -/
macro "char_arith" : tactic => `(tactic| (repeat' split) <;> omega)

/-- equality of characters through their code points -/
macro "char_eq" : tactic =>
  `(tactic| (apply Char.toNat_inj.1; simp only [toNat_toLowerC, toNat_toUpperC, toNat_swapC]; char_arith))

/-- equality of two class tests -/
macro "class_eq" : tactic =>
  `(tactic| (rw [Bool.eq_iff_iff]
             simp only [isAlnumC, isAlphaC, isUpperC, isLowerC, isDigitC, isSpaceC, toNat_toLowerC, toNat_toUpperC,
               toNat_swapC, Bool.or_eq_true, decide_eq_true_eq, Bool.false_eq_true, Bool.true_eq_false, iff_false, iff_true]
             char_arith))

theorem toLowerC_idem (c : Char) : toLowerC (toLowerC c) = toLowerC c := by char_eq
theorem toUpperC_idem (c : Char) : toUpperC (toUpperC c) = toUpperC c := by char_eq
theorem toUpperC_toLowerC (c : Char) : toUpperC (toLowerC c) = toUpperC c := by char_eq
theorem toLowerC_toUpperC (c : Char) : toLowerC (toUpperC c) = toLowerC c := by char_eq
theorem swapC_swapC (c : Char) : swapC (swapC c) = c := by char_eq
theorem toLowerC_swapC (c : Char) : toLowerC (swapC c) = toLowerC c := by char_eq
theorem toUpperC_swapC (c : Char) : toUpperC (swapC c) = toUpperC c := by char_eq
theorem swapC_toLowerC (c : Char) : swapC (toLowerC c) = toUpperC c := by char_eq
theorem swapC_toUpperC (c : Char) : swapC (toUpperC c) = toLowerC c := by char_eq

theorem isUpperC_toLowerC (c : Char) : isUpperC (toLowerC c) = false := by class_eq
theorem isLowerC_toUpperC (c : Char) : isLowerC (toUpperC c) = false := by class_eq
theorem isLowerC_toLowerC (c : Char) : isLowerC (toLowerC c) = isAlphaC c := by class_eq
theorem isUpperC_toUpperC (c : Char) : isUpperC (toUpperC c) = isAlphaC c := by class_eq
theorem isLowerC_swapC (c : Char) : isLowerC (swapC c) = isUpperC c := by class_eq
theorem isUpperC_swapC (c : Char) : isUpperC (swapC c) = isLowerC c := by class_eq
theorem isAlphaC_toLowerC (c : Char) : isAlphaC (toLowerC c) = isAlphaC c := by class_eq
theorem isAlphaC_toUpperC (c : Char) : isAlphaC (toUpperC c) = isAlphaC c := by class_eq
theorem isAlphaC_swapC (c : Char) : isAlphaC (swapC c) = isAlphaC c := by class_eq
theorem isDigitC_toLowerC (c : Char) : isDigitC (toLowerC c) = isDigitC c := by class_eq
theorem isDigitC_toUpperC (c : Char) : isDigitC (toUpperC c) = isDigitC c := by class_eq
theorem isDigitC_swapC (c : Char) : isDigitC (swapC c) = isDigitC c := by class_eq
theorem isSpaceC_toLowerC (c : Char) : isSpaceC (toLowerC c) = isSpaceC c := by class_eq
theorem isSpaceC_toUpperC (c : Char) : isSpaceC (toUpperC c) = isSpaceC c := by class_eq
theorem isSpaceC_swapC (c : Char) : isSpaceC (swapC c) = isSpaceC c := by class_eq
theorem isAlnumC_toLowerC (c : Char) : isAlnumC (toLowerC c) = isAlnumC c := by class_eq
theorem isAlnumC_toUpperC (c : Char) : isAlnumC (toUpperC c) = isAlnumC c := by class_eq
theorem isAlnumC_swapC (c : Char) : isAlnumC (swapC c) = isAlnumC c := by class_eq

/-- the classes are pairwise disjoint: upper / lower / digit / white space -/
theorem class_disjoint (c : Char) :
    (isUpperC c = true → isLowerC c = false ∧ isDigitC c = false ∧ isSpaceC c = false) ∧
    (isLowerC c = true → isUpperC c = false ∧ isDigitC c = false ∧ isSpaceC c = false) ∧
    (isDigitC c = true → isAlphaC c = false ∧ isSpaceC c = false) ∧
    (isSpaceC c = true → isAlnumC c = false) := by
  simp only [isAlnumC, isAlphaC, isUpperC, isLowerC, isDigitC, isSpaceC, Bool.or_eq_true, Bool.or_eq_false_iff,
    decide_eq_true_eq, decide_eq_false_iff_not]
  omega

theorem isAlphaC_iff (c : Char) : isAlphaC c = true ↔ (isUpperC c = true ∨ isLowerC c = true) := by
  simp [isAlphaC]

theorem alpha_lower_iff (c : Char) : (isAlphaC c = true → isLowerC c = true) ↔ isUpperC c = false := by
  simp only [isAlphaC, isUpperC, isLowerC, Bool.or_eq_true, decide_eq_true_eq, decide_eq_false_iff_not]
  omega

theorem alpha_upper_iff (c : Char) : (isAlphaC c = true → isUpperC c = true) ↔ isLowerC c = false := by
  simp only [isAlphaC, isUpperC, isLowerC, Bool.or_eq_true, decide_eq_true_eq, decide_eq_false_iff_not]
  omega

theorem toLowerC_eq_self_iff (c : Char) : toLowerC c = c ↔ isUpperC c = false := by
  rw [← Char.toNat_inj, toNat_toLowerC]
  simp only [isUpperC, decide_eq_false_iff_not]
  char_arith

theorem toUpperC_eq_self_iff (c : Char) : toUpperC c = c ↔ isLowerC c = false := by
  rw [← Char.toNat_inj, toNat_toUpperC]
  simp only [isLowerC, decide_eq_false_iff_not]
  char_arith

/-- two characters have the same lower-case image exactly when they have the same upper-case image -/
theorem toLowerC_eq_iff_toUpperC_eq (a b : Char) : toLowerC a = toLowerC b ↔ toUpperC a = toUpperC b := by
  rw [← Char.toNat_inj, ← Char.toNat_inj]
  simp only [toNat_toLowerC, toNat_toUpperC]
  char_arith

/-! ### the tables are those of core Lean's `Char` -/

theorem isUpperC_eq_core (c : Char) : isUpperC c = c.isUpper := by
  unfold isUpperC Char.isUpper
  simp only [ge_iff_le, UInt32.le_iff_toNat_le, Char.toNat_val]
  rfl

theorem isLowerC_eq_core (c : Char) : isLowerC c = c.isLower := by
  unfold isLowerC Char.isLower
  simp only [ge_iff_le, UInt32.le_iff_toNat_le, Char.toNat_val]
  have ha : 'a'.toNat = 97 := rfl
  have hz : 'z'.toNat = 122 := rfl
  rw [ha, hz, Bool.decide_and]

theorem isDigitC_eq_core (c : Char) : isDigitC c = c.isDigit := by
  unfold isDigitC Char.isDigit
  simp only [ge_iff_le, UInt32.le_iff_toNat_le, Char.toNat_val]
  have h0 : '0'.toNat = 48 := rfl
  have h9 : '9'.toNat = 57 := rfl
  rw [h0, h9, Bool.decide_and]

theorem toLowerC_eq_core (c : Char) : toLowerC c = c.toLower := by
  apply Char.toNat_inj.1
  rw [toNat_toLowerC]
  unfold Char.toLower
  simp only [ge_iff_le, UInt32.le_iff_toNat_le, Char.toNat_val]
  have hA : 'A'.toNat = 65 := rfl
  have hZ : 'Z'.toNat = 90 := rfl
  have hd : ('a'.val - 'A'.val) = 32 := by decide
  simp only [hA, hZ, hd]
  split
  · rename_i h
    show _ = (c.val + 32).toNat
    rw [UInt32.toNat_add, Char.toNat_val]
    have : c.toNat + (32 : UInt32).toNat = c.toNat + 32 := rfl
    rw [this]; omega
  · rfl

theorem toUpperC_eq_core (c : Char) : toUpperC c = c.toUpper := by
  apply Char.toNat_inj.1
  rw [toNat_toUpperC]
  unfold Char.toUpper
  simp only [ge_iff_le, UInt32.le_iff_toNat_le, Char.toNat_val]
  have ha : 'a'.toNat = 97 := rfl
  have hz : 'z'.toNat = 122 := rfl
  have hd : ('A'.val - 'a'.val) = 4294967264 := by decide
  simp only [ha, hz, hd]
  split
  · rename_i h
    show _ = (c.val + 4294967264).toNat
    rw [UInt32.toNat_add, Char.toNat_val]
    have : c.toNat + (4294967264 : UInt32).toNat = c.toNat + 4294967264 := rfl
    rw [this]; omega
  · rfl

/-- Rust's `char::is_whitespace` on ASCII is core Lean's `isWhitespace` plus VT and FF -/
theorem isSpaceC_eq_core (c : Char) :
    isSpaceC c = (c.isWhitespace || c == Char.ofNat 11 || c == Char.ofNat 12) := by
  rw [Bool.eq_iff_iff]
  simp only [isSpaceC, Char.isWhitespace, Bool.or_eq_true, decide_eq_true_eq, beq_iff_eq, ← Char.toNat_inj]
  have h1 : ' '.toNat = 32 := rfl
  have h2 : '\t'.toNat = 9 := rfl
  have h3 : '\r'.toNat = 13 := rfl
  have h4 : '\n'.toNat = 10 := rfl
  have h5 : (Char.ofNat 11).toNat = 11 := rfl
  have h6 : (Char.ofNat 12).toNat = 12 := rfl
  rw [h1, h2, h3, h4, h5, h6]
  omega

/-! ### strings: class tests and case maps -/

theorem map_eq_self_iff (f : Char → Char) : ∀ s : Str, s.map f = s ↔ ∀ c ∈ s, f c = c
  | [] => by simp
  | x :: xs => by simp [map_eq_self_iff f xs]

theorem all_map_class (P : Char → Bool) (f : Char → Char) (h : ∀ c, P (f c) = P c) (s : Str) :
    (s.map f).all P = s.all P := by
  rw [List.all_map]; congr 1; funext c; exact h c

theorem filter_map_class (P : Char → Bool) (f : Char → Char) (h : ∀ c, P (f c) = P c) (s : Str) :
    (s.map f).filter P = (s.filter P).map f := by
  rw [List.filter_map]; congr 2; funext c; exact h c

theorem nonempty_filter_iff (P : Char → Bool) (s : Str) : (!(s.filter P).isEmpty) = s.any P := by
  induction s with
  | nil => rfl
  | cons x xs ih =>
    rw [List.filter_cons, List.any_cons]
    cases h : P x
    · simpa using ih
    · simp

theorem isLower_eq (s : Str) : isLower s = (s.any isLowerC && s.all (fun c => !isUpperC c)) := by
  unfold isLower
  simp only [nonempty_filter_iff]
  rw [Bool.eq_iff_iff]
  simp only [Bool.and_eq_true, List.any_eq_true, List.all_eq_true, List.mem_filter, Bool.not_eq_true', and_imp]
  constructor
  · rintro ⟨⟨c, hc, ha⟩, hall⟩
    exact ⟨⟨c, hc, hall c hc ha⟩, fun x hx => (alpha_lower_iff x).1 (hall x hx)⟩
  · rintro ⟨⟨c, hc, hl⟩, hall⟩
    exact ⟨⟨c, hc, (isAlphaC_iff c).2 (.inr hl)⟩, fun x hx => (alpha_lower_iff x).2 (hall x hx)⟩

theorem isUpper_eq (s : Str) : isUpper s = (s.any isUpperC && s.all (fun c => !isLowerC c)) := by
  unfold isUpper
  simp only [nonempty_filter_iff]
  rw [Bool.eq_iff_iff]
  simp only [Bool.and_eq_true, List.any_eq_true, List.all_eq_true, List.mem_filter, Bool.not_eq_true', and_imp]
  constructor
  · rintro ⟨⟨c, hc, ha⟩, hall⟩
    exact ⟨⟨c, hc, hall c hc ha⟩, fun x hx => (alpha_upper_iff x).1 (hall x hx)⟩
  · rintro ⟨⟨c, hc, hl⟩, hall⟩
    exact ⟨⟨c, hc, (isAlphaC_iff c).2 (.inl hl)⟩, fun x hx => (alpha_upper_iff x).2 (hall x hx)⟩

theorem lower_eq_self_iff (s : Str) : lower s = s ↔ ∀ c ∈ s, isUpperC c = false := by
  unfold lower; rw [map_eq_self_iff]
  exact forall_congr' fun c => imp_congr_right fun _ => toLowerC_eq_self_iff c

theorem upper_eq_self_iff (s : Str) : upper s = s ↔ ∀ c ∈ s, isLowerC c = false := by
  unfold upper; rw [map_eq_self_iff]
  exact forall_congr' fun c => imp_congr_right fun _ => toUpperC_eq_self_iff c

/-! ### translate -/

/-- the per-character function of `translate` -/
def trC (table : List (Char × Char)) (c : Char) : Char :=
  match table.find? (fun t => c == t.1) with | some t => t.2 | none => c

theorem translate_eq_map (t : List (Char × Char)) (s : Str) : translate t s = s.map (trC t) := rfl

theorem trC_nil (c : Char) : trC [] c = c := rfl

theorem trC_cons (k v : Char) (t : List (Char × Char)) (c : Char) :
    trC ((k, v) :: t) c = if c = k then v else trC t c := by
  unfold trC
  rw [List.find?_cons]
  by_cases h : c = k
  · simp [h]
  · have hb : (c == k) = false := by simpa using h
    simp only [hb, if_neg h]

/-- the first row whose key is the character decides -/
theorem trC_of_row : ∀ (t : List (Char × Char)) (c : Char) (k : Nat) (hk : k < t.length),
    t[k].1 = c → (∀ j (hj : j < k), (t[j]'(by omega)).1 ≠ c) → trC t c = t[k].2
  | [], _, _, hk, _, _ => by simp at hk
  | (a, b) :: t, c, 0, _, h0, _ => by
    simp only [List.getElem_cons_zero] at h0 ⊢
    rw [trC_cons, if_pos h0.symm]
  | (a, b) :: t, c, k + 1, hk, hkey, hfirst => by
    have h0 := hfirst 0 (by omega)
    simp only [List.getElem_cons_zero] at h0
    rw [trC_cons, if_neg (fun h => h0 h.symm)]
    simp only [List.getElem_cons_succ] at hkey ⊢
    refine trC_of_row t c k (by simpa using hk) hkey ?_
    intro j hj
    have := hfirst (j + 1) (by omega)
    simpa using this

theorem trC_of_not_key : ∀ (t : List (Char × Char)) (c : Char), (∀ r ∈ t, r.1 ≠ c) → trC t c = c
  | [], _, _ => rfl
  | (a, b) :: t, c, h => by
    rw [trC_cons, if_neg (fun e => h (a, b) (by simp) e.symm)]
    exact trC_of_not_key t c (fun r hr => h r (by simp [hr]))

/-- case analysis: either some first row has the key, or no row has it -/
theorem trC_cases : ∀ (t : List (Char × Char)) (c : Char),
    (∃ k, ∃ hk : k < t.length, t[k].1 = c ∧ (∀ j (hj : j < k), (t[j]'(by omega)).1 ≠ c) ∧ trC t c = t[k].2) ∨
    ((∀ r ∈ t, r.1 ≠ c) ∧ trC t c = c)
  | [], c => .inr ⟨by simp, rfl⟩
  | (a, b) :: t, c => by
    by_cases h : c = a
    · refine .inl ⟨0, by simp, by simp [h], by simp, ?_⟩
      rw [trC_cons, if_pos h]; rfl
    · rcases trC_cases t c with ⟨k, hk, hkey, hfirst, hv⟩ | ⟨hno, hv⟩
      · refine .inl ⟨k + 1, by simpa using hk, by simpa using hkey, ?_, ?_⟩
        · intro j hj
          cases j with
          | zero => simpa using fun e => h e.symm
          | succ j => simpa using hfirst j (by omega)
        · rw [trC_cons, if_neg h]; simpa using hv
      · refine .inr ⟨?_, ?_⟩
        · intro r hr
          rcases List.mem_cons.1 hr with rfl | hr
          · exact fun e => h e.symm
          · exact hno r hr
        · rw [trC_cons, if_neg h]; exact hv

theorem trC_append (t1 t2 : List (Char × Char)) (c : Char) :
    trC (t1 ++ t2) c = if t1.any (fun r => r.1 == c) then trC t1 c else trC t2 c := by
  induction t1 with
  | nil => simp
  | cons r t1 ih =>
    obtain ⟨a, b⟩ := r
    rw [List.cons_append, trC_cons, trC_cons, List.any_cons]
    by_cases h : c = a
    · subst h; simp
    · have : (a == c) = false := by simpa using fun e => h e.symm
      simp only [h, if_false, this, Bool.false_or]
      exact ih

/-! ### lower / upper as translation tables -/

def lowerTable : List (Char × Char) := (List.range 26).map (fun i => (Char.ofNat (65 + i), Char.ofNat (97 + i)))
def upperTable : List (Char × Char) := (List.range 26).map (fun i => (Char.ofNat (97 + i), Char.ofNat (65 + i)))

theorem trC_lowerTable (c : Char) : trC lowerTable c = toLowerC c := by
  by_cases h : 65 ≤ c.toNat ∧ c.toNat ≤ 90
  · have hk : c.toNat - 65 < lowerTable.length := by simp [lowerTable]; omega
    rw [trC_of_row lowerTable c (c.toNat - 65) hk]
    · apply Char.toNat_inj.1
      simp only [lowerTable, List.getElem_map, List.getElem_range]
      rw [toNat_toLowerC, if_pos h, toNat_ofNat_small _ (by omega)]; omega
    · simp only [lowerTable, List.getElem_map, List.getElem_range]
      rw [show 65 + (c.toNat - 65) = c.toNat by omega, Char.ofNat_toNat]
    · intro j hj
      simp only [lowerTable, List.getElem_map, List.getElem_range]
      intro e
      have := congrArg Char.toNat e
      rw [toNat_ofNat_small _ (by omega)] at this; omega
  · rw [trC_of_not_key]
    · exact ((toLowerC_eq_self_iff c).2 (by simpa [isUpperC] using h)).symm
    · intro r hr e
      simp only [lowerTable, List.mem_map, List.mem_range] at hr
      obtain ⟨i, hi, rfl⟩ := hr
      have := congrArg Char.toNat e
      simp only at this
      rw [toNat_ofNat_small _ (by omega)] at this; omega

theorem trC_upperTable (c : Char) : trC upperTable c = toUpperC c := by
  by_cases h : 97 ≤ c.toNat ∧ c.toNat ≤ 122
  · have hk : c.toNat - 97 < upperTable.length := by simp [upperTable]; omega
    rw [trC_of_row upperTable c (c.toNat - 97) hk]
    · apply Char.toNat_inj.1
      simp only [upperTable, List.getElem_map, List.getElem_range]
      rw [toNat_toUpperC, if_pos h, toNat_ofNat_small _ (by omega)]; omega
    · simp only [upperTable, List.getElem_map, List.getElem_range]
      rw [show 97 + (c.toNat - 97) = c.toNat by omega, Char.ofNat_toNat]
    · intro j hj
      simp only [upperTable, List.getElem_map, List.getElem_range]
      intro e
      have := congrArg Char.toNat e
      rw [toNat_ofNat_small _ (by omega)] at this; omega
  · rw [trC_of_not_key]
    · exact ((toUpperC_eq_self_iff c).2 (by simpa [isLowerC] using h)).symm
    · intro r hr e
      simp only [upperTable, List.mem_map, List.mem_range] at hr
      obtain ⟨i, hi, rfl⟩ := hr
      have := congrArg Char.toNat e
      simp only at this
      rw [toNat_ofNat_small _ (by omega)] at this; omega

/-! ### zfill -/

theorem zfill1_neg (w : Nat) (b : Str) :
    zfill1 w ('-' :: b) = '-' :: (List.replicate (w - 1 - b.length) '0' ++ b) := by
  unfold zfill1
  simp only [decide_true, if_true, List.drop_one, List.tail_cons]
  split
  · rfl
  · rename_i h
    have : w - 1 - b.length = 0 := by omega
    rw [this]; rfl

theorem zfill1_nonneg (w : Nat) (s : Str) (h : s.head? ≠ some '-') :
    zfill1 w s = List.replicate (w - s.length) '0' ++ s := by
  cases s with
  | nil => unfold zfill1; simp
  | cons c cs =>
    have hc : c ≠ '-' := by simpa using h
    unfold zfill1
    simp only [hc, decide_false, Bool.false_eq_true, if_false, Nat.sub_zero]
    split
    · rfl
    · rename_i h2
      have : w - (c :: cs).length = 0 := by omega
      rw [this]; rfl

theorem takeWhile_all (p : Char → Bool) : ∀ (s : Str), (∀ c ∈ s, p c = true) → s.takeWhile p = s
  | [], _ => rfl
  | c :: cs, h => by
    rw [List.takeWhile_cons, if_pos (h c (by simp)), takeWhile_all p cs (fun x hx => h x (by simp [hx]))]

theorem dropWhile_all (p : Char → Bool) : ∀ (s : Str), (∀ c ∈ s, p c = true) → s.dropWhile p = []
  | [], _ => rfl
  | c :: cs, h => by
    rw [List.dropWhile_cons, if_pos (h c (by simp)), dropWhile_all p cs (fun x hx => h x (by simp [hx]))]

/-- the number a text of decimal digits denotes -/
def digitsVal (s : Str) : Nat := s.foldl (fun acc c => 10 * acc + (c.toNat - 48)) 0

theorem digitsVal_zeros (n : Nat) (s : Str) : digitsVal (List.replicate n '0' ++ s) = digitsVal s := by
  unfold digitsVal
  rw [List.foldl_append]
  congr 1
  induction n with
  | zero => rfl
  | succ n ih => rw [List.replicate_succ, List.foldl_cons]; exact ih

theorem all_digit_append_zeros (n : Nat) (s : Str) :
    (List.replicate n '0' ++ s).all isDigitC = s.all isDigitC := by
  rw [List.all_append]
  have : (List.replicate n '0').all isDigitC = true := by
    rw [List.all_eq_true]; intro c hc
    rw [List.eq_of_mem_replicate hc]; decide
  rw [this, Bool.true_and]

/-! ### the literal grammar accepts every run of decimal digits -/

theorem isF64Literal_digits (s : Str) (hne : s ≠ []) (hd : s.all isDigitC = true) : isF64Literal s = true := by
  have hall : ∀ c ∈ s, isDigitC c = true := by simpa using hd
  obtain ⟨c, cs, rfl⟩ : ∃ c cs, s = c :: cs := by cases s with | nil => exact absurd rfl hne | cons c cs => exact ⟨c, cs, rfl⟩
  have hc : isDigitC c = true := hall c (by simp)
  have hcm : ¬ (c = '-' ∨ c = '+') := by
    rintro (rfl | rfl) <;> revert hc <;> decide
  have htw : (c :: cs).takeWhile isDigitC = c :: cs := takeWhile_all _ _ hall
  have hdw : (c :: cs).dropWhile isDigitC = [] := dropWhile_all _ _ hall
  unfold isF64Literal
  simp only [if_neg hcm, htw, hdw]
  simp

theorem isF64Literal_signed_digits (sg : Char) (hs : sg = '-' ∨ sg = '+') (s : Str) (hne : s ≠ [])
    (hd : s.all isDigitC = true) : isF64Literal (sg :: s) = true := by
  have hall : ∀ c ∈ s, isDigitC c = true := by simpa using hd
  have htw : s.takeWhile isDigitC = s := takeWhile_all _ _ hall
  have hdw : s.dropWhile isDigitC = [] := dropWhile_all _ _ hall
  have hemp : s.isEmpty = false := by cases s <;> simp_all
  have hlen : s.length ≠ 0 := by cases s <;> simp_all
  unfold isF64Literal
  simp only [if_pos hs, htw, hdw, hemp]
  simp [hlen]

/-! ### the literal grammar of `zfill`'s refusal test -/

def stripSign (s : Str) : Str := match s with
  | c :: r => if c = '-' ∨ c = '+' then r else s
  | [] => []

def expOkF (r2 : Str) : Bool := match r2 with
  | [] => true
  | c :: r => if c = 'e' ∨ c = 'E' then !(stripSign r).isEmpty && (stripSign r).all isDigitC else false

def fracSplit (r1 : Str) : Str × Str := match r1 with
  | c :: r => if c = '.' then (r.takeWhile isDigitC, r.dropWhile isDigitC) else ([], r1)
  | [] => ([], [])

def specialF (body : Str) : Bool :=
  lower body == ['i','n','f'] || lower body == ['i','n','f','i','n','i','t','y'] || lower body == ['n','a','n']

def bodyOkF (body : Str) : Bool :=
  if body.isEmpty then false
  else (decide ((body.takeWhile isDigitC).length + (fracSplit (body.dropWhile isDigitC)).1.length ≠ 0) &&
        expOkF (fracSplit (body.dropWhile isDigitC)).2) || specialF body

theorem isF64Literal_eq (s : Str) : isF64Literal s = bodyOkF (stripSign s) := by
  cases s with
  | nil => rfl
  | cons c r =>
    unfold isF64Literal bodyOkF stripSign
    simp only
    split
    · rfl
    · rfl

/-- a run of decimal digits (possibly empty) -/
def DigitRun (a : Str) : Prop := ∀ c ∈ a, isDigitC c = true
def SignOpt (sg : Str) : Prop := sg = [] ∨ sg = ['-'] ∨ sg = ['+']
/-- `digits` | `digits . digits` with at least one digit -/
def Mantissa (m : Str) : Prop :=
  ∃ a b, DigitRun a ∧ DigitRun b ∧ ((m = a ∧ a ≠ []) ∨ (m = a ++ '.' :: b ∧ (a ≠ [] ∨ b ≠ [])))
/-- nothing | `e`/`E` [sign] digits⁺ -/
def ExpPart (e : Str) : Prop :=
  e = [] ∨ ∃ c sg d, (c = 'e' ∨ c = 'E') ∧ SignOpt sg ∧ d ≠ [] ∧ DigitRun d ∧ e = c :: (sg ++ d)
def Special (body : Str) : Prop :=
  lower body = ['i','n','f'] ∨ lower body = ['i','n','f','i','n','i','t','y'] ∨ lower body = ['n','a','n']
def F64Body (body : Str) : Prop := (∃ m e, body = m ++ e ∧ Mantissa m ∧ ExpPart e) ∨ Special body
/-- the grammar of `core::num::dec2flt`: [sign] (mantissa [exponent] | inf | infinity | nan) -/
def F64Text (s : Str) : Prop := ∃ sg body, s = sg ++ body ∧ SignOpt sg ∧ F64Body body

theorem span_digits : ∀ (a r : Str), DigitRun a → (∀ c r', r = c :: r' → isDigitC c = false) →
    (a ++ r).takeWhile isDigitC = a ∧ (a ++ r).dropWhile isDigitC = r
  | [], [], _, _ => ⟨rfl, rfl⟩
  | [], c :: r', _, h => by
    have := h c r' rfl
    simp [List.takeWhile_cons, List.dropWhile_cons, this]
  | x :: a, r, ha, h => by
    have hx : isDigitC x = true := ha x (by simp)
    have ih := span_digits a r (fun c hc => ha c (by simp [hc])) h
    simp only [List.cons_append, List.takeWhile_cons, List.dropWhile_cons, hx, if_true, ih.1, ih.2, and_self]

theorem span_exists (l : Str) : DigitRun (l.takeWhile isDigitC) ∧
    (∀ c r', l.dropWhile isDigitC = c :: r' → isDigitC c = false) ∧
    l = l.takeWhile isDigitC ++ l.dropWhile isDigitC := by
  refine ⟨fun c hc => mem_takeWhile _ _ c hc, ?_, List.takeWhile_append_dropWhile.symm⟩
  intro c r' h
  have := List.head?_dropWhile_not isDigitC l
  rw [h] at this
  simpa using this

theorem stripSign_sign_digits (sg d : Str) (hs : SignOpt sg) (hd : DigitRun d) (hne : d ≠ []) :
    stripSign (sg ++ d) = d := by
  rcases hs with rfl | rfl | rfl
  · cases d with
    | nil => exact absurd rfl hne
    | cons x xs =>
      have hx : isDigitC x = true := hd x (by simp)
      have : ¬ (x = '-' ∨ x = '+') := by rintro (rfl | rfl) <;> revert hx <;> decide
      simp [stripSign, this]
  · simp [stripSign]
  · simp [stripSign]

theorem expOkF_iff (e : Str) : expOkF e = true ↔ ExpPart e := by
  constructor
  · intro h
    cases e with
    | nil => exact .inl rfl
    | cons c r =>
      right
      unfold expOkF at h
      simp only at h
      split at h
      · rename_i hc
        simp only [Bool.and_eq_true, Bool.not_eq_true', List.all_eq_true] at h
        have hne : stripSign r ≠ [] := by intro e; rw [e] at h; simp at h
        cases r with
        | nil => simp [stripSign] at hne
        | cons d0 r'' =>
          by_cases hd0 : d0 = '-' ∨ d0 = '+'
          · have hs : stripSign (d0 :: r'') = r'' := by simp [stripSign, hd0]
            rw [hs] at h hne
            refine ⟨c, [d0], r'', hc, ?_, hne, h.2, rfl⟩
            rcases hd0 with rfl | rfl
            · exact .inr (.inl rfl)
            · exact .inr (.inr rfl)
          · have hs : stripSign (d0 :: r'') = d0 :: r'' := by simp [stripSign, hd0]
            rw [hs] at h
            exact ⟨c, [], d0 :: r'', hc, .inl rfl, by simp, h.2, rfl⟩
      · cases h
  · rintro (rfl | ⟨c, sg, d, hc, hsg, hne, hd, rfl⟩)
    · rfl
    · unfold expOkF
      simp only [if_pos hc, stripSign_sign_digits sg d hsg hd hne]
      have : d.isEmpty = false := by cases d <;> simp_all
      simp only [this, Bool.not_false, Bool.true_and, List.all_eq_true]
      exact hd

theorem exp_head_not_digit (e : Str) (he : ExpPart e) : ∀ c r', e = c :: r' → isDigitC c = false := by
  rintro c r' rfl
  rcases he with h | ⟨c', sg, d, hc, _, _, _, h⟩
  · cases h
  · simp only [List.cons.injEq] at h
    rcases hc with rfl | rfl <;> (rw [h.1]; decide)

theorem exp_head_not_dot (e : Str) (he : ExpPart e) : ∀ r', e ≠ '.' :: r' := by
  rintro r' rfl
  rcases he with h | ⟨c', sg, d, hc, _, _, _, h⟩
  · cases h
  · simp only [List.cons.injEq] at h
    rcases hc with rfl | rfl <;> (have := h.1; revert this; decide)

theorem specialF_iff (body : Str) : specialF body = true ↔ Special body := by
  simp [specialF, Special, or_assoc]

theorem special_nonempty (body : Str) (h : Special body) : body ≠ [] := by
  rintro rfl
  rcases h with h | h | h <;> simp [lower] at h

theorem bodyOkF_of_grammar (body : Str) (h : F64Body body) : bodyOkF body = true := by
  rcases h with ⟨m, e, rfl, ⟨a, b, ha, hb, hm⟩, he⟩ | hs
  · have hed := exp_head_not_digit e he
    rcases hm with ⟨rfl, hane⟩ | ⟨rfl, hab⟩
    · obtain ⟨htw, hdw⟩ := span_digits m e ha hed
      have hne : (m ++ e).isEmpty = false := by cases m <;> simp_all
      unfold bodyOkF
      rw [hne, htw, hdw]
      have hfs : fracSplit e = ([], e) := by
        cases e with
        | nil => rfl
        | cons c r =>
          have : c ≠ '.' := fun hc => exp_head_not_dot _ he r (by rw [hc])
          simp [fracSplit, this]
      rw [hfs]
      have : m.length ≠ 0 := by cases m <;> simp_all
      simp [this, (expOkF_iff e).2 he]
    · have hdot : ∀ c r', '.' :: (b ++ e) = c :: r' → isDigitC c = false := by
        intro c r' h; simp only [List.cons.injEq] at h; rw [← h.1]; decide
      obtain ⟨htw, hdw⟩ := span_digits a ('.' :: (b ++ e)) ha hdot
      obtain ⟨htw2, hdw2⟩ := span_digits b e hb hed
      have hne : (a ++ '.' :: b ++ e).isEmpty = false := by cases a <;> simp
      have hassoc : a ++ '.' :: b ++ e = a ++ '.' :: (b ++ e) := by simp
      unfold bodyOkF
      rw [hne, hassoc, htw, hdw]
      have hfs : fracSplit ('.' :: (b ++ e)) = (b, e) := by simp [fracSplit, htw2, hdw2]
      rw [hfs]
      have : a.length + b.length ≠ 0 := by
        rcases hab with h | h
        · cases a <;> simp_all
        · cases b <;> simp_all <;> omega
      simp only [decide_eq_true this, (expOkF_iff e).2 he, Bool.and_self, Bool.true_or]
      rfl
  · have hne : body.isEmpty = false := by
      have := special_nonempty body hs; cases body <;> simp_all
    unfold bodyOkF
    rw [hne, (specialF_iff body).2 hs]; simp

theorem grammar_of_bodyOkF (body : Str) (h : bodyOkF body = true) : F64Body body := by
  unfold bodyOkF at h
  split at h
  · cases h
  · rw [Bool.or_eq_true] at h
    rcases h with h | h
    · left
      rw [Bool.and_eq_true, decide_eq_true_eq] at h
      obtain ⟨hman, hexp⟩ := h
      obtain ⟨ha, hr1, hbody⟩ := span_exists body
      generalize hA : body.takeWhile isDigitC = a at *
      generalize hR : body.dropWhile isDigitC = r1 at *
      cases r1 with
      | nil =>
        simp only [fracSplit, List.length_nil, Nat.add_zero] at hman hexp
        refine ⟨a, [], by simpa using hbody, ⟨a, [], ha, by simp [DigitRun], .inl ⟨rfl, ?_⟩⟩, .inl rfl⟩
        intro e; rw [e] at hman; simp at hman
      | cons c r =>
        by_cases hc : c = '.'
        · subst hc
          obtain ⟨hb, _, hr⟩ := span_exists r
          have hfs : fracSplit ('.' :: r) = (r.takeWhile isDigitC, r.dropWhile isDigitC) := by simp [fracSplit]
          rw [hfs] at hman hexp
          refine ⟨a ++ '.' :: r.takeWhile isDigitC, r.dropWhile isDigitC, ?_,
            ⟨a, r.takeWhile isDigitC, ha, hb, .inr ⟨rfl, ?_⟩⟩, (expOkF_iff _).1 hexp⟩
          · rw [hbody]; simp only [List.append_assoc, List.cons_append]; rw [← hr]
          · simp only at hman
            by_cases hae : a = []
            · right; intro e; rw [hae, e] at hman; simp at hman
            · exact .inl hae
        · have hfs : fracSplit (c :: r) = ([], c :: r) := by simp [fracSplit, hc]
          rw [hfs] at hman hexp
          refine ⟨a, c :: r, hbody, ⟨a, [], ha, by simp [DigitRun], .inl ⟨rfl, ?_⟩⟩, (expOkF_iff _).1 hexp⟩
          intro e; rw [e] at hman; simp at hman
    · exact .inr ((specialF_iff body).1 h)

theorem f64Body_head_not_sign (body : Str) (h : F64Body body) : stripSign body = body := by
  cases body with
  | nil => rfl
  | cons c r =>
    have hc : ¬ (c = '-' ∨ c = '+') := by
      rcases h with ⟨m, e, hb, ⟨a, b, ha, hb2, hm⟩, he⟩ | hs
      · have hmhead : ∀ x m', m = x :: m' → ¬ (x = '-' ∨ x = '+') := by
          intro x m' hx
          rcases hm with ⟨rfl, hane⟩ | ⟨rfl, _⟩
          · have : isDigitC x = true := ha x (by rw [hx]; simp)
            rintro (rfl | rfl) <;> revert this <;> decide
          · cases a with
            | nil => simp only [List.nil_append, List.cons.injEq] at hx; rw [← hx.1]; decide
            | cons y ys =>
              simp only [List.cons_append, List.cons.injEq] at hx
              have : isDigitC x = true := ha x (by rw [← hx.1]; simp)
              rintro (rfl | rfl) <;> revert this <;> decide
        have hmne : m ≠ [] := by
          rcases hm with ⟨rfl, hane⟩ | ⟨rfl, _⟩
          · exact hane
          · simp
        cases m with
        | nil => exact absurd rfl hmne
        | cons x m' =>
          simp only [List.cons_append, List.cons.injEq] at hb
          rw [hb.1]; exact hmhead x m' rfl
      · rintro (rfl | rfl)
        · rcases hs with h | h | h <;> (simp only [lower, List.map_cons] at h; have := (List.cons.inj h).1; revert this; decide)
        · rcases hs with h | h | h <;> (simp only [lower, List.map_cons] at h; have := (List.cons.inj h).1; revert this; decide)
    simp [stripSign, hc]

/-- the model's refusal test accepts exactly the texts of the grammar -/
theorem isF64Literal_iff_grammar (s : Str) : isF64Literal s = true ↔ F64Text s := by
  rw [isF64Literal_eq]
  constructor
  · intro h
    have hb := grammar_of_bodyOkF _ h
    cases s with
    | nil => exact ⟨[], [], rfl, .inl rfl, hb⟩
    | cons c r =>
      by_cases hc : c = '-' ∨ c = '+'
      · have hs : stripSign (c :: r) = r := by simp [stripSign, hc]
        rw [hs] at hb
        refine ⟨[c], r, rfl, ?_, hb⟩
        rcases hc with rfl | rfl
        · exact .inr (.inl rfl)
        · exact .inr (.inr rfl)
      · have hs : stripSign (c :: r) = c :: r := by simp [stripSign, hc]
        rw [hs] at hb
        exact ⟨[], c :: r, rfl, .inl rfl, hb⟩
  · rintro ⟨sg, body, rfl, hsg, hb⟩
    have hns := f64Body_head_not_sign body hb
    rcases hsg with rfl | rfl | rfl
    · rw [List.nil_append, hns]; exact bodyOkF_of_grammar body hb
    · have : stripSign (['-'] ++ body) = body := by simp [stripSign]
      rw [this]; exact bodyOkF_of_grammar body hb
    · have : stripSign (['+'] ++ body) = body := by simp [stripSign]
      rw [this]; exact bodyOkF_of_grammar body hb

end ArrModel.C17
