import ArrProofs.Lemmas.C10Basic
/-!
# C10 lemmas, part 3 — `tim_sort` (repaired): `merge`, `insertion_sort`, the `step_by` loops, the doubling loop

The in-place routines are characterised on a decomposition `p ++ chunk ++ r` of the array, which keeps all index
arithmetic linear.
-/
namespace ArrModel.Sort
open ArrModel
variable {α : Type}

theorem idx_append_cons (u v : List α) (y : α) (i : Nat) (hi : i = u.length) :
    Res.idx (u ++ y :: v) i = .ok y := by
  subst hi; simp [Res.idx]

theorem setR_append_cons (u v : List α) (y x : α) (i : Nat) (hi : i = u.length) :
    setR (u ++ y :: v) i x = .ok (u ++ x :: v) := by
  subst hi; simp [setR]

theorem sliceFrom_append (u v : List α) (i : Nat) (hi : i = u.length) : sliceFrom (u ++ v) i = .ok v := by
  subst hi; simp [sliceFrom]

theorem cloneFromSlice_spec (p old r src : List α) (lo hi : Nat) (hlo : lo = p.length)
    (hhi : hi = lo + old.length) (hs : src.length = old.length) :
    cloneFromSlice (p ++ old ++ r) lo hi src = .ok (p ++ src ++ r) := by
  subst hlo hhi
  unfold cloneFromSlice
  rw [if_pos (by simp; omega)]
  congr 2
  · congr 1
    rw [List.append_assoc]; exact List.take_left' rfl
  · exact List.drop_left' (by simp)

theorem sliceIncl_spec (p s r : List α) (lo hi : Nat) (hlo : lo = p.length) (hhi : hi + 1 = p.length + s.length) :
    sliceIncl (p ++ s ++ r) lo hi = .ok s := by
  subst hlo
  unfold sliceIncl
  rw [if_pos (by simp; omega)]
  congr 1
  rw [List.append_assoc, List.drop_left' rfl]
  exact List.take_left' (by omega)

theorem mergeWhile_spec (c : Cmp α) : ∀ (fuel : Nat) (L1 L2 R1 R2 p mid r : List α) (len1 len2 i j k : Nat),
    i = L1.length → j = R1.length → k = p.length → len1 = L1.length + L2.length → len2 = R1.length + R2.length →
    mid.length = L2.length + R2.length → L2.length + R2.length + 1 ≤ fuel →
    mergeWhile c (L1 ++ L2) (R1 ++ R2) len1 len2 fuel (p ++ mid ++ r) i j k = .ok (p ++ List.merge L2 R2 c.le ++ r) := by
  intro fuel
  induction fuel with
  | zero => intro L1 L2 R1 R2 p mid r len1 len2 i j k _ _ _ _ _ _ hf; omega
  | succ f ih =>
    intro L1 L2 R1 R2 p mid r len1 len2 i j k hi hj hk h1 h2 hm hf
    unfold mergeWhile
    match L2, R2 with
    | [], R2 =>
      have hc : ¬ (i < len1 ∧ j < len2) := by simp at h1; omega
      rw [if_neg hc]
      simp only [List.append_nil, List.length_nil, Nat.zero_add] at *
      have e1 : sliceFrom L1 i = .ok [] := by simpa using sliceFrom_append L1 [] i hi
      rw [e1, Res.bind_ok]
      have e2 : cloneFromSlice (p ++ mid ++ r) k (k + len1 - i) [] = .ok (p ++ mid ++ r) := by
        have := cloneFromSlice_spec p [] (mid ++ r) [] k (k + len1 - i) hk (by simp; omega) rfl
        simpa using this
      rw [e2, Res.bind_ok, sliceFrom_append R1 R2 j hj, Res.bind_ok]
      rw [cloneFromSlice_spec p mid r R2 _ _ (by omega) (by omega) (by omega)]
      simp
    | x :: L2', [] =>
      have hc : ¬ (i < len1 ∧ j < len2) := by simp at h2; omega
      rw [if_neg hc]
      simp only [List.append_nil, List.length_nil, Nat.add_zero] at *
      rw [sliceFrom_append L1 (x :: L2') i hi, Res.bind_ok]
      rw [cloneFromSlice_spec p mid r (x :: L2') _ _ hk (by simp at *; omega) (by omega), Res.bind_ok]
      have e1 : sliceFrom R1 j = .ok [] := by simpa using sliceFrom_append R1 [] j hj
      rw [e1, Res.bind_ok]
      have := cloneFromSlice_spec (p ++ x :: L2') [] r [] (k + len1 - i) (k + len1 - i + len2 - j)
        (by simp at *; omega) (by simp at *; omega) rfl
      simp only [List.append_nil] at this
      rw [this]
      simp
    | x :: L2', y :: R2' =>
      have hc : i < len1 ∧ j < len2 := by simp at h1 h2; omega
      rw [if_pos hc, idx_append_cons L1 L2' x i hi, Res.bind_ok, idx_append_cons R1 R2' y j hj, Res.bind_ok]
      match mid, hm with
      | m0 :: mid', hm =>
        have hset : ∀ z, setR (p ++ m0 :: mid' ++ r) k z = .ok ((p ++ [z]) ++ mid' ++ r) := by
          intro z
          have := setR_append_cons p (mid' ++ r) m0 z k hk
          simpa using this
        cases hle : c.le x y
        · simp only [Bool.false_eq_true, ↓reduceIte]
          rw [hset, Res.bind_ok]
          have := ih L1 (x :: L2') (R1 ++ [y]) R2' (p ++ [y]) mid' r len1 len2 i (j + 1) (k + 1)
            hi (by simp; omega) (by simp; omega) (by simp at *; omega) (by simp at *; omega) (by simp at *; omega)
            (by simp at *; omega)
          simp only [List.append_assoc, List.singleton_append] at this
          simp only [List.append_assoc, List.singleton_append]
          rw [this, List.cons_merge_cons_neg _ _ _ (by simp [hle])]
        · simp only [↓reduceIte]
          rw [hset, Res.bind_ok]
          have := ih (L1 ++ [x]) L2' R1 (y :: R2') (p ++ [x]) mid' r len1 len2 (i + 1) j (k + 1)
            (by simp; omega) hj (by simp; omega) (by simp at *; omega) (by simp at *; omega) (by simp at *; omega)
            (by simp at *; omega)
          simp only [List.append_assoc, List.singleton_append] at this
          simp only [List.append_assoc, List.singleton_append]
          rw [this, List.cons_merge_cons_pos _ _ _ hle]

/-- `merge(arr, left, mid, right)` replaces the two adjacent runs by their (stable, `<=`) merge -/
theorem mergeRuns_spec (c : Cmp α) (p L R r : List α) (left mid right : Nat) (hl : left = p.length)
    (hL : L ≠ []) (hm : mid + 1 = left + L.length) (hr : right = mid + R.length) :
    mergeRuns c (p ++ L ++ R ++ r) left mid right = .ok (p ++ List.merge L R c.le ++ r) := by
  have hLl : 0 < L.length := List.length_pos_iff.2 hL
  unfold mergeRuns
  have e1 : sliceIncl (p ++ L ++ R ++ r) left mid = .ok L := by
    have := sliceIncl_spec p L (R ++ r) left mid hl (by omega)
    simpa [List.append_assoc] using this
  have e2 : sliceIncl (p ++ L ++ R ++ r) (mid + 1) right = .ok R := by
    have := sliceIncl_spec (p ++ L) R r (mid + 1) right (by simp; omega) (by simp; omega)
    simpa [List.append_assoc] using this
  simp only [e1, e2, Res.bind_ok]
  have := mergeWhile_spec c (mid - left + 1 + (right - mid) + 1) [] L [] R p (L ++ R) r (mid - left + 1) (right - mid) 0 0 left
    rfl rfl hl (by simp; omega) (by simp; omega) (by simp) (by omega)
  simpa [List.append_assoc] using this

/-! ### insertion_sort -/

theorem swapR_adjacent (u v : List α) (x y : α) (j : Nat) (hj : j = u.length) :
    swapR (u ++ y :: x :: v) (j + 1) j = .ok (u ++ x :: y :: v) := by
  subst hj
  simp [swapR]

/-- the inner `while` of `insertion_sort`: `x` (at position `j`) sinks into the run `s1` to its left -/
theorem insInner_spec {c : Cmp α} (h : c.Lawful) (p : List α) (x : α) : ∀ (m : Nat) (s1 s2 : List α) (j : Nat),
    s1.length = m → j = p.length + s1.length →
    ∃ t, insInner c p.length j (p ++ s1 ++ x :: s2) = .ok (p ++ t ++ s2) ∧ t.Perm (s1 ++ [x]) ∧
      (Sorted c s1 → Sorted c t) := by
  intro m
  induction m with
  | zero =>
    intro s1 s2 j hs hj
    have : s1 = [] := List.length_eq_zero_iff.1 hs
    subst this
    refine ⟨[x], ?_, .refl _, fun _ => List.pairwise_singleton _ _⟩
    simp only [List.length_nil, Nat.add_zero] at hj
    subst hj
    cases hp : p.length with
    | zero => simp [insInner]
    | succ n => simp [insInner]
  | succ m ih =>
    intro s1 s2 j hs hj
    obtain ⟨s1', y, rfl⟩ : ∃ s1' y, s1 = s1' ++ [y] := by
      have hne : s1 ≠ [] := by intro h0; rw [h0] at hs; cases hs
      exact ⟨s1.dropLast, s1.getLast hne, (List.dropLast_concat_getLast hne).symm⟩
    simp only [List.length_append, List.length_singleton] at hs hj
    obtain ⟨j', rfl⟩ : ∃ j', j = j' + 1 := ⟨p.length + s1'.length, by omega⟩
    have hj' : j' = (p ++ s1').length := by simp; omega
    have harr : p ++ (s1' ++ [y]) ++ x :: s2 = (p ++ s1') ++ y :: x :: s2 := by simp
    rw [harr]
    unfold insInner
    rw [if_pos (by omega)]
    have e1 : Res.idx ((p ++ s1') ++ y :: x :: s2) (j' + 1) = .ok x := by
      have := idx_append_cons (p ++ s1' ++ [y]) s2 x (j' + 1) (by simp; omega)
      simpa using this
    rw [e1, Res.bind_ok, idx_append_cons (p ++ s1') (x :: s2) y j' hj', Res.bind_ok]
    cases hlt : c.lt x y
    · simp only [Bool.false_eq_true, ↓reduceIte]
      refine ⟨s1' ++ [y] ++ [x], by simp, .refl _, ?_⟩
      intro hs1
      have hyx := h.le_of_not_lt hlt
      unfold Sorted at *
      rw [List.pairwise_append] at hs1 ⊢
      refine ⟨by rw [List.pairwise_append]; exact hs1, List.pairwise_singleton _ _, ?_⟩
      intro a ha b hb
      simp only [List.mem_singleton] at hb; subst hb
      rcases List.mem_append.1 ha with ha | ha
      · exact h.le_trans _ _ _ (hs1.2.2 a ha y (by simp)) hyx
      · simp only [List.mem_singleton] at ha; subst ha; exact hyx
    · simp only [↓reduceIte]
      rw [swapR_adjacent (p ++ s1') s2 x y j' hj', Res.bind_ok]
      obtain ⟨t', ht, hperm, hsort⟩ := ih s1' (y :: s2) j' (by omega) (by omega)
      have harr2 : p ++ s1' ++ x :: y :: s2 = p ++ s1' ++ x :: (y :: s2) := rfl
      rw [harr2, ht]
      refine ⟨t' ++ [y], by simp, ?_, ?_⟩
      · refine (hperm.append_right [y]).trans ?_
        simp only [List.append_assoc]
        exact List.Perm.append_left s1' (List.Perm.swap y x [])
      · intro hs1
        have hxy := h.le_of_lt hlt
        unfold Sorted at *
        rw [List.pairwise_append] at hs1 ⊢
        refine ⟨hsort hs1.1, List.pairwise_singleton _ _, ?_⟩
        intro a ha b hb
        simp only [List.mem_singleton] at hb; subst hb
        have ha' := hperm.mem_iff.1 ha
        rcases List.mem_append.1 ha' with ha' | ha'
        · exact hs1.2.2 a ha' b (by simp)
        · simp only [List.mem_singleton] at ha'; subst ha'; exact hxy

/-- the outer `for` of `insertion_sort` -/
theorem insOuter_spec {c : Cmp α} (h : c.Lawful) (p : List α) : ∀ (cnt : Nat) (s rest : List α) (i : Nat),
    i = p.length + s.length → cnt ≤ rest.length → Sorted c s →
    ∃ s', insOuter c p.length cnt i (p ++ s ++ rest) = .ok (p ++ s' ++ rest.drop cnt) ∧
      s'.Perm (s ++ rest.take cnt) ∧ Sorted c s' := by
  intro cnt
  induction cnt with
  | zero => intro s rest i _ _ hs; exact ⟨s, by simp [insOuter], by simp, hs⟩
  | succ cnt ih =>
    intro s rest i hi hcnt hs
    match rest, hcnt with
    | x :: rest', hcnt =>
      unfold insOuter
      obtain ⟨t, ht, hperm, hsort⟩ := insInner_spec h p x s.length s rest' i rfl hi
      rw [ht, Res.bind_ok]
      obtain ⟨s', hs', hperm', hsort'⟩ := ih t rest' (i + 1)
        (by have := hperm.length_eq; simp at this; omega) (by simp at hcnt; omega) (hsort hs)
      refine ⟨s', by simpa using hs', ?_, hsort'⟩
      refine hperm'.trans ?_
      simp only [List.take_succ_cons]
      refine (hperm.append_right _).trans ?_
      simp

theorem insertionSort_spec {c : Cmp α} (h : c.Lawful) (p ch r : List α) (left right : Nat) (hch : ch ≠ [])
    (hl : left = p.length) (hr : right + 1 = p.length + ch.length) :
    ∃ S, insertionSort c (p ++ ch ++ r) left right = .ok (p ++ S ++ r) ∧ S.Perm ch ∧ Sorted c S := by
  match ch, hch with
  | x0 :: ch', _ =>
    subst hl
    unfold insertionSort
    simp only [List.length_cons] at hr
    obtain ⟨s', hs', hperm, hsort⟩ := insOuter_spec h p (right - p.length) [x0] (ch' ++ r) (p.length + 1)
      (by simp) (by simp; omega) (List.pairwise_singleton _ _)
    have e1 : right - p.length = ch'.length := by omega
    rw [e1] at hs' hperm
    simp only [List.drop_left, List.take_left] at hs' hperm
    refine ⟨s', ?_, by simpa using hperm, hsort⟩
    rw [e1]
    simpa [List.append_assoc] using hs'


/-! ### the `step_by` loops, chunk by chunk -/

/-- `rest'` is obtained from `q` by replacing every chunk of `step` elements (the last one may be shorter) by a
`P`-related chunk -/
inductive ChunkRel (P : List α → List α → Prop) (step : Nat) : List α → List α → Prop
  | nil : ChunkRel P step [] []
  | cons {q M rest' : List α} : q ≠ [] → P (q.take step) M → ChunkRel P step (q.drop step) rest' →
      ChunkRel P step q (M ++ rest')

theorem ChunkRel.of_nil {P : List α → List α → Prop} {step : Nat} {rest' : List α}
    (h : ChunkRel P step [] rest') : rest' = [] := by
  cases h with
  | nil => rfl
  | cons hq _ _ => exact absurd rfl hq

/-- consecutive runs of `s` elements (the last one may be shorter) are each sorted -/
inductive Runs (c : Cmp α) (s : Nat) : List α → Prop
  | nil : Runs c s []
  | cons {q : List α} : q ≠ [] → Sorted c (q.take s) → Runs c s (q.drop s) → Runs c s q

theorem Runs.inv {c : Cmp α} {s : Nat} {q : List α} (h : Runs c s q) : Sorted c (q.take s) ∧ Runs c s (q.drop s) := by
  cases h with
  | nil => exact ⟨by simp [Sorted], by simpa using Runs.nil⟩
  | cons _ h1 h2 => exact ⟨h1, h2⟩

theorem Runs.sorted_of_length_le {c : Cmp α} {s : Nat} {q : List α} (h : Runs c s q) (hl : q.length ≤ s) : Sorted c q := by
  have := h.inv.1
  rwa [List.take_of_length_le hl] at this

theorem stepLoop_chunks (body : List α → Nat → Res (List α)) (P : List α → List α → Prop) (n step : Nat)
    (hstep : 1 ≤ step) (hP : ∀ ch M, P ch M → M.length = ch.length)
    (hbody : ∀ (p ch r : List α) (cur : Nat), cur = p.length → (p ++ ch ++ r).length = n → ch ≠ [] →
      (ch.length = step ∨ (ch.length < step ∧ r = [])) →
      ∃ M, body (p ++ ch ++ r) cur = .ok (p ++ M ++ r) ∧ P ch M) :
    ∀ (fuel : Nat) (p q : List α) (cur : Nat), (p ++ q).length = n → p.length ≤ cur → (q ≠ [] → cur = p.length) →
      1 ≤ fuel → n + 1 ≤ fuel + cur →
      ∃ rest', stepLoop body n step fuel cur (p ++ q) = .ok (p ++ rest') ∧ ChunkRel P step q rest' := by
  intro fuel
  induction fuel with
  | zero => intro p q cur _ _ _ h1; omega
  | succ f ih =>
    intro p q cur hn hp hq hf1 hf
    unfold stepLoop
    by_cases hq0 : q = []
    · subst hq0
      simp only [List.append_nil] at hn ⊢
      rw [if_neg (by omega)]
      exact ⟨[], by simp, .nil⟩
    · have hcur := hq hq0
      have hqlen : 0 < q.length := List.length_pos_iff.2 hq0
      simp only [List.length_append] at hn
      rw [if_pos (by omega)]
      have hsplit : p ++ q = p ++ q.take step ++ q.drop step := by simp
      have hch : q.take step ≠ [] := by
        intro h0
        have := congrArg List.length h0
        rw [List.length_take, List.length_nil] at this; omega
      have hn' : (p ++ q.take step ++ q.drop step).length = n := by rw [← hsplit]; simpa using hn
      obtain ⟨M, hM, hPM⟩ := hbody p (q.take step) (q.drop step) cur hcur hn' hch (by
        simp only [List.length_take]
        by_cases hle : step ≤ q.length
        · left; omega
        · right; exact ⟨by omega, List.drop_of_length_le (by omega)⟩)
      rw [hsplit, hM, Res.bind_ok]
      have hMl := hP _ _ hPM
      simp only [List.length_take] at hMl
      obtain ⟨rest'', hr, hrel⟩ := ih (p ++ M) (q.drop step) (cur + step) (by simp; omega) (by simp; omega)
        (by
          intro hne
          have : step < q.length := by
            rcases Nat.lt_or_ge step q.length with h | h
            · exact h
            · exact absurd (List.drop_of_length_le h) hne
          simp; omega)
        (by omega) (by omega)
      refine ⟨M ++ rest'', by simpa [List.append_assoc] using hr, .cons hq0 hPM hrel⟩

theorem forStepBy_chunks (body : List α → Nat → Res (List α)) (P : List α → List α → Prop) (n step : Nat)
    (hstep : 1 ≤ step) (hP : ∀ ch M, P ch M → M.length = ch.length)
    (hbody : ∀ (p ch r : List α) (cur : Nat), cur = p.length → (p ++ ch ++ r).length = n → ch ≠ [] →
      (ch.length = step ∨ (ch.length < step ∧ r = [])) →
      ∃ M, body (p ++ ch ++ r) cur = .ok (p ++ M ++ r) ∧ P ch M)
    (a : List α) (ha : a.length = n) :
    ∃ a', forStepBy body n step a = .ok a' ∧ ChunkRel P step a a' := by
  unfold forStepBy
  rw [if_neg (by omega)]
  have := stepLoop_chunks body P n step hstep hP hbody (n + 1) [] a 0 (by simpa using ha) (by simp) (by simp) (by omega) (by omega)
  simpa using this

theorem ChunkRel.perm {P : List α → List α → Prop} {step : Nat} (hP : ∀ ch M, P ch M → M.Perm ch)
    {q rest' : List α} (h : ChunkRel P step q rest') : rest'.Perm q := by
  induction h with
  | nil => exact .refl _
  | cons _ hPM _ ih =>
    refine ((hP _ _ hPM).append ih).trans ?_
    rw [List.take_append_drop]

/-- `take`/`drop` of a freshly produced chunk followed by the rest -/
theorem take_drop_chunk (M rest' : List α) (step qlen : Nat) (hM : M.length = min step qlen)
    (hr : qlen ≤ step → rest' = []) :
    (M ++ rest').take step = M ∧ (M ++ rest').drop step = rest' := by
  by_cases hle : qlen ≤ step
  · rw [hr hle]
    simp only [List.append_nil]
    exact ⟨List.take_of_length_le (by omega), List.drop_of_length_le (by omega)⟩
  · exact ⟨List.take_left' (by omega), List.drop_left' (by omega)⟩

theorem ChunkRel.rest_nil {P : List α → List α → Prop} {step : Nat} {q rest' : List α}
    (h : ChunkRel P step (q.drop step) rest') (hl : q.length ≤ step) : rest' = [] := by
  rw [List.drop_of_length_le hl] at h; exact h.of_nil

/-- after the insertion phase every run of `step` elements is sorted -/
theorem ChunkRel.runs_of_sorted {c : Cmp α} {step : Nat} {q rest' : List α}
    (h : ChunkRel (fun ch M => M.Perm ch ∧ Sorted c M) step q rest') : Runs c step rest' := by
  induction h with
  | nil => exact .nil
  | @cons q M rest' hq hPM hrel ih =>
    have hMl : M.length = min step q.length := by have := hPM.1.length_eq; simpa using this
    have hql : 0 < q.length := List.length_pos_iff.2 hq
    by_cases hs0 : step = 0
    · -- degenerate, never used: `take 0` is sorted and `drop 0` is the list itself
      subst hs0
      have hM0 : M = [] := List.length_eq_zero_iff.1 (by omega)
      subst hM0
      simpa using ih
    · have hne : M ++ rest' ≠ [] := by
        intro h0
        have := congrArg List.length h0
        simp only [List.length_append, List.length_nil] at this; omega
      obtain ⟨ht, hd⟩ := take_drop_chunk M rest' step q.length hMl (fun hle => hrel.rest_nil hle)
      exact .cons hne (by rw [ht]; exact hPM.2) (by rw [hd]; exact ih)

/-- one doubling pass turns sorted runs of `s` into sorted runs of `2 s` -/
theorem ChunkRel.runs_of_merge {c : Cmp α} (hc : c.Lawful) {s : Nat} (hs : 1 ≤ s) {q rest' : List α}
    (h : ChunkRel (fun ch M => M = List.merge (ch.take s) (ch.drop s) c.le) (2 * s) q rest') (hr : Runs c s q) :
    Runs c (2 * s) rest' := by
  induction h with
  | nil => exact .nil
  | @cons q M rest' hq hPM hrel ih =>
    have hql : 0 < q.length := List.length_pos_iff.2 hq
    obtain ⟨h1, hr1⟩ := hr.inv
    obtain ⟨h2, hr2⟩ := hr1.inv
    have e1 : (q.take (2 * s)).take s = q.take s := by rw [List.take_take]; congr 1; omega
    have e2 : (q.take (2 * s)).drop s = (q.drop s).take s := by rw [List.drop_take]; congr 1; omega
    have e3 : (q.drop s).drop s = q.drop (2 * s) := by rw [List.drop_drop]; congr 1; omega
    rw [e1, e2] at hPM
    rw [e3] at hr2
    have hMs : Sorted c M := by
      rw [hPM]
      exact List.pairwise_merge (le := c.le) (fun a b d => hc.le_trans a b d)
        (fun a b => by rcases hc.le_total a b with h' | h' <;> simp [h']) _ _ h1 h2
    have hMl : M.length = min (2 * s) q.length := by
      rw [hPM, List.length_merge, List.length_take, List.length_take, List.length_drop]; omega
    have hne : M ++ rest' ≠ [] := by
      intro h0
      have := congrArg List.length h0
      simp only [List.length_append, List.length_nil] at this; omega
    obtain ⟨ht, hd⟩ := take_drop_chunk M rest' (2 * s) q.length hMl (fun hle => hrel.rest_nil hle)
    exact .cons hne (by rw [ht]; exact hMs) (by rw [hd]; exact ih hr2)

/-! ### the two loop bodies -/

theorem insBody_spec {c : Cmp α} (h : c.Lawful) (n minRun : Nat) (hm : 1 ≤ minRun)
    (p ch r : List α) (cur : Nat) (hcur : cur = p.length) (hn : (p ++ ch ++ r).length = n) (hch : ch ≠ [])
    (hlen : ch.length = minRun ∨ (ch.length < minRun ∧ r = [])) :
    ∃ M, insertionSort c (p ++ ch ++ r) cur (min (cur + minRun - 1) (n - 1)) = .ok (p ++ M ++ r) ∧
      (M.Perm ch ∧ Sorted c M) := by
  have hcl : 0 < ch.length := List.length_pos_iff.2 hch
  simp only [List.length_append] at hn
  have hright : min (cur + minRun - 1) (n - 1) + 1 = p.length + ch.length := by
    rcases hlen with h1 | ⟨h1, h2⟩
    · omega
    · subst h2; simp only [List.length_nil] at hn; omega
  obtain ⟨S, hS, hp, hs⟩ := insertionSort_spec h p ch r cur _ hch hcur hright
  exact ⟨S, hS, hp, hs⟩

theorem mergeBody_spec (c : Cmp α) (n size : Nat) (hs : 1 ≤ size)
    (p ch r : List α) (cur : Nat) (hcur : cur = p.length) (hn : (p ++ ch ++ r).length = n) (hch : ch ≠ [])
    (hlen : ch.length = 2 * size ∨ (ch.length < 2 * size ∧ r = [])) :
    ∃ M, (if min (n - 1) (cur + size - 1) < min (cur + 2 * size - 1) (n - 1)
          then mergeRuns c (p ++ ch ++ r) cur (min (n - 1) (cur + size - 1)) (min (cur + 2 * size - 1) (n - 1))
          else .ok (p ++ ch ++ r)) = .ok (p ++ M ++ r) ∧
      M = List.merge (ch.take size) (ch.drop size) c.le := by
  have hcl : 0 < ch.length := List.length_pos_iff.2 hch
  simp only [List.length_append] at hn
  refine ⟨_, ?_, rfl⟩
  by_cases hshort : ch.length ≤ size
  · -- a single (possibly short) run: nothing to merge
    have hr : r = [] := by
      rcases hlen with h1 | ⟨_, h2⟩
      · omega
      · exact h2
    subst hr
    simp only [List.length_nil] at hn
    rw [if_neg (by omega), List.take_of_length_le hshort, List.drop_of_length_le hshort]
    simp
  · have hmid : min (n - 1) (cur + size - 1) = cur + size - 1 := by omega
    have hright : min (cur + 2 * size - 1) (n - 1) = cur + ch.length - 1 := by
      rcases hlen with h1 | ⟨h1, h2⟩
      · omega
      · subst h2; simp only [List.length_nil] at hn; omega
    rw [hmid, hright, if_pos (by omega)]
    have hsplit : ch = ch.take size ++ ch.drop size := (List.take_append_drop size ch).symm
    have hL : ch.take size ≠ [] := by
      intro h0
      have := congrArg List.length h0
      rw [List.length_take, List.length_nil] at this; omega
    have := mergeRuns_spec c p (ch.take size) (ch.drop size) r cur (cur + size - 1) (cur + ch.length - 1) hcur hL
      (by rw [List.length_take]; omega) (by rw [List.length_drop]; omega)
    rw [List.append_assoc p, ← hsplit] at this
    exact this

/-! ### `calc_min_run`, the doubling loop, `tim_sort` -/

theorem calcMinRunLoop_spec : ∀ (fuel n r : Nat), n + 1 ≤ fuel →
    ∃ m, calcMinRunLoop fuel n r = .ok m ∧ (1 ≤ n → 1 ≤ m) := by
  intro fuel
  induction fuel with
  | zero => intro n r h; omega
  | succ f ih =>
    intro n r hf
    unfold calcMinRunLoop
    by_cases h32 : n ≥ 32
    · rw [if_pos h32]
      have hdiv : n >>> 1 = n / 2 := by simp [Nat.shiftRight_eq_div_pow]
      obtain ⟨m, hm, hm1⟩ := ih (n >>> 1) (r ||| (n &&& 1)) (by rw [hdiv]; omega)
      exact ⟨m, hm, fun _ => hm1 (by rw [hdiv]; omega)⟩
    · rw [if_neg h32]
      exact ⟨n + r, rfl, fun h => by omega⟩

theorem calcMinRun_spec (n : Nat) : ∃ m, calcMinRun n = .ok m ∧ (1 ≤ n → 1 ≤ m) :=
  calcMinRunLoop_spec (n + 1) n 0 (Nat.le_refl _)

theorem mergePass_spec {c : Cmp α} (h : c.Lawful) (n size : Nat) (hs : 1 ≤ size) (a : List α) (ha : a.length = n)
    (hr : Runs c size a) :
    ∃ a', mergePass c n size a = .ok a' ∧ a'.Perm a ∧ Runs c (2 * size) a' := by
  unfold mergePass
  obtain ⟨a', ha', hrel⟩ := forStepBy_chunks
    (fun a left =>
      if min (n - 1) (left + size - 1) < min (left + 2 * size - 1) (n - 1)
      then mergeRuns c a left (min (n - 1) (left + size - 1)) (min (left + 2 * size - 1) (n - 1)) else .ok a)
    (fun ch M => M = List.merge (ch.take size) (ch.drop size) c.le) n (2 * size) (by omega)
    (fun ch M hM => by
      rw [hM, List.length_merge, List.length_take, List.length_drop]; omega)
    (fun p ch r cur hcur hn hch hlen => mergeBody_spec c n size hs p ch r cur hcur hn hch hlen) a ha
  refine ⟨a', ha', ?_, hrel.runs_of_merge h hs hr⟩
  refine hrel.perm (fun ch M hM => ?_)
  rw [hM]
  refine (List.merge_perm_append (le := c.le)).trans ?_
  rw [List.take_append_drop]

theorem sizeLoop_spec {c : Cmp α} (h : c.Lawful) (n : Nat) : ∀ (fuel size : Nat) (a : List α),
    a.length = n → 1 ≤ size → Runs c size a → 1 ≤ fuel → n + 1 ≤ fuel + size →
    ∃ a', sizeLoop c n fuel size a = .ok a' ∧ a'.Perm a ∧ Sorted c a' := by
  intro fuel
  induction fuel with
  | zero => intro size a _ _ _ h1; omega
  | succ f ih =>
    intro size a ha hs hr hf1 hf
    unfold sizeLoop
    by_cases hlt : size < n
    · rw [if_pos hlt]
      obtain ⟨a1, hp, hperm, hr1⟩ := mergePass_spec h n size hs a ha hr
      rw [hp, Res.bind_ok]
      have e : size * 2 = 2 * size := Nat.mul_comm _ _
      rw [e]
      obtain ⟨a2, h2, hperm2, hs2⟩ := ih (2 * size) a1 (by rw [hperm.length_eq]; exact ha) (by omega) hr1 (by omega) (by omega)
      exact ⟨a2, h2, hperm2.trans hperm, hs2⟩
    · rw [if_neg hlt]
      exact ⟨a, rfl, .refl _, hr.sorted_of_length_le (by omega)⟩

theorem timSort_spec {c : Cmp α} (h : c.Lawful) (xs : List α) :
    ∃ s, timSort c xs = .ok s ∧ s.Perm xs ∧ Sorted c s := by
  unfold timSort
  by_cases h1 : xs.length ≤ 1
  · rw [if_pos h1]; exact ⟨xs, rfl, .refl _, sorted_of_length_le_one c h1⟩
  · rw [if_neg h1]
    obtain ⟨m, hm, hm1⟩ := calcMinRun_spec xs.length
    have hm1 := hm1 (by omega)
    simp only [hm, Res.bind_ok]
    obtain ⟨a1, ha1, hrel⟩ := forStepBy_chunks
      (fun a start => insertionSort c a start (min (start + m - 1) (xs.length - 1)))
      (fun ch M => M.Perm ch ∧ Sorted c M) xs.length m hm1 (fun ch M hM => hM.1.length_eq)
      (fun p ch r cur hcur hn hch hlen => insBody_spec h xs.length m hm1 p ch r cur hcur hn hch hlen) xs rfl
    rw [ha1, Res.bind_ok]
    have hperm1 : a1.Perm xs := hrel.perm (fun ch M hM => hM.1)
    obtain ⟨a2, ha2, hperm2, hs2⟩ := sizeLoop_spec h xs.length (xs.length + 1) m a1 hperm1.length_eq hm1
      hrel.runs_of_sorted (by omega) (by omega)
    exact ⟨a2, ha2, hperm2.trans hperm1, hs2⟩

end ArrModel.Sort
