import ArrProofs.Lemmas.C10Basic
/-!
# C10 lemmas, part 3 — `tim_sort` (repaired): `merge`, `insertion_sort`, the `step_by` loops, the doubling loop

The in-place routines are characterised on a decomposition `p ++ chunk ++ r` of the array, which keeps all index
arithmetic linear.
-/
namespace ArrModel.Sort
open ArrModel
variable {α : Type}

theorem idx_append_cons (u v : List α) (y : α) (i : Nat) (hi : i = u.length) :
    Res.idx (u ++ y :: v) i = .ok y := by
  subst hi; simp [Res.idx]

theorem setR_append_cons (u v : List α) (y x : α) (i : Nat) (hi : i = u.length) :
    setR (u ++ y :: v) i x = .ok (u ++ x :: v) := by
  subst hi; simp [setR]

theorem sliceFrom_append (u v : List α) (i : Nat) (hi : i = u.length) : sliceFrom (u ++ v) i = .ok v := by
  subst hi; simp [sliceFrom]

theorem cloneFromSlice_spec (p old r src : List α) (lo hi : Nat) (hlo : lo = p.length)
    (hhi : hi = lo + old.length) (hs : src.length = old.length) :
    cloneFromSlice (p ++ old ++ r) lo hi src = .ok (p ++ src ++ r) := by
  subst hlo hhi
  unfold cloneFromSlice
  rw [if_pos (by simp; omega)]
  congr 2
  · congr 1
    rw [List.append_assoc]; exact List.take_left' rfl
  · exact List.drop_left' (by simp)

theorem sliceIncl_spec (p s r : List α) (lo hi : Nat) (hlo : lo = p.length) (hhi : hi + 1 = p.length + s.length) :
    sliceIncl (p ++ s ++ r) lo hi = .ok s := by
  subst hlo
  unfold sliceIncl
  rw [if_pos (by simp; omega)]
  congr 1
  rw [List.append_assoc, List.drop_left' rfl]
  exact List.take_left' (by omega)

theorem mergeWhile_spec (c : Cmp α) : ∀ (fuel : Nat) (L1 L2 R1 R2 p mid r : List α) (len1 len2 i j k : Nat),
    i = L1.length → j = R1.length → k = p.length → len1 = L1.length + L2.length → len2 = R1.length + R2.length →
    mid.length = L2.length + R2.length → L2.length + R2.length + 1 ≤ fuel →
    mergeWhile c (L1 ++ L2) (R1 ++ R2) len1 len2 fuel (p ++ mid ++ r) i j k = .ok (p ++ List.merge L2 R2 c.le ++ r) := by
  intro fuel
  induction fuel with
  | zero => intro L1 L2 R1 R2 p mid r len1 len2 i j k _ _ _ _ _ _ hf; omega
  | succ f ih =>
    intro L1 L2 R1 R2 p mid r len1 len2 i j k hi hj hk h1 h2 hm hf
    unfold mergeWhile
    match L2, R2 with
    | [], R2 =>
      have hc : ¬ (i < len1 ∧ j < len2) := by simp at h1; omega
      rw [if_neg hc]
      simp only [List.append_nil, List.length_nil, Nat.zero_add] at *
      have e1 : sliceFrom L1 i = .ok [] := by simpa using sliceFrom_append L1 [] i hi
      rw [e1, Res.bind_ok]
      have e2 : cloneFromSlice (p ++ mid ++ r) k (k + len1 - i) [] = .ok (p ++ mid ++ r) := by
        have := cloneFromSlice_spec p [] (mid ++ r) [] k (k + len1 - i) hk (by simp; omega) rfl
        simpa using this
      rw [e2, Res.bind_ok, sliceFrom_append R1 R2 j hj, Res.bind_ok]
      rw [cloneFromSlice_spec p mid r R2 _ _ (by omega) (by omega) (by omega)]
      simp
    | x :: L2', [] =>
      have hc : ¬ (i < len1 ∧ j < len2) := by simp at h2; omega
      rw [if_neg hc]
      simp only [List.append_nil, List.length_nil, Nat.add_zero] at *
      rw [sliceFrom_append L1 (x :: L2') i hi, Res.bind_ok]
      rw [cloneFromSlice_spec p mid r (x :: L2') _ _ hk (by simp at *; omega) (by omega), Res.bind_ok]
      have e1 : sliceFrom R1 j = .ok [] := by simpa using sliceFrom_append R1 [] j hj
      rw [e1, Res.bind_ok]
      have := cloneFromSlice_spec (p ++ x :: L2') [] r [] (k + len1 - i) (k + len1 - i + len2 - j)
        (by simp at *; omega) (by simp at *; omega) rfl
      simp only [List.append_nil] at this
      rw [this]
      simp
    | x :: L2', y :: R2' =>
      have hc : i < len1 ∧ j < len2 := by simp at h1 h2; omega
      rw [if_pos hc, idx_append_cons L1 L2' x i hi, Res.bind_ok, idx_append_cons R1 R2' y j hj, Res.bind_ok]
      match mid, hm with
      | m0 :: mid', hm =>
        have hset : ∀ z, setR (p ++ m0 :: mid' ++ r) k z = .ok ((p ++ [z]) ++ mid' ++ r) := by
          intro z
          have := setR_append_cons p (mid' ++ r) m0 z k hk
          simpa using this
        cases hle : c.le x y
        · simp only [Bool.false_eq_true, ↓reduceIte]
          rw [hset, Res.bind_ok]
          have := ih L1 (x :: L2') (R1 ++ [y]) R2' (p ++ [y]) mid' r len1 len2 i (j + 1) (k + 1)
            hi (by simp; omega) (by simp; omega) (by simp at *; omega) (by simp at *; omega) (by simp at *; omega)
            (by simp at *; omega)
          simp only [List.append_assoc, List.singleton_append] at this
          simp only [List.append_assoc, List.singleton_append]
          rw [this, List.cons_merge_cons_neg _ _ _ (by simp [hle])]
        · simp only [↓reduceIte]
          rw [hset, Res.bind_ok]
          have := ih (L1 ++ [x]) L2' R1 (y :: R2') (p ++ [x]) mid' r len1 len2 (i + 1) j (k + 1)
            (by simp; omega) hj (by simp; omega) (by simp at *; omega) (by simp at *; omega) (by simp at *; omega)
            (by simp at *; omega)
          simp only [List.append_assoc, List.singleton_append] at this
          simp only [List.append_assoc, List.singleton_append]
          rw [this, List.cons_merge_cons_pos _ _ _ hle]

/-- `merge(arr, left, mid, right)` replaces the two adjacent runs by their (stable, `<=`) merge -/
theorem mergeRuns_spec (c : Cmp α) (p L R r : List α) (left mid right : Nat) (hl : left = p.length)
    (hL : L ≠ []) (hm : mid + 1 = left + L.length) (hr : right = mid + R.length) :
    mergeRuns c (p ++ L ++ R ++ r) left mid right = .ok (p ++ List.merge L R c.le ++ r) := by
  have hLl : 0 < L.length := List.length_pos_iff.2 hL
  unfold mergeRuns
  have e1 : sliceIncl (p ++ L ++ R ++ r) left mid = .ok L := by
    have := sliceIncl_spec p L (R ++ r) left mid hl (by omega)
    simpa [List.append_assoc] using this
  have e2 : sliceIncl (p ++ L ++ R ++ r) (mid + 1) right = .ok R := by
    have := sliceIncl_spec (p ++ L) R r (mid + 1) right (by simp; omega) (by simp; omega)
    simpa [List.append_assoc] using this
  simp only [e1, e2, Res.bind_ok]
  have := mergeWhile_spec c (mid - left + 1 + (right - mid) + 1) [] L [] R p (L ++ R) r (mid - left + 1) (right - mid) 0 0 left
    rfl rfl hl (by simp; omega) (by simp; omega) (by simp) (by omega)
  simpa [List.append_assoc] using this

end ArrModel.Sort
