import ArrModel.C13
import ArrProofs.Lemmas.C07
/-!
# C13 helper lemmas on plain lists: removing a set of positions, `dedupSorted`, `deleteOrder`
-/
namespace ArrModel
variable {α β : Type}

/-! ### `dropIdx` (specification of multi-position removal, defined in `Lemmas/C07.lean`) -/

theorem dropIdx_false : ∀ (l : List α) (P : Nat → Bool), (∀ i, P i = false) → dropIdx P l = l
  | [], _, _ => rfl
  | x :: xs, P, h => by
    simp only [dropIdx, h 0, Bool.false_eq_true, if_false]
    rw [dropIdx_false xs _ (fun i => h (i + 1))]

/-- `dropIdx` as a filter on positions -/
theorem dropIdx_eq_filter : ∀ (l : List α) (P : Nat → Bool) (k : Nat),
    dropIdx (fun i => P (i + k)) l = ((l.zipIdx k).filter (fun p => !P p.2)).map (·.1)
  | [], _, _ => rfl
  | x :: xs, P, k => by
    have ih := dropIdx_eq_filter xs P (k + 1)
    have e : (fun i => P (i + 1 + k)) = (fun i => P (i + (k + 1))) := by
      funext i; congr 1; omega
    simp only [dropIdx, List.zipIdx_cons, List.filter_cons, Nat.zero_add, e, ih]
    cases P k <;> simp

theorem dropIdx_eq_filter0 (l : List α) (P : Nat → Bool) :
    dropIdx P l = (l.zipIdx.filter (fun p => !P p.2)).map (·.1) := dropIdx_eq_filter l P 0

/-- erasing one position beyond every dropped one = dropping one more position -/
theorem dropIdx_eraseIdx : ∀ (l : List α) (P : Nat → Bool) (d : Nat), (∀ j, d ≤ j → P j = false) →
    dropIdx P (l.eraseIdx d) = dropIdx (fun j => P j || j == d) l
  | [], _, _, _ => rfl
  | x :: xs, P, 0, h => by
    simp only [List.eraseIdx_cons_zero, dropIdx, h 0 (Nat.le_refl _), Bool.false_or, beq_self_eq_true, if_true]
    rw [dropIdx_false xs P (fun i => h i (Nat.zero_le _)), dropIdx_false]
    intro i; simp [h (i + 1) (Nat.zero_le _)]
  | x :: xs, P, d + 1, h => by
    have ih := dropIdx_eraseIdx xs (fun i => P (i + 1)) d (fun j hj => h (j + 1) (by omega))
    have e : (fun i => (P (i + 1) || (i + 1 == d + 1))) = (fun j => P (j + 1) || j == d) := by
      funext i; simp
    simp only [List.eraseIdx_cons_succ, dropIdx, ih, e]
    simp

/-- `Vec::remove` over a strictly descending list of positions drops exactly those positions -/
theorem eraseFold_eq_dropIdx : ∀ (ds : List Nat) (l : List α), ds.Pairwise (· > ·) →
    ds.foldl (fun es i => es.eraseIdx i) l = dropIdx (fun i => decide (i ∈ ds)) l
  | [], l, _ => by simp [dropIdx_false]
  | d :: ds, l, hs => by
    rw [List.pairwise_cons] at hs
    rw [List.foldl_cons, eraseFold_eq_dropIdx ds _ hs.2, dropIdx_eraseIdx]
    · apply dropIdx_congr
      intro i
      by_cases h : i = d <;> simp [h]
    · intro j hj
      simp only [decide_eq_false_iff_not]
      intro hm; have := hs.1 j hm; omega

theorem length_dropIdx_add : ∀ (l : List α) (P : Nat → Bool),
    (dropIdx P l).length + ((List.range l.length).filter P).length = l.length
  | [], _ => rfl
  | x :: xs, P => by
    have ih := length_dropIdx_add xs (fun i => P (i + 1))
    rw [List.length_cons, List.range_succ_eq_map, List.filter_cons, List.filter_map]
    simp only [dropIdx, Function.comp_def, Nat.succ_eq_add_one]
    cases P 0 <;> simp <;> omega

/-! ### `dedupSorted`, `deleteOrder` -/

theorem mem_dedupSorted (x : Nat) : ∀ (l : List Nat), x ∈ dedupSorted l ↔ x ∈ l := by
  intro l
  fun_induction dedupSorted l with
  | case1 a r ih => simp only [List.mem_cons] at ih ⊢; rw [ih]; simp
  | case2 a b r h ih => simp only [List.mem_cons] at ih ⊢; rw [ih]
  | case3 l h => rfl

theorem dedupSorted_strict : ∀ (l : List Nat), l.Pairwise (· ≤ ·) → (dedupSorted l).Pairwise (· < ·) := by
  intro l
  fun_induction dedupSorted l with
  | case1 a r ih => intro h; exact ih (List.pairwise_cons.1 h).2
  | case2 a b r hne ih =>
    intro h
    rw [List.pairwise_cons] at h
    refine List.pairwise_cons.2 ⟨?_, ih h.2⟩
    intro y hy
    rw [mem_dedupSorted] at hy
    have h1 := h.1 b List.mem_cons_self
    rcases List.mem_cons.1 hy with rfl | hy'
    · omega
    · have := (List.pairwise_cons.1 h.2).1 y hy'; omega
  | case3 l h =>
    intro _
    match l, h with
    | [], _ => exact List.Pairwise.nil
    | [a], _ => exact List.pairwise_singleton _ _
    | a :: b :: r, h => exact absurd rfl (h a b r)

theorem mem_deleteOrder (x : Nat) (l : List Nat) : x ∈ deleteOrder l ↔ x ∈ l := by
  unfold deleteOrder
  rw [List.mem_reverse, mem_dedupSorted, mem_sortNat]

theorem deleteOrder_desc (l : List Nat) : (deleteOrder l).Pairwise (· > ·) := by
  unfold deleteOrder
  rw [List.pairwise_reverse]
  exact dedupSorted_strict _ (sortNat_sorted l)

theorem deleteOrder_nodup (l : List Nat) : (deleteOrder l).Nodup :=
  (deleteOrder_desc l).imp (by intro a b h; omega)

end ArrModel
