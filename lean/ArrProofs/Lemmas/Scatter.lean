import ArrModel.Axis
/-! scatter through an injective in-range index map = gather -/
namespace ArrModel
variable {α : Type}

theorem scatter_length (g : Nat → Nat) (v : Nat → α) (init : List α) (n : Nat) :
    (scatter g v init n).length = init.length := by
  unfold scatter
  induction n with
  | zero => simp
  | succ n ih => simp [List.range_succ, List.foldl_append, ih]

theorem scatter_succ (g : Nat → Nat) (v : Nat → α) (init : List α) (n : Nat) :
    scatter g v init (n+1) = (scatter g v init n).set (g n) (v n) := by
  simp [scatter, List.range_succ, List.foldl_append]

/-- every slot written exactly once: reading slot `g i` gives `v i` -/
theorem scatter_get (g : Nat → Nat) (v : Nat → α) (init : List α) (n : Nat)
    (hinj : ∀ i j, i < n → j < n → g i = g j → i = j)
    (hlt : ∀ i, i < n → g i < init.length)
    (i : Nat) (hi : i < n) :
    (scatter g v init n)[g i]'(by rw [scatter_length]; exact hlt i hi) = v i := by
  induction n with
  | zero => omega
  | succ n ih =>
    have hlen : g i < (scatter g v init n).length := by rw [scatter_length]; exact hlt i hi
    simp only [scatter_succ, List.getElem_set]
    by_cases h : i = n
    · subst h; simp
    · have hin : i < n := by omega
      have hne : g n ≠ g i := fun e => h (hinj i n hi (by omega) e.symm)
      simp only [hne, if_false]
      exact ih (fun a b ha hb => hinj a b (by omega) (by omega)) (fun a ha => hlt a (by omega)) hin

end ArrModel
