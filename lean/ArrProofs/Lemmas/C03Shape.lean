import ArrProofs.Lemmas.C03
/-!
helper lemmas for C03, part 2: axis-by-axis ("from the end") characterisations of
`isBroadcastable`, `stretchable`, `broadcastShape`, `commonBroadcastShape`.
-/
namespace ArrModel

/-- the `k`-th axis length counted from the trailing axis; missing leading axes read as 1 -/
def fromEnd (s : List Nat) (k : Nat) : Nat := s.reverse.getD k 1

theorem fromEnd_getElem? (r : List Nat) (k : Nat) (h : k < r.length) : r.reverse[k]? = some (fromEnd r k) := by
  have : k < r.reverse.length := by simpa using h
  simp [fromEnd, List.getD_eq_getElem?_getD, List.getElem?_eq_getElem this]

theorem fromEnd_of_le (r : List Nat) (k : Nat) (h : r.length ≤ k) : fromEnd r k = 1 := by
  simp [fromEnd, List.getD_eq_getElem?_getD, List.getElem?_eq_none (by simpa using h : r.reverse.length ≤ k)]

theorem eq_of_fromEnd_eq (r s : List Nat) (hl : r.length = s.length)
    (h : ∀ k, k < r.length → fromEnd r k = fromEnd s k) : r = s := by
  have : r.reverse = s.reverse := by
    apply List.ext_getElem?
    intro k
    by_cases hk : k < r.length
    · rw [fromEnd_getElem? r k hk, fromEnd_getElem? s k (by omega), h k hk]
    · rw [List.getElem?_eq_none (by simp; omega), List.getElem?_eq_none (by simp; omega)]
  simpa using congrArg List.reverse this

theorem zero_not_mem_iff_fromEnd (r : List Nat) : 0 ∉ r ↔ ∀ k, k < r.length → fromEnd r k ≠ 0 := by
  constructor
  · intro h k hk h0
    have := fromEnd_getElem? r k hk
    rw [h0] at this
    exact h (by simpa using List.mem_of_getElem? this)
  · intro h hm
    have hm' : 0 ∈ r.reverse := by simpa using hm
    obtain ⟨k, hk, hk'⟩ := List.getElem_of_mem hm'
    have hk2 : k < r.length := by simpa using hk
    have := fromEnd_getElem? r k hk2
    rw [List.getElem?_eq_getElem hk, hk'] at this
    exact h k hk2 (by simpa using this.symm)

theorem forall_mem_zip_iff (l1 l2 : List Nat) (P : Nat × Nat → Prop) :
    (∀ p ∈ l1.zip l2, P p) ↔ ∀ k, k < l1.length → k < l2.length → P (l1.getD k 1, l2.getD k 1) := by
  induction l1 generalizing l2 with
  | nil => simp
  | cons x l1 ih =>
    cases l2 with
    | nil => simp
    | cons y l2 =>
      simp only [List.zip_cons_cons, List.forall_mem_cons, ih l2, List.length_cons]
      constructor
      · rintro ⟨h0, h⟩ k hk1 hk2
        cases k with
        | zero => simpa using h0
        | succ k => simpa using h k (by omega) (by omega)
      · intro h
        exact ⟨by simpa using h 0 (by omega) (by omega),
          fun k h1 h2 => by simpa using h (k + 1) (by omega) (by omega)⟩

/-- `is_broadcastable`, axis by axis from the end -/
theorem isBroadcastable_iff_fromEnd (s t : List Nat) :
    isBroadcastable s t = true ↔
      ∀ k, k < s.length → k < t.length → dimClash (fromEnd s k) (fromEnd t k) = false := by
  unfold isBroadcastable
  rw [Bool.not_eq_true', List.any_eq_false]
  rw [forall_mem_zip_iff s.reverse t.reverse (fun p => ¬ dimClash p.1 p.2 = true)]
  simp only [List.length_reverse, Bool.not_eq_true, fromEnd]

theorem stretchEq_iff_forall (s u : List Nat) :
    stretchEq s u = true ↔
      s.length = u.length ∧ ∀ p ∈ s.zip u, (p.1 = p.2 ∨ p.1 = 1) ∧ p.1 ≠ 0 ∧ p.2 ≠ 0 := by
  induction s generalizing u with
  | nil => cases u <;> simp [stretchEq]
  | cons d s ih =>
    cases u with
    | nil => simp [stretchEq]
    | cons e u =>
      rw [stretchEq_cons, ih u]
      simp only [List.zip_cons_cons, List.forall_mem_cons, List.length_cons]
      constructor
      · rintro ⟨h1, h2, h3, h4, h5⟩; exact ⟨by omega, ⟨h1, h2, h3⟩, h5⟩
      · rintro ⟨h1, ⟨h2, h3, h4⟩, h5⟩; exact ⟨h2, h3, h4, by omega, h5⟩

/-- `stretchable`, axis by axis from the end -/
theorem stretchable_iff_fromEnd (s t : List Nat) :
    stretchable s t = true ↔
      s.length ≤ t.length ∧ ∀ k, k < s.length →
        (fromEnd s k = fromEnd t k ∨ fromEnd s k = 1) ∧ fromEnd s k ≠ 0 ∧ fromEnd t k ≠ 0 := by
  simp only [stretchable, Bool.and_eq_true, decide_eq_true_eq]
  constructor
  · rintro ⟨hle, h⟩
    refine ⟨hle, ?_⟩
    obtain ⟨_, h⟩ := (stretchEq_iff_forall _ _).1 h
    have h' : ∀ p ∈ s.reverse.zip t.reverse, (p.1 = p.2 ∨ p.1 = 1) ∧ p.1 ≠ 0 ∧ p.2 ≠ 0 := by
      rw [zip_reverse_aligned s t hle]
      intro p hp; exact h p (by simpa using hp)
    rw [forall_mem_zip_iff] at h'
    intro k hk
    exact h' k (by simpa using hk) (by simp; omega)
  · rintro ⟨hle, h⟩
    refine ⟨hle, (stretchEq_iff_forall _ _).2 ⟨by simp; omega, ?_⟩⟩
    have h' : ∀ p ∈ s.reverse.zip t.reverse, (p.1 = p.2 ∨ p.1 = 1) ∧ p.1 ≠ 0 ∧ p.2 ≠ 0 := by
      rw [forall_mem_zip_iff]
      intro k hk _
      exact h k (by simpa using hk)
    rw [zip_reverse_aligned s t hle] at h'
    intro p hp; exact h' p (by simpa using hp)

/-! ### `padRev`, `bdim`, `broadcastShape` -/

theorem padRev_length (s : List Nat) (n : Nat) : (padRev s n).length = n := by
  simp [padRev]

theorem padRev_getElem? (s : List Nat) (n k : Nat) :
    (padRev s n)[k]? = if k < n then some (fromEnd s k) else none := by
  unfold padRev
  rw [List.getElem?_take]
  split
  · rename_i h
    rw [List.getElem?_append]
    split
    · rename_i h2
      rw [fromEnd_getElem? s k (by simpa using h2)]
    · rename_i h2
      rw [fromEnd_of_le s k (by simpa using h2), List.getElem?_replicate, if_pos (by omega)]
  · rfl

theorem zip_padRev_getElem? (s t : List Nat) (n k : Nat) (p : Nat × Nat) :
    ((padRev s n).zip (padRev t n))[k]? = some p ↔ k < n ∧ p = (fromEnd s k, fromEnd t k) := by
  rw [List.getElem?_zip_eq_some, padRev_getElem?, padRev_getElem?]
  by_cases h : k < n
  · rw [if_pos h, if_pos h]
    simp only [Option.some.injEq, h, true_and]
    constructor
    · rintro ⟨h1, h2⟩; exact Prod.ext h1.symm h2.symm
    · rintro rfl; exact ⟨rfl, rfl⟩
  · simp [h]

theorem bdim_ok_iff (d1 d2 x : Nat) :
    bdim d1 d2 = .ok x ↔ (d1 = d2 ∨ d1 = 1 ∨ d2 = 1) ∧ x = if d1 = 1 then d2 else d1 := by
  unfold bdim
  by_cases h1 : d1 = 1
  · simp [h1, eq_comm]
  · by_cases h2 : d2 = 1 ∨ d1 = d2
    · rw [if_neg h1, if_pos h2, if_neg h1]
      simp only [Res.ok.injEq]
      constructor
      · intro h; exact ⟨by omega, h.symm⟩
      · intro h; exact h.2.symm
    · rw [if_neg h1, if_neg h2]
      constructor
      · intro h; cases h
      · intro h; omega

theorem bdim_err (d1 d2 : Nat) (h : d1 ≠ d2 ∧ d1 ≠ 1 ∧ d2 ≠ 1) : bdim d1 d2 = .err .BroadcastShapeMismatch := by
  unfold bdim
  rw [if_neg h.2.1, if_neg (by omega)]

theorem res_map_reverse_ok_iff (x : Res (List Nat)) (r : List Nat) :
    x.map List.reverse = .ok r ↔ x = .ok r.reverse := by
  cases x with
  | ok a =>
    simp only [Res.map, Res.ok.injEq]
    constructor
    · intro h; rw [← h, List.reverse_reverse]
    · intro h; rw [h, List.reverse_reverse]
  | err e => simp [Res.map]
  | panic => simp [Res.map]

/-- **`broadcast_shape`, axis by axis from the end** -/
theorem broadcastShape_ok_iff (s t r : List Nat) :
    broadcastShape s t = .ok r ↔
      r.length = max s.length t.length ∧
      ∀ k, k < r.length →
        (fromEnd s k = fromEnd t k ∨ fromEnd s k = 1 ∨ fromEnd t k = 1) ∧
        fromEnd r k = if fromEnd s k = 1 then fromEnd t k else fromEnd s k := by
  unfold broadcastShape
  simp only
  rw [res_map_reverse_ok_iff, sequence_map_ok_iff]
  simp only [List.length_reverse, List.length_zip, padRev_length, Nat.min_self]
  constructor
  · rintro ⟨hl, h⟩
    refine ⟨hl, fun k hk => ?_⟩
    obtain ⟨y, hy1, hy2⟩ := h k (fromEnd s k, fromEnd t k) ((zip_padRev_getElem? _ _ _ _ _).2 ⟨by omega, rfl⟩)
    rw [fromEnd_getElem? r k hk] at hy1
    cases hy1
    exact (bdim_ok_iff _ _ _).1 hy2
  · rintro ⟨hl, h⟩
    refine ⟨hl, fun i x hx => ?_⟩
    obtain ⟨hi, rfl⟩ := (zip_padRev_getElem? _ _ _ _ _).1 hx
    exact ⟨fromEnd r i, fromEnd_getElem? r i (by omega), (bdim_ok_iff _ _ _).2 (h i (by omega))⟩

theorem sequence_map_ok_or_err {α β : Type} (f : β → Res α) (l : List β) (e : Err)
    (h : ∀ x ∈ l, (∃ y, f x = .ok y) ∨ f x = .err e) :
    (∃ ys, Res.sequence (l.map f) = .ok ys) ∨ Res.sequence (l.map f) = .err e := by
  induction l with
  | nil => exact .inl ⟨[], rfl⟩
  | cons b l ih =>
    simp only [List.map_cons, Res.sequence]
    rcases h b List.mem_cons_self with ⟨y, hy⟩ | hy
    · rw [hy]
      rcases ih (fun x hx => h x (List.mem_cons_of_mem _ hx)) with ⟨ys, hys⟩ | hys
      · rw [hys]; exact .inl ⟨y :: ys, rfl⟩
      · rw [hys]; exact .inr rfl
    · rw [hy]; exact .inr rfl

theorem bdim_ok_or_err (d1 d2 : Nat) : (∃ y, bdim d1 d2 = .ok y) ∨ bdim d1 d2 = .err .BroadcastShapeMismatch := by
  unfold bdim
  split
  · exact .inl ⟨_, rfl⟩
  · split
    · exact .inl ⟨_, rfl⟩
    · exact .inr rfl

/-- `broadcast_shape` answers a shape or `BroadcastShapeMismatch` — nothing else -/
theorem broadcastShape_ok_or_err (s t : List Nat) :
    (∃ r, broadcastShape s t = .ok r) ∨ broadcastShape s t = .err .BroadcastShapeMismatch := by
  unfold broadcastShape
  simp only
  rcases sequence_map_ok_or_err (fun p : Nat × Nat => bdim p.1 p.2)
      ((padRev s (max s.length t.length)).zip (padRev t (max s.length t.length))) .BroadcastShapeMismatch
      (fun x _ => bdim_ok_or_err x.1 x.2) with ⟨ys, h⟩ | h
  · rw [h]; exact .inl ⟨ys.reverse, rfl⟩
  · rw [h]; exact .inr rfl

theorem lt_length_of_fromEnd_ne_one (s : List Nat) (k : Nat) (h : fromEnd s k ≠ 1) : k < s.length := by
  rcases Nat.lt_or_ge k s.length with h1 | h1
  · exact h1
  · exact absurd (fromEnd_of_le s k h1) h

/-- a clash on an aligned axis where neither length is one ⇒ `broadcast_shape` refuses -/
theorem broadcastShape_clash (s t : List Nat) (k : Nat)
    (h : fromEnd s k ≠ fromEnd t k ∧ fromEnd s k ≠ 1 ∧ fromEnd t k ≠ 1) :
    broadcastShape s t = .err .BroadcastShapeMismatch := by
  rcases broadcastShape_ok_or_err s t with ⟨r, hr⟩ | hr
  · exfalso
    obtain ⟨hl, hk⟩ := (broadcastShape_ok_iff s t r).1 hr
    have := lt_length_of_fromEnd_ne_one s k h.2.1
    have := (hk k (by omega)).1
    omega
  · exact hr

/-- a successful `broadcast_shape` without a zero-length axis: both operands stretch to the result and the
pair passes `is_broadcastable` -/
theorem stretchable_of_broadcastShape (s t fs : List Nat) (h : broadcastShape s t = .ok fs) (hz : 0 ∉ fs) :
    stretchable s fs = true ∧ stretchable t fs = true ∧ isBroadcastable s t = true := by
  obtain ⟨hl, hk⟩ := (broadcastShape_ok_iff s t fs).1 h
  have hz' := (zero_not_mem_iff_fromEnd fs).1 hz
  refine ⟨?_, ?_, ?_⟩
  · rw [stretchable_iff_fromEnd]
    refine ⟨by omega, fun k hk1 => ?_⟩
    have h1 := hk k (by omega)
    have h2 := hz' k (by omega)
    generalize fromEnd s k = d1 at *
    generalize fromEnd t k = d2 at *
    generalize fromEnd fs k = f at *
    obtain ⟨h3, h4⟩ := h1
    split at h4 <;> omega
  · rw [stretchable_iff_fromEnd]
    refine ⟨by omega, fun k hk1 => ?_⟩
    have h1 := hk k (by omega)
    have h2 := hz' k (by omega)
    generalize fromEnd s k = d1 at *
    generalize fromEnd t k = d2 at *
    generalize fromEnd fs k = f at *
    obtain ⟨h3, h4⟩ := h1
    split at h4 <;> omega
  · rw [isBroadcastable_iff_fromEnd]
    intro k hk1 hk2
    have h1 := hk k (by omega)
    have h2 := hz' k (by omega)
    generalize fromEnd s k = d1 at *
    generalize fromEnd t k = d2 at *
    generalize fromEnd fs k = f at *
    obtain ⟨h3, h4⟩ := h1
    simp only [dimClash, Bool.or_eq_false_iff, Bool.and_eq_false_iff, bne_eq_false_iff_eq, beq_eq_false_iff_ne]
    split at h4 <;> omega

theorem broadcastShape_self (s fs : List Nat) (h : broadcastShape s s = .ok fs) : fs = s := by
  obtain ⟨hl, hk⟩ := (broadcastShape_ok_iff s s fs).1 h
  refine eq_of_fromEnd_eq fs s (by omega) (fun k hk1 => ?_)
  have := (hk k hk1).2
  split at this <;> omega

theorem zero_mem_iff_fromEnd (r : List Nat) : 0 ∈ r ↔ ∃ k, k < r.length ∧ fromEnd r k = 0 := by
  constructor
  · intro hm
    have hm' : 0 ∈ r.reverse := by simpa using hm
    obtain ⟨k, hk, hk'⟩ := List.getElem_of_mem hm'
    have hk2 : k < r.length := by simpa using hk
    have := fromEnd_getElem? r k hk2
    rw [List.getElem?_eq_getElem hk, hk'] at this
    exact ⟨k, hk2, by simpa using this.symm⟩
  · rintro ⟨k, hk, h0⟩
    have := fromEnd_getElem? r k hk
    rw [h0] at this
    simpa using List.mem_of_getElem? this

/-- a zero length on an aligned axis fails `is_broadcastable` -/
theorem isBroadcastable_false_of_zero (s t : List Nat) (k : Nat) (hk1 : k < s.length) (hk2 : k < t.length)
    (h : fromEnd s k = 0 ∨ fromEnd t k = 0) : isBroadcastable s t = false := by
  cases hi : isBroadcastable s t
  · rfl
  · have := (isBroadcastable_iff_fromEnd s t).1 hi k hk1 hk2
    simp only [dimClash, Bool.or_eq_false_iff, Bool.and_eq_false_iff, bne_eq_false_iff_eq,
      beq_eq_false_iff_ne] at this
    omega

theorem isBroadcastable_nonzero (s t : List Nat) (h : isBroadcastable s t = true) (k : Nat) (hk1 : k < s.length)
    (hk2 : k < t.length) : fromEnd s k ≠ 0 ∧ fromEnd t k ≠ 0 := by
  have := (isBroadcastable_iff_fromEnd s t).1 h k hk1 hk2
  simp only [dimClash, Bool.or_eq_false_iff, Bool.and_eq_false_iff, bne_eq_false_iff_eq,
    beq_eq_false_iff_ne] at this
  omega

end ArrModel
