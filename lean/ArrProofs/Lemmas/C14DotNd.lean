import ArrProofs.Lemmas.C14Dot
/-! helper lemmas for the C14 extension, part 3: `dot_split_array` and `dot_nd` in closed form -/

namespace ArrModel
namespace C14
open Finset

/-- chunk `c` of length `n` of a flat buffer -/
def chunk (S : List Int) (n c : Nat) : List Int := (S.drop (c * n)).take n

theorem length_chunk (S : List Int) (n c : Nat) (h : (c + 1) * n ≤ S.length) : (chunk S n c).length = n :=
  length_piece n S c h

theorem getD_chunk (S : List Int) (n c x : Nat) (hx : x < n) : (chunk S n c).getD x 0 = S.getD (c * n + x) 0 :=
  getD_piece n S c x hx

theorem eraseIdx_mid (P Q : List Nat) (n : Nat) : (P ++ n :: Q).eraseIdx P.length = P ++ Q := by
  induction P with
  | nil => rfl
  | cons d ds ih => simp [ih]

theorem sum_take_replicate (cnt n i : Nat) (hi : i ≤ cnt) : ((List.replicate cnt n).take i).sum = i * n := by
  rw [List.take_replicate, C11.sum_replicate, Nat.min_eq_left hi]

/-- `split(parts, None)` of a flat array of `parts · n` elements: the `parts` consecutive chunks of length `n` -/
theorem split_flat_chunks (S : List Int) (parts n : Nat) (hp : 0 < parts) (hn : 0 < n) (hl : S.length = parts * n) :
    (Arr.flat S).split 0 parts none = .ok ((List.range parts).map (fun c => Arr.flat (chunk S n c))) := by
  have hpos : 0 < parts * n := Nat.mul_pos hp hn
  have hwf : (Arr.flat S).WF := by simp [Arr.flat, Arr.WF]
  have hne : (Arr.flat S).isEmpty = false := by
    simp only [Arr.isEmpty, Arr.flat, beq_eq_false_iff_ne, ne_eq]
    rw [hl]; omega
  unfold Arr.split
  simp only [hne, Bool.false_eq_true, if_false]
  rw [if_neg (by simp [Arr.ndim, Arr.flat]), if_neg (by omega)]
  simp only [Arr.flat, Option.getD_none, Res.idx, List.getElem?_cons_zero, Res.bind_ok]
  rw [if_pos (by rw [hl]; exact Nat.mul_mod_right parts n)]
  have h0 : (⟨S, [S.length]⟩ : A).arraySplit 0 parts none = (⟨S, [S.length]⟩ : A).arraySplit 0 parts (some 0) := by
    unfold Arr.arraySplit
    simp only [Option.getD_none, Option.getD_some]
  rw [h0, C11.arraySplit_flat1d ⟨S, [S.length]⟩ 0 parts S.length hwf rfl (by omega) hp]
  congr 1
  apply List.map_congr_left
  intro c hc
  have hc' : c < parts := by simpa using hc
  have hsz : sectionSizes S.length parts = List.replicate parts n := by
    rw [C11.sectionSizes_dvd _ _ (by rw [hl]; exact Nat.mul_mod_right parts n), hl, Nat.mul_div_cancel_left n hp]
  simp only [Arr.flat, C11.blockOf, hsz, chunk]
  rw [sum_take_replicate parts n c (by omega)]
  simp [List.getD_eq_getElem?_getD, hc']

/-- **`dot_split_array(x, axis)`** for `x.shape = P ++ n :: Q` (no zero-length axis): `prod(P)·prod(Q)` vectors of
length `n`, the consecutive chunks of the buffer `S` that holds `x` with the axis moved to the front. -/
theorem dotSplitArray_spec (x : A) (n : Nat) (P Q : List Nat) (hwf : x.WF) (hs : x.shape = P ++ n :: Q)
    (hnz : 0 ∉ x.shape) :
    ∃ S : List Int, S.length = P.prod * Q.prod * n ∧
      (∀ p q i, inRange P p = true → inRange Q q = true → i < n →
        S[(i * P.prod + ravel P p) * Q.prod + ravel Q q]? = x.get? (p ++ i :: q)) ∧
      dotSplitArray x P.length = .ok ((List.range (P.prod * Q.prod)).map (fun c => Arr.flat (chunk S n c))) := by
  obtain ⟨pieces, h1, h2, h3⟩ := C11.splitAxis_flat x 0 n P Q hwf hs
  have hnz' := (C11.mem_append_cons_iff P Q n).1 (hs ▸ hnz)
  have hn : 0 < n := Nat.pos_of_ne_zero hnz'.2.1
  have hP : 0 < P.prod := prod_pos_of_not_mem _ hnz'.1
  have hQ : 0 < Q.prod := prod_pos_of_not_mem _ hnz'.2.2
  refine ⟨pieces.flatMap (·.elems), by rw [h2, Nat.mul_comm], h3, ?_⟩
  unfold dotSplitArray
  rw [h1]
  simp only [Res.bind_ok, removeAt, hs, List.length_append, List.length_cons]
  rw [if_pos (by omega), eraseIdx_mid]
  simp only [Res.bind_ok, List.prod_append]
  exact split_flat_chunks _ (P.prod * Q.prod) n (Nat.mul_pos hP hQ) hn (by rw [h2, Nat.mul_comm])

/-! ### `dot_nd` -/

/-- the untransposed result buffer of `dot_nd`: entry `(c, d)` is the flattened dot product of chunk `c` of the first
rotated operand and chunk `d` of the second -/
def dotU (S1 S2 : List Int) (n c1 c2 : Nat) : List Int :=
  (List.range c1).flatMap (fun c => (List.range c2).map (fun d => sumProd (chunk S1 n c) (chunk S2 n d)))

theorem length_dotU (S1 S2 : List Int) (n c1 c2 : Nat) : (dotU S1 S2 n c1 c2).length = c1 * c2 :=
  length_flatMap_range c1 c2 _

theorem dotIterate_chunks (S1 S2 : List Int) (n c1 c2 : Nat) (hn : 0 < n)
    (h1 : S1.length = c1 * n) (h2 : S2.length = c2 * n) :
    dotIterate ((List.range c1).map (fun c => Arr.flat (chunk S1 n c))) ((List.range c2).map (fun d => Arr.flat (chunk S2 n d)))
      = .ok (Arr.flat (dotU S1 S2 n c1 c2)) := by
  unfold dotIterate
  simp only [List.flatMap_map, List.map_map]
  rw [collectRes_flatMap _ _ _ (fun c d => (⟨[sumProd (chunk S1 n c) (chunk S2 n d)], [1]⟩ : A))]
  · simp only [Res.bind_ok, dotU, List.flatMap_assoc, List.flatMap_map, ← List.map_eq_flatMap]
  · intro c hc d hd
    have hc' : c < c1 := by simpa using hc
    have hd' : d < c2 := by simpa using hd
    have hl1 := length_chunk S1 n c (by rw [h1]; exact Nat.mul_le_mul_right n hc')
    have hl2 := length_chunk S2 n d (by rw [h2]; exact Nat.mul_le_mul_right n hd')
    simp only [Function.comp]
    apply vdot_flat
    · rw [hl1]; exact hl2.symm
    · simp only [Arr.flat]; rw [hl2]; omega

theorem dotIterate_chunks_refused (S1 S2 : List Int) (n p c1 c2 : Nat) (hc1 : 0 < c1) (hc2 : 0 < c2)
    (h1 : S1.length = c1 * n) (h2 : S2.length = c2 * p) (hne : n ≠ p) :
    dotIterate ((List.range c1).map (fun c => Arr.flat (chunk S1 n c))) ((List.range c2).map (fun d => Arr.flat (chunk S2 p d)))
      = .err .MustBeEqual := by
  unfold dotIterate
  have hall : ∀ cd ∈ (List.range c1).flatMap (fun c => (List.range c2).map (fun d => (c, d))),
      vdot (Arr.flat (chunk S1 n cd.1)) (Arr.flat (chunk S2 p cd.2)) = .err .MustBeEqual := by
    intro cd hcd
    simp only [List.mem_flatMap, List.mem_map, List.mem_range] at hcd
    obtain ⟨c, hc, d, hd, rfl⟩ := hcd
    have hl1 := length_chunk S1 n c (by rw [h1]; exact Nat.mul_le_mul_right n hc)
    have hl2 := length_chunk S2 p d (by rw [h2]; exact Nat.mul_le_mul_right p hd)
    unfold vdot
    simp [Arr.flat, Arr.len, hl1, hl2, hne]
  have hmap : ((List.range c1).map (fun c => Arr.flat (chunk S1 n c))).flatMap
        (fun x => ((List.range c2).map (fun d => Arr.flat (chunk S2 p d))).map (fun y => vdot x y))
      = ((List.range c1).flatMap (fun c => (List.range c2).map (fun d => (c, d)))).map
          (fun cd => vdot (Arr.flat (chunk S1 n cd.1)) (Arr.flat (chunk S2 p cd.2))) := by
    simp only [List.flatMap_map, List.map_map, List.map_flatMap]
    rfl
  rw [hmap, collectRes_all_err _ _ .MustBeEqual ?_ hall]
  · rfl
  · intro h
    have hlen : ((List.range c1).flatMap (fun c => (List.range c2).map (fun d => (c, d)))).length = c1 * c2 :=
      length_flatMap_range c1 c2 _
    rw [h] at hlen
    have := Nat.mul_pos hc1 hc2
    simp at hlen; omega

/-! ### the operands of `dot_nd`: shapes `LA ++ [n, m]` and `LB ++ [m', p]` -/

theorem shape_a_idx (LA : List Nat) (n m : Nat) : (LA ++ [n, m])[LA.length + 2 - 1]? = some m := by
  rw [List.getElem?_append_right (by omega)]
  have : LA.length + 2 - 1 - LA.length = 1 := by omega
  rw [this]; rfl

theorem shape_b_idx (LB : List Nat) (m p : Nat) : (LB ++ [m, p])[LB.length + 2 - 2]? = some m := by
  rw [List.getElem?_append_right (by omega)]
  have : LB.length + 2 - 2 - LB.length = 0 := by omega
  rw [this]; rfl

theorem removeAt_a (LA : List Nat) (n m : Nat) : removeAt (LA ++ [n, m]) (LA.length + 2 - 2) = .ok (LA ++ [m]) := by
  unfold removeAt
  rw [if_pos (by simp)]
  have : LA.length + 2 - 2 = LA.length := by omega
  rw [this, eraseIdx_mid]

theorem removeAt_b (LB : List Nat) (m p : Nat) : removeAt (LB ++ [m, p]) (LB.length + 2 - 1) = .ok (LB ++ [m]) := by
  unfold removeAt
  rw [if_pos (by simp)]
  have h1 : LB.length + 2 - 1 = (LB ++ [m]).length := by simp
  have h2 : LB ++ [m, p] = (LB ++ [m]) ++ p :: [] := by simp
  rw [h1, h2, eraseIdx_mid]; simp

/-- rotated first operand: `split_axis(ndim-2)` of `LA ++ [n, m]` -/
theorem dotSplit_a (a : A) (LA : List Nat) (n m : Nat) (ha : a.WF) (hsa : a.shape = LA ++ [n, m]) (hnz : 0 ∉ a.shape) :
    ∃ S : List Int, S.length = LA.prod * m * n ∧
      (∀ l k t, inRange LA l = true → k < m → t < n → S[(t * LA.prod + ravel LA l) * m + k]? = a.get? (l ++ [t, k])) ∧
      dotSplitArray a (LA.length + 2 - 2) = .ok ((List.range (LA.prod * m)).map (fun c => Arr.flat (chunk S n c))) := by
  obtain ⟨S, h1, h2, h3⟩ := dotSplitArray_spec a n LA [m] ha hsa hnz
  have e : LA.length + 2 - 2 = LA.length := by omega
  refine ⟨S, by simpa using h1, ?_, by rw [e]; simpa using h3⟩
  intro l k t hl hk ht
  have := h2 l [k] t hl (by simp [inRange, hk]) ht
  simpa [ravel] using this

/-- rotated second operand: `split_axis(ndim-1)` of `LB ++ [m, p]` -/
theorem dotSplit_b (b : A) (LB : List Nat) (m p : Nat) (hb : b.WF) (hsb : b.shape = LB ++ [m, p]) (hnz : 0 ∉ b.shape) :
    ∃ S : List Int, S.length = LB.prod * m * p ∧
      (∀ l k u, inRange LB l = true → k < m → u < p → S[u * (LB.prod * m) + (ravel LB l * m + k)]? = b.get? (l ++ [k, u])) ∧
      dotSplitArray b (LB.length + 2 - 1) = .ok ((List.range (LB.prod * m)).map (fun c => Arr.flat (chunk S p c))) := by
  have hsb' : b.shape = (LB ++ [m]) ++ p :: [] := by rw [hsb]; simp
  obtain ⟨S, h1, h2, h3⟩ := dotSplitArray_spec b p (LB ++ [m]) [] hb hsb' hnz
  have e : LB.length + 2 - 1 = (LB ++ [m]).length := by simp
  refine ⟨S, by simpa using h1, ?_, by rw [e]; simpa using h3⟩
  intro l k u hl hk hu
  have hin : inRange (LB ++ [m]) (l ++ [k]) = true := inRange_append LB l [m] [k] hl (by simp [inRange, hk])
  have := h2 (l ++ [k]) [] u hin rfl hu
  rw [ravel_append LB l [m] [k] (inRange_length _ _ hl).symm] at this
  simpa [ravel] using this

/-- **`dot_nd` in closed form** (contracted lengths agree, `n = p`, no zero-length axis): the result is the transpose,
by the axis list `dotPairs`, of the array `U` of shape `LA ++ [m] ++ LB ++ [m]` whose flat entry `(c, d)` is the
flattened dot product of chunk `c` of the first operand rotated by `split_axis(ndim-2)` and chunk `d` of the second
operand rotated by `split_axis(ndim-1)`. -/
theorem dotNd_computes (a b : A) (LA LB : List Nat) (n m : Nat) (ha : a.WF) (hb : b.WF)
    (hsa : a.shape = LA ++ [n, m]) (hsb : b.shape = LB ++ [m, n]) (hnza : 0 ∉ a.shape) (hnzb : 0 ∉ b.shape) :
    ∃ S1 S2 : List Int, S1.length = LA.prod * m * n ∧ S2.length = LB.prod * m * n ∧
      (∀ l k t, inRange LA l = true → k < m → t < n → S1[(t * LA.prod + ravel LA l) * m + k]? = a.get? (l ++ [t, k])) ∧
      (∀ l k u, inRange LB l = true → k < m → u < n → S2[u * (LB.prod * m) + (ravel LB l * m + k)]? = b.get? (l ++ [k, u])) ∧
      dotNd a b = (⟨dotU S1 S2 n (LA.prod * m) (LB.prod * m), (LA ++ [m]) ++ (LB ++ [m])⟩ : A).transpose 0
        (some (dotPairs ((LA ++ [m]) ++ (LB ++ [m])).length (decide (b.len > a.len)))) := by
  obtain ⟨S1, a1, a2, a3⟩ := dotSplit_a a LA n m ha hsa hnza
  obtain ⟨S2, b1, b2, b3⟩ := dotSplit_b b LB m n hb hsb hnzb
  have hn : 0 < n := by
    apply Nat.pos_of_ne_zero; intro e; apply hnza; rw [hsa, e]; simp
  refine ⟨S1, S2, a1, b1, a2, b2, ?_⟩
  have hal : shapesAlign a.shape (a.ndim - 1) b.shape (b.ndim - 2) = .ok () := by
    unfold shapesAlign
    simp only [Arr.ndim, hsa, hsb, List.length_append, List.length_cons, List.length_nil, Nat.zero_add, Nat.reduceAdd]
    rw [shape_a_idx, shape_b_idx]; simp
  have hnda : a.ndim = LA.length + 2 := by simp [Arr.ndim, hsa]
  have hndb : b.ndim = LB.length + 2 := by simp [Arr.ndim, hsb]
  unfold dotNd
  rw [hal]
  simp only [Res.bind_ok, hnda, hndb]
  rw [hsa, removeAt_a, hsb, removeAt_b, a3, b3]
  simp only [Res.bind_ok]
  rw [dotIterate_chunks S1 S2 n _ _ hn a1 b1]
  simp only [Res.bind_ok, Arr.flat, reshape]
  rw [if_pos (by simp [length_dotU, Nat.mul_assoc])]
  rfl

/-- `dot_nd` refuses operands whose contracted lengths differ (last axis of `a`, second-to-last of `b`) -/
theorem dotNd_refuses_contract (a b : A) (LA LB : List Nat) (n m m' p : Nat)
    (hsa : a.shape = LA ++ [n, m]) (hsb : b.shape = LB ++ [m', p]) (hne : m ≠ m') :
    dotNd a b = .err .ParameterError := by
  unfold dotNd shapesAlign
  simp only [Arr.ndim, hsa, hsb, List.length_append, List.length_cons, List.length_nil, Nat.zero_add, Nat.reduceAdd]
  rw [shape_a_idx, shape_b_idx]; simp [hne]

/-- `dot_nd` ALSO refuses conforming operands whenever the second-to-last length of `a` differs from the last length of
`b` (`n ≠ p`): the chunks handed to `vdot` have lengths `n` and `p` -/
theorem dotNd_refuses_outer (a b : A) (LA LB : List Nat) (n m p : Nat) (ha : a.WF) (hb : b.WF)
    (hsa : a.shape = LA ++ [n, m]) (hsb : b.shape = LB ++ [m, p]) (hnza : 0 ∉ a.shape) (hnzb : 0 ∉ b.shape)
    (hne : n ≠ p) : dotNd a b = .err .MustBeEqual := by
  obtain ⟨S1, a1, _, a3⟩ := dotSplit_a a LA n m ha hsa hnza
  obtain ⟨S2, b1, _, b3⟩ := dotSplit_b b LB m p hb hsb hnzb
  have hza := (C11.mem_append_cons_iff LA [m] n).1 (hsa ▸ hnza)
  have hzb := (C11.mem_append_cons_iff LB [p] m).1 (hsb ▸ hnzb)
  have hm : 0 < m := Nat.pos_of_ne_zero hzb.2.1
  have hLA : 0 < LA.prod := prod_pos_of_not_mem _ hza.1
  have hLB : 0 < LB.prod := prod_pos_of_not_mem _ hzb.1
  have hal : shapesAlign a.shape (a.ndim - 1) b.shape (b.ndim - 2) = .ok () := by
    unfold shapesAlign
    simp only [Arr.ndim, hsa, hsb, List.length_append, List.length_cons, List.length_nil, Nat.zero_add, Nat.reduceAdd]
    rw [shape_a_idx, shape_b_idx]; simp
  have hnda : a.ndim = LA.length + 2 := by simp [Arr.ndim, hsa]
  have hndb : b.ndim = LB.length + 2 := by simp [Arr.ndim, hsb]
  unfold dotNd
  rw [hal]
  simp only [Res.bind_ok, hnda, hndb]
  rw [hsa, removeAt_a, hsb, removeAt_b, a3, b3]
  simp only [Res.bind_ok]
  rw [dotIterate_chunks_refused S1 S2 n p _ _ (Nat.mul_pos hLA hm) (Nat.mul_pos hLB hm) a1 b1 hne]
  rfl

/-! ### dispatch of `dotFull` -/

theorem dotFull_of_some (a b : A) (r : Res A) (h : dot a b = some r) : dotFull a b = r := by
  unfold dotFull; rw [h]

theorem dotFull_1d_stack (a b : A) (h1 : a.len ≠ 1) (h2 : b.len ≠ 1)
    (hnd : (a.ndim = 1 ∧ 3 ≤ b.ndim) ∨ (3 ≤ a.ndim ∧ b.ndim = 1)) : dotFull a b = dot1dNd a b := by
  have hd : dot a b = none := by
    unfold dot
    rw [if_neg (by simp [h1, h2])]
    rcases hnd with ⟨ha, hb⟩ | ⟨ha, hb⟩
    · rw [if_neg (by omega), if_neg (by omega), if_pos (Or.inl ha), if_neg (by omega)]
    · rw [if_neg (by omega), if_neg (by omega), if_pos (Or.inr hb), if_neg (by omega)]
  unfold dotFull
  rw [hd]
  simp only
  rw [if_pos (by omega)]

theorem dotFull_nd (a b : A) (h1 : a.len ≠ 1) (h2 : b.len ≠ 1) (ha : 2 ≤ a.ndim) (hb : 2 ≤ b.ndim)
    (h3 : 3 ≤ a.ndim ∨ 3 ≤ b.ndim) : dotFull a b = dotNd a b := by
  have hd : dot a b = none := by
    unfold dot
    rw [if_neg (by simp [h1, h2]), if_neg (by omega), if_neg (by omega), if_neg (by omega)]
  unfold dotFull
  rw [hd]
  simp only
  rw [if_neg (by omega)]

/-! ### the case where `dot_nd` meets numpy's formula: two cubes `[n,n,n]` -/

theorem dotPairs_4 : dotPairs 4 false = [1, 0, 3, 2].map Int.ofNat := by decide

theorem ravel4 (n t l u l' : Nat) : ravel [n, n, n, n] [t, l, u, l'] = (t * n + l) * (n * n) + (u * n + l') := by
  simp [ravel]; ring

theorem dotNd_cube (a b : A) (n : Nat) (ha : a.WF) (hb : b.WF) (hn : 0 < n)
    (hsa : a.shape = [n, n, n]) (hsb : b.shape = [n, n, n]) :
    ∃ r, dotNd a b = .ok r ∧ r.shape = [n, n, n, n] ∧ r.WF ∧
      ∀ l t l' u, l < n → t < n → l' < n → u < n →
        r.get? [l, t, l', u] = some (∑ k ∈ range n, a.ent [l, t, k] * b.ent [l', k, u]) := by
  have hnza : 0 ∉ a.shape := by rw [hsa]; simp; omega
  have hnzb : 0 ∉ b.shape := by rw [hsb]; simp; omega
  obtain ⟨S1, S2, e1, e2, g1, g2, hd⟩ := dotNd_computes a b [n] [n] n n ha hb hsa hsb hnza hnzb
  have hlen : b.len = a.len := by
    show b.elems.length = a.elems.length
    rw [ha, hb, hsa, hsb]
  have hU : (dotU S1 S2 n ([n].prod * n) ([n].prod * n)).length = [n, n, n, n].prod := by
    rw [length_dotU]; simp; ring
  have hperm : ([1, 0, 3, 2] : List Nat).Perm (List.range [n, n, n, n].length) := by
    show ([1, 0, 3, 2] : List Nat).Perm (List.range 4)
    decide
  refine ⟨⟨transposeElems [n, n, n, n] [1, 0, 3, 2] (dotU S1 S2 n ([n].prod * n) ([n].prod * n)) 0, [n, n, n, n]⟩, ?_, rfl, ?_, ?_⟩
  · rw [hd, hlen]
    simp only [gt_iff_lt, Nat.lt_irrefl, decide_false, List.cons_append, List.nil_append, List.length_cons,
      List.length_nil, Nat.zero_add, Nat.reduceAdd, dotPairs_4]
    unfold Arr.transpose
    simp only [axesOf, Arr.ndim, List.length_cons, List.length_nil, Nat.zero_add, Nat.reduceAdd,
      map_normalizeAxis_ofNat]
    rw [(validAxes_ok_iff 4 [1, 0, 3, 2]).2 (by decide)]
    simp only [Res.bind_ok, Arr.new]
    have hp : permute [1, 0, 3, 2] [n, n, n, n] = [n, n, n, n] := by simp [permute]
    rw [hp, if_pos (by rw [transposeElems_length]; exact hU.symm)]
  · simp only [Arr.WF, transposeElems_length]; exact hU
  · intro l t l' u hl ht hl' hu
    have hc : inRange [n, n, n, n] [t, l, u, l'] = true := by simp [inRange, hl, ht, hl', hu]
    have hg := transposeElems_get [n, n, n, n] [1, 0, 3, 2] (dotU S1 S2 n ([n].prod * n) ([n].prod * n)) 0 hperm hU
      [t, l, u, l'] hc
    have hp1 : permute [1, 0, 3, 2] [n, n, n, n] = [n, n, n, n] := by simp [permute]
    have hp2 : permute [1, 0, 3, 2] [t, l, u, l'] = [l, t, l', u] := by simp [permute]
    rw [hp1, hp2] at hg
    simp only [Arr.get?]
    rw [hg, ravel4]
    have hi : t * n + l < [n].prod * n := by simp; exact idx2_lt ht hl
    have hj : u * n + l' < [n].prod * n := by simp; exact idx2_lt hu hl'
    have hnn : n * n = [n].prod * n := by simp
    rw [hnn]
    unfold dotU
    rw [getElem?_flatMap_range _ _ _ _ _ hi hj]
    congr 1
    have hl1 := length_chunk S1 n (t * n + l) (by rw [e1]; exact Nat.mul_le_mul_right n hi)
    have hl2 := length_chunk S2 n (u * n + l') (by rw [e2]; exact Nat.mul_le_mul_right n hj)
    rw [sumProd_eq_sum _ _ (by rw [hl1, hl2]), hl1]
    apply Finset.sum_congr rfl
    intro k hk
    have hk' : k < n := by simpa using hk
    rw [getD_chunk _ _ _ _ hk', getD_chunk _ _ _ _ hk']
    have q1 := g1 [l] k t (by simp [inRange, hl]) hk' ht
    have q2 := g2 [l'] k u (by simp [inRange, hl']) hk' hu
    simp only [List.prod_cons, List.prod_nil, Nat.mul_one, ravel, Nat.add_zero, List.cons_append, List.nil_append] at q1 q2
    have r2 : (u * n + l') * n + k = u * (n * n) + (l' * n + k) := by ring
    rw [r2]
    simp only [Arr.ent, List.getD_eq_getElem?_getD, q1, q2]

end C14
end ArrModel
