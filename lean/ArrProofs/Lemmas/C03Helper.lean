import ArrProofs.Lemmas.C03Common
/-!
helper lemmas for C03, part 4: facts used by the theorems about the crate-internal helpers
`broadcast_h2` / `broadcast_h3` and about the equal-count region of `broadcast_to`.
-/
namespace ArrModel

variable {α β : Type}

/-- whatever `broadcast_to` answers has exactly the requested shape -/
theorem broadcastTo_shape (a : Arr α) (t : List Nat) (r : Arr α) (h : a.broadcastTo t = .ok r) : r.shape = t := by
  unfold Arr.broadcastTo at h
  split at h
  · cases h
  · split at h
    · unfold Arr.reshape Arr.new at h
      split at h
      · cases h; rfl
      · cases h
    · split at h
      · cases h
      · simp only at h
        split at h
        · cases h
        · cases hseq : Res.sequence ((List.range t.prod).map
              (fun idx => a.atc (bsrc a.shape (unravelFold t idx)))) with
          | ok es =>
            rw [hseq] at h
            simp only [Res.bind_ok, Arr.new] at h
            split at h
            · cases h; rfl
            · cases h
          | err e => rw [hseq] at h; cases h
          | panic => rw [hseq] at h; cases h

/-- `[1]` stretches to every non-empty shape whose trailing axis is not of length zero -/
theorem single_stretchable (s : List Nat) (hne : s ≠ []) (hz : 0 ∉ s) : stretchable [1] s = true := by
  rw [stretchable_iff_fromEnd]
  have hl : 0 < s.length := List.length_pos_iff.2 hne
  refine ⟨by simp only [List.length_singleton]; omega, fun k hk => ?_⟩
  have hk0 : k = 0 := by simp only [List.length_singleton] at hk; omega
  subst hk0
  have := (zero_not_mem_iff_fromEnd s).1 hz 0 hl
  exact ⟨.inr (by simp [fromEnd]), by simp [fromEnd], this⟩

/-- the result of `broadcast_shape` has a zero-length axis exactly when an operand has one -/
theorem zero_not_mem_broadcastShape_iff (s t fs : List Nat) (h : broadcastShape s t = .ok fs) :
    0 ∉ fs ↔ 0 ∉ s ∧ 0 ∉ t := by
  obtain ⟨hl, hk⟩ := (broadcastShape_ok_iff s t fs).1 h
  simp only [zero_not_mem_iff_fromEnd]
  constructor
  · intro hf
    refine ⟨fun k hks => ?_, fun k hkt => ?_⟩
    · obtain ⟨h3, h4⟩ := hk k (by omega)
      have h2 := hf k (by omega)
      split at h4 <;> omega
    · obtain ⟨h3, h4⟩ := hk k (by omega)
      have h2 := hf k (by omega)
      split at h4 <;> omega
  · rintro ⟨h1, h2⟩ k hkf
    obtain ⟨h3, h4⟩ := hk k hkf
    by_cases hks : k < s.length
    · by_cases hkt : k < t.length
      · have := h1 k hks
        have := h2 k hkt
        split at h4 <;> omega
      · have := h1 k hks
        have := fromEnd_of_le t k (by omega)
        split at h4 <;> omega
    · have := fromEnd_of_le s k (by omega)
      have := h2 k (by omega)
      split at h4 <;> omega

/-- equal shapes always have a broadcast shape -/
theorem broadcastShape_self_ok (s : List Nat) : broadcastShape s s = .ok s :=
  (broadcastShape_ok_iff s s s).2 ⟨by simp, fun k _ => ⟨.inl rfl, by split <;> simp_all⟩⟩

/-- when `broadcast_shape` refuses the two shapes, so does `broadcast` -/
theorem broadcast_err_of_shape_err (a : Arr α) (b : Arr β) (e : Err)
    (h : broadcastShape a.shape b.shape = .err e) : a.broadcast b = .err .BroadcastShapeMismatch := by
  unfold Arr.broadcast
  split
  · rfl
  · split
    · rename_i heq
      rw [heq, broadcastShape_self_ok] at h
      cases h
    · rcases broadcastShape_ok_or_err a.shape b.shape with ⟨r, hr⟩ | hr
      · rw [hr] at h; cases h
      · rw [hr]; rfl

/-- `is_broadcastable`, axis by axis from the end, in plain arithmetic -/
theorem isBroadcastable_iff_compat (s t : List Nat) :
    isBroadcastable s t = true ↔ ∀ k, k < s.length → k < t.length →
      fromEnd s k ≠ 0 ∧ fromEnd t k ≠ 0 ∧
      (fromEnd s k = fromEnd t k ∨ fromEnd s k = 1 ∨ fromEnd t k = 1) := by
  rw [isBroadcastable_iff_fromEnd]
  apply forall_congr'; intro k
  apply forall_congr'; intro _
  apply forall_congr'; intro _
  simp only [dimClash, Bool.or_eq_false_iff, Bool.and_eq_false_iff, bne_eq_false_iff_eq,
    beq_eq_false_iff_ne]
  omega

/-- a pair that passes `is_broadcastable` but is not a stretch: the target is of lower rank, or it has a
unit axis where the source axis is longer than one -/
theorem not_stretchable_region (s t : List Nat) (hs : stretchable s t = false) (hb : isBroadcastable s t = true) :
    t.length < s.length ∨ ∃ k, k < s.length ∧ k < t.length ∧ fromEnd t k = 1 ∧ 1 < fromEnd s k := by
  by_cases hle : s.length ≤ t.length
  · right
    have hns : ¬ (stretchable s t = true) := by rw [hs]; simp
    rw [stretchable_iff_fromEnd] at hns
    have hex : ∃ k, k < s.length ∧
        ¬ ((fromEnd s k = fromEnd t k ∨ fromEnd s k = 1) ∧ fromEnd s k ≠ 0 ∧ fromEnd t k ≠ 0) := by
      apply Classical.byContradiction
      intro hno
      apply hns
      refine ⟨hle, fun k hk => ?_⟩
      apply Classical.byContradiction
      intro hk'
      exact hno ⟨k, hk, hk'⟩
    obtain ⟨k, hk, hk'⟩ := hex
    have := (isBroadcastable_iff_compat s t).1 hb k hk (by omega)
    exact ⟨k, hk, by omega, by omega, by omega⟩
  · left; omega

/-- reading the first components of a list of pairs -/
theorem getElem?_map_fst (l : List (α × β)) (i : Nat) (x : α) (y : β) (h : l[i]? = some (x, y)) :
    (l.map (·.1))[i]? = some x := by
  rw [List.getElem?_map, h]; rfl

end ArrModel
