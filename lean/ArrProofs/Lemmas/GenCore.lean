import ArrModel.Gen.Core
import ArrModel.Manip
import ArrModel.Broadcast
import ArrModel.Joining
import ArrProofs.Lemmas.Index
import ArrProofs.Lemmas.C07
/-!
# GenCore — the translated core funnel (`ArrModel/Gen/Core.lean`, regenerated from the Rust source on every run)
is the hand-written model

For every definition that `tools/rs2lean.py` generates there is a theorem here that identifies it, for ALL inputs, with the
hand-written definition the property theorems speak about (or, where no hand-written counterpart exists, states its
specification directly).  When the Rust source changes, `Gen/Core.lean` changes and these theorems are re-checked against it.

Proof style: the generated terms are brought to a normal form by `simp` with the prelude's unfolding lemmas (section A),
not by `rfl`, so that behaviour-preserving rewrites of the source (inlined `let`s, a `match` instead of `is_none`/`unwrap`,
reordered pure sub-expressions, reworded messages) keep the proofs alive.
-/
set_option linter.unusedSimpArgs false
namespace ArrModel.Gen.Core
open ArrModel Arr

variable {α β : Type}

/-! ## A. prelude normal forms -/

theorem foldl_mul (l : List Nat) (a : Nat) : l.foldl (· * ·) a = a * l.prod := by
  induction l generalizing a with
  | nil => simp
  | cons x xs ih => simp [ih, Nat.mul_assoc]

@[simp] theorem product_eq_prod (l : List Nat) : Rs.product l = l.prod := by
  simp [Rs.product, foldl_mul]

@[simp] theorem unwrapRes_ok (a : α) : Rs.unwrapRes (Res.ok a) = Res.ok a := rfl
@[simp] theorem unwrapRes_err (e : Err) : Rs.unwrapRes (Res.err e : Res α) = Res.panic := rfl
@[simp] theorem unwrapRes_panic : Rs.unwrapRes (Res.panic : Res α) = Res.panic := rfl

@[simp] theorem bind_ok' {γ δ : Type} (a : γ) (f : γ → Res δ) : (Res.ok a >>= f) = f a := rfl
@[simp] theorem bind_err' {γ δ : Type} (e : Err) (f : γ → Res δ) : (Res.err e >>= f) = Res.err e := rfl
@[simp] theorem bind_panic' {γ δ : Type} (f : γ → Res δ) : ((Res.panic : Res γ) >>= f) = Res.panic := rfl

theorem bind_assoc' {γ δ ε : Type} (x : Res γ) (f : γ → Res δ) (g : δ → Res ε) :
    ((x >>= f) >>= g) = (x >>= fun a => f a >>= g) := by cases x <;> rfl

@[simp] theorem bind_pure' {γ : Type} (x : Res γ) : (x >>= fun a => Res.ok a) = x := by cases x <;> rfl

/-- `if c then ok else err` shapes -/
@[simp] theorem ite_ok_eq_ok {γ : Type} (c : Prop) [Decidable c] (a b : γ) (e : Err) :
    ((if c then Res.ok a else Res.err e) = Res.ok b) ↔ (c ∧ a = b) := by
  by_cases h : c <;> simp [h]


/-! ## A0. equality up to the error variant

The properties say "an error", never which one, and the execution tie does not compare variants either.  For functions with several
independent validations the generated code is therefore identified with the hand-written model up to the error variant, so that
reordering two validations in the source (which only changes the variant reported when both fail) keeps the proofs alive. -/

end ArrModel.Gen.Core
namespace ArrModel
/-- same outcome class, same value when `ok` -/
def Res.sameClass {γ : Type} : Res γ → Res γ → Prop
  | .ok a, .ok b => a = b
  | .err _, .err _ => True
  | .panic, .panic => True
  | _, _ => False

namespace Res
variable {γ : Type}
@[simp] theorem sameClass_ok_ok (a b : γ) : sameClass (.ok a) (.ok b) ↔ a = b := Iff.rfl
@[simp] theorem sameClass_err_err (e f : Err) : sameClass (.err e : Res γ) (.err f) := trivial
@[simp] theorem sameClass_panic_panic : sameClass (.panic : Res γ) .panic := trivial
@[simp] theorem sameClass_ok_err (a : γ) (e : Err) : ¬ sameClass (.ok a) (.err e) := id
@[simp] theorem sameClass_err_ok (a : γ) (e : Err) : ¬ sameClass (.err e) (.ok a) := id
@[simp] theorem sameClass_ok_panic (a : γ) : ¬ sameClass (.ok a) .panic := id
@[simp] theorem sameClass_panic_ok (a : γ) : ¬ sameClass .panic (.ok a) := id
@[simp] theorem sameClass_err_panic (e : Err) : ¬ sameClass (.err e : Res γ) .panic := id
@[simp] theorem sameClass_panic_err (e : Err) : ¬ sameClass (.panic : Res γ) (.err e) := id
@[simp] theorem sameClass_self (r : Res γ) : sameClass r r := by cases r <;> simp
theorem sameClass_of_eq {r s : Res γ} (h : r = s) : sameClass r s := h ▸ sameClass_self r
theorem sameClass_symm {r s : Res γ} (h : sameClass r s) : sameClass s r := by
  cases r <;> cases s <;> simp_all
theorem sameClass_ok_right {r : Res γ} {a : γ} (h : sameClass r (.ok a)) : r = .ok a := by
  cases r <;> simp_all
theorem sameClass_ok_left {r : Res γ} {a : γ} (h : sameClass (.ok a) r) : r = .ok a := by
  cases r <;> simp_all
theorem sameClass_err_right {r : Res γ} {e : Err} (h : sameClass r (.err e)) : ∃ e', r = .err e' := by
  cases r <;> simp_all
theorem sameClass_not_panic {r s : Res γ} (h : sameClass r s) (hs : s ≠ .panic) : r ≠ .panic := by
  cases r <;> cases s <;> simp_all
end Res
end ArrModel
namespace ArrModel.Gen.Core
open ArrModel Arr
variable {α β : Type}

/-! ## B. meta (`ArrayMeta for Array<T>`) -/

theorem get_elements_eq (a : Arr α) : Array_get_elements a = .ok a.elems := rfl
theorem get_shape_eq (a : Arr α) : Array_get_shape a = .ok a.shape := rfl
theorem ndim_eq (a : Arr α) : Array_ndim a = .ok a.ndim := rfl
theorem len_eq (a : Arr α) : Array_len a = .ok a.len := rfl
theorem is_empty_eq (a : Arr α) : Array_is_empty a = .ok a.isEmpty := by
  simp [Array_is_empty, Array_len, Arr.isEmpty]

/-! ## C. validators -/

theorem matches_values_len_eq (s : List Nat) (e : List α) :
    Vec_matches_values_len s e = if s.prod = e.length then .ok () else .err .ShapeMustMatchValuesLength := by
  simp [Vec_matches_values_len]

theorem matches_values_len_ok_iff (s : List Nat) (e : List α) : Vec_matches_values_len s e = .ok () ↔ s.prod = e.length := by
  rw [matches_values_len_eq]; by_cases h : s.prod = e.length <;> simp [h]

theorem array_matches_values_len_eq (a : Arr α) (e : List β) :
    Array_matches_values_len a e = Vec_matches_values_len a.shape e := by
  simp [Array_matches_values_len, Array_get_shape]

theorem matches_shape_ok_iff (s t : List Nat) : Vec_matches_shape s t = .ok () ↔ s = t := by
  by_cases h : s = t <;> simp [Vec_matches_shape, h]

theorem matches_shape_eq (s t : List Nat) :
    Vec_matches_shape s t = if s = t then .ok () else .err .ShapesMustMatch := by
  by_cases h : s = t <;> simp [Vec_matches_shape, h]

theorem array_matches_shape_eq (a : Arr α) (t : List Nat) : Array_matches_shape a t = Vec_matches_shape a.shape t := by
  simp [Array_matches_shape, Array_get_shape]

/-- `shapes_align`: the two indexed axis lengths are compared; an index outside its shape is a panic (`self[i]`) -/
theorem shapes_align_eq (s t : List Nat) (i j : Nat) :
    Vec_shapes_align s i t j =
      match s[i]?, t[j]? with
      | some x, some y => if x = y then .ok () else .err .ParameterError
      | _, _ => .panic := by
  unfold Vec_shapes_align Rs.index Res.idx
  cases hs : s[i]? <;> cases ht : t[j]? <;> simp

theorem array_shapes_align_eq (a : Arr α) (t : List Nat) (i j : Nat) :
    Array_shapes_align a i t j = Vec_shapes_align a.shape i t j := by
  simp [Array_shapes_align, Array_get_shape]

/-- `is_broadcastable` is the hand-written `isBroadcastable` (the model of C03) -/
theorem is_broadcastable_eq (s t : List Nat) :
    Vec_is_broadcastable s t = if isBroadcastable s t then .ok () else .err .BroadcastShapeMismatch := by
  have h : (fun (x : Nat × Nat) => (((((x.1 != x.2) && (x.1 != 1)) && (x.2 != 1)) || (x.1 == 0)) || (x.2 == 0)))
      = fun p => dimClash p.1 p.2 := by
    funext p; simp [dimClash]
  unfold Vec_is_broadcastable isBroadcastable
  simp only [Rs.any, Rs.zip, Rs.rev]
  cases hany : (s.reverse.zip t.reverse).any (fun p => dimClash p.1 p.2) <;> simp_all

theorem is_broadcastable_ok_iff (s t : List Nat) : Vec_is_broadcastable s t = .ok () ↔ isBroadcastable s t = true := by
  rw [is_broadcastable_eq]; cases isBroadcastable s t <;> simp

theorem is_broadcastable_never_panics (s t : List Nat) : Vec_is_broadcastable s t ≠ .panic := by
  rw [is_broadcastable_eq]; cases isBroadcastable s t <;> simp

theorem array_is_broadcastable_eq (a : Arr α) (t : List Nat) : Array_is_broadcastable a t = Vec_is_broadcastable a.shape t := by
  simp [Array_is_broadcastable, Array_get_shape]

/-! ## D. create (`ArrayCreate for Array<T>`, `FromIterator`, `to_array`) -/

/-- `Array::new` is the validating funnel `Arr.new` of the hand-written model -/
theorem new_eq (e : List α) (s : List Nat) : Array_new e s = Arr.new e s := by
  unfold Array_new Arr.new
  rw [matches_values_len_eq]
  by_cases h : s.prod = e.length <;> simp [h]

theorem new_never_panics (e : List α) (s : List Nat) : Array_new e s ≠ .panic := by
  rw [new_eq]; unfold Arr.new; by_cases h : s.prod = e.length <;> simp [h]

theorem reshape_eq (a : Arr α) (s : List Nat) : Array_reshape a s = a.reshape s := by
  unfold Array_reshape Arr.reshape
  simp only [Array_get_elements, bind_ok', new_eq, matches_values_len_eq]
  unfold Arr.new
  by_cases h : s.prod = a.elems.length <;> simp [h]

theorem result_reshape_eq (r : Res (Arr α)) (s : List Nat) : Result_reshape r s = (r >>= fun a => a.reshape s) := by
  unfold Result_reshape; simp only [reshape_eq]

theorem single_eq (x : α) : Array_single x = .ok ⟨[x], [1]⟩ := by
  simp [Array_single, new_eq, Arr.new]

theorem flat_eq (e : List α) : Array_flat e = .ok (Arr.flat e) := by
  simp [Array_flat, new_eq, Arr.new, Arr.flat]

theorem empty_eq : (Array_empty : Res (Arr α)) = .ok ⟨[], [0]⟩ := by
  simp [Array_empty, new_eq, Arr.new]

/-- `FromIterator`: `Self::flat(iter.collect()).unwrap()` never panics and is `flat` -/
theorem from_iter_eq (l : List α) : Array_from_iter l = .ok (Arr.flat l) := by
  simp [Array_from_iter, flat_eq]

theorem t_to_array_eq (x : α) : T_to_array x = .ok ⟨[x], [1]⟩ := by simp [T_to_array, single_eq]
theorem vec_to_array_eq (e : List α) : Vec_to_array e = .ok (Arr.flat e) := by simp [Vec_to_array, flat_eq]

theorem usub_of_le {a b : Nat} (h : b ≤ a) : Rs.usub a b = .ok (a - b) := by
  unfold Rs.usub; rw [if_neg (by omega)]

theorem create_eq (e : List α) (s : List Nat) (nd : Option Nat) : Array_create e s nd = Arr.create e s nd := by
  have hnp : Arr.new e s ≠ .panic := by unfold Arr.new; split <;> simp
  unfold Array_create Arr.create
  cases nd with
  | none => simp [Rs.unwrapOr, new_eq] <;> (cases hn : Arr.new e s <;> simp_all)
  | some n =>
    by_cases h : n > s.length
    · have hs : Rs.usub n s.length = .ok (n - s.length) := usub_of_le (by omega)
      simp [Rs.unwrapOr, new_eq, result_reshape_eq, Rs.vecRepeat, Rs.extend, h, hs] <;>
        (cases hn : Arr.new e s <;> simp_all)
    · simp [Rs.unwrapOr, new_eq, h] <;> (cases hn : Arr.new e s <;> simp_all)

theorem to_array_ndim_eq (a : Arr α) (n : Nat) : Array_to_array_ndim a n = Arr.create a.elems a.shape (some n) := by
  simp [Array_to_array_ndim, Array_get_elements, Array_get_shape, create_eq]

/-! ## E. manipulate (`reshape` above, `ravel`, `resize`, `atleast`, `normalize_axis`) -/

theorem ravel_eq (a : Arr α) : Array_ravel a = .ok a.ravel := by
  simp [Array_ravel, vec_to_array_eq, Arr.ravel]

/-- the `Cycle` iterator, started `k` elements into a pass, yields `l[(k+i) % len]` -/
theorem cycleAux_getElem? (x : α) (xs : List α) : ∀ (n k i : Nat), k ≤ (x :: xs).length →
    (Rs.cycleAux (x :: xs) n ((x :: xs).drop k))[i]? = if i < n then (x :: xs)[(k + i) % (x :: xs).length]? else none
  | 0, k, i, _ => by simp [Rs.cycleAux]
  | n + 1, k, i, hk => by
    by_cases hkl : k < (x :: xs).length
    · rw [List.drop_eq_getElem_cons hkl, Rs.cycleAux]
      cases i with
      | zero =>
        have hm : k % (xs.length + 1) = k := Nat.mod_eq_of_lt (by simpa using hkl)
        simp [hm]
      | succ i =>
        simp only [List.getElem?_cons_succ]
        rw [cycleAux_getElem? x xs n (k + 1) i (by omega)]
        have : k + 1 + i = k + (i + 1) := by omega
        simp [this]
    · have hk' : k = (x :: xs).length := by omega
      subst hk'
      rw [List.drop_length, Rs.cycleAux]
      cases i with
      | zero => simp
      | succ i =>
        have ih := cycleAux_getElem? x xs n 1 i (by simp)
        simp only [List.drop_one, List.tail_cons] at ih
        simp only [List.getElem?_cons_succ, ih]
        have : ((x :: xs).length + (i + 1)) % (x :: xs).length = (1 + i) % (x :: xs).length := by
          rw [Nat.add_mod_left]; congr 1; omega
        rw [this]; simp

/-- `iter().cycle().take(n)` of the prelude is `cycleTake` of the hand-written model -/
theorem cycleTake_eq (l : List α) (n : Nat) : Rs.cycleTake l n = cycleTake l n := by
  cases l with
  | nil =>
    unfold Rs.cycleTake
    cases n <;> simp [Rs.cycleAux, cycleTake]
  | cons x xs =>
    have hne : x :: xs ≠ [] := by simp
    apply List.ext_getElem?
    intro i
    have h0 := cycleAux_getElem? x xs n 0 i (by omega)
    simp only [List.drop_zero, Nat.zero_add] at h0
    unfold Rs.cycleTake
    rw [h0]
    by_cases hi : i < n
    · simp only [hi, if_true]; exact (cycleTake_getElem? (x :: xs) hne n i hi).symm
    · have : (cycleTake (x :: xs) n).length ≤ i := by rw [cycleTake_length _ hne]; omega
      simp [hi, List.getElem?_eq_none this]

theorem resize_eq (a : Arr α) (s : List Nat) : Array_resize a s = a.resize s := by
  simp [Array_resize, Array_get_elements, from_iter_eq, reshape_eq, cycleTake_eq, Arr.resize]

/-- `atleast_1d`: `!ndim >= 1` is a bitwise complement; it holds for every rank below `usize::MAX` -/
theorem atleast_1d_eq (a : Arr α) (h : a.ndim < Rs.USIZE - 1) : Array_atleast_1d a = a.atleast1d := by
  have : Rs.usizeNot a.shape.length ≥ 1 := by unfold Rs.usizeNot; unfold Arr.ndim at h; omega
  simp [Array_atleast_1d, Array_ndim, Arr.atleast1d, this]

theorem idx_eq (l : List β) (i : Nat) : Rs.index l i = Res.idx l i := rfl

theorem atleast_2d_eq (a : Arr α) : Array_atleast_2d a = a.atleast2d := by
  unfold Array_atleast_2d Arr.atleast2d
  simp only [Array_ndim, Array_get_shape, bind_ok', reshape_eq, idx_eq, Arr.ndim]
  by_cases h : a.shape.length ≥ 2
  · simp [h]
  · have : a.shape.length = 0 ∨ a.shape.length = 1 := by omega
    rcases this with h0 | h0 <;> simp [h0]

theorem atleast_3d_eq (a : Arr α) : Array_atleast_3d a = a.atleast3d := by
  unfold Array_atleast_3d Arr.atleast3d
  simp only [Array_ndim, Array_get_shape, bind_ok', reshape_eq, idx_eq, Arr.ndim]
  by_cases h : a.shape.length ≥ 3
  · simp [h]
  · have : a.shape.length = 0 ∨ a.shape.length = 1 ∨ a.shape.length = 2 := by omega
    rcases this with h0 | h0 | h0 <;> simp [h0]

theorem atleast_eq (a : Arr α) (n : Nat) (h : a.ndim < Rs.USIZE - 1) : Array_atleast a n = a.atleast n := by
  unfold Array_atleast Arr.atleast
  split <;> simp [atleast_1d_eq a h, atleast_2d_eq, atleast_3d_eq]

theorem normalize_axis_eq (a : Arr α) (ax : Int) : Array_normalize_axis a ax = .ok (normalizeAxis a.ndim ax) := by
  unfold Array_normalize_axis normalizeAxis
  by_cases h : ax < 0
  · simp [h, Array_ndim, Rs.toUsize, Rs.toIsize, Rs.USIZE, ArrModel.USIZE, Arr.ndim]
    rfl
  · simp [h, Rs.toUsize]

theorem normalize_axis_dim_eq (a : Arr α) (ax : Int) (n : Nat) :
    Array_normalize_axis_dim a ax n = .ok (normalizeAxisDim a.ndim ax n) := by
  unfold Array_normalize_axis_dim normalizeAxisDim
  by_cases h : ax < 0
  · simp [h, Array_ndim, Rs.toUsize, Rs.toIsize, Rs.USIZE, ArrModel.USIZE, Arr.ndim]
    rfl
  · simp [h, Rs.toUsize]

/-! ## F. indexing (`index_at`, `index_to_coord`, `at`) -/

/-- a closure that never panics on the elements it meets: short-circuit `any` is `List.any` -/
theorem anyM_eq_any {γ : Type} (p : γ → Res Bool) (q : γ → Bool) :
    ∀ (l : List γ), (∀ x ∈ l, p x = .ok (q x)) → Rs.anyM l p = .ok (l.any q)
  | [], _ => rfl
  | x :: xs, h => by
    have ih := anyM_eq_any p q xs (fun y hy => h y (List.mem_cons_of_mem _ hy))
    rw [Rs.anyM, h x (List.mem_cons_self), bind_ok', ih]
    cases hq : q x <;> simp [hq]

/-- a closure that never panics on the elements it meets: the monadic fold is `List.foldl` -/
theorem foldM_eq_foldl {γ σ : Type} (f : σ → γ → Res σ) (g : σ → γ → σ) :
    ∀ (l : List γ) (init : σ), (∀ acc, ∀ x ∈ l, f acc x = .ok (g acc x)) → Rs.foldM l init f = .ok (l.foldl g init)
  | [], _, _ => rfl
  | x :: xs, init, h => by
    rw [Rs.foldM, h init x (List.mem_cons_self), bind_ok', List.foldl_cons]
    exact foldM_eq_foldl f g xs _ (fun acc y hy => h acc y (List.mem_cons_of_mem _ hy))

theorem mem_enumFrom {l : List β} : ∀ {k i : Nat} {x : β}, (i, x) ∈ Rs.enumFrom k l → k ≤ i ∧ l[i - k]? = some x := by
  induction l with
  | nil => intro k i x h; simp [Rs.enumFrom] at h
  | cons y ys ih =>
    intro k i x h
    rw [Rs.enumFrom, List.mem_cons] at h
    rcases h with h | h
    · cases h; simp
    · obtain ⟨h1, h2⟩ := ih h
      refine ⟨by omega, ?_⟩
      have : i - k = (i - (k + 1)) + 1 := by omega
      rw [this, List.getElem?_cons_succ]; exact h2

/-- pairing every element of `c` with the entry of `s` at its index is `zip` (lengths equal) -/
theorem enumFrom_map_left (s c pre : List Nat) (k : Nat) (hpre : pre.length = k) (hl : s.length = c.length) :
    (Rs.enumFrom k c).map (fun p => ((pre ++ s).getD p.1 0, p.2)) = s.zip c := by
  induction c generalizing s pre k with
  | nil => cases s <;> simp [Rs.enumFrom]
  | cons x xs ih =>
    cases s with
    | nil => simp at hl
    | cons d ds =>
      have := ih ds (pre ++ [d]) (k + 1) (by simp [hpre]) (by simpa using hl)
      simp only [List.append_assoc, List.singleton_append] at this
      rw [Rs.enumFrom, List.map_cons, List.zip_cons_cons, this]
      congr 1
      subst hpre; simp [List.getD_eq_getElem?_getD]

theorem enumFrom_map_right (s c pre : List Nat) (k : Nat) (hpre : pre.length = k) (hl : s.length = c.length) :
    (Rs.enumFrom k s).map (fun p => (p.2, (pre ++ c).getD p.1 0)) = s.zip c := by
  induction s generalizing c pre k with
  | nil => cases c <;> simp [Rs.enumFrom]
  | cons d ds ih =>
    cases c with
    | nil => simp at hl
    | cons x xs =>
      have := ih xs (pre ++ [x]) (k + 1) (by simp [hpre]) (by simpa using hl)
      simp only [List.append_assoc, List.singleton_append] at this
      rw [Rs.enumFrom, List.map_cons, List.zip_cons_cons, this]
      congr 1
      subst hpre; simp [List.getD_eq_getElem?_getD]

theorem idx_getD (l : List Nat) (i : Nat) (h : i < l.length) : Rs.index l i = .ok (l.getD i 0) := by
  simp [Rs.index, Res.idx, List.getElem?_eq_getElem h, List.getD_eq_getElem?_getD]

/-- the range test of `index_at` (a short-circuit `any` over `coords.iter().enumerate()` that indexes both vectors) is `anyOut` -/
theorem index_at_any (s c : List Nat) (hl : s.length = c.length) (p : Nat × Nat → Res Bool)
    (hp : ∀ i x, p (i, x) = (Rs.index c i >>= fun t1 => Rs.index s i >>= fun t2 => Res.ok (decide (t1 ≥ t2)))) :
    Rs.anyM (Rs.enumerate c) p = .ok (anyOut s c) := by
  rw [anyM_eq_any p (fun q => decide (q.2 ≥ s.getD q.1 0))]
  · have h := enumFrom_map_left s c [] 0 rfl hl
    simp only [List.nil_append] at h
    unfold anyOut
    rw [← h, List.any_map]; rfl
  · rintro ⟨i, x⟩ hm
    obtain ⟨_, hx⟩ := mem_enumFrom hm
    simp only [Nat.sub_zero] at hx
    have hi : i < c.length := (List.getElem?_eq_some_iff.1 hx).1
    rw [hp, idx_getD c i hi, idx_getD s i (by omega)]
    simp [List.getD_eq_getElem?_getD, hx]

/-- the stride fold of `index_at` (over `shape.iter().enumerate().rev()`, indexing `coords`) is `indexAtFold` -/
theorem index_at_fold (s c : List Nat) (hl : s.length = c.length) (f : Nat × Nat → Nat × Nat → Res (Nat × Nat))
    (hf : ∀ acc i d, f acc (i, d) = (Rs.index c i >>= fun t => Res.ok (acc.1 + t * acc.2, acc.2 * d))) :
    Rs.foldM (Rs.rev (Rs.enumerate s)) (0, 1) f = .ok (indexAtFold s c) := by
  rw [foldM_eq_foldl f (fun acc q => (acc.1 + c.getD q.1 0 * acc.2, acc.2 * q.2))]
  · have h := enumFrom_map_right s c [] 0 rfl hl
    simp only [List.nil_append] at h
    unfold indexAtFold
    rw [← h, ← List.map_reverse, List.foldl_map]
  · rintro acc ⟨i, d⟩ hm
    obtain ⟨_, hx⟩ := mem_enumFrom (List.mem_reverse.1 hm)
    simp only [Nat.sub_zero] at hx
    have hi : i < s.length := (List.getElem?_eq_some_iff.1 hx).1
    rw [hf, idx_getD c i (by omega)]; rfl

/-- **`index_at` as translated from the source is `Arr.indexAt`** (all inputs) -/
theorem index_at_eq (a : Arr α) (c : List Nat) : Array_index_at a c = a.indexAt c := by
  unfold Array_index_at Arr.indexAt
  by_cases hl : a.shape.length = c.length
  · simp only [hl, bne_self_eq_false, Bool.false_eq_true, if_false, ne_eq, not_true_eq_false]
    rw [index_at_any a.shape c hl _ (fun i x => rfl), bind_ok']
    cases anyOut a.shape c
    · simp only [Bool.false_eq_true, if_false]
      rw [index_at_fold a.shape c hl _ (fun acc i d => rfl)]; rfl
    · simp
  · simp [hl]

theorem at_eq (a : Arr α) (c : List Nat) : Array_at a c = a.atc c := by
  unfold Array_at Arr.atc
  rw [index_at_eq]
  cases a.indexAt c <;> simp [idx_eq]

theorem urem_of_pos {a b : Nat} (h : b ≠ 0) : Rs.urem a b = .ok (a % b) := by simp [Rs.urem, h]
theorem udiv_of_pos {a b : Nat} (h : b ≠ 0) : Rs.udiv a b = .ok (a / b) := by simp [Rs.udiv, h]

/-- the div/mod fold of `index_to_coord` is `unravelFold` when no axis has length zero (`% 0` would panic) -/
theorem index_to_coord_fold (s : List Nat) (i : Nat) (hs : 0 ∉ s) (f : Nat × List Nat → Nat → Res (Nat × List Nat))
    (hf : ∀ acc d, f acc d = (Rs.urem acc.1 d >>= fun t4 => Rs.udiv acc.1 d >>= fun t5 => Res.ok (t5, acc.2 ++ [t4]))) :
    (Rs.foldM (Rs.rev s) (i, []) f >>= fun t => Res.ok (Rs.rev t.2)) = .ok (unravelFold s i) := by
  rw [foldM_eq_foldl f (fun acc d => (acc.1 / d, acc.2 ++ [acc.1 % d]))]
  · rfl
  · intro acc d hd
    have : d ≠ 0 := fun h => hs (h ▸ List.mem_reverse.1 hd)
    rw [hf, urem_of_pos this, udiv_of_pos this]; rfl

/-- **`index_to_coord` as translated from the source is `Arr.indexToCoord`** whenever no axis length is zero or the
index is refused; in particular on every well-formed array (`index_to_coord_eq`).  With a zero axis length and an
accepted index (only possible on an ill-formed array) the Rust panics on `% 0`. -/
theorem index_to_coord_eq' (a : Arr α) (i : Nat) (h : 0 ∉ a.shape ∨ a.len ≤ i) :
    Array_index_to_coord a i = a.indexToCoord i := by
  unfold Array_index_to_coord Arr.indexToCoord
  simp only [Array_len, bind_ok']
  by_cases hi : i ≥ a.len
  · have : i ≥ a.elems.length := hi
    simp [hi, this]
  · have h0 : 0 ∉ a.shape := h.resolve_right (by omega)
    have : ¬ i ≥ a.elems.length := hi
    simp only [this, hi, decide_false, Bool.false_eq_true, if_false]
    exact index_to_coord_fold a.shape i h0 _ (fun acc d => rfl)

theorem index_to_coord_eq (a : Arr α) (hwf : a.WF) (i : Nat) : Array_index_to_coord a i = a.indexToCoord i := by
  apply index_to_coord_eq'
  by_cases hi : a.len ≤ i
  · exact .inr hi
  · left; intro h0
    have := prod_eq_zero_of_mem a.shape h0
    unfold Arr.WF at hwf; unfold Arr.len at hi; omega

/-! ## G. axis / dimension / compare validators, `vec_ext` -/

theorem axis_in_bounds_eq (a : Arr α) (ax : Nat) :
    Array_axis_in_bounds a ax = if ax < a.ndim then .ok () else .err .AxisOutOfBounds := by
  simp only [Array_axis_in_bounds, Array_ndim, bind_ok', Arr.ndim]
  by_cases h : ax < a.shape.length
  · have h' : ¬ ax ≥ a.shape.length := by omega
    simp [h, h']
  · have h' : ax ≥ a.shape.length := by omega
    simp [h, h']

theorem axis_opt_in_bounds_eq (a : Arr α) (ax : Option Nat) :
    Array_axis_opt_in_bounds a ax = match ax with | none => .ok () | some x => Array_axis_in_bounds a x := by
  cases ax with
  | none => simp [Array_axis_opt_in_bounds]
  | some x =>
    simp only [axis_in_bounds_eq]
    by_cases h : x < a.shape.length
    · have h' : ¬ x ≥ a.shape.length := by omega
      simp [Array_axis_opt_in_bounds, axis_in_bounds_eq, Array_ndim, Rs.unwrap, Res.unwrap, Arr.ndim, h, h']
    · have h' : x ≥ a.shape.length := by omega
      simp [Array_axis_opt_in_bounds, axis_in_bounds_eq, Array_ndim, Rs.unwrap, Res.unwrap, Arr.ndim, h, h']

theorem usize_is_dim_supported_eq (n : Nat) (l : List Nat) :
    usize_is_dim_supported n l = if n ∈ l then .ok () else .err .UnsupportedDimension := by
  by_cases h : n ∈ l <;> simp [usize_is_dim_supported, h]

theorem usize_is_dim_unsupported_eq (n : Nat) (l : List Nat) :
    usize_is_dim_unsupported n l = if n ∈ l then .err .UnsupportedDimension else .ok () := by
  by_cases h : n ∈ l <;> simp [usize_is_dim_unsupported, h]

theorem is_dim_supported_eq (a : Arr α) (l : List Nat) : Array_is_dim_supported a l = usize_is_dim_supported a.ndim l := by
  simp [Array_is_dim_supported, usize_is_dim_supported, Array_ndim, Arr.ndim]

theorem is_dim_unsupported_eq (a : Arr α) (l : List Nat) : Array_is_dim_unsupported a l = usize_is_dim_unsupported a.ndim l := by
  simp [Array_is_dim_unsupported, usize_is_dim_unsupported, Array_ndim, Arr.ndim]

theorem is_equal_ok_iff [BEq α] (x y : α) : T_is_equal x y = .ok () ↔ (x == y) = true := by
  unfold T_is_equal; cases x == y <;> simp

theorem is_equal_spec [DecidableEq α] (x y : α) : T_is_equal x y = (if x = y then Res.ok () else Res.err .MustBeEqual) := by
  by_cases h : x = y <;> simp [T_is_equal, h]

theorem is_at_least_spec [LE α] [DecidableLE α] (x y : α) :
    T_is_at_least x y = (if y ≤ x then .ok () else .err .MustBeAtLeast) := by
  by_cases h : y ≤ x <;> simp [T_is_at_least, h]

theorem is_at_least_ok_iff [LE α] [DecidableLE α] (x y : α) : T_is_at_least x y = .ok () ↔ y ≤ x := by
  rw [is_at_least_spec]; by_cases h : y ≤ x <;> simp [h]

theorem remove_at_eq (l : List β) (i : Nat) : Vec_remove_at l i = Arr.vecRemove l i := rfl
theorem remove_at_if_eq (l : List β) (i : Nat) (b : Bool) : Vec_remove_at_if l i b = if b then Arr.vecRemove l i else .ok l := rfl
theorem insert_at_eq (l : List β) (i : Nat) (x : β) : Vec_insert_at l i x = Arr.vecInsert l i x := rfl
theorem update_at_eq (l : List β) (i : Nat) (x : β) : Vec_update_at l i x = if i < l.length then .ok (l.set i x) else .panic := rfl
theorem reverse_ext_eq (l : List β) : Vec_reverse_ext l = l.reverse := rfl
theorem reverse_if_eq (l : List β) (b : Bool) : Vec_reverse_if l b = if b then l.reverse else l := rfl
/-- `swap_ext`: `listSwap` of the hand-written model inside the vector, a panic outside -/
theorem swap_ext_eq (l : List β) (i j : Nat) :
    Vec_swap_ext l i j = if i < l.length ∧ j < l.length then .ok (listSwap l i j) else .panic := by
  unfold Vec_swap_ext Rs.vecSwap listSwap
  by_cases hi : i < l.length <;> by_cases hj : j < l.length <;>
    simp [hi, hj]

/-! ## H. C01-facing facts about the translated funnel (shape and element count never disagree)

Stated here because `Props/C01.lean` is owned by another worker; the lead re-exports them. -/

/-- **`Array::new` accepts exactly the matching pairs** and then stores both arguments unchanged -/
theorem c01_gen_new_ok_iff (e : List α) (s : List Nat) (r : Arr α) :
    Array_new e s = .ok r ↔ (s.prod = e.length ∧ r = ⟨e, s⟩) := by
  rw [new_eq]; unfold Arr.new
  by_cases h : s.prod = e.length <;> simp [h, eq_comm]

theorem c01_gen_new_err (e : List α) (s : List Nat) (h : s.prod ≠ e.length) :
    Array_new e s = .err .ShapeMustMatchValuesLength := by
  rw [new_eq]; unfold Arr.new; simp [h]

theorem c01_gen_new_never_panics (e : List α) (s : List Nat) : Array_new e s ≠ .panic := new_never_panics e s

/-- whatever `Array::new` returns is well formed -/
theorem c01_gen_new_wf (e : List α) (s : List Nat) (r : Arr α) (h : Array_new e s = .ok r) : r.WF := by
  obtain ⟨hp, rfl⟩ := (c01_gen_new_ok_iff e s r).1 h
  exact hp.symm

theorem c01_gen_create_wf (e : List α) (s : List Nat) (nd : Option Nat) (r : Arr α) (h : Array_create e s nd = .ok r) : r.WF := by
  rw [create_eq] at h
  unfold Arr.create at h
  simp only at h
  split at h
  · cases hn : Arr.new e s with
    | ok a => rw [hn] at h; exact Arr.reshape_wf h
    | err _ => rw [hn] at h; cases h
    | panic => rw [hn] at h; cases h
  · exact c01_gen_new_wf e s r (by rw [new_eq]; exact h)

theorem c01_gen_single_wf (x : α) : ∃ r, Array_single x = .ok r ∧ r.WF ∧ r.elems = [x] ∧ r.shape = [1] :=
  ⟨_, single_eq x, rfl, rfl, rfl⟩

theorem c01_gen_flat_wf (e : List α) : ∃ r, Array_flat e = .ok r ∧ r.WF ∧ r.elems = e ∧ r.shape = [e.length] :=
  ⟨_, flat_eq e, by simp [Arr.WF, Arr.flat], rfl, rfl⟩

theorem c01_gen_empty_wf : ∃ r : Arr α, Array_empty = .ok r ∧ r.WF ∧ r.elems = [] ∧ r.shape = [0] :=
  ⟨_, empty_eq, rfl, rfl, rfl⟩

/-- `collect::<Array<_>>()` never panics and yields the well-formed flat array of the items -/
theorem c01_gen_from_iter_wf (l : List α) : ∃ r, Array_from_iter l = .ok r ∧ r.WF ∧ r.elems = l ∧ r.shape = [l.length] :=
  ⟨_, from_iter_eq l, by simp [Arr.WF, Arr.flat], rfl, rfl⟩

theorem c01_gen_reshape_wf (a r : Arr α) (s : List Nat) (h : Array_reshape a s = .ok r) : r.WF ∧ r.elems = a.elems ∧ r.shape = s := by
  rw [reshape_eq] at h
  exact ⟨Arr.reshape_wf h, Arr.reshape_elems h, Arr.reshape_shape h⟩

/-- meaning of the observers on a well-formed array: `len` is the product of the shape, `ndim` its length,
`is_empty` says whether that product is zero; none of them fails -/
theorem c01_gen_len (a : Arr α) (hwf : a.WF) : Array_len a = .ok a.shape.prod := by rw [len_eq, Arr.len, hwf]
theorem c01_gen_ndim (a : Arr α) : Array_ndim a = .ok a.shape.length := rfl
theorem c01_gen_is_empty (a : Arr α) (hwf : a.WF) : Array_is_empty a = .ok (a.shape.prod == 0) := by
  rw [is_empty_eq, Arr.isEmpty, hwf]
theorem c01_gen_get (a : Arr α) : Array_get_elements a = .ok a.elems ∧ Array_get_shape a = .ok a.shape := ⟨rfl, rfl⟩

/-! ## I. C09-facing facts: the validators refuse exactly the inputs they should, with an error value, and never panic -/

theorem c09_gen_axis_in_bounds_ok_iff (a : Arr α) (ax : Nat) : Array_axis_in_bounds a ax = .ok () ↔ ax < a.ndim := by
  rw [axis_in_bounds_eq]; by_cases h : ax < a.ndim <;> simp [h]

theorem c09_gen_axis_in_bounds_err_iff (a : Arr α) (ax : Nat) :
    Array_axis_in_bounds a ax = .err .AxisOutOfBounds ↔ a.ndim ≤ ax := by
  rw [axis_in_bounds_eq]; by_cases h : ax < a.ndim <;> simp [h] <;> omega

theorem c09_gen_axis_in_bounds_never_panics (a : Arr α) (ax : Nat) : Array_axis_in_bounds a ax ≠ .panic := by
  rw [axis_in_bounds_eq]; by_cases h : ax < a.ndim <;> simp [h]

theorem c09_gen_axis_opt_in_bounds_ok_iff (a : Arr α) (ax : Option Nat) :
    Array_axis_opt_in_bounds a ax = .ok () ↔ ∀ x, ax = some x → x < a.ndim := by
  rw [axis_opt_in_bounds_eq]
  cases ax with
  | none => simp
  | some x => simp [c09_gen_axis_in_bounds_ok_iff]

theorem c09_gen_axis_opt_in_bounds_err_iff (a : Arr α) (ax : Option Nat) :
    Array_axis_opt_in_bounds a ax = .err .AxisOutOfBounds ↔ ∃ x, ax = some x ∧ a.ndim ≤ x := by
  rw [axis_opt_in_bounds_eq]
  cases ax with
  | none => simp
  | some x => simp [c09_gen_axis_in_bounds_err_iff]

theorem c09_gen_axis_opt_in_bounds_never_panics (a : Arr α) (ax : Option Nat) : Array_axis_opt_in_bounds a ax ≠ .panic := by
  rw [axis_opt_in_bounds_eq]
  cases ax with
  | none => simp
  | some x => exact c09_gen_axis_in_bounds_never_panics a x

theorem c09_gen_is_dim_supported_ok_iff (a : Arr α) (l : List Nat) : Array_is_dim_supported a l = .ok () ↔ a.ndim ∈ l := by
  rw [is_dim_supported_eq, usize_is_dim_supported_eq]; by_cases h : a.ndim ∈ l <;> simp [h]

theorem c09_gen_is_dim_supported_err_iff (a : Arr α) (l : List Nat) :
    Array_is_dim_supported a l = .err .UnsupportedDimension ↔ a.ndim ∉ l := by
  rw [is_dim_supported_eq, usize_is_dim_supported_eq]; by_cases h : a.ndim ∈ l <;> simp [h]

theorem c09_gen_is_dim_unsupported_ok_iff (a : Arr α) (l : List Nat) : Array_is_dim_unsupported a l = .ok () ↔ a.ndim ∉ l := by
  rw [is_dim_unsupported_eq, usize_is_dim_unsupported_eq]; by_cases h : a.ndim ∈ l <;> simp [h]

theorem c09_gen_is_dim_unsupported_err_iff (a : Arr α) (l : List Nat) :
    Array_is_dim_unsupported a l = .err .UnsupportedDimension ↔ a.ndim ∈ l := by
  rw [is_dim_unsupported_eq, usize_is_dim_unsupported_eq]; by_cases h : a.ndim ∈ l <;> simp [h]

theorem c09_gen_is_dim_never_panics (a : Arr α) (l : List Nat) :
    Array_is_dim_supported a l ≠ .panic ∧ Array_is_dim_unsupported a l ≠ .panic := by
  rw [is_dim_supported_eq, usize_is_dim_supported_eq, is_dim_unsupported_eq, usize_is_dim_unsupported_eq]
  by_cases h : a.ndim ∈ l <;> simp [h]

theorem c09_gen_usize_is_dim_never_panics (n : Nat) (l : List Nat) :
    usize_is_dim_supported n l ≠ .panic ∧ usize_is_dim_unsupported n l ≠ .panic := by
  rw [usize_is_dim_supported_eq, usize_is_dim_unsupported_eq]
  by_cases h : n ∈ l <;> simp [h]

/-- the shape validators answer with a value (never a panic); `shapes_align` is the exception: it indexes both shapes -/
theorem c09_gen_shape_validators_never_panic (s t : List Nat) (e : List β) :
    Vec_is_broadcastable s t ≠ .panic ∧ Vec_matches_values_len s e ≠ .panic ∧ Vec_matches_shape s t ≠ .panic := by
  refine ⟨is_broadcastable_never_panics s t, ?_, ?_⟩
  · rw [matches_values_len_eq]; by_cases h : s.prod = e.length <;> simp [h]
  · rw [matches_shape_eq]; by_cases h : s = t <;> simp [h]

theorem c09_gen_shapes_align_never_panics (s t : List Nat) (i j : Nat) (hi : i < s.length) (hj : j < t.length) :
    Vec_shapes_align s i t j ≠ .panic := by
  rw [shapes_align_eq]
  simp only [List.getElem?_eq_getElem hi, List.getElem?_eq_getElem hj]
  by_cases h : s[i] = t[j] <;> simp [h]

end ArrModel.Gen.Core
