import ArrProofs.Lemmas.GenCore
import ArrModel.Broadcast
/-!
# GenCoreShape — translated shape computations of `broadcast.rs` (`broadcast_shape`) and `ValidateHasError::has_error`
are the hand-written model (`ArrModel/Broadcast.lean`: `broadcastShape`, `padRev`, `bdim`, `Res.sequence`)
-/
set_option linter.unusedSimpArgs false
namespace ArrModel.Gen.Core
open ArrModel Arr

variable {α γ : Type}

/-- `has_error` on a list of evaluated results: the first `Err` if there is one, else the list itself -/
theorem has_error_eq (l : List (Res γ)) :
    Vec_has_error l = match l.find? Res.isErr with
      | some (.err e) => .err e
      | some _ => .panic
      | none => .ok l := by
  unfold Vec_has_error
  simp only [Rs.find, Rs.isErr]
  cases h : l.find? (fun a => a.isErr) with
  | none => simp [Rs.mapOrElse, h]
  | some x => cases x <;> simp [Rs.mapOrElse, h, Rs.resErr, Rs.unwrap, Res.unwrap]

/-- `has_error()?` followed by unwrapping every entry is `Res.sequence` (first non-ok wins), on lists of VALUES (no panic entry) -/
theorem has_error_sequence : ∀ (l : List (Res γ)), (∀ x ∈ l, x ≠ .panic) →
    (Vec_has_error l >>= fun t => Rs.mapM t (fun a => Rs.unwrapRes a)) = Res.sequence l
  | [], _ => by simp [has_error_eq, Rs.mapM, Res.sequence]
  | x :: xs, hnp => by
    have ih := has_error_sequence xs (fun y hy => hnp y (List.mem_cons_of_mem _ hy))
    rw [has_error_eq] at ih ⊢
    cases x with
    | panic => exact absurd rfl (hnp _ List.mem_cons_self)
    | err v => simp [List.find?_cons, Res.isErr, Res.sequence]
    | ok a =>
      simp only [List.find?_cons, Res.isErr, Bool.false_eq_true, if_false]
      cases h : xs.find? Res.isErr with
      | none =>
        rw [h] at ih
        simp only [bind_ok'] at ih ⊢
        simp only [Rs.mapM, unwrapRes_ok, bind_ok', Res.sequence, ih]
      | some e =>
        rw [h] at ih
        have he : e.isErr = true := List.find?_some h
        cases e with
        | err v =>
          simp only [bind_err'] at ih ⊢
          simp [Res.sequence, ← ih]
        | ok _ => simp [Res.isErr] at he
        | panic => simp [Res.isErr] at he

theorem padTake_eq (s : List Nat) (n : Nat) : Rs.padTake (Rs.rev s) 1 n = padRev s n := rfl

theorem bdim_ne_panic (d1 d2 : Nat) : bdim d1 d2 ≠ .panic := by
  unfold bdim; split
  · simp
  · split <;> simp

theorem bind_ok_map {δ ε : Type} (x : Res δ) (g : δ → ε) : (x >>= fun a => Res.ok (g a)) = x.map g := by
  cases x <;> rfl

/-- the pipeline of `broadcast_shape` for any per-axis closure that computes `bdim` -/
theorem broadcast_shape_core (s t : List Nat) (f : Nat × Nat → Res Nat) (hf : ∀ p, f p = bdim p.1 p.2) :
    (Vec_has_error (((padRev s (max s.length t.length)).zip (padRev t (max s.length t.length))).map f) >>= fun t1 =>
      Rs.mapM t1 (fun a => Rs.unwrapRes a) >>= fun t2 => Res.ok t2.reverse) = broadcastShape s t := by
  have hfe : f = fun p => bdim p.1 p.2 := funext hf
  subst hfe
  unfold broadcastShape
  have hs := has_error_sequence
    (((padRev s (max s.length t.length)).zip (padRev t (max s.length t.length))).map (fun p => bdim p.1 p.2))
    (by intro x hx; obtain ⟨p, _, rfl⟩ := List.mem_map.1 hx; exact bdim_ne_panic _ _)
  rw [← bind_assoc', hs]
  exact bind_ok_map _ _

/-- **`broadcast_shape` as translated from the source is `broadcastShape`** (all inputs) -/
theorem broadcast_shape_eq (a : Arr α) (t : List Nat) : Array_broadcast_shape a t = broadcastShape a.shape t := by
  unfold Array_broadcast_shape
  simp only [padTake_eq, Rs.umax, Rs.zip, Rs.map, Rs.rev]
  refine broadcast_shape_core a.shape t _ ?_
  rintro ⟨d1, d2⟩
  by_cases h1 : d1 = 1 <;> by_cases h2 : d2 = 1 <;> by_cases h3 : d1 = d2 <;> simp [bdim, h1, h2, h3]

end ArrModel.Gen.Core
