import ArrProofs.Lemmas.C12Arr
import ArrProofs.Lemmas.AxisInv
/-! C12: `flip` without axes in coordinates (every coordinate mirrored) and as the flip along all axes -/
namespace ArrModel
variable {α : Type}

/-- every coordinate mirrored: the coordinate map of flipping all axes -/
def flipAll (s c : List Nat) : List Nat := List.zipWith (fun d x => d - 1 - x) s c

theorem ravel_flipAll : ∀ (s c : List Nat), inRange s c = true → ravel s (flipAll s c) + ravel s c + 1 = s.prod
  | [], [], _ => by simp [ravel]
  | d :: ds, x :: xs, h => by
    simp [inRange] at h
    have ih := ravel_flipAll ds xs h.2
    simp only [flipAll, List.zipWith_cons_cons, ravel, List.prod_cons] at ih ⊢
    have : (d - 1 - x) * ds.prod + x * ds.prod + ds.prod = d * ds.prod := by
      rw [← Nat.add_mul, ← Nat.succ_mul]; congr 1; omega
    omega
  | [], _ :: _, h => by simp [inRange] at h
  | _ :: _, [], h => by simp [inRange] at h

theorem inRange_flipAll : ∀ (s c : List Nat), inRange s c = true → inRange s (flipAll s c) = true
  | [], [], _ => by simp [flipAll, inRange]
  | d :: ds, x :: xs, h => by
    simp [inRange] at h
    have ih := inRange_flipAll ds xs h.2
    simp only [flipAll, List.zipWith_cons_cons, inRange, Bool.and_eq_true, decide_eq_true_eq] at ih ⊢
    exact ⟨by omega, ih⟩
  | [], _ :: _, h => by simp [inRange] at h
  | _ :: _, [], h => by simp [inRange] at h

theorem getD_flipAll (s c : List Nat) (hl : c.length = s.length) (m : Nat) (hm : m < s.length) :
    (flipAll s c).getD m 0 = s.getD m 0 - 1 - c.getD m 0 := by
  simp only [flipAll, List.getD_eq_getElem?_getD, List.getElem?_zipWith, List.getElem?_eq_getElem hm,
    List.getElem?_eq_getElem (by omega : m < c.length), Option.getD_some]

theorem getD_foldr_flipCoord (s : List Nat) : ∀ (L : List Nat) (c : List Nat), L.Nodup → (∀ x ∈ L, x < c.length) → ∀ m,
    (L.foldr (flipCoord s) c).getD m 0 = if m ∈ L then s.getD m 0 - 1 - c.getD m 0 else c.getD m 0
  | [], c, _, _, m => by simp
  | x :: L, c, hn, hv, m => by
    have hn' := (List.nodup_cons.1 hn)
    have hv' : ∀ y ∈ L, y < c.length := fun y hy => hv y (List.mem_cons_of_mem _ hy)
    have ih := getD_foldr_flipCoord s L c hn'.2 hv'
    have hlen : (L.foldr (flipCoord s) c).length = c.length := by
      clear ih hn hn' hv hv'
      induction L with
      | nil => rfl
      | cons y L ih => simp only [List.foldr_cons, flipCoord_length, ih]
    simp only [List.foldr_cons]
    rw [getD_flipCoord _ _ _ _ (by rw [hlen]; exact hv x List.mem_cons_self)]
    by_cases e : m = x
    · subst e
      rw [if_pos rfl, ih m, if_neg hn'.1, if_pos List.mem_cons_self]
    · rw [if_neg e, ih m]
      simp only [List.mem_cons, e, false_or]

theorem foldr_flipCoord_range (s c : List Nat) (h : inRange s c = true) :
    (List.range s.length).foldr (flipCoord s) c = flipAll s c := by
  have hl := inRange_length s c h
  have hlen : ((List.range s.length).foldr (flipCoord s) c).length = c.length := by
    generalize List.range s.length = L
    induction L with
    | nil => rfl
    | cons y L ih => simp only [List.foldr_cons, flipCoord_length, ih]
  apply coord_ext _ _ (by rw [hlen]; simp [flipAll, hl])
  intro m hm
  rw [hlen, hl] at hm
  rw [getD_foldr_flipCoord s _ c List.nodup_range (fun x hx => by rw [hl]; simpa using hx) m,
    if_pos (by simpa using hm), getD_flipAll s c hl m hm]

/-- flip without axes in coordinates: every coordinate mirrored -/
theorem flip_none_spec (a : Arr α) (hwf : a.WF) :
    ∃ r, a.flip none = .ok r ∧ r.shape = a.shape ∧ r.WF ∧
      ∀ c, inRange a.shape c = true → r.get? c = a.get? (flipAll a.shape c) := by
  have hl : a.shape.prod = a.elems.reverse.length := by rw [List.length_reverse]; exact hwf.symm
  refine ⟨⟨a.elems.reverse, a.shape⟩, ?_, rfl, hl.symm, ?_⟩
  · simp only [Arr.flip, Arr.new, hl, if_true]
  · intro c hc
    have h1 := ravel_flipAll a.shape c hc
    have h2 := ravel_lt a.shape c hc
    simp only [Arr.get?]
    rw [List.getElem?_reverse (by rw [hwf]; exact h2)]
    congr 1
    rw [hwf]; omega

/-- flip without axes = flip along the list of all axes -/
theorem flip_none_eq_all (a : Arr α) (hwf : a.WF) (hpos : ∀ d ∈ a.shape, 0 < d) :
    a.flip none = a.flip (some ((List.range a.ndim).map Int.ofNat)) := by
  obtain ⟨r, h1, h2, h3, h4⟩ := flip_none_spec a hwf
  obtain ⟨r', g1, g2, g3, g4⟩ := flip_list_spec a ((List.range a.ndim).map Int.ofNat) hwf hpos
    (fun x hx => by
      obtain ⟨k, hk, rfl⟩ := List.mem_map.1 hx
      rw [normalizeAxis_ofNat]; simpa using hk)
  rw [h1, g1]; congr 1
  apply Arr.ext_get r r' h3 g3 (by rw [h2, g2])
  intro c hc
  rw [h2] at hc
  rw [h4 c hc, g4 c hc, map_normalizeAxis_ofNat]
  simp only [Arr.ndim]
  rw [foldr_flipCoord_range a.shape c hc]

end ArrModel
