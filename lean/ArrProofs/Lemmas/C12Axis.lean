import ArrProofs.Lemmas.Axis
import ArrProofs.Lemmas.C12Chunks
/-!
# C12: the common skeleton of `flipAxis` and `rollAxis`

Both are "apply a list permutation `p` along one axis" with the same three arms.  `permAxis p` is that skeleton,
`flipAxis = permAxis reverse`, `rollAxis s = permAxis (rotate by s)`; `permAxis_at` is the coordinate theorem, proved
once by induction on the axis number following the three arms.
-/
namespace ArrModel
variable {α : Type}

/-! ### ravel / inRange on cons and snoc -/

theorem inRange_cons_inv (d : Nat) (ds c : List Nat) (h : inRange (d :: ds) c = true) :
    ∃ c0 cs, c = c0 :: cs ∧ c0 < d ∧ inRange ds cs = true := by
  cases c with
  | nil => simp [inRange] at h
  | cons c0 cs => simp [inRange] at h; exact ⟨c0, cs, rfl, h.1, h.2⟩

theorem ravel_snoc : ∀ (s c : List Nat) (n j : Nat), s.length = c.length →
    ravel (s ++ [n]) (c ++ [j]) = ravel s c * n + j
  | [], [], n, j, _ => by simp [ravel]
  | d :: ds, c0 :: cs, n, j, h => by
    have ih := ravel_snoc ds cs n j (by simpa using h)
    simp only [List.cons_append, ravel, ih, List.prod_append, List.prod_cons, List.prod_nil, Nat.mul_one]
    rw [Nat.add_mul, Nat.mul_assoc]; omega
  | [], _ :: _, _, _, h => by simp at h
  | _ :: _, [], _, _, h => by simp at h

theorem inRange_snoc : ∀ (s c : List Nat) (n j : Nat), s.length = c.length →
    inRange (s ++ [n]) (c ++ [j]) = (inRange s c && decide (j < n))
  | [], [], n, j, _ => by simp [inRange]
  | d :: ds, c0 :: cs, n, j, h => by
    have ih := inRange_snoc ds cs n j (by simpa using h)
    simp only [List.cons_append, inRange, ih, Bool.and_assoc]
  | [], _ :: _, _, _, h => by simp at h
  | _ :: _, [], _, _, h => by simp at h

theorem inRange_snoc_inv (s : List Nat) (n : Nat) (c : List Nat) (h : inRange (s ++ [n]) c = true) :
    ∃ c' j, c = c' ++ [j] ∧ c'.length = s.length ∧ inRange s c' = true ∧ j < n := by
  have hl := inRange_length _ _ h
  simp only [List.length_append, List.length_cons, List.length_nil] at hl
  have hne : c ≠ [] := by intro e; subst e; simp at hl
  have e : c = c.dropLast ++ [c.getLast hne] := (List.dropLast_concat_getLast hne).symm
  have hl' : c.dropLast.length = s.length := by simp; omega
  rw [e, inRange_snoc _ _ _ _ hl'.symm] at h
  simp only [Bool.and_eq_true, decide_eq_true_eq] at h
  exact ⟨_, _, e, hl', h.1, h.2⟩

theorem inRange_getD_lt (s c : List Nat) (h : inRange s c = true) (k : Nat) (hk : k < s.length) :
    c.getD k 0 < s.getD k 0 := ((inRange_iff s c).1 h).2 k hk

theorem inRange_set (s c : List Nat) (h : inRange s c = true) (k v : Nat) (hv : v < s.getD k 0) :
    inRange s (c.set k v) = true := by
  rw [inRange_iff] at h ⊢
  obtain ⟨hl, hk⟩ := h
  refine ⟨by simp [hl], ?_⟩
  intro i hi
  by_cases e : i = k
  · subst e
    simp only [List.getD_eq_getElem?_getD, List.getElem?_set_self (by omega : i < c.length), Option.getD_some]
    simpa [List.getD_eq_getElem?_getD] using hv
  · have := hk i hi
    simp only [List.getD_eq_getElem?_getD, List.getElem?_set_ne (Ne.symm e)]
    simpa [List.getD_eq_getElem?_getD] using this

/-! ### the skeleton -/

/-- a polymorphic list permutation described by an index map `σ len i` -/
structure PermSpec (p : ∀ β : Type, List β → List β) (σ : Nat → Nat → Nat) : Prop where
  length : ∀ (β : Type) (l : List β), (p β l).length = l.length
  get : ∀ (β : Type) (l : List β) (i : Nat), i < l.length → (p β l)[i]? = l[σ l.length i]?
  lt : ∀ n i, i < n → σ n i < n

theorem PermSpec.mem {p σ} (hp : PermSpec p σ) {β : Type} (l : List β) (b : β) (h : b ∈ p β l) : b ∈ l := by
  obtain ⟨i, hi⟩ := List.mem_iff_getElem?.1 h
  have hlt : i < (p β l).length := by
    rcases Nat.lt_or_ge i (p β l).length with h | h
    · exact h
    · rw [List.getElem?_eq_none h] at hi; cases hi
  rw [hp.length] at hlt
  rw [hp.get β l i hlt] at hi
  exact List.mem_iff_getElem?.2 ⟨_, hi⟩

/-- the three arms of `flip_axis` / `roll_axis` with the list permutation abstracted -/
def permAxis (p : ∀ β : Type, List β → List β) : Nat → List Nat → List α → Res (List α)
  | 0, shape, elems =>
    (Res.idx shape 0) >>= fun d0 => splitFlat d0 elems >>= fun blocks => .ok (p _ blocks).flatten
  | ax + 1, shape, elems =>
    if ax + 1 = shape.length - 1 then
      splitFlat ((shape.take (ax + 1)).prod) elems >>= fun rows => .ok (rows.map (p _)).flatten
    else
      (Res.idx shape 0) >>= fun d0 => splitFlat d0 elems >>= fun blocks =>
      Res.mapM' (fun b => if (shape.drop 1).prod = b.length then permAxis p ax (shape.drop 1) b else .err .ShapeMustMatchValuesLength) blocks >>= fun bs =>
      .ok bs.flatten

theorem flipAxis_eq_permAxis : ∀ (ax : Nat) (shape : List Nat) (elems : List α),
    flipAxis ax shape elems = permAxis (fun _ => List.reverse) ax shape elems
  | 0, shape, elems => by simp only [flipAxis, permAxis]
  | ax + 1, shape, elems => by
    simp only [flipAxis, permAxis]
    split
    · rfl
    · have : (fun b : List α => if (shape.drop 1).prod = b.length then flipAxis ax (shape.drop 1) b else .err .ShapeMustMatchValuesLength)
          = (fun b => if (shape.drop 1).prod = b.length then permAxis (fun _ => List.reverse) ax (shape.drop 1) b else .err .ShapeMustMatchValuesLength) := by
        funext b; rw [flipAxis_eq_permAxis ax (shape.drop 1) b]
      rw [this]

/-- the list permutation of `roll`: `rotate_right(shift mod len)` -/
def rollPerm (sh : Int) (β : Type) (l : List β) : List β := rotateRight l (sh % (l.length : Int)).toNat

theorem rollAxis_eq_permAxis (sh : Int) : ∀ (ax : Nat) (shape : List Nat) (elems : List α),
    rollAxis ax shape sh elems = permAxis (rollPerm sh) ax shape elems
  | 0, shape, elems => by simp only [rollAxis, permAxis, rollPerm]
  | ax + 1, shape, elems => by
    simp only [rollAxis, permAxis]
    split
    · rfl
    · have : (fun b : List α => if (shape.drop 1).prod = b.length then rollAxis ax (shape.drop 1) sh b else .err .ShapeMustMatchValuesLength)
          = (fun b => if (shape.drop 1).prod = b.length then permAxis (rollPerm sh) ax (shape.drop 1) b else .err .ShapeMustMatchValuesLength) := by
        funext b; rw [rollAxis_eq_permAxis sh ax (shape.drop 1) b]
      rw [this]

/-- **coordinate theorem of the skeleton**: along axis `ax` the index is sent through `σ`, all other coordinates stay -/
theorem permAxis_at (p : ∀ β : Type, List β → List β) (σ : Nat → Nat → Nat) (hp : PermSpec p σ) :
    ∀ (ax : Nat) (shape : List Nat) (elems : List α),
      (∀ d ∈ shape, 0 < d) → elems.length = shape.prod → ax < shape.length →
      ∃ es, permAxis p ax shape elems = .ok es ∧ es.length = elems.length ∧
        ∀ c, inRange shape c = true →
          es[ravel shape c]? = elems[ravel shape (c.set ax (σ (shape.getD ax 0) (c.getD ax 0)))]? := by
  intro ax
  induction ax with
  | zero =>
    intro shape elems hpos hlen hax
    cases shape with
    | nil => simp at hax
    | cons d ds =>
      have hd : 0 < d := hpos d List.mem_cons_self
      have hP : 0 < ds.prod := prod_pos_of ds (fun x hx => hpos x (List.mem_cons_of_mem _ hx))
      simp only [List.prod_cons] at hlen
      have hsplit := splitFlat_ok d ds.prod elems hd hP hlen
      have hbl := chunksOf_length ds.prod elems d hP hlen
      have hun : ∀ b ∈ p _ (chunksOf ds.prod elems), b.length = ds.prod :=
        fun b hb => chunksOf_mem_length ds.prod elems d hP hlen b (hp.mem _ b hb)
      refine ⟨(p _ (chunksOf ds.prod elems)).flatten, ?_, ?_, ?_⟩
      · simp only [permAxis, Res.idx, List.getElem?_cons_zero, Res.bind_ok, hsplit]
      · rw [flatten_length_uniform _ _ hun, hp.length, hbl, hlen]
      · intro c hc
        obtain ⟨c0, cs, rfl, hc0, hcs⟩ := inRange_cons_inv d ds c hc
        have hj := ravel_lt ds cs hcs
        simp only [ravel, List.set_cons_zero, List.getD_cons_zero]
        rw [flatten_get_uniform _ _ hun c0 _ hj, hp.get _ _ c0 (by omega), hbl]
        exact chunksOf_get ds.prod elems d hP hlen _ _ (hp.lt d c0 hc0) hj
  | succ ax ih =>
    intro shape elems hpos hlen hax
    by_cases hlast : ax + 1 = shape.length - 1
    · -- last axis: every row permuted
      have hne : shape ≠ [] := by intro e; subst e; simp at hax
      obtain ⟨s, n, rfl⟩ : ∃ s n, shape = s ++ [n] := ⟨_, _, (List.dropLast_concat_getLast hne).symm⟩
      have hsl : s.length = ax + 1 := by simp at hlast; omega
      have hn : 0 < n := hpos n (by simp)
      have hS : 0 < s.prod := prod_pos_of s (fun x hx => hpos x (by simp [hx]))
      simp only [List.prod_append, List.prod_cons, List.prod_nil, Nat.mul_one] at hlen
      have htake : (s ++ [n]).take (ax + 1) = s := by rw [← hsl]; simp
      have hsplit := splitFlat_ok s.prod n elems hS hn hlen
      have hbl := chunksOf_length n elems s.prod hn hlen
      have hun : ∀ b ∈ (chunksOf n elems).map (p _), b.length = n := by
        intro b hb
        obtain ⟨r, hr, rfl⟩ := List.mem_map.1 hb
        rw [hp.length]; exact chunksOf_mem_length n elems s.prod hn hlen r hr
      refine ⟨((chunksOf n elems).map (p _)).flatten, ?_, ?_, ?_⟩
      · rw [permAxis, if_pos hlast, htake, hsplit]; rfl
      · rw [flatten_length_uniform _ _ hun, List.length_map, hbl, hlen]
      · intro c hc
        obtain ⟨c', j, rfl, hcl, hc', hj⟩ := inRange_snoc_inv s n c hc
        have hk := ravel_lt s c' hc'
        have hset : (c' ++ [j]).set (ax + 1) (σ ((s ++ [n]).getD (ax + 1) 0) ((c' ++ [j]).getD (ax + 1) 0)) = c' ++ [σ n j] := by
          have e1 : (s ++ [n]).getD (ax + 1) 0 = n := by
            rw [List.getD_eq_getElem?_getD, List.getElem?_append_right (by omega)]; simp [hsl]
          have e2 : (c' ++ [j]).getD (ax + 1) 0 = j := by
            rw [List.getD_eq_getElem?_getD, List.getElem?_append_right (by omega)]; simp [hcl, hsl]
          rw [e1, e2, List.set_append_right _ _ (by omega)]; simp [hcl, hsl]
        rw [hset, ravel_snoc s c' n j (by omega), ravel_snoc s c' n _ (by omega)]
        rw [flatten_get_uniform _ _ hun _ _ hj]
        have hrow := chunksOf_getElem? n elems s.prod hn hlen _ hk
        have hget := chunksOf_get n elems s.prod hn hlen _ _ hk (hp.lt n j hj)
        rw [hrow] at hget
        simp only [List.getElem?_map, hrow, Option.map_some, Option.bind_some] at hget ⊢
        rw [hp.get _ _ j (by simp only [List.length_take, List.length_drop]; have := Nat.mul_le_mul_right n (Nat.succ_le_of_lt hk); rw [Nat.succ_mul] at this; omega)]
        have hrl : ((elems.drop (ravel s c' * n)).take n).length = n := by
          simp only [List.length_take, List.length_drop]
          have := Nat.mul_le_mul_right n (Nat.succ_le_of_lt hk); rw [Nat.succ_mul] at this; omega
        rw [hrl]; exact hget
    · -- inner axis: recursion on the blocks of the first axis
      cases shape with
      | nil => simp at hax
      | cons d ds =>
        have hd : 0 < d := hpos d List.mem_cons_self
        have hds : ∀ x ∈ ds, 0 < x := fun x hx => hpos x (List.mem_cons_of_mem _ hx)
        have hP : 0 < ds.prod := prod_pos_of ds hds
        have hax' : ax < ds.length := by simp at hax; omega
        simp only [List.prod_cons] at hlen
        have hsplit := splitFlat_ok d ds.prod elems hd hP hlen
        have hbl := chunksOf_length ds.prod elems d hP hlen
        have hml := chunksOf_mem_length ds.prod elems d hP hlen
        obtain ⟨bs, hbs1, hbs2, hbs3⟩ := mapM'_ok
          (fun b : List α => if ds.prod = b.length then permAxis p ax ds b else .err .ShapeMustMatchValuesLength)
          (fun b r => r.length = b.length ∧ ∀ c, inRange ds c = true →
            r[ravel ds c]? = b[ravel ds (c.set ax (σ (ds.getD ax 0) (c.getD ax 0)))]?)
          (chunksOf ds.prod elems)
          (by
            intro b hb
            have hbl' := hml b hb
            rw [if_pos hbl'.symm]
            exact ih ds b hds hbl' hax')
        have hun : ∀ r ∈ bs, r.length = ds.prod := by
          intro r hr
          obtain ⟨k, hk⟩ := List.mem_iff_getElem?.1 hr
          have hklt : k < bs.length := by
            rcases Nat.lt_or_ge k bs.length with h | h
            · exact h
            · rw [List.getElem?_eq_none h] at hk; cases hk
          rw [hbs2] at hklt
          obtain ⟨r', hr', hP'⟩ := hbs3 k _ (List.getElem?_eq_getElem hklt)
          rw [hk] at hr'; cases hr'
          rw [hP'.1]; exact hml _ (List.getElem_mem hklt)
        refine ⟨bs.flatten, ?_, ?_, ?_⟩
        · simp only [permAxis, hlast, if_false, Res.idx, List.getElem?_cons_zero, Res.bind_ok, hsplit, List.drop_succ_cons, List.drop_zero, hbs1]
        · rw [flatten_length_uniform _ _ hun, hbs2, hbl, hlen]
        · intro c hc
          obtain ⟨c0, cs, rfl, hc0, hcs⟩ := inRange_cons_inv d ds c hc
          have hj := ravel_lt ds cs hcs
          have hv : σ (ds.getD ax 0) (cs.getD ax 0) < ds.getD ax 0 := hp.lt _ _ (inRange_getD_lt ds cs hcs ax hax')
          have hj' := ravel_lt ds _ (inRange_set ds cs hcs ax _ hv)
          have hblk := chunksOf_getElem? ds.prod elems d hP hlen c0 hc0
          obtain ⟨r, hr, _, hPr⟩ := hbs3 c0 _ hblk
          have hget := chunksOf_get ds.prod elems d hP hlen c0 _ hc0 hj'
          rw [hblk] at hget
          simp only [Option.bind_some] at hget
          simp only [ravel, List.set_cons_succ, List.getD_cons_succ]
          rw [flatten_get_uniform _ _ hun c0 _ hj, hr]
          simp only [Option.bind_some]
          rw [hPr cs hcs, hget]

end ArrModel
