import ArrModel.C04
import ArrProofs.Props.C03
/-!
helper lemmas for C04: `map1` on well-formed arrays, coordinate extensionality, symmetry of the broadcast checks,
and the list fact behind commutativity.
-/
namespace ArrModel.C04
open ArrModel Arr

variable {α β γ δ : Type}

/-- mapped array: same shape, every element through `g` -/
def mapped (g : α → β) (z : Arr α) : Arr β := ⟨z.elems.map g, z.shape⟩

theorem mapped_wf (g : α → β) (z : Arr α) (hz : z.WF) : (mapped g z).WF := by
  show (z.elems.map g).length = z.shape.prod
  rw [List.length_map]; exact hz

theorem mapped_get (g : α → β) (z : Arr α) (c : List Nat) : (mapped g z).get? c = (z.get? c).map g := by
  show (z.elems.map g)[ravel z.shape c]? = (z.elems[ravel z.shape c]?).map g
  rw [List.getElem?_map]

/-- `Array::map` succeeds on a well-formed array and is `mapped` -/
theorem map1_ok (g : α → β) (z : Arr α) (hz : z.WF) : map1 g z = .ok (mapped g z) := by
  unfold map1 Arr.reshape Arr.flat Arr.new
  rw [if_pos (by rw [List.length_map]; exact hz.symm)]
  rfl

/-- the `Array::new` at the end of pattern B -/
theorem new_map_ok (g : α → β) (z : Arr α) (hz : z.WF) : Arr.new (z.elems.map g) z.shape = .ok (mapped g z) := by
  unfold Arr.new
  rw [if_pos (by rw [List.length_map]; exact hz.symm)]
  rfl

/-- coordinates determine a well-formed array (C02 bijection) -/
theorem ext_get (a b : Arr α) (ha : a.WF) (hb : b.WF) (hs : a.shape = b.shape)
    (h : ∀ c, inRange a.shape c = true → a.get? c = b.get? c) : a = b := by
  cases a with | mk ae as =>
  cases b with | mk be bs =>
  simp only [Arr.WF] at ha hb
  simp only at hs; subst hs
  congr 1
  apply List.ext_getElem?
  intro i
  by_cases hi : i < as.prod
  · have ⟨h1, h2⟩ := ravel_unravel as i hi
    have := h (unravel as i) h2
    simpa [Arr.get?, h1] using this
  · have h1 : ae.length ≤ i := by omega
    have h2 : be.length ≤ i := by omega
    simp [h1, h2]

/-- mapping a commutative kernel over the two pairings of two lists -/
theorem map_zip_comm (f : α → α → γ) (hf : ∀ x y, f x y = f y x) :
    ∀ (l1 l2 : List α), (l1.zip l2).map (fun t => f t.1 t.2) = (l2.zip l1).map (fun t => f t.1 t.2)
  | [], [] => rfl
  | [], _ :: _ => rfl
  | _ :: _, [] => rfl
  | x :: l1, y :: l2 => by
    simp only [List.zip_cons_cons, List.map_cons]
    rw [hf x y, map_zip_comm f hf l1 l2]

/-- the equal-shape arm of `broadcast` followed by the mapping step of pattern B, in both operand orders -/
theorem eqArm_comm (f : α → α → γ) (hf : ∀ x y, f x y = f y x) (a b : Arr α) (s : List Nat) :
    (Arr.new (a.elems.zip b.elems) s >>= fun br => Arr.new (br.elems.map (fun t => f t.1 t.2)) br.shape) =
    (Arr.new (b.elems.zip a.elems) s >>= fun br => Arr.new (br.elems.map (fun t => f t.1 t.2)) br.shape) := by
  unfold Arr.new
  rw [List.length_zip, List.length_zip, Nat.min_comm b.elems.length a.elems.length]
  split
  · simp only [Res.bind_ok]
    rw [map_zip_comm f hf a.elems b.elems]
  · rfl

theorem dimClash_comm (d1 d2 : Nat) : dimClash d1 d2 = dimClash d2 d1 := by
  unfold dimClash
  rw [Bool.eq_iff_iff]
  simp only [Bool.or_eq_true, Bool.and_eq_true, bne_iff_ne, beq_iff_eq, ne_eq]
  omega

/-- `is_broadcastable` is symmetric -/
theorem isBroadcastable_comm (s t : List Nat) : isBroadcastable s t = isBroadcastable t s := by
  rw [Bool.eq_iff_iff, isBroadcastable_iff_fromEnd, isBroadcastable_iff_fromEnd]
  constructor
  · intro h k h1 h2; rw [dimClash_comm]; exact h k h2 h1
  · intro h k h1 h2; rw [dimClash_comm]; exact h k h2 h1

theorem broadcastShape_comm_ok (s t r : List Nat) (h : broadcastShape s t = .ok r) : broadcastShape t s = .ok r := by
  rw [broadcastShape_ok_iff] at h ⊢
  obtain ⟨hl, hk⟩ := h
  refine ⟨by rw [hl, Nat.max_comm], fun k hkr => ?_⟩
  obtain ⟨h1, h2⟩ := hk k hkr
  refine ⟨by omega, ?_⟩
  rw [h2]
  split <;> split <;> omega

/-- `broadcast_shape` is symmetric (result and refusal) -/
theorem broadcastShape_comm (s t : List Nat) : broadcastShape s t = broadcastShape t s := by
  rcases broadcastShape_ok_or_err s t with ⟨r, h⟩ | h
  · rw [h, broadcastShape_comm_ok s t r h]
  · rcases broadcastShape_ok_or_err t s with ⟨r, h'⟩ | h'
    · rw [broadcastShape_comm_ok t s r h'] at h; cases h
    · rw [h, h']

/-- a receiver's shape is the broadcast shape of the pair whenever the argument can be stretched to it -/
theorem broadcastShape_of_stretchable (s t : List Nat) (h : stretchable s t = true) : broadcastShape t s = .ok t := by
  rw [stretchable_iff_fromEnd] at h
  obtain ⟨hle, hk⟩ := h
  rw [broadcastShape_ok_iff]
  refine ⟨by omega, fun k hkt => ?_⟩
  by_cases hks : k < s.length
  · obtain ⟨h1, h2, h3⟩ := hk k hks
    refine ⟨by omega, ?_⟩
    split <;> omega
  · have := fromEnd_of_le s k (by omega)
    refine ⟨by omega, ?_⟩
    split <;> omega

theorem not_mem_zero_of_stretchable (s t : List Nat) (h : stretchable s t = true) (hl : s.length = t.length) : 0 ∉ t := by
  rw [stretchable_iff_fromEnd] at h
  rw [zero_not_mem_iff_fromEnd]
  intro k hk
  exact (h.2 k (by omega)).2.2

end ArrModel.C04
