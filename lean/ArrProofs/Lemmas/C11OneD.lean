import ArrProofs.Lemmas.C11Conv
/-! C11: the 1-D split as blocks of the element list, the round trip split → concatenate, `append` in whole coordinates -/
namespace ArrModel.C11
open ArrModel Arr
variable {α : Type}

theorem offset_add_size_le (sizes : List Nat) (i : Nat) (hi : i < sizes.length) :
    (sizes.take i).sum + sizes[i] ≤ sizes.sum := by
  rw [← sum_take_succ sizes i hi]
  have := sum_take_le sizes (i + 1) sizes.length (by omega)
  rwa [List.take_length] at this

/-- block `i` of a flat list cut by `sizes` -/
def blockOf (L : List α) (sizes : List Nat) (i : Nat) : List α := (L.drop (sizes.take i).sum).take (sizes.getD i 0)

/-- **1-D `array_split`**: the pieces are the consecutive blocks of the element list with the section sizes -/
theorem arraySplit_flat1d (a : Arr α) (zero : α) (parts n : Nat) (hwf : a.WF) (hs : a.shape = [n]) (hn : 0 < n)
    (hp : 0 < parts) :
    a.arraySplit zero parts (some 0) =
      .ok ((List.range parts).map (fun i => Arr.flat (blockOf a.elems (sectionSizes n parts) i))) := by
  have hnz : 0 ∉ a.shape := by rw [hs]; simp; omega
  obtain ⟨pieces, h1, h2, h3⟩ := arraySplit_cut a zero parts n [] [] hwf hs hnz hp
  rw [show ([] : List Nat).length = 0 from rfl] at h1
  rw [h1]; congr 1
  have hsl := sectionSizes_length n parts hp
  have hsum := sectionSizes_sum n parts hp
  have hL : a.elems.length = n := by rw [hwf, hs]; simp
  generalize sectionSizes n parts = sizes at *
  apply List.ext_getElem (by simp [h2])
  intro i hi1 _
  obtain ⟨g1, g2, g3⟩ := h3 i hi1
  have hi : i < sizes.length := by omega
  have hgd : sizes.getD i 0 = sizes[i] := by simp [List.getD_eq_getElem?_getD, hi]
  have hle := offset_add_size_le sizes i hi
  simp only [List.getElem_map, List.getElem_range, blockOf, hgd]
  rw [hgd] at g1 g3
  simp only [List.nil_append] at g1 g3
  have hTl : ((a.elems.drop (sizes.take i).sum).take sizes[i]).length = sizes[i] := by
    rw [List.length_take, List.length_drop, hL]; omega
  have hEl : (pieces[i]).elems.length = sizes[i] := by rw [g2, g1]; simp
  have hE : (pieces[i]).elems = (a.elems.drop (sizes.take i).sum).take sizes[i] := by
    apply List.ext_getElem?
    intro j
    by_cases hj : j < sizes[i]
    · have := g3 [] [] j rfl rfl hj
      simp only [Arr.get?, g1, hs, List.nil_append, ravel, List.prod_nil, Nat.mul_one, Nat.add_zero] at this
      rw [this, List.getElem?_take_of_lt hj, List.getElem?_drop]
    · rw [List.getElem?_eq_none (by omega), List.getElem?_eq_none (by omega)]
  cases hpc : pieces[i] with
  | mk E S =>
    rw [hpc] at hE g1
    simp only at hE g1
    simp only [Arr.flat, hTl]
    rw [hE, g1]

/-- chaining all the blocks gives the list back -/
theorem blocks_flatten (L : List α) (sizes : List Nat) (h : sizes.sum = L.length) :
    (List.range sizes.length).flatMap (blockOf L sizes) = L := by
  have := flatMap_blocks L sizes sizes.length (Nat.le_refl _)
  rw [List.take_length, h, List.take_length] at this
  exact this

/-- **`concatenate(…, None)` chains the element lists** (two or more inputs: as a flat array) -/
theorem concatenate_none_two (zero : α) (a0 b : Arr α) (rest : List (Arr α)) :
    concatenate (a0 :: b :: rest) zero none = .ok (Arr.flat ((a0 :: b :: rest).flatMap (·.elems))) := by
  simp only [concatenate, Res.bind_ok, foldAppend_none]
  congr 1
  have h1 := foldl_appendFlat_elems (b :: rest) a0
  have h2 := foldl_appendFlat_shape rest a0 b
  cases hr : (b :: rest).foldl appendFlat' a0 with
  | mk E S =>
    rw [hr] at h1 h2
    simp only at h1 h2
    simp only [Arr.flat, List.flatMap_cons] at h1 ⊢
    rw [h2, h1]

theorem concatenate_none_one (zero : α) (a0 : Arr α) : concatenate [a0] zero none = .ok a0 := rfl

/-- in every case the elements of `concatenate(…, None)` are the chained element lists -/
theorem concatenate_none_elems (zero : α) (a0 : Arr α) (rest : List (Arr α)) :
    ∃ r, concatenate (a0 :: rest) zero none = .ok r ∧ r.elems = (a0 :: rest).flatMap (·.elems) := by
  refine ⟨rest.foldl appendFlat' a0, by simp only [concatenate, Res.bind_ok, foldAppend_none], ?_⟩
  rw [foldl_appendFlat_elems]; simp

/-! ### the round trip along an axis -/

/-- **splitting along an axis and joining the pieces along the same axis restores the array** (cut form) -/
theorem concat_split_cut (a : Arr α) (zero : α) (parts n : Nat) (P Q : List Nat) (hwf : a.WF) (hs : a.shape = P ++ n :: Q)
    (hnz : 0 ∉ a.shape) (hp : 0 < parts) :
    (a.arraySplit zero parts (some P.length) >>= fun ps => concatenate ps zero (some P.length)) = .ok a := by
  obtain ⟨pieces, h1, h2, h3⟩ := arraySplit_cut a zero parts n P Q hwf hs hnz hp
  rw [h1, Res.bind_ok]
  have hsl := sectionSizes_length n parts hp
  have hsum := sectionSizes_sum n parts hp
  generalize sectionSizes n parts = sizes at *
  have hax : ∀ i (hi : i < pieces.length), axLen P.length pieces[i] = sizes.getD i 0 :=
    fun i hi => axLen_cut _ P Q _ (h3 i hi).1
  have hmap : pieces.map (axLen P.length) = sizes := by
    apply List.ext_getElem (by simp; omega)
    intro i hi1 hi2
    simp only [List.length_map] at hi1
    simp only [List.getElem_map, hax i hi1, List.getD_eq_getElem?_getD, List.getElem?_eq_getElem hi2, Option.getD_some]
  have hoffs : ∀ i, offsetOf P.length pieces i = (sizes.take i).sum := by
    intro i; rw [offsetOf, List.map_take, hmap]
  cases pieces with
  | nil => simp at h2; omega
  | cons p0 prest =>
    have hcut : ∀ b ∈ p0 :: prest, b.WF ∧ b.shape = P ++ axLen P.length b :: Q := by
      intro b hb
      obtain ⟨i, hi, rfl⟩ := List.getElem_of_mem hb
      obtain ⟨g1, g2, _⟩ := h3 i hi
      exact ⟨g2, by rw [hax i hi]; exact g1⟩
    obtain ⟨r, c1, c2, c3, c4⟩ := concatenate_cut zero P Q p0 prest hcut
    rw [c1]; congr 1
    rw [hmap, hsum] at c2
    apply Arr.ext_get r a c3 hwf (by rw [c2, hs])
    intro c hc
    rw [c2] at hc
    obtain ⟨p, j, q, rfl, hp', hj, hq⟩ := inRange_cut _ _ _ _ hc
    have hj' : j < (sizes.take sizes.length).sum := by rw [List.take_length, hsum]; exact hj
    obtain ⟨i, hi1, hi2, hi3⟩ := find_block sizes j sizes.length (Nat.le_refl _) hj'
    have hi : i < (p0 :: prest).length := by omega
    obtain ⟨d, rfl⟩ : ∃ d, j = (sizes.take i).sum + d := ⟨j - (sizes.take i).sum, by omega⟩
    have := c4 i hi p q d hp' hq (by rw [hax i hi]; omega)
    rw [hoffs i] at this
    rw [this, (h3 i hi).2.2 p q d hp' hq (by omega)]

/-- an empty array is returned whole by `array_split`, and joining that single piece gives it back -/
theorem concat_split_empty (a : Arr α) (zero : α) (parts k : Nat) (he : a.isEmpty = true) (hp : 0 < parts) (hk : k < a.ndim) :
    (a.arraySplit zero parts (some k) >>= fun ps => concatenate ps zero (some k)) = .ok a := by
  have hd : ¬ (decide (k ≥ a.ndim) = true) := by simp; omega
  have h1 : a.arraySplit zero parts (some k) = .ok [a] := by
    unfold Arr.arraySplit
    rw [if_neg (by omega)]
    simp only [Option.getD_some, hd, he, Bool.false_eq_true, if_false, if_true]
  rw [h1, Res.bind_ok]
  have hv : validateStackShapes [a] k k = .ok () := by
    unfold validateStackShapes
    simp only [List.any_cons, List.any_nil, Bool.or_false, hd, Bool.false_eq_true, if_false, validateStackShapes.go]
  simp only [concatenate, hv, Res.bind_ok, foldAppend, List.foldl_nil]

/-! ### `append` in whole coordinates -/

theorem appendAxis_coord (a v : Arr α) (zero : α) (k : Nat) (hwa : a.WF) (hwv : v.WF) (hk : k < a.ndim) (hkv : k < v.ndim)
    (hoff : a.shape.eraseIdx k = v.shape.eraseIdx k) :
    ∃ r, a.appendAxis v zero k = .ok r ∧ r.shape = a.shape.set k (a.shape.getD k 0 + v.shape.getD k 0) ∧ r.WF ∧
      (∀ c, inRange a.shape c = true → r.get? c = a.get? c) ∧
      (∀ c, inRange v.shape c = true → r.get? (c.set k (a.shape.getD k 0 + c.getD k 0)) = v.get? c) := by
  obtain ⟨hs, hPl⟩ := shape_cut a.shape k hk
  have her : a.shape.eraseIdx k = a.shape.take k ++ a.shape.drop (k + 1) := List.eraseIdx_eq_take_drop_succ _ _
  generalize a.shape.take k = P at hs hPl her
  generalize a.shape.drop (k + 1) = Q at hs her
  generalize a.shape.getD k 0 = na at hs ⊢
  subst hPl
  have hsv : v.shape = P ++ v.shape.getD P.length 0 :: Q :=
    shape_cut_of_eraseIdx v.shape P.length P Q hkv rfl (by rw [← hoff, her])
  generalize v.shape.getD P.length 0 = nv at hsv ⊢
  obtain ⟨r, h1, h2, h3, h4, h5⟩ := appendAxis_cut a v zero na nv P Q hwa hwv hs hsv
  refine ⟨r, h1, by rw [h2, hs, set_mid], h3, ?_, ?_⟩
  · intro c hc
    rw [hs] at hc
    obtain ⟨p, j, q, rfl, hp', hj, hq⟩ := inRange_cut _ _ _ _ hc
    exact h4 p q j hp' hq hj
  · intro c hc
    rw [hsv] at hc
    obtain ⟨p, j, q, rfl, hp', hj, hq⟩ := inRange_cut _ _ _ _ hc
    have hpl : P.length = p.length := (inRange_length _ _ hp').symm
    rw [hpl, set_mid, getD_mid]
    exact h5 p q j hp' hq hj

/-- rank mismatch or off-axis mismatch is refused by `append` -/
theorem appendAxis_refuses (a v : Arr α) (zero : α) (k : Nat)
    (h : a.ndim ≠ v.ndim ∨ a.shape.eraseIdx k ≠ v.shape.eraseIdx k) : ∃ e, a.appendAxis v zero k = .err e := by
  unfold Arr.appendAxis
  by_cases h1 : k ≥ a.ndim
  · rw [if_pos h1]; exact ⟨_, rfl⟩
  · rw [if_neg h1]
    by_cases h2 : a.ndim ≠ v.ndim
    · rw [if_pos h2]; exact ⟨_, rfl⟩
    · rw [if_neg h2]
      have h2' : a.ndim = v.ndim := by simpa using h2
      have hne : a.shape.eraseIdx k ≠ v.shape.eraseIdx k := by
        rcases h with h | h
        · exact absurd h h2
        · exact h
      have ha : ¬ k ≥ a.shape.length := h1
      have hv : ¬ k ≥ v.shape.length := by rw [show v.shape.length = v.ndim from rfl, ← h2']; exact h1
      simp only [vecRemove, if_neg ha, if_neg hv, Res.bind_ok]
      rw [if_pos hne]; exact ⟨_, rfl⟩

end ArrModel.C11
