import Mathlib.Tactic.Ring
import ArrProofs.Lemmas.C11Round
/-! C11: `stack`, joining along axis 0 as flat concatenation, `vstack` / `hstack` / `dstack` -/
namespace ArrModel.C11
open ArrModel Arr
variable {α : Type}

theorem reshape_self (r : Arr α) (h : r.WF) : r.reshape r.shape = .ok r := by
  simp only [Arr.reshape, Arr.new]; rw [if_pos h.symm]

theorem sum_map_const {β} (f : β → Nat) (n : Nat) : ∀ (l : List β), (∀ b ∈ l, f b = n) → (l.map f).sum = l.length * n
  | [], _ => by simp
  | x :: xs, h => by
    simp only [List.map_cons, List.sum_cons, List.length_cons, h x List.mem_cons_self,
      sum_map_const f n xs (fun b hb => h b (List.mem_cons_of_mem _ hb))]
    ring

/-! ### `stack` -/

/-- **`stack` at position `k = P.length`** of inputs of one shape `P ++ n :: Q` -/
theorem stack_cut (zero : α) (P Q : List Nat) (n : Nat) (a0 : Arr α) (rest : List (Arr α))
    (h : ∀ b ∈ a0 :: rest, b.WF ∧ b.shape = P ++ n :: Q) :
    ∃ r, stack (a0 :: rest) zero (some P.length) = .ok r ∧ r.shape = P ++ (rest.length + 1) :: n :: Q ∧ r.WF ∧
      ∀ i (hi : i < (a0 :: rest).length) p q j, inRange P p = true → inRange Q q = true → j < n →
        r.get? (p ++ i :: j :: q) = ((a0 :: rest)[i]).get? (p ++ j :: q) := by
  have hax : ∀ b ∈ a0 :: rest, axLen P.length b = n := fun b hb => axLen_cut b P Q n (h b hb).2
  have hcut : ∀ b ∈ a0 :: rest, b.WF ∧ b.shape = P ++ axLen P.length b :: Q := by
    intro b hb; rw [hax b hb]; exact h b hb
  obtain ⟨hw0, hs0⟩ := hcut a0 List.mem_cons_self
  obtain ⟨r, h1, h2, h3, h4⟩ := foldAppend_cut zero P Q rest a0 hw0 hs0 (fun b hb => hcut b (List.mem_cons_of_mem _ hb))
  rw [sum_map_const _ n _ hax] at h2
  have hs0' : a0.shape = P ++ n :: Q := (h a0 List.mem_cons_self).2
  have hlen : (a0 :: rest).length = rest.length + 1 := rfl
  rw [hlen] at h2
  have hprod : (P ++ (rest.length + 1) :: n :: Q).prod = r.elems.length := by
    rw [h3, h2]; simp only [List.prod_append, List.prod_cons]; ring
  refine ⟨⟨r.elems, P ++ (rest.length + 1) :: n :: Q⟩, ?_, rfl, hprod.symm, ?_⟩
  · unfold Arr.stack
    have c1 : ((a0 :: rest).any fun a => decide (P.length ≥ a.ndim)) = false := by
      simp only [List.any_eq_false, decide_eq_true_eq]
      intro b hb; rw [Arr.ndim, (h b hb).2]; simp
    have c2 : ¬ (((a0 :: rest).any fun a => decide (a.shape ≠ a0.shape)) = true) := by
      intro hh
      obtain ⟨b, hb, hne⟩ := List.any_eq_true.1 hh
      exact (of_decide_eq_true hne) (by rw [(h b hb).2, hs0'])
    simp only [c1, Bool.false_eq_true, if_false]
    rw [if_neg c2]
    simp only [Option.getD_some, vecInsert, hs0', hlen]
    rw [if_neg (by simp), Res.bind_ok, h1, Res.bind_ok, insertIdx_mid]
    simp only [Arr.reshape, Arr.new, if_pos hprod]
  · intro i hi p q j hp hq hj
    have hoff : offsetOf P.length (a0 :: rest) i = i * n := by
      rw [offsetOf, sum_map_const _ n _ (fun b hb => hax b (List.mem_of_mem_take hb)), List.length_take]
      rw [Nat.min_eq_left (by omega)]
    have := h4 i hi p q j hp hq (by rw [hax _ (List.getElem_mem hi)]; exact hj)
    rw [hoff] at this
    rw [← this]
    simp only [Arr.get?, h2]
    have hpl := (inRange_length _ _ hp).symm
    rw [ravel_mid _ _ _ _ _ _ hpl, ravel_mid _ _ _ _ _ _ hpl]
    congr 1
    simp only [ravel, List.prod_cons]
    ring

theorem stack_coord (zero : α) (k : Nat) (a0 : Arr α) (rest : List (Arr α)) (hk : k < a0.ndim)
    (h : ∀ b ∈ a0 :: rest, b.WF ∧ b.shape = a0.shape) :
    ∃ r, stack (a0 :: rest) zero (some k) = .ok r ∧ r.shape = a0.shape.insertIdx k (rest.length + 1) ∧ r.WF ∧
      ∀ i (hi : i < (a0 :: rest).length) c, inRange a0.shape c = true →
        r.get? (c.insertIdx k i) = ((a0 :: rest)[i]).get? c := by
  obtain ⟨hs, hPl⟩ := shape_cut a0.shape k hk
  generalize a0.shape.take k = P at hs hPl
  generalize a0.shape.drop (k + 1) = Q at hs
  generalize a0.shape.getD k 0 = n at hs
  subst hPl
  obtain ⟨r, h1, h2, h3, h4⟩ := stack_cut zero P Q n a0 rest (fun b hb => by rw [← hs]; exact h b hb)
  refine ⟨r, h1, by rw [h2, hs, insertIdx_mid], h3, ?_⟩
  intro i hi c hc
  rw [hs] at hc
  obtain ⟨p, j, q, rfl, hp', hj, hq⟩ := inRange_cut _ _ _ _ hc
  have hpl : P.length = p.length := (inRange_length _ _ hp').symm
  rw [hpl, insertIdx_mid]
  exact h4 i hi p q j hp' hq hj

theorem stack_unequal (zero : α) (axis : Option Nat) (a0 : Arr α) (rest : List (Arr α))
    (h : ∃ b ∈ a0 :: rest, b.shape ≠ a0.shape) : ∃ e, stack (a0 :: rest) zero axis = .err e := by
  have hany : ((a0 :: rest).any fun a => decide (a.shape ≠ a0.shape)) = true := by
    obtain ⟨b, hb, hne⟩ := h
    exact List.any_eq_true.2 ⟨b, hb, decide_eq_true hne⟩
  cases axis with
  | none => exact ⟨.ParameterError, by unfold Arr.stack; simp only [Bool.false_eq_true, if_false]; rw [if_pos hany]⟩
  | some ax =>
    by_cases hc : ((a0 :: rest).any fun a => decide (ax ≥ a.ndim)) = true
    · exact ⟨.AxisOutOfBounds, by unfold Arr.stack; simp only [hc, if_true]⟩
    · exact ⟨.ParameterError, by unfold Arr.stack; simp only [hc, Bool.false_eq_true, if_false]; rw [if_pos hany]⟩

/-! ### joining along axis 0 is flat concatenation -/

theorem getElem?_flatMap_offset {β γ} (g : β → List γ) : ∀ (l : List β) (i : Nat) (hi : i < l.length) (z : Nat),
    z < (g l[i]).length → (l.flatMap g)[((l.take i).map (fun x => (g x).length)).sum + z]? = (g l[i])[z]?
  | [], _, hi, _, _ => by simp at hi
  | x :: xs, 0, _, z, hz => by
    simp only [List.take_zero, List.map_nil, List.sum_nil, Nat.zero_add, List.flatMap_cons, List.getElem_cons_zero] at hz ⊢
    rw [List.getElem?_append_left hz]
  | x :: xs, i + 1, hi, z, hz => by
    simp only [List.take_succ_cons, List.map_cons, List.sum_cons, List.flatMap_cons, List.getElem_cons_succ] at hz ⊢
    rw [List.getElem?_append_right (by omega)]
    rw [show (g x).length + ((xs.take i).map (fun x => (g x).length)).sum + z - (g x).length
        = ((xs.take i).map (fun x => (g x).length)).sum + z by omega]
    exact getElem?_flatMap_offset g xs i (by simpa using hi) z hz

theorem sum_map_mul {β} (f : β → Nat) (m : Nat) : ∀ (l : List β), (l.map (fun b => f b * m)).sum = (l.map f).sum * m
  | [] => by simp
  | x :: xs => by simp only [List.map_cons, List.sum_cons, sum_map_mul f m xs]; ring

/-- **`concatenate` along axis 0 chains the element lists** -/
theorem concatenate_axis0 (zero : α) (Q : List Nat) (a0 : Arr α) (rest : List (Arr α))
    (h : ∀ b ∈ a0 :: rest, b.WF ∧ b.shape = axLen 0 b :: Q) :
    concatenate (a0 :: rest) zero (some 0) =
      .ok ⟨(a0 :: rest).flatMap (·.elems), (((a0 :: rest).map (axLen 0)).sum) :: Q⟩ := by
  obtain ⟨r, h1, h2, h3, h4⟩ := concatenate_cut zero [] Q a0 rest h
  simp only [List.length_nil, List.nil_append] at h1 h2 h4
  rw [h1]; congr 1
  generalize a0 :: rest = arrs at *
  have hlen : ∀ b ∈ arrs, b.elems.length = axLen 0 b * Q.prod := by
    intro b hb; obtain ⟨g1, g2⟩ := h b hb; rw [g1, g2]; simp
  have hwfT : (arrs.flatMap (·.elems)).length = ((arrs.map (axLen 0)).sum :: Q).prod := by
    rw [List.length_flatMap, List.prod_cons, ← sum_map_mul]
    congr 1
    exact List.map_congr_left hlen
  apply Arr.ext_get r ⟨arrs.flatMap (fun x : Arr α => x.elems), (arrs.map (axLen 0)).sum :: Q⟩ h3 hwfT h2
  intro c hc
  rw [h2] at hc
  obtain ⟨p, j, q, rfl, hp', hj, hq⟩ := inRange_cut [] Q _ c hc
  have hp0 : p = [] := List.eq_nil_of_length_eq_zero (inRange_length _ _ hp')
  subst hp0
  have hsum : (arrs.map (axLen 0)).sum = ((arrs.map (axLen 0)).take arrs.length).sum := by
    rw [List.take_of_length_le (by simp)]
  rw [hsum] at hj
  obtain ⟨i, hi1, hi2, hi3⟩ := find_block (arrs.map (axLen 0)) j arrs.length (by simp) hj
  have hgd : (arrs.map (axLen 0)).getD i 0 = axLen 0 arrs[i] := by simp [List.getD_eq_getElem?_getD, hi1]
  rw [hgd] at hi3
  have hoff : ((arrs.map (axLen 0)).take i).sum = offsetOf 0 arrs i := by rw [offsetOf, List.map_take]
  rw [hoff] at hi2 hi3
  obtain ⟨d, rfl⟩ : ∃ d, j = offsetOf 0 arrs i + d := ⟨j - offsetOf 0 arrs i, by omega⟩
  have h4' := h4 i hi1 [] q d rfl hq (by omega)
  simp only [List.nil_append] at h4' ⊢
  rw [h4']
  simp only [Arr.get?, ravel, (h _ (List.getElem_mem hi1)).2]
  have hz : d * Q.prod + ravel Q q < (arrs[i]).elems.length := by
    rw [hlen _ (List.getElem_mem hi1)]
    exact lin2_lt _ _ _ _ (by omega) (ravel_lt _ _ hq)
  rw [← getElem?_flatMap_offset (fun x : Arr α => x.elems) arrs i hi1 _ hz]
  congr 1
  have e : ((arrs.take i).map (fun x => x.elems.length)).sum = offsetOf 0 arrs i * Q.prod := by
    rw [offsetOf, ← sum_map_mul]
    congr 1
    exact List.map_congr_left (fun b hb => hlen b (List.mem_of_mem_take hb))
  rw [e]
  ring

end ArrModel.C11
