import ArrModel.IndexExt
import ArrProofs.Lemmas.Index
/-! helper lemmas for the C02 extension (`slice`, `indices_at`): the copy loop of `slice` is one contiguous
window, windows and row gathers read through `get?` -/
namespace ArrModel
variable {α : Type}

/-! ### the copy loop of `slice` -/

theorem stepPositions_mul (lo n step : Nat) (hs : 0 < step) :
    stepPositions lo (n * step) step = (List.range n).map (fun k => lo + k * step) := by
  unfold stepPositions
  have h : (n * step + step - 1) / step = n := by
    have e : n * step + step - 1 = (step - 1) + n * step := by omega
    rw [e, Nat.add_mul_div_right _ _ hs, Nat.div_eq_of_lt (by omega)]; simp
  rw [h]

theorem vrange_ok (l : List α) (i j : Nat) (h1 : i ≤ j) (h2 : j ≤ l.length) :
    Res.vrange l i j = .ok ((l.drop i).take (j - i)) := by
  unfold Res.vrange; rw [if_pos ⟨h1, h2⟩]

theorem gatherChunks_steps (elems : List α) (stride : Nat) : ∀ (n lo : Nat), lo + n * stride ≤ elems.length →
    gatherChunks elems stride ((List.range n).map (fun k => lo + k * stride)) = .ok ((elems.drop lo).take (n * stride))
  | 0, lo, _ => by simp [gatherChunks]
  | n + 1, lo, h => by
    have hle : lo + stride + n * stride ≤ elems.length := by rw [Nat.add_mul] at h; omega
    have ih := gatherChunks_steps elems stride n (lo + stride) hle
    have hmap : (List.range n).map ((fun k => lo + k * stride) ∘ Nat.succ)
        = (List.range n).map (fun k => lo + stride + k * stride) := by
      apply List.map_congr_left; intro k _
      simp only [Function.comp, Nat.succ_eq_add_one, Nat.add_mul]; omega
    rw [List.range_succ_eq_map, List.map_cons, List.map_map, hmap]
    simp only [gatherChunks, Nat.zero_mul, Nat.add_zero]
    rw [vrange_ok elems lo (lo + stride) (by omega) (by omega), Res.bind_ok, ih, Res.bind_ok]
    congr 1
    rw [Nat.add_sub_cancel_left, Nat.add_mul, Nat.one_mul, Nat.add_comm (n * stride) stride, List.take_add,
      List.drop_drop]

/-- the tail of `slice` (stride, `step_by` loop, `Array::new`) copies one contiguous window -/
theorem sliceCopy (elems : List α) (n0 : Nat) (rest : List Nat) (off : Nat)
    (hnz : (n0 :: rest).prod ≠ 0) (hin : off + (n0 :: rest).prod ≤ elems.length) :
    (if (n0 :: rest).prod / n0 = 0 then (Res.panic : Res (Arr α))
     else gatherChunks elems ((n0 :: rest).prod / n0) (stepPositions off (n0 :: rest).prod ((n0 :: rest).prod / n0))
            >>= fun ne => Arr.new ne (n0 :: rest))
      = .ok ⟨(elems.drop off).take (n0 :: rest).prod, n0 :: rest⟩ := by
  have hP : (n0 :: rest).prod = n0 * rest.prod := List.prod_cons
  generalize (n0 :: rest).prod = P at *
  subst hP
  have hn0 : 0 < n0 := Nat.pos_of_ne_zero (fun e => hnz (by simp [e]))
  have hr : 0 < rest.prod := Nat.pos_of_ne_zero (fun e => hnz (by simp [e]))
  have hdiv : n0 * rest.prod / n0 = rest.prod := Nat.mul_div_cancel_left _ hn0
  simp only [hdiv]
  rw [if_neg (by omega), stepPositions_mul off n0 rest.prod hr, gatherChunks_steps elems rest.prod n0 off hin,
    Res.bind_ok]
  unfold Arr.new
  rw [if_pos (by simp only [List.prod_cons, List.length_take, List.length_drop]; omega)]

/-! ### reading windows through `get?` -/

theorem getElem?_window (l : List α) (off n j : Nat) (hj : j < n) : ((l.drop off).take n)[j]? = l[off + j]? := by
  rw [List.getElem?_take_of_lt hj, List.getElem?_drop]

/-- a window of `n` rows starting at flat offset `off`, read by coordinates -/
theorem window_get? (elems : List α) (off n : Nat) (t c : List Nat) (i : Nat) (hi : i < n) (hc : inRange t c = true) :
    (⟨(elems.drop off).take (n * t.prod), n :: t⟩ : Arr α).get? (i :: c) = elems[off + (i * t.prod + ravel t c)]? := by
  have hlt := ravel_lt t c hc
  unfold Arr.get?
  simp only [ravel]
  apply getElem?_window
  have : (i + 1) * t.prod ≤ n * t.prod := Nat.mul_le_mul_right _ hi
  rw [Nat.add_mul] at this; omega

/-- a single row starting at flat offset `off`, read by coordinates -/
theorem row_get? (elems : List α) (off : Nat) (t c : List Nat) (hc : inRange t c = true) :
    (⟨(elems.drop off).take t.prod, t⟩ : Arr α).get? c = elems[off + ravel t c]? := by
  unfold Arr.get?
  exact getElem?_window _ _ _ _ (ravel_lt t c hc)

/-! ### `indices_at` -/

theorem sequence_map_ok {β γ : Type} (f : β → Res γ) (g : β → γ) :
    ∀ (l : List β), (∀ x ∈ l, f x = .ok (g x)) → Res.mapM' f l = .ok (l.map g)
  | [], _ => rfl
  | x :: xs, h => by
    have ih := sequence_map_ok f g xs (fun y hy => h y (List.mem_cons_of_mem _ hy))
    unfold Res.mapM' at ih ⊢
    simp only [List.map_cons, Res.sequence, h x List.mem_cons_self, Res.bind_ok, ih]

theorem mapM'_never_panics {β γ : Type} (f : β → Res γ) :
    ∀ (l : List β), (∀ x ∈ l, f x ≠ .panic) → Res.mapM' f l ≠ .panic
  | [], _ => by simp [Res.mapM', Res.sequence]
  | x :: xs, h => by
    have ih := mapM'_never_panics f xs (fun y hy => h y (List.mem_cons_of_mem _ hy))
    have hx := h x List.mem_cons_self
    unfold Res.mapM' at ih ⊢
    simp only [List.map_cons, Res.sequence]
    cases hfx : f x with
    | panic => exact absurd hfx hx
    | err e => simp
    | ok v =>
      simp only [Res.bind_ok]
      cases hs : Res.sequence (xs.map f) with
      | panic => exact absurd hs ih
      | err e => simp
      | ok vs => simp

/-- `indices.iter().map(|&i| v[i])` with every index inside: the gathered values, position by position -/
theorem mapM'_idx (l : List α) : ∀ (idx : List Nat), (∀ i ∈ idx, i < l.length) →
    ∃ ys, Res.mapM' (Res.idx l) idx = .ok ys ∧ ys.length = idx.length ∧ ∀ k : Nat, ys[k]? = (idx[k]?).bind (fun (i : Nat) => l[i]?)
  | [], _ => ⟨[], rfl, rfl, fun k => by simp⟩
  | i :: is, h => by
    obtain ⟨ys, h1, h2, h3⟩ := mapM'_idx l is (fun j hj => h j (List.mem_cons_of_mem _ hj))
    have hi : i < l.length := h i List.mem_cons_self
    refine ⟨l[i] :: ys, ?_, by simp [h2], ?_⟩
    · unfold Res.mapM' at h1 ⊢
      simp only [List.map_cons, Res.sequence, Res.idx, List.getElem?_eq_getElem hi, Res.bind_ok, h1]
    · intro k
      cases k with
      | zero => simp [hi]
      | succ k => simpa using h3 k

/-- length of a flattened list of equally long blocks -/
theorem length_flatten_const (ls : List (List α)) (n : Nat) (h : ∀ l ∈ ls, l.length = n) :
    ls.flatten.length = ls.length * n := by
  induction ls with
  | nil => simp
  | cons x xs ih =>
    simp only [List.flatten_cons, List.length_append, List.length_cons,
      h x List.mem_cons_self, ih (fun l hl => h l (List.mem_cons_of_mem _ hl)), Nat.add_mul]; omega

/-- position `k * n + j` of a flattened list of blocks of length `n` is position `j` of block `k` -/
theorem getElem?_flatten_const (ls : List (List α)) (n : Nat) (h : ∀ l ∈ ls, l.length = n) :
    ∀ (k j : Nat), j < n → ls.flatten[k * n + j]? = (ls[k]?).bind (fun l => l[j]?) := by
  induction ls with
  | nil => intro k j _; simp
  | cons x xs ih =>
    intro k j hj
    have hx := h x List.mem_cons_self
    cases k with
    | zero => simp [List.getElem?_append_left, hx, hj]
    | succ k =>
      have := ih (fun l hl => h l (List.mem_cons_of_mem _ hl)) k j hj
      simp only [List.flatten_cons, List.getElem?_cons_succ]
      rw [List.getElem?_append_right (by rw [hx, Nat.add_mul]; omega)]
      rw [hx, ← this]; congr 1; rw [Nat.add_mul]; omega

/-! ### unfolding helpers used by the property theorems -/

theorem slice_valid_unfold (a : Arr α) (start stop : Nat) (h1 : start ≤ stop) (h2 : stop ≤ a.len) :
    (!(decide (start ≤ stop) && decide (stop ≤ a.elems.length))) = false := by
  unfold Arr.len at h2; simp [h1, h2]

/-- the pieces `split_axis(0)` yields for a consistent non-empty array of shape `d0 :: T`: the `d0` row blocks -/
theorem axis0Pieces_rows (a : Arr α) (hwf : a.WF) (d0 : Nat) (T : List Nat) (hs : a.shape = d0 :: T) (hne : a.elems ≠ []) :
    0 < d0 ∧ 0 < T.prod ∧ a.axis0Pieces = (List.range d0).map (fun i => (a.elems.drop (i * T.prod)).take T.prod) := by
  have hlen : a.elems.length = d0 * T.prod := by rw [hwf, hs, List.prod_cons]
  have hpos : 0 < a.elems.length := List.length_pos_iff.2 hne
  have hd0 : 0 < d0 := Nat.pos_of_ne_zero (fun e => by rw [e] at hlen; omega)
  have hT : 0 < T.prod := Nat.pos_of_ne_zero (fun e => by rw [e] at hlen; omega)
  refine ⟨hd0, hT, ?_⟩
  unfold Arr.axis0Pieces Arr.isEmpty Arr.len
  have : (a.elems.length == 0) = false := by simp; omega
  rw [this]
  simp only [Bool.false_eq_true, if_false, hs, List.headD_cons, hlen, Nat.mul_div_cancel_left _ hd0]

end ArrModel
