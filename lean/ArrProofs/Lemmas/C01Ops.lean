import ArrProofs.Lemmas.C01Core
import ArrModel.C13
import ArrModel.Joining
import ArrModel.C05
import ArrModel.C04
/-!
# Lemmas.C01Ops — well-formedness of the results of `delete`/`insert`/`append`/`repeat`/`trim_zeros`,
the joining operations, the closure iteration funnels and the two-operand lifting patterns.
-/
namespace ArrModel.C01
open ArrModel

variable {α β γ δ : Type}

/-! ### local copies of the structural lemmas (split / atleast / broadcast / zip) -/

private theorem ops_allwf_singleton {a : Arr α} (ha : a.WF) : AllWF [a] := by
  intro x hx
  rcases List.mem_singleton.mp hx with rfl
  exact ha

private theorem ops_arraySplit_wf (a : Arr α) (zero : α) (parts : Nat) (axis : Option Nat) (ha : a.WF)
    {r : List (Arr α)} (h : a.arraySplit zero parts axis = .ok r) : AllWF r := by
  unfold Arr.arraySplit at h
  repeat' split at h
  all_goals first
    | (cases h; done)
    | (cases h; exact ops_allwf_singleton ha)
    | skip
  all_goals
    dsimp only at h
    obtain ⟨n, _, h⟩ := bind_ok_inv h
    obtain ⟨arr, _, h⟩ := bind_ok_inv h
    refine mapM'_ok_forall h ?_
    intro w _ b hb
    first
      | (cases hb; exact flat_wf _)
      | (obtain ⟨_, _, hb⟩ := bind_ok_inv hb; exact moveaxis_wf _ _ _ _ hb)

private theorem ops_split_wf (a : Arr α) (zero : α) (parts : Nat) (axis : Option Nat) (ha : a.WF)
    {r : List (Arr α)} (h : a.split zero parts axis = .ok r) : AllWF r := by
  unfold Arr.split at h
  repeat' split at h
  all_goals first
    | (cases h; done)
    | (cases h; exact ops_allwf_singleton ha)
    | skip
  all_goals
    obtain ⟨n, _, h⟩ := bind_ok_inv h
    split at h
    · exact ops_arraySplit_wf _ _ _ _ ha h
    · cases h

private theorem ops_splitAxis_wf (a : Arr α) (zero : α) (axis : Nat) (ha : a.WF)
    {r : List (Arr α)} (h : a.splitAxis zero axis = .ok r) : AllWF r := by
  unfold Arr.splitAxis at h
  split at h
  · cases h
  split at h
  · cases h; exact ops_allwf_singleton ha
  obtain ⟨n, _, h⟩ := bind_ok_inv h
  exact ops_arraySplit_wf _ _ _ _ ha h

private theorem ops_atleast_wf (a : Arr α) (n : Nat) (ha : a.WF) {r : Arr α} (h : a.atleast n = .ok r) : r.WF := by
  unfold Arr.atleast at h
  split at h
  · cases h; exact ha
  · cases h; exact ha
  · unfold Arr.atleast2d at h
    split at h
    · cases h; exact ha
    split at h
    · exact reshape_wf h
    · obtain ⟨_, _, h⟩ := bind_ok_inv h; exact reshape_wf h
    · obtain ⟨_, _, h⟩ := bind_ok_inv h; exact reshape_wf h
  · unfold Arr.atleast3d at h
    split at h
    · cases h; exact ha
    split at h
    · exact reshape_wf h
    · obtain ⟨_, _, h⟩ := bind_ok_inv h; exact reshape_wf h
    · obtain ⟨_, _, h⟩ := bind_ok_inv h; obtain ⟨_, _, h⟩ := bind_ok_inv h; exact reshape_wf h
    · cases h; exact ha
  · cases h

private theorem ops_broadcast_wf (a : Arr α) (b : Arr β) {r : Arr (α × β)} (h : a.broadcast b = .ok r) : r.WF := by
  unfold Arr.broadcast at h
  split at h
  · cases h
  split at h
  · exact reshape_wf h
  obtain ⟨_, _, h⟩ := bind_ok_inv h
  obtain ⟨_, _, h⟩ := bind_ok_inv h
  obtain ⟨_, _, h⟩ := bind_ok_inv h
  exact new_ok_wf h

private theorem ops_zip_wf (a : Arr α) (b : Arr β) {r : Arr (α × β)} (h : a.zip b = .ok r) : r.WF := by
  unfold Arr.zip at h
  obtain ⟨_, _, h⟩ := bind_ok_inv h
  exact reshape_wf h

private theorem ops_broadcastH2_wf (a : Arr α) (zero : α) (b : Arr β) {r : Arr α × Arr β}
    (h : a.broadcastH2 zero b = .ok r) : r.1.WF ∧ r.2.WF := by
  unfold Arr.broadcastH2 at h
  obtain ⟨_, _, h⟩ := bind_ok_inv h
  obtain ⟨_, _, h⟩ := bind_ok_inv h
  obtain ⟨arr, harr, h⟩ := bind_ok_inv h
  obtain ⟨other, hother, h⟩ := bind_ok_inv h
  cases h
  exact ⟨reshape_wf harr, broadcastTo_wf _ _ hother⟩

/-! ### `ArrModel/C13.lean` -/

theorem deleteFlat_wf (a : Arr α) (indices : List Nat) (_ha : a.WF) {r : Arr α}
    (h : a.deleteFlat indices = .ok r) : r.WF := by
  unfold Arr.deleteFlat at h
  dsimp only at h
  split at h
  · cases h
  · cases h; exact flat_wf _

theorem delete_wf (a : Arr α) (zero : α) (indices : List Nat) (axis : Option Nat) (ha : a.WF) {r : Arr α}
    (h : a.delete zero indices axis = .ok r) : r.WF := by
  unfold Arr.delete at h
  split at h
  · exact applyAlongAxis_wf _ _ _ _ _ h
  · exact deleteFlat_wf _ _ ha h

theorem insertFlat_wf (a : Arr α) (indices : List Nat) (values : Arr α) (_ha : a.WF) (_hv : values.WF) {r : Arr α}
    (h : a.insertFlat indices values = .ok r) : r.WF := by
  unfold Arr.insertFlat at h
  split at h
  · cases h
  split at h
  · cases h
  split at h
  · cases h
  obtain ⟨_, _, h⟩ := bind_ok_inv h
  dsimp only at h
  obtain ⟨_, _, h⟩ := bind_ok_inv h
  cases h
  exact flat_wf _

theorem appendFlat_wf (a values : Arr α) (_ha : a.WF) (_hv : values.WF) : (a.appendFlat values).WF := flat_wf _

theorem repeatFlat_wf (a : Arr α) (repeats : List Nat) (_ha : a.WF) {r : Arr α}
    (h : a.repeatFlat repeats = .ok r) : r.WF := by
  unfold Arr.repeatFlat at h
  obtain ⟨_, _, h⟩ := bind_ok_inv h
  cases h
  exact flat_wf _

theorem repeatAxis_wf (a : Arr α) (zero : α) (repeats : List Nat) (axis : Nat) (_ha : a.WF) {r : Arr α}
    (h : a.repeatAxis zero repeats axis = .ok r) : r.WF := by
  unfold Arr.repeatAxis at h
  split at h
  · cases h
  obtain ⟨_, _, h⟩ := bind_ok_inv h
  obtain ⟨_, _, h⟩ := bind_ok_inv h
  dsimp only at h
  obtain ⟨_, _, h⟩ := bind_ok_inv h
  obtain ⟨_, _, h⟩ := bind_ok_inv h
  obtain ⟨_, _, h⟩ := bind_ok_inv h
  exact reshape_wf h

theorem trimZeros_wf [DecidableEq α] (a : Arr α) (zero : α) (_ha : a.WF) {r : Arr α}
    (h : a.trimZeros zero = .ok r) : r.WF := by
  unfold Arr.trimZeros at h
  split at h
  · cases h
  · cases h; exact flat_wf _

/-! ### `ArrModel/Joining.lean` -/

theorem appendFlat'_wf (a v : Arr α) (_ha : a.WF) (_hv : v.WF) : (a.appendFlat' v).WF := flat_wf _

theorem appendAxis_wf (a v : Arr α) (zero : α) (axis : Nat) (_ha : a.WF) (_hv : v.WF) {r : Arr α}
    (h : a.appendAxis v zero axis = .ok r) : r.WF := by
  unfold Arr.appendAxis at h
  res_inv
  wf_close

theorem append_wf (a v : Arr α) (zero : α) (axis : Option Nat) (ha : a.WF) (hv : v.WF) {r : Arr α}
    (h : a.append v zero axis = .ok r) : r.WF := by
  unfold Arr.append at h
  split at h
  · exact appendAxis_wf _ _ _ _ ha hv h
  · cases h; exact flat_wf _

private theorem ops_foldAppend_panic (F : Arr α → Arr α → Res (Arr α)) (rest : List (Arr α)) :
    rest.foldl (fun (acc : Res (Arr α)) b => acc >>= fun a => F a b) .panic = .panic := by
  induction rest with
  | nil => rfl
  | cons b rest ih => simpa [List.foldl] using ih

theorem foldAppend_wf (a0 : Arr α) (rest : List (Arr α)) (zero : α) (axis : Option Nat) (ha : a0.WF)
    (hrest : AllWF rest) {r : Arr α} (h : Arr.foldAppend a0 rest zero axis = .ok r) : r.WF := by
  induction rest generalizing a0 with
  | nil => cases h; exact ha
  | cons b rest ih =>
    unfold Arr.foldAppend at h
    rw [List.foldl_cons, Res.bind_ok] at h
    cases hab : a0.append b zero axis with
    | ok r' =>
      rw [hab] at h
      exact ih r' (append_wf _ _ _ _ ha (hrest b List.mem_cons_self) hab)
        (fun x hx => hrest x (List.mem_cons_of_mem _ hx)) h
    | err e =>
      rw [hab] at h
      dsimp only at h
      rw [ops_foldAppend_panic] at h
      cases h
    | panic =>
      rw [hab] at h
      dsimp only at h
      rw [ops_foldAppend_panic] at h
      cases h

theorem empty_wf : (Arr.empty : Arr α).WF := by simp [Arr.empty, Arr.WF]

theorem concatenate_wf (arrs : List (Arr α)) (zero : α) (axis : Option Nat) (harrs : AllWF arrs) {r : Arr α}
    (h : Arr.concatenate arrs zero axis = .ok r) : r.WF := by
  unfold Arr.concatenate at h
  split at h
  · cases h; exact empty_wf
  · obtain ⟨_, _, h⟩ := bind_ok_inv h
    exact foldAppend_wf _ _ _ _ (harrs _ List.mem_cons_self) (fun x hx => harrs x (List.mem_cons_of_mem _ hx)) h

theorem stack_wf (arrs : List (Arr α)) (zero : α) (axis : Option Nat) (_harrs : AllWF arrs) {r : Arr α}
    (h : Arr.stack arrs zero axis = .ok r) : r.WF := by
  unfold Arr.stack at h
  repeat' split at h
  all_goals first
    | (cases h; done)
    | (cases h; exact empty_wf)
    | (dsimp only at h
       obtain ⟨_, _, h⟩ := bind_ok_inv h
       obtain ⟨_, _, h⟩ := bind_ok_inv h
       exact reshape_wf h)

theorem vstack_wf (arrs : List (Arr α)) (zero : α) (_harrs : AllWF arrs) {r : Arr α}
    (h : Arr.vstack arrs zero = .ok r) : r.WF := by
  unfold Arr.vstack at h
  split at h
  · cases h; exact empty_wf
  · obtain ⟨_, _, h⟩ := bind_ok_inv h
    obtain ⟨_, _, h⟩ := bind_ok_inv h
    obtain ⟨_, _, h⟩ := bind_ok_inv h
    exact reshape_wf h

theorem hstack_wf (arrs : List (Arr α)) (zero : α) (harrs : AllWF arrs) {r : Arr α}
    (h : Arr.hstack arrs zero = .ok r) : r.WF := by
  unfold Arr.hstack at h
  split at h
  · cases h; exact empty_wf
  · split at h
    · exact concatenate_wf _ _ _ harrs h
    · obtain ⟨_, _, h⟩ := bind_ok_inv h
      obtain ⟨_, _, h⟩ := bind_ok_inv h
      obtain ⟨_, _, h⟩ := bind_ok_inv h
      obtain ⟨_, _, h⟩ := bind_ok_inv h
      dsimp only at h
      obtain ⟨_, _, h⟩ := bind_ok_inv h
      exact reshape_wf h

theorem dstack_wf (arrs : List (Arr α)) (zero : α) (_harrs : AllWF arrs) {r : Arr α}
    (h : Arr.dstack arrs zero = .ok r) : r.WF := by
  unfold Arr.dstack at h
  split at h
  · cases h; exact empty_wf
  · obtain ⟨_, _, h⟩ := bind_ok_inv h
    obtain ⟨_, _, h⟩ := bind_ok_inv h
    obtain ⟨_, _, h⟩ := bind_ok_inv h
    obtain ⟨_, _, h⟩ := bind_ok_inv h
    dsimp only at h
    obtain ⟨_, _, h⟩ := bind_ok_inv h
    exact reshape_wf h

theorem columnStack_wf (arrs : List (Arr α)) (zero : α) (_harrs : AllWF arrs) {r : Arr α}
    (h : Arr.columnStack arrs zero = .ok r) : r.WF := by
  unfold Arr.columnStack at h
  split at h
  · cases h; exact empty_wf
  · obtain ⟨_, _, h⟩ := bind_ok_inv h
    split at h
    · cases h
    obtain ⟨_, _, h⟩ := bind_ok_inv h
    split at h
    · cases h
    dsimp only at h
    obtain ⟨_, _, h⟩ := bind_ok_inv h
    exact new_ok_wf h

theorem rowStack_wf (arrs : List (Arr α)) (zero : α) (harrs : AllWF arrs) {r : Arr α}
    (h : Arr.rowStack arrs zero = .ok r) : r.WF := vstack_wf _ _ harrs h

theorem hsplit_wf (a : Arr α) (zero : α) (parts : Nat) (ha : a.WF) {r : List (Arr α)}
    (h : a.hsplit zero parts = .ok r) : AllWF r := by
  unfold Arr.hsplit at h
  split at h
  · cases h
  split at h
  · cases h
  split at h
  · exact ops_split_wf _ _ _ _ ha h
  · exact ops_split_wf _ _ _ _ ha h

theorem vsplit_wf (a : Arr α) (zero : α) (parts : Nat) (ha : a.WF) {r : List (Arr α)}
    (h : a.vsplit zero parts = .ok r) : AllWF r := by
  unfold Arr.vsplit at h
  split at h
  · cases h
  split at h
  · cases h
  exact ops_split_wf _ _ _ _ ha h

theorem dsplit_wf (a : Arr α) (zero : α) (parts : Nat) (ha : a.WF) {r : List (Arr α)}
    (h : a.dsplit zero parts = .ok r) : AllWF r := by
  unfold Arr.dsplit at h
  split at h
  · cases h
  split at h
  · cases h
  exact ops_split_wf _ _ _ _ ha h

/-! ### `ArrModel/C05.lean` (namespace `ArrModel.Iter`) -/

theorem iter_reshape_wf (a : Arr α) (shape : List Nat) (_ha : a.WF) {r : Arr α}
    (h : Iter.reshape a shape = .ok r) : r.WF := by
  unfold Iter.reshape at h
  split at h
  · exact new_ok_wf h
  · cases h

theorem iter_flat_wf (xs : List α) {r : Arr α} (h : Iter.flat xs = .ok r) : r.WF := new_ok_wf h

theorem iter_collect_wf (xs : List α) {r : Arr α} (h : Iter.collect xs = .ok r) : r.WF := by
  unfold Iter.collect at h
  split at h
  · cases h; exact iter_flat_wf _ (by assumption)
  · cases h

theorem iter_ravel_wf (a : Arr α) (_ha : a.WF) {r : Arr α} (h : Iter.ravel a = .ok r) : r.WF := iter_flat_wf _ h

private theorem ops_collect_reshape_wf {ys : List β} {s : List Nat} {r : Arr β}
    (h : (Iter.collect ys >>= fun c => Iter.reshape c s) = .ok r) : r.WF := by
  obtain ⟨c, hc, h⟩ := bind_ok_inv h
  exact iter_reshape_wf _ _ (iter_collect_wf _ hc) h

private theorem ops_collect_ravel_wf {ys : List β} {r : Arr β}
    (h : (Iter.collect ys >>= Iter.ravel) = .ok r) : r.WF := by
  obtain ⟨c, hc, h⟩ := bind_ok_inv h
  exact iter_ravel_wf _ (iter_collect_wf _ hc) h

theorem iter_map_wf (a : Arr α) (f : α → β) (_ha : a.WF) {r : Arr β} (h : Iter.map a f = .ok r) : r.WF :=
  ops_collect_reshape_wf (ys := Iter.traverseIdx (m := Id) (fun _ x => pure (f x)) 0 a.elems) (s := a.shape) h

theorem iter_mapE_wf (a : Arr α) (f : Nat → α → β) (_ha : a.WF) {r : Arr β} (h : Iter.mapE a f = .ok r) : r.WF :=
  ops_collect_reshape_wf (ys := Iter.traverseIdx (m := Id) (fun i x => pure (f i x)) 0 a.elems) (s := a.shape) h

theorem iter_filter_wf (a : Arr α) (p : α → Bool) (_ha : a.WF) {r : Arr α} (h : Iter.filter a p = .ok r) : r.WF :=
  ops_collect_ravel_wf (ys := Iter.filterIdxM (m := Id) (fun _ x => pure (p x)) 0 a.elems) h

theorem iter_filterE_wf (a : Arr α) (p : Nat → α → Bool) (_ha : a.WF) {r : Arr α}
    (h : Iter.filterE a p = .ok r) : r.WF :=
  ops_collect_ravel_wf (ys := Iter.filterIdxM (m := Id) (fun i x => pure (p i x)) 0 a.elems) h

theorem iter_filterMap_wf (a : Arr α) (f : α → Option β) (_ha : a.WF) {r : Arr β}
    (h : Iter.filterMap a f = .ok r) : r.WF :=
  ops_collect_ravel_wf (ys := Iter.filterMapIdxM (m := Id) (fun _ x => pure (f x)) 0 a.elems) h

theorem iter_filterMapE_wf (a : Arr α) (f : Nat → α → Option β) (_ha : a.WF) {r : Arr β}
    (h : Iter.filterMapE a f = .ok r) : r.WF :=
  ops_collect_ravel_wf (ys := Iter.filterMapIdxM (m := Id) (fun i x => pure (f i x)) 0 a.elems) h

theorem iter_unary_wf (k : α → β) (a : Arr α) (ha : a.WF) {r : Arr β} (h : Iter.unary k a = .ok r) : r.WF :=
  iter_map_wf a k ha h

theorem iter_zipSame_wf (a : Arr α) (b : Arr β) (_ha : a.WF) (_hb : b.WF) {r : Arr (α × β)}
    (h : Iter.zipSame a b = .ok r) : r.WF := by
  unfold Iter.zipSame at h
  obtain ⟨_, _, h⟩ := bind_ok_inv h
  exact ops_collect_reshape_wf h

/-! ### `ArrModel/C04.lean` (namespace `ArrModel.C04`) -/

theorem c04_map1_wf (g : α → β) (a : Arr α) (_ha : a.WF) {r : Arr β} (h : C04.map1 g a = .ok r) : r.WF :=
  reshape_wf h

theorem c04_zipWithB_wf (f : α → β → γ) (a : Arr α) (b : Arr β) (_ha : a.WF) (_hb : b.WF) {r : Arr γ}
    (h : C04.zipWithB f a b = .ok r) : r.WF := by
  unfold C04.zipWithB at h
  obtain ⟨_, _, h⟩ := bind_ok_inv h
  exact new_ok_wf h

theorem c04_zipWithR_wf (f : α → β → γ) (a : Arr α) (b : Arr β) (_ha : a.WF) (_hb : b.WF) {r : Arr γ}
    (h : C04.zipWithR f a b = .ok r) : r.WF := by
  unfold C04.zipWithR at h
  obtain ⟨z, hz, h⟩ := bind_ok_inv h
  exact c04_map1_wf _ _ (ops_zip_wf _ _ hz) h

theorem c04_divideLike_wf (isZero : β → Bool) (f : α → β → γ) (a : Arr α) (b : Arr β) (ha : a.WF) (hb : b.WF)
    {r : Arr γ} (h : C04.divideLike isZero f a b = .ok r) : r.WF := by
  unfold C04.divideLike at h
  split at h
  · cases h
  · exact c04_zipWithB_wf _ _ _ ha hb h

theorem c04_floorDivideLike_wf (isZero : β → Bool) (f : α → β → γ) (post : γ → δ) (a : Arr α) (b : Arr β)
    (ha : a.WF) (hb : b.WF) {r : Arr δ} (h : C04.floorDivideLike isZero f post a b = .ok r) : r.WF := by
  unfold C04.floorDivideLike at h
  obtain ⟨q, hq, h⟩ := bind_ok_inv h
  exact c04_map1_wf _ _ (c04_divideLike_wf _ _ _ _ ha hb hq) h

theorem c04_bitwiseLike_wf (f : α → β → γ) (a : Arr α) (b : Arr β) (ha : a.WF) (hb : b.WF) {r : Arr γ}
    (h : C04.bitwiseLike f a b = .ok r) : r.WF := by
  unfold C04.bitwiseLike at h
  split at h
  · cases h
  · exact c04_zipWithB_wf _ _ _ ha hb h

theorem c04_zipWithRA_wf (g : α → α) (k : β → β) (f : α → β → γ) (a : Arr α) (b : Arr β) (ha : a.WF) (hb : b.WF)
    {r : Arr γ} (h : C04.zipWithRA g k f a b = .ok r) : r.WF := by
  unfold C04.zipWithRA at h
  obtain ⟨a', ha', h⟩ := bind_ok_inv h
  obtain ⟨b', hb', h⟩ := bind_ok_inv h
  exact c04_zipWithR_wf _ _ _ (c04_map1_wf _ _ ha ha') (c04_map1_wf _ _ hb hb') h

theorem c04_clipLike_wf (f : α → β → β → γ) (a : Arr α) (lo hi : Arr β) (_ha : a.WF) (_hlo : lo.WF) (_hhi : hi.WF)
    {r : Arr γ} (h : C04.clipLike f a lo hi = .ok r) : r.WF := by
  unfold C04.clipLike at h
  obtain ⟨_, _, h⟩ := bind_ok_inv h
  obtain ⟨_, _, h⟩ := bind_ok_inv h
  obtain ⟨_, _, h⟩ := bind_ok_inv h
  obtain ⟨z, hz, h⟩ := bind_ok_inv h
  exact c04_map1_wf _ _ (ops_zip_wf _ _ hz) h

theorem c04_run_wf (p : C04.Pattern) (isZero : β → Bool) (f : α → β → γ) (a : Arr α) (b : Arr β)
    (ha : a.WF) (hb : b.WF) {r : Arr γ} (h : C04.Pattern.run p isZero f a b = .ok r) : r.WF := by
  cases p
  · exact c04_zipWithB_wf _ _ _ ha hb h
  · exact c04_divideLike_wf _ _ _ _ ha hb h
  · exact c04_floorDivideLike_wf _ _ _ _ _ ha hb h
  · exact c04_bitwiseLike_wf _ _ _ ha hb h
  · exact c04_zipWithR_wf _ _ _ ha hb h
  · exact c04_zipWithRA_wf _ _ _ _ _ ha hb h

end ArrModel.C01
