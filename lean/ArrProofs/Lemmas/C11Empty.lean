import ArrProofs.Lemmas.C11Column
/-!
# C11: arrays with a zero-length axis through the splitting functions, and totality of splitting

The code's `is_empty` shortcut (`split.rs`): after the refusals (`parts == 0`, axis outside the rank — in the order each
function has them) an array without elements is returned whole as the single piece `[a]`, whatever the part count
(divisibility is NOT examined for `split`).
-/
namespace ArrModel.C11
open ArrModel Arr
variable {α : Type}

/-- a well-formed array with a zero-length axis has no element -/
theorem isEmpty_of_zero_mem (a : Arr α) (hwf : a.WF) (hz : 0 ∈ a.shape) : a.isEmpty = true := by
  simp [Arr.isEmpty, show a.elems.length = a.shape.prod from hwf, prod_eq_zero_of_mem _ hz]

/-- a well-formed array is empty exactly when it has a zero-length axis -/
theorem isEmpty_iff_zero_mem (a : Arr α) (hwf : a.WF) : a.isEmpty = true ↔ 0 ∈ a.shape := by
  constructor
  · intro he
    apply Classical.byContradiction
    intro hnz
    rw [isEmpty_false_of a hwf hnz] at he
    cases he
  · exact isEmpty_of_zero_mem a hwf

theorem ndim_pos_of_zero_mem (a : Arr α) (hz : 0 ∈ a.shape) : 1 ≤ a.ndim := by
  unfold Arr.ndim
  exact List.length_pos_iff.2 (List.ne_nil_of_mem hz)

/-- `array_split` on an array without elements: zero parts refused first, then an axis outside the rank, then `[a]` -/
theorem arraySplit_empty (a : Arr α) (zero : α) (parts : Nat) (axis : Option Nat) (he : a.isEmpty = true) :
    a.arraySplit zero parts axis =
      if parts = 0 then .err .ParameterError
      else if decide (axis.getD 0 ≥ a.ndim) then .err .AxisOutOfBounds
      else .ok [a] := by
  unfold Arr.arraySplit; simp only [he, if_true]

/-- `split` on an array without elements: an axis outside the rank refused first, then zero parts, then `[a]`
(the divisibility of the axis length by the part count is not examined) -/
theorem split_empty (a : Arr α) (zero : α) (parts : Nat) (axis : Option Nat) (he : a.isEmpty = true) :
    a.split zero parts axis =
      if decide (axis.getD 0 ≥ a.ndim) then .err .AxisOutOfBounds
      else if parts = 0 then .err .ParameterError
      else .ok [a] := by
  unfold Arr.split; simp only [he, if_true]

/-- `split_axis` on an array without elements -/
theorem splitAxis_empty (a : Arr α) (zero : α) (axis : Nat) (he : a.isEmpty = true) :
    a.splitAxis zero axis = if axis ≥ a.ndim then .err .AxisOutOfBounds else .ok [a] := by
  unfold Arr.splitAxis
  simp only [he, Bool.true_or, if_true]

/-- `hsplit` on an array without elements (rank ≥ 1) -/
theorem hsplit_empty (a : Arr α) (zero : α) (parts : Nat) (he : a.isEmpty = true) (hnd : 1 ≤ a.ndim) :
    a.hsplit zero parts = if parts = 0 then .err .ParameterError else .ok [a] := by
  unfold Arr.hsplit
  rw [if_neg (by omega)]
  by_cases hp : parts = 0
  · rw [if_pos hp, if_pos hp]
  · rw [if_neg hp, if_neg hp]
    by_cases h1 : a.ndim = 1
    · rw [if_pos h1, split_empty a zero parts _ he]
      have : ¬ (decide (0 ≥ a.ndim) = true) := by simp; omega
      simp only [Option.getD_some, this, hp, Bool.false_eq_true, if_false]
    · rw [if_neg h1, split_empty a zero parts _ he]
      have : ¬ (decide (1 ≥ a.ndim) = true) := by simp; omega
      simp only [Option.getD_some, this, hp, Bool.false_eq_true, if_false]

/-- `vsplit` on an array without elements -/
theorem vsplit_empty (a : Arr α) (zero : α) (parts : Nat) (he : a.isEmpty = true) :
    a.vsplit zero parts =
      if a.ndim = 0 ∨ a.ndim = 1 then .err .UnsupportedDimension
      else if parts = 0 then .err .ParameterError else .ok [a] := by
  unfold Arr.vsplit
  by_cases h : a.ndim = 0 ∨ a.ndim = 1
  · rw [if_pos h, if_pos h]
  · rw [if_neg h, if_neg h]
    by_cases hp : parts = 0
    · rw [if_pos hp, if_pos hp]
    · rw [if_neg hp, if_neg hp, split_empty a zero parts _ he]
      have : ¬ (decide (0 ≥ a.ndim) = true) := by simp; omega
      simp only [Option.getD_some, this, hp, Bool.false_eq_true, if_false]

/-- `dsplit` on an array without elements -/
theorem dsplit_empty (a : Arr α) (zero : α) (parts : Nat) (he : a.isEmpty = true) :
    a.dsplit zero parts =
      if a.ndim = 0 ∨ a.ndim = 1 ∨ a.ndim = 2 then .err .UnsupportedDimension
      else if parts = 0 then .err .ParameterError else .ok [a] := by
  unfold Arr.dsplit
  by_cases h : a.ndim = 0 ∨ a.ndim = 1 ∨ a.ndim = 2
  · rw [if_pos h, if_pos h]
  · rw [if_neg h, if_neg h]
    by_cases hp : parts = 0
    · rw [if_pos hp, if_pos hp]
    · rw [if_neg hp, if_neg hp, split_empty a zero parts _ he]
      have : ¬ (decide (2 ≥ a.ndim) = true) := by simp; omega
      simp only [Option.getD_some, this, hp, Bool.false_eq_true, if_false]

/-- joining the single piece `[a]` along an axis inside the rank gives `a` back -/
theorem concatenate_singleton (a : Arr α) (zero : α) (k : Nat) (hk : k < a.ndim) :
    concatenate [a] zero (some k) = .ok a := by
  have hd : ¬ (decide (k ≥ a.ndim) = true) := by simp; omega
  have hv : validateStackShapes [a] k k = .ok () := by
    unfold validateStackShapes
    simp only [List.any_cons, List.any_nil, Bool.or_false, hd, Bool.false_eq_true, if_false, validateStackShapes.go]
  simp only [concatenate, hv, Res.bind_ok, foldAppend, List.foldl_nil]

/-- `split_axis` never panics on a well-formed array -/
theorem splitAxis_no_panic (a : Arr α) (zero : α) (k : Nat) (hwf : a.WF) : a.splitAxis zero k ≠ .panic := by
  by_cases he : a.isEmpty = true
  · rw [splitAxis_empty a zero k he]; split <;> simp
  · have hnz : 0 ∉ a.shape := fun hm => he (isEmpty_of_zero_mem a hwf hm)
    unfold Arr.splitAxis
    by_cases hk : k ≥ a.ndim
    · rw [if_pos hk]; simp
    · rw [if_neg hk]
      split
      · simp
      · have hk' : k < a.shape.length := by unfold Arr.ndim at hk; omega
        rw [idx_getD a.shape k hk', Res.bind_ok]
        have hn : 0 < a.shape.getD k 0 := getD_mem_pos _ _ hk' hnz
        obtain ⟨pieces, h1, _⟩ := arraySplit_coord a zero (a.shape.getD k 0) k hwf hnz hn (by unfold Arr.ndim; omega)
        rw [h1]; simp

/-- `stack` with an axis that is not inside the rank of some input is refused — in particular the new LAST position
`axis = rank` -/
theorem stack_axis_refused (zero : α) (k : Nat) (arrs : List (Arr α)) (h : ∃ b ∈ arrs, b.ndim ≤ k) :
    stack arrs zero (some k) = .err .AxisOutOfBounds := by
  have hany : (arrs.any fun a => decide (k ≥ a.ndim)) = true := by
    simp only [List.any_eq_true, decide_eq_true_eq]
    exact h
  unfold Arr.stack
  simp only [hany, if_true]

end ArrModel.C11
