import ArrProofs.Lemmas.C12Arr
import ArrProofs.Props.C06
/-!
# C12: quarter turns

`turn` = flip of the second axis followed by exchanging the two axes (`transpose` with `swapOrder`); `turns n` = `n`
successive turns.  Coordinate descriptions of 1, 2, 3 and 4 turns.
-/
namespace ArrModel
open Arr
variable {α : Type}

theorem Res.bind_assoc' {β γ δ : Type} (x : Res β) (f : β → Res γ) (g : γ → Res δ) :
    (x >>= f >>= g) = (x >>= fun a => f a >>= g) := by
  cases x <;> rfl

/-- the exchange of `i` and `j` on axis numbers -/
def swapIdx (i j m : Nat) : Nat := if m = i then j else if m = j then i else m

theorem swapIdx_lt (nd i j m : Nat) (hi : i < nd) (hj : j < nd) (hm : m < nd) : swapIdx i j m < nd := by
  unfold swapIdx; split; · exact hj
  split; · exact hi
  exact hm

theorem swapIdx_swapIdx (i j m : Nat) : swapIdx i j (swapIdx i j m) = m := by
  unfold swapIdx; split_ifs <;> omega

theorem permute_swap_length (nd i j : Nat) (c : List Nat) : (permute (swapOrder nd i j) c).length = nd := by
  simp [permute, swapOrder]

theorem permute_swap_getD (nd i j : Nat) (c : List Nat) (m : Nat) (hm : m < nd) :
    (permute (swapOrder nd i j) c).getD m 0 = c.getD (swapIdx i j m) 0 := by
  simp only [permute, swapOrder, List.map_map, List.getD_eq_getElem?_getD, List.getElem?_map, List.getElem?_range hm,
    Option.map_some, Option.getD_some, Function.comp, swapIdx]

theorem permute_swap_swap (nd i j : Nat) (c : List Nat) (hi : i < nd) (hj : j < nd) (hc : c.length = nd) :
    permute (swapOrder nd i j) (permute (swapOrder nd i j) c) = c := by
  apply coord_ext _ _ (by rw [permute_swap_length, hc])
  intro m hm
  rw [permute_swap_length] at hm
  rw [permute_swap_getD _ _ _ _ _ hm, permute_swap_getD _ _ _ _ _ (swapIdx_lt nd i j m hi hj hm), swapIdx_swapIdx]

theorem inRange_permute_swap (nd i j : Nat) (s c : List Nat) (hi : i < nd) (hj : j < nd) (hs : s.length = nd)
    (h : inRange s c = true) : inRange (permute (swapOrder nd i j) s) (permute (swapOrder nd i j) c) = true := by
  apply inRange_permute _ _ _ _ h
  intro x hx
  have := (C06.swapOrder_perm nd i j hi hj).mem_iff.1 hx
  simp at this; omega

/-- conjugation: exchanging, flipping the second axis, exchanging back = flipping the first axis -/
theorem swap_flip_swap (nd i j : Nat) (s c : List Nat) (hi : i < nd) (hj : j < nd) (hs : s.length = nd) (hc : c.length = nd) :
    permute (swapOrder nd i j) (flipCoord (permute (swapOrder nd i j) s) j (permute (swapOrder nd i j) c)) = flipCoord s i c := by
  apply coord_ext _ _ (by rw [permute_swap_length, flipCoord_length, hc])
  intro m hm
  rw [permute_swap_length] at hm
  have hσ := swapIdx_lt nd i j m hi hj hm
  rw [permute_swap_getD _ _ _ _ _ hm, getD_flipCoord _ _ _ _ (by rw [permute_swap_length]; exact hj),
    getD_flipCoord _ _ _ _ (by omega), permute_swap_getD _ _ _ _ _ hj, permute_swap_getD _ _ _ _ _ hj,
    permute_swap_getD _ _ _ _ _ hσ, swapIdx_swapIdx]
  have e1 : swapIdx i j j = i := by unfold swapIdx; split_ifs <;> omega
  have e2 : (swapIdx i j m = j) ↔ (m = i) := by unfold swapIdx; split_ifs <;> omega
  rw [e1]
  by_cases h : m = i
  · rw [if_pos (e2.2 h), if_pos h]
  · rw [if_neg (fun h' => h (e2.1 h')), if_neg h]

theorem pos_permute_swap (nd i j : Nat) (s : List Nat) (hi : i < nd) (hj : j < nd) (hs : s.length = nd)
    (hpos : ∀ d ∈ s, 0 < d) : ∀ d ∈ permute (swapOrder nd i j) s, 0 < d := by
  intro d hd
  have hp := permute_perm (swapOrder nd i j) s (by rw [hs]; exact C06.swapOrder_perm nd i j hi hj)
  exact hpos d (hp.mem_iff.1 hd)

namespace Arr

/-- one quarter turn in the plane of axes `(i, j)`: flip axis `j`, then exchange the two axes -/
def turn (a : Arr α) (zero : α) (i j : Nat) : Res (Arr α) :=
  a.flip (some [Int.ofNat j]) >>= fun r => r.transpose zero (some ((swapOrder a.ndim i j).map Int.ofNat))

/-- `n` successive quarter turns -/
def turns (a : Arr α) (zero : α) (i j : Nat) : Nat → Res (Arr α)
  | 0 => .ok a
  | n + 1 => turns a zero i j n >>= fun r => r.turn zero i j

end Arr

theorem turns_add (a : Arr α) (zero : α) (i j m : Nat) : ∀ n,
    a.turns zero i j (m + n) = a.turns zero i j m >>= fun r => r.turns zero i j n
  | 0 => by cases h : a.turns zero i j m <;> simp [Arr.turns]
  | n + 1 => by
    show Arr.turns a zero i j (m + n + 1) = _
    simp only [Arr.turns]
    rw [turns_add a zero i j m n, Res.bind_assoc']

/-- the single-axis flip in the form used here -/
theorem flip_nat_at (a : Arr α) (j : Nat) (hwf : a.WF) (hpos : ∀ d ∈ a.shape, 0 < d) (hj : j < a.ndim) :
    ∃ r, a.flip (some [Int.ofNat j]) = .ok r ∧ r.shape = a.shape ∧ r.WF ∧
      ∀ c, inRange a.shape c = true → r.get? c = a.get? (flipCoord a.shape j c) := by
  have e : normalizeAxis a.ndim (Int.ofNat j) = j := normalizeAxis_ofNat _ _
  obtain ⟨r, h1, h2, h3, h4⟩ := flip_list_spec a [Int.ofNat j] hwf hpos (fun x hx => by rw [List.mem_singleton] at hx; subst hx; rw [e]; exact hj)
  refine ⟨r, h1, h2, h3, ?_⟩
  intro c hc
  rw [h4 c hc]
  simp only [List.map_cons, List.map_nil, List.foldr_cons, List.foldr_nil, e]

/-- exchanging two axes, backward form -/
theorem swap_at (a : Arr α) (zero : α) (nd i j : Nat) (hnd : a.ndim = nd) (hwf : a.WF) (hi : i < nd) (hj : j < nd) :
    ∃ r, a.transpose zero (some ((swapOrder nd i j).map Int.ofNat)) = .ok r ∧
      r.shape = permute (swapOrder nd i j) a.shape ∧ r.WF ∧
      ∀ c, inRange r.shape c = true → r.get? c = a.get? (permute (swapOrder nd i j) c) := by
  subst hnd
  have hax : axesOf a.ndim (some ((swapOrder a.ndim i j).map Int.ofNat)) = swapOrder a.ndim i j := by
    simp only [axesOf, map_normalizeAxis_ofNat]
  obtain ⟨r, h1, h2, h3, h4⟩ := C06.transpose_spec a zero (some ((swapOrder a.ndim i j).map Int.ofNat)) hwf
    (by rw [hax]; exact C06.swapOrder_perm _ i j hi hj)
  rw [hax] at h2 h4
  refine ⟨r, h1, h2, h3, ?_⟩
  intro c hc
  have hcl : c.length = a.ndim := by
    have := inRange_length _ _ hc; rw [h2, permute_swap_length] at this; exact this
  rw [h2] at hc
  have hin : inRange a.shape (permute (swapOrder a.ndim i j) c) = true := by
    have := inRange_permute_swap a.ndim i j _ c hi hj (permute_swap_length _ _ _ _) hc
    rwa [permute_swap_swap a.ndim i j a.shape hi hj rfl] at this
  have := h4 _ hin
  rwa [permute_swap_swap a.ndim i j c hi hj hcl] at this

/-- **one turn in coordinates** -/
theorem turn_at (a : Arr α) (zero : α) (i j : Nat) (hwf : a.WF) (hpos : ∀ d ∈ a.shape, 0 < d)
    (hi : i < a.ndim) (hj : j < a.ndim) :
    ∃ r, a.turn zero i j = .ok r ∧ r.shape = permute (swapOrder a.ndim i j) a.shape ∧ r.WF ∧
      ∀ c, inRange r.shape c = true →
        r.get? c = a.get? (flipCoord a.shape j (permute (swapOrder a.ndim i j) c)) := by
  obtain ⟨r1, h1, h2, h3, h4⟩ := flip_nat_at a j hwf hpos hj
  have hnd1 : r1.ndim = a.ndim := by simp only [Arr.ndim, h2]
  obtain ⟨r, g1, g2, g3, g4⟩ := swap_at r1 zero a.ndim i j hnd1 h3 hi hj
  refine ⟨r, ?_, by rw [g2, h2], g3, ?_⟩
  · simp only [Arr.turn, h1, Res.bind_ok, g1]
  · intro c hc
    rw [g4 c hc]
    apply h4
    rw [g2, h2] at hc
    have := inRange_permute_swap a.ndim i j _ c hi hj (permute_swap_length _ _ _ _) hc
    rwa [permute_swap_swap a.ndim i j a.shape hi hj rfl] at this

/-- **two turns in coordinates**: both axes flipped, shape restored -/
theorem turns2_at (a : Arr α) (zero : α) (i j : Nat) (hwf : a.WF) (hpos : ∀ d ∈ a.shape, 0 < d)
    (hi : i < a.ndim) (hj : j < a.ndim) :
    ∃ r, a.turns zero i j 2 = .ok r ∧ r.shape = a.shape ∧ r.WF ∧
      ∀ c, inRange a.shape c = true → r.get? c = a.get? (flipCoord a.shape j (flipCoord a.shape i c)) := by
  obtain ⟨r1, h1, h2, h3, h4⟩ := turn_at a zero i j hwf hpos hi hj
  have hnd1 : r1.ndim = a.ndim := by simp only [Arr.ndim, h2, permute_swap_length]
  have hpos1 : ∀ d ∈ r1.shape, 0 < d := by rw [h2]; exact pos_permute_swap a.ndim i j a.shape hi hj rfl hpos
  obtain ⟨r, g1, g2, g3, g4⟩ := turn_at r1 zero i j h3 hpos1 (by omega) (by omega)
  rw [hnd1, h2] at g2 g4
  rw [permute_swap_swap a.ndim i j a.shape hi hj rfl] at g2
  refine ⟨r, ?_, g2, g3, ?_⟩
  · simp only [Arr.turns, Res.bind_ok, h1, g1]
  · intro c hc
    have hcl : c.length = a.ndim := inRange_length _ _ hc
    rw [g4 c (by rw [g2]; exact hc)]
    have hin : inRange r1.shape (flipCoord (permute (swapOrder a.ndim i j) a.shape) j (permute (swapOrder a.ndim i j) c)) = true := by
      rw [h2]
      exact inRange_flipCoord _ _ j (inRange_permute_swap a.ndim i j a.shape c hi hj rfl hc) (by rw [permute_swap_length]; exact hj)
    rw [h4 _ hin, swap_flip_swap a.ndim i j a.shape c hi hj rfl hcl]

/-- **three turns in coordinates** -/
theorem turns3_at (a : Arr α) (zero : α) (i j : Nat) (hwf : a.WF) (hpos : ∀ d ∈ a.shape, 0 < d)
    (hi : i < a.ndim) (hj : j < a.ndim) :
    ∃ r, a.turns zero i j 3 = .ok r ∧ r.shape = permute (swapOrder a.ndim i j) a.shape ∧ r.WF ∧
      ∀ c, inRange r.shape c = true →
        r.get? c = a.get? (flipCoord a.shape i (permute (swapOrder a.ndim i j) c)) := by
  obtain ⟨r2, h1, h2, h3, h4⟩ := turns2_at a zero i j hwf hpos hi hj
  have hnd2 : r2.ndim = a.ndim := by simp only [Arr.ndim, h2]
  obtain ⟨r, g1, g2, g3, g4⟩ := turn_at r2 zero i j h3 (by rw [h2]; exact hpos) (by omega) (by omega)
  rw [hnd2, h2] at g2 g4
  refine ⟨r, ?_, g2, g3, ?_⟩
  · have : a.turns zero i j 3 = a.turns zero i j 2 >>= fun r => r.turn zero i j := rfl
    rw [this, h1, Res.bind_ok, g1]
  · intro c hc
    rw [g4 c hc]
    rw [g2] at hc
    have hsc : inRange a.shape (permute (swapOrder a.ndim i j) c) = true := by
      have := inRange_permute_swap a.ndim i j _ c hi hj (permute_swap_length _ _ _ _) hc
      rwa [permute_swap_swap a.ndim i j a.shape hi hj rfl] at this
    have hl := inRange_length _ _ hsc
    have hin := inRange_flipCoord a.shape _ j hsc hj
    rw [h4 _ hin]
    rw [flipCoord_comm a.shape _ i j (by rw [hl]; exact hi) (by rw [hl]; exact hj)]
    rw [flipCoord_flipCoord a.shape _ j (inRange_flipCoord a.shape _ i hsc hi) hj]

theorem normalize_lt (nd : Nat) (x : Int) (h1 : -(nd : Int) ≤ x) (h2 : x < nd) : normalizeAxis nd x < nd := by
  by_cases h : x < 0
  · have := C06.normalize_neg nd x h1 h; omega
  · have := C06.normalize_nonneg nd x (by omega); omega

/-- the single-axis flip with an integer axis name -/
theorem flip_int_at (a : Arr α) (x : Int) (k : Nat) (hk : normalizeAxis a.ndim x = k) (hlt : k < a.ndim)
    (hwf : a.WF) (hpos : ∀ d ∈ a.shape, 0 < d) :
    ∃ r, a.flip (some [x]) = .ok r ∧ r.shape = a.shape ∧ r.WF ∧
      ∀ c, inRange a.shape c = true → r.get? c = a.get? (flipCoord a.shape k c) := by
  obtain ⟨r, h1, h2, h3, h4⟩ := flip_list_spec a [x] hwf hpos (fun y hy => by rw [List.mem_singleton] at hy; subst hy; rw [hk]; exact hlt)
  refine ⟨r, h1, h2, h3, ?_⟩
  intro c hc
  rw [h4 c hc]
  simp only [List.map_cons, List.map_nil, List.foldr_cons, List.foldr_nil, hk]

/-- every number of turns succeeds and keeps rank, well-formedness and non-emptiness -/
theorem turns_ok (a : Arr α) (zero : α) (i j : Nat) (hwf : a.WF) (hpos : ∀ d ∈ a.shape, 0 < d)
    (hi : i < a.ndim) (hj : j < a.ndim) :
    ∀ n, ∃ r, a.turns zero i j n = .ok r ∧ r.WF ∧ (∀ d ∈ r.shape, 0 < d) ∧ r.ndim = a.ndim
  | 0 => ⟨a, rfl, hwf, hpos, rfl⟩
  | n + 1 => by
    obtain ⟨r, h1, h2, h3, h4⟩ := turns_ok a zero i j hwf hpos hi hj n
    obtain ⟨r', g1, g2, g3, _⟩ := turn_at r zero i j h2 h3 (by omega) (by omega)
    refine ⟨r', by simp only [Arr.turns, h1, Res.bind_ok, g1], g3, ?_, ?_⟩
    · rw [g2]; exact pos_permute_swap r.ndim i j r.shape (by omega) (by omega) rfl h3
    · simp only [Arr.ndim, g2, permute_swap_length]; exact h4

/-- **four turns restore the array** -/
theorem turns4 (a : Arr α) (zero : α) (i j : Nat) (hwf : a.WF) (hpos : ∀ d ∈ a.shape, 0 < d)
    (hi : i < a.ndim) (hj : j < a.ndim) : a.turns zero i j 4 = .ok a := by
  obtain ⟨r2, h1, h2, h3, h4⟩ := turns2_at a zero i j hwf hpos hi hj
  have hnd2 : r2.ndim = a.ndim := by simp only [Arr.ndim, h2]
  obtain ⟨r4, g1, g2, g3, g4⟩ := turns2_at r2 zero i j h3 (by rw [h2]; exact hpos) (by omega) (by omega)
  have e : a.turns zero i j 4 = a.turns zero i j 2 >>= fun r => r.turns zero i j 2 := turns_add a zero i j 2 2
  rw [e, h1, Res.bind_ok, g1]
  congr 1
  apply Arr.ext_get r4 a g3 hwf (by rw [g2, h2])
  intro c hc
  rw [g2] at hc
  rw [g4 c hc]
  rw [h2] at hc ⊢
  have hl : c.length = a.ndim := inRange_length _ _ hc
  rw [h4 _ (inRange_flipCoord _ _ j (inRange_flipCoord _ _ i hc hi) hj)]
  rw [flipCoord_comm a.shape (flipCoord a.shape i c) i j (by rw [flipCoord_length, hl]; exact hi) (by rw [flipCoord_length, hl]; exact hj)]
  rw [flipCoord_flipCoord a.shape c i hc hi, flipCoord_flipCoord a.shape c j hc hj]

theorem turns_mod (a : Arr α) (zero : α) (i j : Nat) (hwf : a.WF) (hpos : ∀ d ∈ a.shape, 0 < d)
    (hi : i < a.ndim) (hj : j < a.ndim) (k : Nat) : a.turns zero i j k = a.turns zero i j (k % 4) := by
  have key : ∀ q r, a.turns zero i j (4 * q + r) = a.turns zero i j r := by
    intro q
    induction q with
    | zero => intro r; simp
    | succ q ih =>
      intro r
      have e : 4 * (q + 1) + r = 4 + (4 * q + r) := by omega
      rw [e, turns_add a zero i j 4 (4 * q + r), turns4 a zero i j hwf hpos hi hj, Res.bind_ok, ih r]
  have := key (k / 4) (k % 4)
  rwa [Nat.div_add_mod] at this

/-- the half turn as the code computes it: flip the second axis, then the first -/
theorem rot2_at (a : Arr α) (a0 a1 : Int) (i j : Nat) (hwf : a.WF) (hpos : ∀ d ∈ a.shape, 0 < d)
    (ei : normalizeAxis a.ndim a0 = i) (ej : normalizeAxis a.ndim a1 = j) (hi : i < a.ndim) (hj : j < a.ndim) :
    ∃ r, (a.flip (some [a1]) >>= fun r => r.flip (some [a0])) = .ok r ∧ r.shape = a.shape ∧ r.WF ∧
      ∀ c, inRange a.shape c = true → r.get? c = a.get? (flipCoord a.shape j (flipCoord a.shape i c)) := by
  obtain ⟨r1, h1, h2, h3, h4⟩ := flip_int_at a a1 j ej hj hwf hpos
  have hnd1 : r1.ndim = a.ndim := by simp only [Arr.ndim, h2]
  obtain ⟨r, g1, g2, g3, g4⟩ := flip_int_at r1 a0 i (by rw [hnd1]; exact ei) (by omega) h3 (by rw [h2]; exact hpos)
  rw [h2] at g2 g4
  refine ⟨r, by rw [h1, Res.bind_ok, g1], g2, g3, ?_⟩
  intro c hc
  rw [g4 c hc, h4 _ (inRange_flipCoord _ _ i hc hi)]

/-- the three-quarter turn as the code computes it: exchange the axes, then flip the second -/
theorem rot3_at (a : Arr α) (zero : α) (i j : Nat) (hwf : a.WF) (hpos : ∀ d ∈ a.shape, 0 < d)
    (hi : i < a.ndim) (hj : j < a.ndim) :
    ∃ r, (a.transpose zero (some ((swapOrder a.ndim i j).map Int.ofNat)) >>= fun r => r.flip (some [Int.ofNat j])) = .ok r ∧
      r.shape = permute (swapOrder a.ndim i j) a.shape ∧ r.WF ∧
      ∀ c, inRange r.shape c = true → r.get? c = a.get? (flipCoord a.shape i (permute (swapOrder a.ndim i j) c)) := by
  obtain ⟨r1, h1, h2, h3, h4⟩ := swap_at a zero a.ndim i j rfl hwf hi hj
  have hnd1 : r1.ndim = a.ndim := by simp only [Arr.ndim, h2, permute_swap_length]
  have hpos1 : ∀ d ∈ r1.shape, 0 < d := by rw [h2]; exact pos_permute_swap a.ndim i j a.shape hi hj rfl hpos
  obtain ⟨r, g1, g2, g3, g4⟩ := flip_nat_at r1 j h3 hpos1 (by omega)
  refine ⟨r, by rw [h1, Res.bind_ok, g1], by rw [g2, h2], g3, ?_⟩
  intro c hc
  rw [g2] at hc
  rw [g4 c hc, h4 _ (inRange_flipCoord _ _ j hc (by have := hnd1; simp only [Arr.ndim] at this hj; omega))]
  rw [h2] at hc ⊢
  have hcl : c.length = a.ndim := by
    have := inRange_length _ _ hc; rwa [permute_swap_length] at this
  have hscl : (permute (swapOrder a.ndim i j) c).length = a.ndim := permute_swap_length _ _ _ _
  have := swap_flip_swap a.ndim i j a.shape (permute (swapOrder a.ndim i j) c) hi hj rfl hscl
  rw [permute_swap_swap a.ndim i j c hi hj hcl] at this
  rw [this]

/-- a successful flip keeps the shape (every input) -/
theorem flip_shape (a : Arr α) (axes : Option (List Int)) (r : Arr α) (h : a.flip axes = .ok r) : r.shape = a.shape := by
  unfold Arr.flip at h
  cases axes with
  | none =>
    simp only [Arr.new] at h
    split at h
    · cases h; rfl
    · cases h
  | some l =>
    simp only at h
    split at h
    · cases h
    · generalize List.foldl _ _ _ = x at h
      cases x with
      | ok es =>
        simp only [Res.bind_ok, Arr.reshape, Arr.new] at h
        split at h
        · cases h; rfl
        · cases h
      | err e => simp only [Res.bind_err] at h; cases h
      | panic => simp only [Res.bind_panic] at h; cases h

/-- a turn is: flip the second axis, then `swapaxes` of the two axes -/
theorem turn_eq_flip_swapaxes (a : Arr α) (zero : α) (a0 a1 : Int)
    (hi : normalizeAxis a.ndim a0 < a.ndim) (hj : normalizeAxis a.ndim a1 < a.ndim) :
    a.turn zero (normalizeAxis a.ndim a0) (normalizeAxis a.ndim a1)
      = a.flip (some [a1]) >>= fun r => r.swapaxes zero a0 a1 := by
  have e : a.flip (some [Int.ofNat (normalizeAxis a.ndim a1)]) = a.flip (some [a1]) := by
    unfold Arr.flip; simp only [List.map_cons, List.map_nil, normalizeAxis_ofNat]
  unfold Arr.turn; rw [e]
  cases h : a.flip (some [a1]) with
  | ok r =>
    have hs := flip_shape a _ r h
    have hnd : r.ndim = a.ndim := by simp only [Arr.ndim, hs]
    simp only [Res.bind_ok]
    rw [C06.swapaxes_eq_transpose r zero a0 a1 (by rw [hnd]; exact hi) (by rw [hnd]; exact hj), hnd]
  | err e => rfl
  | panic => rfl

/-- `rot90` on valid axes, arm by arm -/
theorem rot90_unfold (a : Arr α) (zero : α) (k : Nat) (a0 a1 : Int) (hnd : 2 ≤ a.ndim)
    (h0 : -(a.ndim : Int) ≤ a0 ∧ a0 < a.ndim) (h1 : -(a.ndim : Int) ≤ a1 ∧ a1 < a.ndim) :
    a.rot90 zero k [a0, a1] =
      if k % 4 = 0 then .ok a
      else if k % 4 = 2 then a.flip (some [a1]) >>= fun r => r.flip (some [a0])
      else if k % 4 = 1 then a.turn zero (normalizeAxis a.ndim a0) (normalizeAxis a.ndim a1)
      else a.transpose zero (some ((swapOrder a.ndim (normalizeAxis a.ndim a0) (normalizeAxis a.ndim a1)).map Int.ofNat))
        >>= fun r => r.flip (some [Int.ofNat (normalizeAxis a.ndim a1)]) := by
  unfold Arr.rot90
  rw [if_neg (by omega)]
  simp only []
  rw [if_neg (by omega)]
  rfl

end ArrModel
