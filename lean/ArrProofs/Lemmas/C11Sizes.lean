import ArrProofs.Lemmas.C08List
import ArrModel.Joining
/-! C11: section sizes and division points of `array_split` -/
namespace ArrModel.C11
open ArrModel

theorem sum_replicate (k n : Nat) : (List.replicate k n).sum = k * n := sum_replicate' k n

theorem sectionSizes_length (n parts : Nat) (hp : 0 < parts) : (sectionSizes n parts).length = parts := by
  have := Nat.mod_lt n hp
  simp only [sectionSizes, List.length_append, List.length_replicate]; omega

theorem sectionSizes_sum (n parts : Nat) (hp : 0 < parts) : (sectionSizes n parts).sum = n := by
  have hlt := Nat.mod_lt n hp
  have hd := Nat.div_add_mod n parts
  simp only [sectionSizes, List.sum_append, sum_replicate]
  generalize n / parts = q at *
  generalize n % parts = r at *
  obtain ⟨t, rfl⟩ : ∃ t, parts = r + t := ⟨parts - r, by omega⟩
  rw [Nat.add_sub_cancel_left, Nat.mul_add, Nat.mul_one]
  rw [Nat.add_mul] at hd
  omega

theorem sectionSizes_getElem? (n parts i : Nat) (hi : i < parts) :
    (sectionSizes n parts)[i]? = some (if i < n % parts then n / parts + 1 else n / parts) := by
  unfold sectionSizes
  by_cases h : i < n % parts
  · rw [List.getElem?_append_left (by simpa using h)]
    simp [h]
  · rw [List.getElem?_append_right (by simpa using h)]
    simp only [List.length_replicate, if_neg h]
    rw [List.getElem?_replicate, if_pos (by omega)]

theorem sectionSizes_dvd (n parts : Nat) (h : n % parts = 0) :
    sectionSizes n parts = List.replicate parts (n / parts) := by
  simp [sectionSizes, h]

/-! ### division points -/

theorem divPoints_length (sizes : List Nat) : (divPoints sizes).length = sizes.length + 1 := by
  simp [divPoints]

theorem divPoints_getElem? (sizes : List Nat) (i : Nat) (hi : i ≤ sizes.length) :
    (divPoints sizes)[i]? = some (sizes.take i).sum := by
  simp only [divPoints, List.getElem?_map]
  rw [List.getElem?_range (by omega)]; rfl

theorem sum_take_succ (sizes : List Nat) (i : Nat) (hi : i < sizes.length) :
    (sizes.take (i + 1)).sum = (sizes.take i).sum + sizes[i] := by
  rw [List.take_add_one, List.getElem?_eq_getElem hi, List.sum_append]
  simp

theorem sum_take_le (sizes : List Nat) : ∀ (i j : Nat), i ≤ j → (sizes.take i).sum ≤ (sizes.take j).sum := by
  intro i j hij
  induction j with
  | zero => have : i = 0 := by omega
            subst this; exact Nat.le_refl _
  | succ j ih =>
    rcases Nat.lt_or_ge i (j + 1) with h | h
    · have h1 := ih (by omega)
      by_cases hj : j < sizes.length
      · rw [sum_take_succ sizes j hj]; omega
      · rw [List.take_of_length_le (show sizes.length ≤ j + 1 by omega)]
        rw [List.take_of_length_le (show sizes.length ≤ j by omega)] at h1
        exact h1
    · have : i = j + 1 := by omega
      subst this; exact Nat.le_refl _

theorem windows2_divPoints (sizes : List Nat) :
    windows2 (divPoints sizes) =
      (List.range sizes.length).map (fun i => ((sizes.take i).sum, (sizes.take (i + 1)).sum)) := by
  unfold divPoints
  rw [List.range_eq_range', windows2_map_range', List.range_eq_range']

end ArrModel.C11
