import ArrProofs.Lemmas.C18Shape
/-!
# Lemmas for C18 — the element texts the generic arm of `array!` extracts
-/
namespace ArrModel.C18

/-! ### the element texts of the generic arm -/

/-- separators once the brackets are gone -/
def sepF : Nat → Str
  | 0 => [',', ' ']
  | _ + 1 => [',']

theorem remove_append (c : Char) (A B : Str) : remove c (A ++ B) = remove c A ++ remove c B := by
  simp [remove]

theorem remove_rep_self (c : Char) (n : Nat) : remove c (rep c n) = [] := by
  simp [remove, rep]

theorem remove_of_not_mem {c : Char} {A : Str} (h : c ∉ A) : remove c A = A := by
  simp only [remove, List.filter_eq_self]
  intro x hx; simp only [bne_iff_ne, ne_eq]; intro e; exact h (e ▸ hx)

theorem remove_joinWith (c : Char) (sep : Str) (ys : List Str) :
    remove c (joinWith sep ys) = joinWith (remove c sep) (ys.map (remove c)) := by
  induction ys with
  | nil => rfl
  | cons y r ih =>
    cases r with
    | nil => simp
    | cons z r =>
      rw [joinWith_cons_cons, remove_append, remove_append, ih]
      rfl

def unbr (A : Str) : Str := remove ']' (remove '[' A)

theorem unbr_sepT (j : Nat) : unbr (sepT j) = sepF j := by
  cases j with
  | zero => decide
  | succ j =>
    simp only [unbr, sepT, sepF, remove_append]
    have h1 : remove '[' (rep ']' (j + 1)) = rep ']' (j + 1) := remove_of_not_mem (not_mem_rep (by decide) _)
    have h2 : remove '[' (',' :: rep '[' (j + 1)) = [','] := by
      show remove '[' ([','] ++ rep '[' (j + 1)) = _
      rw [remove_append, remove_rep_self]; decide
    rw [h1, h2, remove_rep_self]; decide

theorem unbr_mid {s : List Nat} {es : List Str} (h : Valid s es) : unbr (mid sepT s es) = mid sepF s es := by
  induction s generalizing es with
  | nil =>
    obtain ⟨e, rfl, he⟩ := h.single
    simp only [mid, List.headD_cons, unbr]
    rw [remove_of_not_mem (he.not_mem (by decide)), remove_of_not_mem (he.not_mem (by decide))]
  | cons n s ih =>
    simp only [mid, unbr] at ih ⊢
    rw [remove_joinWith, remove_joinWith, List.map_map, List.map_map]
    have := unbr_sepT s.length
    simp only [unbr] at this
    rw [this]
    congr 1
    exact List.map_congr_left (fun c hc => ih (h.chunk hc))

def commaSp : Str := [',', ' ']

theorem replace_commaSp_mid {s : List Nat} {es : List Str} (h : Valid s es) (Z : Str) :
    replace commaSp [','] (mid sepF s es ++ Z) = joinWith [','] es ++ replace commaSp [','] Z := by
  induction s generalizing es Z with
  | nil =>
    obtain ⟨e, rfl, he⟩ := h.single
    exact replace_noStart Z (he.noStart _ (by decide))
  | cons n s ih =>
    have hl := h.len
    simp only [mid]
    have key := joinWith_hom (replace commaSp [',']) (mid sepF s) (joinWith [',']) (sepF s.length) [',']
      (chunks s.prod n es) (fun c hc Z => ih (h.chunk hc) Z) (fun c hc W => ?_) Z
    · rw [key, joinWith_flatten, chunks_flatten _ _ _ (by simpa [Nat.mul_comm] using hl)]
      intro c hc
      have hv := h.chunk hc
      have hp : 1 ≤ s.prod := by
        have : ∀ (l : List Nat), (∀ d ∈ l, 1 ≤ d) → 1 ≤ l.prod := by
          intro l; induction l with
          | nil => simp
          | cons a l ihl => intro hh; simp only [List.prod_cons]; exact Nat.mul_le_mul (hh a (by simp)) (ihl (fun d hd => hh d (by simp [hd])))
        exact this s hv.pos
      intro e; have := hv.len; rw [e] at this; simp at this; omega
    · cases hj : s.length with
      | zero => exact replace_append_pat _ (by simp [commaSp])
      | succ j =>
        obtain ⟨ch, r, hcr, _, hsp⟩ := mid_head sepF (h.chunk hc)
        rw [hcr]
        show replace commaSp [','] (',' :: (ch :: r ++ W)) = _
        rw [replace_cons_of_not_prefix]
        · rfl
        · have : (' ' == ch) = false := by simpa using fun e => hsp e.symm
          simp [commaSp, List.isPrefixOf_cons_cons, this]

theorem splitChar_of_not_mem {c : Char} {e : Str} (h : c ∉ e) : splitChar c e = [e] := by
  induction e with
  | nil => rfl
  | cons x e ih =>
    simp only [List.mem_cons, not_or] at h
    simp only [splitChar, if_neg (Ne.symm h.1), ih h.2]

theorem splitChar_append_sep {c : Char} {e : Str} (X : Str) (h : c ∉ e) :
    splitChar c (e ++ c :: X) = e :: splitChar c X := by
  induction e with
  | nil => simp [splitChar]
  | cons x e ih =>
    simp only [List.mem_cons, not_or] at h
    simp only [List.cons_append, splitChar, if_neg (Ne.symm h.1), ih h.2]

theorem splitChar_joinWith (es : List Str) (hne : es ≠ []) (h : ∀ e ∈ es, ',' ∉ e) :
    splitChar ',' (joinWith [','] es) = es := by
  induction es with
  | nil => exact absurd rfl hne
  | cons e r ih =>
    cases r with
    | nil => simpa using splitChar_of_not_mem (h e (by simp))
    | cons f r =>
      rw [joinWith_cons_cons]
      simp only [List.append_assoc, List.singleton_append]
      rw [splitChar_append_sep _ (h e (by simp)), ih (by simp) (fun e he => h e (by simp [he]))]

theorem splitTerminator_joinWith (es : List Str) (hne : es ≠ []) (h : ∀ e ∈ es, ',' ∉ e ∧ e ≠ []) :
    splitTerminator ',' (joinWith [','] es) = es := by
  unfold splitTerminator
  rw [splitChar_joinWith es hne (fun e he => (h e he).1)]
  have : es.getLast? ≠ some [] := by
    intro hl
    have := List.mem_of_getLast? hl
    exact (h [] this).2 rfl
  simp [this]

end ArrModel.C18
