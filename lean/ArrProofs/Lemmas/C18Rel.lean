import ArrProofs.Lemmas.C18String
/-!
# Lemmas for C18 — relations that distribute over the nested text; `replace` around a stop character;
the cut-out loops of `array_tuple!` / `array_list!` as relations

A relation `R X X' items` ("the pass turns the segment `X` into `X'` and yields `items`") that is closed under
concatenation distributes over `joinWith` and hence over the middle text `mid` of a regular nesting (`mid_rel`).
Instances: `RepRel` (a `str::replace` pass), `CutRel` (a `while text.contains(opener)` cut-out loop run with fuel),
`MarkRel` (the marking pass of `array_list!`).
-/
namespace ArrModel.C18

/-! ### relations closed under concatenation -/

structure AppRel (R : Str → Str → List Str → Prop) : Prop where
  nil : R [] [] []
  app : ∀ {a a' b b' : Str} {i i' : List Str}, R a a' i → R b b' i' → R (a ++ b) (a' ++ b') (i ++ i')

theorem joinWith_rel {β} {R : Str → Str → List Str → Prop} (hR : AppRel R) (f g : β → Str) (h : β → List Str)
    (sep sep' : Str) :
    ∀ (ys : List β), (∀ y ∈ ys, R (f y) (g y) (h y)) → R sep sep' [] →
      R (joinWith sep (ys.map f)) (joinWith sep' (ys.map g)) ((ys.map h).flatten)
  | [], _, _ => hR.nil
  | [y], hi, _ => by simpa using hi y (by simp)
  | y :: z :: r, hi, hs => by
    have ih := joinWith_rel hR f g h sep sep' (z :: r) (fun y hy => hi y (by simp [hy])) hs
    simp only [List.map_cons, joinWith_cons_cons, List.flatten_cons] at ih ⊢
    have := hR.app (hR.app (hi y (by simp)) hs) ih
    simpa using this

/-- a pass that treats every separator `sep j ↦ sep' j` and every leaf `f b ↦ g b` (yielding `h b`) treats the whole
middle text of a regular nesting, leaves in reading order -/
theorem mid_rel {β} {R : Str → Str → List Str → Prop} (hR : AppRel R) (sep sep' : Nat → Str) (f g h : β → Str) :
    ∀ (s : List Nat) (bs : List β), (∀ d ∈ s, 1 ≤ d) → bs.length = s.prod →
      (∀ j, j < s.length → R (sep j) (sep' j) []) → (∀ b ∈ bs, R (f b) (g b) [h b]) →
      R (mid sep s (bs.map f)) (mid sep' s (bs.map g)) (bs.map h) := by
  intro s
  induction s with
  | nil =>
    intro bs _ hl _ hleaf
    match bs, hl with
    | [b], _ => simpa [mid] using hleaf b (by simp)
  | cons n s ih =>
    intro bs hpos hl hsep hleaf
    have hl' : bs.length = n * s.prod := by simpa using hl
    have hps : ∀ d ∈ s, 1 ≤ d := fun d hd => hpos d (by simp [hd])
    simp only [mid, chunks_map, List.map_map]
    have key := joinWith_rel hR (fun ch : List β => mid sep s (ch.map f)) (fun ch => mid sep' s (ch.map g))
      (fun ch => ch.map h) (sep s.length) (sep' s.length) (chunks s.prod n bs)
      (fun ch hch => ih ch hps (mem_chunks hl' hch).1 (fun j hj => hsep j (by simp; omega))
        (fun b hb => hleaf b ((mem_chunks hl' hch).2 b hb)))
      (hsep s.length (by simp))
    have hitems : ((chunks s.prod n bs).map (fun ch => ch.map h)).flatten = bs.map h := by
      rw [← chunks_map h, chunks_flatten _ _ _ (by simpa using hl')]
    rw [hitems] at key
    exact key

/-! ### `replace` -/

theorem isPrefixOf_append_right {p A : Str} (Z : Str) (h : p.isPrefixOf A = true) : p.isPrefixOf (A ++ Z) = true := by
  rw [List.isPrefixOf_iff_prefix] at h ⊢
  exact h.trans (List.prefix_append _ _)

/-- a character that does not occur in the pattern cuts the text in two independent halves -/
theorem replace_stop {p t : Str} {d : Char} (hp : p ≠ []) (hd : d ∉ p) (Z : Str) :
    ∀ (n : Nat) (A : Str), A.length ≤ n → replace p t (A ++ d :: Z) = replace p t A ++ d :: replace p t Z := by
  intro n
  induction n with
  | zero =>
    intro A hA
    have : A = [] := List.eq_nil_of_length_eq_zero (by omega)
    subst this
    have hnp : p.isPrefixOf (d :: Z) = false := by
      cases p with
      | nil => exact absurd rfl hp
      | cons x p =>
        simp only [List.mem_cons, not_or] at hd
        have : (x == d) = false := by simpa using fun e => hd.1 e.symm
        simp [List.isPrefixOf_cons_cons, this]
    simp [replace_cons_of_not_prefix hnp]
  | succ n ih =>
    intro A hA
    cases A with
    | nil => exact ih [] (by simp)
    | cons c A =>
      cases hh : p.isPrefixOf (c :: A ++ d :: Z) with
      | true =>
        have hA' : p.isPrefixOf (c :: A) = true := isPrefixOf_append_stop hd hh
        have hlen := isPrefixOf_length hA'
        have hpl : 1 ≤ p.length := by
          cases p with
          | nil => exact absurd rfl hp
          | cons _ _ => simp
        rw [replace_of_prefix hp hh, replace_of_prefix hp hA', List.drop_append_of_le_length hlen,
          ih ((c :: A).drop p.length) (by simp at hA ⊢; omega)]
        simp [List.append_assoc]
      | false =>
        have hA' : p.isPrefixOf (c :: A) = false := by
          cases h2 : p.isPrefixOf (c :: A) with
          | false => rfl
          | true => rw [isPrefixOf_append_right _ h2] at hh; cases hh
        have hh' : p.isPrefixOf (c :: (A ++ d :: Z)) = false := hh
        show replace p t (c :: (A ++ d :: Z)) = _
        rw [replace_cons_of_not_prefix hh', replace_cons_of_not_prefix hA', ih A (by simp at hA; omega)]
        rfl

/-- `replace` invents no characters -/
theorem mem_replace {p t : Str} (hp : p ≠ []) {x : Char} :
    ∀ (n : Nat) (A : Str), A.length ≤ n → x ∈ replace p t A → x ∈ A ∨ x ∈ t := by
  intro n
  induction n with
  | zero =>
    intro A hA hx
    have : A = [] := List.eq_nil_of_length_eq_zero (by omega)
    subst this; simp at hx
  | succ n ih =>
    intro A hA hx
    cases A with
    | nil => simp at hx
    | cons c A =>
      cases hh : p.isPrefixOf (c :: A) with
      | true =>
        have hpl : 1 ≤ p.length := by
          cases p with
          | nil => exact absurd rfl hp
          | cons _ _ => simp
        rw [replace_of_prefix hp hh, List.mem_append] at hx
        rcases hx with hx | hx
        · exact Or.inr hx
        · rcases ih _ (by simp at hA ⊢; omega) hx with h | h
          · exact Or.inl (List.mem_of_mem_drop h)
          · exact Or.inr h
      | false =>
        rw [replace_cons_of_not_prefix hh, List.mem_cons] at hx
        rcases hx with hx | hx
        · exact Or.inl (by simp [hx])
        · rcases ih A (by simp at hA; omega) hx with h | h
          · exact Or.inl (by simp [h])
          · exact Or.inr h

/-- a `replace` pass as a relation on segments (it yields no items) -/
def RepRel (p t : Str) (X X' : Str) (_ : List Str) : Prop := ∀ Z, replace p t (X ++ Z) = X' ++ replace p t Z

theorem repRel_appRel (p t : Str) : AppRel (RepRel p t) :=
  ⟨fun Z => rfl, fun ha hb Z => by rw [List.append_assoc, ha, hb, List.append_assoc]⟩

theorem repRel_noStart {p t A : Str} (h : NoStart p A) (i : List Str) : RepRel p t A A i :=
  fun Z => replace_noStart Z h

/-- a leaf `o b c` whose brackets `o`, `c` take no part in the pattern: the pass works on the body alone -/
theorem repRel_wrapped {p t : Str} (hp : p ≠ []) (o c : Char) (ho : p.head? ≠ some o) (hc : c ∉ p) (b : Str)
    (i : List Str) : RepRel p t (o :: (b ++ [c])) (o :: (replace p t b ++ [c])) i := by
  intro Z
  have hnp : p.isPrefixOf (o :: (b ++ [c] ++ Z)) = false := by
    cases p with
    | nil => exact absurd rfl hp
    | cons x p =>
      have : (x == o) = false := by simpa using fun e => ho (by simp [e])
      simp [List.isPrefixOf_cons_cons, this]
  show replace p t (o :: (b ++ [c] ++ Z)) = _
  rw [replace_cons_of_not_prefix hnp]
  have : b ++ [c] ++ Z = b ++ c :: Z := by simp
  rw [this, replace_stop hp hc Z b.length b (Nat.le_refl _)]
  simp

/-- a bracketed body in which `], [` does not occur never starts a `], [` match (brackets other than `]`) -/
theorem noStart_br_wrapped {o c : Char} (ho : o ≠ ']') (hc : c ∉ brSepL) {b : Str}
    (hocc : ∀ k, brSepL.isPrefixOf (b.drop k) = false) : NoStart brSepL (o :: (b ++ [c])) := by
  rw [noStart_cons]
  refine ⟨fun Z => ?_, ?_⟩
  · have : (']' == o) = false := by simpa using fun e => ho e.symm
    simp [brSepL, List.isPrefixOf_cons_cons, this]
  · refine noStart_of_ctx (fun Z k hk => ?_) (noStart_of_head_not_mem (c := ']') (p := [',', ' ', '[']) (by
      simp only [List.mem_singleton]; intro e; subst e; exact hc (by simp [brSepL])))
    cases hh : brSepL.isPrefixOf (List.drop k b ++ ([c] ++ Z))
    · rfl
    · have := isPrefixOf_append_stop (d := c) hc hh
      rw [hocc k] at this; cases this

/-! ### cut-out loops (`while text.contains(opener) { … }`) as relations

`run fuel text acc` is the loop with `fuel` iterations left; `ok A` says that the already treated part `A` of the
text holds nothing the loop looks for.  `CutRel run ok X X' items`: in any context `A · Z` with `ok A`, the loop
spends exactly `items.length` iterations on the segment `X`, leaves `X'` in its place and collects `items`. -/

def CutRel (run : Nat → Str → List Str → Res (List Str × Str)) (ok : Str → Prop) (X X' : Str) (items : List Str) :
    Prop :=
  ok X' ∧ items.length ≤ X.length ∧
    ∀ (A Z : Str) (acc : List Str) (fuel : Nat), ok A →
      run (fuel + items.length) (A ++ (X ++ Z)) acc = run fuel (A ++ (X' ++ Z)) (items.reverse ++ acc)

theorem cutRel_appRel {run : Nat → Str → List Str → Res (List Str × Str)} {ok : Str → Prop} (h0 : ok [])
    (happ : ∀ a b, ok a → ok b → ok (a ++ b)) : AppRel (CutRel run ok) := by
  refine ⟨⟨h0, by simp, fun A Z acc fuel _ => by simp⟩, ?_⟩
  rintro a a' b b' i i' ⟨oka, la, ha⟩ ⟨okb, lb, hb⟩
  refine ⟨happ _ _ oka okb, by simp; omega, fun A Z acc fuel hA => ?_⟩
  have e1 : fuel + (i ++ i').length = (fuel + i'.length) + i.length := by simp; omega
  have e2 : A ++ (a ++ b ++ Z) = A ++ (a ++ (b ++ Z)) := by simp [List.append_assoc]
  have e3 : A ++ (a' ++ (b ++ Z)) = (A ++ a') ++ (b ++ Z) := by simp [List.append_assoc]
  rw [e1, e2, ha A (b ++ Z) acc _ hA, e3, hb (A ++ a') Z _ fuel (happ _ _ hA oka)]
  simp [List.append_assoc]

theorem cutRel_gap {run : Nat → Str → List Str → Res (List Str × Str)} {ok : Str → Prop} {G : Str} (h : ok G) :
    CutRel run ok G G [] :=
  ⟨h, by simp, fun A Z acc fuel _ => by simp⟩

end ArrModel.C18
