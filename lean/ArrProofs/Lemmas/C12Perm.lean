import ArrProofs.Lemmas.C12Axis
/-!
# C12: the two list permutations (`reverse`, `rotate_right(shift mod len)`) and the coordinate maps of flip/roll
-/
namespace ArrModel
variable {α : Type}

/-! ### reverse -/

theorem reverse_permSpec : PermSpec (fun _ => List.reverse) (fun n i => n - 1 - i) where
  length := fun _ l => List.length_reverse
  get := fun _ l i hi => List.getElem?_reverse hi
  lt := fun n i h => by omega

/-! ### rotate right -/

theorem rotateRight_length {β : Type} (l : List β) (k : Nat) : (rotateRight l k).length = l.length := by
  unfold rotateRight
  split
  · rfl
  · by_cases h1 : l.length ≤ 1
    · simp only [List.rotateRight, h1, if_true]
    · simp only [List.rotateRight, h1, if_false, List.length_append, List.length_drop, List.length_take]; omega

/-- index form of `rotate_right(k mod len)`: position `i` holds the element that was `k` places to the left, cyclically -/
theorem rotateRight_get {β : Type} (l : List β) (k i : Nat) (hi : i < l.length) :
    (rotateRight l k)[i]? = l[(i + l.length - k % l.length) % l.length]? := by
  have hne : l.isEmpty = false := by cases l with | nil => simp at hi | cons _ _ => rfl
  have hm : k % l.length < l.length := Nat.mod_lt _ (by omega)
  unfold rotateRight
  rw [hne]; simp only [Bool.false_eq_true, if_false]
  by_cases hle : l.length ≤ 1
  · have h1 : l.length = 1 := by omega
    have h0 : i = 0 := by omega
    subst h0; simp [List.rotateRight, h1, Nat.mod_one]
  · simp only [List.rotateRight, hle, if_false, Nat.mod_mod]
    generalize k % l.length = m at hm
    by_cases him : i < m
    · rw [List.getElem?_append_left (by simp only [List.length_drop]; omega), List.getElem?_drop]
      rw [Nat.mod_eq_of_lt (by omega)]
      congr 1; omega
    · rw [List.getElem?_append_right (by simp only [List.length_drop]; omega)]
      simp only [List.length_drop, List.getElem?_take]
      have e : i + l.length - m = (i - m) + l.length := by omega
      rw [e, Nat.add_mod_right, Nat.mod_eq_of_lt (by omega)]
      rw [if_pos (by omega)]
      congr 1; omega

/-- the source index of `roll` by `sh` on a length `n`: `(i − sh) mod n` (Euclidean remainder) -/
def rollIdx (sh : Int) (n i : Nat) : Nat := (((i : Int) - sh) % (n : Int)).toNat

theorem rollIdx_lt (sh : Int) (n i : Nat) (h : i < n) : rollIdx sh n i < n := by
  unfold rollIdx
  have h1 := Int.emod_nonneg ((i : Int) - sh) (b := (n : Int)) (by omega)
  have h2 := Int.emod_lt_of_pos ((i : Int) - sh) (b := (n : Int)) (by omega)
  omega

theorem rollIdx_eq (sh : Int) (n i : Nat) (hi : i < n) :
    (i + n - (sh % (n : Int)).toNat % n) % n = rollIdx sh n i := by
  unfold rollIdx
  have h1 := Int.emod_nonneg sh (b := (n : Int)) (by omega)
  have h2 := Int.emod_lt_of_pos sh (b := (n : Int)) (by omega)
  rw [← Int.sub_emod_emod]
  generalize hm : (sh % (n : Int)).toNat = m
  have hmi : sh % (n : Int) = (m : Int) := by omega
  rw [hmi]
  have hmn : m < n := by omega
  rw [Nat.mod_eq_of_lt hmn]
  by_cases him : i < m
  · rw [Nat.mod_eq_of_lt (by omega)]
    have : ((i : Int) - (m : Int)) % (n : Int) = (i : Int) - m + n := by
      rw [← Int.add_emod_right]; exact Int.emod_eq_of_lt (by omega) (by omega)
    rw [this]; omega
  · have e : i + n - m = (i - m) + n := by omega
    rw [e, Nat.add_mod_right, Nat.mod_eq_of_lt (by omega)]
    have : ((i : Int) - (m : Int)) % (n : Int) = (i : Int) - m := Int.emod_eq_of_lt (by omega) (by omega)
    rw [this]; omega

theorem rollPerm_permSpec (sh : Int) : PermSpec (rollPerm sh) (rollIdx sh) where
  length := fun _ l => rotateRight_length l _
  get := fun _ l i hi => by
    unfold rollPerm
    rw [rotateRight_get l _ i hi, rollIdx_eq sh l.length i hi]
  lt := rollIdx_lt sh

theorem rollIdx_rollIdx (s t : Int) (n i : Nat) (hn : 0 < n) : rollIdx s n (rollIdx t n i) = rollIdx (s + t) n i := by
  unfold rollIdx
  have h1 := Int.emod_nonneg ((i : Int) - t) (b := (n : Int)) (by omega)
  rw [Int.toNat_of_nonneg h1, Int.emod_sub_emod]
  congr 2; omega

theorem rollIdx_zero (n i : Nat) (h : i < n) : rollIdx 0 n i = i := by
  unfold rollIdx
  rw [Int.sub_zero, Int.emod_eq_of_lt (by omega) (by omega)]; simp

/-! ### coordinate maps -/

/-- coordinate map of a flip along axis `k` -/
def flipCoord (shape : List Nat) (k : Nat) (c : List Nat) : List Nat := c.set k (shape.getD k 0 - 1 - c.getD k 0)

/-- coordinate map of a roll by `s` along axis `k`: `c[k] ↦ (c[k] − s) mod n` -/
def rollCoord (shape : List Nat) (k : Nat) (s : Int) (c : List Nat) : List Nat :=
  c.set k (rollIdx s (shape.getD k 0) (c.getD k 0))

theorem coord_ext (c c' : List Nat) (hl : c.length = c'.length) (h : ∀ m, m < c.length → c.getD m 0 = c'.getD m 0) : c = c' := by
  apply List.ext_getElem hl
  intro m h1 h2
  have := h m h1
  simpa [List.getD_eq_getElem?_getD, h1, h2] using this

theorem getD_set (c : List Nat) (k v m : Nat) (hk : k < c.length) :
    (c.set k v).getD m 0 = if m = k then v else c.getD m 0 := by
  by_cases e : m = k
  · subst e; simp [List.getD_eq_getElem?_getD, hk]
  · simp [List.getD_eq_getElem?_getD, e, List.getElem?_set_ne (Ne.symm e)]

theorem flipCoord_length (s : List Nat) (k : Nat) (c : List Nat) : (flipCoord s k c).length = c.length := by simp [flipCoord]
theorem rollCoord_length (s : List Nat) (k : Nat) (sh : Int) (c : List Nat) : (rollCoord s k sh c).length = c.length := by
  simp [rollCoord]

theorem getD_flipCoord (s : List Nat) (k : Nat) (c : List Nat) (m : Nat) (hk : k < c.length) :
    (flipCoord s k c).getD m 0 = if m = k then s.getD k 0 - 1 - c.getD k 0 else c.getD m 0 := getD_set c k _ m hk

theorem getD_rollCoord (s : List Nat) (k : Nat) (sh : Int) (c : List Nat) (m : Nat) (hk : k < c.length) :
    (rollCoord s k sh c).getD m 0 = if m = k then rollIdx sh (s.getD k 0) (c.getD k 0) else c.getD m 0 := getD_set c k _ m hk

theorem inRange_flipCoord (s c : List Nat) (k : Nat) (h : inRange s c = true) (hk : k < s.length) :
    inRange s (flipCoord s k c) = true := by
  have := inRange_getD_lt s c h k hk
  exact inRange_set s c h k _ (by omega)

theorem inRange_rollCoord (s c : List Nat) (k : Nat) (sh : Int) (h : inRange s c = true) (hk : k < s.length) :
    inRange s (rollCoord s k sh c) = true :=
  inRange_set s c h k _ (rollIdx_lt sh _ _ (inRange_getD_lt s c h k hk))

theorem flipCoord_flipCoord (s c : List Nat) (k : Nat) (h : inRange s c = true) (hk : k < s.length) :
    flipCoord s k (flipCoord s k c) = c := by
  have hl := inRange_length s c h
  have hlt := inRange_getD_lt s c h k hk
  apply coord_ext _ _ (by simp [flipCoord])
  intro m _
  have hk1 : k < (flipCoord s k c).length := by simp [flipCoord]; omega
  have hk2 : k < c.length := by omega
  by_cases e : m = k
  · subst e; simp only [getD_flipCoord _ _ _ _ hk1, getD_flipCoord _ _ _ _ hk2, if_true]; omega
  · simp only [getD_flipCoord _ _ _ _ hk1, getD_flipCoord _ _ _ _ hk2, e, if_false]

theorem flipCoord_comm (s c : List Nat) (i j : Nat) (hi : i < c.length) (hj : j < c.length) :
    flipCoord s i (flipCoord s j c) = flipCoord s j (flipCoord s i c) := by
  apply coord_ext _ _ (by simp [flipCoord])
  intro m _
  by_cases e : i = j
  · subst e; rfl
  · simp only [getD_flipCoord _ _ _ _ (show i < (flipCoord s j c).length by simp [flipCoord]; omega),
      getD_flipCoord _ _ _ _ (show j < (flipCoord s i c).length by simp [flipCoord]; omega),
      getD_flipCoord _ _ _ _ hi, getD_flipCoord _ _ _ _ hj]
    have e' : ¬ j = i := fun h => e h.symm
    by_cases h1 : m = i
    · subst h1; simp only [if_true, e, if_false]
    · by_cases h2 : m = j
      · subst h2; simp only [if_true, e', if_false]
      · simp only [h1, h2, if_false]

theorem rollCoord_rollCoord (s c : List Nat) (k : Nat) (a b : Int) (hk : k < c.length) (hpos : 0 < s.getD k 0) :
    rollCoord s k a (rollCoord s k b c) = rollCoord s k (a + b) c := by
  apply coord_ext _ _ (by simp [rollCoord])
  intro m _
  have hk1 : k < (rollCoord s k b c).length := by simp [rollCoord]; omega
  by_cases e : m = k
  · subst e; simp only [getD_rollCoord _ _ _ _ _ hk1, getD_rollCoord _ _ _ _ _ hk, if_true]
    exact rollIdx_rollIdx a b _ _ hpos
  · simp only [getD_rollCoord _ _ _ _ _ hk1, getD_rollCoord _ _ _ _ _ hk, e, if_false]

theorem rollCoord_zero (s c : List Nat) (k : Nat) (h : inRange s c = true) (hk : k < s.length) :
    rollCoord s k 0 c = c := by
  have hl := inRange_length s c h
  have hlt := inRange_getD_lt s c h k hk
  apply coord_ext _ _ (by simp [rollCoord])
  intro m _
  rw [getD_rollCoord _ _ _ _ _ (by omega)]
  split
  · subst_vars; exact rollIdx_zero _ _ hlt
  · rfl

end ArrModel
