import ArrProofs.Lemmas.C18Elems
/-!
# Lemmas for C18 — the generic arm of `array!` on the Debug text of a valid literal
-/
namespace ArrModel.C18

theorem replace_of_not_mem {p t s : Str} {c : Char} (hc : c ∈ p) (hs : c ∉ s) : replace p t s = s := by
  have : NoStartCtx p s [] := by
    intro k _
    cases hh : p.isPrefixOf (s.drop k ++ [])
    · rfl
    · rw [List.isPrefixOf_iff_prefix] at hh
      have := hh.subset hc
      simp at this
      exact absurd (List.mem_of_mem_drop this) hs
  have := replace_ctx (t := t) [] this
  simpa using this

theorem findP_rep {c : Char} (hc : c ≠ '[') (a : Nat) (W : Str) :
    findP (· != '[') (rep '[' a ++ c :: W) = some a := by
  induction a with
  | zero => simp [findP, hc]
  | succ a ih =>
    show findP (· != '[') ('[' :: (rep '[' a ++ c :: W)) = _
    simp [findP, ih]

theorem quote_not_mem_sepL (j : Nat) : '"' ∉ sepL j := by
  cases j with
  | zero => decide
  | succ j =>
    simp only [sepL, List.mem_append, List.mem_cons, not_or]
    exact ⟨not_mem_rep (by decide) _, by decide, by decide, not_mem_rep (by decide) _⟩

theorem prod_pos {l : List Nat} (h : ∀ d ∈ l, 1 ≤ d) : 1 ≤ l.prod := by
  induction l with
  | nil => simp
  | cons a l ih =>
    simp only [List.prod_cons]
    exact Nat.mul_le_mul (h a (by simp)) (ih (fun d hd => h d (by simp [hd])))

/-- the generic arm on the bracketed text of a valid literal: `a` opening brackets where `a - 1` is the rank
(`vec![lit,]`), or the one-level text `[e₁, e₂, …]` of the multi-argument form -/
theorem arrayGeneric_mid {s : List Nat} {es : List Str} (h : Valid s es) (a : Nat)
    (ha : (a = s.length + 1 ∧ 1 ≤ s.length) ∨ (a = 1 ∧ s.length = 1)) :
    arrayGeneric (rep '[' a ++ mid sepL s es ++ rep ']' a) = .ok (s, es) := by
  have hq : '"' ∉ rep '[' a ++ mid sepL s es ++ rep ']' a := by
    simp only [List.mem_append, not_or]
    refine ⟨⟨not_mem_rep (by decide) a, fun hm => ?_⟩, not_mem_rep (by decide) a⟩
    rcases mem_mid hm with ⟨j, hj⟩ | ⟨e, he, hce⟩
    · exact quote_not_mem_sepL j hj
    · exact (h.plain e he).not_mem (by decide) hce
  have h1 : replace quoteSepL quoteSepT (rep '[' a ++ mid sepL s es ++ rep ']' a) = rep '[' a ++ mid sepL s es ++ rep ']' a :=
    replace_of_not_mem (c := '"') (by decide) hq
  have hopen : NoStart brSepL (rep '[' a) :=
    noStart_of_head_not_mem (c := ']') (p := [',', ' ', '[']) (not_mem_rep (c := '[') (by decide) a)
  have h2 : replace brSepL brSepT (rep '[' a ++ mid sepL s es ++ rep ']' a) = rep '[' a ++ mid sepT s es ++ rep ']' a := by
    rw [List.append_assoc, replace_noStart _ hopen, replace_br_mid h,
      replace_of_not_mem (c := ',') (by decide) (not_mem_rep (by decide) a), List.append_assoc]
  obtain ⟨c, r, hcr, hc, _⟩ := mid_head sepT h
  have hnd : ndimOf 1 (rep '[' a ++ mid sepT s es ++ rep ']' a) = .ok s.length := by
    have hcb : c ≠ '[' := by intro e; subst e; simp [special] at hc
    unfold ndimOf
    rw [hcr, List.append_assoc, List.cons_append, findP_rep hcb]
    rcases ha with ⟨rfl, hs⟩ | ⟨rfl, hs⟩
    · have : ¬ (s.length + 1 < 1) := by omega
      have h0 : s.length + 1 - 1 = s.length := by omega
      have h1 : ¬ (s.length = 0) := by omega
      simp [this, h0, h1]
    · simp [hs]
  have hsh : parseShape s.length (rep '[' a ++ mid sepT s es ++ rep ']' a) = .ok s :=
    parseShapeLoop_mid h a a (by rcases ha with ⟨rfl, _⟩ | ⟨rfl, hs⟩ <;> omega)
  have hes : es ≠ [] := by
    intro e; have := h.len; have := prod_pos h.pos; rw [e] at *; simp at *; omega
  have hel : splitTerminator ',' (remove '"' (replace [',', ' '] [','] (remove ']' (remove '[' (rep '[' a ++ mid sepT s es ++ rep ']' a))))) = es := by
    have hu : remove ']' (remove '[' (rep '[' a ++ mid sepT s es ++ rep ']' a)) = mid sepF s es := by
      have := unbr_mid h
      simp only [unbr] at this
      rw [remove_append, remove_append, remove_append, remove_append, this, remove_rep_self,
        remove_of_not_mem (not_mem_rep (c := ']') (d := '[') (by decide) a), remove_rep_self]
      simp [remove]
    have hr := replace_commaSp_mid h []
    simp only [List.append_nil, replace_nil, commaSp] at hr
    rw [hu, hr]
    have hnq : '"' ∉ joinWith [','] es := by
      intro hm
      rcases mem_joinWith hm with hm | ⟨e, he, hce⟩
      · simp at hm
      · exact (h.plain e he).not_mem (by decide) hce
    rw [remove_of_not_mem hnq]
    exact splitTerminator_joinWith es hes (fun e he => ⟨(h.plain e he).not_mem (by decide), (h.plain e he).ne⟩)
  unfold arrayGeneric
  simp only [h1, h2, hnd, hsh, hel]

theorem mid_one_cons (sep : Nat → Str) (s : List Nat) (es : List Str) (hl : es.length = s.prod) :
    mid sep (1 :: s) es = mid sep s es := by
  simp [mid, chunks, ← hl]

theorem debugVec_eq {s : List Nat} {es : List Str} (h : Valid s es) :
    debugVec s es = rep '[' (s.length + 1) ++ mid sepL s es ++ rep ']' (s.length + 1) := by
  unfold debugVec
  rw [nest_eq_mid (1 :: s) (by intro d hd; simp at hd; rcases hd with rfl | hd; exact Nat.le_refl _; exact h.pos d hd),
    mid_one_cons _ _ _ h.len]
  rfl

end ArrModel.C18
