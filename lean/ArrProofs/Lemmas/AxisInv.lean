import Mathlib.Data.List.Nodup
import ArrProofs.Lemmas.Axis
/-! inverse permutations of coordinate vectors, array extensionality through coordinates -/
namespace ArrModel
variable {α : Type}

/-- undo `permute axes`: position `k` of the original vector sits at position `idxOf k axes` of the permuted one -/
def unpermute (axes c' : List Nat) : List Nat := (List.range axes.length).map (fun k => c'.getD (axes.idxOf k) 0)

/-- inverse permutation as an axis list -/
def invAxes (axes : List Nat) : List Nat := (List.range axes.length).map (fun k => axes.idxOf k)

theorem unpermute_eq_permute_inv (axes c' : List Nat) : unpermute axes c' = permute (invAxes axes) c' := by
  simp [unpermute, permute, invAxes]

theorem idxOf_getElem_nodup (l : List Nat) (h : l.Nodup) (j : Nat) (hj : j < l.length) : l.idxOf l[j] = j :=
  List.Nodup.idxOf_getElem h j hj

theorem getD_permute (axes c : List Nat) (j : Nat) (hj : j < axes.length) :
    (permute axes c).getD j 0 = c.getD axes[j] 0 := by
  simp [permute, List.getD_eq_getElem?_getD, hj]

theorem permute_unpermute (axes c' : List Nat) (n : Nat) (h : axes.Perm (List.range n)) (hc : c'.length = n) :
    permute axes (unpermute axes c') = c' := by
  have hl : axes.length = n := by simpa using h.length_eq
  have hn : axes.Nodup := h.symm.nodup List.nodup_range
  apply List.ext_getElem
  · simp [permute, hl, hc]
  · intro j h1 h2
    simp only [permute, List.length_map] at h1
    have hb : axes[j] < axes.length := by
      have := h.mem_iff.1 (List.getElem_mem h1); simp at this; omega
    simp only [permute, unpermute, List.getElem_map, List.getD_eq_getElem?_getD, List.getElem?_map,
      List.getElem?_range hb, Option.map_some, Option.getD_some, idxOf_getElem_nodup axes hn j h1]
    simp [h2]

theorem unpermute_permute (axes c : List Nat) (n : Nat) (h : axes.Perm (List.range n)) (hc : c.length = n) :
    unpermute axes (permute axes c) = c := by
  have hl : axes.length = n := by simpa using h.length_eq
  apply permute_inj axes _ _ n h (by simp [unpermute, hl]) hc
  rw [permute_unpermute axes _ n h (by simp [permute, hl])]

theorem inRange_unpermute (axes s c' : List Nat) (h : axes.Perm (List.range s.length))
    (hc : inRange (permute axes s) c' = true) : inRange s (unpermute axes c') = true := by
  have hl : axes.length = s.length := by simpa using h.length_eq
  have hn : axes.Nodup := h.symm.nodup List.nodup_range
  rw [inRange_iff] at hc ⊢
  obtain ⟨hlen, hk⟩ := hc
  simp only [permute, List.length_map] at hlen hk
  refine ⟨by simp [unpermute, hl], ?_⟩
  intro k hk'
  have hmem : k ∈ axes := h.mem_iff.2 (by simpa using hk')
  have hidx : axes.idxOf k < axes.length := List.idxOf_lt_length_of_mem hmem
  have := hk (axes.idxOf k) hidx
  have e : axes[axes.idxOf k] = k := List.getElem_idxOf hidx
  simp only [List.getD_eq_getElem?_getD, List.getElem?_map, List.getElem?_eq_getElem hidx, Option.map_some, Option.getD_some, e] at this
  simp only [unpermute, List.getD_eq_getElem?_getD, List.getElem?_map, List.getElem?_range (by omega : k < axes.length), Option.map_some, Option.getD_some]
  exact this

theorem invAxes_perm (axes : List Nat) (n : Nat) (h : axes.Perm (List.range n)) : (invAxes axes).Perm (List.range n) := by
  have hl : axes.length = n := by simpa using h.length_eq
  have hn : axes.Nodup := h.symm.nodup List.nodup_range
  have hlen : (invAxes axes).length = n := by simp [invAxes, hl]
  have hb : ∀ x ∈ invAxes axes, x < n := by
    intro x hx
    simp only [invAxes, List.mem_map, List.mem_range] at hx
    obtain ⟨k, hk, rfl⟩ := hx
    have : k ∈ axes := h.mem_iff.2 (by simpa using (by omega : k < n))
    have := List.idxOf_lt_length_of_mem this; omega
  have hnd : (invAxes axes).Nodup := by
    unfold invAxes
    refine List.Nodup.map_on ?_ List.nodup_range
    intro x hx y hy hxy
    simp only [List.mem_range] at hx hy
    have hxm : x ∈ axes := h.mem_iff.2 (by simpa using (by omega : x < n))
    have hym : y ∈ axes := h.mem_iff.2 (by simpa using (by omega : y < n))
    have e1 : axes[axes.idxOf x]'(List.idxOf_lt_length_of_mem hxm) = x := List.getElem_idxOf _
    have e2 : axes[axes.idxOf y]'(List.idxOf_lt_length_of_mem hym) = y := List.getElem_idxOf _
    rw [← e1, ← e2]; simp [hxy]
  have hs : invAxes axes ⊆ List.range n := fun x hx => by simpa using hb x hx
  exact (List.subperm_of_subset hnd hs).perm_of_length_le (by simp [hlen])

/-- coordinates determine a well-formed array -/
theorem Arr.ext_get (a b : Arr α) (ha : a.WF) (hb : b.WF) (hs : a.shape = b.shape)
    (h : ∀ c, inRange a.shape c = true → a.get? c = b.get? c) : a = b := by
  cases a with | mk ae as =>
  cases b with | mk be bs =>
  simp only [Arr.WF] at ha hb
  simp only at hs; subst hs
  congr 1
  apply List.ext_getElem?
  intro i
  by_cases hi : i < as.prod
  · have ⟨h1, h2⟩ := ravel_unravel as i hi
    have := h (unravel as i) h2
    simpa [Arr.get?, h1] using this
  · have h1 : ae.length ≤ i := by omega
    have h2 : be.length ≤ i := by omega
    simp [h1, h2]

end ArrModel
