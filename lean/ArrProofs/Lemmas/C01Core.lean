import ArrProofs.Lemmas.C01Basic
import ArrModel.AlongAxis
import ArrModel.Broadcast
/-!
# Lemmas.C01Core — well-formedness of the results of the axis permutations, `broadcast_to` and `apply_along_axis`
(the operations most other operations are built from).  None of them needs a well-formed input: every `ok` result
has passed `Array::new`.
-/
namespace ArrModel.C01
open ArrModel

variable {α β : Type}

theorem transpose_wf (a : Arr α) (zero : α) (axes : Option (List Int)) {r : Arr α}
    (h : a.transpose zero axes = .ok r) : r.WF := by
  unfold Arr.transpose at h
  obtain ⟨_, _, h⟩ := bind_ok_inv h
  exact new_ok_wf h

theorem moveaxis_wf (a : Arr α) (zero : α) (src dst : List Int) {r : Arr α}
    (h : a.moveaxis zero src dst = .ok r) : r.WF := by
  unfold Arr.moveaxis at h
  dsimp only at h
  repeat' split at h
  all_goals first | cases h | exact transpose_wf _ _ _ h

theorem rollaxis_wf (a : Arr α) (zero : α) (axis : Int) (start : Option Int) {r : Arr α}
    (h : a.rollaxis zero axis start = .ok r) : r.WF := by
  unfold Arr.rollaxis at h
  dsimp only at h
  repeat' split at h
  all_goals first | cases h | exact transpose_wf _ _ _ h

theorem swapaxes_wf (a : Arr α) (zero : α) (ax1 ax2 : Int) {r : Arr α}
    (h : a.swapaxes zero ax1 ax2 = .ok r) : r.WF := by
  unfold Arr.swapaxes at h
  dsimp only at h
  repeat' split at h
  all_goals first | cases h | exact transpose_wf _ _ _ h

theorem broadcastTo_wf (a : Arr α) (shape : List Nat) {r : Arr α} (h : a.broadcastTo shape = .ok r) : r.WF := by
  unfold Arr.broadcastTo at h
  repeat' (first | split at h | (dsimp only at h; split at h))
  all_goals first
    | cases h
    | exact reshape_wf h
    | (obtain ⟨_, _, h⟩ := bind_ok_inv h; exact new_ok_wf h)

theorem applyAlongAxis_wf (a : Arr α) (zero : α) (zb : β) (axis : Nat) (f : Arr α → Res (Arr β)) {r : Arr β}
    (h : a.applyAlongAxis zero zb axis f = .ok r) : r.WF := by
  unfold Arr.applyAlongAxis at h
  split at h
  · cases h
  · obtain ⟨_, _, h⟩ := bind_ok_inv h
    obtain ⟨_, _, h⟩ := bind_ok_inv h
    obtain ⟨_, _, h⟩ := bind_ok_inv h
    obtain ⟨_, _, h⟩ := bind_ok_inv h
    obtain ⟨_, _, h⟩ := bind_ok_inv h
    split at h
    · exact rollaxis_wf _ _ _ _ h
    · exact moveaxis_wf _ _ _ _ h

end ArrModel.C01
