import ArrProofs.Lemmas.C18Generic
/-!
# Lemmas for C18 — the cut-out loop of `array_char!` / `array_string!`

`cutQuoted` (find the opening quote, find the closing quote, push the piece, `replace_range` it by `_`, repeat) is one
left-to-right pass `scanQ`; the pass distributes over the nested text.
-/
namespace ArrModel.C18

/-! ### the cut-out loop of `array_char!` / `array_string!` as one left-to-right pass -/

/-- one pass: `none` = outside a quoted piece, `some cur` = inside (content so far, reversed).
Returns the contents in order and the text with every piece replaced by `_`. -/
def scanQ (q : Char) : Option Str → Str → List Str × Str
  | none, [] => ([], [])
  | none, x :: t =>
    if x = q then scanQ q (some []) t else ((scanQ q none t).1, x :: (scanQ q none t).2)
  | some _, [] => ([], [])
  | some cur, x :: t =>
    if x = q then (cur.reverse :: (scanQ q none t).1, '_' :: (scanQ q none t).2) else scanQ q (some (x :: cur)) t

theorem scanQ_gap {q : Char} {g : Str} (Z : Str) (h : q ∉ g) :
    scanQ q none (g ++ Z) = ((scanQ q none Z).1, g ++ (scanQ q none Z).2) := by
  induction g with
  | nil => simp
  | cons x g ih =>
    simp only [List.mem_cons, not_or] at h
    simp [scanQ, Ne.symm h.1, ih h.2]

theorem scanQ_inside {q : Char} {c : Str} (cur Z : Str) (h : q ∉ c) :
    scanQ q (some cur) (c ++ q :: Z) = ((cur.reverse ++ c) :: (scanQ q none Z).1, '_' :: (scanQ q none Z).2) := by
  induction c generalizing cur with
  | nil => simp [scanQ]
  | cons x c ih =>
    simp only [List.mem_cons, not_or] at h
    simp [scanQ, Ne.symm h.1, ih (x :: cur) h.2]

theorem scanQ_piece {q : Char} {g c : Str} (Z : Str) (hg : q ∉ g) (hc : q ∉ c) :
    scanQ q none (g ++ q :: (c ++ q :: Z)) = (c :: (scanQ q none Z).1, g ++ '_' :: (scanQ q none Z).2) := by
  rw [scanQ_gap _ hg]
  have : scanQ q none (q :: (c ++ q :: Z)) = scanQ q (some []) (c ++ q :: Z) := by simp [scanQ]
  rw [this, scanQ_inside [] Z hc]
  simp

theorem find_char_none {q : Char} {s : Str} (h : q ∉ s) : find [q] s = none := by
  induction s with
  | nil => simp [find]
  | cons x s ih =>
    simp only [List.mem_cons, not_or] at h
    have : (q == x) = false := by simpa using h.1
    simp [find, List.isPrefixOf_cons_cons, this, ih h.2]

theorem find_char_first {q : Char} {g : Str} (Z : Str) (h : q ∉ g) : find [q] (g ++ q :: Z) = some g.length := by
  have := find_noStart_pat (p := [q]) Z (noStart_of_head_not_mem (p := []) h)
  simpa using this

theorem split_first {q : Char} {s : Str} (h : q ∈ s) : ∃ g t, s = g ++ q :: t ∧ q ∉ g := by
  induction s with
  | nil => simp at h
  | cons x s ih =>
    by_cases hx : x = q
    · exact ⟨[], s, by simp [hx], by simp⟩
    · have : q ∈ s := by simpa [Ne.symm hx] using h
      obtain ⟨g, t, rfl, hg⟩ := ih this
      exact ⟨x :: g, t, rfl, by simp [Ne.symm hx, hg]⟩

theorem slice_mid (P c S : Str) : slice (P ++ c ++ S) P.length (P.length + c.length) = .ok c := by
  unfold slice
  rw [if_pos (by simp)]
  simp [List.append_assoc]

theorem replaceRange_mid (P c S w : Str) :
    replaceRange (P ++ c ++ S) P.length (P.length + c.length) w = .ok (P ++ w ++ S) := by
  unfold replaceRange
  rw [if_pos (by simp)]
  congr 1
  have h1 : (P ++ c ++ S).take P.length = P := by simp [List.append_assoc]
  have h2 : (P ++ c ++ S).drop (P.length + c.length) = S := by
    rw [← List.length_append, List.drop_left']; rfl
  rw [h1, h2]


theorem slice_mid' (X P c S : Str) (a b : Nat) (hX : X = P ++ c ++ S) (ha : a = P.length) (hb : b = P.length + c.length) :
    slice X a b = .ok c := by subst hX ha hb; exact slice_mid P c S

theorem replaceRange_mid' (X P c S w : Str) (a b : Nat) (hX : X = P ++ c ++ S) (ha : a = P.length)
    (hb : b = P.length + c.length) : replaceRange X a b w = .ok (P ++ w ++ S) := by
  subst hX ha hb; exact replaceRange_mid P c S w

theorem drop_mid' (X P S : Str) (a : Nat) (hX : X = P ++ S) (ha : a = P.length) : X.drop a = S := by
  subst hX ha; exact List.drop_left' rfl

theorem remove_snoc_self {q : Char} {c : Str} (h : q ∉ c) : remove q (c ++ [q]) = c := by
  rw [remove_append, remove_of_not_mem h]; simp [remove]

theorem cutQuoted_scan (q : Char) (isString : Bool) (hq : q ≠ '_') (hs : isString = true → q = '"') :
    ∀ (fuel : Nat) (A R : Str) (acc : List Str), q ∉ A → R.count q % 2 = 0 → R.count q / 2 < fuel →
      cutQuoted q isString fuel (A ++ R) acc = .ok (acc.reverse ++ (scanQ q none R).1, A ++ (scanQ q none R).2) := by
  intro fuel
  induction fuel with
  | zero => intro A R acc _ _ h; omega
  | succ fuel ih =>
    intro A R acc hA hev hfuel
    by_cases hqR : q ∈ R
    · obtain ⟨g, R1, rfl, hg⟩ := split_first hqR
      have hc1 : (g ++ q :: R1).count q = R1.count q + 1 := by
        rw [List.count_append, List.count_eq_zero_of_not_mem hg, List.count_cons_self]; omega
      have hqR1 : q ∈ R1 := by
        rw [← List.count_pos_iff]; omega
      obtain ⟨c, R2, rfl, hc⟩ := split_first hqR1
      have hc2 : (c ++ q :: R2).count q = R2.count q + 1 := by
        rw [List.count_append, List.count_eq_zero_of_not_mem hc, List.count_cons_self]; omega
      have hP : q ∉ A ++ g := by simp [hA, hg]
      -- the text in the shapes the primitives want
      have hX0 : A ++ (g ++ q :: (c ++ q :: R2)) = (A ++ g) ++ q :: (c ++ q :: R2) := by simp [List.append_assoc]
      have hfind : find [q] (A ++ (g ++ q :: (c ++ q :: R2))) = some (A ++ g).length := by
        rw [hX0]; exact find_char_first _ hP
      have hdrop : (A ++ (g ++ q :: (c ++ q :: R2))).drop ((A ++ g).length + 1) = c ++ q :: R2 :=
        drop_mid' _ ((A ++ g) ++ [q]) _ _ (by simp [List.append_assoc]) (by simp; omega)
      have hfind2 : find [q] (c ++ q :: R2) = some c.length := find_char_first _ hc
      have hpiece : (if isString then (slice (A ++ (g ++ q :: (c ++ q :: R2))) ((A ++ g).length + 1) ((A ++ g).length + c.length + 2)).map (remove '"')
          else slice (A ++ (g ++ q :: (c ++ q :: R2))) ((A ++ g).length + 1) ((A ++ g).length + c.length + 1)) = .ok c := by
        cases hi : isString with
        | false =>
          simp only [Bool.false_eq_true, if_false]
          exact slice_mid' _ ((A ++ g) ++ [q]) c (q :: R2) _ _ (by simp [List.append_assoc]) (by simp; omega) (by simp; omega)
        | true =>
          have hq' := hs hi
          simp only [if_true]
          rw [slice_mid' _ ((A ++ g) ++ [q]) (c ++ [q]) R2 _ _ (by simp [List.append_assoc]) (by simp; omega) (by simp; omega)]
          simp only [Res.map]
          rw [← hq', remove_snoc_self hc]
      have hrange : replaceRange (A ++ (g ++ q :: (c ++ q :: R2))) (A ++ g).length ((A ++ g).length + c.length + 2) ['_']
          = .ok ((A ++ g ++ ['_']) ++ R2) :=
        replaceRange_mid' _ (A ++ g) (q :: (c ++ [q])) R2 ['_'] _ _ (by simp [List.append_assoc]) rfl (by simp; omega)
      have hA' : q ∉ A ++ g ++ ['_'] := by
        simp only [List.mem_append, List.mem_singleton, not_or]
        exact ⟨⟨hA, hg⟩, hq⟩
      have hrec := ih (A ++ g ++ ['_']) R2 (c :: acc) hA' (by omega) (by omega)
      rw [cutQuoted, hfind]
      simp only [hdrop, hfind2, hpiece, hrange, hrec]
      rw [scanQ_piece _ hg hc]
      simp [List.append_assoc]
    · have hfind : find [q] (A ++ R) = none := find_char_none (by simp [hA, hqR])
      rw [cutQuoted, hfind]
      have := scanQ_gap (q := q) [] hqR
      simp only [List.append_nil] at this
      simp [this, scanQ]

end ArrModel.C18
