import ArrProofs.Lemmas.C15LU
/-!
# Lemmas for C15, part 3: triangular substitutions, pivots, and `A · solve A b = b`
-/
namespace ArrModel.C15
open ArrModel

/-! ### rows -/

theorem vget_replicate (k c : Nat) : vget (List.replicate k (0 : Rat)) c = 0 := by
  unfold vget
  by_cases h : c < k <;> simp [List.getD_eq_getElem?_getD, h]

theorem sumTo_one (f : Nat → Rat) : sumTo 1 f = f 0 := by simp [sumTo]

theorem vget_dotRows (coef : List Rat) (rows : Mat) (k c : Nat) (hc : c < k) :
    vget (dotRows coef rows k) c = sumTo coef.length (fun t => vget coef t * entry rows t c) := by
  unfold dotRows
  by_cases h0 : coef.length = 0
  · rw [if_pos h0, h0, vget_replicate]; rfl
  · rw [if_neg h0]
    by_cases h1 : coef.length = 1
    · rw [if_pos h1, h1, vget_map_range, if_pos hc, sumTo_one]
    · rw [if_neg h1, vget_map_range, if_pos hc]

theorem vget_subRow (k : Nat) (a b : List Rat) (c : Nat) (hc : c < k) :
    vget (subRow k a b) c = vget a c - vget b c := by
  unfold subRow; rw [vget_map_range, if_pos hc]

theorem subRow_length (k : Nat) (a b : List Rat) : (subRow k a b).length = k := by simp [subRow]

theorem vget_take (l : List Rat) (m t : Nat) (ht : t < m) : vget (l.take m) t = vget l t := by
  simp [vget, List.getD_eq_getElem?_getD, ht]

theorem vget_drop (l : List Rat) (m t : Nat) : vget (l.drop m) t = vget l (m + t) := by
  simp [vget, List.getD_eq_getElem?_getD, List.getElem?_drop]

theorem vget_map_div (l : List Rat) (d : Rat) (c : Nat) (hc : c < l.length) :
    vget (l.map (· / d)) c = vget l c / d := by
  simp [vget, List.getD_eq_getElem?_getD, hc]

theorem entry_append_lt (xs : Mat) (r : List Rat) (i c : Nat) (hi : i < xs.length) :
    entry (xs ++ [r]) i c = entry xs i c := by
  simp [entry, List.getD_eq_getElem?_getD, List.getElem?_append_left hi]

theorem entry_append_eq (xs : Mat) (r : List Rat) (c : Nat) :
    entry (xs ++ [r]) xs.length c = vget r c := by
  simp [entry, vget, List.getD_eq_getElem?_getD]

theorem entry_cons_zero (r : List Rat) (xs : Mat) (c : Nat) : entry (r :: xs) 0 c = vget r c := by
  simp [entry, vget]

theorem entry_cons_succ (r : List Rat) (xs : Mat) (i c : Nat) : entry (r :: xs) (i + 1) c = entry xs i c := by
  simp [entry]

/-! ### forward substitution -/

/-- the first `m` rows of the forward substitution -/
def fwd (k : Nat) (l pb : Mat) (m : Nat) : Mat :=
  (List.range m).foldl (fun ys i =>
    ys ++ [subRow k (pb.getD i []) (dotRows ((l.getD i []).take i) ys k)]) []

theorem forwardSubst_eq (n k : Nat) (l pb : Mat) : forwardSubst n k l pb = fwd k l pb n := rfl

theorem fwd_succ (k : Nat) (l pb : Mat) (m : Nat) :
    fwd k l pb (m + 1) = fwd k l pb m ++
      [subRow k (pb.getD m []) (dotRows ((l.getD m []).take m) (fwd k l pb m) k)] := by
  unfold fwd; rw [List.range_succ, List.foldl_append]; rfl

theorem fwd_length (k : Nat) (l pb : Mat) (m : Nat) : (fwd k l pb m).length = m := by
  induction m with
  | zero => rfl
  | succ m ih => rw [fwd_succ, List.length_append, ih]; rfl

theorem fwd_stable (k : Nat) (l pb : Mat) (i c : Nat) : ∀ m, i < m →
    entry (fwd k l pb m) i c = entry (fwd k l pb (i + 1)) i c
  | 0, h => by omega
  | m + 1, h => by
    rcases Nat.lt_or_ge i m with h' | h'
    · rw [fwd_succ, entry_append_lt _ _ _ _ (by rw [fwd_length]; exact h')]
      exact fwd_stable k l pb i c m h'
    · have : i = m := by omega
      subst this; rfl

theorem fwd_spec (k : Nat) (l pb : Mat) (m : Nat)
    (hl : ∀ i, i < m → i ≤ (l.getD i []).length) :
    ∀ i c, i < m → c < k →
      entry (fwd k l pb m) i c = entry pb i c - sumTo i (fun t => entry l i t * entry (fwd k l pb m) t c) := by
  intro i c hi hc
  have hsum : sumTo i (fun t => entry l i t * entry (fwd k l pb m) t c)
      = sumTo i (fun t => entry l i t * entry (fwd k l pb i) t c) := by
    apply sumTo_congr; intro t ht
    rw [fwd_stable k l pb t c m (by omega)]
    rcases Nat.lt_or_ge (t + 1) i with h | h
    · rw [fwd_stable k l pb t c i (by omega)]
    · have : t + 1 = i := by omega
      rw [this]
  rw [hsum, fwd_stable k l pb i c m hi, fwd_succ]
  have e := entry_append_eq (fwd k l pb i)
    (subRow k (pb.getD i []) (dotRows ((l.getD i []).take i) (fwd k l pb i) k)) c
  rw [fwd_length] at e
  rw [e, vget_subRow _ _ _ _ hc, vget_dotRows _ _ _ _ hc]
  have hlen : ((l.getD i []).take i).length = i := by
    rw [List.length_take]; exact Nat.min_eq_left (hl i hi)
  rw [hlen]
  congr 1
  apply sumTo_congr; intro t ht
  rw [vget_take _ _ _ ht]; rfl

/-! ### back substitution -/

/-- the rows `s, s+1, …, s+len-1` of the back substitution (computed last row first) -/
def bwd (k : Nat) (u y : Mat) (s len : Nat) : Mat :=
  (List.range' s len).foldr (fun i xs =>
    ((subRow k (y.getD i []) (dotRows ((u.getD i []).drop (i + 1)) xs k)).map (· / entry u i i)) :: xs) []

theorem backSubst_eq (n k : Nat) (u y : Mat) : backSubst n k u y = bwd k u y 0 n := by
  unfold backSubst bwd; rw [List.range_eq_range']

theorem bwd_succ (k : Nat) (u y : Mat) (s len : Nat) :
    bwd k u y s (len + 1) =
      ((subRow k (y.getD s []) (dotRows ((u.getD s []).drop (s + 1)) (bwd k u y (s + 1) len) k)).map
        (· / entry u s s)) :: bwd k u y (s + 1) len := by
  unfold bwd; rw [List.range'_succ, List.foldr_cons]

theorem bwd_spec (n k : Nat) (u y : Mat) (hu : ∀ i, i < n → (u.getD i []).length = n) :
    ∀ len s, s + len = n → ∀ t c, t < len → c < k →
      entry (bwd k u y s len) t c =
        (entry y (s + t) c - sumTo (n - (s + t) - 1)
          (fun r => entry u (s + t) (s + t + 1 + r) * entry (bwd k u y s len) (t + 1 + r) c)) / entry u (s + t) (s + t)
  | 0, s, _, t, c, ht, _ => by omega
  | len + 1, s, hs, t, c, ht, hc => by
    rw [bwd_succ]
    cases t with
    | zero =>
      rw [entry_cons_zero, vget_map_div _ _ _ (by rw [subRow_length]; exact hc), vget_subRow _ _ _ _ hc,
        vget_dotRows _ _ _ _ hc]
      have hlen : ((u.getD s []).drop (s + 1)).length = n - (s + 0) - 1 := by
        rw [List.length_drop, hu s (by omega)]; omega
      rw [hlen]
      simp only [Nat.add_zero]
      congr 2
      apply sumTo_congr; intro r hr
      rw [vget_drop, show 0 + 1 + r = r + 1 by omega, entry_cons_succ]; rfl
    | succ t =>
      rw [entry_cons_succ, bwd_spec n k u y hu len (s + 1) (by omega) t c (by omega) hc]
      have e : s + 1 + t = s + (t + 1) := by omega
      rw [e]
      congr 2
      apply sumTo_congr; intro r hr
      rw [show t + 1 + 1 + r = (t + 1 + r) + 1 by omega, entry_cons_succ]

theorem backSubst_spec (n k : Nat) (u y : Mat) (hu : ∀ i, i < n → (u.getD i []).length = n) :
    ∀ i c, i < n → c < k →
      entry (backSubst n k u y) i c =
        (entry y i c - sumTo (n - i - 1)
          (fun r => entry u i (i + 1 + r) * entry (backSubst n k u y) (i + 1 + r) c)) / entry u i i := by
  intro i c hi hc
  have := bwd_spec n k u y hu n 0 (by omega) i c hi hc
  simp only [Nat.zero_add] at this
  rw [backSubst_eq]; exact this

/-! ### splitting a sum at an index -/

theorem sum_split (n i : Nat) (hi : i < n) (g : Nat → Rat) :
    ∑ t ∈ Finset.range n, g t =
      ∑ t ∈ Finset.range i, g t + g i + ∑ r ∈ Finset.range (n - i - 1), g (i + 1 + r) := by
  rw [← Finset.sum_range_add_sum_Ico g (show i + 1 ≤ n by omega), Finset.sum_range_succ,
    Finset.sum_Ico_eq_sum_range, show n - (i + 1) = n - i - 1 by omega]

/-- an upper-triangular row applied to the back-substituted unknowns gives back the right-hand side -/
theorem upper_row_apply (n k : Nat) (u y : Mat) (hu : ∀ i, i < n → (u.getD i []).length = n)
    (htri : ∀ i c, i < n → c < n → c < i → entry u i c = 0)
    (hpiv : ∀ i, i < n → entry u i i ≠ 0) :
    ∀ i c, i < n → c < k →
      sumTo n (fun t => entry u i t * entry (backSubst n k u y) t c) = entry y i c := by
  intro i c hi hc
  rw [sumTo_eq_sum, sum_split n i hi]
  have h0 : ∑ t ∈ Finset.range i, entry u i t * entry (backSubst n k u y) t c = 0 := by
    apply Finset.sum_eq_zero; intro t ht
    have := Finset.mem_range.1 ht
    rw [htri i t hi (by omega) this]; ring
  rw [h0, backSubst_spec n k u y hu i c hi hc, sumTo_eq_sum]
  have := hpiv i hi
  field_simp
  ring

/-! ### the factorisation as matrices: pivots and the determinant -/

/-- the unit lower-triangular factor read off the strictly lower part of the model's `L` -/
def lowerM (n : Nat) (l : Mat) : Matrix (Fin n) (Fin n) ℚ :=
  fun i t => if (t : Nat) < i then entry l i t else if t = i then 1 else 0

theorem factor_matrix {n : Nat} {a : Mat} {s : LU} {cnt : Nat} (h : Inv n a n s cnt)
    (σ : Equiv.Perm (Fin n)) (hσ : ∀ i : Fin n, s.perm.getD i 0 = (σ i : Nat)) :
    (toM n a).submatrix σ id = lowerM n s.l * toM n s.u := by
  funext i c
  rw [Matrix.submatrix_apply, Matrix.mul_apply]
  show entry a (σ i) c = _
  rw [← hσ i, h.fact i c i.2 c.2, Nat.min_eq_left (le_of_lt i.2), sumTo_eq_sum]
  have e : ∑ t : Fin n, lowerM n s.l i t * toM n s.u t c
      = ∑ t ∈ Finset.range n, (if t < (i : Nat) then entry s.l i t else if t = (i : Nat) then 1 else 0) * entry s.u t c := by
    rw [← Fin.sum_univ_eq_sum_range (fun t => (if t < (i : Nat) then entry s.l i t else if t = (i : Nat) then 1 else 0)
      * entry s.u t c) n]
    refine Finset.sum_congr rfl fun t _ => ?_
    simp only [lowerM, toM, Fin.ext_iff]
  rw [e, sum_split n i i.2]
  have h1 : ∑ t ∈ Finset.range (i : Nat), (if t < (i : Nat) then entry s.l i t else if t = (i : Nat) then 1 else 0) * entry s.u t c
      = ∑ t ∈ Finset.range (i : Nat), entry s.l i t * entry s.u t c := by
    refine Finset.sum_congr rfl fun t ht => ?_
    rw [if_pos (Finset.mem_range.1 ht)]
  have h2 : ∑ r ∈ Finset.range (n - i - 1), (if (i : Nat) + 1 + r < (i : Nat) then entry s.l i ((i : Nat) + 1 + r)
      else if (i : Nat) + 1 + r = (i : Nat) then 1 else 0) * entry s.u ((i : Nat) + 1 + r) c = 0 := by
    apply Finset.sum_eq_zero; intro r _
    rw [if_neg (by omega), if_neg (by omega)]; ring
  rw [h1, h2]
  simp

theorem lowerM_det (n : Nat) (l : Mat) : (lowerM n l).det = 1 := by
  rw [Matrix.det_of_isLowerTriangular]
  · apply Finset.prod_eq_one; intro i _; simp [lowerM]
  · intro i j hij
    have : (i : Nat) < j := hij
    simp only [lowerM]
    rw [if_neg (by omega), if_neg (by intro e; rw [e] at this; omega)]

theorem upperM_det {n : Nat} {a : Mat} {s : LU} {cnt : Nat} (h : Inv n a n s cnt) :
    (toM n s.u).det = ∏ i ∈ Finset.range n, entry s.u i i := by
  rw [Matrix.det_of_isUpperTriangular]
  · exact Fin.prod_univ_eq_prod_range (fun i => entry s.u i i) n
  · intro i j hij
    have : (j : Nat) < i := hij
    exact h.tri i j i.2 j.2 (by omega)

/-- `sign(P) · det A = Π pivots` -/
theorem det_factor {n : Nat} {a : Mat} {s : LU} {cnt : Nat} (h : Inv n a n s cnt) :
    (-1 : ℚ) ^ cnt * (toM n a).det = ∏ i ∈ Finset.range n, entry s.u i i := by
  obtain ⟨σ, hσ, hs⟩ := h.perm
  have := congrArg Matrix.det (factor_matrix h σ hσ)
  rw [Matrix.det_permute, Matrix.det_mul, lowerM_det, upperM_det h, one_mul, hs] at this
  rw [← this]; simp

theorem pivots_ne_zero {n : Nat} {a : Mat} {s : LU} {cnt : Nat} (h : Inv n a n s cnt)
    (hdet : (toM n a).det ≠ 0) : ∀ i, i < n → entry s.u i i ≠ 0 := by
  have hp : ∏ i ∈ Finset.range n, entry s.u i i ≠ 0 := by
    rw [← det_factor h]; exact mul_ne_zero (pow_ne_zero _ (by norm_num)) hdet
  intro i hi
  exact (Finset.prod_ne_zero_iff.1 hp) i (Finset.mem_range.2 hi)

/-! ### `A · solveMat A b = b` -/

theorem solveMat_apply (n k : Nat) (a b : Mat) (hn : 2 ≤ n)
    (hA : ∀ i, i < n → (a.getD i []).length = n) (hdet : detN n a ≠ 0) :
    ∀ r c, r < n → c < k →
      sumTo n (fun t => entry a r t * entry (solveMat n k a b) t c) = entry b r c := by
  intro r c hr hc
  have I := inv_lu n a hA
  rw [detN_eq_det n a hn] at hdet
  have hpiv := pivots_ne_zero I hdet
  obtain ⟨σ, hσ, _⟩ := I.perm
  -- the row of the permuted system that carries row `r`
  have hi : ((σ.symm ⟨r, hr⟩ : Fin n) : Nat) < n := (σ.symm ⟨r, hr⟩).2
  have hperm : (lu n a).perm.getD (σ.symm ⟨r, hr⟩ : Fin n) 0 = r := by rw [hσ]; simp
  generalize ((σ.symm ⟨r, hr⟩ : Fin n) : Nat) = i at hi hperm
  set pb : Mat := (List.range n).map fun i => b.getD ((lu n a).perm.getD i 0) [] with hpb
  set y := forwardSubst n k (lu n a).l pb with hy
  have hx : solveMat n k a b = backSubst n k (lu n a).u y := rfl
  rw [hx]
  have hU := upper_row_apply n k (lu n a).u y I.urows
    (fun i c hi hc hlt => I.tri i c hi hc (by omega)) hpiv
  have hY := fwd_spec k (lu n a).l pb n (fun i hi => by rw [I.lrows i hi]; omega)
  have hpbe : entry pb i c = entry b r c := by
    rw [hpb]; unfold entry; rw [getD_map_range, if_pos hi, hperm]
  -- expand row r of A through the factorisation
  have hrow : ∀ t, t < n → entry a r t =
      sumTo i (fun s => entry (lu n a).l i s * entry (lu n a).u s t) + entry (lu n a).u i t := by
    intro t ht
    have := I.fact i t hi ht
    rw [hperm, Nat.min_eq_left (le_of_lt hi)] at this
    exact this
  rw [sumTo_congr n _ (fun t => (sumTo i (fun s => entry (lu n a).l i s * entry (lu n a).u s t)
      + entry (lu n a).u i t) * entry (backSubst n k (lu n a).u y) t c) (fun t ht => by rw [hrow t ht])]
  have hsplit : sumTo n (fun t => (sumTo i (fun s => entry (lu n a).l i s * entry (lu n a).u s t)
      + entry (lu n a).u i t) * entry (backSubst n k (lu n a).u y) t c)
      = sumTo i (fun s => entry (lu n a).l i s *
          sumTo n (fun t => entry (lu n a).u s t * entry (backSubst n k (lu n a).u y) t c))
        + sumTo n (fun t => entry (lu n a).u i t * entry (backSubst n k (lu n a).u y) t c) := by
    simp only [sumTo_eq_sum, add_mul, Finset.sum_add_distrib, Finset.sum_mul, Finset.mul_sum]
    rw [Finset.sum_comm]
    congr 1
    refine Finset.sum_congr rfl fun s _ => Finset.sum_congr rfl fun t _ => ?_
    ring
  rw [hsplit, hU i c hi hc]
  rw [sumTo_congr i _ (fun s => entry (lu n a).l i s * entry y s c)
    (fun s hs => by rw [hU s c (by omega) hc])]
  have := hY i c hi hc
  rw [← forwardSubst_eq, ← hy] at this
  rw [this, hpbe]; ring

/-- **determinant by elimination** -/
theorem detN_eq_detByElim (n : Nat) (a : Mat) (hn : 2 ≤ n)
    (hA : ∀ i, i < n → (a.getD i []).length = n) : detN n a = detByElim n a := by
  have I := inv_lu n a hA
  have h := det_factor I
  rw [detN_eq_det n a hn]
  unfold detByElim
  rw [prodTo_eq_prod, ← h, sgn_eq_pow, ← mul_assoc, ← mul_pow]
  norm_num

end ArrModel.C15
