import Batteries.Data.List.Perm
import ArrProofs.Lemmas.Index
import ArrProofs.Lemmas.Scatter
/-! lemmas about `permute`, `horner`, `validAxes`, `transposeElems` (C06, reused by C08/C11/C12/C13) -/
namespace ArrModel
variable {α : Type}

theorem normalizeAxis_ofNat (nd x : Nat) : normalizeAxis nd (Int.ofNat x) = x := by
  unfold normalizeAxis
  rw [if_neg (by simp)]
  simp

theorem map_normalizeAxis_ofNat (nd : Nat) (l : List Nat) : (l.map Int.ofNat).map (normalizeAxis nd) = l := by
  rw [List.map_map]
  conv => rhs; rw [← List.map_id l]
  apply List.map_congr_left; intro x _; exact normalizeAxis_ofNat nd x

theorem perm_prod {l₁ l₂ : List Nat} (h : l₁.Perm l₂) : l₁.prod = l₂.prod := by
  induction h with
  | nil => rfl
  | cons x _ ih => simp [List.prod_cons, ih]
  | swap x y l => simp [List.prod_cons, Nat.mul_left_comm]
  | trans _ _ ih1 ih2 => exact ih1.trans ih2

theorem map_getD_range (s : List Nat) : (List.range s.length).map (fun i => s.getD i 0) = s := by
  apply List.ext_getElem
  · simp
  · intro i h1 h2; simp at h1; simp [List.getD_eq_getElem?_getD, h1]

theorem permute_length (axes c : List Nat) : (permute axes c).length = axes.length := by simp [permute]

theorem permute_perm (axes s : List Nat) (h : axes.Perm (List.range s.length)) : (permute axes s).Perm s := by
  have := h.map (fun i => s.getD i 0)
  rw [map_getD_range] at this
  exact this

theorem prod_permute (axes s : List Nat) (h : axes.Perm (List.range s.length)) : (permute axes s).prod = s.prod :=
  perm_prod (permute_perm axes s h)

/-- pointwise characterisation of inRange -/
theorem inRange_iff : ∀ (s c : List Nat), inRange s c = true ↔ (c.length = s.length ∧ ∀ k, k < s.length → c.getD k 0 < s.getD k 0)
  | [], [] => by simp [inRange]
  | [], _ :: _ => by simp [inRange]
  | _ :: _, [] => by simp [inRange]
  | d :: ds, x :: xs => by
    simp only [inRange, Bool.and_eq_true, decide_eq_true_eq, inRange_iff ds xs, List.length_cons]
    constructor
    · rintro ⟨h0, hl, hk⟩
      refine ⟨by omega, ?_⟩
      intro k hk'
      cases k with
      | zero => simpa using h0
      | succ k => simpa using hk k (by omega)
    · rintro ⟨hl, hk⟩
      refine ⟨by simpa using hk 0 (by omega), by omega, ?_⟩
      intro k hk'
      simpa using hk (k+1) (by omega)

theorem inRange_permute (axes s c : List Nat) (hax : ∀ a ∈ axes, a < s.length) (hc : inRange s c = true) :
    inRange (permute axes s) (permute axes c) = true := by
  rw [inRange_iff] at hc ⊢
  obtain ⟨hl, hk⟩ := hc
  refine ⟨by simp [permute], ?_⟩
  intro k hk'
  simp only [permute, List.length_map] at hk'
  simp only [permute, List.getD_eq_getElem?_getD, List.getElem?_map, List.getElem?_eq_getElem hk', Option.map_some, Option.getD_some]
  have := hk (axes[k]) (hax _ (List.getElem_mem hk'))
  simpa [List.getD_eq_getElem?_getD] using this

theorem permute_inj (axes c c' : List Nat) (n : Nat) (h : axes.Perm (List.range n))
    (hc : c.length = n) (hc' : c'.length = n) (he : permute axes c = permute axes c') : c = c' := by
  apply List.ext_getElem (by omega)
  intro k h1 h2
  have hk : k ∈ axes := h.mem_iff.2 (by simp; omega)
  obtain ⟨d, hd, hdk⟩ := List.getElem_of_mem hk
  have := congrArg (fun l => l[d]?) he
  simp only [permute, List.getElem?_map, List.getElem?_eq_getElem hd, Option.map_some, hdk] at this
  simpa [List.getD_eq_getElem?_getD, h1, h2] using this

/-- Horner evaluation (the loop's index formula) is the structural row-major position -/
theorem horner_aux : ∀ (s c : List Nat) (acc : Nat), s.length = c.length →
    (s.zip c).foldl (fun acc p => acc * p.1 + p.2) acc = acc * s.prod + ravel s c
  | [], [], acc, _ => by simp [ravel]
  | d :: ds, x :: xs, acc, h => by
    simp only [List.zip_cons_cons, List.foldl_cons, List.prod_cons, ravel]
    rw [horner_aux ds xs _ (by simpa using h), Nat.add_mul, Nat.mul_assoc]; omega
  | [], _ :: _, _, h => by simp at h
  | _ :: _, [], _, h => by simp at h

theorem horner_eq_ravel (s c : List Nat) (h : s.length = c.length) : horner s c = ravel s c := by
  unfold horner; rw [horner_aux s c 0 h]; simp

/-- `validAxes` accepts exactly the permutations of `0..nd` -/
theorem validAxes_ok_iff (nd : Nat) (ax : List Nat) : validAxes nd ax = .ok () ↔ ax.Perm (List.range nd) := by
  unfold validAxes
  constructor
  · intro h
    split at h; · cases h
    split at h; · cases h
    split at h; · cases h
    rename_i h1 h2 h3
    have hl : ax.length = nd := by simpa using h1
    have hb : ∀ x ∈ ax, x < nd := by
      intro x hx
      simp only [List.any_eq_true, decide_eq_true_eq, not_exists, not_and] at h2
      have := h2 x hx; omega
    have hn : ax.Nodup := by simpa using h3
    have hs : ax ⊆ List.range nd := fun x hx => by simpa using hb x hx
    exact (List.subperm_of_subset hn hs).perm_of_length_le (by simp [hl])
  · intro h
    have hl : ax.length = nd := by simpa using h.length_eq
    have hb : ∀ x ∈ ax, x < nd := fun x hx => by simpa using h.mem_iff.1 hx
    have hn : ax.Nodup := h.symm.nodup (List.nodup_range)
    rw [if_neg (by simpa using hl)]
    rw [if_neg]
    · rw [if_neg (by simpa using hn)]
    · simp only [List.any_eq_true, decide_eq_true_eq, not_exists, not_and]
      intro x hx; have := hb x hx; omega

theorem validAxes_not_panic (nd : Nat) (ax : List Nat) : validAxes nd ax ≠ .panic := by
  unfold validAxes
  split; · simp
  split; · simp
  split <;> simp

/-- **core coordinate lemma**: the scatter performed by `transpose` puts input coordinate `c` at output coordinate `permute axes c` -/
theorem transposeElems_get (shape axes : List Nat) (elems : List α) (zero : α)
    (hperm : axes.Perm (List.range shape.length)) (hwf : elems.length = shape.prod)
    (c : List Nat) (hc : inRange shape c = true) :
    (transposeElems shape axes elems zero)[ravel (permute axes shape) (permute axes c)]? = elems[ravel shape c]? := by
  have hax : ∀ a ∈ axes, a < shape.length := fun a ha => by simpa using hperm.mem_iff.1 ha
  have hi : ravel shape c < elems.length := by rw [hwf]; exact ravel_lt shape c hc
  have hh : ∀ i, horner (permute axes shape) (permute axes (unravel shape i)) = ravel (permute axes shape) (permute axes (unravel shape i)) :=
    fun i => horner_eq_ravel _ _ (by simp [permute])
  have hlt : ∀ i, i < elems.length →
      horner (permute axes shape) (permute axes (unravel shape i)) < (List.replicate elems.length zero).length := by
    intro i hi'
    rw [hh]
    have := (ravel_unravel shape i (by omega)).2
    have h2 := ravel_lt _ _ (inRange_permute axes shape _ hax this)
    rw [prod_permute axes shape hperm] at h2
    simpa [hwf] using h2
  have hinj : ∀ i j, i < elems.length → j < elems.length →
      horner (permute axes shape) (permute axes (unravel shape i)) = horner (permute axes shape) (permute axes (unravel shape j)) → i = j := by
    intro i j hi' hj' he
    rw [hh, hh] at he
    have ri := ravel_unravel shape i (by omega)
    have rj := ravel_unravel shape j (by omega)
    have pi := inRange_permute axes shape _ hax ri.2
    have pj := inRange_permute axes shape _ hax rj.2
    have e1 : permute axes (unravel shape i) = permute axes (unravel shape j) := by
      have := congrArg (unravel (permute axes shape)) he
      rwa [unravel_ravel _ _ pi, unravel_ravel _ _ pj] at this
    have e2 := permute_inj axes _ _ shape.length hperm (unravel_length _ _) (unravel_length _ _) e1
    rw [← ri.1, ← rj.1, e2]
  have key := scatter_get _ (fun i => elems.getD i zero) (List.replicate elems.length zero) elems.length hinj hlt (ravel shape c) hi
  simp only [unravel_ravel shape c hc] at key
  have hb : horner (permute axes shape) (permute axes c) <
      (scatter (fun i => horner (permute axes shape) (permute axes (unravel shape i))) (fun i => elems.getD i zero)
        (List.replicate elems.length zero) elems.length).length := by
    rw [scatter_length]; have := hlt (ravel shape c) hi; rwa [unravel_ravel shape c hc] at this
  have hhc : horner (permute axes shape) (permute axes c) = ravel (permute axes shape) (permute axes c) :=
    horner_eq_ravel _ _ (by simp [permute])
  unfold transposeElems
  rw [← hhc, List.getElem?_eq_getElem hb, key, List.getElem?_eq_getElem hi]
  simp [List.getD_eq_getElem?_getD, hi]

theorem transposeElems_length (shape axes : List Nat) (elems : List α) (zero : α) :
    (transposeElems shape axes elems zero).length = elems.length := by
  unfold transposeElems; rw [scatter_length]; simp

end ArrModel
