import ArrProofs.Lemmas.C03Helper
import ArrProofs.Lemmas.GenCore
import ArrProofs.Lemmas.GenCoreShape
/-!
# C03 — broadcasting follows the trailing-axis stretch rule, in shape and in values

Property theorems only (helper lemmas and the specification predicates `stretchEq`, `stretchable`
live in `ArrProofs/Lemmas/C03*.lean`).
Model under test: `ArrModel/Broadcast.lean` (`isBroadcastable`, `broadcastShape`, `broadcastTo`, `broadcast`,
`commonBroadcastShape`, `broadcastArrays`, `zip`, and the crate-internal helpers `broadcastH2`, `broadcastH3`),
which transcribes `validators/shape.rs:18-29`, `operations/broadcast.rs` and `iter.rs:308-315` arm for arm.

Specification vocabulary
* `stretchable s t` — `s` is no longer than `t` and, aligned at the trailing axis, every axis of `s`
  equals the axis of `t` or is one; no zero length on an aligned axis (the code refuses those);
  the added leading axes of `t` are unconstrained.
* `bsrc s c` (model) — the source coordinate of target coordinate `c`: drop the added leading axes, use
  index 0 along the unit axes of `s`.
* `a.get? c` — the element stored at the row-major position of `c`.
* `fromEnd s k` — the `k`-th axis length of `s` counted from the trailing axis, a missing leading axis reads 1.
* `maxLen shapes`, `cmax shapes k` — largest rank / largest `k`-th-from-the-end length in a list of shapes.

Zero-length axes: the code refuses them on every aligned axis (`broadcast_zero_axis`,
`broadcastArrays_zero_axis`); only an *added leading* target axis of `broadcast_to` may be zero (empty result).
-/
namespace ArrModel.C03
open ArrModel Arr

variable {α β : Type}

/-! ## A. `broadcast_to`, accepted targets -/

/-- **broadcast_to, values and shape**: a well-formed array whose shape can be stretched to `t` is
broadcast successfully; the result has exactly the shape `t`, is well formed, and the element at every
in-range coordinate `c` is the source element at `bsrc a.shape c`.
Both arms of the code are covered: the equal-count `reshape` shortcut and the coordinate gather. -/
theorem broadcastTo_stretch (a : Arr α) (t : List Nat) (hwf : a.WF) (hs : stretchable a.shape t = true) :
    ∃ r, a.broadcastTo t = .ok r ∧ r.shape = t ∧ r.WF ∧
      ∀ c, inRange t c = true → r.get? c = a.get? (bsrc a.shape c) := by
  have hs' := hs
  simp only [stretchable, Bool.and_eq_true, decide_eq_true_eq] at hs'
  obtain ⟨hle, hse⟩ := hs'
  have hchk := (stretchEq_iff_checks _ _ (stretchEq_length _ _ hse)).1 hse
  have hb : isBroadcastable a.shape t = true := by rw [isBroadcastable_aligned _ _ hle, hchk.1]; rfl
  unfold Arr.broadcastTo
  rw [if_neg (by simp [hb])]
  by_cases hp : a.shape.prod = t.prod
  · rw [if_pos hp]
    refine ⟨⟨a.elems, t⟩, ?_, rfl, ?_, ?_⟩
    · unfold Arr.reshape Arr.new; rw [if_pos (by rw [← hp, hwf])]
    · show a.elems.length = t.prod
      rw [hwf, hp]
    · intro c hc
      show a.elems[ravel t c]? = a.elems[ravel a.shape (bsrc a.shape c)]?
      rw [ravel_bsrc_of_prod_eq _ _ _ hs hp hc]
  · rw [if_neg hp, if_neg (by omega)]
    simp only
    rw [if_neg (by simp [hchk.2])]
    obtain ⟨es, hes, hlen, hval⟩ := gather_ok a hwf t hs
    refine ⟨⟨es, t⟩, ?_, rfl, hlen, fun c hc => hval c hc⟩
    rw [hes]
    simp only [Res.bind_ok, Arr.new]
    rw [if_pos hlen.symm]

/-- every in-range position of the result of A holds an element (the result is total on its index space) -/
theorem broadcastTo_total (a : Arr α) (t : List Nat) (hwf : a.WF) (hs : stretchable a.shape t = true)
    (c : List Nat) (hc : inRange t c = true) :
    inRange a.shape (bsrc a.shape c) = true ∧ ∃ x, a.get? (bsrc a.shape c) = some x := by
  have h := inRange_bsrc _ _ _ hs hc
  exact ⟨h, get?_isSome a hwf _ h⟩

/-! ## B. `broadcast_to`, rejected targets

The statement leaves one region open: targets of the *same* element count that the source cannot be
stretched to.  There the code answers an error when `is_broadcastable` sees a clash (e.g. `[2,3] → [3,2]`)
and otherwise takes the `reshape` shortcut and succeeds (e.g. `[1,6] → [6,1]`).  No theorem is stated for
that region here; section G pins the region down (`broadcastTo_equal_count`, `equal_count_region`). -/

/-- **broadcast_to, rejection**: a target of a different element count that the source cannot be
stretched to is refused with `BroadcastShapeMismatch` — never data, never a panic. -/
theorem broadcastTo_reject (a : Arr α) (t : List Nat) (hs : stretchable a.shape t = false)
    (hp : a.shape.prod ≠ t.prod) : a.broadcastTo t = .err .BroadcastShapeMismatch := by
  unfold Arr.broadcastTo
  split
  · rfl
  · rename_i hb
    split
    · rfl
    · rename_i hlen
      simp only
      split
      · rfl
      · rename_i hany
        exfalso
        have hle : a.shape.length ≤ t.length := by omega
        have hb' : isBroadcastable a.shape t = true := by simpa using hb
        rw [isBroadcastable_aligned _ _ hle] at hb'
        have hse : stretchEq a.shape (t.drop (t.length - a.shape.length)) = true :=
          (stretchEq_iff_checks _ _ (by simp; omega)).2 ⟨by simpa using hb', by simpa using hany⟩
        simp [stretchable, hle, hse] at hs

/-- `broadcast_to` never panics on a well-formed array -/
theorem broadcastTo_never_panics (a : Arr α) (t : List Nat) (hwf : a.WF) : a.broadcastTo t ≠ .panic := by
  cases hs : stretchable a.shape t
  · by_cases hp : a.shape.prod = t.prod
    · unfold Arr.broadcastTo
      split
      · simp
      · unfold Arr.reshape Arr.new; split <;> simp
    · rw [broadcastTo_reject a t hs hp]; simp
  · obtain ⟨r, hr, _⟩ := broadcastTo_stretch a t hwf hs
    rw [hr]; simp

/-- on a well-formed array `broadcast_to` answers an array or `BroadcastShapeMismatch` — nothing else -/
theorem broadcastTo_ok_or_reject (a : Arr α) (t : List Nat) (hwf : a.WF) :
    (∃ r, a.broadcastTo t = .ok r) ∨ a.broadcastTo t = .err .BroadcastShapeMismatch := by
  cases hs : stretchable a.shape t
  · by_cases hp : a.shape.prod = t.prod
    · unfold Arr.broadcastTo
      split
      · exact .inr rfl
      · refine .inl ⟨⟨a.elems, t⟩, ?_⟩
        unfold Arr.reshape Arr.new
        rw [if_pos (by rw [← hp, hwf])]
    · exact .inr (broadcastTo_reject a t hs hp)
  · obtain ⟨r, hr, _⟩ := broadcastTo_stretch a t hwf hs
    exact .inl ⟨r, hr⟩

/-- a target that fails `is_broadcastable` against the source (a clash or a zero length on an aligned axis)
is refused whatever the element counts -/
theorem broadcastTo_reject_unbroadcastable (a : Arr α) (t : List Nat) (h : isBroadcastable a.shape t = false) :
    a.broadcastTo t = .err .BroadcastShapeMismatch := by
  unfold Arr.broadcastTo
  rw [if_pos (by simp [h])]

/-! ## E. `zip`: only the argument is stretched, to the receiver's shape -/

/-- **zip, values and shape** -/
theorem zip_at (a : Arr α) (b : Arr β) (ha : a.WF) (hb : b.WF) (hs : stretchable b.shape a.shape = true) :
    ∃ r, a.zip b = .ok r ∧ r.shape = a.shape ∧ r.WF ∧
      ∀ c, inRange a.shape c = true →
        ∃ x y, a.get? c = some x ∧ b.get? (bsrc b.shape c) = some y ∧ r.get? c = some (x, y) := by
  obtain ⟨b', hb1, hb2, hb3, hb4⟩ := broadcastTo_stretch b a.shape hb hs
  have hlen : (a.elems.zip b'.elems).length = a.shape.prod := by
    rw [List.length_zip, ha, hb3, hb2]; simp
  refine ⟨⟨a.elems.zip b'.elems, a.shape⟩, ?_, rfl, hlen, ?_⟩
  · unfold Arr.zip
    rw [hb1]
    simp only [Res.bind_ok, Arr.reshape, Arr.flat, Arr.new]
    exact if_pos hlen.symm
  · intro c hc
    obtain ⟨x, hx⟩ := get?_isSome a ha c hc
    obtain ⟨_, y, hy⟩ := broadcastTo_total b a.shape hb hs c hc
    refine ⟨x, y, hx, hy, ?_⟩
    have h1 := hb4 c hc
    rw [hy] at h1
    show (a.elems.zip b'.elems)[ravel a.shape c]? = some (x, y)
    rw [List.getElem?_zip_eq_some]
    refine ⟨hx, ?_⟩
    unfold Arr.get? at h1
    rw [hb2] at h1
    exact h1

/-- **zip, rejection**: an argument of a different element count that cannot be stretched to the
receiver's shape is refused (in particular the receiver is never stretched) -/
theorem zip_reject (a : Arr α) (b : Arr β) (hs : stretchable b.shape a.shape = false)
    (hp : b.shape.prod ≠ a.shape.prod) : a.zip b = .err .BroadcastShapeMismatch := by
  unfold Arr.zip
  rw [broadcastTo_reject b a.shape hs hp]; rfl

/-! ## C. `broadcast_shape`, axis by axis from the trailing axis

`fromEnd s k` is the `k`-th axis length counted from the end, reading a missing leading axis as 1. -/

/-- **broadcast_shape, characterisation**: the call answers `r` exactly when `r` has the larger rank, every
aligned pair of lengths is equal or contains a one, and each result axis is the non-unit length of the pair. -/
theorem broadcastShape_spec (s t r : List Nat) :
    broadcastShape s t = .ok r ↔
      r.length = max s.length t.length ∧
      ∀ k, k < r.length →
        (fromEnd s k = fromEnd t k ∨ fromEnd s k = 1 ∨ fromEnd t k = 1) ∧
        fromEnd r k = if fromEnd s k = 1 then fromEnd t k else fromEnd s k :=
  broadcastShape_ok_iff s t r

/-- with no zero-length axis, every result axis is the larger aligned length -/
theorem broadcastShape_max (s t r : List Nat) (h : broadcastShape s t = .ok r) (hs : 0 ∉ s) (ht : 0 ∉ t)
    (k : Nat) : fromEnd r k = max (fromEnd s k) (fromEnd t k) := by
  obtain ⟨hl, hk⟩ := (broadcastShape_ok_iff s t r).1 h
  by_cases hkr : k < r.length
  · obtain ⟨h1, h2⟩ := hk k hkr
    have hs' : fromEnd s k ≠ 0 := by
      by_cases hks : k < s.length
      · exact (zero_not_mem_iff_fromEnd s).1 hs k hks
      · rw [fromEnd_of_le s k (by omega)]; omega
    have ht' : fromEnd t k ≠ 0 := by
      by_cases hkt : k < t.length
      · exact (zero_not_mem_iff_fromEnd t).1 ht k hkt
      · rw [fromEnd_of_le t k (by omega)]; omega
    rw [h2]; split <;> omega
  · rw [fromEnd_of_le r k (by omega), fromEnd_of_le s k (by omega), fromEnd_of_le t k (by omega)]; rfl

/-- a disagreement on an aligned axis where neither length is one is refused -/
theorem broadcastShape_reject (s t : List Nat) (k : Nat)
    (h : fromEnd s k ≠ fromEnd t k ∧ fromEnd s k ≠ 1 ∧ fromEnd t k ≠ 1) :
    broadcastShape s t = .err .BroadcastShapeMismatch :=
  broadcastShape_clash s t k h

/-! ## D. `broadcast` of two arrays -/

/-- **broadcast, values and shape**: when the two shapes have a common broadcast shape `fs` without a
zero-length axis, the call succeeds with exactly that shape, and the pair stored at every in-range coordinate
`c` is (element of `a` at `bsrc a.shape c`, element of `b` at `bsrc b.shape c`).
Covers the equal-shape arm and the two-stretch arm. (A zero-length axis is refused by the code.) -/
theorem broadcast_at (a : Arr α) (b : Arr β) (fs : List Nat) (ha : a.WF) (hb : b.WF)
    (hfs : broadcastShape a.shape b.shape = .ok fs) (hz : 0 ∉ fs) :
    ∃ r, a.broadcast b = .ok r ∧ r.shape = fs ∧ r.WF ∧
      ∀ c, inRange fs c = true →
        ∃ x y, a.get? (bsrc a.shape c) = some x ∧ b.get? (bsrc b.shape c) = some y ∧
          r.get? c = some (x, y) := by
  obtain ⟨hsa, hsb, hib⟩ := stretchable_of_broadcastShape _ _ _ hfs hz
  unfold Arr.broadcast
  rw [if_neg (by simp [hib])]
  by_cases heq : a.shape = b.shape
  · rw [if_pos heq]
    have hfa : fs = a.shape := by rw [← heq] at hfs; exact broadcastShape_self _ _ hfs
    subst hfa
    obtain ⟨r, hr1, hr2, hr3, hr4⟩ := new_zip a b a.shape rfl heq.symm ha hb
    refine ⟨r, hr1, hr2, hr3, fun c hc => ?_⟩
    rw [bsrc_of_inRange _ _ hc, ← heq, bsrc_of_inRange _ _ hc]
    obtain ⟨x, hx⟩ := get?_isSome a ha c hc
    obtain ⟨y, hy⟩ := get?_isSome b hb c (by rw [← heq]; exact hc)
    exact ⟨x, y, hx, hy, hr4 c x y hx hy⟩
  · rw [if_neg heq, hfs]
    obtain ⟨a', ha1, ha2, ha3, ha4⟩ := broadcastTo_stretch a fs ha hsa
    obtain ⟨b', hb1, hb2, hb3, hb4⟩ := broadcastTo_stretch b fs hb hsb
    simp only [Res.bind_ok, ha1, hb1]
    obtain ⟨r, hr1, hr2, hr3, hr4⟩ := new_zip a' b' fs ha2 hb2 ha3 hb3
    refine ⟨r, hr1, hr2, hr3, fun c hc => ?_⟩
    obtain ⟨_, x, hx⟩ := broadcastTo_total a fs ha hsa c hc
    obtain ⟨_, y, hy⟩ := broadcastTo_total b fs hb hsb c hc
    exact ⟨x, y, hx, hy, hr4 c x y (by rw [ha4 c hc, hx]) (by rw [hb4 c hc, hy])⟩

/-- **broadcast, rejection**: operands that disagree on an aligned axis where neither length is one are
refused with `BroadcastShapeMismatch` -/
theorem broadcast_reject (a : Arr α) (b : Arr β) (k : Nat) (hka : k < a.shape.length) (hkb : k < b.shape.length)
    (h : fromEnd a.shape k ≠ fromEnd b.shape k ∧ fromEnd a.shape k ≠ 1 ∧ fromEnd b.shape k ≠ 1) :
    a.broadcast b = .err .BroadcastShapeMismatch := by
  have hib : isBroadcastable a.shape b.shape = false := by
    cases hi : isBroadcastable a.shape b.shape
    · rfl
    · have := (isBroadcastable_iff_fromEnd _ _).1 hi k hka hkb
      simp only [dimClash, Bool.or_eq_false_iff, Bool.and_eq_false_iff, bne_eq_false_iff_eq,
        beq_eq_false_iff_ne] at this
      omega
  unfold Arr.broadcast
  rw [if_pos (by simp [hib])]

/-- **broadcast, zero-length axes are refused**: when the common shape contains a zero-length axis the call
answers `BroadcastShapeMismatch` (so the hypothesis `0 ∉ fs` of `broadcast_at` is exactly the success region) -/
theorem broadcast_zero_axis (a : Arr α) (b : Arr β) (fs : List Nat) (ha : a.WF)
    (hfs : broadcastShape a.shape b.shape = .ok fs) (hz : 0 ∈ fs) :
    a.broadcast b = .err .BroadcastShapeMismatch := by
  unfold Arr.broadcast
  by_cases hib : isBroadcastable a.shape b.shape = true
  · rw [if_neg (by simp [hib])]
    obtain ⟨hl, hk⟩ := (broadcastShape_ok_iff _ _ fs).1 hfs
    obtain ⟨k, hkl, hk0⟩ := (zero_mem_iff_fromEnd fs).1 hz
    obtain ⟨hk1, hk2⟩ := hk k hkl
    rw [hk0] at hk2
    by_cases heq : a.shape = b.shape
    · exfalso
      have hlen := congrArg List.length heq
      have := isBroadcastable_nonzero _ _ hib k (by omega) (by omega)
      rw [← heq] at hk2
      split at hk2 <;> omega
    · rw [if_neg heq, hfs]
      simp only [Res.bind_ok]
      by_cases hd : fromEnd a.shape k = 1
      · rw [if_pos hd] at hk2
        have hkb : k < b.shape.length := lt_length_of_fromEnd_ne_one _ k (by omega)
        have hbf : b.broadcastTo fs = .err .BroadcastShapeMismatch :=
          broadcastTo_reject_unbroadcastable b fs
            (isBroadcastable_false_of_zero _ _ k hkb hkl (.inl hk2.symm))
        rcases broadcastTo_ok_or_reject a fs ha with ⟨a', h⟩ | h
        · rw [h, hbf]; rfl
        · rw [h]; rfl
      · rw [if_neg hd] at hk2
        have hka : k < a.shape.length := lt_length_of_fromEnd_ne_one _ k hd
        rw [broadcastTo_reject_unbroadcastable a fs
          (isBroadcastable_false_of_zero _ _ k hka hkl (.inl hk2.symm))]
        rfl
  · rw [if_pos (by simpa using hib)]

/-! ## F. `broadcast_arrays`

`maxLen shapes` is the largest rank, `cmax shapes k` the largest `k`-th-from-the-end axis length
(both are left folds of `max`, see `cmax_spec`). -/

/-- `cmax` is the maximum: an upper bound of every member's axis, and attained (or 0 for no shapes) -/
theorem cmax_spec (shapes : List (List Nat)) (k : Nat) :
    (∀ s ∈ shapes, fromEnd s k ≤ cmax shapes k) ∧
    (cmax shapes k = 0 ∨ ∃ s ∈ shapes, cmax shapes k = fromEnd s k) := by
  refine ⟨fun s hs => fromEnd_le_cmax shapes s hs k, ?_⟩
  rcases foldl_max_mem (shapes.map (fun s => fromEnd s k)) 0 with h | h
  · exact .inl h
  · obtain ⟨s, hs, hs'⟩ := List.mem_map.1 h
    exact .inr ⟨s, hs, hs'.symm⟩

/-- **common_broadcast_shape, characterisation**: the call answers `cs` exactly when `cs` has the largest rank,
each axis (from the end) is the largest aligned length, and every member's aligned length equals that maximum
or is one (or the maximum is one). -/
theorem commonBroadcastShape_spec (shapes : List (List Nat)) (cs : List Nat) :
    commonBroadcastShape shapes = .ok cs ↔
      (cs.length = maxLen shapes ∧ ∀ k, k < maxLen shapes → fromEnd cs k = cmax shapes k) ∧
      ∀ s ∈ shapes, ∀ k, k < maxLen shapes →
        (fromEnd s k = cmax shapes k ∨ fromEnd s k = 1 ∨ cmax shapes k = 1) := by
  rw [commonBroadcastShape_ok_iff]
  apply and_congr_left'
  constructor
  · rintro rfl
    exact ⟨by rw [List.length_reverse, commonRev_length], fun k hk => fromEnd_commonRev_reverse shapes k hk⟩
  · rintro ⟨h1, h2⟩
    refine eq_of_fromEnd_eq _ _ (by rw [h1, List.length_reverse, commonRev_length]) (fun k hk => ?_)
    rw [h2 k (by omega), fromEnd_commonRev_reverse shapes k (by omega)]

/-- member shapes that disagree on an aligned axis where neither length is one have no common shape -/
theorem commonBroadcastShape_reject (shapes : List (List Nat)) (s t : List Nat) (hs : s ∈ shapes) (ht : t ∈ shapes)
    (k : Nat) (h : fromEnd s k ≠ fromEnd t k ∧ fromEnd s k ≠ 1 ∧ fromEnd t k ≠ 1) :
    commonBroadcastShape shapes = .err .BroadcastShapeMismatch :=
  commonBroadcastShape_clash shapes s t hs ht k h

/-- **broadcast_arrays, values and shapes**: well-formed arrays without zero-length axes whose shapes have a
common shape `cs` are all broadcast to exactly `cs`; the `i`-th result is the `i`-th input stretched, value by
value through `bsrc`. -/
theorem broadcastArrays_spec (arrs : List (Arr α)) (cs : List Nat)
    (hwf : ∀ a ∈ arrs, a.WF) (hz : ∀ a ∈ arrs, 0 ∉ a.shape)
    (hcs : commonBroadcastShape (arrs.map (·.shape)) = .ok cs) :
    ∃ rs, Arr.broadcastArrays arrs = .ok rs ∧ rs.length = arrs.length ∧
      ∀ (i : Nat) a, arrs[i]? = some a → ∃ r, rs[i]? = some r ∧ r.shape = cs ∧ r.WF ∧
        ∀ c, inRange cs c = true → r.get? c = a.get? (bsrc a.shape c) := by
  have hst : ∀ a ∈ arrs, stretchable a.shape cs = true := fun a ha =>
    stretchable_of_common _ cs hcs a.shape (List.mem_map.2 ⟨a, ha, rfl⟩) (hz a ha)
  obtain ⟨rs, hrs⟩ := sequence_map_ok (fun a : Arr α => a.broadcastTo cs) arrs (fun a ha => by
    obtain ⟨r, hr, _⟩ := broadcastTo_stretch a cs (hwf a ha) (hst a ha)
    exact ⟨r, hr⟩)
  obtain ⟨hlen, hval⟩ := (sequence_map_ok_iff _ _ _).1 hrs
  refine ⟨rs, ?_, hlen, fun i a hia => ?_⟩
  · unfold Arr.broadcastArrays
    rw [hcs]; exact hrs
  · obtain ⟨r, hr1, hr2⟩ := hval i a hia
    have ha := List.mem_of_getElem? hia
    obtain ⟨r', hr', h1, h2, h3⟩ := broadcastTo_stretch a cs (hwf a ha) (hst a ha)
    have e : r' = r := by rw [hr'] at hr2; exact Res.ok.inj hr2
    rw [← e] at hr1
    exact ⟨r', hr1, h1, h2, h3⟩

/-- **broadcast_arrays, rejection**: two members that disagree on an aligned axis where neither length is one
make the whole call fail with `BroadcastShapeMismatch` -/
theorem broadcastArrays_reject (arrs : List (Arr α)) (a b : Arr α) (ha : a ∈ arrs) (hb : b ∈ arrs) (k : Nat)
    (h : fromEnd a.shape k ≠ fromEnd b.shape k ∧ fromEnd a.shape k ≠ 1 ∧ fromEnd b.shape k ≠ 1) :
    Arr.broadcastArrays arrs = .err .BroadcastShapeMismatch := by
  unfold Arr.broadcastArrays
  rw [commonBroadcastShape_clash (arrs.map (·.shape)) a.shape b.shape
    (List.mem_map.2 ⟨a, ha, rfl⟩) (List.mem_map.2 ⟨b, hb, rfl⟩) k h]
  rfl

/-- **broadcast_arrays, zero-length axes are refused** (so the hypothesis `0 ∉ a.shape` of
`broadcastArrays_spec` is necessary) -/
theorem broadcastArrays_zero_axis (arrs : List (Arr α)) (hwf : ∀ a ∈ arrs, a.WF) (a : Arr α) (ha : a ∈ arrs)
    (hz : 0 ∈ a.shape) : Arr.broadcastArrays arrs = .err .BroadcastShapeMismatch := by
  unfold Arr.broadcastArrays
  rcases commonBroadcastShape_ok_or_err (arrs.map (·.shape)) with ⟨cs, hcs⟩ | hcs
  · rw [hcs]
    simp only [Res.bind_ok]
    rcases sequence_map_ok_or_err (fun x : Arr α => x.broadcastTo cs) arrs .BroadcastShapeMismatch
      (fun x hx => broadcastTo_ok_or_reject x cs (hwf x hx)) with ⟨rs, hrs⟩ | hrs
    · exfalso
      obtain ⟨_, hval⟩ := (sequence_map_ok_iff _ _ _).1 hrs
      obtain ⟨i, hi⟩ := List.getElem?_of_mem ha
      obtain ⟨r, _, hr⟩ := hval i a hi
      obtain ⟨k, hk, hk0⟩ := (zero_mem_iff_fromEnd a.shape).1 hz
      have hlen : cs.length = maxLen (arrs.map (·.shape)) := ((commonBroadcastShape_spec _ cs).1 hcs).1.1
      have hle := length_le_maxLen (arrs.map (·.shape)) a.shape (List.mem_map.2 ⟨a, ha, rfl⟩)
      rw [broadcastTo_reject_unbroadcastable a cs
        (isBroadcastable_false_of_zero _ _ k hk (by omega) (.inl hk0))] at hr
      cases hr
    · exact hrs
  · rw [hcs]; rfl

/-! ## G. `broadcast_to` on a target of the same element count

The statement is silent about same-count targets the source cannot be stretched to.  What the code does there
is pinned down: the only test left is `is_broadcastable`; when it passes, the element list is kept as it is and
only the shape is replaced (the `reshape` shortcut), otherwise the call is refused. -/

/-- `is_broadcastable`, axis by axis from the trailing axis: no zero length on an aligned axis, and the
two aligned lengths are equal or one of them is one (the *direction* is not tested) -/
theorem isBroadcastable_spec (s t : List Nat) :
    isBroadcastable s t = true ↔ ∀ k, k < s.length → k < t.length →
      fromEnd s k ≠ 0 ∧ fromEnd t k ≠ 0 ∧
      (fromEnd s k = fromEnd t k ∨ fromEnd s k = 1 ∨ fromEnd t k = 1) :=
  isBroadcastable_iff_compat s t

/-- **broadcast_to, equal element count**: on a target of the same element count the outcome is decided by
`is_broadcastable` alone — it passes: the row-major element list is returned unchanged under the new shape;
it fails: `BroadcastShapeMismatch`.  (For a stretchable pair this agrees with `broadcastTo_stretch`; for a
non-stretchable pair it is the region the statement leaves open, e.g. `[1,6] → [6,1]` succeeds.) -/
theorem broadcastTo_equal_count (a : Arr α) (t : List Nat) (hwf : a.WF) (hp : a.shape.prod = t.prod) :
    a.broadcastTo t =
      if isBroadcastable a.shape t = true then .ok ⟨a.elems, t⟩ else .err .BroadcastShapeMismatch := by
  unfold Arr.broadcastTo
  by_cases hb : isBroadcastable a.shape t = true
  · rw [if_neg (by simp [hb]), if_pos hp, if_pos hb]
    unfold Arr.reshape Arr.new
    rw [if_pos (by rw [← hp, hwf])]
  · rw [if_pos (by simpa using hb), if_neg hb]

/-- **the open region, characterised**: a pair that passes `is_broadcastable` without being a stretch either
lowers the rank, or shrinks an axis of the source that is longer than one to a unit axis of the target.
With `broadcastTo_equal_count` and `broadcastTo_reject`: outside the stretch rule `broadcast_to` hands out data
only for such pairs and only when the element counts agree, and then it is the unchanged element list. -/
theorem equal_count_region (s t : List Nat) (hs : stretchable s t = false) (hb : isBroadcastable s t = true) :
    t.length < s.length ∨ ∃ k, k < s.length ∧ k < t.length ∧ fromEnd t k = 1 ∧ 1 < fromEnd s k :=
  not_stretchable_region s t hs hb

/-! ## H. the crate-internal helpers `broadcast_h2`, `broadcast_h3`

Every string-array operation with a heterogeneous operand (`multiply`, `splitlines`, `center`, `ljust`, …),
`round` and the flat `insert` go through these. `zero` stands for `T::zero()`; it never reaches a result. -/

/-- a one-element array broadcasts to every shape without a zero length — the rank-0 shape included
(through the equal-count shortcut) -/
theorem single_broadcastTo (z : α) (s : List Nat) (hz : 0 ∉ s) :
    ∃ r, (Arr.mk [z] [1]).broadcastTo s = .ok r ∧ r.shape = s ∧ r.WF := by
  cases s with
  | nil => exact ⟨⟨[z], []⟩, rfl, rfl, rfl⟩
  | cons d s' =>
    have hst : stretchable [1] (d :: s') = true := single_stretchable _ (by simp) hz
    obtain ⟨r, h1, h2, h3, _⟩ := broadcastTo_stretch ⟨[z], [1]⟩ (d :: s') rfl hst
    exact ⟨r, h1, h2, h3⟩

/-- **broadcast_h2, values and shapes**: two well-formed operands (element types may differ) without
zero-length axes whose shapes have the broadcast shape `fs` are both stretched to exactly `fs`, each value by
value through `bsrc`. -/
theorem broadcastH2_at (a : Arr α) (zero : α) (b : Arr β) (fs : List Nat) (ha : a.WF) (hb : b.WF)
    (hza : 0 ∉ a.shape) (hzb : 0 ∉ b.shape) (hfs : broadcastShape a.shape b.shape = .ok fs) :
    ∃ a' b', a.broadcastH2 zero b = .ok (a', b') ∧ a'.shape = fs ∧ b'.shape = fs ∧ a'.WF ∧ b'.WF ∧
      ∀ c, inRange fs c = true →
        a'.get? c = a.get? (bsrc a.shape c) ∧ b'.get? c = b.get? (bsrc b.shape c) := by
  have hz : 0 ∉ fs := (zero_not_mem_broadcastShape_iff _ _ _ hfs).2 ⟨hza, hzb⟩
  obtain ⟨t, ht1, ht2, ht3⟩ := single_broadcastTo zero b.shape hzb
  obtain ⟨r, hr1, hr2, hr3, hr4⟩ := broadcast_at a t fs ha ht3 (by rw [ht2]; exact hfs) hz
  obtain ⟨_, hsb, _⟩ := stretchable_of_broadcastShape _ _ _ hfs hz
  obtain ⟨b', hb1, hb2, hb3, hb4⟩ := broadcastTo_stretch b fs hb hsb
  have hlen : (r.elems.map (·.1)).length = fs.prod := by
    rw [List.length_map, ← hr2]; exact hr3
  refine ⟨(⟨r.elems.map (fun (p : α × α) => p.1), fs⟩ : Arr α), b', ?_, rfl, hb2, hlen, hb3, fun c hc => ⟨?_, hb4 c hc⟩⟩
  · unfold Arr.broadcastH2
    rw [ht1]
    simp only [Res.bind_ok]
    rw [hr1]
    have hre : (Arr.flat (r.elems.map (·.1))).reshape r.shape = .ok ⟨r.elems.map (·.1), fs⟩ := by
      rw [hr2]; exact if_pos hlen.symm
    simp only [Res.bind_ok]
    rw [hre]
    simp only [Res.bind_ok]
    rw [hb1]; rfl
  · obtain ⟨x, y, hx, _, hxy⟩ := hr4 c hc
    rw [hx]
    unfold Arr.get? at hxy
    rw [hr2] at hxy
    exact getElem?_map_fst r.elems _ x y hxy

/-- **broadcast_h2, rejection**: shapes without a broadcast shape are refused -/
theorem broadcastH2_reject (a : Arr α) (zero : α) (b : Arr β) (e : Err)
    (h : broadcastShape a.shape b.shape = .err e) : a.broadcastH2 zero b = .err .BroadcastShapeMismatch := by
  unfold Arr.broadcastH2
  rcases broadcastTo_ok_or_reject ⟨[zero], [1]⟩ b.shape rfl with ⟨t, ht⟩ | ht
  · rw [ht]
    simp only [Res.bind_ok]
    have hts := broadcastTo_shape _ _ _ ht
    rw [broadcast_err_of_shape_err a t e (by rw [hts]; exact h)]; rfl
  · rw [ht]; rfl

/-- **broadcast_h3, values and shapes**: three well-formed operands without zero-length axes whose shapes
have the common shape `cs` are all stretched to exactly `cs`, each value by value through `bsrc`. -/
theorem broadcastH3_at {γ : Type} (a : Arr α) (zero : α) (b : Arr β) (c : Arr γ) (cs : List Nat)
    (ha : a.WF) (hb : b.WF) (hc : c.WF) (hza : 0 ∉ a.shape) (hzb : 0 ∉ b.shape) (hzc : 0 ∉ c.shape)
    (hcs : commonBroadcastShape [a.shape, b.shape, c.shape] = .ok cs) :
    ∃ a' b' c', a.broadcastH3 zero b c = .ok (a', b', c') ∧
      a'.shape = cs ∧ b'.shape = cs ∧ c'.shape = cs ∧ a'.WF ∧ b'.WF ∧ c'.WF ∧
      ∀ x, inRange cs x = true →
        a'.get? x = a.get? (bsrc a.shape x) ∧ b'.get? x = b.get? (bsrc b.shape x) ∧
        c'.get? x = c.get? (bsrc c.shape x) := by
  obtain ⟨t1, h11, h12, h13⟩ := single_broadcastTo zero b.shape hzb
  obtain ⟨t2, h21, h22, h23⟩ := single_broadcastTo zero c.shape hzc
  have hshapes : [a, t1, t2].map (·.shape) = [a.shape, b.shape, c.shape] := by simp [h12, h22]
  obtain ⟨rs, hrs1, _, hrs3⟩ := broadcastArrays_spec [a, t1, t2] cs
    (by intro x hx; simp only [List.mem_cons, List.not_mem_nil, or_false] at hx
        rcases hx with rfl | rfl | rfl <;> assumption)
    (by intro x hx; simp only [List.mem_cons, List.not_mem_nil, or_false] at hx
        rcases hx with rfl | rfl | rfl
        · exact hza
        · rw [h12]; exact hzb
        · rw [h22]; exact hzc)
    (by rw [hshapes]; exact hcs)
  obtain ⟨r, hr1, hr2, hr3, hr4⟩ := hrs3 0 a rfl
  have hsb := stretchable_of_common _ cs hcs b.shape (by simp) hzb
  have hsc := stretchable_of_common _ cs hcs c.shape (by simp) hzc
  obtain ⟨b', hb1, hb2, hb3, hb4⟩ := broadcastTo_stretch b cs hb hsb
  obtain ⟨c', hc1, hc2, hc3, hc4⟩ := broadcastTo_stretch c cs hc hsc
  refine ⟨r, b', c', ?_, hr2, hb2, hc2, hr3, hb3, hc3, fun x hx => ⟨hr4 x hx, hb4 x hx, hc4 x hx⟩⟩
  unfold Arr.broadcastH3
  rw [h11]
  simp only [Res.bind_ok]
  rw [h21]
  simp only [Res.bind_ok]
  rw [hrs1]
  simp only [Res.bind_ok, Res.idx, hr1]
  rw [hr2, hb1]
  simp only [Res.bind_ok]
  rw [hc1]; rfl

/-- **broadcast_h3, rejection**: shapes without a common shape are refused -/
theorem broadcastH3_reject {γ : Type} (a : Arr α) (zero : α) (b : Arr β) (c : Arr γ) (e : Err)
    (h : commonBroadcastShape [a.shape, b.shape, c.shape] = .err e) :
    a.broadcastH3 zero b c = .err .BroadcastShapeMismatch := by
  unfold Arr.broadcastH3
  rcases broadcastTo_ok_or_reject ⟨[zero], [1]⟩ b.shape rfl with ⟨t1, h1⟩ | h1
  · rw [h1]
    simp only [Res.bind_ok]
    rcases broadcastTo_ok_or_reject ⟨[zero], [1]⟩ c.shape rfl with ⟨t2, h2⟩ | h2
    · rw [h2]
      simp only [Res.bind_ok]
      have hba : Arr.broadcastArrays [a, t1, t2] = .err .BroadcastShapeMismatch := by
        unfold Arr.broadcastArrays
        have hs : [a, t1, t2].map (·.shape) = [a.shape, b.shape, c.shape] := by
          simp [broadcastTo_shape _ _ _ h1, broadcastTo_shape _ _ _ h2]
        rw [hs]
        rcases commonBroadcastShape_ok_or_err [a.shape, b.shape, c.shape] with ⟨cs, hcs⟩ | hcs
        · rw [hcs] at h; cases h
        · rw [hcs]; rfl
      rw [hba]; rfl
    · rw [h2]; rfl
  · rw [h1]; rfl

/-! ### non-vacuity: concrete instances meeting the hypotheses, and the conclusions observed on them -/
example : (⟨List.range 6, [2, 1, 3]⟩ : Arr Nat).WF ∧ stretchable [2, 1, 3] [2, 2, 3] = true := by decide
example : (⟨List.range 6, [2, 1, 3]⟩ : Arr Nat).broadcastTo [2, 2, 3]
    = .ok ⟨[0, 1, 2, 0, 1, 2, 3, 4, 5, 3, 4, 5], [2, 2, 3]⟩ := by decide
example : bsrc [2, 1, 3] [1, 1, 2] = [1, 0, 2] ∧ bsrc [3] [1, 1, 2] = [2] ∧ bsrc [4, 1] [1, 3, 2] = [3, 0] := by decide
-- the equal-count shortcut arm (added leading unit axes) and a zero-length leading target axis
example : stretchable [2, 3] [1, 1, 2, 3] = true ∧
    (⟨List.range 6, [2, 3]⟩ : Arr Nat).broadcastTo [1, 1, 2, 3] = .ok ⟨List.range 6, [1, 1, 2, 3]⟩ := by decide
example : stretchable [3] [0, 3] = true ∧ (⟨[7, 8, 9], [3]⟩ : Arr Nat).broadcastTo [0, 3] = .ok ⟨[], [0, 3]⟩ := by decide
-- rejection (B): not stretchable, different count
example : stretchable [2, 3] [3, 3] = false ∧ [2, 3].prod ≠ [3, 3].prod ∧
    (⟨List.range 6, [2, 3]⟩ : Arr Nat).broadcastTo [3, 3] = .err .BroadcastShapeMismatch := by decide
example : stretchable [2, 2, 3] [3] = false ∧
    (⟨List.range 12, [2, 2, 3]⟩ : Arr Nat).broadcastTo [3] = .err .BroadcastShapeMismatch := by decide
-- the region the statement leaves open: same count, not stretchable — the code reshapes
example : stretchable [1, 6] [6, 1] = false ∧
    (⟨List.range 6, [1, 6]⟩ : Arr Nat).broadcastTo [6, 1] = .ok ⟨List.range 6, [6, 1]⟩ := by decide
example : stretchable [2, 3] [3, 2] = false ∧
    (⟨List.range 6, [2, 3]⟩ : Arr Nat).broadcastTo [3, 2] = .err .BroadcastShapeMismatch := by decide
-- C / D: shapes [2,1,3] and [4,1]
example : broadcastShape [2, 1, 3] [4, 1] = .ok [2, 4, 3] ∧ 0 ∉ [2, 4, 3] ∧
    fromEnd [2, 1, 3] 1 = 1 ∧ fromEnd [4, 1] 1 = 4 ∧ fromEnd [4, 1] 2 = 1 := by decide
example : ((⟨[0, 1, 2], [3]⟩ : Arr Nat).broadcast (⟨[10, 20], [2, 1]⟩ : Arr Nat))
    = .ok ⟨[(0, 10), (1, 10), (2, 10), (0, 20), (1, 20), (2, 20)], [2, 3]⟩ := by decide
example : fromEnd [2, 3] 0 ≠ fromEnd [2] 0 ∧ fromEnd [2, 3] 0 ≠ 1 ∧ fromEnd [2] 0 ≠ 1 ∧
    ((⟨List.range 6, [2, 3]⟩ : Arr Nat).broadcast (⟨[1, 2], [2]⟩ : Arr Nat)) = .err .BroadcastShapeMismatch := by decide
-- E: zip stretches only the argument
example : ((⟨List.range 6, [2, 3]⟩ : Arr Nat).zip (⟨[7], [1]⟩ : Arr Nat))
    = .ok ⟨[(0, 7), (1, 7), (2, 7), (3, 7), (4, 7), (5, 7)], [2, 3]⟩ := by decide
example : stretchable [2, 3] [1] = false ∧
    ((⟨[7], [1]⟩ : Arr Nat).zip (⟨List.range 6, [2, 3]⟩ : Arr Nat)) = .err .BroadcastShapeMismatch := by decide
-- F
example : commonBroadcastShape [[2, 1, 3], [4, 1], [3]] = .ok [2, 4, 3] ∧ maxLen [[2, 1, 3], [4, 1], [3]] = 3 ∧
    cmax [[2, 1, 3], [4, 1], [3]] 1 = 4 := by decide
example : Arr.broadcastArrays [(⟨[1, 2], [2, 1]⟩ : Arr Nat), ⟨[5, 6, 7], [3]⟩]
    = .ok [⟨[1, 1, 1, 2, 2, 2], [2, 3]⟩, ⟨[5, 6, 7, 5, 6, 7], [2, 3]⟩] := by decide
example : Arr.broadcastArrays [(⟨[1, 2], [2]⟩ : Arr Nat), ⟨[5, 6, 7], [3]⟩] = .err .BroadcastShapeMismatch := by decide

-- G: the open region pinned down — [1,6] → [6,1] passes `is_broadcastable`, is not a stretch, the target has a
-- unit axis (k = 0) where the source has 6; [2,3] → [3,2] fails `is_broadcastable`
example : isBroadcastable [1, 6] [6, 1] = true ∧ stretchable [1, 6] [6, 1] = false ∧ [1, 6].prod = [6, 1].prod ∧
    fromEnd [6, 1] 0 = 1 ∧ 1 < fromEnd [1, 6] 0 ∧
    (⟨List.range 6, [1, 6]⟩ : Arr Nat).broadcastTo [6, 1] = .ok ⟨List.range 6, [6, 1]⟩ := by decide
example : isBroadcastable [2, 3] [3, 2] = false ∧ [2, 3].prod = [3, 2].prod := by decide
example : isBroadcastable [2, 3] [6] = false ∧ isBroadcastable [6, 1] [6] = true ∧ stretchable [6, 1] [6] = false ∧
    (⟨List.range 6, [6, 1]⟩ : Arr Nat).broadcastTo [6] = .ok ⟨List.range 6, [6]⟩ := by decide
-- H: broadcast_h2 / broadcast_h3
example : broadcastShape [2, 1] [3] = .ok [2, 3] ∧
    (⟨[1, 2], [2, 1]⟩ : Arr Nat).broadcastH2 0 (⟨['a', 'b', 'c'], [3]⟩ : Arr Char)
      = .ok (⟨[1, 1, 1, 2, 2, 2], [2, 3]⟩, ⟨['a', 'b', 'c', 'a', 'b', 'c'], [2, 3]⟩) := by decide
example : (⟨[7], []⟩ : Arr Nat).broadcastH2 0 (⟨[true, false], [2]⟩ : Arr Bool)
      = .ok (⟨[7, 7], [2]⟩, ⟨[true, false], [2]⟩) ∧
    (⟨[7, 8], [2]⟩ : Arr Nat).broadcastH2 0 (⟨[true], []⟩ : Arr Bool)
      = .ok (⟨[7, 8], [2]⟩, ⟨[true, true], [2]⟩) := by decide
example : broadcastShape [2] [3] = .err .BroadcastShapeMismatch ∧
    (⟨[1, 2], [2]⟩ : Arr Nat).broadcastH2 0 (⟨['a', 'b', 'c'], [3]⟩ : Arr Char) = .err .BroadcastShapeMismatch := by decide
example : commonBroadcastShape [[2, 1], [3], [1]] = .ok [2, 3] ∧
    (⟨[1, 2], [2, 1]⟩ : Arr Nat).broadcastH3 0 (⟨['a', 'b', 'c'], [3]⟩ : Arr Char) (⟨[true], [1]⟩ : Arr Bool)
      = .ok (⟨[1, 1, 1, 2, 2, 2], [2, 3]⟩, ⟨['a', 'b', 'c', 'a', 'b', 'c'], [2, 3]⟩,
             ⟨[true, true, true, true, true, true], [2, 3]⟩) := by decide
example : commonBroadcastShape [[2], [1], [3]] = .err .BroadcastShapeMismatch ∧
    (⟨[1, 2], [2]⟩ : Arr Nat).broadcastH3 0 (⟨['a'], [1]⟩ : Arr Char) (⟨[true, false, true], [3]⟩ : Arr Bool)
      = .err .BroadcastShapeMismatch := by decide

/-! ## The validator as TRANSLATED FROM THE SOURCE

`ArrModel.Gen.Core.Vec_is_broadcastable` is regenerated from `src/validators/shape.rs` by `tools/rs2lean.py` on every run;
`ArrProofs/Lemmas/GenCore.lean` proves it equal to `isBroadcastable` (the test every theorem above goes through). -/

open ArrModel.Gen.Core in
/-- **is_broadcastable (translated source) accepts exactly** the shape pairs that, aligned at the trailing axis, have no
zero length on an aligned axis and equal lengths or a one on every aligned axis -/
theorem gen_is_broadcastable_ok_iff (s t : List Nat) :
    Vec_is_broadcastable s t = .ok () ↔ ∀ k, k < s.length → k < t.length →
      fromEnd s k ≠ 0 ∧ fromEnd t k ≠ 0 ∧
      (fromEnd s k = fromEnd t k ∨ fromEnd s k = 1 ∨ fromEnd t k = 1) := by
  rw [is_broadcastable_ok_iff]; exact isBroadcastable_spec s t

open ArrModel.Gen.Core in
/-- … and refuses every other pair with `BroadcastShapeMismatch` (never a panic) -/
theorem gen_is_broadcastable_err_iff (s t : List Nat) :
    Vec_is_broadcastable s t = .err .BroadcastShapeMismatch ↔ isBroadcastable s t = false := by
  rw [is_broadcastable_eq]; cases isBroadcastable s t <;> simp

open ArrModel.Gen.Core in
theorem gen_is_broadcastable_never_panics (s t : List Nat) : Vec_is_broadcastable s t ≠ .panic :=
  is_broadcastable_never_panics s t

open ArrModel.Gen.Core in
/-- the `Array<T>` form forwards to the shape -/
theorem gen_array_is_broadcastable (a : Arr α) (t : List Nat) :
    Array_is_broadcastable a t = .ok () ↔ isBroadcastable a.shape t = true := by
  rw [array_is_broadcastable_eq, is_broadcastable_ok_iff]

open ArrModel.Gen.Core in
/-- every stretchable pair passes the translated validator (so `broadcast_to` gets past its first test) -/
theorem gen_is_broadcastable_of_broadcastTo (a : Arr α) (t : List Nat) (r : Arr α) (h : a.broadcastTo t = .ok r) :
    Vec_is_broadcastable a.shape t = .ok () := by
  rw [is_broadcastable_ok_iff]
  cases hb : isBroadcastable a.shape t
  · rw [broadcastTo_reject_unbroadcastable a t hb] at h; cases h
  · rfl

example : ArrModel.Gen.Core.Vec_is_broadcastable [2, 1, 3] [4, 1] = .ok () := by decide
example : ArrModel.Gen.Core.Vec_is_broadcastable [2, 3] [3, 2] = .err .BroadcastShapeMismatch := by decide
example : ArrModel.Gen.Core.Vec_is_broadcastable [2, 0] [1] = .err .BroadcastShapeMismatch := by decide

/-! ### `broadcast_shape` as translated from `src/core/operations/broadcast.rs` (phase 2b)

`ArrModel.Gen.Core.Array_broadcast_shape` (with `Vec_has_error` from `validators/has_error.rs`) is regenerated on every run and proved
equal to `broadcastShape` in `ArrProofs/Lemmas/GenCoreShape.lean`. -/

open ArrModel.Gen.Core in
/-- **broadcast_shape (translated source), characterisation**: answers `r` exactly when `r` has the larger rank, every aligned pair of
lengths is equal or contains a one, and each result axis is the non-unit length of the pair -/
theorem gen_broadcast_shape_spec (a : Arr α) (t r : List Nat) :
    Array_broadcast_shape a t = .ok r ↔
      r.length = max a.shape.length t.length ∧
      ∀ k, k < r.length →
        (fromEnd a.shape k = fromEnd t k ∨ fromEnd a.shape k = 1 ∨ fromEnd t k = 1) ∧
        fromEnd r k = if fromEnd a.shape k = 1 then fromEnd t k else fromEnd a.shape k := by
  rw [broadcast_shape_eq]; exact broadcastShape_spec a.shape t r

open ArrModel.Gen.Core in
/-- a disagreement on an aligned axis where neither length is one is refused with an error value -/
theorem gen_broadcast_shape_reject (a : Arr α) (t : List Nat) (k : Nat)
    (h : fromEnd a.shape k ≠ fromEnd t k ∧ fromEnd a.shape k ≠ 1 ∧ fromEnd t k ≠ 1) :
    Array_broadcast_shape a t = .err .BroadcastShapeMismatch := by
  rw [broadcast_shape_eq]; exact broadcastShape_reject a.shape t k h

open ArrModel.Gen.Core in
/-- with no zero-length axis, every result axis is the larger aligned length -/
theorem gen_broadcast_shape_max (a : Arr α) (t r : List Nat) (h : Array_broadcast_shape a t = .ok r) (hs : 0 ∉ a.shape) (ht : 0 ∉ t)
    (k : Nat) : fromEnd r k = max (fromEnd a.shape k) (fromEnd t k) := by
  rw [broadcast_shape_eq] at h; exact broadcastShape_max a.shape t r h hs ht k

example : ArrModel.Gen.Core.Array_broadcast_shape (⟨List.range 6, [2, 1, 3]⟩ : Arr Nat) [4, 1] = .ok [2, 4, 3] := by decide
example : ArrModel.Gen.Core.Array_broadcast_shape (⟨[1, 2], [2]⟩ : Arr Nat) [3] = .err .BroadcastShapeMismatch := by decide

end ArrModel.C03
