import ArrModel.Broadcast
namespace ArrModel.C03
end ArrModel.C03
