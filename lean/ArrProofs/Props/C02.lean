import ArrProofs.Lemmas.Index
import ArrProofs.Lemmas.C02Ext
import ArrProofs.Lemmas.GenCore
/-!
# C02 — coordinates and flat positions are a row-major bijection

Property theorems only (helper lemmas live in `ArrProofs/Lemmas/Index.lean`).
Model under test: `ArrModel/Index.lean` (`indexAt`, `indexToCoord`, `atc`, `opIndex`, `opIndexCoords`),
which transcribes `indexing.rs:149-181` and `ops.rs:8-24` fold for fold.
-/
namespace ArrModel.C02
open ArrModel Arr

variable {α : Type}

/-- lexicographic order on coordinate vectors of equal length -/
def lexLt : List Nat → List Nat → Bool
  | c :: cs, d :: ds => decide (c < d) || (decide (c = d) && lexLt cs ds)
  | _, _ => false

/-- **index_at, accepted inputs**: exactly the in-range vectors of the right length, and the
answer is the row-major position. -/
theorem indexAt_ok_iff (a : Arr α) (c : List Nat) (i : Nat) :
    a.indexAt c = .ok i ↔ (inRange a.shape c = true ∧ i = ravel a.shape c) := by
  unfold Arr.indexAt
  by_cases hl : a.shape.length = c.length
  · rw [if_neg (by simpa using hl), anyOut_eq _ _ hl]
    cases hr : inRange a.shape c
    · simp
    · simp [indexAtFold_eq _ _ hl, eq_comm]
  · rw [if_pos hl]
    constructor
    · intro h; cases h
    · rintro ⟨h, _⟩; exact absurd (inRange_length _ _ h).symm hl

/-- **index_at, rejected inputs**: a vector of the wrong length or with a component out of
range yields an error value (never a panic, never a position). -/
theorem indexAt_err_iff (a : Arr α) (c : List Nat) :
    a.indexAt c = .err .ParameterError ↔ inRange a.shape c = false := by
  unfold Arr.indexAt
  by_cases hl : a.shape.length = c.length
  · rw [if_neg (by simpa using hl), anyOut_eq _ _ hl]
    cases hr : inRange a.shape c <;> simp
  · rw [if_pos hl]
    have : inRange a.shape c ≠ true := fun h => hl (inRange_length _ _ h).symm
    simpa using this

theorem indexAt_never_panics (a : Arr α) (c : List Nat) : a.indexAt c ≠ .panic := by
  unfold Arr.indexAt; split
  · simp
  · split <;> simp

/-- wrong length is out of range -/
theorem wrong_length_rejected (a : Arr α) (c : List Nat) (h : c.length ≠ a.shape.length) :
    a.indexAt c = .err .ParameterError :=
  (indexAt_err_iff a c).2 (by
    cases hr : inRange a.shape c
    · rfl
    · exact absurd (inRange_length _ _ hr) h)

/-- **index_to_coord**: defined exactly below the length; the answer is the structural unravel. -/
theorem indexToCoord_ok (a : Arr α) (hwf : a.WF) (i : Nat) (h : i < a.len) :
    a.indexToCoord i = .ok (unravel a.shape i) := by
  unfold Arr.indexToCoord
  rw [if_neg (by omega)]
  rw [unravelFold_eq _ _ (by rw [← hwf]; exact h)]

theorem indexToCoord_err (a : Arr α) (i : Nat) (h : a.len ≤ i) :
    a.indexToCoord i = .err .ParameterError := by
  unfold Arr.indexToCoord; rw [if_pos h]

/-- **round trip 1**: position → coordinates → position -/
theorem indexAt_indexToCoord (a : Arr α) (hwf : a.WF) (i : Nat) (h : i < a.len) :
    (a.indexToCoord i >>= a.indexAt) = .ok i := by
  rw [indexToCoord_ok a hwf i h]
  have hp : i < a.shape.prod := by rw [← hwf]; exact h
  have ⟨h1, h2⟩ := ravel_unravel a.shape i hp
  simp only [Res.bind_ok]
  exact (indexAt_ok_iff a _ i).2 ⟨h2, h1.symm⟩

/-- **round trip 2**: coordinates → position → coordinates -/
theorem indexToCoord_indexAt (a : Arr α) (hwf : a.WF) (c : List Nat) (h : inRange a.shape c = true) :
    (a.indexAt c >>= a.indexToCoord) = .ok c := by
  rw [(indexAt_ok_iff a c _).2 ⟨h, rfl⟩]
  simp only [Res.bind_ok]
  have hlt := ravel_lt _ _ h
  rw [indexToCoord_ok a hwf _ (by unfold Arr.len; rw [hwf]; exact hlt), unravel_ravel _ _ h]

/-- positions produced are inside the element list -/
theorem indexAt_lt_len (a : Arr α) (hwf : a.WF) (c : List Nat) (i : Nat) (h : a.indexAt c = .ok i) :
    i < a.len := by
  obtain ⟨hr, rfl⟩ := (indexAt_ok_iff a c i).1 h
  unfold Arr.len; rw [hwf]; exact ravel_lt _ _ hr

/-- **last axis varies fastest**: bumping the last coordinate bumps the position by one -/
theorem ravel_last_succ : ∀ (s c : List Nat) (d x : Nat), s.length = c.length →
    ravel (s ++ [d]) (c ++ [x + 1]) = ravel (s ++ [d]) (c ++ [x]) + 1
  | [], [], d, x, _ => by simp [ravel]
  | e :: es, y :: ys, d, x, h => by
    simp only [List.cons_append, ravel]
    rw [ravel_last_succ es ys d x (by simpa using h)]; omega
  | [], _ :: _, _, _, h => by simp at h
  | _ :: _, [], _, _, h => by simp at h

/-- **positions grow with the lexicographic (row-major) order** -/
theorem ravel_strictMono : ∀ (s c c' : List Nat), inRange s c = true → inRange s c' = true →
    lexLt c c' = true → ravel s c < ravel s c'
  | [], [], [], _, _, h => by simp [lexLt] at h
  | d :: ds, x :: xs, y :: ys, h1, h2, h => by
    simp only [inRange, Bool.and_eq_true, decide_eq_true_eq] at h1 h2
    simp only [lexLt, Bool.or_eq_true, decide_eq_true_eq, Bool.and_eq_true] at h
    simp only [ravel]
    rcases h with h | ⟨rfl, h⟩
    · have hx := ravel_lt ds xs h1.2
      have : (x + 1) * ds.prod ≤ y * ds.prod := Nat.mul_le_mul_right _ h
      rw [Nat.add_mul] at this; omega
    · have := ravel_strictMono ds xs ys h1.2 h2.2 h; omega
  | [], _ :: _, _, h1, _, _ => by simp [inRange] at h1
  | _ :: _, [], _, h1, _, _ => by simp [inRange] at h1
  | [], [], _ :: _, _, h2, _ => by simp [inRange] at h2
  | _ :: _, _ :: _, [], _, h2, _ => by simp [inRange] at h2

/-- **lookup by coordinates (method)** returns the element stored at the row-major position -/
theorem atc_ok (a : Arr α) (hwf : a.WF) (c : List Nat) (h : inRange a.shape c = true) :
    ∃ x, a.atc c = .ok x ∧ a.elems[ravel a.shape c]? = some x := by
  have hlt : ravel a.shape c < a.elems.length := by rw [hwf]; exact ravel_lt _ _ h
  refine ⟨a.elems[ravel a.shape c], ?_, by simp [hlt]⟩
  unfold Arr.atc
  rw [(indexAt_ok_iff a c _).2 ⟨h, rfl⟩]
  simp [Res.idx, hlt]

theorem atc_err (a : Arr α) (c : List Nat) (h : inRange a.shape c = false) :
    a.atc c = .err .ParameterError := by
  unfold Arr.atc; rw [(indexAt_err_iff a c).2 h]

/-- **lookup by coordinates (operator)** agrees with the method where the method succeeds;
otherwise the operator (which cannot return a `Result`) refuses by panicking. -/
theorem opIndexCoords_eq_atc (a : Arr α) (hwf : a.WF) (c : List Nat) (h : inRange a.shape c = true) :
    a.opIndexCoords c = a.atc c := by
  unfold Arr.opIndexCoords Arr.atc
  rw [(indexAt_ok_iff a c _).2 ⟨h, rfl⟩]

theorem opIndexCoords_refuses (a : Arr α) (c : List Nat) (h : inRange a.shape c = false) :
    a.opIndexCoords c = .panic := by
  unfold Arr.opIndexCoords; rw [(indexAt_err_iff a c).2 h]

/-- **flat operator** `a[i]`: defined iff `i < len`, returns the stored element -/
theorem opIndex_ok_iff (a : Arr α) (i : Nat) (x : α) : a.opIndex i = .ok x ↔ a.elems[i]? = some x := by
  unfold Arr.opIndex Res.idx
  cases a.elems[i]? <;> simp

theorem opIndex_refuses (a : Arr α) (i : Nat) (h : a.len ≤ i) : a.opIndex i = .panic := by
  unfold Arr.opIndex Res.idx
  have : a.elems[i]? = none := by simp [Arr.len] at h; simp [h]
  rw [this]

/-- **at ∘ index_to_coord = flat operator** on every valid position -/
theorem atc_indexToCoord (a : Arr α) (hwf : a.WF) (i : Nat) (h : i < a.len) :
    (a.indexToCoord i >>= a.atc) = a.opIndex i := by
  rw [indexToCoord_ok a hwf i h]
  have hp : i < a.shape.prod := by rw [← hwf]; exact h
  have ⟨h1, h2⟩ := ravel_unravel a.shape i hp
  simp only [Res.bind_ok, Arr.atc, Arr.opIndex]
  rw [(indexAt_ok_iff a _ i).2 ⟨h2, h1.symm⟩]

/-! ### non-vacuity: concrete instances meeting the hypotheses -/
example : (⟨List.range 24, [2, 3, 4]⟩ : Arr Nat).WF ∧ inRange [2, 3, 4] [1, 2, 3] = true := by decide
example : (⟨List.range 24, [2, 3, 4]⟩ : Arr Nat).atc [1, 2, 3] = .ok 23 := by decide
example : (⟨List.range 24, [2, 3, 4]⟩ : Arr Nat).indexToCoord 23 = .ok [1, 2, 3] := by decide
example : (⟨List.range 24, [2, 3, 4]⟩ : Arr Nat).atc [1, 3, 0] = .err .ParameterError := by decide
example : lexLt [0, 2, 3] [1, 0, 0] = true := by decide

/-! ## extension: the two remaining lookup operations, `slice(range)` and `indices_at(indices)`

Model: `ArrModel/IndexExt.lean` (`Arr.slice`, `Arr.indicesAt`), transcribing `indexing.rs:183-234` arm for arm
(`indices_at` after the repair fixes/C02-indices-at-empty-rows.diff).
The theorems state what the code does for every shape, range and index list.  For rank ≥ 2 the code of `slice` places
the window at flat offset `new_shape[0] * start`, which is the offset of row `start` only when `start = 0` or when the
leading length of the result equals the row size (`slice_nd_rows`, `slice_nd_row`); otherwise the rows returned are not
rows `start..stop` (`slice_nd_window_get` says which elements they are; see the counterexamples at the end and
fixes/C02-slice-row-offset.md).  No property statement speaks about `slice`, so this is recorded, not repaired. -/

/-- the window `slice` cuts out of the flat element list for rank ≥ 2: refused when it is empty or leaves the buffer -/
def sliceWindow (a : Arr α) (off : Nat) (shape : List Nat) : Res (Arr α) :=
  if shape.prod = 0 ∨ a.len < off + shape.prod then .err .OutOfBounds
  else .ok ⟨(a.elems.drop off).take shape.prod, shape⟩

/-- **slice, invalid range** (every rank, every array): `start > end` or `end > len` is an error value -/
theorem slice_invalid (a : Arr α) (start stop : Nat) (h : stop < start ∨ a.len < stop) :
    a.slice start stop = .err .OutOfBounds := by
  unfold Arr.slice
  rw [if_pos]
  unfold Arr.len at h
  rcases h with h | h
  · have : decide (start ≤ stop) = false := by simpa using h
    simp [this]
  · have : decide (stop ≤ a.elems.length) = false := by simpa using h
    simp [this]

/-- **slice, 1-D**: a valid range returns exactly the sub-list `start..stop`, as a 1-D array of that length -/
theorem slice_1d (a : Arr α) (n : Nat) (hs : a.shape = [n]) (start stop : Nat) (h1 : start ≤ stop) (h2 : stop ≤ a.len) :
    a.slice start stop = .ok ⟨(a.elems.drop start).take (stop - start), [stop - start]⟩ := by
  unfold Arr.slice
  rw [slice_valid_unfold a start stop h1 h2]
  simp only [Bool.false_eq_true, if_false, hs, List.length_singleton, if_true]
  rw [vrange_ok a.elems start stop h1 h2, Res.bind_ok]
  have h2' : stop ≤ a.elems.length := h2
  unfold Arr.flat
  congr 2
  simp only [List.length_take, List.length_drop]; rw [Nat.min_eq_left (by omega)]

/-- 1-D, element by element: position `i` of the result is position `start + i` of the input -/
theorem slice_1d_get (a : Arr α) (n : Nat) (hs : a.shape = [n]) (start stop : Nat) (h1 : start ≤ stop) (h2 : stop ≤ a.len)
    (i : Nat) (hi : i < stop - start) :
    ∃ r, a.slice start stop = .ok r ∧ r.get? [i] = a.get? [start + i] := by
  refine ⟨_, slice_1d a n hs start stop h1 h2, ?_⟩
  unfold Arr.get?
  simp only [hs, ravel, List.prod_nil, Nat.mul_one, Nat.add_zero]
  exact getElem?_window _ _ _ _ hi

/-- **slice, rank ≥ 2, closed form** (every array, every valid range; `w = stop - start`):
* `w ≥ shape[0]` — whatever `start` is — returns the array itself;
* `2 ≤ w < shape[0]`: the `w * row` elements from flat offset `w * start`, shape `w :: shape[1..]`;
* `w ≤ 1 < …` (`w = 1`, and also the empty range `w = 0`): the first axis is dropped; the `row` elements from flat
  offset `shape[1] * start`, shape `shape[1..]`;
  in both cases an error when the window is empty or leaves the buffer. -/
theorem slice_nd (a : Arr α) (d0 d1 : Nat) (t : List Nat) (hs : a.shape = d0 :: d1 :: t)
    (start stop : Nat) (h1 : start ≤ stop) (h2 : stop ≤ a.len) :
    a.slice start stop =
      if d0 ≤ stop - start then .ok a
      else if 2 ≤ stop - start then sliceWindow a ((stop - start) * start) ((stop - start) :: d1 :: t)
      else sliceWindow a (d1 * start) (d1 :: t) := by
  unfold Arr.slice
  rw [slice_valid_unfold a start stop h1 h2]
  have h2' : stop ≤ a.elems.length := h2
  simp only [Bool.false_eq_true, if_false, hs, List.length_cons]
  rw [if_neg (by omega)]
  simp only [Res.idx, List.getElem?_cons_zero, Res.bind_ok, List.drop_succ_cons, List.drop_zero, ge_iff_le, gt_iff_lt]
  by_cases hc : d0 ≤ stop - start
  · rw [if_pos hc, if_pos hc]
  · rw [if_neg hc, if_neg hc]
    unfold sliceWindow Arr.len
    by_cases hw : 2 ≤ stop - start
    · rw [if_pos (by omega), if_pos hw]
      simp only [List.getElem?_cons_zero, Res.bind_ok]
      by_cases he : ((stop - start) :: d1 :: t).prod = 0 ∨ (stop - start) * start + ((stop - start) :: d1 :: t).prod > a.elems.length
      · rw [if_pos he, if_pos (by omega)]
      · rw [if_neg he, if_neg he]
        exact sliceCopy a.elems _ _ _ (by omega) (by omega)
    · rw [if_neg (by omega), if_neg hw]
      simp only [List.getElem?_cons_zero, Res.bind_ok]
      by_cases he : (d1 :: t).prod = 0 ∨ d1 * start + (d1 :: t).prod > a.elems.length
      · rw [if_pos he, if_pos (by omega)]
      · rw [if_neg he, if_neg he]
        exact sliceCopy a.elems _ _ _ (by omega) (by omega)

/-- **windows of length ≥ 2, by coordinates**: shape `w :: shape[1..]`, consistent, and entry `(i :: c)` is the element at
flat position `w * start + (position of (i :: c) in the result)` -/
theorem slice_nd_window_get (a : Arr α) (d0 d1 : Nat) (t : List Nat) (hs : a.shape = d0 :: d1 :: t)
    (start stop : Nat) (h1 : start ≤ stop) (h2 : stop ≤ a.len) (hw : 2 ≤ stop - start) (hlt : stop - start < d0)
    (r : Arr α) (hr : a.slice start stop = .ok r) :
    r.shape = (stop - start) :: d1 :: t ∧ r.WF ∧
    (stop - start) * start + (stop - start) * (d1 :: t).prod ≤ a.len ∧
    ∀ i c, i < stop - start → inRange (d1 :: t) c = true →
      r.get? (i :: c) = a.elems[(stop - start) * start + (i * (d1 :: t).prod + ravel (d1 :: t) c)]? := by
  rw [slice_nd a d0 d1 t hs start stop h1 h2, if_neg (by omega), if_pos hw] at hr
  unfold sliceWindow at hr
  split at hr
  · cases hr
  · rename_i hne
    injection hr with hr; subst hr
    have hP : ((stop - start) :: d1 :: t).prod = (stop - start) * (d1 :: t).prod := List.prod_cons
    rw [hP] at hne ⊢
    refine ⟨rfl, ?_, by omega, fun i c hi hc => window_get? a.elems _ _ _ c i hi hc⟩
    unfold Arr.WF Arr.len at *
    simp only [List.length_take, List.length_drop, hP]; omega

/-- **rows `start..stop`** (`2 ≤ w < shape[0]`): when the offset the code uses is the offset of row `start`
(`w * start = start * row`: `start = 0`, or `w` equal to the row size) the window lies inside the first axis and
`result[i :: c] = a[(start + i) :: c]` -/
theorem slice_nd_rows (a : Arr α) (hwf : a.WF) (d0 d1 : Nat) (t : List Nat) (hs : a.shape = d0 :: d1 :: t)
    (start stop : Nat) (h1 : start ≤ stop) (h2 : stop ≤ a.len) (hw : 2 ≤ stop - start) (hlt : stop - start < d0)
    (hal : (stop - start) * start = start * (d1 :: t).prod)
    (r : Arr α) (hr : a.slice start stop = .ok r) :
    stop ≤ d0 ∧ r.shape = (stop - start) :: d1 :: t ∧ r.WF ∧
    ∀ i c, i < stop - start → inRange (d1 :: t) c = true → r.get? (i :: c) = a.get? ((start + i) :: c) := by
  obtain ⟨g1, g2, g3, g4⟩ := slice_nd_window_get a d0 d1 t hs start stop h1 h2 hw hlt r hr
  have hlen : a.len = d0 * (d1 :: t).prod := by unfold Arr.len; rw [hwf, hs, List.prod_cons]
  have hpos : 0 < (d1 :: t).prod := by
    rcases Nat.eq_zero_or_pos (d1 :: t).prod with h0 | h0
    · rw [hlen, h0] at h2; omega
    · exact h0
  refine ⟨?_, g1, g2, ?_⟩
  · rw [hal, hlen, ← Nat.add_mul] at g3
    have := Nat.le_of_mul_le_mul_right g3 hpos
    omega
  · intro i c hi hc
    rw [g4 i c hi hc]
    unfold Arr.get?
    rw [hs]; simp only [ravel]
    rw [hal, Nat.add_mul]; congr 1; omega

/-- **windows of length 1 (and the empty range), by coordinates**: the first axis is dropped; entry `c` is the element
at flat position `shape[1] * start + (position of c in the result)` -/
theorem slice_nd_row_get (a : Arr α) (d0 d1 : Nat) (t : List Nat) (hs : a.shape = d0 :: d1 :: t)
    (start stop : Nat) (h1 : start ≤ stop) (h2 : stop ≤ a.len) (hw : stop - start ≤ 1) (hlt : stop - start < d0)
    (r : Arr α) (hr : a.slice start stop = .ok r) :
    r.shape = d1 :: t ∧ r.WF ∧ d1 * start + (d1 :: t).prod ≤ a.len ∧
    ∀ c, inRange (d1 :: t) c = true → r.get? c = a.elems[d1 * start + ravel (d1 :: t) c]? := by
  rw [slice_nd a d0 d1 t hs start stop h1 h2, if_neg (by omega), if_neg (by omega)] at hr
  unfold sliceWindow at hr
  split at hr
  · cases hr
  · rename_i hne
    injection hr with hr; subst hr
    refine ⟨rfl, ?_, by omega, fun c hc => row_get? a.elems _ _ c hc⟩
    unfold Arr.WF Arr.len at *
    simp only [List.length_take, List.length_drop]; omega

/-- **row `start`** (`w = 1 < shape[0]`): when `shape[1] * start = start * row` — every array of rank 2, every array
whose axes after the second have length 1, or `start = 0` — the result is row `start`: `result[c] = a[start :: c]` -/
theorem slice_nd_row (a : Arr α) (hwf : a.WF) (d0 d1 : Nat) (t : List Nat) (hs : a.shape = d0 :: d1 :: t)
    (start : Nat) (h2 : start + 1 ≤ a.len) (hlt : 1 < d0) (hal : d1 * start = start * (d1 :: t).prod)
    (r : Arr α) (hr : a.slice start (start + 1) = .ok r) :
    start < d0 ∧ r.shape = d1 :: t ∧ r.WF ∧ ∀ c, inRange (d1 :: t) c = true → r.get? c = a.get? (start :: c) := by
  obtain ⟨g1, g2, g3, g4⟩ := slice_nd_row_get a d0 d1 t hs start (start + 1) (by omega) h2 (by omega) (by omega) r hr
  have hlen : a.len = d0 * (d1 :: t).prod := by unfold Arr.len; rw [hwf, hs, List.prod_cons]
  have hpos : 0 < (d1 :: t).prod := by
    rcases Nat.eq_zero_or_pos (d1 :: t).prod with h0 | h0
    · rw [hlen, h0] at h2; omega
    · exact h0
  refine ⟨?_, g1, g2, ?_⟩
  · rw [hal, hlen] at g3
    have : (start + 1) * (d1 :: t).prod ≤ d0 * (d1 :: t).prod := by rw [Nat.add_mul]; omega
    have := Nat.le_of_mul_le_mul_right this hpos
    omega
  · intro c hc
    rw [g4 c hc]
    unfold Arr.get?
    rw [hs]; simp only [ravel]
    rw [hal]

/-- rank 2: `slice(i..i+1)` is row `i` for every in-range `i`, an error beyond the first axis -/
theorem slice_2d_row (a : Arr α) (hwf : a.WF) (d0 d1 : Nat) (hs : a.shape = [d0, d1]) (hd : 1 < d0) (hd1 : 0 < d1) (i : Nat) :
    (i < d0 → ∃ r, a.slice i (i + 1) = .ok r ∧ r.shape = [d1] ∧ ∀ j, j < d1 → r.get? [j] = a.get? [i, j]) ∧
    (d0 ≤ i → a.slice i (i + 1) = .err .OutOfBounds) := by
  have hlen : a.len = d0 * d1 := by unfold Arr.len; rw [hwf, hs]; simp
  constructor
  · intro hi
    have hle : i + 1 ≤ a.len := by
      rw [hlen]
      have : (i + 1) * 1 ≤ d0 * d1 := Nat.mul_le_mul hi hd1
      omega
    have hsl := slice_nd a d0 d1 [] hs i (i + 1) (by omega) hle
    rw [if_neg (by omega), if_neg (by omega)] at hsl
    have hin : ¬ (([d1] : List Nat).prod = 0 ∨ a.len < d1 * i + ([d1] : List Nat).prod) := by
      simp only [List.prod_cons, List.prod_nil, Nat.mul_one]
      have : (i + 1) * d1 ≤ d0 * d1 := Nat.mul_le_mul_right _ hi
      rw [Nat.add_mul, Nat.mul_comm i d1] at this
      omega
    unfold sliceWindow at hsl
    rw [if_neg hin] at hsl
    obtain ⟨_, g2, _, g4⟩ := slice_nd_row a hwf d0 d1 [] hs i hle hd (by simp [Nat.mul_comm]) _ hsl
    refine ⟨_, hsl, g2, fun j hj => g4 [j] (by simp [inRange, hj])⟩
  · intro hi
    by_cases hle : i + 1 ≤ a.len
    · have hsl := slice_nd a d0 d1 [] hs i (i + 1) (by omega) hle
      rw [if_neg (by omega), if_neg (by omega)] at hsl
      rw [hsl]; unfold sliceWindow
      rw [if_pos]
      right
      simp only [List.prod_cons, List.prod_nil, Nat.mul_one]
      have : d0 * d1 ≤ i * d1 := Nat.mul_le_mul_right _ hi
      rw [Nat.mul_comm i d1] at this
      omega
    · exact slice_invalid a i (i + 1) (Or.inr (by omega))

/-- **slice never panics** on an array of rank ≥ 1 (a rank-0 array does: `self.shape[0]`, see the examples) -/
theorem slice_never_panics (a : Arr α) (hr : 1 ≤ a.ndim) (start stop : Nat) : a.slice start stop ≠ .panic := by
  by_cases hv : start ≤ stop ∧ stop ≤ a.len
  · obtain ⟨h1, h2⟩ := hv
    match hs : a.shape with
    | [] => unfold Arr.ndim at hr; rw [hs] at hr; simp at hr
    | [n] => rw [slice_1d a n hs start stop h1 h2]; simp
    | d0 :: d1 :: t =>
      rw [slice_nd a d0 d1 t hs start stop h1 h2]
      unfold sliceWindow
      split
      · simp
      · split <;> split <;> simp
  · rw [slice_invalid a start stop (by omega)]; simp

/-! ### `indices_at` -/

/-- **indices_at, 1-D**: every index below the length (any order, repetitions allowed) ⇒ the 1-D array of the
addressed elements: `result[k] = a[indices[k]]`; an index at or beyond the length ⇒ error -/
theorem indicesAt_1d (a : Arr α) (n : Nat) (hs : a.shape = [n]) (idx : List Nat) :
    ((∀ i ∈ idx, i < a.len) → ∃ r, a.indicesAt idx = .ok r ∧ r.shape = [idx.length] ∧ r.WF ∧
        ∀ k (hk : k < idx.length), r.get? [k] = a.get? [idx[k]]) ∧
    ((∃ i ∈ idx, a.len ≤ i) → a.indicesAt idx = .err .OutOfBounds) := by
  have hnd : a.ndim = 1 := by unfold Arr.ndim; rw [hs]; rfl
  constructor
  · intro hall
    obtain ⟨ys, h1, h2, h3⟩ := mapM'_idx a.elems idx hall
    have hany : idx.any (fun i => decide (i ≥ a.len)) = false := by
      simp only [List.any_eq_false, decide_eq_true_eq]; intro i hi; have := hall i hi; omega
    refine ⟨Arr.flat ys, ?_, by simp [Arr.flat, h2], by simp [Arr.flat, Arr.WF], ?_⟩
    · unfold Arr.indicesAt
      rw [if_pos hnd, hany]
      simp only [Bool.false_eq_true, if_false]
      show (Res.mapM' (Res.idx a.elems) idx >>= fun l => Res.ok (Arr.flat l)) = _
      rw [h1, Res.bind_ok]
    · intro k hk
      unfold Arr.get? Arr.flat
      simp only [hs, ravel, List.prod_nil, Nat.mul_one, Nat.add_zero]
      rw [h3 k, List.getElem?_eq_getElem hk]; rfl
  · rintro ⟨i, hi, hle⟩
    have hany : idx.any (fun i => decide (i ≥ a.len)) = true := by
      simp only [List.any_eq_true, decide_eq_true_eq]; exact ⟨i, hi, hle⟩
    unfold Arr.indicesAt
    rw [if_pos hnd, hany]; rfl

/-- **indices_at, rank ≥ 2** (every consistent array, zero-length axes included): every index below `shape[0]` (any
order, repetitions allowed) ⇒ shape = the input shape with the first axis replaced by the number of indices,
consistent, and `result[k :: c] = a[indices[k] :: c]`; an index at or beyond `shape[0]` ⇒ error -/
theorem indicesAt_nd (a : Arr α) (hwf : a.WF) (d0 d1 : Nat) (t : List Nat) (hs : a.shape = d0 :: d1 :: t)
    (idx : List Nat) :
    ((∀ i ∈ idx, i < d0) → ∃ r, a.indicesAt idx = .ok r ∧ r.shape = idx.length :: d1 :: t ∧ r.WF ∧
        ∀ k (hk : k < idx.length) c, inRange (d1 :: t) c = true → r.get? (k :: c) = a.get? (idx[k] :: c)) ∧
    ((∃ i ∈ idx, d0 ≤ i) → a.indicesAt idx = .err .OutOfBounds) := by
  have hnd : ¬ a.ndim = 1 := by unfold Arr.ndim; rw [hs]; simp
  have hnd0 : ¬ 0 ≥ a.ndim := by unfold Arr.ndim; rw [hs]; simp
  have hidx : Res.idx a.shape 0 = .ok d0 := by rw [hs]; rfl
  generalize hTdef : d1 :: t = T at *
  have hlenE : a.elems.length = d0 * T.prod := by rw [hwf, hs, List.prod_cons]
  have hidx' : Res.idx (d0 :: T) 0 = .ok d0 := rfl
  constructor
  · intro hall
    have hany : idx.any (fun i => decide (i ≥ d0)) = false := by
      simp only [List.any_eq_false, decide_eq_true_eq]; intro i hi; have := hall i hi; omega
    by_cases hne : a.elems = []
    · -- empty array: the empty result of the requested shape
      have hemp : a.isEmpty = true := by unfold Arr.isEmpty; simp [hne]
      have hprod : (idx.length :: T).prod = 0 := by
        rw [hne] at hlenE
        rcases Nat.mul_eq_zero.1 hlenE.symm with h0 | h0
        · have : idx = [] := by
            cases idx with
            | nil => rfl
            | cons x xs => have := hall x List.mem_cons_self; omega
          simp [this]
        · simp [h0]
      refine ⟨⟨[], idx.length :: T⟩, ?_, rfl, by unfold Arr.WF; rw [hprod]; rfl, ?_⟩
      · unfold Arr.indicesAt
        rw [if_neg hnd, if_neg hnd0]
        simp only [hs, hidx', Res.bind_ok, hany, Bool.false_eq_true, if_false, hemp, if_true, List.set_cons_zero]
        unfold Arr.new
        rw [if_pos (by rw [hprod]; rfl)]
      · intro k hk c _
        unfold Arr.get?; simp [hne]
    · obtain ⟨hd0, hT, hrows⟩ := axis0Pieces_rows a hwf d0 T hs hne
      have hemp : a.isEmpty = false := by
        unfold Arr.isEmpty
        have := List.length_pos_iff.2 hne
        simp; omega
      have hmap : Res.mapM' (fun i => Res.idx a.axis0Pieces i) idx
          = .ok (idx.map (fun i => (a.elems.drop (i * T.prod)).take T.prod)) := by
        apply sequence_map_ok
        intro i hi
        have := hall i hi
        simp [Res.idx, hrows, this]
      have hblk : ∀ l ∈ idx.map (fun i => (a.elems.drop (i * T.prod)).take T.prod), l.length = T.prod := by
        intro l hl
        obtain ⟨i, hi, rfl⟩ := List.mem_map.1 hl
        have := hall i hi
        have : (i + 1) * T.prod ≤ d0 * T.prod := Nat.mul_le_mul_right _ this
        rw [Nat.add_mul] at this
        simp only [List.length_take, List.length_drop]; omega
      have hfl := length_flatten_const _ _ hblk
      rw [List.length_map] at hfl
      refine ⟨⟨(idx.map (fun i => (a.elems.drop (i * T.prod)).take T.prod)).flatten, idx.length :: T⟩, ?_, rfl, ?_, ?_⟩
      · unfold Arr.indicesAt
        rw [if_neg hnd, if_neg hnd0]
        simp only [hs, hidx', Res.bind_ok, hany, Bool.false_eq_true, if_false, hemp, hmap, List.set_cons_zero]
        unfold Arr.reshape Arr.new Arr.flat
        simp only
        rw [if_pos (by rw [hfl, List.prod_cons])]
      · unfold Arr.WF; simp only [hfl, List.prod_cons]
      · intro k hk c hc
        have hrv := ravel_lt T c hc
        unfold Arr.get?
        simp only [hs, ravel]
        rw [getElem?_flatten_const _ _ hblk k _ hrv]
        simp only [List.getElem?_map, List.getElem?_eq_getElem hk, Option.map_some, Option.bind_some]
        exact getElem?_window _ _ _ _ hrv
  · rintro ⟨i, hi, hle⟩
    have hany : idx.any (fun i => decide (i ≥ d0)) = true := by
      simp only [List.any_eq_true, decide_eq_true_eq]; exact ⟨i, hi, hle⟩
    unfold Arr.indicesAt
    rw [if_neg hnd, if_neg hnd0]
    simp only [hs, hidx', Res.bind_ok, hany, if_true]

/-- **indices_at never panics** (every array, every rank — rank 0 is refused with an error) -/
theorem indicesAt_never_panics (a : Arr α) (idx : List Nat) : a.indicesAt idx ≠ .panic := by
  unfold Arr.indicesAt
  split
  · split
    · simp
    · rename_i hany
      have hall : ∀ i ∈ idx, a.opIndex i ≠ .panic := by
        intro i hi
        simp only [List.any_eq_true, decide_eq_true_eq, not_exists, not_and] at hany
        have := hany i hi
        unfold Arr.opIndex Res.idx Arr.len at *
        rw [List.getElem?_eq_getElem (by omega)]; simp
      have := mapM'_never_panics (fun i => a.opIndex i) idx hall
      cases hm : Res.mapM' (fun i => a.opIndex i) idx with
      | panic => exact absurd hm this
      | err e => simp
      | ok v => simp
  · split
    · simp
    · rename_i hr1 hr0
      match hs : a.shape with
      | [] => unfold Arr.ndim at hr0; rw [hs] at hr0; simp at hr0
      | d0 :: T =>
        have hidx : Res.idx (d0 :: T) 0 = .ok d0 := rfl
        simp only [hidx, Res.bind_ok]
        split
        · simp
        · rename_i hany
          split
          · unfold Arr.new; split <;> simp
          · rename_i hemp
            have hlen : a.axis0Pieces.length = d0 := by
              unfold Arr.axis0Pieces; simp [hemp, hs]
            have hall : ∀ i ∈ idx, Res.idx a.axis0Pieces i ≠ .panic := by
              intro i hi
              simp only [List.any_eq_true, decide_eq_true_eq, not_exists, not_and] at hany
              have := hany i hi
              unfold Res.idx
              rw [List.getElem?_eq_getElem (by omega)]; simp
            have := mapM'_never_panics (fun i => Res.idx a.axis0Pieces i) idx hall
            cases hm : Res.mapM' (fun i => Res.idx a.axis0Pieces i) idx with
            | panic => exact absurd hm this
            | err e => simp
            | ok v =>
              simp only [Res.bind_ok]
              unfold Arr.reshape Arr.new
              split <;> simp

/-- **relation to the flat operator** (C02's statement): on a 1-D array `indices_at [i]` and `slice i..i+1` both
return the one-element array holding `a[i]` for every position below the length; at or beyond the length the two
methods return an error value where the operator panics (`opIndex_refuses`) -/
theorem lookup_agree_1d (a : Arr α) (n : Nat) (hs : a.shape = [n]) (i : Nat) :
    (i < a.len → a.indicesAt [i] = (a.opIndex i).map (fun x => Arr.flat [x]) ∧
                 a.slice i (i + 1) = (a.opIndex i).map (fun x => Arr.flat [x])) ∧
    (a.len ≤ i → a.indicesAt [i] = .err .OutOfBounds ∧ a.slice i (i + 1) = .err .OutOfBounds ∧ a.opIndex i = .panic) := by
  have hnd : a.ndim = 1 := by unfold Arr.ndim; rw [hs]; rfl
  constructor
  · intro hi
    have hop : a.opIndex i = .ok a.elems[i] := by
      unfold Arr.opIndex Res.idx; unfold Arr.len at hi; rw [List.getElem?_eq_getElem hi]
    constructor
    · unfold Arr.indicesAt
      rw [if_pos hnd]
      have : ([i].any fun i => decide (i ≥ a.len)) = false := by simp; omega
      rw [this]
      simp only [Bool.false_eq_true, if_false, Res.mapM', List.map_cons, List.map_nil, Res.sequence, hop, Res.bind_ok,
        Res.map]
    · rw [slice_1d a n hs i (i + 1) (by omega) (by omega), hop]
      unfold Arr.len at hi
      simp only [Res.map, Arr.flat, Nat.add_sub_cancel_left, List.length_singleton]
      congr 2
      rw [List.take_one, List.head?_drop, List.getElem?_eq_getElem hi]; rfl
  · intro hi
    refine ⟨(indicesAt_1d a n hs [i]).2 ⟨i, List.mem_singleton.2 rfl, hi⟩, slice_invalid a i (i + 1) (Or.inr (by omega)),
      opIndex_refuses a i hi⟩

/-! ### non-vacuity and the recorded deviations of `slice` (all checked by evaluation of the model; the same
case lines are part of the differential tie, so the real crate answers identically) -/
-- rows, as intended: rank 2, and a window whose length equals the row size
example : (⟨List.range 8, [4, 2]⟩ : Arr Nat).slice 1 2 = .ok ⟨[2, 3], [2]⟩ := by decide
example : (⟨List.range 8, [4, 2]⟩ : Arr Nat).slice 2 4 = .ok ⟨[4, 5, 6, 7], [2, 2]⟩ := by decide
example : (⟨List.range 8, [4, 2]⟩ : Arr Nat).WF ∧ (2 - 1) < 4 ∧ 2 * 1 = 1 * [2].prod := by decide
-- deviation 1: rank 3, window of length 1: row 1 of a [3,2,2] array is 4..7, the code returns 2..5
example : (⟨List.range 12, [3, 2, 2]⟩ : Arr Nat).slice 1 2 = .ok ⟨[2, 3, 4, 5], [2, 2]⟩ := by decide
-- deviation 2: window of length 2 ≠ row size 3: rows 1..3 of a [4,3] array are 3..8, the code returns 2..7
example : (⟨List.range 12, [4, 3]⟩ : Arr Nat).slice 1 3 = .ok ⟨[2, 3, 4, 5, 6, 7], [2, 3]⟩ := by decide
-- deviation 3 (pinned by the crate's own test_slice case 10): the range 2..3 lies outside the first axis of [2,2,2]
example : (⟨List.range 8, [2, 2, 2]⟩ : Arr Nat).slice 2 3 = .ok ⟨[4, 5, 6, 7], [2, 2]⟩ := by decide
-- deviation 4: a window at least as long as the first axis returns the whole array wherever it starts
example : (⟨List.range 6, [2, 3]⟩ : Arr Nat).slice 3 6 = .ok ⟨List.range 6, [2, 3]⟩ := by decide
-- deviation 5: the empty range returns a row
example : (⟨List.range 6, [2, 3]⟩ : Arr Nat).slice 0 0 = .ok ⟨[0, 1, 2], [3]⟩ := by decide
-- rank 0 (outside `slice_never_panics`): `self.shape[0]` panics
example : (⟨[7], []⟩ : Arr Nat).slice 0 1 = .panic := by decide
-- indices_at: any order, repetition; refusals
example : (⟨List.range 6, [3, 2]⟩ : Arr Nat).indicesAt [2, 0, 2] = .ok ⟨[4, 5, 0, 1, 4, 5], [3, 2]⟩ := by decide
example : (⟨List.range 6, [3, 2]⟩ : Arr Nat).indicesAt [3] = .err .OutOfBounds := by decide
example : (⟨List.range 4, [4]⟩ : Arr Nat).indicesAt [3, 3, 0] = .ok ⟨[3, 3, 0], [3]⟩ := by decide
-- zero-length axes: rows of an empty array are empty rows; the first axis of length 0 has no row 0
example : (⟨[], [2, 0]⟩ : Arr Nat).indicesAt [1, 0, 1] = .ok ⟨[], [3, 0]⟩ := by decide
example : (⟨[], [0, 0]⟩ : Arr Nat).indicesAt [0] = .err .OutOfBounds := by decide

/-! ## The same properties for the code as TRANSLATED FROM THE SOURCE

`ArrModel.Gen.Core.Array_index_at`, `Array_index_to_coord`, `Array_at` are regenerated from `src/core/operations/indexing.rs`
by `tools/rs2lean.py` on every run; `ArrProofs/Lemmas/GenCore.lean` proves them equal to the hand-written model for all
inputs, so every theorem above transfers.  A change of the Rust source that alters the behaviour breaks one of these. -/

open ArrModel.Gen.Core in
/-- **index_at (translated source) accepts exactly the in-range coordinate vectors**, and the answer is the row-major position -/
theorem gen_index_at_ok_iff (a : Arr α) (c : List Nat) (i : Nat) :
    Array_index_at a c = .ok i ↔ (inRange a.shape c = true ∧ i = ravel a.shape c) := by
  rw [index_at_eq]; exact indexAt_ok_iff a c i

open ArrModel.Gen.Core in
/-- … every other input is refused with an error value, never a panic, never a position -/
theorem gen_index_at_err_iff (a : Arr α) (c : List Nat) :
    Array_index_at a c = .err .ParameterError ↔ inRange a.shape c = false := by
  rw [index_at_eq]; exact indexAt_err_iff a c

open ArrModel.Gen.Core in
theorem gen_index_at_never_panics (a : Arr α) (c : List Nat) : Array_index_at a c ≠ .panic := by
  rw [index_at_eq]; exact indexAt_never_panics a c

open ArrModel.Gen.Core in
/-- **index_to_coord (translated source)**: defined exactly below the length; the answer is the structural unravel -/
theorem gen_index_to_coord_ok (a : Arr α) (hwf : a.WF) (i : Nat) (h : i < a.len) :
    Array_index_to_coord a i = .ok (unravel a.shape i) := by
  rw [index_to_coord_eq a hwf]; exact indexToCoord_ok a hwf i h

open ArrModel.Gen.Core in
theorem gen_index_to_coord_err (a : Arr α) (i : Nat) (h : a.len ≤ i) :
    Array_index_to_coord a i = .err .ParameterError := by
  rw [index_to_coord_eq' a i (.inr h)]; exact indexToCoord_err a i h

open ArrModel.Gen.Core in
/-- **mutually inverse, 1**: position → coordinates → position, through the translated functions -/
theorem gen_index_at_index_to_coord (a : Arr α) (hwf : a.WF) (i : Nat) (h : i < a.len) :
    (Array_index_to_coord a i >>= Array_index_at a) = .ok i := by
  rw [index_to_coord_eq a hwf]
  have : Array_index_at a = a.indexAt := funext (index_at_eq a)
  rw [this]; exact indexAt_indexToCoord a hwf i h

open ArrModel.Gen.Core in
/-- **mutually inverse, 2**: coordinates → position → coordinates -/
theorem gen_index_to_coord_index_at (a : Arr α) (hwf : a.WF) (c : List Nat) (h : inRange a.shape c = true) :
    (Array_index_at a c >>= Array_index_to_coord a) = .ok c := by
  rw [index_at_eq]
  have : Array_index_to_coord a = a.indexToCoord := funext (index_to_coord_eq a hwf)
  rw [this]; exact indexToCoord_indexAt a hwf c h

open ArrModel.Gen.Core in
/-- **row-major monotone**: the translated `index_at` grows strictly with the lexicographic order of the coordinates -/
theorem gen_index_at_strictMono (a : Arr α) (c c' : List Nat) (i i' : Nat)
    (h : Array_index_at a c = .ok i) (h' : Array_index_at a c' = .ok i') (hlt : lexLt c c' = true) : i < i' := by
  obtain ⟨hr, rfl⟩ := (gen_index_at_ok_iff a c i).1 h
  obtain ⟨hr', rfl⟩ := (gen_index_at_ok_iff a c' i').1 h'
  exact ravel_strictMono a.shape c c' hr hr' hlt

open ArrModel.Gen.Core in
/-- **`at` (translated source) returns the element stored at the row-major position** of an in-range coordinate vector … -/
theorem gen_at_ok (a : Arr α) (hwf : a.WF) (c : List Nat) (h : inRange a.shape c = true) :
    ∃ x, Array_at a c = .ok x ∧ a.elems[ravel a.shape c]? = some x := by
  rw [at_eq]; exact atc_ok a hwf c h

open ArrModel.Gen.Core in
/-- … and refuses every other one with an error value -/
theorem gen_at_err (a : Arr α) (c : List Nat) (h : inRange a.shape c = false) :
    Array_at a c = .err .ParameterError := by
  rw [at_eq]; exact atc_err a c h

example : ArrModel.Gen.Core.Array_index_at (⟨List.range 24, [2, 3, 4]⟩ : Arr Nat) [1, 2, 3] = .ok 23 := by decide
example : ArrModel.Gen.Core.Array_index_to_coord (⟨List.range 24, [2, 3, 4]⟩ : Arr Nat) 23 = .ok [1, 2, 3] := by decide
example : ArrModel.Gen.Core.Array_at (⟨List.range 24, [2, 3, 4]⟩ : Arr Nat) [1, 3, 0] = .err .ParameterError := by decide

end ArrModel.C02
