import ArrProofs.Lemmas.Index
/-!
# C02 — coordinates and flat positions are a row-major bijection

Property theorems only (helper lemmas live in `ArrProofs/Lemmas/Index.lean`).
Model under test: `ArrModel/Index.lean` (`indexAt`, `indexToCoord`, `atc`, `opIndex`, `opIndexCoords`),
which transcribes `indexing.rs:149-181` and `ops.rs:8-24` fold for fold.
-/
namespace ArrModel.C02
open ArrModel Arr

variable {α : Type}

/-- lexicographic order on coordinate vectors of equal length -/
def lexLt : List Nat → List Nat → Bool
  | c :: cs, d :: ds => decide (c < d) || (decide (c = d) && lexLt cs ds)
  | _, _ => false

/-- **index_at, accepted inputs**: exactly the in-range vectors of the right length, and the
answer is the row-major position. -/
theorem indexAt_ok_iff (a : Arr α) (c : List Nat) (i : Nat) :
    a.indexAt c = .ok i ↔ (inRange a.shape c = true ∧ i = ravel a.shape c) := by
  unfold Arr.indexAt
  by_cases hl : a.shape.length = c.length
  · rw [if_neg (by simpa using hl), anyOut_eq _ _ hl]
    cases hr : inRange a.shape c
    · simp
    · simp [indexAtFold_eq _ _ hl, eq_comm]
  · rw [if_pos hl]
    constructor
    · intro h; cases h
    · rintro ⟨h, _⟩; exact absurd (inRange_length _ _ h).symm hl

/-- **index_at, rejected inputs**: a vector of the wrong length or with a component out of
range yields an error value (never a panic, never a position). -/
theorem indexAt_err_iff (a : Arr α) (c : List Nat) :
    a.indexAt c = .err .ParameterError ↔ inRange a.shape c = false := by
  unfold Arr.indexAt
  by_cases hl : a.shape.length = c.length
  · rw [if_neg (by simpa using hl), anyOut_eq _ _ hl]
    cases hr : inRange a.shape c <;> simp
  · rw [if_pos hl]
    have : inRange a.shape c ≠ true := fun h => hl (inRange_length _ _ h).symm
    simpa using this

theorem indexAt_never_panics (a : Arr α) (c : List Nat) : a.indexAt c ≠ .panic := by
  unfold Arr.indexAt; split
  · simp
  · split <;> simp

/-- wrong length is out of range -/
theorem wrong_length_rejected (a : Arr α) (c : List Nat) (h : c.length ≠ a.shape.length) :
    a.indexAt c = .err .ParameterError :=
  (indexAt_err_iff a c).2 (by
    cases hr : inRange a.shape c
    · rfl
    · exact absurd (inRange_length _ _ hr) h)

/-- **index_to_coord**: defined exactly below the length; the answer is the structural unravel. -/
theorem indexToCoord_ok (a : Arr α) (hwf : a.WF) (i : Nat) (h : i < a.len) :
    a.indexToCoord i = .ok (unravel a.shape i) := by
  unfold Arr.indexToCoord
  rw [if_neg (by omega)]
  rw [unravelFold_eq _ _ (by rw [← hwf]; exact h)]

theorem indexToCoord_err (a : Arr α) (i : Nat) (h : a.len ≤ i) :
    a.indexToCoord i = .err .ParameterError := by
  unfold Arr.indexToCoord; rw [if_pos h]

/-- **round trip 1**: position → coordinates → position -/
theorem indexAt_indexToCoord (a : Arr α) (hwf : a.WF) (i : Nat) (h : i < a.len) :
    (a.indexToCoord i >>= a.indexAt) = .ok i := by
  rw [indexToCoord_ok a hwf i h]
  have hp : i < a.shape.prod := by rw [← hwf]; exact h
  have ⟨h1, h2⟩ := ravel_unravel a.shape i hp
  simp only [Res.bind_ok]
  exact (indexAt_ok_iff a _ i).2 ⟨h2, h1.symm⟩

/-- **round trip 2**: coordinates → position → coordinates -/
theorem indexToCoord_indexAt (a : Arr α) (hwf : a.WF) (c : List Nat) (h : inRange a.shape c = true) :
    (a.indexAt c >>= a.indexToCoord) = .ok c := by
  rw [(indexAt_ok_iff a c _).2 ⟨h, rfl⟩]
  simp only [Res.bind_ok]
  have hlt := ravel_lt _ _ h
  rw [indexToCoord_ok a hwf _ (by unfold Arr.len; rw [hwf]; exact hlt), unravel_ravel _ _ h]

/-- positions produced are inside the element list -/
theorem indexAt_lt_len (a : Arr α) (hwf : a.WF) (c : List Nat) (i : Nat) (h : a.indexAt c = .ok i) :
    i < a.len := by
  obtain ⟨hr, rfl⟩ := (indexAt_ok_iff a c i).1 h
  unfold Arr.len; rw [hwf]; exact ravel_lt _ _ hr

/-- **last axis varies fastest**: bumping the last coordinate bumps the position by one -/
theorem ravel_last_succ : ∀ (s c : List Nat) (d x : Nat), s.length = c.length →
    ravel (s ++ [d]) (c ++ [x + 1]) = ravel (s ++ [d]) (c ++ [x]) + 1
  | [], [], d, x, _ => by simp [ravel]
  | e :: es, y :: ys, d, x, h => by
    simp only [List.cons_append, ravel]
    rw [ravel_last_succ es ys d x (by simpa using h)]; omega
  | [], _ :: _, _, _, h => by simp at h
  | _ :: _, [], _, _, h => by simp at h

/-- **positions grow with the lexicographic (row-major) order** -/
theorem ravel_strictMono : ∀ (s c c' : List Nat), inRange s c = true → inRange s c' = true →
    lexLt c c' = true → ravel s c < ravel s c'
  | [], [], [], _, _, h => by simp [lexLt] at h
  | d :: ds, x :: xs, y :: ys, h1, h2, h => by
    simp only [inRange, Bool.and_eq_true, decide_eq_true_eq] at h1 h2
    simp only [lexLt, Bool.or_eq_true, decide_eq_true_eq, Bool.and_eq_true] at h
    simp only [ravel]
    rcases h with h | ⟨rfl, h⟩
    · have hx := ravel_lt ds xs h1.2
      have : (x + 1) * ds.prod ≤ y * ds.prod := Nat.mul_le_mul_right _ h
      rw [Nat.add_mul] at this; omega
    · have := ravel_strictMono ds xs ys h1.2 h2.2 h; omega
  | [], _ :: _, _, h1, _, _ => by simp [inRange] at h1
  | _ :: _, [], _, h1, _, _ => by simp [inRange] at h1
  | [], [], _ :: _, _, h2, _ => by simp [inRange] at h2
  | _ :: _, _ :: _, [], _, h2, _ => by simp [inRange] at h2

/-- **lookup by coordinates (method)** returns the element stored at the row-major position -/
theorem atc_ok (a : Arr α) (hwf : a.WF) (c : List Nat) (h : inRange a.shape c = true) :
    ∃ x, a.atc c = .ok x ∧ a.elems[ravel a.shape c]? = some x := by
  have hlt : ravel a.shape c < a.elems.length := by rw [hwf]; exact ravel_lt _ _ h
  refine ⟨a.elems[ravel a.shape c], ?_, by simp [hlt]⟩
  unfold Arr.atc
  rw [(indexAt_ok_iff a c _).2 ⟨h, rfl⟩]
  simp [Res.idx, hlt]

theorem atc_err (a : Arr α) (c : List Nat) (h : inRange a.shape c = false) :
    a.atc c = .err .ParameterError := by
  unfold Arr.atc; rw [(indexAt_err_iff a c).2 h]

/-- **lookup by coordinates (operator)** agrees with the method where the method succeeds;
otherwise the operator (which cannot return a `Result`) refuses by panicking. -/
theorem opIndexCoords_eq_atc (a : Arr α) (hwf : a.WF) (c : List Nat) (h : inRange a.shape c = true) :
    a.opIndexCoords c = a.atc c := by
  unfold Arr.opIndexCoords Arr.atc
  rw [(indexAt_ok_iff a c _).2 ⟨h, rfl⟩]

theorem opIndexCoords_refuses (a : Arr α) (c : List Nat) (h : inRange a.shape c = false) :
    a.opIndexCoords c = .panic := by
  unfold Arr.opIndexCoords; rw [(indexAt_err_iff a c).2 h]

/-- **flat operator** `a[i]`: defined iff `i < len`, returns the stored element -/
theorem opIndex_ok_iff (a : Arr α) (i : Nat) (x : α) : a.opIndex i = .ok x ↔ a.elems[i]? = some x := by
  unfold Arr.opIndex Res.idx
  cases a.elems[i]? <;> simp

theorem opIndex_refuses (a : Arr α) (i : Nat) (h : a.len ≤ i) : a.opIndex i = .panic := by
  unfold Arr.opIndex Res.idx
  have : a.elems[i]? = none := by simp [Arr.len] at h; simp [h]
  rw [this]

/-- **at ∘ index_to_coord = flat operator** on every valid position -/
theorem atc_indexToCoord (a : Arr α) (hwf : a.WF) (i : Nat) (h : i < a.len) :
    (a.indexToCoord i >>= a.atc) = a.opIndex i := by
  rw [indexToCoord_ok a hwf i h]
  have hp : i < a.shape.prod := by rw [← hwf]; exact h
  have ⟨h1, h2⟩ := ravel_unravel a.shape i hp
  simp only [Res.bind_ok, Arr.atc, Arr.opIndex]
  rw [(indexAt_ok_iff a _ i).2 ⟨h2, h1.symm⟩]

/-! ### non-vacuity: concrete instances meeting the hypotheses -/
example : (⟨List.range 24, [2, 3, 4]⟩ : Arr Nat).WF ∧ inRange [2, 3, 4] [1, 2, 3] = true := by decide
example : (⟨List.range 24, [2, 3, 4]⟩ : Arr Nat).atc [1, 2, 3] = .ok 23 := by decide
example : (⟨List.range 24, [2, 3, 4]⟩ : Arr Nat).indexToCoord 23 = .ok [1, 2, 3] := by decide
example : (⟨List.range 24, [2, 3, 4]⟩ : Arr Nat).atc [1, 3, 0] = .err .ParameterError := by decide
example : lexLt [0, 2, 3] [1, 0, 0] = true := by decide

end ArrModel.C02
