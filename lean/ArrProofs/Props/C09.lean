import ArrProofs.Lemmas.C09
import ArrProofs.Props.C02
import ArrProofs.Props.C07
import ArrModel.C10
import ArrModel.C19
/-!
# C09 — failures are error values and flow unchanged through chained calls

Property theorems only (helpers: `ArrProofs/Lemmas/C09.lean`).  Three groups:

(a) option names — the five parsers are ONE generic function (`ArrModel.C09.parseWith`) instantiated with the rows that
    `tools/gen_tables.py` re-reads from the Rust `match` arms on every run (`ArrModel/Gen/Tables.lean`): every text that is
    not a row of the regenerated table (and, for `NormOrd`, not an `i32` literal) is an error value — for ALL texts and for
    every lower-casing function; every constructor is reachable; the `&str` and `String` impls agree; the hand-written
    parsers of the C10 / C19 models are these table parsers.
(b) `Result` receivers — `liftR op (.err e) = .err e`; every method body of every `impl … for Result<Array<_>, ArrayError>`
    found in the source is the delegation (`decide` over the regenerated table).
(c) the `…_total` / `…_rejects` family over the shared operation models (`Res.panic` models every Rust panic).
-/
namespace ArrModel.C09
open ArrModel ArrModel.Gen.Tables

/-! ## (a) option names -/

/-- the regenerated `ArrayError` variant list is the model's `Err`, name by name and in order -/
theorem error_variants_match : errorVariants.map Prod.fst = Err.all.map Err.nameChars := by decide

/-- every model variant is recovered from its regenerated name -/
theorem error_name_roundtrip : ∀ e ∈ Err.all, Err.ofChars? e.nameChars = some e := by decide

/-- the `_` arm of every parser (both impls) is `ArrayError::ParameterError` -/
theorem fall_known : ∀ p ∈ optionParsers,
    Err.ofChars? p.fallStr = some .ParameterError ∧ Err.ofChars? p.fallString = some .ParameterError := by decide

/-- **the `&str` and the `String` impl of every parser are the same function** -/
theorem str_string_agree (lc : List Char → List Char) : ∀ p ∈ optionParsers, ∀ s, parseString lc p s = parseStr lc p s := by
  have h : ∀ p ∈ optionParsers, p.rowsString = p.rowsStr ∧ p.lowerString = p.lowerStr ∧
      p.intFallbackString = p.intFallbackStr ∧ p.fallString = p.fallStr := by decide
  intro p hp s
  obtain ⟨h1, h2, h3, h4⟩ := h p hp
  unfold parseString parseStr; rw [h1, h2, h3, h4]

/-- **unknown option name ⇒ error value** — for every parser of the source, EVERY text whose (possibly lower-cased) form
is not a row of the regenerated table and which is not an accepted integer literal, and every lower-casing function -/
theorem unknown_option_rejected (lc : List Char → List Char) (p : OptionParser) (hp : p ∈ optionParsers) (s : List Char)
    (hrow : ∀ r ∈ p.rowsStr, r.1 ≠ (if p.lowerStr then lc s else s))
    (hint : p.intFallbackStr = none ∨ parseI32 s = none) :
    parseStr lc p s = .err .ParameterError ∧ parseString lc p s = .err .ParameterError := by
  have hs : parseStr lc p s = .err .ParameterError := by
    unfold parseStr parseWith
    rw [(lookup_none_iff _ _).2 hrow]
    have hf := errOf_known (β := Parsed) p.fallStr _ (fall_known p hp).1
    rcases hint with h | h
    · rw [h]; exact hf
    · cases p.intFallbackStr with
      | none => exact hf
      | some k => simp only [h]; exact hf
  exact ⟨hs, by rw [str_string_agree lc p hp s]; exact hs⟩

/-- a parser never panics and never invents a constructor: `ok` answers come from a table row or the integer fall-back -/
theorem parse_total (lc : List Char → List Char) (p : OptionParser) (hp : p ∈ optionParsers) (s : List Char) :
    parseStr lc p s ≠ .panic ∧
    (∀ i, parseStr lc p s = .ok (.ctor i) → ((if p.lowerStr then lc s else s), i) ∈ p.rowsStr) ∧
    (∀ i v, parseStr lc p s = .ok (.int i v) → p.intFallbackStr = some i ∧ parseI32 s = some v) := by
  have hf := errOf_known (β := Parsed) p.fallStr _ (fall_known p hp).1
  unfold parseStr parseWith
  cases hl : lookup p.rowsStr (if p.lowerStr then lc s else s) with
  | some i =>
    refine ⟨by simp, ?_, by simp⟩
    intro j hj; simp only [Res.ok.injEq, Parsed.ctor.injEq] at hj; subst hj
    exact lookup_some_mem _ _ _ hl
  | none =>
    cases hi : p.intFallbackStr with
    | none => simp only [hf]; exact ⟨by simp, by simp, by simp⟩
    | some k =>
      cases hv : parseI32 s with
      | none => simp only [hf]; exact ⟨by simp, by simp, by simp⟩
      | some v =>
        refine ⟨by simp, by simp, ?_⟩
        intro i w h; simp only [Res.ok.injEq, Parsed.int.injEq] at h; obtain ⟨rfl, rfl⟩ := h; exact ⟨rfl, rfl⟩

/-- a known spelling is accepted with the constructor of its (first) row -/
theorem known_option_accepted (lc : List Char → List Char) (p : OptionParser) (s : List Char) (i : Nat)
    (h : lookup p.rowsStr (if p.lowerStr then lc s else s) = some i) : parseStr lc p s = .ok (.ctor i) := by
  unfold parseStr parseWith; rw [h]

/-- **every constructor of every option enum is reachable by some text** (under ASCII lower-casing): a table spelling for
the payload-free ones, the literal `7` for `NormOrd::Int` -/
theorem every_constructor_reachable : ∀ p ∈ optionParsers, ∀ i ∈ List.range p.ctors.length,
    (p.rowsStr.map Prod.fst ++ [['7']]).any (fun s =>
      match parseStr lowerAscii p s with
      | .ok (.ctor j) => j == i
      | .ok (.int j _) => j == i
      | _ => false) = true := by decide

/-- case folding: the four parsers that lower-case accept every capitalisation of their spellings, the two exact ones
(`BitOrder`, `ConvolveMode`) do not -/
theorem case_folding :
    parseStr lowerAscii sortKind "STABLE".toList = .ok (.ctor 3) ∧ parseStr lowerAscii compareOp "Not_Equals".toList = .ok (.ctor 1) ∧
    parseStr lowerAscii normOrd "-INF".toList = .ok (.ctor 2) ∧ parseStr lowerAscii normOrd "-12".toList = .ok (.int 0 (-12)) ∧
    parseStr lowerAscii bitOrder "BIG".toList = .err .ParameterError ∧ parseStr lowerAscii convolveMode "Full".toList = .err .ParameterError ∧
    parseStr lowerAscii sortKind "Quick sort".toList = .err .ParameterError ∧ parseStr lowerAscii sortKind [] = .err .ParameterError ∧
    parseStr lowerAscii sortKind "STABLE ".toList = .err .ParameterError ∧ parseStr lowerAscii bitOrder "bigg".toList = .err .ParameterError := by
  decide

/-- `i32::from_str` model: sign handling and the range limits -/
theorem parseI32_limits :
    parseI32 "2147483647".toList = some 2147483647 ∧ parseI32 "2147483648".toList = none ∧
    parseI32 "-2147483648".toList = some (-2147483648) ∧ parseI32 "-2147483649".toList = none ∧
    parseI32 "+3".toList = some 3 ∧ parseI32 "".toList = none ∧ parseI32 "-".toList = none ∧ parseI32 "+".toList = none ∧
    parseI32 "1.5".toList = none ∧ parseI32 " 1".toList = none ∧ parseI32 "007".toList = some 7 := by decide

/-- the hand-written selector parser of the sorting model (C10) IS the table parser of `parse_kind` -/
theorem sortKind_bridge (s : List Char) :
    Sort.parseKindLower s =
      (match lookup sortKind.rowsStr s with
       | some 0 => .ok .Quicksort | some 1 => .ok .Mergesort | some 2 => .ok .Heapsort | some 3 => .ok .Stable
       | _ => .err .ParameterError) := by
  unfold Sort.parseKindLower
  simp only [sortKind, lookup]
  repeat' split
  all_goals first | rfl | simp_all

/-- the hand-written bit-order parser of the bit-packing model (C19) IS the table parser of `to_bit_order` -/
theorem bitOrder_bridge (s : List Char) :
    C19.toBitOrder (.text s) =
      (match lookup bitOrder.rowsStr s with
       | some 0 => .ok .big | some 1 => .ok .little | _ => .err .ParameterError) := by
  unfold C19.toBitOrder
  simp only [bitOrder, lookup]
  repeat' split
  all_goals first | rfl | simp_all

/-! ## (b) `Result` receivers -/

/-- **an error receiver is returned unchanged**; the operation is not evaluated (it does not occur on the right) -/
theorem lift_err {α β} (op : α → Res β) (e : Err) : liftR op (.err e) = .err e := rfl

theorem lift_ok {α β} (op : α → Res β) (a : α) : liftR op (.ok a) = op a := rfl

/-- lifting adds no panic of its own -/
theorem lift_no_new_panic {α β} (op : α → Res β) (r : Res α) (hr : r ≠ .panic) (hop : ∀ a, op a ≠ .panic) :
    liftR op r ≠ .panic := by
  cases r with
  | ok a => exact hop a
  | err e => simp [liftR]
  | panic => exact absurd rfl hr

/-- chains: an error produced at any step is the result of the whole chain -/
theorem lift_chain {α β γ} (f : α → Res β) (g : β → Res γ) (a : α) (e : Err) (h : f a = .err e) :
    liftR g (liftR f (.ok a)) = .err e := by
  simp only [liftR, h]

/-- in any effect monad: on an error receiver NO effect of the operation happens (closures passed as arguments are not
called, nothing is allocated); stated in the state monad with an arbitrary observable state -/
theorem lift_err_no_effect {σ α β} (op : α → StateM σ (Res β)) (e : Err) (s : σ) :
    (liftRM op (.err e)).run s = (.err e, s) := rfl

/-- **every method body of every `impl Trait for Result<Array<_>, ArrayError>` in the source is the delegation**
`self.clone()?.m(args…)` (or its UFCS / receiver-less forwarding form) -/
theorem all_result_impls_delegate : ∀ m ∈ resultImpls, m.isDelegation = true := by decide +kernel

/-- each of those methods is a method of the public trait inventory (the same trait, the same name, the same receiver kind) -/
theorem result_impls_in_inventory : ∀ m ∈ resultImpls,
    traitMethods.any (fun t => t.trait == m.trait && t.name == m.name && t.receiver == m.receiver) = true := by
  decide +kernel

/-! ## (c) totality and refusal of the shared operation models -/

section ops
variable {α β : Type}

/-! ### coordinates and positions (re-exported from C02 where they exist) -/

theorem indexAt_total (a : Arr α) (c : List Nat) : a.indexAt c ≠ .panic := C02.indexAt_never_panics a c

/-- wrong length or any coordinate out of range -/
theorem indexAt_rejects (a : Arr α) (c : List Nat) (h : inRange a.shape c = false) : ∃ e, a.indexAt c = .err e :=
  ⟨_, (C02.indexAt_err_iff a c).2 h⟩

theorem at_rejects (a : Arr α) (c : List Nat) (h : inRange a.shape c = false) : ∃ e, a.atc c = .err e :=
  ⟨_, C02.atc_err a c h⟩

theorem at_total (a : Arr α) (hwf : a.WF) (c : List Nat) : a.atc c ≠ .panic := by
  cases h : inRange a.shape c with
  | true => obtain ⟨x, hx, _⟩ := C02.atc_ok a hwf c h; rw [hx]; simp
  | false => rw [C02.atc_err a c h]; simp

theorem indexToCoord_rejects (a : Arr α) (i : Nat) (h : a.len ≤ i) : ∃ e, a.indexToCoord i = .err e :=
  ⟨_, C02.indexToCoord_err a i h⟩

theorem indexToCoord_total (a : Arr α) (i : Nat) : a.indexToCoord i ≠ .panic := by
  unfold Arr.indexToCoord; split <;> simp

/-! ### shapes that do not fit -/

theorem new_rejects (es : List α) (sh : List Nat) (h : sh.prod ≠ es.length) : ∃ e, Arr.new es sh = .err e :=
  ⟨_, by unfold Arr.new; rw [if_neg h]⟩

theorem new_total (es : List α) (sh : List Nat) : Arr.new es sh ≠ .panic := new_ne_panic es sh

theorem reshape_rejects (a : Arr α) (sh : List Nat) (h : sh.prod ≠ a.elems.length) : ∃ e, a.reshape sh = .err e :=
  ⟨_, C07.reshape_err a sh h⟩

theorem reshape_total (a : Arr α) (sh : List Nat) : a.reshape sh ≠ .panic := new_ne_panic _ _

theorem create_rejects (es : List α) (sh : List Nat) (nd : Option Nat) (h : sh.prod ≠ es.length) :
    ∃ e, Arr.create es sh nd = .err e := by
  unfold Arr.create Arr.new
  simp only [if_neg h]
  split <;> exact ⟨_, rfl⟩

theorem create_total (es : List α) (sh : List Nat) (nd : Option Nat) : Arr.create es sh nd ≠ .panic := by
  unfold Arr.create
  simp only []
  split
  · exact bind_ne_panic_of _ _ (new_ne_panic _ _) (fun _ _ => new_ne_panic _ _)
  · exact new_ne_panic _ _

theorem broadcastTo_rejects (a : Arr α) (t : List Nat) (h : isBroadcastable a.shape t = false) :
    ∃ e, a.broadcastTo t = .err e := ⟨.BroadcastShapeMismatch, by unfold Arr.broadcastTo; simp [h]⟩

theorem broadcast_rejects (a : Arr α) (b : Arr β) (h : isBroadcastable a.shape b.shape = false) :
    ∃ e, a.broadcast b = .err e := ⟨.BroadcastShapeMismatch, by unfold Arr.broadcast; simp [h]⟩

theorem zip_rejects (a : Arr α) (b : Arr β) (h : isBroadcastable b.shape a.shape = false) :
    ∃ e, a.zip b = .err e := by
  obtain ⟨e, he⟩ := broadcastTo_rejects b a.shape h
  exact ⟨e, by unfold Arr.zip; rw [he]; rfl⟩

theorem atleast_rejects (a : Arr α) (n : Nat) (h : 3 < n) : ∃ e, a.atleast n = .err e := ⟨_, C07.atleast_unsupported a n h⟩

/-! ### axis orders -/

/-- wrong length, an axis outside the rank (after `normalize_axis`, so also every too-negative value), or a repetition -/
theorem transpose_rejects (a : Arr α) (zero : α) (axes : List Int)
    (h : axes.length ≠ a.ndim ∨ (∃ i ∈ axes, normalizeAxis a.ndim i ≥ a.ndim) ∨ ¬ (axes.map (normalizeAxis a.ndim)).Nodup) :
    ∃ e, a.transpose zero (some axes) = .err e := by
  rcases h with h | h | h
  · exact ⟨_, transpose_err_of_length a zero axes h⟩
  · by_cases hl : axes.length = a.ndim
    · exact ⟨_, transpose_err_of_range a zero axes hl h⟩
    · exact ⟨_, transpose_err_of_length a zero axes hl⟩
  · exact transpose_err_of_dup a zero axes h

/-- the four axis-order operations never panic, whatever the array and the arguments -/
theorem axis_orders_total (a : Arr α) (zero : α) (axes : Option (List Int)) (s d : List Int) (x y : Int) (st : Option Int) :
    a.transpose zero axes ≠ .panic ∧ a.moveaxis zero s d ≠ .panic ∧ a.rollaxis zero x st ≠ .panic ∧ a.swapaxes zero x y ≠ .panic :=
  ⟨transpose_ne_panic _ _ _, moveaxis_ne_panic _ _ _ _, rollaxis_ne_panic _ _ _ _, swapaxes_ne_panic _ _ _ _⟩

/-- `moveaxis`: lists of different length, or a source axis outside the rank (the destination is clamped by the code
— an open region of the statement — and is not claimed here) -/
theorem moveaxis_rejects (a : Arr α) (zero : α) (s d : List Int)
    (h : s.length ≠ d.length ∨ ∃ i ∈ s, normalizeAxis a.ndim i ≥ a.ndim) : ∃ e, a.moveaxis zero s d = .err e := by
  rcases h with h | h
  · exact moveaxis_err_of_length a zero s d h
  · exact moveaxis_err_of_source a zero s d h

theorem rollaxis_rejects (a : Arr α) (zero : α) (axis : Int) (start : Option Int)
    (h : normalizeAxis a.ndim axis ≥ a.ndim ∨ Arr.startOf a.ndim start ≥ a.ndim) : ∃ e, a.rollaxis zero axis start = .err e :=
  ⟨_, rollaxis_err a zero axis start h⟩

theorem swapaxes_rejects (a : Arr α) (zero : α) (x y : Int)
    (h : normalizeAxis a.ndim x ≥ a.ndim ∨ normalizeAxis a.ndim y ≥ a.ndim) : ∃ e, a.swapaxes zero x y = .err e :=
  ⟨_, swapaxes_err a zero x y h⟩

/-- which axis numbers are "outside the rank": everything not in `-rank .. rank-1` (within `isize`) normalises to `≥ rank` -/
theorem out_of_range_axis_normalises_high (nd : Nat) (ax : Int) (hnd : nd < 2 ^ 63) (hlo : -(2 ^ 63 : Int) ≤ ax)
    (h : ax ≥ nd ∨ ax < -(nd : Int)) : normalizeAxis nd ax ≥ nd := by
  unfold normalizeAxis USIZE
  rcases h with h | h
  · rw [if_neg (by omega)]; omega
  · rw [if_pos (by omega)]
    simp only
    rw [if_pos (by omega)]
    omega

theorem expandDims_rejects (a : Arr α) (axes : List Int)
    (h : ∃ i ∈ axes, a.ndim + axes.length ≤ normalizeAxisDim a.ndim i axes.length) : ∃ e, a.expandDims axes = .err e :=
  ⟨_, C07.expandDims_out_of_range a axes h⟩

theorem expandDims_total (a : Arr α) (axes : List Int) (hwf : a.WF) : a.expandDims axes ≠ .panic := by
  rcases C07.expandDims_total a axes hwf with ⟨r, hr⟩ | h
  · rw [hr]; simp
  · rw [h]; simp

theorem squeeze_rejects (a : Arr α) (axes : List Int) (h : ∃ i ∈ axes, a.ndim ≤ normalizeAxis a.ndim i) :
    ∃ e, a.squeeze (some axes) = .err e := ⟨_, C07.squeeze_out_of_range a axes h⟩

/-! ### `apply_along_axis` and everything built on it: reductions, scans, counts, sort/argsort/unique, pack/unpack, delete -/

theorem applyAlongAxis_rejects (a : Arr α) (zero : α) (zb : β) (axis : Nat) (f : Arr α → Res (Arr β)) (h : axis ≥ a.ndim) :
    ∃ e, a.applyAlongAxis zero zb axis f = .err e := ⟨_, applyAlongAxis_err a zero zb axis f h⟩

/-- an out-of-range axis is refused BEFORE the lane function is looked at: the result does not depend on `f` -/
theorem applyAlongAxis_rejects_unevaluated (a : Arr α) (zero : α) (zb : β) (axis : Nat) (f g : Arr α → Res (Arr β))
    (h : axis ≥ a.ndim) : a.applyAlongAxis zero zb axis f = a.applyAlongAxis zero zb axis g := by
  rw [applyAlongAxis_err a zero zb axis f h, applyAlongAxis_err a zero zb axis g h]

theorem axis_wrappers_reject (a : Arr α) (zero : α) (zb : β) (ax : Int) (h : normalizeAxis a.ndim ax ≥ a.ndim)
    (f1 : Arr α → Res (Arr β)) (kd : Option Bool) (g1 : Arr α → Option Bool → Res (Arr β)) :
    (∃ e, a.reduceAxis zero zb (some ax) f1 = .err e) ∧ (∃ e, a.countAxis zero zb (some ax) kd g1 = .err e) ∧
    (∃ e, a.scanAxis zero zb (some ax) f1 = .err e) := by
  obtain ⟨h1, h2, h3⟩ := wrappers_err a zero zb ax h f1 kd g1
  exact ⟨⟨_, h1⟩, ⟨_, h2⟩, ⟨_, h3⟩⟩

/-! ### splitting: zero parts, axis outside the rank -/

theorem arraySplit_rejects (a : Arr α) (zero : α) (parts : Nat) (axis : Option Nat)
    (h : parts = 0 ∨ ∃ ax, axis = some ax ∧ ax ≥ a.ndim) : ∃ e, a.arraySplit zero parts axis = .err e := by
  rcases h with h | ⟨ax, rfl, h⟩
  · subst h; exact ⟨_, arraySplit_zero a zero axis⟩
  · exact arraySplit_axis_err a zero parts ax h

theorem split_rejects (a : Arr α) (zero : α) (parts : Nat) (axis : Option Nat)
    (h : parts = 0 ∨ ∃ ax, axis = some ax ∧ ax ≥ a.ndim) : ∃ e, a.split zero parts axis = .err e := by
  rcases h with h | ⟨ax, rfl, h⟩
  · subst h; exact split_zero a zero axis
  · exact ⟨_, split_axis_err a zero parts ax h⟩

theorem splitAxis_rejects (a : Arr α) (zero : α) (ax : Nat) (h : ax ≥ a.ndim) : ∃ e, a.splitAxis zero ax = .err e :=
  ⟨_, splitAxis_err a zero ax h⟩

theorem xsplit_zero_parts (a : Arr α) (zero : α) :
    (∃ e, a.hsplit zero 0 = .err e) ∧ (∃ e, a.vsplit zero 0 = .err e) ∧ (∃ e, a.dsplit zero 0 = .err e) := by
  refine ⟨?_, ?_, ?_⟩
  · unfold Arr.hsplit; split <;> exact ⟨_, rfl⟩
  · unfold Arr.vsplit; split <;> exact ⟨_, rfl⟩
  · unfold Arr.dsplit; split <;> exact ⟨_, rfl⟩

/-! ### flip / rot90 -/

theorem flip_rejects (a : Arr α) (axes : List Int) (h : ∃ x ∈ axes, normalizeAxis a.ndim x ≥ a.ndim) :
    ∃ e, a.flip (some axes) = .err e := ⟨_, flip_err a axes h⟩

theorem rot90_rejects (a : Arr α) (zero : α) (k : Nat) (axes : List Int)
    (h : axes.length ≠ 2 ∨ ∃ a0 a1, axes = [a0, a1] ∧ (a0 ≥ a.ndim ∨ a0 < -(a.ndim : Int) ∨ a1 ≥ a.ndim ∨ a1 < -(a.ndim : Int))) :
    ∃ e, a.rot90 zero k axes = .err e := by
  rcases h with h | ⟨a0, a1, rfl, h⟩
  · exact rot90_err_of_length a zero k axes h
  · exact rot90_err_of_range a zero k a0 a1 h

/-! ### delete / insert / repeat / append / concatenate / stack -/

theorem delete_rejects (a : Arr α) (zero : α) (idxs : List Nat) (axis : Option Nat)
    (h : (axis = none ∧ ∃ i ∈ idxs, i ≥ a.elems.length) ∨ ∃ ax, axis = some ax ∧ ax ≥ a.ndim) :
    ∃ e, a.delete zero idxs axis = .err e := by
  rcases h with ⟨rfl, h⟩ | ⟨ax, rfl, h⟩
  · exact ⟨_, deleteFlat_err a idxs h⟩
  · exact ⟨_, delete_axis_err a zero idxs ax h⟩

theorem insertFlat_rejects (a : Arr α) (idxs : List Nat) (values : Arr α) (h : ∃ i ∈ idxs, i > a.elems.length) :
    ∃ e, a.insertFlat idxs values = .err e := ⟨_, insertFlat_err a idxs values h⟩

theorem repeatAxis_rejects (a : Arr α) (zero : α) (reps : List Nat) (ax : Nat) (h : ax ≥ a.ndim) :
    ∃ e, a.repeatAxis zero reps ax = .err e := ⟨_, repeatAxis_err a zero reps ax h⟩

theorem append_rejects (a v : Arr α) (zero : α) (ax : Nat) (h : ax ≥ a.ndim ∨ a.ndim ≠ v.ndim) :
    ∃ e, a.append v zero (some ax) = .err e := by
  rcases h with h | h
  · exact ⟨_, appendAxis_err_axis a v zero ax h⟩
  · exact appendAxis_err_rank a v zero ax h

theorem concatenate_rejects (a0 : Arr α) (rest : List (Arr α)) (zero : α) (ax : Nat) (h : ∃ b ∈ a0 :: rest, ax ≥ b.ndim) :
    ∃ e, Arr.concatenate (a0 :: rest) zero (some ax) = .err e := ⟨_, concatenate_err_axis a0 rest zero ax h⟩

theorem stack_rejects (a0 : Arr α) (rest : List (Arr α)) (zero : α) (axis : Option Nat)
    (h : (∃ ax, axis = some ax ∧ ∃ b ∈ a0 :: rest, ax ≥ b.ndim) ∨ ∃ b ∈ rest, b.shape ≠ a0.shape) :
    ∃ e, Arr.stack (a0 :: rest) zero axis = .err e := by
  rcases h with ⟨ax, rfl, h⟩ | h
  · exact ⟨_, stack_err_axis _ zero ax h⟩
  · exact stack_err_shapes a0 rest zero axis h

end ops

/-! ## non-vacuity -/

/-- a `[2,3,4]` array: axis 3, axis −4 and a huge axis are outside the rank, and are refused by every family -/
def sample : Arr Nat := ⟨List.range 24, [2, 3, 4]⟩

example : sample.WF ∧ normalizeAxis sample.ndim 3 ≥ sample.ndim ∧ normalizeAxis sample.ndim (-4) ≥ sample.ndim ∧
    normalizeAxis sample.ndim (2 ^ 63 - 1) ≥ sample.ndim ∧ normalizeAxis sample.ndim (-(2 ^ 63)) ≥ sample.ndim := by decide
example : sample.transpose 0 (some [0, 1, 3]) = .err .AxisOutOfBounds ∧ sample.transpose 0 (some [0, 1]) = .err .MustBeEqual ∧
    sample.transpose 0 (some [0, 1, -2]) = .err .MustBeUnique := by decide
example : ∃ e, sample.moveaxis 0 [3] [0] = .err e := moveaxis_rejects sample 0 [3] [0] (.inr ⟨3, by simp, by decide⟩)
example : sample.arraySplit 0 0 none = .err .ParameterError ∧ sample.split 0 2 (some 3) = .err .AxisOutOfBounds ∧
    sample.flip (some [-4]) = .err .AxisOutOfBounds ∧ sample.indexAt [1, 3, 0] = .err .ParameterError ∧
    sample.reshape [5, 5] = .err .ShapeMustMatchValuesLength ∧ sample.broadcastTo [2, 3, 5] = .err .BroadcastShapeMismatch := by decide
-- the hypotheses of `unknown_option_rejected` are satisfiable, and not by everything
example : (∀ r ∈ sortKind.rowsStr, r.1 ≠ lowerAscii "Quick sort".toList) ∧ ¬ (∀ r ∈ sortKind.rowsStr, r.1 ≠ lowerAscii "QuickSort".toList) := by decide
example : resultImpls.length = 205 ∧ (traitMethods.filter (·.fallible)).length = 253 ∧ optionParsers.length = 5 := by decide +kernel

end ArrModel.C09
