import ArrProofs.Lemmas.C09
import ArrProofs.Lemmas.C09Total
import ArrProofs.Props.C07
import ArrProofs.Props.C10
import ArrProofs.Props.C11
import ArrProofs.Props.C13
import ArrProofs.Props.C19
import ArrProofs.Props.C14
import ArrProofs.Props.C15
import ArrModel.IndexExt
import ArrModel.C10
import ArrModel.C19
import ArrModel.C01Diff
import ArrProofs.Lemmas.C09Insert
/-!
# C09 — failures are error values and flow unchanged through chained calls

Property theorems only (helpers: `ArrProofs/Lemmas/C09.lean`).  Three groups:

(a) option names — the five parsers are ONE generic function (`ArrModel.C09.parseWith`) instantiated with the rows that
    `tools/gen_tables.py` re-reads from the Rust `match` arms on every run (`ArrModel/Gen/Tables.lean`): every text that is
    not a row of the regenerated table (and, for `NormOrd`, not an `i32` literal) is an error value — for ALL texts and for
    every lower-casing function; every constructor is reachable; the `&str` and `String` impls agree; the hand-written
    parsers of the C10 / C19 models are these table parsers.
(b) `Result` receivers — `liftR op (.err e) = .err e`; every method body of every `impl … for Result<Array<_>, ArrayError>`
    found in the source is the delegation (`decide` over the regenerated table).
(c) the `…_total` / `…_rejects` family over the shared operation models (`Res.panic` models every Rust panic).
(d) `…_total` for the families whose shared models used to contain reachable panic arms (apply_along_axis and everything
    built on it, split, flip / roll / rot90, squeeze, delete / insert / repeat / append / concatenate / stack, broadcast):
    corollaries of the totality theorems of the owning properties C07, C08 (`Lemmas/C08Empty.lean`), C10, C11, C13, C19
    and of `Lemmas/C09Total.lean` (C02 / C03 / C12 cannot be imported next to the lemma files of C08: same helper names).
(e) refusals of the operations whose models belong to other properties and are now run by the C09 driver: slice, indices_at
    (`ArrModel/IndexExt.lean`), the linalg products (C14), det / qr / solve / norm (C15).
-/
namespace ArrModel.C09
open ArrModel ArrModel.Gen.Tables

/-! ## (a) option names -/

/-- the regenerated `ArrayError` variant list is the model's `Err`, name by name and in order -/
theorem error_variants_match : errorVariants.map Prod.fst = Err.all.map Err.nameChars := by decide

/-- every model variant is recovered from its regenerated name -/
theorem error_name_roundtrip : ∀ e ∈ Err.all, Err.ofChars? e.nameChars = some e := by decide

/-- the `_` arm of every parser (both impls) is `ArrayError::ParameterError` -/
theorem fall_known : ∀ p ∈ optionParsers,
    Err.ofChars? p.fallStr = some .ParameterError ∧ Err.ofChars? p.fallString = some .ParameterError := by decide

/-- **the `&str` and the `String` impl of every parser are the same function** -/
theorem str_string_agree (lc : List Char → List Char) : ∀ p ∈ optionParsers, ∀ s, parseString lc p s = parseStr lc p s := by
  have h : ∀ p ∈ optionParsers, p.rowsString = p.rowsStr ∧ p.lowerString = p.lowerStr ∧
      p.intFallbackString = p.intFallbackStr ∧ p.fallString = p.fallStr := by decide
  intro p hp s
  obtain ⟨h1, h2, h3, h4⟩ := h p hp
  unfold parseString parseStr; rw [h1, h2, h3, h4]

/-- **unknown option name ⇒ error value** — for every parser of the source, EVERY text whose (possibly lower-cased) form
is not a row of the regenerated table and which is not an accepted integer literal, and every lower-casing function -/
theorem unknown_option_rejected (lc : List Char → List Char) (p : OptionParser) (hp : p ∈ optionParsers) (s : List Char)
    (hrow : ∀ r ∈ p.rowsStr, r.1 ≠ (if p.lowerStr then lc s else s))
    (hint : p.intFallbackStr = none ∨ parseI32 s = none) :
    parseStr lc p s = .err .ParameterError ∧ parseString lc p s = .err .ParameterError := by
  have hs : parseStr lc p s = .err .ParameterError := by
    unfold parseStr parseWith
    rw [(lookup_none_iff _ _).2 hrow]
    have hf := errOf_known (β := Parsed) p.fallStr _ (fall_known p hp).1
    rcases hint with h | h
    · rw [h]; exact hf
    · cases p.intFallbackStr with
      | none => exact hf
      | some k => simp only [h]; exact hf
  exact ⟨hs, by rw [str_string_agree lc p hp s]; exact hs⟩

/-- a parser never panics and never invents a constructor: `ok` answers come from a table row or the integer fall-back -/
theorem parse_total (lc : List Char → List Char) (p : OptionParser) (hp : p ∈ optionParsers) (s : List Char) :
    parseStr lc p s ≠ .panic ∧
    (∀ i, parseStr lc p s = .ok (.ctor i) → ((if p.lowerStr then lc s else s), i) ∈ p.rowsStr) ∧
    (∀ i v, parseStr lc p s = .ok (.int i v) → p.intFallbackStr = some i ∧ parseI32 s = some v) := by
  have hf := errOf_known (β := Parsed) p.fallStr _ (fall_known p hp).1
  unfold parseStr parseWith
  cases hl : lookup p.rowsStr (if p.lowerStr then lc s else s) with
  | some i =>
    refine ⟨by simp, ?_, by simp⟩
    intro j hj; simp only [Res.ok.injEq, Parsed.ctor.injEq] at hj; subst hj
    exact lookup_some_mem _ _ _ hl
  | none =>
    cases hi : p.intFallbackStr with
    | none => simp only [hf]; exact ⟨by simp, by simp, by simp⟩
    | some k =>
      cases hv : parseI32 s with
      | none => simp only [hf]; exact ⟨by simp, by simp, by simp⟩
      | some v =>
        refine ⟨by simp, by simp, ?_⟩
        intro i w h; simp only [Res.ok.injEq, Parsed.int.injEq] at h; obtain ⟨rfl, rfl⟩ := h; exact ⟨rfl, rfl⟩

/-- a known spelling is accepted with the constructor of its (first) row -/
theorem known_option_accepted (lc : List Char → List Char) (p : OptionParser) (s : List Char) (i : Nat)
    (h : lookup p.rowsStr (if p.lowerStr then lc s else s) = some i) : parseStr lc p s = .ok (.ctor i) := by
  unfold parseStr parseWith; rw [h]

/-- **every constructor of every option enum is reachable by some text** (under ASCII lower-casing): a table spelling for
the payload-free ones, the literal `7` for `NormOrd::Int` -/
theorem every_constructor_reachable : ∀ p ∈ optionParsers, ∀ i ∈ List.range p.ctors.length,
    (p.rowsStr.map Prod.fst ++ [['7']]).any (fun s =>
      match parseStr lowerAscii p s with
      | .ok (.ctor j) => j == i
      | .ok (.int j _) => j == i
      | _ => false) = true := by decide

/-- case folding: the four parsers that lower-case accept every capitalisation of their spellings, the two exact ones
(`BitOrder`, `ConvolveMode`) do not -/
theorem case_folding :
    parseStr lowerAscii sortKind "STABLE".toList = .ok (.ctor 3) ∧ parseStr lowerAscii compareOp "Not_Equals".toList = .ok (.ctor 1) ∧
    parseStr lowerAscii normOrd "-INF".toList = .ok (.ctor 2) ∧ parseStr lowerAscii normOrd "-12".toList = .ok (.int 0 (-12)) ∧
    parseStr lowerAscii bitOrder "BIG".toList = .err .ParameterError ∧ parseStr lowerAscii convolveMode "Full".toList = .err .ParameterError ∧
    parseStr lowerAscii sortKind "Quick sort".toList = .err .ParameterError ∧ parseStr lowerAscii sortKind [] = .err .ParameterError ∧
    parseStr lowerAscii sortKind "STABLE ".toList = .err .ParameterError ∧ parseStr lowerAscii bitOrder "bigg".toList = .err .ParameterError := by
  decide

/-- `i32::from_str` model: sign handling and the range limits -/
theorem parseI32_limits :
    parseI32 "2147483647".toList = some 2147483647 ∧ parseI32 "2147483648".toList = none ∧
    parseI32 "-2147483648".toList = some (-2147483648) ∧ parseI32 "-2147483649".toList = none ∧
    parseI32 "+3".toList = some 3 ∧ parseI32 "".toList = none ∧ parseI32 "-".toList = none ∧ parseI32 "+".toList = none ∧
    parseI32 "1.5".toList = none ∧ parseI32 " 1".toList = none ∧ parseI32 "007".toList = some 7 := by decide

/-- the hand-written selector parser of the sorting model (C10) IS the table parser of `parse_kind` -/
theorem sortKind_bridge (s : List Char) :
    Sort.parseKindLower s =
      (match lookup sortKind.rowsStr s with
       | some 0 => .ok .Quicksort | some 1 => .ok .Mergesort | some 2 => .ok .Heapsort | some 3 => .ok .Stable
       | _ => .err .ParameterError) := by
  unfold Sort.parseKindLower
  simp only [sortKind, lookup]
  repeat' split
  all_goals first | rfl | simp_all

/-- the hand-written bit-order parser of the bit-packing model (C19) IS the table parser of `to_bit_order` -/
theorem bitOrder_bridge (s : List Char) :
    C19.toBitOrder (.text s) =
      (match lookup bitOrder.rowsStr s with
       | some 0 => .ok .big | some 1 => .ok .little | _ => .err .ParameterError) := by
  unfold C19.toBitOrder
  simp only [bitOrder, lookup]
  repeat' split
  all_goals first | rfl | simp_all

/-! ## (b) `Result` receivers -/

/-- **an error receiver is returned unchanged**; the operation is not evaluated (it does not occur on the right) -/
theorem lift_err {α β} (op : α → Res β) (e : Err) : liftR op (.err e) = .err e := rfl

theorem lift_ok {α β} (op : α → Res β) (a : α) : liftR op (.ok a) = op a := rfl

/-- lifting adds no panic of its own -/
theorem lift_no_new_panic {α β} (op : α → Res β) (r : Res α) (hr : r ≠ .panic) (hop : ∀ a, op a ≠ .panic) :
    liftR op r ≠ .panic := by
  cases r with
  | ok a => exact hop a
  | err e => simp [liftR]
  | panic => exact absurd rfl hr

/-- chains: an error produced at any step is the result of the whole chain -/
theorem lift_chain {α β γ} (f : α → Res β) (g : β → Res γ) (a : α) (e : Err) (h : f a = .err e) :
    liftR g (liftR f (.ok a)) = .err e := by
  simp only [liftR, h]

/-- in any effect monad: on an error receiver NO effect of the operation happens (closures passed as arguments are not
called, nothing is allocated); stated in the state monad with an arbitrary observable state -/
theorem lift_err_no_effect {σ α β} (op : α → StateM σ (Res β)) (e : Err) (s : σ) :
    (liftRM op (.err e)).run s = (.err e, s) := rfl

/-- **every method body of every `impl Trait for Result<Array<_>, ArrayError>` in the source is the delegation**
`self.clone()?.m(args…)` (or its UFCS / receiver-less forwarding form) -/
theorem all_result_impls_delegate : ∀ m ∈ resultImpls, m.isDelegation = true := by decide +kernel

/-- each of those methods is a method of the public trait inventory (the same trait, the same name, the same receiver kind) -/
theorem result_impls_in_inventory : ∀ m ∈ resultImpls,
    traitMethods.any (fun t => t.trait == m.trait && t.name == m.name && t.receiver == m.receiver) = true := by
  decide +kernel

/-! ## (c) totality and refusal of the shared operation models -/

section ops
variable {α β : Type}

/-! ### coordinates and positions (re-exported from C02 where they exist) -/

theorem indexAt_total (a : Arr α) (c : List Nat) : a.indexAt c ≠ .panic := indexAt_ne_panic a c

/-- wrong length or any coordinate out of range -/
theorem indexAt_rejects (a : Arr α) (c : List Nat) (h : inRange a.shape c = false) : ∃ e, a.indexAt c = .err e :=
  ⟨_, (indexAt_err_iff' a c).2 h⟩

theorem at_rejects (a : Arr α) (c : List Nat) (h : inRange a.shape c = false) : ∃ e, a.atc c = .err e :=
  ⟨_, atc_err' a c h⟩

theorem at_total (a : Arr α) (hwf : a.WF) (c : List Nat) : a.atc c ≠ .panic := atc_ne_panic a hwf c

theorem indexToCoord_rejects (a : Arr α) (i : Nat) (h : a.len ≤ i) : ∃ e, a.indexToCoord i = .err e :=
  ⟨_, indexToCoord_err' a i h⟩

theorem indexToCoord_total (a : Arr α) (i : Nat) : a.indexToCoord i ≠ .panic := by
  unfold Arr.indexToCoord; split <;> simp

/-! ### shapes that do not fit -/

theorem new_rejects (es : List α) (sh : List Nat) (h : sh.prod ≠ es.length) : ∃ e, Arr.new es sh = .err e :=
  ⟨_, by unfold Arr.new; rw [if_neg h]⟩

theorem new_total (es : List α) (sh : List Nat) : Arr.new es sh ≠ .panic := new_ne_panic es sh

theorem reshape_rejects (a : Arr α) (sh : List Nat) (h : sh.prod ≠ a.elems.length) : ∃ e, a.reshape sh = .err e :=
  ⟨_, C07.reshape_err a sh h⟩

theorem reshape_total (a : Arr α) (sh : List Nat) : a.reshape sh ≠ .panic := new_ne_panic _ _

theorem create_rejects (es : List α) (sh : List Nat) (nd : Option Nat) (h : sh.prod ≠ es.length) :
    ∃ e, Arr.create es sh nd = .err e := by
  unfold Arr.create Arr.new
  simp only [if_neg h]
  split <;> exact ⟨_, rfl⟩

theorem create_total (es : List α) (sh : List Nat) (nd : Option Nat) : Arr.create es sh nd ≠ .panic := by
  unfold Arr.create
  simp only []
  split
  · exact bind_ne_panic_of _ _ (new_ne_panic _ _) (fun _ _ => new_ne_panic _ _)
  · exact new_ne_panic _ _

theorem broadcastTo_rejects (a : Arr α) (t : List Nat) (h : isBroadcastable a.shape t = false) :
    ∃ e, a.broadcastTo t = .err e := ⟨.BroadcastShapeMismatch, by unfold Arr.broadcastTo; simp [h]⟩

theorem broadcast_rejects (a : Arr α) (b : Arr β) (h : isBroadcastable a.shape b.shape = false) :
    ∃ e, a.broadcast b = .err e := ⟨.BroadcastShapeMismatch, by unfold Arr.broadcast; simp [h]⟩

theorem zip_rejects (a : Arr α) (b : Arr β) (h : isBroadcastable b.shape a.shape = false) :
    ∃ e, a.zip b = .err e := by
  obtain ⟨e, he⟩ := broadcastTo_rejects b a.shape h
  exact ⟨e, by unfold Arr.zip; rw [he]; rfl⟩

theorem atleast_rejects (a : Arr α) (n : Nat) (h : 3 < n) : ∃ e, a.atleast n = .err e := ⟨_, C07.atleast_unsupported a n h⟩

/-! ### axis orders -/

/-- wrong length, an axis outside the rank (after `normalize_axis`, so also every too-negative value), or a repetition -/
theorem transpose_rejects (a : Arr α) (zero : α) (axes : List Int)
    (h : axes.length ≠ a.ndim ∨ (∃ i ∈ axes, normalizeAxis a.ndim i ≥ a.ndim) ∨ ¬ (axes.map (normalizeAxis a.ndim)).Nodup) :
    ∃ e, a.transpose zero (some axes) = .err e := by
  rcases h with h | h | h
  · exact ⟨_, transpose_err_of_length a zero axes h⟩
  · by_cases hl : axes.length = a.ndim
    · exact ⟨_, transpose_err_of_range a zero axes hl h⟩
    · exact ⟨_, transpose_err_of_length a zero axes hl⟩
  · exact transpose_err_of_dup a zero axes h

/-- the four axis-order operations never panic, whatever the array and the arguments -/
theorem axis_orders_total (a : Arr α) (zero : α) (axes : Option (List Int)) (s d : List Int) (x y : Int) (st : Option Int) :
    a.transpose zero axes ≠ .panic ∧ a.moveaxis zero s d ≠ .panic ∧ a.rollaxis zero x st ≠ .panic ∧ a.swapaxes zero x y ≠ .panic :=
  ⟨transpose_ne_panic _ _ _, moveaxis_ne_panic _ _ _ _, rollaxis_ne_panic _ _ _ _, swapaxes_ne_panic _ _ _ _⟩

/-- `moveaxis`: lists of different length, or a source axis outside the rank (the destination is clamped by the code
— an open region of the statement — and is not claimed here) -/
theorem moveaxis_rejects (a : Arr α) (zero : α) (s d : List Int)
    (h : s.length ≠ d.length ∨ ∃ i ∈ s, normalizeAxis a.ndim i ≥ a.ndim) : ∃ e, a.moveaxis zero s d = .err e := by
  rcases h with h | h
  · exact moveaxis_err_of_length a zero s d h
  · exact moveaxis_err_of_source a zero s d h

theorem rollaxis_rejects (a : Arr α) (zero : α) (axis : Int) (start : Option Int)
    (h : normalizeAxis a.ndim axis ≥ a.ndim ∨ Arr.startOf a.ndim start ≥ a.ndim) : ∃ e, a.rollaxis zero axis start = .err e :=
  ⟨_, rollaxis_err a zero axis start h⟩

theorem swapaxes_rejects (a : Arr α) (zero : α) (x y : Int)
    (h : normalizeAxis a.ndim x ≥ a.ndim ∨ normalizeAxis a.ndim y ≥ a.ndim) : ∃ e, a.swapaxes zero x y = .err e :=
  ⟨_, swapaxes_err a zero x y h⟩

/-- which axis numbers are "outside the rank": everything not in `-rank .. rank-1` (within `isize`) normalises to `≥ rank` -/
theorem out_of_range_axis_normalises_high (nd : Nat) (ax : Int) (hnd : nd < 2 ^ 63) (hlo : -(2 ^ 63 : Int) ≤ ax)
    (h : ax ≥ nd ∨ ax < -(nd : Int)) : normalizeAxis nd ax ≥ nd := by
  unfold normalizeAxis USIZE
  rcases h with h | h
  · rw [if_neg (by omega)]; omega
  · rw [if_pos (by omega)]
    simp only
    rw [if_pos (by omega)]
    omega

theorem expandDims_rejects (a : Arr α) (axes : List Int)
    (h : ∃ i ∈ axes, a.ndim + axes.length ≤ normalizeAxisDim a.ndim i axes.length) : ∃ e, a.expandDims axes = .err e :=
  ⟨_, C07.expandDims_out_of_range a axes h⟩

theorem expandDims_total (a : Arr α) (axes : List Int) (hwf : a.WF) : a.expandDims axes ≠ .panic := by
  rcases C07.expandDims_total a axes hwf with ⟨r, hr⟩ | h
  · rw [hr]; simp
  · rw [h]; simp

theorem squeeze_rejects (a : Arr α) (axes : List Int) (h : ∃ i ∈ axes, a.ndim ≤ normalizeAxis a.ndim i) :
    ∃ e, a.squeeze (some axes) = .err e := ⟨_, C07.squeeze_out_of_range a axes h⟩

/-! ### `apply_along_axis` and everything built on it: reductions, scans, counts, sort/argsort/unique, pack/unpack, delete -/

theorem applyAlongAxis_rejects (a : Arr α) (zero : α) (zb : β) (axis : Nat) (f : Arr α → Res (Arr β)) (h : axis ≥ a.ndim) :
    ∃ e, a.applyAlongAxis zero zb axis f = .err e := ⟨_, applyAlongAxis_err a zero zb axis f h⟩

/-- an out-of-range axis is refused BEFORE the lane function is looked at: the result does not depend on `f` -/
theorem applyAlongAxis_rejects_unevaluated (a : Arr α) (zero : α) (zb : β) (axis : Nat) (f g : Arr α → Res (Arr β))
    (h : axis ≥ a.ndim) : a.applyAlongAxis zero zb axis f = a.applyAlongAxis zero zb axis g := by
  rw [applyAlongAxis_err a zero zb axis f h, applyAlongAxis_err a zero zb axis g h]

theorem axis_wrappers_reject (a : Arr α) (zero : α) (zb : β) (ax : Int) (h : normalizeAxis a.ndim ax ≥ a.ndim)
    (f1 : Arr α → Res (Arr β)) (kd : Option Bool) (g1 : Arr α → Option Bool → Res (Arr β)) :
    (∃ e, a.reduceAxis zero zb (some ax) f1 = .err e) ∧ (∃ e, a.countAxis zero zb (some ax) kd g1 = .err e) ∧
    (∃ e, a.scanAxis zero zb (some ax) f1 = .err e) := by
  obtain ⟨h1, h2, h3⟩ := wrappers_err a zero zb ax h f1 kd g1
  exact ⟨⟨_, h1⟩, ⟨_, h2⟩, ⟨_, h3⟩⟩

/-! ### splitting: zero parts, axis outside the rank -/

theorem arraySplit_rejects (a : Arr α) (zero : α) (parts : Nat) (axis : Option Nat)
    (h : parts = 0 ∨ ∃ ax, axis = some ax ∧ ax ≥ a.ndim) : ∃ e, a.arraySplit zero parts axis = .err e := by
  rcases h with h | ⟨ax, rfl, h⟩
  · subst h; exact ⟨_, arraySplit_zero a zero axis⟩
  · exact arraySplit_axis_err a zero parts ax h

theorem split_rejects (a : Arr α) (zero : α) (parts : Nat) (axis : Option Nat)
    (h : parts = 0 ∨ ∃ ax, axis = some ax ∧ ax ≥ a.ndim) : ∃ e, a.split zero parts axis = .err e := by
  rcases h with h | ⟨ax, rfl, h⟩
  · subst h; exact split_zero a zero axis
  · exact ⟨_, split_axis_err a zero parts ax h⟩

theorem splitAxis_rejects (a : Arr α) (zero : α) (ax : Nat) (h : ax ≥ a.ndim) : ∃ e, a.splitAxis zero ax = .err e :=
  ⟨_, splitAxis_err a zero ax h⟩

theorem xsplit_zero_parts (a : Arr α) (zero : α) :
    (∃ e, a.hsplit zero 0 = .err e) ∧ (∃ e, a.vsplit zero 0 = .err e) ∧ (∃ e, a.dsplit zero 0 = .err e) := by
  refine ⟨?_, ?_, ?_⟩
  · unfold Arr.hsplit; split <;> exact ⟨_, rfl⟩
  · unfold Arr.vsplit; split <;> exact ⟨_, rfl⟩
  · unfold Arr.dsplit; split <;> exact ⟨_, rfl⟩

/-! ### flip / rot90 -/

theorem flip_rejects (a : Arr α) (axes : List Int) (h : ∃ x ∈ axes, normalizeAxis a.ndim x ≥ a.ndim) :
    ∃ e, a.flip (some axes) = .err e := ⟨_, flip_err a axes h⟩

theorem rot90_rejects (a : Arr α) (zero : α) (k : Nat) (axes : List Int)
    (h : axes.length ≠ 2 ∨ ∃ a0 a1, axes = [a0, a1] ∧ (a0 ≥ a.ndim ∨ a0 < -(a.ndim : Int) ∨ a1 ≥ a.ndim ∨ a1 < -(a.ndim : Int))) :
    ∃ e, a.rot90 zero k axes = .err e := by
  rcases h with h | ⟨a0, a1, rfl, h⟩
  · exact rot90_err_of_length a zero k axes h
  · exact rot90_err_of_range a zero k a0 a1 h

/-! ### delete / insert / repeat / append / concatenate / stack -/

theorem delete_rejects (a : Arr α) (zero : α) (idxs : List Nat) (axis : Option Nat)
    (h : (axis = none ∧ ∃ i ∈ idxs, i ≥ a.elems.length) ∨ ∃ ax, axis = some ax ∧ ax ≥ a.ndim) :
    ∃ e, a.delete zero idxs axis = .err e := by
  rcases h with ⟨rfl, h⟩ | ⟨ax, rfl, h⟩
  · exact ⟨_, deleteFlat_err a idxs h⟩
  · exact ⟨_, delete_axis_err a zero idxs ax h⟩

theorem insertFlat_rejects (a : Arr α) (idxs : List Nat) (values : Arr α) (h : ∃ i ∈ idxs, i > a.elems.length) :
    ∃ e, a.insertFlat idxs values = .err e := ⟨_, insertFlat_err a idxs values h⟩

theorem repeatAxis_rejects (a : Arr α) (zero : α) (reps : List Nat) (ax : Nat) (h : ax ≥ a.ndim) :
    ∃ e, a.repeatAxis zero reps ax = .err e := ⟨_, repeatAxis_err a zero reps ax h⟩

theorem append_rejects (a v : Arr α) (zero : α) (ax : Nat) (h : ax ≥ a.ndim ∨ a.ndim ≠ v.ndim) :
    ∃ e, a.append v zero (some ax) = .err e := by
  rcases h with h | h
  · exact ⟨_, appendAxis_err_axis a v zero ax h⟩
  · exact appendAxis_err_rank a v zero ax h

theorem concatenate_rejects (a0 : Arr α) (rest : List (Arr α)) (zero : α) (ax : Nat) (h : ∃ b ∈ a0 :: rest, ax ≥ b.ndim) :
    ∃ e, Arr.concatenate (a0 :: rest) zero (some ax) = .err e := ⟨_, concatenate_err_axis a0 rest zero ax h⟩

theorem stack_rejects (a0 : Arr α) (rest : List (Arr α)) (zero : α) (axis : Option Nat)
    (h : (∃ ax, axis = some ax ∧ ∃ b ∈ a0 :: rest, ax ≥ b.ndim) ∨ ∃ b ∈ rest, b.shape ≠ a0.shape) :
    ∃ e, Arr.stack (a0 :: rest) zero axis = .err e := by
  rcases h with ⟨ax, rfl, h⟩ | h
  · exact ⟨_, stack_err_axis _ zero ax h⟩
  · exact stack_err_shapes a0 rest zero axis h

end ops


/-! ## (d) totality of the remaining families: every well-formed array, every argument value — `Ok` or `Err`, never a panic -/

section total
variable {α β : Type}

/-! ### `apply_along_axis` and the operations built on it -/

/-- `apply_along_axis`: every well-formed array (zero-length axes included), every axis (inside the rank or not), every
lane closure that does not panic itself (the closure is the caller's code; no assumption on what it returns) -/
theorem applyAlongAxis_total (a : Arr α) (zero : α) (zb : β) (axis : Nat) (f : Arr α → Res (Arr β))
    (hwf : a.WF) (hf : ∀ x, f x ≠ .panic) : a.applyAlongAxis zero zb axis f ≠ .panic :=
  applyAlongAxis_never_panics a zero zb axis f hwf hf

/-- the reduce / count / scan wrappers (sum, prod, max, min, cumsum, count_nonzero, …): any axis option, any keepdims -/
theorem axis_wrappers_total (a : Arr α) (zero : α) (zb : β) (axis : Option Int) (kd : Option Bool)
    (f1 : Arr α → Res (Arr β)) (g1 : Arr α → Option Bool → Res (Arr β)) (hwf : a.WF)
    (hf : ∀ x, f1 x ≠ .panic) (hg : ∀ x k, g1 x k ≠ .panic) :
    a.reduceAxis zero zb axis f1 ≠ .panic ∧ a.countAxis zero zb axis kd g1 ≠ .panic ∧ a.scanAxis zero zb axis f1 ≠ .panic :=
  axis_wrappers_ne_panic a zero zb axis kd f1 g1 hwf hf hg

/-- sort / argsort / unique / argmax / argmin with their own lane functions: any axis option, any kind spelling (enum,
known or unknown text), any element order that is a total order -/
theorem sort_family_total (c : Sort.Cmp α) (h : c.Lawful) (zero : α) (a : Arr α) (axis : Option Int) (ka : Sort.KindArg)
    (isMax : Bool) (kd : Option Bool) (hwf : a.WF) :
    Sort.sort c zero a axis ka ≠ .panic ∧ Sort.argsort c zero a axis ka ≠ .panic ∧ Sort.unique c zero a axis ≠ .panic ∧
    Sort.argExtreme c zero isMax a axis kd ≠ .panic :=
  ⟨C10.sort_op_never_panics h zero a axis ka hwf, C10.argsort_op_never_panics h zero a axis ka hwf,
   C10.unique_op_never_panics zero a axis hwf, C10.argExtreme_op_never_panics h zero isMax a axis kd hwf⟩

/-- an unknown kind name is refused by sort / argsort before anything else is looked at (any array, any axis) -/
theorem sort_kind_rejects (c : Sort.Cmp α) (zero : α) (a : Arr α) (axis : Option Int) (s : List Char) (e : Err)
    (h : Sort.resolveKind (.str s) = .err e) :
    Sort.sort c zero a axis (.str s) = .err e ∧ Sort.argsort c zero a axis (.str s) = .err e := by
  unfold Sort.sort Sort.argsort; rw [h]; exact ⟨rfl, rfl⟩

/-- pack_bits / unpack_bits (through the model of the crate's own `apply_along_axis`): any axis, count, order spelling -/
theorem bits_total (a : Arr Nat) (hwf : a.WF) (axis count : Option Int) (ord : Option C19.Spelling) :
    C19.packBits C19.alongPipe a axis ord ≠ .panic ∧ C19.unpackBits C19.alongPipe a axis count ord ≠ .panic :=
  ⟨C19.pack_never_panics a hwf axis ord, C19.unpack_never_panics a hwf axis count ord⟩

/-- an unknown bit-order name, or an axis outside the rank, is refused by pack_bits / unpack_bits on EVERY array —
also on an empty one (checked before the empty-array shortcut) -/
theorem bits_rejects (along : C19.Along) (a : Arr Nat) (axis count : Option Int) (ord : Option C19.Spelling)
    (h : (∃ e, C19.optOrder ord = .err e) ∨ (∃ ax, axis = some ax ∧ C19.normalizeAxis a.ndim ax ≥ a.ndim)) :
    (∃ e, C19.packBits along a axis ord = .err e) ∧ (∃ e, C19.unpackBits along a axis count ord = .err e) := by
  rcases h with ⟨e, he⟩ | ⟨ax, rfl, hax⟩
  · unfold C19.packBits C19.unpackBits; rw [he]; exact ⟨⟨e, rfl⟩, ⟨e, rfl⟩⟩
  · unfold C19.packBits C19.unpackBits
    cases ho : C19.optOrder ord with
    | err e => exact ⟨⟨e, rfl⟩, ⟨e, rfl⟩⟩
    | panic => exact absurd ho (by cases ord with | none => simp [C19.optOrder] | some s => exact C19.toBitOrder_never_panics s)
    | ok o => simp only [C19.axisCheck, if_pos hax]; exact ⟨⟨_, rfl⟩, ⟨_, rfl⟩⟩

/-! ### splitting -/

/-- array_split / split / split_axis / hsplit / vsplit / dsplit: every part count (zero included), every axis -/
theorem split_total (a : Arr α) (zero : α) (parts k : Nat) (hwf : a.WF) :
    a.arraySplit zero parts (some k) ≠ .panic ∧ a.split zero parts (some k) ≠ .panic ∧ a.splitAxis zero k ≠ .panic ∧
    a.hsplit zero parts ≠ .panic ∧ a.vsplit zero parts ≠ .panic ∧ a.dsplit zero parts ≠ .panic := by
  obtain ⟨h1, h2, h3, h4, h5, h6, _⟩ := C11.split_total a zero parts k hwf
  exact ⟨h1, h2, h3, h4, h5, h6⟩

/-- `axis = None` on EVERY well-formed receiver, rank 0 included (formerly `split_none_total_partial` with `1 ≤ a.ndim`:
on a rank-0 array `array_split(1, None)` / `split(1, None)` reached `self.shape[0]` and panicked; since the `fix:` commit
3685e2a of /repo the defaulted axis is validated and the answer is `Err(AxisOutOfBounds)`, fixes/C09-split-rank0.md) -/
theorem split_none_total (a : Arr α) (zero : α) (parts : Nat) (hwf : a.WF) :
    a.arraySplit zero parts none ≠ .panic ∧ a.split zero parts none ≠ .panic :=
  (C11.split_total a zero parts 0 hwf).2.2.2.2.2.2

/-! ### reordering (proved in `Lemmas/C09Total.lean`, not even well-formedness is needed) -/

theorem flip_total (a : Arr α) (axes : Option (List Int)) : a.flip axes ≠ .panic := flip_ne_panic a axes

/-- shift and axis lists of any lengths (equal or not, empty or not), axes inside the rank or not, repeated or not -/
theorem roll_total (a : Arr α) (shift : List Int) (axes : Option (List Int)) : a.roll shift axes ≠ .panic :=
  roll_ne_panic a shift axes

theorem rot90_total (a : Arr α) (zero : α) (k : Nat) (axes : List Int) : a.rot90 zero k axes ≠ .panic :=
  rot90_ne_panic a zero k axes

theorem squeeze_total (a : Arr α) (axes : Option (List Int)) (hwf : a.WF) : a.squeeze axes ≠ .panic :=
  C07.squeeze_total a axes hwf

/-! ### broadcasting -/

theorem broadcast_family_total (a : Arr α) (b : Arr β) (t : List Nat) (ha : a.WF) (hb : b.WF) :
    a.broadcastTo t ≠ .panic ∧ a.broadcast b ≠ .panic ∧ a.zip b ≠ .panic :=
  ⟨broadcastTo_ne_panic a ha t, broadcast_ne_panic a b ha hb, zip_ne_panic a b hb⟩

/-! ### delete / insert / repeat -/

theorem delete_total (a : Arr α) (zero : α) (idxs : List Nat) (axis : Option Nat) (hwf : a.WF) :
    a.delete zero idxs axis ≠ .panic := C13.delete_total a zero idxs axis hwf

theorem insertFlat_total (a : Arr α) (idxs : List Nat) (values : Arr α) : a.insertFlat idxs values ≠ .panic :=
  C13.insertFlat_no_panic a idxs values

theorem repeat_total (a : Arr α) (zero : α) (reps : List Nat) (axis : Nat) (hwf : a.WF) :
    a.repeatAxis zero reps axis ≠ .panic ∧ a.repeatFlat reps ≠ .panic := by
  refine ⟨?_, repeatFlat_no_panic a reps⟩
  rcases C13.repeatAxis_total a zero reps axis hwf with ⟨_, h⟩ | ⟨_, _, h⟩ | ⟨_, _, _, r, h, _⟩ <;> rw [h] <;>
    exact fun h => nomatch h

/-- `repeat(counts, None)`: a count list that fits neither the last axis nor a single count is refused (last axis ≠ 1) -/
theorem repeatFlat_rejects (a : Arr α) (reps : List Nat) (P : List Nat) (L : Nat) (hs : a.shape = P ++ [L])
    (h : L = 0 ∨ reps.length = 0 ∨ (reps.length ≠ L ∧ reps.length ≠ 1 ∧ L ≠ 1)) :
    ∃ e, a.repeatFlat reps = .err e := ⟨_, (C13.repeatFlat_total a reps).1 P L hs h⟩

/-! ### joining -/

/-- `append(values, axis)`: every pair of well-formed arrays (zero-size included), every axis option -/
theorem append_total (a v : Arr α) (zero : α) (axis : Option Nat) (ha : a.WF) (hv : v.WF) :
    a.append v zero axis ≠ .panic := by
  cases axis with
  | none => exact fun h => nomatch h
  | some k =>
    by_cases hk : k < a.ndim
    · by_cases hm : a.ndim ≠ v.ndim ∨ a.shape.eraseIdx k ≠ v.shape.eraseIdx k
      · obtain ⟨e, he⟩ := (C11.mismatch_refused zero k a []).1 v hm
        rw [he]; exact fun h => nomatch h
      · have h1 : a.ndim = v.ndim := Classical.byContradiction (fun h => hm (.inl h))
        have h2 : a.shape.eraseIdx k = v.shape.eraseIdx k := Classical.byContradiction (fun h => hm (.inr h))
        obtain ⟨r, hr, _⟩ := C11.appendAxis_at a v zero k ha hv hk (by omega) h2
        rw [hr]; exact fun h => nomatch h
    · obtain ⟨e, he⟩ := append_rejects a v zero k (.inl (by omega))
      rw [he]; exact fun h => nomatch h

/-- `concatenate(arrays, axis)`: every list of well-formed arrays (the `unwrap` inside the fold is never reached with an
error: the shape validation in front of it refuses exactly the lists on which an `append` would fail) -/
theorem concatenate_total (arrs : List (Arr α)) (zero : α) (axis : Option Nat) (hwf : ∀ b ∈ arrs, b.WF) :
    Arr.concatenate arrs zero axis ≠ .panic := by
  cases arrs with
  | nil => exact fun h => nomatch h
  | cons a0 rest =>
    cases axis with
    | none => obtain ⟨r, hr, _⟩ := (C11.concatenate_none zero a0 rest).1; rw [hr]; exact fun h => nomatch h
    | some k =>
      by_cases hbad : ∃ b ∈ a0 :: rest, k ≥ b.ndim ∨ b.shape.eraseIdx k ≠ a0.shape.eraseIdx k
      · obtain ⟨e, he⟩ := (C11.mismatch_refused zero k a0 rest).2 hbad
        rw [he]; exact fun h => nomatch h
      · have hj : C11.Joinable k a0 rest := by
          intro b hb
          refine ⟨hwf b hb, ?_, ?_⟩
          · exact Classical.byContradiction (fun h => hbad ⟨b, hb, .inl (by omega)⟩)
          · exact Classical.byContradiction (fun h => hbad ⟨b, hb, .inr h⟩)
        obtain ⟨r, hr, _⟩ := C11.concatenate_at zero k a0 rest hj
        rw [hr]; exact fun h => nomatch h

/-- `stack(arrays, Some(axis))`: every list of well-formed arrays, every axis -/
theorem stack_total (arrs : List (Arr α)) (zero : α) (k : Nat) (hwf : ∀ b ∈ arrs, b.WF) :
    Arr.stack arrs zero (some k) ≠ .panic := by
  cases arrs with
  | nil => unfold Arr.stack; simp
  | cons a0 rest =>
    by_cases hax : ∃ b ∈ a0 :: rest, b.ndim ≤ k
    · rw [(C11.stack_axis_rank_refused zero a0 rest).2 k hax]; exact fun h => nomatch h
    · by_cases hsh : ∃ b ∈ a0 :: rest, b.shape ≠ a0.shape
      · obtain ⟨e, he⟩ := C11.stack_unequal_refused zero (some k) a0 rest hsh
        rw [he]; exact fun h => nomatch h
      · have hk : k < a0.ndim := Classical.byContradiction (fun h => hax ⟨a0, List.mem_cons_self, by omega⟩)
        obtain ⟨r, hr, _⟩ := C11.stack_at zero k a0 rest hk (fun b hb =>
          ⟨hwf b hb, Classical.byContradiction (fun h => hsh ⟨b, hb, h⟩)⟩)
        rw [hr]; exact fun h => nomatch h

end total

/-! ## (e) refusals of the operations modelled by other properties (run by the driver since round 5) -/

section foreign
variable {α : Type}

/-- `slice(start..stop)` on every array of every rank: a reversed range or an end beyond the element count is refused -/
theorem slice_rejects (a : Arr α) (start stop : Nat) (h : stop < start ∨ a.len < stop) : ∃ e, a.slice start stop = .err e := by
  refine ⟨.OutOfBounds, ?_⟩
  unfold Arr.slice
  rw [if_pos]
  unfold Arr.len at h
  rcases h with h | h
  · have : decide (start ≤ stop) = false := by simpa using h
    simp [this]
  · have : decide (stop ≤ a.elems.length) = false := by simpa using h
    simp [this]

/-- `indices_at`: on a vector an index at or beyond the length, on rank ≥ 2 an index at or beyond the first axis length,
on rank 0 anything — refused, on every array -/
theorem indicesAt_rejects (a : Arr α) (idx : List Nat)
    (h : (a.ndim = 1 ∧ ∃ i ∈ idx, i ≥ a.len) ∨ a.ndim = 0 ∨ (2 ≤ a.ndim ∧ ∃ i ∈ idx, i ≥ a.shape.headD 0)) :
    ∃ e, a.indicesAt idx = .err e := by
  unfold Arr.indicesAt
  rcases h with ⟨h1, i, hi, hge⟩ | h0 | ⟨h2, i, hi, hge⟩
  · rw [if_pos h1, if_pos (by simp only [List.any_eq_true, decide_eq_true_eq]; exact ⟨i, hi, hge⟩)]
    exact ⟨_, rfl⟩
  · rw [if_neg (by omega), if_pos (by omega)]; exact ⟨_, rfl⟩
  · rw [if_neg (by omega), if_neg (by omega)]
    cases hs : a.shape with
    | nil => simp [Arr.ndim, hs] at h2
    | cons d0 t =>
      rw [hs] at hge
      have : (idx.any fun i => decide (i ≥ d0)) = true := by
        simp only [List.any_eq_true, decide_eq_true_eq]; exact ⟨i, hi, by simpa using hge⟩
      simp only [Res.idx, List.getElem?_cons_zero, Res.bind_ok, this, if_true]
      exact ⟨_, rfl⟩

/-- linalg products: operands that do not conform are refused (vdot: different element counts; inner: different last
axes; matmul and dot of two matrices: inner dimensions differ) -/
theorem products_reject (a b : C14.A) :
    (a.len ≠ b.len → ∃ e, C14.vdot a b = .err e) ∧
    (∀ sa sb k k', a.shape = sa ++ [k] → b.shape = sb ++ [k'] → k ≠ k' → ∃ e, C14.inner a b = .err e) ∧
    (∀ n m m' p, a.shape = [n, m] → b.shape = [m', p] → m ≠ m' → ∃ e, C14.matmul a b = .err e) ∧
    (∀ n m m' p, a.shape = [n, m] → b.shape = [m', p] → a.len ≠ 1 → b.len ≠ 1 → m ≠ m' → ∃ e, C14.dotFull a b = .err e) :=
  ⟨fun h => ⟨_, C14.vdot_refuses a b h⟩,
   fun sa sb k k' h1 h2 h => ⟨_, C14.inner_refuses a b sa sb k k' h1 h2 h⟩,
   fun n m m' p h1 h2 h => ⟨_, C14.matmul_refuses_22 a b n m m' p h1 h2 h⟩,
   fun n m m' p h1 h2 h3 h4 h => ⟨_, C14.dotFull_extends a b _ (C14.dot_refuses_22 a b n m m' p h1 h2 h3 h4 h)⟩⟩

/-- det / qr / solve: a matrix that is not square (or has an axis shorter than 2) is refused; solve also refuses a
right-hand side whose first axis differs from the matrix order -/
theorem square_rejects (a b : Arr Rat) (r c : Nat) (hs : a.shape = [r, c]) (h : r < 2 ∨ c < 2 ∨ r ≠ c) :
    (∃ e, C15.detArr a = .err e) ∧ (∃ e, C15.qrArr a = .err e) ∧ (∃ e, C15.solveArr a b = .err e) := by
  have hsq : ∃ e, C15.isSquare2 a.shape = .err e := by
    rw [hs]; unfold C15.isSquare2; simp only []
    by_cases h1 : r < 2
    · rw [if_pos h1]; exact ⟨_, rfl⟩
    · rw [if_neg h1]
      by_cases h2 : c < 2
      · rw [if_pos h2]; exact ⟨_, rfl⟩
      · rw [if_neg h2, if_pos (by omega)]; exact ⟨_, rfl⟩
  have hl : ∃ e, C15.isSquareLast a.shape = .err e := by
    rw [hs]; unfold C15.isSquareLast
    simp only [List.length_cons, List.length_nil, Nat.zero_add, Nat.reduceAdd, Nat.lt_irrefl, if_false, Nat.add_one_sub_one,
      Nat.sub_self, List.getD_cons_succ, List.getD_cons_zero]
    by_cases h2 : c < 2
    · rw [if_pos h2]; exact ⟨_, rfl⟩
    · rw [if_neg h2]
      by_cases h1 : r < 2
      · rw [if_pos h1]; exact ⟨_, rfl⟩
      · rw [if_neg h1, if_pos (by omega)]; exact ⟨_, rfl⟩
  obtain ⟨e1, he1⟩ := hsq
  obtain ⟨e2, he2⟩ := hl
  have hnd : a.ndim = 2 := by simp [Arr.ndim, hs]
  refine ⟨⟨e1, ?_⟩, ⟨e2, ?_⟩, ⟨e1, ?_⟩⟩
  · unfold C15.detArr; simp [hnd, he1]
  · unfold C15.qrArr; simp [hnd, he2]
  · unfold C15.solveArr; simp [hnd, he1]

theorem solve_rhs_rejects (a b : Arr Rat) (n b0 : Nat) (t : List Nat) (hs : a.shape = [n, n]) (hn : 2 ≤ n)
    (hb : b.shape = b0 :: t) (h : b0 ≠ n) : ∃ e, C15.solveArr a b = .err e := by
  have hnd : a.ndim = 2 := by simp [Arr.ndim, hs]
  have hsq : C15.isSquare2 a.shape = .ok () := by
    rw [hs]; unfold C15.isSquare2; simp only []; rw [if_neg (by omega), if_neg (by omega), if_neg (by simp)]
  refine ⟨.MustBeEqual, ?_⟩
  rw [hs] at hsq
  unfold C15.solveArr
  simp [hnd, hsq, hb, hs, Res.idx, h]

/-- norm: an axis list that is empty or has three or more entries, one axis outside the rank, two axes of which one is
outside the rank (or both equal) — refused for every order and every array -/
theorem norm_axes_reject (a : Arr Rat) (ord : Option C15.Ord) (keep : Bool) :
    (∃ e, C15.normArr a ord (some []) keep = .err e) ∧
    (∀ x y z rest, ∃ e, C15.normArr a ord (some (x :: y :: z :: rest)) keep = .err e) ∧
    (∀ ax0 ax1, (C15.normAxis a.ndim ax0 < 0 ∨ C15.normAxis a.ndim ax0 ≥ a.ndim ∨ C15.normAxis a.ndim ax1 < 0 ∨
        C15.normAxis a.ndim ax1 ≥ a.ndim) → ∃ e, C15.normArr a ord (some [ax0, ax1]) keep = .err e) := by
  refine ⟨⟨.ParameterError, by simp [C15.normArr]⟩, fun x y z rest => ⟨.ParameterError, by simp [C15.normArr]⟩, ?_⟩
  intro ax0 ax1 h
  rcases C15.norm_two_axes_out_of_range a ord ax0 ax1 keep h with h | h <;> exact ⟨_, h⟩

theorem reduce_axis_rejects (f : List Rat → Rat) (a : Arr Rat) (ax : Int)
    (h : C15.normAxis a.ndim ax < 0 ∨ C15.normAxis a.ndim ax ≥ a.ndim) : C15.reduceAxis f a ax = .err .AxisOutOfBounds := by
  unfold C15.reduceAxis; simp only []; rw [if_pos h]

/-- norm along ONE axis outside the rank: refused for every order -/
theorem norm_axis_rejects (a : Arr Rat) (ord : Option C15.Ord) (ax : Int) (keep : Bool)
    (h : C15.normAxis a.ndim ax < 0 ∨ C15.normAxis a.ndim ax ≥ a.ndim) : ∃ e, C15.normArr a ord (some [ax]) keep = .err e := by
  have hm : ∀ g : Rat → Rat, C15.normAxis (C15.mapArr g a).ndim ax < 0 ∨ C15.normAxis (C15.mapArr g a).ndim ax ≥ (C15.mapArr g a).ndim := fun g => h
  unfold C15.normArr
  simp only [Bool.false_eq_true, if_false, Option.getD_some]
  cases ord.getD (.int 2) with
  | inf => simp only [reduce_axis_rejects _ _ _ (hm _)]; exact ⟨_, rfl⟩
  | negInf => simp only [reduce_axis_rejects _ _ _ (hm _)]; exact ⟨_, rfl⟩
  | fro => exact ⟨_, rfl⟩
  | nuc => exact ⟨_, rfl⟩
  | int v =>
    simp only [reduce_axis_rejects _ _ _ (hm _)]
    split
    · exact ⟨_, rfl⟩
    · split
      · exact ⟨_, rfl⟩
      · split <;> exact ⟨_, rfl⟩

end foreign

/-! ## non-vacuity -/

/-- a `[2,3,4]` array: axis 3, axis −4 and a huge axis are outside the rank, and are refused by every family -/
def sample : Arr Nat := ⟨List.range 24, [2, 3, 4]⟩

example : sample.WF ∧ normalizeAxis sample.ndim 3 ≥ sample.ndim ∧ normalizeAxis sample.ndim (-4) ≥ sample.ndim ∧
    normalizeAxis sample.ndim (2 ^ 63 - 1) ≥ sample.ndim ∧ normalizeAxis sample.ndim (-(2 ^ 63)) ≥ sample.ndim := by decide
example : sample.transpose 0 (some [0, 1, 3]) = .err .AxisOutOfBounds ∧ sample.transpose 0 (some [0, 1]) = .err .MustBeEqual ∧
    sample.transpose 0 (some [0, 1, -2]) = .err .MustBeUnique := by decide
example : ∃ e, sample.moveaxis 0 [3] [0] = .err e := moveaxis_rejects sample 0 [3] [0] (.inr ⟨3, by simp, by decide⟩)
example : sample.arraySplit 0 0 none = .err .ParameterError ∧ sample.split 0 2 (some 3) = .err .AxisOutOfBounds ∧
    sample.flip (some [-4]) = .err .AxisOutOfBounds ∧ sample.indexAt [1, 3, 0] = .err .ParameterError ∧
    sample.reshape [5, 5] = .err .ShapeMustMatchValuesLength ∧ sample.broadcastTo [2, 3, 5] = .err .BroadcastShapeMismatch := by decide
-- the hypotheses of `unknown_option_rejected` are satisfiable, and not by everything
example : (∀ r ∈ sortKind.rowsStr, r.1 ≠ lowerAscii "Quick sort".toList) ∧ ¬ (∀ r ∈ sortKind.rowsStr, r.1 ≠ lowerAscii "QuickSort".toList) := by decide
-- (d): a lawful element order, a lane closure that never panics, a well-formed zero-size array, the rank-0 witness
example : Sort.Cmp.int.Lawful := Sort.Cmp.int_lawful
example : ∀ x : Arr Nat, (fun l => Res.ok l) x ≠ .panic := fun _ h => nomatch h
example : (⟨[], [2, 0]⟩ : Arr Nat).WF ∧ 1 ≤ (⟨[], [2, 0]⟩ : Arr Nat).ndim := by decide
example : (⟨[7], []⟩ : Arr Nat).WF ∧ (⟨[7], []⟩ : Arr Nat).arraySplit 0 1 none = .err .AxisOutOfBounds ∧
    (⟨[7], []⟩ : Arr Nat).split 0 1 none = .err .AxisOutOfBounds := by decide
example : Sort.resolveKind (.str "quick sort".toList) = .err .ParameterError ∧ C19.optOrder (some (.text "bigg".toList)) = .err .ParameterError := by decide
example : (⟨[1, 2, 3], [3]⟩ : Arr Nat).repeatFlat [1, 1] = .err .BroadcastShapeMismatch := by decide
-- (e): the hypotheses are satisfiable
example : (⟨[1, 2, 3], [3]⟩ : Arr Nat).slice 2 1 = .err .OutOfBounds ∧ (⟨[1, 2, 3], [3]⟩ : Arr Nat).indicesAt [0, 3] = .err .OutOfBounds := by decide
example : C15.normAxis 2 2 ≥ (2 : Nat) ∧ C15.normAxis 2 (-3) < 0 := by decide
example : C15.detArr ⟨[1, 2, 3, 4, 5, 6], [2, 3]⟩ = .err .MustBeEqual ∧ C14.matmul ⟨[1, 2, 3, 4, 5, 6], [2, 3]⟩ ⟨[1, 2, 3, 4, 5, 6], [2, 3]⟩ = .err .ParameterError := by decide
example : resultImpls.length = 205 ∧ (traitMethods.filter (·.fallible)).length = 253 ∧ optionParsers.length = 5 := by decide +kernel

/-! ## (f) the validators as REGENERATED FROM THE RUST SOURCE on every run
`tools/rs2lean.py` translates `src/validators/{axis,dimension,shape}.rs` construct by construct into `ArrModel/Gen/Core.lean`;
these theorems are about those generated definitions (equivalences with the hand model: `ArrProofs/Lemmas/GenCore.lean`), so a
change of the Rust validators changes the statement that has to be proved here. -/

open ArrModel.Gen.Core in
/-- `axis_in_bounds` / `axis_opt_in_bounds` (validators/axis.rs): Ok exactly for an axis inside the rank (or no axis), the error
value `AxisOutOfBounds` exactly otherwise, never a panic - for every array and every axis value -/
theorem gen_axis_validators {α : Type} (a : Arr α) (ax : Nat) (o : Option Nat) :
    (Array_axis_in_bounds a ax = .ok () ↔ ax < a.ndim) ∧ (Array_axis_in_bounds a ax = .err .AxisOutOfBounds ↔ a.ndim ≤ ax) ∧
    Array_axis_in_bounds a ax ≠ .panic ∧
    (Array_axis_opt_in_bounds a o = .ok () ↔ ∀ x, o = some x → x < a.ndim) ∧
    (Array_axis_opt_in_bounds a o = .err .AxisOutOfBounds ↔ ∃ x, o = some x ∧ a.ndim ≤ x) ∧
    Array_axis_opt_in_bounds a o ≠ .panic :=
  ⟨c09_gen_axis_in_bounds_ok_iff a ax, c09_gen_axis_in_bounds_err_iff a ax, c09_gen_axis_in_bounds_never_panics a ax,
   c09_gen_axis_opt_in_bounds_ok_iff a o, c09_gen_axis_opt_in_bounds_err_iff a o, c09_gen_axis_opt_in_bounds_never_panics a o⟩

open ArrModel.Gen.Core in
/-- `is_dim_supported` / `is_dim_unsupported` (validators/dimension.rs, `Array<T>` and `usize` impls): an unsupported rank is the
error value `UnsupportedDimension`, a supported one is Ok, never a panic -/
theorem gen_dimension_validators {α : Type} (a : Arr α) (l : List Nat) (n : Nat) :
    (Array_is_dim_supported a l = .ok () ↔ a.ndim ∈ l) ∧ (Array_is_dim_supported a l = .err .UnsupportedDimension ↔ a.ndim ∉ l) ∧
    (Array_is_dim_unsupported a l = .ok () ↔ a.ndim ∉ l) ∧ (Array_is_dim_unsupported a l = .err .UnsupportedDimension ↔ a.ndim ∈ l) ∧
    Array_is_dim_supported a l ≠ .panic ∧ Array_is_dim_unsupported a l ≠ .panic ∧
    usize_is_dim_supported n l ≠ .panic ∧ usize_is_dim_unsupported n l ≠ .panic :=
  ⟨c09_gen_is_dim_supported_ok_iff a l, c09_gen_is_dim_supported_err_iff a l, c09_gen_is_dim_unsupported_ok_iff a l,
   c09_gen_is_dim_unsupported_err_iff a l, (c09_gen_is_dim_never_panics a l).1, (c09_gen_is_dim_never_panics a l).2,
   (c09_gen_usize_is_dim_never_panics n l).1, (c09_gen_usize_is_dim_never_panics n l).2⟩

open ArrModel.Gen.Core in
/-- the shape validators (validators/shape.rs) answer with a value for every input; `new` - the funnel of every constructor -
refuses a non-fitting element list with the error value and never panics -/
theorem gen_shape_validators_total {α β : Type} (s t : List Nat) (e : List β) (es : List α) :
    Vec_is_broadcastable s t ≠ .panic ∧ Vec_matches_values_len s e ≠ .panic ∧ Vec_matches_shape s t ≠ .panic ∧
    Array_new es s ≠ .panic ∧ (s.prod ≠ es.length → Array_new es s = .err .ShapeMustMatchValuesLength) :=
  ⟨(c09_gen_shape_validators_never_panic s t e).1, (c09_gen_shape_validators_never_panic s t e).2.1,
   (c09_gen_shape_validators_never_panic s t e).2.2, c01_gen_new_never_panics es s, c01_gen_new_err es s⟩

example : ArrModel.Gen.Core.Array_axis_in_bounds sample 3 = .err .AxisOutOfBounds ∧ ArrModel.Gen.Core.Array_axis_in_bounds sample 2 = .ok () := by decide

/-! ## (g) `insert(indices, values, Some(axis))` — the model `Arr.insertAxis` of `ArrModel/C01Diff.lean`, run by the C09 driver since round 5
(class `m` / `x` lines).  Refusals of the argument kinds the statement names, the vector arm, totality (`Lemmas/C09Insert.lean`), and the three-argument
relation "number of insertion points against the rows of the values" for values whose other axes match (stretched values: tied by execution). -/

section insertAxis
variable {α : Type}

/-- `insert(indices, values, Some(axis))` (model `Arr.insertAxis`, `ArrModel/C01Diff.lean`): the argument kinds the statement names
are refused with an error value, for every array, index list, values array and axis — (1) an axis outside the rank, (2) an index
above the length of that axis, (3) a values array of rank 0 or of a rank above the receiver's, (4) on a receiver of rank >= 2 a
number of indices that does not broadcast against the first axis -/
theorem insertAxis_rejects (a : Arr α) (zero : α) (indices : List Nat) (v : Arr α) (axis : Nat) :
    (a.ndim ≤ axis → a.insertAxis zero indices v axis = .err .AxisOutOfBounds) ∧
    (axis < a.ndim → (∃ i ∈ indices, i > a.shape.getD axis 0) → a.insertAxis zero indices v axis = .err .OutOfBounds) ∧
    (axis < a.ndim → (∀ i ∈ indices, i ≤ a.shape.getD axis 0) → (v.ndim = 0 ∨ a.ndim < v.ndim) →
      a.insertAxis zero indices v axis = .err .UnsupportedDimension) ∧
    (axis < a.ndim → (∀ i ∈ indices, i ≤ a.shape.getD axis 0) → 1 ≤ v.ndim → v.ndim ≤ a.ndim → a.ndim ≠ 1 →
      isBroadcastable [indices.length] (a.shape.take 1) = false → a.insertAxis zero indices v axis = .err .BroadcastShapeMismatch) := by
  have hany : (∀ i ∈ indices, i ≤ a.shape.getD axis 0) → indices.any (fun i => decide (i > a.shape.getD axis 0)) = false := by
    intro h; rw [List.any_eq_false]; intro i hi; have := h i hi; simpa using this
  refine ⟨fun h => ?_, fun hax ⟨i, hi, hgt⟩ => ?_, fun hax hix hv => ?_, fun hax hix h1 h2 hn1 hb => ?_⟩
  · unfold Arr.insertAxis; rw [if_pos h]
  · have : indices.any (fun i => decide (i > a.shape.getD axis 0)) = true := List.any_eq_true.mpr ⟨i, hi, by simpa using hgt⟩
    unfold Arr.insertAxis; rw [if_neg (by omega), if_pos this]
  · unfold Arr.insertAxis; rw [if_neg (by omega), hany hix]
    have : (!(decide (1 ≤ v.ndim) && decide (v.ndim ≤ a.ndim))) = true := by rcases hv with hv | hv <;> simp <;> omega
    simp [this]
  · unfold Arr.insertAxis; rw [if_neg (by omega), hany hix]
    have : (!(decide (1 ≤ v.ndim) && decide (v.ndim ≤ a.ndim))) = false := by simp; omega
    simp [this, hn1, hb]

/-- along the only axis of a vector `insert` with an axis IS the flat insert once the three argument checks have passed; the
refusals of the flat insert (`insertFlat_rejects`) carry over -/
theorem insertAxis_vector (a : Arr α) (zero : α) (indices : List Nat) (v : Arr α) (h1 : a.ndim = 1)
    (hix : ∀ i ∈ indices, i ≤ a.shape.getD 0 0) (hv : v.ndim = 1) : a.insertAxis zero indices v 0 = a.insertFlat indices v := by
  have hany : indices.any (fun i => decide (i > a.shape.getD 0 0)) = false := by
    rw [List.any_eq_false]; intro i hi; have := hix i hi; simpa using this
  unfold Arr.insertAxis
  rw [if_neg (by omega), hany]
  simp [h1, hv]

/-- **totality**: `insert` with an axis never panics on a well-formed receiver - for every index list, every values array (well-formed
or not) and every axis value.  The model has two panic arms on rank >= 2 (`Vec::insert` above the length of the piece list, the
division by the slice length); neither is reachable: a zero-length off-axis is refused by the fit loop, `split_axis` hands out
`shape[axis]` pieces (one piece for an empty receiver, whose only admissible index is then 0), and every step in between is total
(`Lemmas/C09Insert.lean`).  Before the `fix:` commits 06ac896 / 5478fd7 the code did panic (vector receiver with an index >= 2; a
zero-length values axis). -/
theorem insertAxis_total (a : Arr α) (zero : α) (indices : List Nat) (v : Arr α) (axis : Nat) (ha : a.WF) :
    a.insertAxis zero indices v axis ≠ .panic := insertAxis_ne_panic a zero indices v axis ha

/-- **rows against insertion points** (round 5, the three-argument relation; code as of /repo 34ccd75): on a receiver of rank >= 2, with
two or more insertion points, a values array of the receiver's rank whose other axes match the receiver exactly, which is not the
single slice and whose element count is not a multiple of (slice length x number of insertion points) - the whole slices of the
values cannot be distributed equally over the insertion points, whether or not the slice length shares a factor with their number -
is refused with an error value.  (Stated for matching axes; for values that are stretched first the same refusal sits behind the
fit loop and is tied by execution - class `x` lines.) -/
theorem insertAxis_rows_reject (a v : Arr α) (zero : α) (indices : List Nat) (axis : Nat) (ha : a.WF) (hv : v.WF)
    (hn1 : a.ndim ≠ 1) (hk : 1 < indices.length) (hvr : v.ndim = a.ndim)
    (hfit : ∀ i, i < a.ndim → i ≠ axis → (swapExt v.shape 0 axis).getD i 0 = a.shape.getD i 0 ∧ a.shape.getD i 0 ≠ 0)
    (hone : v.len ≠ (a.shape.eraseIdx axis).prod) (hrows : v.len % ((a.shape.eraseIdx axis).prod * indices.length) ≠ 0) :
    ∃ e, a.insertAxis zero indices v axis = .err e := by
  cases h : a.insertAxis zero indices v axis with
  | ok r => exact absurd h (insertAxis_uneven_not_ok a v zero indices axis hv hn1 hk hvr hfit hone hrows r)
  | err e => exact ⟨e, rfl⟩
  | panic => exact absurd h (insertAxis_ne_panic a zero indices v axis ha)

end insertAxis

-- non-vacuity: each refusal of `insertAxis_rejects` on a 2x3 receiver, and the vector arm
example : (⟨[1, 2, 3, 4, 5, 6], [2, 3]⟩ : Arr Nat).insertAxis 0 [0] ⟨[7, 8, 9], [3]⟩ 2 = .err .AxisOutOfBounds ∧
    (⟨[1, 2, 3, 4, 5, 6], [2, 3]⟩ : Arr Nat).insertAxis 0 [0, 3] ⟨[7, 8, 9], [3]⟩ 0 = .err .OutOfBounds ∧
    (⟨[1, 2, 3, 4, 5, 6], [2, 3]⟩ : Arr Nat).insertAxis 0 [0] ⟨[7], []⟩ 0 = .err .UnsupportedDimension ∧
    (⟨[1, 2, 3, 4, 5, 6], [2, 3]⟩ : Arr Nat).insertAxis 0 [0, 1, 2] ⟨[7, 8, 9], [3]⟩ 0 = .err .BroadcastShapeMismatch ∧
    (⟨[1, 2, 3, 4, 5, 6], [2, 3]⟩ : Arr Nat).insertAxis 0 [0, 1] ⟨[7, 8, 9, 10, 11, 12, 13, 14, 15], [3, 3]⟩ 0 = .err .BroadcastShapeMismatch ∧
    (⟨[1, 2, 3, 4, 5, 6], [2, 3]⟩ : Arr Nat).insertAxis 0 [0, 1] ⟨[7, 8, 9, 10, 11, 12], [2, 3]⟩ 0 =
      .ok ⟨[7, 8, 9, 1, 2, 3, 10, 11, 12, 4, 5, 6], [4, 3]⟩ ∧
    (⟨[1, 2, 3], [3]⟩ : Arr Nat).insertAxis 0 [2] ⟨[9], [1]⟩ 0 = .ok ⟨[1, 2, 9, 3], [4]⟩ := by decide +kernel
-- the hypotheses of `insertAxis_rows_reject` are satisfiable: three rows for two insertion points on a 2x2 receiver (6 elements: a
-- multiple of 2 but not of 2 x 2 - the input the code accepted before /repo 34ccd75), and the model refuses it
example : let a : Arr Nat := ⟨[1, 2, 3, 4], [2, 2]⟩; let v : Arr Nat := ⟨[10, 11, 12, 13, 14, 15], [3, 2]⟩
    a.WF ∧ v.WF ∧ a.ndim ≠ 1 ∧ 1 < [0, 1].length ∧ v.ndim = a.ndim ∧
    (∀ i, i < a.ndim → i ≠ 0 → (swapExt v.shape 0 0).getD i 0 = a.shape.getD i 0 ∧ a.shape.getD i 0 ≠ 0) ∧
    v.len ≠ (a.shape.eraseIdx 0).prod ∧ v.len % ((a.shape.eraseIdx 0).prod * [0, 1].length) ≠ 0 ∧
    a.insertAxis 0 [0, 1] v 0 = .err .BroadcastShapeMismatch := by decide +kernel

end ArrModel.C09
