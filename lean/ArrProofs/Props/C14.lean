import ArrModel.C14
namespace ArrModel.C14
open ArrModel

theorem vdot_refused (a b : A) (h : a.len ≠ b.len) : vdot a b = .err .MustBeEqual := by
  unfold vdot; rw [if_neg h]

end ArrModel.C14
