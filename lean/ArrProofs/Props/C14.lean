import ArrProofs.Lemmas.C14
import ArrProofs.Lemmas.C14Ext
import ArrProofs.Lemmas.C14DotNd
/-!
# C14 — vector and matrix products equal their defining sums when operands conform

Property theorems only (helpers: `ArrProofs/Lemmas/C14.lean`).  Model under test: `ArrModel/C14.lean`
(`matmul`, `dot`, `vdot`, `inner`, `outer` with their rank dispatch and helpers, as repaired by
`/verif/fixes/C14-*.diff`).  Entries are integers; `a.ent c` reads the entry at coordinates `c`
(`Arr.get?` with default `0`; `ent_defined` shows the read is defined on every in-range coordinate of a
well-formed array).  Sums are `Finset` sums over the shared index.  Unless a hypothesis says otherwise the
statements hold for every length including zero; `0 < …` hypotheses appear exactly where the Rust goes
through `split_axis` / `split`, or through `zip` / `broadcast`, which REFUSE an empty operand (the model mirrors that
refusal; section E2 at the end states what happens on zero-length operands) — the property is about lengths 1...
The sections E1–E3 at the end cover what lies outside the statement: `matmul` of a vector with a stack, zero-length
operands, `dot` with an operand of rank ≥ 3.

Open finding (test-pinned, see `/verif/fixes/C14-dot-2d-rectangular-refused.md`): `dot` of two matrices
refuses a conforming product whose result is not square.  `DotMatMat` is the full statement,
`dot_22_partial` proves it outside that region, `dot_22_open_witness` refutes it at the witness.
-/
namespace ArrModel.C14
open ArrModel Finset

/-- the specification read is a real read: on a well-formed array every in-range coordinate has an entry -/
theorem ent_defined (a : A) (hwf : a.WF) (c : List Nat) (h : inRange a.shape c = true) :
    a.get? c = some (a.ent c) := get?_eq_some_ent a hwf c h

/-! ## matmul -/

/-- **matrix · matrix**: `[n,m] · [m,p]` is accepted, has shape `[n,p]`, is well-formed, and
entry `(i,j)` is `Σ_k A[i,k]·B[k,j]`. -/
theorem matmul_22 (a b : A) (n m p : Nat) (ha : a.WF) (hb : b.WF)
    (hsa : a.shape = [n, m]) (hsb : b.shape = [m, p]) :
    ∃ r, matmul a b = .ok r ∧ r.shape = [n, p] ∧ r.WF ∧
      ∀ i j, i < n → j < p → r.get? [i, j] = some (∑ k ∈ range m, a.ent [i, k] * b.ent [k, j]) := by
  refine ⟨mm22 a b n m p, ?_, rfl, ?_, ?_⟩
  · unfold matmul
    simp only [Arr.ndim, hsa, hsb]
    simp
    exact matmul22_eq a b n m p ha hb hsa hsb
  · simp [Arr.WF, mm22]
  · intro i j hi hj
    rw [mm22_get a b n m p i j hi hj, cellSpec_eq_ent a b n m p i j hsa hsb]

/-- **vector · matrix**: `[k] · [k,p]` has shape `[p]` and entry `j` is `Σ_i a[i]·B[i,j]`. -/
theorem matmul_vec_mat (a b : A) (k p : Nat) (ha : a.WF) (hb : b.WF)
    (hsa : a.shape = [k]) (hsb : b.shape = [k, p]) :
    ∃ r, matmul a b = .ok r ∧ r.shape = [p] ∧ r.WF ∧
      ∀ j, j < p → r.get? [j] = some (∑ i ∈ range k, a.ent [i] * b.ent [i, j]) := by
  refine ⟨vm12 a b k p, ?_, by simp [vm12, Arr.flat], by simp [vm12, Arr.flat, Arr.WF], ?_⟩
  · unfold matmul
    simp only [Arr.ndim, hsa, hsb]
    simp [shapesAlign]
    exact matmul1dNd_vecmat 2 a b k p ha hb hsa hsb
  · intro j hj
    simp only [Arr.get?, vm12, Arr.flat, ravel, List.length_map, List.length_range, List.prod_nil, Nat.mul_one,
      Nat.add_zero, List.getElem?_map, List.getElem?_range hj, Option.map_some]
    congr 1
    apply Finset.sum_congr rfl
    intro i _
    rw [ent_eq_getD, ent_eq_getD, hsa, hsb]; simp [ravel]

/-- **matrix · vector**: `[n,k] · [k]` has shape `[n]` and entry `i` is `Σ_q A[i,q]·b[q]`. -/
theorem matmul_mat_vec (a b : A) (n k : Nat) (ha : a.WF) (hb : b.WF) (hn : 0 < n) (hk : 0 < k)
    (hsa : a.shape = [n, k]) (hsb : b.shape = [k]) :
    ∃ r, matmul a b = .ok r ∧ r.shape = [n] ∧ r.WF ∧
      ∀ i, i < n → r.get? [i] = some (∑ q ∈ range k, a.ent [i, q] * b.ent [q]) := by
  refine ⟨mv21 a b n k, ?_, by simp [mv21, Arr.flat], by simp [mv21, Arr.flat, Arr.WF], ?_⟩
  · unfold matmul
    simp only [Arr.ndim, hsa, hsb]
    simp [shapesAlign]
    exact matmul1dNd_matvec 2 a b n k ha hb hn hk hsa hsb
  · intro i hi
    simp only [Arr.get?, mv21, Arr.flat, ravel, List.length_map, List.length_range, List.prod_nil, Nat.mul_one,
      Nat.add_zero, List.getElem?_map, List.getElem?_range hi, Option.map_some]
    congr 1
    apply Finset.sum_congr rfl
    intro q _
    rw [ent_eq_getD, ent_eq_getD, hsa, hsb]; simp [ravel]

/-- **vector · vector** under `matmul` is the flattened dot product, a one-element array. -/
theorem matmul_vec_vec (a b : A) (k : Nat) (ha : a.WF) (hb : b.WF) (hsa : a.shape = [k]) (hsb : b.shape = [k])
    (hk : 0 < k) :
    matmul a b = .ok ⟨[∑ i ∈ range k, a.ent [i] * b.ent [i]], [1]⟩ := by
  have hla : a.elems.length = k := by rw [ha, hsa]; simp
  have hlb : b.elems.length = k := by rw [hb, hsb]; simp
  unfold matmul vdot
  simp only [Arr.ndim, Arr.len, hsa, hsb, hla, hlb]
  simp only [List.length_cons, List.length_nil, Nat.zero_add, and_self, if_true]
  rw [if_neg (by omega)]
  rw [sumProd_eq_sum _ _ (by rw [hla, hlb]), hla]
  congr 3
  apply Finset.sum_congr rfl
  intro i _
  rw [ent_eq_getD, ent_eq_getD, hsa, hsb]; simp [ravel]

/-- **equally shaped stacks**: `[s,n,m] · [s,m,p]` has shape `[s,n,p]` and
entry `(t,i,j)` is `Σ_k A[t,i,k]·B[t,k,j]`. -/
theorem matmul_stack (a b : A) (s n m p : Nat) (ha : a.WF) (hb : b.WF)
    (hs : 0 < s) (hn : 0 < n) (hm : 0 < m) (hp : 0 < p)
    (hsa : a.shape = [s, n, m]) (hsb : b.shape = [s, m, p]) :
    ∃ r, matmul a b = .ok r ∧ r.shape = [s, n, p] ∧ r.WF ∧
      ∀ t i j, t < s → i < n → j < p →
        r.get? [t, i, j] = some (∑ k ∈ range m, a.ent [t, i, k] * b.ent [t, k, j]) := by
  refine ⟨ms33 a b s n m p, ?_, rfl, ?_, ?_⟩
  · unfold matmul
    simp only [Arr.ndim, hsa, hsb]
    simp
    exact matmulNd_stack a b s n m p ha hb hs hn hm hp hsa hsb
  · unfold Arr.WF ms33
    simp only
    rw [length_flatMap_uniform _ _ (n * p) (by intro t _; simp [mm22])]
    simp
  · intro t i j ht hi hj
    exact ms33_get a b s n m p t i j ht hi hj hsa hsb

/-- **stacks, slice form**: the `t`-th matrix of the result is `matmul` of the `t`-th matrices of the operands. -/
theorem matmul_stack_slices (a b : A) (s n m p : Nat) (ha : a.WF) (hb : b.WF)
    (hs : 0 < s) (hn : 0 < n) (hm : 0 < m) (hp : 0 < p)
    (hsa : a.shape = [s, n, m]) (hsb : b.shape = [s, m, p]) :
    ∃ r, matmul a b = .ok r ∧ ∀ t, t < s →
      matmul ⟨slab a (n * m) t, [n, m]⟩ ⟨slab b (m * p) t, [m, p]⟩ = .ok ⟨slab r (n * p) t, [n, p]⟩ := by
  refine ⟨ms33 a b s n m p, ?_, ?_⟩
  · unfold matmul
    simp only [Arr.ndim, hsa, hsb]
    simp
    exact matmulNd_stack a b s n m p ha hb hs hn hm hp hsa hsb
  · intro t ht
    have h22 : matmul ⟨slab a (n * m) t, [n, m]⟩ ⟨slab b (m * p) t, [m, p]⟩
        = matmul22 ⟨slab a (n * m) t, [n, m]⟩ ⟨slab b (m * p) t, [m, p]⟩ := by
      unfold matmul; simp [Arr.ndim]
    rw [h22, matmul22_eq _ _ n m p (slab_wf a s n m t ha hsa ht) (slab_wf b s m p t hb hsb ht) rfl rfl]
    rw [slab_ms33 a b s n m p t ht]
    rfl

/-! ### matmul: operands whose contracted lengths differ are refused, arm by arm -/

theorem matmul_refuses_22 (a b : A) (n m m' p : Nat) (hsa : a.shape = [n, m]) (hsb : b.shape = [m', p])
    (h : m ≠ m') : matmul a b = .err .ParameterError := by
  unfold matmul matmul22 shapesAlign
  simp [Arr.ndim, hsa, hsb, h]

/-- vector · N-D (N ≥ 2): the vector length is compared with the second-to-last axis -/
theorem matmul_refuses_vec_nd (a b : A) (k k' : Nat) (hsa : a.shape = [k]) (hb : 2 ≤ b.ndim)
    (hk' : b.shape[b.ndim - 2]? = some k') (h : k ≠ k') : matmul a b = .err .ParameterError := by
  unfold matmul shapesAlign
  have h1 : ¬ (b.ndim = 1) := by omega
  simp [Arr.ndim, hsa] at h1 ⊢
  simp [h1, Arr.ndim] at hk' ⊢
  simp [hk', h]

/-- N-D · vector (N ≥ 2): the last axis is compared with the vector length -/
theorem matmul_refuses_nd_vec (a b : A) (k k' : Nat) (hsb : b.shape = [k']) (ha : 2 ≤ a.ndim)
    (hk : a.shape[a.ndim - 1]? = some k) (h : k ≠ k') : matmul a b = .err .ParameterError := by
  unfold matmul shapesAlign
  have h1 : ¬ (a.ndim = 1) := by omega
  simp [Arr.ndim, hsb] at h1 ⊢
  simp [h1, Arr.ndim] at hk ⊢
  simp [hk, h]

theorem matmul_refuses_vec_vec (a b : A) (k k' : Nat) (ha : a.WF) (hb : b.WF) (hsa : a.shape = [k])
    (hsb : b.shape = [k']) (h : k ≠ k') : matmul a b = .err .MustBeEqual := by
  have hla : a.elems.length = k := by rw [ha, hsa]; simp
  have hlb : b.elems.length = k' := by rw [hb, hsb]; simp
  unfold matmul vdot
  simp [Arr.ndim, Arr.len, hsa, hsb, hla, hlb, h]

/-- stacks whose matrices do not conform are refused -/
theorem matmul_refuses_stack (a b : A) (s n m m' p : Nat) (ha : a.WF) (hb : b.WF)
    (hs : 0 < s) (hn : 0 < n) (hm : 0 < m) (hm' : 0 < m') (hp : 0 < p)
    (hsa : a.shape = [s, n, m]) (hsb : b.shape = [s, m', p]) (h : m ≠ m') :
    matmul a b = .err .ParameterError := by
  have hla := wf_len3 ha hsa
  have hlb := wf_len3 hb hsb
  have hnm : 0 < n * m := Nat.mul_pos hn hm
  have hmp : 0 < m' * p := Nat.mul_pos hm' hp
  unfold matmul
  simp only [Arr.ndim, hsa, hsb]
  simp
  unfold matmulNd
  simp only [Arr.ndim, Arr.len, hsa, hsb, hla, hlb, List.length_cons, List.length_nil, Res.idx]
  simp only [Nat.zero_add, Nat.reduceAdd, Nat.reduceSub, ge_iff_le, Nat.le_refl, if_true, List.getElem?_cons_succ,
    List.getElem?_cons_zero, Res.bind_ok, List.drop_succ_cons, List.drop_zero,
    List.prod_cons, List.prod_nil, Nat.mul_one]
  simp only [List.length_cons, List.length_nil, Nat.zero_add, Nat.reduceAdd, Nat.reduceLT, if_false]
  rw [if_neg (by omega)]
  simp only [Nat.mul_div_cancel s hnm, Nat.mul_div_cancel s hmp, Nat.max_self]
  rw [matmulSplit_stack a s n m ha hs hn hm hsa, matmulSplit_stack b s m' p hb hs hm' hp hsb]
  simp only [Res.bind_ok, List.zip_map', List.map_map]
  rw [collectRes_all_err _ _ .ParameterError (by simp; omega)]
  · rfl
  · intro t _
    simp [matmul22, shapesAlign, h]

/-! ## dot (operands up to rank two) -/

/-- **scalar · array**: a one-element left operand scales the other operand (shape: the broadcast shape) -/
theorem dot_scalar_left (a b : A) (ha : a.WF) (h1 : a.len = 1) (hb0 : b.len ≠ 0) :
    ∃ x, a.elems = [x] ∧
      dot a b = some (.ok ⟨b.elems.map (fun y => x * y), List.replicate (a.ndim - b.ndim) 1 ++ b.shape⟩) := by
  have hs : a.shape = List.replicate a.ndim 1 := ones_of_prod_eq_one a.shape (by rw [← ha]; exact h1)
  obtain ⟨x, hx⟩ : ∃ x, a.elems = [x] := by
    match hE : a.elems, h1 with
    | [x], _ => exact ⟨x, rfl⟩
    | [], h => simp [Arr.len, hE] at h
    | _ :: _ :: _, h => simp [Arr.len, hE] at h
  refine ⟨x, hx, ?_⟩
  unfold dot
  rw [if_pos (Or.inl h1)]
  have hm : multiplyScalar a b = .ok ⟨b.elems.map (fun y => x * y), bshape a.shape b.shape⟩ := by
    unfold multiplyScalar
    rw [hx]
    rcases hB : b.elems with _ | ⟨y1, r⟩
    · simp [Arr.len, hB] at hb0
    · rfl
  rw [hm, hs, bshape_ones_left']
  simp [Arr.ndim]

/-- **array · scalar** -/
theorem dot_scalar_right (a b : A) (hb : b.WF) (h1 : b.len = 1) (ha0 : a.len ≠ 0) :
    ∃ y, b.elems = [y] ∧
      dot a b = some (.ok ⟨a.elems.map (fun x => x * y), List.replicate (b.ndim - a.ndim) 1 ++ a.shape⟩) := by
  have hs : b.shape = List.replicate b.ndim 1 := ones_of_prod_eq_one b.shape (by rw [← hb]; exact h1)
  obtain ⟨y, hy⟩ : ∃ y, b.elems = [y] := by
    match hE : b.elems, h1 with
    | [y], _ => exact ⟨y, rfl⟩
    | [], h => simp [Arr.len, hE] at h
    | _ :: _ :: _, h => simp [Arr.len, hE] at h
  refine ⟨y, hy, ?_⟩
  unfold dot
  rw [if_pos (Or.inr h1)]
  have hm : multiplyScalar a b = .ok ⟨a.elems.map (fun x => x * y), bshape a.shape b.shape⟩ := by
    unfold multiplyScalar
    rw [hy]
    rcases hA : a.elems with _ | ⟨x1, _ | ⟨x2, r⟩⟩
    · simp [Arr.len, hA] at ha0
    · rfl
    · rfl
  rw [hm, hs, bshape_ones_right']
  simp [Arr.ndim]

/-- **vector · vector**: the sum of the products, a one-element array -/
theorem dot_11 (a b : A) (k : Nat) (ha : a.WF) (hb : b.WF) (hsa : a.shape = [k]) (hsb : b.shape = [k]) (hk : k ≠ 1)
    (hk0' : k ≠ 0) :
    dot a b = some (.ok ⟨[∑ i ∈ range k, a.ent [i] * b.ent [i]], [1]⟩) := by
  have hla : a.elems.length = k := by rw [ha, hsa]; simp
  have hlb : b.elems.length = k := by rw [hb, hsb]; simp
  have := matmul_vec_vec a b k ha hb hsa hsb (by omega)
  unfold matmul at this
  simp only [Arr.ndim, hsa, hsb, List.length_cons, List.length_nil, Nat.zero_add, and_self, if_true] at this
  unfold dot
  simp only [Arr.len, hla, hlb, Arr.ndim, hsa, hsb, List.length_cons, List.length_nil, Nat.zero_add, and_self,
    if_true, or_self, hk, if_false, this]

/-- **matrix · vector** under `dot` -/
theorem dot_21 (a b : A) (n k : Nat) (ha : a.WF) (hb : b.WF) (hsa : a.shape = [n, k]) (hsb : b.shape = [k])
    (h1 : a.len ≠ 1) (h2 : b.len ≠ 1) (hk : 0 < k) :
    ∃ r, dot a b = some (.ok r) ∧ r.shape = [n] ∧ r.WF ∧
      ∀ i, i < n → r.get? [i] = some (∑ q ∈ range k, a.ent [i, q] * b.ent [q]) := by
  have hla := wf_len2 ha hsa
  have hlb : b.elems.length = k := by rw [hb, hsb]; simp
  refine ⟨Arr.flat ((List.range n).map (fun i => sumProd (row a k i) b.elems)), ?_, by simp [Arr.flat],
    by simp [Arr.flat, Arr.WF], ?_⟩
  · unfold dot
    rw [if_neg (by simp [h1, h2])]
    simp only [Arr.ndim, hsa, hsb, List.length_cons, List.length_nil]
    simp
    exact dot1d_matvec a b n k ha hb hsa hsb hk
  · intro i hi
    have hlr : (row a k i).length = k := length_row a k i (by rw [hla]; exact Nat.mul_le_mul_right k hi)
    simp only [Arr.get?, Arr.flat, ravel, List.length_map, List.length_range, List.prod_nil, Nat.mul_one,
      Nat.add_zero, List.getElem?_map, List.getElem?_range hi, Option.map_some]
    congr 1
    rw [sumProd_eq_sum _ _ (by rw [hlr, hlb]), hlr]
    apply Finset.sum_congr rfl
    intro q hq
    have hq' : q < k := by simpa using hq
    simp only [row]
    rw [getD_piece _ _ _ _ hq', ent_eq_getD, ent_eq_getD, hsa, hsb]; simp [ravel]

/-- **vector · matrix** under `dot` -/
theorem dot_12 (a b : A) (k p : Nat) (ha : a.WF) (hsa : a.shape = [k]) (hsb : b.shape = [k, p])
    (h1 : a.len ≠ 1) (h2 : b.len ≠ 1) (hk : 0 < k) :
    ∃ r, dot a b = some (.ok r) ∧ r.shape = [p] ∧ r.WF ∧
      ∀ j, j < p → r.get? [j] = some (∑ i ∈ range k, a.ent [i] * b.ent [i, j]) := by
  have hla : a.elems.length = k := by rw [ha, hsa]; simp
  refine ⟨Arr.flat ((List.range p).map (fun j => sumProd a.elems (col b k p j))), ?_, by simp [Arr.flat],
    by simp [Arr.flat, Arr.WF], ?_⟩
  · unfold dot
    rw [if_neg (by simp [h1, h2])]
    simp only [Arr.ndim, hsa, hsb, List.length_cons, List.length_nil]
    simp
    exact dot1d_vecmat a b k p ha hsa hsb hk
  · intro j hj
    simp only [Arr.get?, Arr.flat, ravel, List.length_map, List.length_range, List.prod_nil, Nat.mul_one,
      Nat.add_zero, List.getElem?_map, List.getElem?_range hj, Option.map_some]
    congr 1
    rw [sumProd_eq_sum _ _ (by simp [col, hla]), hla]
    apply Finset.sum_congr rfl
    intro i hi
    have hi' : i < k := by simpa using hi
    rw [getD_col b k p j i hi', ent_eq_getD, ent_eq_getD, hsa, hsb]; simp [ravel]

/-- the full C14 statement for `dot` on a conforming pair of matrices -/
def DotMatMat (a b : A) (n m p : Nat) : Prop :=
  ∃ r, dot a b = some (.ok r) ∧ r.shape = [n, p] ∧ r.WF ∧
    ∀ i j, i < n → j < p → r.get? [i, j] = some (∑ k ∈ range m, a.ent [i, k] * b.ent [k, j])

/-- **matrix · matrix under `dot`, outside the open finding**: proved when the result is square (`n = p`).
Missing for the full statement: `n ≠ p`, where the (test-pinned) extra check of `dot` refuses the product. -/
theorem dot_22_partial (a b : A) (n m p : Nat) (ha : a.WF) (hb : b.WF)
    (hsa : a.shape = [n, m]) (hsb : b.shape = [m, p]) (h1 : a.len ≠ 1) (h2 : b.len ≠ 1)
    (hsq : n = p) : DotMatMat a b n m p := by
  obtain ⟨r, hr, hrest⟩ := matmul_22 a b n m p ha hb hsa hsb
  refine ⟨r, ?_, hrest⟩
  unfold dot
  rw [if_neg (by simp [h1, h2])]
  simp only [Arr.ndim, hsa, hsb, List.length_cons, List.length_nil]
  simp [shapesAlign, hsq, hr]

/-- the open finding, at its witness (`products_test::test_linalg_dot::case_15`): the conforming product
`2×2 · 2×3` is refused, so the full statement fails there -/
theorem dot_22_open_witness :
    dot ⟨[1, 2, 3, 4], [2, 2]⟩ ⟨[5, 6, 3, 7, 8, 3], [2, 3]⟩ = some (.err .ParameterError) ∧
    ¬ DotMatMat ⟨[1, 2, 3, 4], [2, 2]⟩ ⟨[5, 6, 3, 7, 8, 3], [2, 3]⟩ 2 2 3 := by
  have h : dot ⟨[1, 2, 3, 4], [2, 2]⟩ ⟨[5, 6, 3, 7, 8, 3], [2, 3]⟩ = some (.err .ParameterError) := by decide
  refine ⟨h, ?_⟩
  rintro ⟨r, hr, _⟩
  rw [h] at hr
  cases hr

/-! ### dot: refusals -/

theorem dot_refuses_11 (a b : A) (k k' : Nat) (ha : a.WF) (hb : b.WF) (hsa : a.shape = [k]) (hsb : b.shape = [k'])
    (hk : k ≠ 1) (hk' : k' ≠ 1) (h : k ≠ k') : dot a b = some (.err .MustBeEqual) := by
  have hla : a.elems.length = k := by rw [ha, hsa]; simp
  have hlb : b.elems.length = k' := by rw [hb, hsb]; simp
  unfold dot vdot
  simp [Arr.ndim, Arr.len, hsa, hsb, hla, hlb, h, hk, hk']

/-- matrices that do not conform are refused by `dot` (whatever the other axes are) -/
theorem dot_refuses_22 (a b : A) (n m m' p : Nat) (hsa : a.shape = [n, m]) (hsb : b.shape = [m', p])
    (h1 : a.len ≠ 1) (h2 : b.len ≠ 1) (h : m ≠ m') : dot a b = some (.err .ParameterError) := by
  unfold dot
  rw [if_neg (by simp [h1, h2])]
  simp only [Arr.ndim, hsa, hsb, List.length_cons, List.length_nil]
  simp only [Nat.zero_add, Nat.reduceAdd, Nat.reduceEqDiff, and_self, if_false, if_true]
  rw [matmul_refuses_22 a b n m m' p hsa hsb h]
  unfold shapesAlign
  by_cases hnp : n = p <;> simp [hnp]

theorem dot_refuses_21 (a b : A) (n k k' : Nat) (ha : a.WF) (hb : b.WF) (hn : 0 < n)
    (hsa : a.shape = [n, k]) (hsb : b.shape = [k'])
    (h1 : a.len ≠ 1) (h2 : b.len ≠ 1) (h : k ≠ k') : ∃ e, dot a b = some (.err e) := by
  have hla := wf_len2 ha hsa
  have hlb : b.elems.length = k' := by rw [hb, hsb]; simp
  unfold dot
  rw [if_neg (by simp [h1, h2])]
  simp only [Arr.ndim, hsa, hsb, List.length_cons, List.length_nil]
  simp only [Nat.zero_add, Nat.reduceAdd, Nat.reduceEqDiff, and_self, if_false, and_false, or_true, if_true,
    Nat.le_refl, Nat.one_le_ofNat, and_true]
  unfold dot1d
  simp only [Arr.ndim, hsa, hsb, List.length_cons, List.length_nil, Nat.zero_add, Nat.reduceAdd, Nat.one_lt_ofNat,
    if_true, Nat.lt_irrefl, if_false, getRows_eq a n k hsa, Res.bind_ok, Res.pure_eq, dotIterate,
    List.map_cons, List.map_nil, List.flatMap_map]
  rw [← List.map_eq_flatMap, collectRes_all_err _ _ .MustBeEqual (by simp; omega)]
  · exact ⟨_, rfl⟩
  · intro i hi
    have hi' : i < n := by simpa using hi
    have hlr : (row a k i).length = k := length_row a k i (by rw [hla]; exact Nat.mul_le_mul_right k hi')
    unfold vdot
    simp [Arr.flat, Arr.len, hlr, hlb, h]

theorem dot_refuses_12 (a b : A) (k k' p : Nat) (ha : a.WF) (hp : 0 < p)
    (hsa : a.shape = [k]) (hsb : b.shape = [k', p])
    (h1 : a.len ≠ 1) (h2 : b.len ≠ 1) (h : k ≠ k') : ∃ e, dot a b = some (.err e) := by
  have hla : a.elems.length = k := by rw [ha, hsa]; simp
  unfold dot
  rw [if_neg (by simp [h1, h2])]
  simp only [Arr.ndim, hsa, hsb, List.length_cons, List.length_nil]
  simp only [Nat.zero_add, Nat.reduceAdd, Nat.reduceEqDiff, and_self, if_false, and_false, true_or, if_true,
    Nat.le_refl, Nat.one_le_ofNat, and_true]
  unfold dot1d
  simp only [Arr.ndim, hsa, hsb, List.length_cons, List.length_nil, Nat.zero_add, Nat.reduceAdd, Nat.one_lt_ofNat,
    if_true, Nat.lt_irrefl, if_false, getColumns_eq b k' p hsb, Res.bind_ok, Res.pure_eq, dotIterate,
    List.flatMap_cons, List.flatMap_nil, List.append_nil, List.map_map]
  rw [collectRes_all_err _ _ .MustBeEqual (by simp; omega)]
  · exact ⟨_, rfl⟩
  · intro j _
    unfold vdot
    simp [Function.comp, Arr.flat, Arr.len, col, hla, h]

/-! ## inner, outer, vdot -/

/-- **inner, two vectors** -/
theorem inner_11 (a b : A) (k : Nat) (ha : a.WF) (hb : b.WF) (hsa : a.shape = [k]) (hsb : b.shape = [k])
    (hk : 0 < k) :
    inner a b = .ok ⟨[∑ i ∈ range k, a.ent [i] * b.ent [i]], [1]⟩ := by
  have hla : a.elems.length = k := by rw [ha, hsa]; simp
  have hlb : b.elems.length = k := by rw [hb, hsb]; simp
  unfold inner inner11 shapesAlign
  simp only [Arr.ndim, Arr.len, hla, hlb, hsa, hsb, List.length_cons, List.length_nil, Nat.zero_add, and_self, if_true,
    List.getElem?_cons_zero, Res.bind_ok, or_self]
  rw [if_neg (by omega)]
  rw [sumProd_eq_sum _ _ (by rw [hla, hlb]), hla]
  congr 3
  apply Finset.sum_congr rfl
  intro i _
  rw [ent_eq_getD, ent_eq_getD, hsa, hsb]; simp [ravel]

/-- **inner, any ranks** (not both vectors): shapes `sa ++ [k]` and `sb ++ [k]` give shape `sa ++ sb`, and the entry
at `(ca, cb)` is `Σ_q A[ca, q]·B[cb, q]` — the contraction of the two last axes. -/
theorem inner_spec (a b : A) (sa sb : List Nat) (k : Nat) (ha : a.WF) (hb : b.WF)
    (hsa : a.shape = sa ++ [k]) (hsb : b.shape = sb ++ [k]) (hpa : 0 < sa.prod) (hpb : 0 < sb.prod) (hk : 0 < k)
    (hrank : ¬ (sa = [] ∧ sb = [])) :
    ∃ r, inner a b = .ok r ∧ r.shape = sa ++ sb ∧ r.WF ∧
      ∀ ca cb, inRange sa ca = true → inRange sb cb = true →
        r.get? (ca ++ cb) = some (∑ q ∈ range k, a.ent (ca ++ [q]) * b.ent (cb ++ [q])) := by
  refine ⟨inn a b sa sb k, ?_, rfl, ?_, ?_⟩
  · unfold inner
    have hnd : ¬ (a.ndim = 1 ∧ b.ndim = 1) := by
      simp only [Arr.ndim, hsa, hsb, List.length_append, List.length_cons, List.length_nil]
      intro ⟨h1, h2⟩
      exact hrank ⟨List.length_eq_zero_iff.1 (by omega), List.length_eq_zero_iff.1 (by omega)⟩
    rw [if_neg hnd]
    have hal : shapesAlign a.shape (a.ndim - 1) b.shape (b.ndim - 1) = .ok () := by
      unfold shapesAlign
      simp [Arr.ndim, hsa, hsb]
    rw [hal]; simp only [Res.bind_ok]
    exact innerNd_eq a b sa sb k ha hb hsa hsb hpa hpb hk
  · simp [Arr.WF, inn]
  · intro ca cb hca hcb
    exact inn_get a b sa sb k ha hb hsa hsb ca cb hca hcb

/-- inner refuses operands whose last axes differ (any ranks) -/
theorem inner_refuses (a b : A) (sa sb : List Nat) (k k' : Nat)
    (hsa : a.shape = sa ++ [k]) (hsb : b.shape = sb ++ [k']) (h : k ≠ k') :
    inner a b = .err .ParameterError := by
  unfold inner inner11 shapesAlign
  by_cases hnd : a.ndim = 1 ∧ b.ndim = 1
  · rw [if_pos hnd]
    have h1 : sa = [] := by have := hnd.1; simpa [Arr.ndim, hsa] using this
    have h2 : sb = [] := by have := hnd.2; simpa [Arr.ndim, hsb] using this
    simp [hsa, hsb, h1, h2, h]
  · rw [if_neg hnd]
    simp [Arr.ndim, hsa, hsb, h]

/-- **outer**: both operands are flattened; shape `[len a, len b]`, entry `(i,j)` is `a_i · b_j` -/
theorem outer_spec (a b : A) :
    ∃ r, outer a b = .ok r ∧ r.shape = [a.len, b.len] ∧ r.WF ∧
      ∀ i j, i < a.len → j < b.len → r.get? [i, j] = some (a.elems.getD i 0 * b.elems.getD j 0) := by
  refine ⟨_, outer_eq a b, rfl, ?_, ?_⟩
  · unfold Arr.WF
    simp only
    rw [length_flatMap_uniform _ _ b.elems.length (by intro x _; simp)]
    simp [Arr.len]
  · intro i j hi hj
    exact outer_get a b i j hi hj

/-- **vdot** (flattened dot product): operands of equal length, whatever their shapes -/
theorem vdot_spec (a b : A) (h : a.len = b.len) (h0 : 0 < a.len) :
    vdot a b = .ok ⟨[∑ i ∈ range a.len, a.elems.getD i 0 * b.elems.getD i 0], [1]⟩ := by
  unfold vdot
  rw [if_pos h, if_neg (by omega), sumProd_eq_sum _ _ h]; rfl

theorem vdot_refuses (a b : A) (h : a.len ≠ b.len) : vdot a b = .err .MustBeEqual := by
  unfold vdot; rw [if_neg h]

/-! ## results are well-formed (element count = product of the shape), for every input -/

theorem matmul_wf (a b r : A) (h : matmul a b = .ok r) : r.WF := by
  unfold matmul at h
  split at h
  · exact vdot_wf h
  · split at h
    · simp only [bind_eq_ok_iff] at h
      obtain ⟨_, _, h⟩ := h
      exact matmul1dNd_wf _ _ _ _ h
    · split at h
      · exact matmul22_wf h
      · exact matmulNd_wf h

theorem inner_wf (a b r : A) (h : inner a b = .ok r) : r.WF := by
  unfold inner at h
  split at h
  · unfold inner11 at h
    simp only [bind_eq_ok_iff] at h
    obtain ⟨_, _, h⟩ := h
    split at h
    · cases h
    · cases h; simp [Arr.WF]
  · unfold innerNd at h
    simp only [bind_eq_ok_iff] at h
    obtain ⟨_, _, _, _, _, _, _, _, _, _, _, _, h⟩ := h
    exact reshape_wf h

theorem dot_wf (a b r : A) (ha : a.WF) (hb : b.WF) (h : dot a b = some (.ok r)) : r.WF := by
  unfold dot at h
  split at h
  · exact multiplyScalar_wf a b r ha hb (by simpa using h)
  · split at h
    · exact vdot_wf (by simpa using h)
    · split at h
      · simp only [Option.some.injEq, bind_eq_ok_iff] at h
        obtain ⟨_, _, h⟩ := h
        exact matmul_wf a b r h
      · split at h
        · split at h
          · exact dot1d_wf (by simpa using h)
          · cases h
        · cases h

theorem outer_wf (a b r : A) (h : outer a b = .ok r) : r.WF := reshape_wf h

/-! ### non-vacuity: concrete instances (also the suite's own rows) -/
example : matmul ⟨[1, 2, 3, 4, 5, 6], [2, 3]⟩ ⟨[1, 2, 3, 4, 5, 6], [3, 2]⟩ = .ok ⟨[22, 28, 49, 64], [2, 2]⟩ := by decide
example : matmul ⟨[1, 2, 3, 4, 5, 6, 7, 8, 9], [3, 3]⟩ ⟨[1, 2, 3, 4, 5, 6], [3, 2]⟩
    = .ok ⟨[22, 28, 49, 64, 76, 100], [3, 2]⟩ := by decide
example : matmul ⟨[1, 2], [2]⟩ ⟨[0, 1, 2, 3, 4, 5], [2, 3]⟩ = .ok ⟨[6, 9, 12], [3]⟩ := by decide
example : matmul ⟨[1, 2, 3, 4, 5, 6], [2, 3]⟩ ⟨[1, 2, 3, 4, 5, 6, 7, 8], [4, 2]⟩ = .err .ParameterError := by decide
example : matmul ⟨[0, 1, 2, 3, 4, 5, 6, 7], [2, 2, 2]⟩ ⟨[0, 1, 2, 3, 4, 5, 6, 7], [2, 2, 2]⟩
    = .ok ⟨[2, 3, 6, 11, 46, 55, 66, 79], [2, 2, 2]⟩ := by decide
example : inner ⟨[6, 5, 4, 3, 2, 1], [2, 3]⟩ ⟨[1, 2, 3], [3]⟩ = .ok ⟨[28, 10], [2]⟩ := by decide
example : (⟨[1, 2, 3, 4, 5, 6], [2, 3]⟩ : A).WF ∧ inRange [2] [1] = true ∧ (0 < [2].prod) := by decide
example : dot ⟨[1, 2, 3, 4], [2, 2]⟩ ⟨[5, 6, 7, 8], [2, 2]⟩ = some (.ok ⟨[19, 22, 43, 50], [2, 2]⟩) := by decide
example : dot ⟨[2], [1]⟩ ⟨[1, 2, 3, 4], [2, 2]⟩ = some (.ok ⟨[2, 4, 6, 8], [2, 2]⟩) := by decide
-- a stack whose matrices are not square and whose products are not square: [2,2,3] · [2,3,1]
example : matmul ⟨[1, 2, 3, 4, 5, 6, 7, 8, 9, 10, 11, 12], [2, 2, 3]⟩ ⟨[1, 0, 1, 0, 1, 0], [2, 3, 1]⟩
    = .ok ⟨[4, 10, 8, 11], [2, 2, 1]⟩ := by decide
-- refusals: vector · matrix, matrix · vector, stacks, dot of a matrix and a vector, inner
example : matmul ⟨[1, 2, 3], [3]⟩ ⟨[0, 1, 2, 3, 4, 5], [2, 3]⟩ = .err .ParameterError := by decide
example : matmul ⟨[0, 1, 2, 3, 4, 5], [2, 3]⟩ ⟨[1, 2], [2]⟩ = .err .ParameterError := by decide
example : matmul ⟨[1, 2, 3, 4, 5, 6, 7, 8], [2, 2, 2]⟩ ⟨[1, 2, 3, 4, 5, 6], [2, 3, 1]⟩ = .err .ParameterError := by decide
example : dot ⟨[0, 1, 2, 3, 4, 5], [2, 3]⟩ ⟨[1, 2], [2]⟩ = some (.err .MustBeEqual) := by decide
example : inner ⟨[0, 1, 2, 3, 4, 5], [2, 3]⟩ ⟨[1, 2, 3, 4], [2, 2]⟩ = .err .ParameterError := by decide
example : (⟨[0, 1, 2, 3, 4, 5], [2, 3]⟩ : A).shape[(⟨[0, 1, 2, 3, 4, 5], [2, 3]⟩ : A).ndim - 2]? = some 2 := by decide

/-! # Extension (round 4): regions that used to be "modelled without a theorem" or "open"

## E1 — `matmul` of a vector with a STACK of matrices, in either order

The statement lists "two matrices, a matrix and a vector in either order, equally shaped stacks"; a vector with a stack is
not in the list, so what follows is an observation about the code, not a violation (`/verif/fixes/C14-matmul-vector-stack-reshape.md`).
`matmul_1d_nd` computes the right numbers (one vector-matrix / matrix-vector product per matrix of the stack) but reshapes
them to `shape[1..]` of the stack instead of the textbook result shape, which only has the right element count when the
stack length equals the contracted length. -/

/-- **vector · stack, where the code is right** (`s = k`): `[k] · [k,k,p]` has shape `[k,p]` (= textbook `[s,p]`) and
entry `(t,j)` is `Σ_i a[i]·B[t,i,j]`. -/
theorem matmul_vec_stack (a b : A) (k p : Nat) (ha : a.WF) (hb : b.WF) (hk : 0 < k) (hp : 0 < p)
    (hsa : a.shape = [k]) (hsb : b.shape = [k, k, p]) :
    ∃ r, matmul a b = .ok r ∧ r.shape = [k, p] ∧ r.WF ∧
      ∀ t j, t < k → j < p → r.get? [t, j] = some (∑ i ∈ range k, a.ent [i] * b.ent [t, i, j]) := by
  refine ⟨⟨vsElems a b k k p, [k, p]⟩, ?_, rfl, by simp [Arr.WF, length_vsElems], ?_⟩
  · unfold matmul
    simp only [Arr.ndim, hsa, hsb]
    simp [shapesAlign]
    rw [matmul1dNd_vecstack 2 a b k k p ha hb hk hk hp hsa hsb]
    unfold reshape
    rw [if_pos (by simp [length_vsElems])]
  · intro t j ht hj
    have hr : ravel [k, p] [t, j] = t * p + j := by simp [ravel]
    simp only [Arr.get?, hr]
    exact vsElems_get a b k k p t j ht hj hsa hsb

/-- **vector · stack, where it is wrong**: the conforming product `[k] · [s,k,p]` (textbook shape `[s,p]`) is REFUSED
whenever the stack length differs from the contracted length. -/
theorem matmul_vec_stack_refused (a b : A) (s k p : Nat) (ha : a.WF) (hb : b.WF) (hs : 0 < s) (hk : 0 < k) (hp : 0 < p)
    (hsa : a.shape = [k]) (hsb : b.shape = [s, k, p]) (hsk : s ≠ k) :
    matmul a b = .err .ShapeMustMatchValuesLength := by
  unfold matmul
  simp only [Arr.ndim, hsa, hsb]
  simp [shapesAlign]
  rw [matmul1dNd_vecstack 2 a b s k p ha hb hs hk hp hsa hsb]
  unfold reshape
  rw [if_neg]
  simp only [length_vsElems, List.prod_cons, List.prod_nil, Nat.mul_one]
  intro h
  exact hsk (Nat.eq_of_mul_eq_mul_right hp h).symm

/-- witness (`decide`): `[2] · [3,2,2]` conforms (textbook result of shape `[3,2]`) and is refused -/
theorem matmul_vec_stack_refused_witness :
    matmul ⟨[1, 2], [2]⟩ ⟨[1, 2, 3, 4, 5, 6, 7, 8, 9, 10, 11, 12], [3, 2, 2]⟩ = .err .ShapeMustMatchValuesLength := by
  decide

/-- **stack · vector**: for `[s,n,k] · [k]` with `s = k` the flat result holds the textbook numbers
(position `t·n + i` is `Σ_q A[t,i,q]·b[q]`), but the shape is `[n,k]`, the textbook shape being `[s,n]`. -/
theorem matmul_stack_vec (a b : A) (n k : Nat) (ha : a.WF) (hb : b.WF) (hn : 0 < n) (hk : 0 < k)
    (hsa : a.shape = [k, n, k]) (hsb : b.shape = [k]) :
    ∃ r, matmul a b = .ok r ∧ r.shape = [n, k] ∧ r.WF ∧
      ∀ t i, t < k → i < n → r.elems[t * n + i]? = some (∑ q ∈ range k, a.ent [t, i, q] * b.ent [q]) := by
  refine ⟨⟨svElems a b k n k, [n, k]⟩, ?_, rfl, by simp [Arr.WF, length_svElems, Nat.mul_comm], ?_⟩
  · unfold matmul
    simp only [Arr.ndim, hsa, hsb]
    simp [shapesAlign]
    rw [matmul1dNd_stackvec 2 a b k n k ha hb hk hn hk hsa hsb]
    unfold reshape
    rw [if_pos (by simp [length_svElems, Nat.mul_comm])]
  · intro t i ht hi
    exact svElems_get a b k n k t i ht hi hsa hsb

/-- **stack · vector, where the code is right** (all three lengths equal): shape `[k,k]`, entry `(t,i)` is
`Σ_q A[t,i,q]·b[q]`. -/
theorem matmul_stack_vec_cube (a b : A) (k : Nat) (ha : a.WF) (hb : b.WF) (hk : 0 < k)
    (hsa : a.shape = [k, k, k]) (hsb : b.shape = [k]) :
    ∃ r, matmul a b = .ok r ∧ r.shape = [k, k] ∧ r.WF ∧
      ∀ t i, t < k → i < k → r.get? [t, i] = some (∑ q ∈ range k, a.ent [t, i, q] * b.ent [q]) := by
  obtain ⟨r, h1, h2, h3, h4⟩ := matmul_stack_vec a b k k ha hb hk hk hsa hsb
  refine ⟨r, h1, h2, h3, ?_⟩
  intro t i ht hi
  have hr : ravel [k, k] [t, i] = t * k + i := by simp [ravel]
  simp only [Arr.get?, h2, hr]
  exact h4 t i ht hi

/-- the conforming product `[s,n,k] · [k]` is refused whenever `s ≠ k` -/
theorem matmul_stack_vec_refused (a b : A) (s n k : Nat) (ha : a.WF) (hb : b.WF) (hs : 0 < s) (hn : 0 < n) (hk : 0 < k)
    (hsa : a.shape = [s, n, k]) (hsb : b.shape = [k]) (hsk : s ≠ k) :
    matmul a b = .err .ShapeMustMatchValuesLength := by
  unfold matmul
  simp only [Arr.ndim, hsa, hsb]
  simp [shapesAlign]
  rw [matmul1dNd_stackvec 2 a b s n k ha hb hs hn hk hsa hsb]
  unfold reshape
  rw [if_neg]
  simp only [length_svElems, List.prod_cons, List.prod_nil, Nat.mul_one]
  intro h
  rw [Nat.mul_comm s n] at h
  exact hsk (Nat.eq_of_mul_eq_mul_left hn h).symm

/-- witness (`decide`): `[2,3,2] · [2]` is accepted with the right numbers in the WRONG shape `[3,2]`
(the textbook result `[[3,7,11],[15,19,23]]` has shape `[2,3]`) -/
theorem matmul_stack_vec_wrong_shape_witness :
    matmul ⟨[1, 2, 3, 4, 5, 6, 7, 8, 9, 10, 11, 12], [2, 3, 2]⟩ ⟨[1, 1], [2]⟩
      = .ok ⟨[3, 7, 11, 15, 19, 23], [3, 2]⟩ := by
  decide

/-! ## E2 — zero-length operands

The model mirrors the crate: every path through `zip` / `broadcast` refuses an empty operand (`is_broadcastable`,
`shape.rs:18-29`), the index loops of `matmul` do not.  (The statement is about lengths 1..; these theorems say what
happens below that, and the tie now compares the region instead of leaving it open.) -/

/-- two empty operands are refused by `vdot` -/
theorem vdot_empty_refused (a b : A) (ha : a.len = 0) (hb : b.len = 0) : vdot a b = .err .BroadcastShapeMismatch := by
  unfold vdot; simp [ha, hb]

/-- `matmul` / `dot` / `inner` of two empty vectors are refused -/
theorem vec_vec_empty_refused (a b : A) (ha : a.WF) (hb : b.WF) (hsa : a.shape = [0]) (hsb : b.shape = [0]) :
    matmul a b = .err .BroadcastShapeMismatch ∧ dot a b = some (.err .BroadcastShapeMismatch) ∧
      inner a b = .err .BroadcastShapeMismatch := by
  have hla : a.elems.length = 0 := by rw [ha, hsa]; simp
  have hlb : b.elems.length = 0 := by rw [hb, hsb]; simp
  refine ⟨?_, ?_, ?_⟩
  · unfold matmul vdot; simp [Arr.ndim, Arr.len, hsa, hsb, hla, hlb]
  · unfold dot vdot; simp [Arr.ndim, Arr.len, hsa, hsb, hla, hlb]
  · unfold inner inner11 shapesAlign; simp [Arr.ndim, Arr.len, hsa, hsb, hla]

/-- the scalar arm of `dot` refuses an empty other operand (either side) -/
theorem dot_scalar_empty_refused (a b : A) (h1 : a.len = 1) (h0 : b.len = 0) :
    dot a b = some (.err .BroadcastShapeMismatch) ∧ dot b a = some (.err .BroadcastShapeMismatch) := by
  obtain ⟨x, hx⟩ : ∃ x, a.elems = [x] := by
    match hE : a.elems, h1 with
    | [x], _ => exact ⟨x, rfl⟩
    | [], h => simp [Arr.len, hE] at h
    | _ :: _ :: _, h => simp [Arr.len, hE] at h
  have hb : b.elems = [] := List.eq_nil_of_length_eq_zero h0
  constructor
  · unfold dot; rw [if_pos (Or.inl h1)]; simp [multiplyScalar, hx, hb]
  · unfold dot; rw [if_pos (Or.inr h1)]; simp [multiplyScalar, hx, hb]

/-- the matrix product over an EMPTY shared index is the zero matrix (`matmul_22` with `m = 0`): every entry is the
empty sum — the loops of `matmul_iterate` never touch `zip`, so nothing is refused -/
theorem matmul_22_empty_shared (a b : A) (n p : Nat) (ha : a.WF) (hb : b.WF)
    (hsa : a.shape = [n, 0]) (hsb : b.shape = [0, p]) :
    ∃ r, matmul a b = .ok r ∧ r.shape = [n, p] ∧ ∀ i j, i < n → j < p → r.get? [i, j] = some 0 := by
  obtain ⟨r, h1, h2, _, h4⟩ := matmul_22 a b n 0 p ha hb hsa hsb
  exact ⟨r, h1, h2, fun i j hi hj => by rw [h4 i j hi hj]; simp⟩

/-- a matrix without columns times the empty vector: `split_axis(0)` of an empty array is the array itself, ONE piece,
so the result is the one-element array `[0]` whatever the number of rows is (textbook: `n` zeros) -/
theorem matmul_mat_vec_no_columns (a b : A) (n : Nat) (ha : a.WF) (hsa : a.shape = [n, 0]) (hsb : b.shape = [0]) :
    matmul a b = .ok ⟨[0], [1]⟩ := by
  have hla : a.elems.length = 0 := by rw [ha, hsa]; simp
  unfold matmul
  simp only [Arr.ndim, hsa, hsb]
  simp [shapesAlign, matmul1dNd, Arr.ndim, hsa, splitAxis0, Arr.len, hla, Res.idx, collectRes, matVecCell, foldRes,
    Res.sequence, Arr.flat, Res.isPanic]

/-- a matrix without rows (`[0,k]`, `k ≥ 1`) times a vector: the single piece is the empty array, whose entry `0` is read:
the Rust indexing panics -/
theorem matmul_mat_vec_no_rows_panics (a b : A) (k : Nat) (ha : a.WF) (hk : 0 < k)
    (hsa : a.shape = [0, k]) (hsb : b.shape = [k]) : matmul a b = .panic := by
  have hla : a.elems.length = 0 := by rw [ha, hsa]; simp
  have hnil : a.elems = [] := List.eq_nil_of_length_eq_zero hla
  obtain ⟨k', rfl⟩ : ∃ k', k = k' + 1 := ⟨k - 1, by omega⟩
  unfold matmul
  simp only [Arr.ndim, hsa, hsb]
  simp [shapesAlign, matmul1dNd, Arr.ndim, hsa, hsb, splitAxis0, Arr.len, Res.idx, collectRes, matVecCell,
    List.range_succ_eq_map, foldRes, hnil, Res.isPanic, Res.bind]

/-- `inner` refuses every pair of operands (rank ≥ 1 each) one of which has a zero-length LAST axis -/
theorem inner_empty_last_axis_refused (a b : A) (sa sb : List Nat) (ha : a.WF) (hb : b.WF)
    (hsa : a.shape = sa ++ [0]) (hsb : b.shape = sb ++ [0]) : ∃ e, inner a b = .err e := by
  have hla : a.elems.length = 0 := by rw [ha, hsa]; simp
  have hlb : b.elems.length = 0 := by rw [hb, hsb]; simp
  unfold inner
  by_cases hnd : a.ndim = 1 ∧ b.ndim = 1
  · rw [if_pos hnd]
    have h1 : sa = [] := by have := hnd.1; simpa [Arr.ndim, hsa] using this
    have h2 : sb = [] := by have := hnd.2; simpa [Arr.ndim, hsb] using this
    exact ⟨.BroadcastShapeMismatch, by simp [inner11, shapesAlign, hsa, hsb, h1, h2, Arr.len, hla]⟩
  · rw [if_neg hnd]
    have hal : shapesAlign a.shape (a.ndim - 1) b.shape (b.ndim - 1) = .ok () := by
      unfold shapesAlign; simp [Arr.ndim, hsa, hsb]
    rw [hal]; simp only [Res.bind_ok]
    unfold innerNd innerSplit
    simp only [removeAt, Arr.ndim, hsa, hsb, List.length_append, List.length_cons, List.length_nil, Nat.zero_add,
      Nat.add_sub_cancel, Nat.lt_succ_self, if_true, Res.bind_ok, eraseIdx_concat_length, Arr.len, hla, hlb]
    by_cases hpa : sa.prod = 0
    · exact ⟨.ParameterError, by simp [hpa]⟩
    · by_cases hpb : sb.prod = 0
      · exact ⟨.ParameterError, by simp [hpa, hpb]⟩
      · refine ⟨.BroadcastShapeMismatch, ?_⟩
        have he : a.elems = [] := List.eq_nil_of_length_eq_zero hla
        have he' : b.elems = [] := List.eq_nil_of_length_eq_zero hlb
        simp [hpa, hpb, he, he', inner11, shapesAlign, Arr.flat, Arr.len, collectRes, Res.isPanic, Res.sequence]

/-! ## E3 — `dot` with an operand of rank ≥ 3 (`dot_1d` on a stack, `dot_nd`)

Outside the statement ("the dot product of operands up to rank two").  `dotFull` (`ArrModel/C14Ext.lean`) is `dot`
wherever `dot` answers and the two remaining arms as written elsewhere.  The formula numpy documents for N-D × M-D
operands is `dot(a, b)[i.., t, j.., u] = Σ_k a[i.., t, k] · b[j.., k, u]` (sum over the LAST axis of `a` and the
SECOND-TO-LAST axis of `b`), for a vector and a stack the same sum with the vector's only axis.  The theorems below pin
down what the code computes instead; the deviations are reported in `/verif/fixes/C14-dot-rank3-observations.md`. -/

/-- `dotFull` extends `dot` -/
theorem dotFull_extends (a b : A) (r : Res A) (h : dot a b = some r) : dotFull a b = r := dotFull_of_some a b r h

/-- **stack · vector, what the code computes**: `get_rows` reads only `shape[0]` pieces of length `shape[1]` from the
front of the buffer, so the result has `shape[0]` entries, entry `i` being the flat entries `i·k .. i·k+k-1` against the
vector — NOT numpy's `Σ_q a[i.., q]·b[q]` over the last axis (shape: all axes but the last). -/
theorem dot_stack_vec_computes (a b : A) (s0 k : Nat) (rest : List Nat) (ha : a.WF) (hb : b.WF) (hrest : rest ≠ [])
    (hsa : a.shape = s0 :: k :: rest) (hsb : b.shape = [k]) (hk : 0 < k) (hr : 0 < rest.prod)
    (h1 : a.len ≠ 1) (h2 : b.len ≠ 1) :
    ∃ r, dotFull a b = .ok r ∧ r.shape = [s0] ∧
      ∀ i, i < s0 → r.get? [i] = some (∑ q ∈ range k, a.elems.getD (i * k + q) 0 * b.ent [q]) := by
  have hlb : b.elems.length = k := by rw [hb, hsb]; simp
  have hrl : 0 < rest.length := List.length_pos_iff.2 hrest
  refine ⟨Arr.flat ((List.range s0).map (fun i => sumProd (row a k i) b.elems)), ?_, ?_, ?_⟩
  · rw [dotFull_1d_stack a b h1 h2 (Or.inr ⟨by simp [Arr.ndim, hsa]; omega, by simp [Arr.ndim, hsb]⟩)]
    exact dot1dNd_stackvec a b s0 k rest ha hb hsa hsb hk hr
  · simp [Arr.flat]
  · intro i hi
    have hlr : (row a k i).length = k := length_row a k i (row_le_stack ha hsa hr hi)
    simp only [Arr.get?, Arr.flat, ravel, List.length_map, List.length_range, List.prod_nil, Nat.mul_one,
      Nat.add_zero, List.getElem?_map, List.getElem?_range hi, Option.map_some]
    congr 1
    rw [sumProd_eq_sum _ _ (by rw [hlr, hlb]), hlr]
    apply Finset.sum_congr rfl
    intro q hq
    have hq' : q < k := by simpa using hq
    simp only [row]
    rw [getD_piece _ _ _ _ hq', ent_eq_getD, hsb]; simp [ravel]

/-- a stack on the left is refused unless the vector length equals `shape[1]` (numpy compares with the LAST axis) -/
theorem dot_stack_vec_refused (a b : A) (s0 s1 k : Nat) (rest : List Nat) (ha : a.WF) (hb : b.WF) (hrest : rest ≠ [])
    (hsa : a.shape = s0 :: s1 :: rest) (hsb : b.shape = [k]) (hs0 : 0 < s0) (hr : 0 < rest.prod)
    (h1 : a.len ≠ 1) (h2 : b.len ≠ 1) (hne : s1 ≠ k) : dotFull a b = .err .MustBeEqual := by
  have hrl : 0 < rest.length := List.length_pos_iff.2 hrest
  rw [dotFull_1d_stack a b h1 h2 (Or.inr ⟨by simp [Arr.ndim, hsa]; omega, by simp [Arr.ndim, hsb]⟩)]
  exact dot1dNd_stackvec_refused a b s0 s1 k rest ha hb hsa hsb hs0 hr hne

/-- **vector · stack, what the code computes**: `get_columns` reads `shape[1]` pieces of length `shape[0]` of the
all-axes-reversed transpose, so the result has `shape[1]` entries, entry `j` being `Σ_i a[i]·b[i, j, 0, …, 0]` — the
vector against the FIRST matrix-column slice only, contracted over axis 0; numpy contracts over the second-to-last axis
and returns all axes but that one. -/
theorem dot_vec_stack_computes (a b : A) (k s1 : Nat) (rest : List Nat) (ha : a.WF) (hb : b.WF) (hrest : rest ≠ [])
    (hsa : a.shape = [k]) (hsb : b.shape = k :: s1 :: rest) (hk : 0 < k) (hr : 0 < rest.prod)
    (h1 : a.len ≠ 1) (h2 : b.len ≠ 1) :
    ∃ r, dotFull a b = .ok r ∧ r.shape = [s1] ∧
      ∀ j, j < s1 → r.get? [j] = some (∑ i ∈ range k, a.ent [i] * b.ent (i :: j :: List.replicate rest.length 0)) := by
  have hla : a.elems.length = k := by rw [ha, hsa]; simp
  have hrl : 0 < rest.length := List.length_pos_iff.2 hrest
  refine ⟨Arr.flat ((List.range s1).map (fun j => sumProd a.elems (colT b k j))), ?_, ?_, ?_⟩
  · rw [dotFull_1d_stack a b h1 h2 (Or.inl ⟨by simp [Arr.ndim, hsa], by simp [Arr.ndim, hsb]; omega⟩)]
    exact dot1dNd_vecstack a b k s1 rest ha hb hsa hsb hk hr
  · simp [Arr.flat]
  · intro j hj
    have hlc : (colT b k j).length = k := length_colT hb hsb hr hj
    simp only [Arr.get?, Arr.flat, ravel, List.length_map, List.length_range, List.prod_nil, Nat.mul_one,
      Nat.add_zero, List.getElem?_map, List.getElem?_range hj, Option.map_some]
    congr 1
    rw [sumProd_eq_sum _ _ (by rw [hla, hlc]), hla]
    apply Finset.sum_congr rfl
    intro i hi
    have hi' : i < k := by simpa using hi
    simp only [colT]
    rw [getD_piece _ _ _ _ hi', revT_col b k s1 rest hb hsb hr i j hi' hj, ent_eq_getD a, hsa]; simp [ravel]

/-- a stack on the right is refused unless the vector length equals `shape[0]` (numpy: the second-to-last axis) -/
theorem dot_vec_stack_refused (a b : A) (k s0 s1 : Nat) (rest : List Nat) (ha : a.WF) (hb : b.WF) (hrest : rest ≠ [])
    (hsa : a.shape = [k]) (hsb : b.shape = s0 :: s1 :: rest) (hs1 : 0 < s1) (hr : 0 < rest.prod)
    (h1 : a.len ≠ 1) (h2 : b.len ≠ 1) (hne : k ≠ s0) : dotFull a b = .err .MustBeEqual := by
  have hrl : 0 < rest.length := List.length_pos_iff.2 hrest
  rw [dotFull_1d_stack a b h1 h2 (Or.inl ⟨by simp [Arr.ndim, hsa], by simp [Arr.ndim, hsb]; omega⟩)]
  exact dot1dNd_vecstack_refused a b k s0 s1 rest ha hb hsa hsb hs1 hr hne

/-- deviation witnesses (`decide`): `[2,3,2] · [3]` is ACCEPTED (numpy refuses: last axis 2 ≠ 3) and gives 2 numbers;
`[2] · [2,2,3]` gives 2 numbers where numpy gives the `[2,3]` array `[[9,12,15],[27,30,33]]` -/
theorem dot_1d_stack_deviation_witnesses :
    dotFull ⟨[1, 2, 3, 4, 5, 6, 7, 8, 9, 10, 11, 12], [2, 3, 2]⟩ ⟨[1, 1, 1], [3]⟩ = .ok ⟨[6, 15], [2]⟩ ∧
    dotFull ⟨[1, 2], [2]⟩ ⟨[1, 2, 3, 4, 5, 6, 7, 8, 9, 10, 11, 12], [2, 2, 3]⟩ = .ok ⟨[15, 24], [2]⟩ := by
  constructor <;> decide

/-- **`dot_nd` refuses operands whose contracted lengths differ** (last axis of `a`, second-to-last of `b`) — as numpy -/
theorem dot_nd_refuses_contract (a b : A) (LA LB : List Nat) (n m m' p : Nat)
    (hsa : a.shape = LA ++ [n, m]) (hsb : b.shape = LB ++ [m', p]) (h1 : a.len ≠ 1) (h2 : b.len ≠ 1)
    (hrank : LA ≠ [] ∨ LB ≠ []) (hne : m ≠ m') : dotFull a b = .err .ParameterError := by
  have hl : 0 < LA.length ∨ 0 < LB.length := hrank.imp List.length_pos_iff.2 List.length_pos_iff.2
  rw [dotFull_nd a b h1 h2 (by simp [Arr.ndim, hsa]) (by simp [Arr.ndim, hsb])
    (by simp only [Arr.ndim, hsa, hsb, List.length_append, List.length_cons, List.length_nil]; omega)]
  exact dotNd_refuses_contract a b LA LB n m m' p hsa hsb hne

/-- **`dot_nd` ALSO refuses every conforming pair with `n ≠ p`** (second-to-last length of `a`, last length of `b`):
numpy accepts these (result shape `LA ++ [n] ++ LB ++ [p]`) -/
theorem dot_nd_refuses_nonsquare (a b : A) (LA LB : List Nat) (n m p : Nat) (ha : a.WF) (hb : b.WF)
    (hsa : a.shape = LA ++ [n, m]) (hsb : b.shape = LB ++ [m, p]) (hnza : 0 ∉ a.shape) (hnzb : 0 ∉ b.shape)
    (h1 : a.len ≠ 1) (h2 : b.len ≠ 1) (hrank : LA ≠ [] ∨ LB ≠ []) (hne : n ≠ p) :
    dotFull a b = .err .MustBeEqual := by
  have hl : 0 < LA.length ∨ 0 < LB.length := hrank.imp List.length_pos_iff.2 List.length_pos_iff.2
  rw [dotFull_nd a b h1 h2 (by simp [Arr.ndim, hsa]) (by simp [Arr.ndim, hsb])
    (by simp only [Arr.ndim, hsa, hsb, List.length_append, List.length_cons, List.length_nil]; omega)]
  exact dotNd_refuses_outer a b LA LB n m p ha hb hsa hsb hnza hnzb hne

/-- **`dot_nd`, what the code computes** (shapes `LA ++ [n, m]`, `LB ++ [m, n]`, no zero-length axis): with `S1` = `a`
with its second-to-last axis rotated to the front and `S2` = `b` with its last axis rotated to the front (flat buffers,
characterised entry by entry), the result is the transpose by the fixed axis list `dotPairs` of the array `U` of shape
`LA ++ [m] ++ LB ++ [m]` whose flat entry `(c, d)` is `Σ_x S1[c·n + x] · S2[d·n + x]` — the buffers are cut into
chunks of length `n` (not `m`), and the shape is built from `m` (not `n`): the numbers line up with numpy's formula only
when `n = m` and the leading lengths equal `n` too (`dot_nd_cube`). -/
theorem dot_nd_computes (a b : A) (LA LB : List Nat) (n m : Nat) (ha : a.WF) (hb : b.WF)
    (hsa : a.shape = LA ++ [n, m]) (hsb : b.shape = LB ++ [m, n]) (hnza : 0 ∉ a.shape) (hnzb : 0 ∉ b.shape)
    (h1 : a.len ≠ 1) (h2 : b.len ≠ 1) (hrank : LA ≠ [] ∨ LB ≠ []) :
    ∃ S1 S2 : List Int, S1.length = LA.prod * m * n ∧ S2.length = LB.prod * m * n ∧
      (∀ l k t, inRange LA l = true → k < m → t < n → S1[(t * LA.prod + ravel LA l) * m + k]? = a.get? (l ++ [t, k])) ∧
      (∀ l k u, inRange LB l = true → k < m → u < n → S2[u * (LB.prod * m) + (ravel LB l * m + k)]? = b.get? (l ++ [k, u])) ∧
      dotFull a b = (⟨(List.range (LA.prod * m)).flatMap (fun c => (List.range (LB.prod * m)).map (fun d =>
            ∑ x ∈ range n, S1.getD (c * n + x) 0 * S2.getD (d * n + x) 0)), (LA ++ [m]) ++ (LB ++ [m])⟩ : A).transpose 0
        (some (dotPairs ((LA ++ [m]) ++ (LB ++ [m])).length (decide (b.len > a.len)))) := by
  have hl : 0 < LA.length ∨ 0 < LB.length := hrank.imp List.length_pos_iff.2 List.length_pos_iff.2
  obtain ⟨S1, S2, e1, e2, g1, g2, hd⟩ := dotNd_computes a b LA LB n m ha hb hsa hsb hnza hnzb
  refine ⟨S1, S2, e1, e2, g1, g2, ?_⟩
  rw [dotFull_nd a b h1 h2 (by simp [Arr.ndim, hsa]) (by simp [Arr.ndim, hsb])
    (by simp only [Arr.ndim, hsa, hsb, List.length_append, List.length_cons, List.length_nil]; omega), hd]
  congr 2
  unfold dotU
  apply List.flatMap_congr
  intro c hc
  apply List.map_congr_left
  intro d hd'
  have hc' : c < LA.prod * m := by simpa using hc
  have hd'' : d < LB.prod * m := by simpa using hd'
  have hl1 := length_chunk S1 n c (by rw [e1]; exact Nat.mul_le_mul_right n hc')
  have hl2 := length_chunk S2 n d (by rw [e2]; exact Nat.mul_le_mul_right n hd'')
  rw [sumProd_eq_sum _ _ (by rw [hl1, hl2]), hl1]
  apply Finset.sum_congr rfl
  intro x hx
  have hx' : x < n := by simpa using hx
  rw [getD_chunk _ _ _ _ hx', getD_chunk _ _ _ _ hx']

/-- deviation witness (`decide`): `[2,2] · [3,2,2]` — numpy's result has shape `[2,3,2]` and flat entries
`7,10,19,22,31,34,15,22,43,50,71,78` (`dotNumpy`); the code returns shape `[2,2,3]` with the entries in another order -/
theorem dot_nd_deviation_witness :
    dotFull ⟨[1, 2, 3, 4], [2, 2]⟩ ⟨[1, 2, 3, 4, 5, 6, 7, 8, 9, 10, 11, 12], [3, 2, 2]⟩
      = .ok ⟨[7, 31, 22, 19, 10, 34, 15, 71, 50, 43, 22, 78], [2, 2, 3]⟩ ∧
    dotNumpy ⟨[1, 2, 3, 4], [2, 2]⟩ ⟨[1, 2, 3, 4, 5, 6, 7, 8, 9, 10, 11, 12], [3, 2, 2]⟩ [] [3] 2 2 2
      = ⟨[7, 10, 19, 22, 31, 34, 15, 22, 43, 50, 71, 78], [2, 3, 2]⟩ := by
  constructor <;> decide +kernel

/-- **`dot_nd`, where the code meets numpy's formula**: two cubes `[n,n,n] · [n,n,n]` (`n ≥ 2`) give shape `[n,n,n,n]`
and entry `(l, t, l', u)` is `Σ_k a[l,t,k]·b[l',k,u]` — the only kind of stack the existing tests use (`2×2×2`). -/
theorem dot_nd_cube (a b : A) (n : Nat) (ha : a.WF) (hb : b.WF) (hn : 2 ≤ n)
    (hsa : a.shape = [n, n, n]) (hsb : b.shape = [n, n, n]) :
    ∃ r, dotFull a b = .ok r ∧ r.shape = [n, n, n, n] ∧ r.WF ∧
      ∀ l t l' u, l < n → t < n → l' < n → u < n →
        r.get? [l, t, l', u] = some (∑ k ∈ range n, a.ent [l, t, k] * b.ent [l', k, u]) := by
  have h8 : 8 ≤ n * (n * n) := by
    calc 8 = 2 * (2 * 2) := rfl
      _ ≤ n * (n * n) := Nat.mul_le_mul hn (Nat.mul_le_mul hn hn)
  have h1 : a.len ≠ 1 := by
    have : a.len = n * (n * n) := wf_len3 ha hsa
    omega
  have h2 : b.len ≠ 1 := by
    have : b.len = n * (n * n) := wf_len3 hb hsb
    omega
  rw [dotFull_nd a b h1 h2 (by simp [Arr.ndim, hsa]) (by simp [Arr.ndim, hsb]) (Or.inl (by simp [Arr.ndim, hsa]))]
  exact dotNd_cube a b n ha hb (by omega) hsa hsb

/-- non-vacuity of the cube theorem and of `dot_nd_computes` (the suite's own `2×2×2` row) -/
example : dotFull ⟨[1, 2, 3, 4, 5, 6, 7, 8], [2, 2, 2]⟩ ⟨[1, 2, 3, 4, 5, 6, 7, 8], [2, 2, 2]⟩
    = .ok ⟨[7, 10, 19, 22, 15, 22, 43, 50, 23, 34, 67, 78, 31, 46, 91, 106], [2, 2, 2, 2]⟩ := by decide +kernel

/-- every `ok` result of `dot`, whatever the ranks of the operands, is well-formed -/
theorem dotFull_wf (a b r : A) (ha : a.WF) (hb : b.WF) (h : dotFull a b = .ok r) : r.WF := by
  unfold dotFull at h
  split at h
  · rename_i x hx
    subst h
    exact dot_wf a b r ha hb hx
  · split at h
    · unfold dot1dNd at h
      by_cases h1 : a.ndim > 1 <;> by_cases h2 : b.ndim > 1 <;>
        simp only [h1, h2, if_true, if_false, bind_eq_ok_iff] at h <;>
        obtain ⟨_, _, _, _, h⟩ := h <;> exact dotIterate_wf h
    · unfold dotNd at h
      simp only [bind_eq_ok_iff] at h
      obtain ⟨_, _, _, _, _, _, _, _, _, _, _, _, x, _, h⟩ := h
      unfold Arr.transpose at h
      obtain ⟨_, _, h⟩ := bind_eq_ok h
      unfold Arr.new at h
      split at h
      · cases h; simp only [Arr.WF]; omega
      · cases h

end ArrModel.C14
