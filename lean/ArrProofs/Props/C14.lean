import ArrProofs.Lemmas.C14
/-!
# C14 — vector and matrix products equal their defining sums when operands conform

Property theorems only (helpers: `ArrProofs/Lemmas/C14.lean`).  Model under test: `ArrModel/C14.lean`
(`matmul`, `dot`, `vdot`, `inner`, `outer` with their rank dispatch and helpers, as repaired by
`/verif/fixes/C14-*.diff`).  Entries are integers; `a.ent c` reads the entry at coordinates `c`
(`Arr.get?` with default `0`; `ent_defined` shows the read is defined on every in-range coordinate of a
well-formed array).  Sums are `Finset` sums over the shared index.  Unless a hypothesis says otherwise the
statements hold for every length including zero; `0 < …` hypotheses appear exactly where the Rust goes
through `split_axis` / `split`, whose behaviour on empty arrays is outside the property (lengths 1..).

Open finding (test-pinned, see `/verif/fixes/C14-dot-2d-rectangular-refused.md`): `dot` of two matrices
refuses a conforming product whose result is not square.  `DotMatMat` is the full statement,
`dot_22_partial` proves it outside that region, `dot_22_open_witness` refutes it at the witness.
-/
namespace ArrModel.C14
open ArrModel Finset

/-- the specification read is a real read: on a well-formed array every in-range coordinate has an entry -/
theorem ent_defined (a : A) (hwf : a.WF) (c : List Nat) (h : inRange a.shape c = true) :
    a.get? c = some (a.ent c) := get?_eq_some_ent a hwf c h

/-! ## matmul -/

/-- **matrix · matrix**: `[n,m] · [m,p]` is accepted, has shape `[n,p]`, is well-formed, and
entry `(i,j)` is `Σ_k A[i,k]·B[k,j]`. -/
theorem matmul_22 (a b : A) (n m p : Nat) (ha : a.WF) (hb : b.WF)
    (hsa : a.shape = [n, m]) (hsb : b.shape = [m, p]) :
    ∃ r, matmul a b = .ok r ∧ r.shape = [n, p] ∧ r.WF ∧
      ∀ i j, i < n → j < p → r.get? [i, j] = some (∑ k ∈ range m, a.ent [i, k] * b.ent [k, j]) := by
  refine ⟨mm22 a b n m p, ?_, rfl, ?_, ?_⟩
  · unfold matmul
    simp only [Arr.ndim, hsa, hsb]
    simp
    exact matmul22_eq a b n m p ha hb hsa hsb
  · simp [Arr.WF, mm22]
  · intro i j hi hj
    rw [mm22_get a b n m p i j hi hj, cellSpec_eq_ent a b n m p i j hsa hsb]

/-- **vector · matrix**: `[k] · [k,p]` has shape `[p]` and entry `j` is `Σ_i a[i]·B[i,j]`. -/
theorem matmul_vec_mat (a b : A) (k p : Nat) (ha : a.WF) (hb : b.WF)
    (hsa : a.shape = [k]) (hsb : b.shape = [k, p]) :
    ∃ r, matmul a b = .ok r ∧ r.shape = [p] ∧ r.WF ∧
      ∀ j, j < p → r.get? [j] = some (∑ i ∈ range k, a.ent [i] * b.ent [i, j]) := by
  refine ⟨vm12 a b k p, ?_, by simp [vm12, Arr.flat], by simp [vm12, Arr.flat, Arr.WF], ?_⟩
  · unfold matmul
    simp only [Arr.ndim, hsa, hsb]
    simp [shapesAlign]
    exact matmul1dNd_vecmat 2 a b k p ha hb hsa hsb
  · intro j hj
    simp only [Arr.get?, vm12, Arr.flat, ravel, List.length_map, List.length_range, List.prod_nil, Nat.mul_one,
      Nat.add_zero, List.getElem?_map, List.getElem?_range hj, Option.map_some]
    congr 1
    apply Finset.sum_congr rfl
    intro i _
    rw [ent_eq_getD, ent_eq_getD, hsa, hsb]; simp [ravel]

/-- **matrix · vector**: `[n,k] · [k]` has shape `[n]` and entry `i` is `Σ_q A[i,q]·b[q]`. -/
theorem matmul_mat_vec (a b : A) (n k : Nat) (ha : a.WF) (hb : b.WF) (hn : 0 < n) (hk : 0 < k)
    (hsa : a.shape = [n, k]) (hsb : b.shape = [k]) :
    ∃ r, matmul a b = .ok r ∧ r.shape = [n] ∧ r.WF ∧
      ∀ i, i < n → r.get? [i] = some (∑ q ∈ range k, a.ent [i, q] * b.ent [q]) := by
  refine ⟨mv21 a b n k, ?_, by simp [mv21, Arr.flat], by simp [mv21, Arr.flat, Arr.WF], ?_⟩
  · unfold matmul
    simp only [Arr.ndim, hsa, hsb]
    simp [shapesAlign]
    exact matmul1dNd_matvec 2 a b n k ha hb hn hk hsa hsb
  · intro i hi
    simp only [Arr.get?, mv21, Arr.flat, ravel, List.length_map, List.length_range, List.prod_nil, Nat.mul_one,
      Nat.add_zero, List.getElem?_map, List.getElem?_range hi, Option.map_some]
    congr 1
    apply Finset.sum_congr rfl
    intro q _
    rw [ent_eq_getD, ent_eq_getD, hsa, hsb]; simp [ravel]

/-- **vector · vector** under `matmul` is the flattened dot product, a one-element array. -/
theorem matmul_vec_vec (a b : A) (k : Nat) (ha : a.WF) (hb : b.WF) (hsa : a.shape = [k]) (hsb : b.shape = [k]) :
    matmul a b = .ok ⟨[∑ i ∈ range k, a.ent [i] * b.ent [i]], [1]⟩ := by
  have hla : a.elems.length = k := by rw [ha, hsa]; simp
  have hlb : b.elems.length = k := by rw [hb, hsb]; simp
  unfold matmul vdot
  simp only [Arr.ndim, Arr.len, hsa, hsb, hla, hlb]
  simp only [List.length_cons, List.length_nil, Nat.zero_add, and_self, if_true]
  rw [sumProd_eq_sum _ _ (by rw [hla, hlb]), hla]
  congr 3
  apply Finset.sum_congr rfl
  intro i _
  rw [ent_eq_getD, ent_eq_getD, hsa, hsb]; simp [ravel]

/-- **equally shaped stacks**: `[s,n,m] · [s,m,p]` has shape `[s,n,p]` and
entry `(t,i,j)` is `Σ_k A[t,i,k]·B[t,k,j]`. -/
theorem matmul_stack (a b : A) (s n m p : Nat) (ha : a.WF) (hb : b.WF)
    (hs : 0 < s) (hn : 0 < n) (hm : 0 < m) (hp : 0 < p)
    (hsa : a.shape = [s, n, m]) (hsb : b.shape = [s, m, p]) :
    ∃ r, matmul a b = .ok r ∧ r.shape = [s, n, p] ∧ r.WF ∧
      ∀ t i j, t < s → i < n → j < p →
        r.get? [t, i, j] = some (∑ k ∈ range m, a.ent [t, i, k] * b.ent [t, k, j]) := by
  refine ⟨ms33 a b s n m p, ?_, rfl, ?_, ?_⟩
  · unfold matmul
    simp only [Arr.ndim, hsa, hsb]
    simp
    exact matmulNd_stack a b s n m p ha hb hs hn hm hp hsa hsb
  · unfold Arr.WF ms33
    simp only
    rw [length_flatMap_uniform _ _ (n * p) (by intro t _; simp [mm22])]
    simp
  · intro t i j ht hi hj
    exact ms33_get a b s n m p t i j ht hi hj hsa hsb

/-- **stacks, slice form**: the `t`-th matrix of the result is `matmul` of the `t`-th matrices of the operands. -/
theorem matmul_stack_slices (a b : A) (s n m p : Nat) (ha : a.WF) (hb : b.WF)
    (hs : 0 < s) (hn : 0 < n) (hm : 0 < m) (hp : 0 < p)
    (hsa : a.shape = [s, n, m]) (hsb : b.shape = [s, m, p]) :
    ∃ r, matmul a b = .ok r ∧ ∀ t, t < s →
      matmul ⟨slab a (n * m) t, [n, m]⟩ ⟨slab b (m * p) t, [m, p]⟩ = .ok ⟨slab r (n * p) t, [n, p]⟩ := by
  refine ⟨ms33 a b s n m p, ?_, ?_⟩
  · unfold matmul
    simp only [Arr.ndim, hsa, hsb]
    simp
    exact matmulNd_stack a b s n m p ha hb hs hn hm hp hsa hsb
  · intro t ht
    have h22 : matmul ⟨slab a (n * m) t, [n, m]⟩ ⟨slab b (m * p) t, [m, p]⟩
        = matmul22 ⟨slab a (n * m) t, [n, m]⟩ ⟨slab b (m * p) t, [m, p]⟩ := by
      unfold matmul; simp [Arr.ndim]
    rw [h22, matmul22_eq _ _ n m p (slab_wf a s n m t ha hsa ht) (slab_wf b s m p t hb hsb ht) rfl rfl]
    rw [slab_ms33 a b s n m p t ht]
    rfl

/-! ### matmul: operands whose contracted lengths differ are refused, arm by arm -/

theorem matmul_refuses_22 (a b : A) (n m m' p : Nat) (hsa : a.shape = [n, m]) (hsb : b.shape = [m', p])
    (h : m ≠ m') : matmul a b = .err .ParameterError := by
  unfold matmul matmul22 shapesAlign
  simp [Arr.ndim, hsa, hsb, h]

/-- vector · N-D (N ≥ 2): the vector length is compared with the second-to-last axis -/
theorem matmul_refuses_vec_nd (a b : A) (k k' : Nat) (hsa : a.shape = [k]) (hb : 2 ≤ b.ndim)
    (hk' : b.shape[b.ndim - 2]? = some k') (h : k ≠ k') : matmul a b = .err .ParameterError := by
  unfold matmul shapesAlign
  have h1 : ¬ (b.ndim = 1) := by omega
  simp [Arr.ndim, hsa] at h1 ⊢
  simp [h1, Arr.ndim] at hk' ⊢
  simp [hk', h]

/-- N-D · vector (N ≥ 2): the last axis is compared with the vector length -/
theorem matmul_refuses_nd_vec (a b : A) (k k' : Nat) (hsb : b.shape = [k']) (ha : 2 ≤ a.ndim)
    (hk : a.shape[a.ndim - 1]? = some k) (h : k ≠ k') : matmul a b = .err .ParameterError := by
  unfold matmul shapesAlign
  have h1 : ¬ (a.ndim = 1) := by omega
  simp [Arr.ndim, hsb] at h1 ⊢
  simp [h1, Arr.ndim] at hk ⊢
  simp [hk, h]

theorem matmul_refuses_vec_vec (a b : A) (k k' : Nat) (ha : a.WF) (hb : b.WF) (hsa : a.shape = [k])
    (hsb : b.shape = [k']) (h : k ≠ k') : matmul a b = .err .MustBeEqual := by
  have hla : a.elems.length = k := by rw [ha, hsa]; simp
  have hlb : b.elems.length = k' := by rw [hb, hsb]; simp
  unfold matmul vdot
  simp [Arr.ndim, Arr.len, hsa, hsb, hla, hlb, h]

/-- stacks whose matrices do not conform are refused -/
theorem matmul_refuses_stack (a b : A) (s n m m' p : Nat) (ha : a.WF) (hb : b.WF)
    (hs : 0 < s) (hn : 0 < n) (hm : 0 < m) (hm' : 0 < m') (hp : 0 < p)
    (hsa : a.shape = [s, n, m]) (hsb : b.shape = [s, m', p]) (h : m ≠ m') :
    matmul a b = .err .ParameterError := by
  have hla := wf_len3 ha hsa
  have hlb := wf_len3 hb hsb
  have hnm : 0 < n * m := Nat.mul_pos hn hm
  have hmp : 0 < m' * p := Nat.mul_pos hm' hp
  unfold matmul
  simp only [Arr.ndim, hsa, hsb]
  simp
  unfold matmulNd
  simp only [Arr.ndim, Arr.len, hsa, hsb, hla, hlb, List.length_cons, List.length_nil, Res.idx]
  simp only [Nat.zero_add, Nat.reduceAdd, Nat.reduceSub, ge_iff_le, Nat.le_refl, if_true, List.getElem?_cons_succ,
    List.getElem?_cons_zero, Res.bind_ok, List.drop_succ_cons, List.drop_zero,
    List.prod_cons, List.prod_nil, Nat.mul_one]
  simp only [List.length_cons, List.length_nil, Nat.zero_add, Nat.reduceAdd, Nat.reduceLT, if_false]
  rw [if_neg (by omega)]
  simp only [Nat.mul_div_cancel s hnm, Nat.mul_div_cancel s hmp, Nat.max_self]
  rw [matmulSplit_stack a s n m ha hs hn hm hsa, matmulSplit_stack b s m' p hb hs hm' hp hsb]
  simp only [Res.bind_ok, List.zip_map', List.map_map]
  rw [collectRes_all_err _ _ .ParameterError (by simp; omega)]
  · rfl
  · intro t _
    simp [matmul22, shapesAlign, h]

/-! ## dot (operands up to rank two) -/

/-- **scalar · array**: a one-element left operand scales the other operand (shape: the broadcast shape) -/
theorem dot_scalar_left (a b : A) (ha : a.WF) (h1 : a.len = 1) :
    ∃ x, a.elems = [x] ∧
      dot a b = some (.ok ⟨b.elems.map (fun y => x * y), List.replicate (a.ndim - b.ndim) 1 ++ b.shape⟩) := by
  have hs : a.shape = List.replicate a.ndim 1 := ones_of_prod_eq_one a.shape (by rw [← ha]; exact h1)
  obtain ⟨x, hx⟩ : ∃ x, a.elems = [x] := by
    match hE : a.elems, h1 with
    | [x], _ => exact ⟨x, rfl⟩
    | [], h => simp [Arr.len, hE] at h
    | _ :: _ :: _, h => simp [Arr.len, hE] at h
  refine ⟨x, hx, ?_⟩
  unfold dot
  rw [if_pos (Or.inl h1)]
  simp only [multiplyScalar, hx]
  rw [hs, bshape_ones_left']
  simp [Arr.ndim]

/-- **array · scalar** -/
theorem dot_scalar_right (a b : A) (hb : b.WF) (h1 : b.len = 1) :
    ∃ y, b.elems = [y] ∧
      dot a b = some (.ok ⟨a.elems.map (fun x => x * y), List.replicate (b.ndim - a.ndim) 1 ++ a.shape⟩) := by
  have hs : b.shape = List.replicate b.ndim 1 := ones_of_prod_eq_one b.shape (by rw [← hb]; exact h1)
  obtain ⟨y, hy⟩ : ∃ y, b.elems = [y] := by
    match hE : b.elems, h1 with
    | [y], _ => exact ⟨y, rfl⟩
    | [], h => simp [Arr.len, hE] at h
    | _ :: _ :: _, h => simp [Arr.len, hE] at h
  refine ⟨y, hy, ?_⟩
  unfold dot
  rw [if_pos (Or.inr h1)]
  have hm : multiplyScalar a b = .ok ⟨a.elems.map (fun x => x * y), bshape a.shape b.shape⟩ := by
    unfold multiplyScalar
    rw [hy]
    rcases a.elems with _ | ⟨x1, _ | ⟨x2, r⟩⟩
    · rfl
    · rfl
    · rfl
  rw [hm, hs, bshape_ones_right']
  simp [Arr.ndim]

/-- **vector · vector**: the sum of the products, a one-element array -/
theorem dot_11 (a b : A) (k : Nat) (ha : a.WF) (hb : b.WF) (hsa : a.shape = [k]) (hsb : b.shape = [k]) (hk : k ≠ 1) :
    dot a b = some (.ok ⟨[∑ i ∈ range k, a.ent [i] * b.ent [i]], [1]⟩) := by
  have hla : a.elems.length = k := by rw [ha, hsa]; simp
  have hlb : b.elems.length = k := by rw [hb, hsb]; simp
  have := matmul_vec_vec a b k ha hb hsa hsb
  unfold matmul at this
  simp only [Arr.ndim, hsa, hsb, List.length_cons, List.length_nil, Nat.zero_add, and_self, if_true] at this
  unfold dot
  simp only [Arr.len, hla, hlb, Arr.ndim, hsa, hsb, List.length_cons, List.length_nil, Nat.zero_add, and_self,
    if_true, or_self, hk, if_false, this]

/-- **matrix · vector** under `dot` -/
theorem dot_21 (a b : A) (n k : Nat) (ha : a.WF) (hb : b.WF) (hsa : a.shape = [n, k]) (hsb : b.shape = [k])
    (h1 : a.len ≠ 1) (h2 : b.len ≠ 1) :
    ∃ r, dot a b = some (.ok r) ∧ r.shape = [n] ∧ r.WF ∧
      ∀ i, i < n → r.get? [i] = some (∑ q ∈ range k, a.ent [i, q] * b.ent [q]) := by
  have hla := wf_len2 ha hsa
  have hlb : b.elems.length = k := by rw [hb, hsb]; simp
  refine ⟨Arr.flat ((List.range n).map (fun i => sumProd (row a k i) b.elems)), ?_, by simp [Arr.flat],
    by simp [Arr.flat, Arr.WF], ?_⟩
  · unfold dot
    rw [if_neg (by simp [h1, h2])]
    simp only [Arr.ndim, hsa, hsb, List.length_cons, List.length_nil]
    simp
    exact dot1d_matvec a b n k ha hb hsa hsb
  · intro i hi
    have hlr : (row a k i).length = k := length_row a k i (by rw [hla]; exact Nat.mul_le_mul_right k hi)
    simp only [Arr.get?, Arr.flat, ravel, List.length_map, List.length_range, List.prod_nil, Nat.mul_one,
      Nat.add_zero, List.getElem?_map, List.getElem?_range hi, Option.map_some]
    congr 1
    rw [sumProd_eq_sum _ _ (by rw [hlr, hlb]), hlr]
    apply Finset.sum_congr rfl
    intro q hq
    have hq' : q < k := by simpa using hq
    simp only [row]
    rw [getD_piece _ _ _ _ hq', ent_eq_getD, ent_eq_getD, hsa, hsb]; simp [ravel]

/-- **vector · matrix** under `dot` -/
theorem dot_12 (a b : A) (k p : Nat) (ha : a.WF) (hsa : a.shape = [k]) (hsb : b.shape = [k, p])
    (h1 : a.len ≠ 1) (h2 : b.len ≠ 1) :
    ∃ r, dot a b = some (.ok r) ∧ r.shape = [p] ∧ r.WF ∧
      ∀ j, j < p → r.get? [j] = some (∑ i ∈ range k, a.ent [i] * b.ent [i, j]) := by
  have hla : a.elems.length = k := by rw [ha, hsa]; simp
  refine ⟨Arr.flat ((List.range p).map (fun j => sumProd a.elems (col b k p j))), ?_, by simp [Arr.flat],
    by simp [Arr.flat, Arr.WF], ?_⟩
  · unfold dot
    rw [if_neg (by simp [h1, h2])]
    simp only [Arr.ndim, hsa, hsb, List.length_cons, List.length_nil]
    simp
    exact dot1d_vecmat a b k p ha hsa hsb
  · intro j hj
    simp only [Arr.get?, Arr.flat, ravel, List.length_map, List.length_range, List.prod_nil, Nat.mul_one,
      Nat.add_zero, List.getElem?_map, List.getElem?_range hj, Option.map_some]
    congr 1
    rw [sumProd_eq_sum _ _ (by simp [col, hla]), hla]
    apply Finset.sum_congr rfl
    intro i hi
    have hi' : i < k := by simpa using hi
    rw [getD_col b k p j i hi', ent_eq_getD, ent_eq_getD, hsa, hsb]; simp [ravel]

/-- the full C14 statement for `dot` on a conforming pair of matrices -/
def DotMatMat (a b : A) (n m p : Nat) : Prop :=
  ∃ r, dot a b = some (.ok r) ∧ r.shape = [n, p] ∧ r.WF ∧
    ∀ i j, i < n → j < p → r.get? [i, j] = some (∑ k ∈ range m, a.ent [i, k] * b.ent [k, j])

/-- **matrix · matrix under `dot`, outside the open finding**: proved when the result is square (`n = p`).
Missing for the full statement: `n ≠ p`, where the (test-pinned) extra check of `dot` refuses the product. -/
theorem dot_22_partial (a b : A) (n m p : Nat) (ha : a.WF) (hb : b.WF)
    (hsa : a.shape = [n, m]) (hsb : b.shape = [m, p]) (h1 : a.len ≠ 1) (h2 : b.len ≠ 1)
    (hsq : n = p) : DotMatMat a b n m p := by
  obtain ⟨r, hr, hrest⟩ := matmul_22 a b n m p ha hb hsa hsb
  refine ⟨r, ?_, hrest⟩
  unfold dot
  rw [if_neg (by simp [h1, h2])]
  simp only [Arr.ndim, hsa, hsb, List.length_cons, List.length_nil]
  simp [shapesAlign, hsq, hr]

/-- the open finding, at its witness (`products_test::test_linalg_dot::case_15`): the conforming product
`2×2 · 2×3` is refused, so the full statement fails there -/
theorem dot_22_open_witness :
    dot ⟨[1, 2, 3, 4], [2, 2]⟩ ⟨[5, 6, 3, 7, 8, 3], [2, 3]⟩ = some (.err .ParameterError) ∧
    ¬ DotMatMat ⟨[1, 2, 3, 4], [2, 2]⟩ ⟨[5, 6, 3, 7, 8, 3], [2, 3]⟩ 2 2 3 := by
  have h : dot ⟨[1, 2, 3, 4], [2, 2]⟩ ⟨[5, 6, 3, 7, 8, 3], [2, 3]⟩ = some (.err .ParameterError) := by decide
  refine ⟨h, ?_⟩
  rintro ⟨r, hr, _⟩
  rw [h] at hr
  cases hr

/-! ### dot: refusals -/

theorem dot_refuses_11 (a b : A) (k k' : Nat) (ha : a.WF) (hb : b.WF) (hsa : a.shape = [k]) (hsb : b.shape = [k'])
    (hk : k ≠ 1) (hk' : k' ≠ 1) (h : k ≠ k') : dot a b = some (.err .MustBeEqual) := by
  have hla : a.elems.length = k := by rw [ha, hsa]; simp
  have hlb : b.elems.length = k' := by rw [hb, hsb]; simp
  unfold dot vdot
  simp [Arr.ndim, Arr.len, hsa, hsb, hla, hlb, h, hk, hk']

/-- matrices that do not conform are refused by `dot` (whatever the other axes are) -/
theorem dot_refuses_22 (a b : A) (n m m' p : Nat) (hsa : a.shape = [n, m]) (hsb : b.shape = [m', p])
    (h1 : a.len ≠ 1) (h2 : b.len ≠ 1) (h : m ≠ m') : dot a b = some (.err .ParameterError) := by
  unfold dot
  rw [if_neg (by simp [h1, h2])]
  simp only [Arr.ndim, hsa, hsb, List.length_cons, List.length_nil]
  simp only [Nat.zero_add, Nat.reduceAdd, Nat.reduceEqDiff, and_self, if_false, if_true]
  rw [matmul_refuses_22 a b n m m' p hsa hsb h]
  unfold shapesAlign
  by_cases hnp : n = p <;> simp [hnp]

theorem dot_refuses_21 (a b : A) (n k k' : Nat) (ha : a.WF) (hb : b.WF) (hn : 0 < n)
    (hsa : a.shape = [n, k]) (hsb : b.shape = [k'])
    (h1 : a.len ≠ 1) (h2 : b.len ≠ 1) (h : k ≠ k') : ∃ e, dot a b = some (.err e) := by
  have hla := wf_len2 ha hsa
  have hlb : b.elems.length = k' := by rw [hb, hsb]; simp
  unfold dot
  rw [if_neg (by simp [h1, h2])]
  simp only [Arr.ndim, hsa, hsb, List.length_cons, List.length_nil]
  simp only [Nat.zero_add, Nat.reduceAdd, Nat.reduceEqDiff, and_self, if_false, and_false, or_true, if_true,
    Nat.le_refl, Nat.one_le_ofNat, and_true]
  unfold dot1d
  simp only [Arr.ndim, hsa, hsb, List.length_cons, List.length_nil, Nat.zero_add, Nat.reduceAdd, Nat.one_lt_ofNat,
    if_true, Nat.lt_irrefl, if_false, getRows_eq a n k hsa, Res.bind_ok, Res.pure_eq, dotIterate,
    List.map_cons, List.map_nil, List.flatMap_map]
  rw [← List.map_eq_flatMap, collectRes_all_err _ _ .MustBeEqual (by simp; omega)]
  · exact ⟨_, rfl⟩
  · intro i hi
    have hi' : i < n := by simpa using hi
    have hlr : (row a k i).length = k := length_row a k i (by rw [hla]; exact Nat.mul_le_mul_right k hi')
    unfold vdot
    simp [Arr.flat, Arr.len, hlr, hlb, h]

theorem dot_refuses_12 (a b : A) (k k' p : Nat) (ha : a.WF) (hp : 0 < p)
    (hsa : a.shape = [k]) (hsb : b.shape = [k', p])
    (h1 : a.len ≠ 1) (h2 : b.len ≠ 1) (h : k ≠ k') : ∃ e, dot a b = some (.err e) := by
  have hla : a.elems.length = k := by rw [ha, hsa]; simp
  unfold dot
  rw [if_neg (by simp [h1, h2])]
  simp only [Arr.ndim, hsa, hsb, List.length_cons, List.length_nil]
  simp only [Nat.zero_add, Nat.reduceAdd, Nat.reduceEqDiff, and_self, if_false, and_false, true_or, if_true,
    Nat.le_refl, Nat.one_le_ofNat, and_true]
  unfold dot1d
  simp only [Arr.ndim, hsa, hsb, List.length_cons, List.length_nil, Nat.zero_add, Nat.reduceAdd, Nat.one_lt_ofNat,
    if_true, Nat.lt_irrefl, if_false, getColumns_eq b k' p hsb, Res.bind_ok, Res.pure_eq, dotIterate,
    List.flatMap_cons, List.flatMap_nil, List.append_nil, List.map_map]
  rw [collectRes_all_err _ _ .MustBeEqual (by simp; omega)]
  · exact ⟨_, rfl⟩
  · intro j _
    unfold vdot
    simp [Function.comp, Arr.flat, Arr.len, col, hla, h]

/-! ## inner, outer, vdot -/

/-- **inner, two vectors** -/
theorem inner_11 (a b : A) (k : Nat) (ha : a.WF) (hb : b.WF) (hsa : a.shape = [k]) (hsb : b.shape = [k]) :
    inner a b = .ok ⟨[∑ i ∈ range k, a.ent [i] * b.ent [i]], [1]⟩ := by
  have hla : a.elems.length = k := by rw [ha, hsa]; simp
  have hlb : b.elems.length = k := by rw [hb, hsb]; simp
  unfold inner inner11 shapesAlign
  simp only [Arr.ndim, hsa, hsb, List.length_cons, List.length_nil, Nat.zero_add, and_self, if_true,
    List.getElem?_cons_zero, Res.bind_ok]
  rw [sumProd_eq_sum _ _ (by rw [hla, hlb]), hla]
  congr 3
  apply Finset.sum_congr rfl
  intro i _
  rw [ent_eq_getD, ent_eq_getD, hsa, hsb]; simp [ravel]

/-- **inner, any ranks** (not both vectors): shapes `sa ++ [k]` and `sb ++ [k]` give shape `sa ++ sb`, and the entry
at `(ca, cb)` is `Σ_q A[ca, q]·B[cb, q]` — the contraction of the two last axes. -/
theorem inner_spec (a b : A) (sa sb : List Nat) (k : Nat) (ha : a.WF) (hb : b.WF)
    (hsa : a.shape = sa ++ [k]) (hsb : b.shape = sb ++ [k]) (hpa : 0 < sa.prod) (hpb : 0 < sb.prod)
    (hrank : ¬ (sa = [] ∧ sb = [])) :
    ∃ r, inner a b = .ok r ∧ r.shape = sa ++ sb ∧ r.WF ∧
      ∀ ca cb, inRange sa ca = true → inRange sb cb = true →
        r.get? (ca ++ cb) = some (∑ q ∈ range k, a.ent (ca ++ [q]) * b.ent (cb ++ [q])) := by
  refine ⟨inn a b sa sb k, ?_, rfl, ?_, ?_⟩
  · unfold inner
    have hnd : ¬ (a.ndim = 1 ∧ b.ndim = 1) := by
      simp only [Arr.ndim, hsa, hsb, List.length_append, List.length_cons, List.length_nil]
      intro ⟨h1, h2⟩
      exact hrank ⟨List.length_eq_zero_iff.1 (by omega), List.length_eq_zero_iff.1 (by omega)⟩
    rw [if_neg hnd]
    have hal : shapesAlign a.shape (a.ndim - 1) b.shape (b.ndim - 1) = .ok () := by
      unfold shapesAlign
      simp [Arr.ndim, hsa, hsb]
    rw [hal]; simp only [Res.bind_ok]
    exact innerNd_eq a b sa sb k ha hb hsa hsb hpa hpb
  · simp [Arr.WF, inn]
  · intro ca cb hca hcb
    exact inn_get a b sa sb k ha hb hsa hsb ca cb hca hcb

/-- inner refuses operands whose last axes differ (any ranks) -/
theorem inner_refuses (a b : A) (sa sb : List Nat) (k k' : Nat)
    (hsa : a.shape = sa ++ [k]) (hsb : b.shape = sb ++ [k']) (h : k ≠ k') :
    inner a b = .err .ParameterError := by
  unfold inner inner11 shapesAlign
  by_cases hnd : a.ndim = 1 ∧ b.ndim = 1
  · rw [if_pos hnd]
    have h1 : sa = [] := by have := hnd.1; simpa [Arr.ndim, hsa] using this
    have h2 : sb = [] := by have := hnd.2; simpa [Arr.ndim, hsb] using this
    simp [hsa, hsb, h1, h2, h]
  · rw [if_neg hnd]
    simp [Arr.ndim, hsa, hsb, h]

/-- **outer**: both operands are flattened; shape `[len a, len b]`, entry `(i,j)` is `a_i · b_j` -/
theorem outer_spec (a b : A) :
    ∃ r, outer a b = .ok r ∧ r.shape = [a.len, b.len] ∧ r.WF ∧
      ∀ i j, i < a.len → j < b.len → r.get? [i, j] = some (a.elems.getD i 0 * b.elems.getD j 0) := by
  refine ⟨_, outer_eq a b, rfl, ?_, ?_⟩
  · unfold Arr.WF
    simp only
    rw [length_flatMap_uniform _ _ b.elems.length (by intro x _; simp)]
    simp [Arr.len]
  · intro i j hi hj
    exact outer_get a b i j hi hj

/-- **vdot** (flattened dot product): operands of equal length, whatever their shapes -/
theorem vdot_spec (a b : A) (h : a.len = b.len) :
    vdot a b = .ok ⟨[∑ i ∈ range a.len, a.elems.getD i 0 * b.elems.getD i 0], [1]⟩ := by
  unfold vdot
  rw [if_pos h, sumProd_eq_sum _ _ h]; rfl

theorem vdot_refuses (a b : A) (h : a.len ≠ b.len) : vdot a b = .err .MustBeEqual := by
  unfold vdot; rw [if_neg h]

/-! ## results are well-formed (element count = product of the shape), for every input -/

theorem matmul_wf (a b r : A) (h : matmul a b = .ok r) : r.WF := by
  unfold matmul at h
  split at h
  · exact vdot_wf h
  · split at h
    · simp only [bind_eq_ok_iff] at h
      obtain ⟨_, _, h⟩ := h
      exact matmul1dNd_wf _ _ _ _ h
    · split at h
      · exact matmul22_wf h
      · exact matmulNd_wf h

theorem inner_wf (a b r : A) (h : inner a b = .ok r) : r.WF := by
  unfold inner at h
  split at h
  · unfold inner11 at h
    simp only [bind_eq_ok_iff] at h
    obtain ⟨_, _, h⟩ := h
    cases h; simp [Arr.WF]
  · unfold innerNd at h
    simp only [bind_eq_ok_iff] at h
    obtain ⟨_, _, _, _, _, _, _, _, _, _, _, _, h⟩ := h
    exact reshape_wf h

theorem dot_wf (a b r : A) (ha : a.WF) (hb : b.WF) (h : dot a b = some (.ok r)) : r.WF := by
  unfold dot at h
  split at h
  · exact multiplyScalar_wf a b r ha hb (by simpa using h)
  · split at h
    · exact vdot_wf (by simpa using h)
    · split at h
      · simp only [Option.some.injEq, bind_eq_ok_iff] at h
        obtain ⟨_, _, h⟩ := h
        exact matmul_wf a b r h
      · split at h
        · split at h
          · exact dot1d_wf (by simpa using h)
          · cases h
        · cases h

theorem outer_wf (a b r : A) (h : outer a b = .ok r) : r.WF := reshape_wf h

/-! ### non-vacuity: concrete instances (also the suite's own rows) -/
example : matmul ⟨[1, 2, 3, 4, 5, 6], [2, 3]⟩ ⟨[1, 2, 3, 4, 5, 6], [3, 2]⟩ = .ok ⟨[22, 28, 49, 64], [2, 2]⟩ := by decide
example : matmul ⟨[1, 2, 3, 4, 5, 6, 7, 8, 9], [3, 3]⟩ ⟨[1, 2, 3, 4, 5, 6], [3, 2]⟩
    = .ok ⟨[22, 28, 49, 64, 76, 100], [3, 2]⟩ := by decide
example : matmul ⟨[1, 2], [2]⟩ ⟨[0, 1, 2, 3, 4, 5], [2, 3]⟩ = .ok ⟨[6, 9, 12], [3]⟩ := by decide
example : matmul ⟨[1, 2, 3, 4, 5, 6], [2, 3]⟩ ⟨[1, 2, 3, 4, 5, 6, 7, 8], [4, 2]⟩ = .err .ParameterError := by decide
example : matmul ⟨[0, 1, 2, 3, 4, 5, 6, 7], [2, 2, 2]⟩ ⟨[0, 1, 2, 3, 4, 5, 6, 7], [2, 2, 2]⟩
    = .ok ⟨[2, 3, 6, 11, 46, 55, 66, 79], [2, 2, 2]⟩ := by decide
example : inner ⟨[6, 5, 4, 3, 2, 1], [2, 3]⟩ ⟨[1, 2, 3], [3]⟩ = .ok ⟨[28, 10], [2]⟩ := by decide
example : (⟨[1, 2, 3, 4, 5, 6], [2, 3]⟩ : A).WF ∧ inRange [2] [1] = true ∧ (0 < [2].prod) := by decide
example : dot ⟨[1, 2, 3, 4], [2, 2]⟩ ⟨[5, 6, 7, 8], [2, 2]⟩ = some (.ok ⟨[19, 22, 43, 50], [2, 2]⟩) := by decide
example : dot ⟨[2], [1]⟩ ⟨[1, 2, 3, 4], [2, 2]⟩ = some (.ok ⟨[2, 4, 6, 8], [2, 2]⟩) := by decide
-- a stack whose matrices are not square and whose products are not square: [2,2,3] · [2,3,1]
example : matmul ⟨[1, 2, 3, 4, 5, 6, 7, 8, 9, 10, 11, 12], [2, 2, 3]⟩ ⟨[1, 0, 1, 0, 1, 0], [2, 3, 1]⟩
    = .ok ⟨[4, 10, 8, 11], [2, 2, 1]⟩ := by decide
-- refusals: vector · matrix, matrix · vector, stacks, dot of a matrix and a vector, inner
example : matmul ⟨[1, 2, 3], [3]⟩ ⟨[0, 1, 2, 3, 4, 5], [2, 3]⟩ = .err .ParameterError := by decide
example : matmul ⟨[0, 1, 2, 3, 4, 5], [2, 3]⟩ ⟨[1, 2], [2]⟩ = .err .ParameterError := by decide
example : matmul ⟨[1, 2, 3, 4, 5, 6, 7, 8], [2, 2, 2]⟩ ⟨[1, 2, 3, 4, 5, 6], [2, 3, 1]⟩ = .err .ParameterError := by decide
example : dot ⟨[0, 1, 2, 3, 4, 5], [2, 3]⟩ ⟨[1, 2], [2]⟩ = some (.err .MustBeEqual) := by decide
example : inner ⟨[0, 1, 2, 3, 4, 5], [2, 3]⟩ ⟨[1, 2, 3, 4], [2, 2]⟩ = .err .ParameterError := by decide
example : (⟨[0, 1, 2, 3, 4, 5], [2, 3]⟩ : A).shape[(⟨[0, 1, 2, 3, 4, 5], [2, 3]⟩ : A).ndim - 2]? = some 2 := by decide

end ArrModel.C14
