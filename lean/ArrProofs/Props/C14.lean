import ArrProofs.Lemmas.C14
/-!
# C14 — vector and matrix products equal their defining sums when operands conform

Property theorems only (helpers: `ArrProofs/Lemmas/C14.lean`).  Model under test: `ArrModel/C14.lean`
(`matmul`, `dot`, `vdot`, `inner`, `outer` with their rank dispatch and helpers, as repaired by
`/verif/fixes/C14-*.diff`).  Entries are integers; `a.ent c` reads the entry at coordinates `c`
(`Arr.get?` with default `0`; `get?_eq_some_ent` shows the read is defined on every in-range coordinate).
Sums are `Finset` sums over the shared index.
-/
namespace ArrModel.C14
open ArrModel Finset

/-- **matrix · matrix**: `[n,m] · [m,p]` is accepted, has shape `[n,p]`, is well-formed, and
entry `(i,j)` is `Σ_k A[i,k]·B[k,j]`. No bound on `n, m, p` (zero lengths included). -/
theorem matmul_22 (a b : A) (n m p : Nat) (ha : a.WF) (hb : b.WF)
    (hsa : a.shape = [n, m]) (hsb : b.shape = [m, p]) :
    ∃ r, matmul a b = .ok r ∧ r.shape = [n, p] ∧ r.WF ∧
      ∀ i j, i < n → j < p → r.get? [i, j] = some (∑ k ∈ range m, a.ent [i, k] * b.ent [k, j]) := by
  refine ⟨mm22 a b n m p, ?_, rfl, ?_, ?_⟩
  · unfold matmul
    simp only [Arr.ndim, hsa, hsb]
    simp
    exact matmul22_eq a b n m p ha hb hsa hsb
  · simp [Arr.WF, mm22, length_flatMap_range]
  · intro i j hi hj
    rw [mm22_get a b n m p i j hi hj, cellSpec_eq_ent a b n m p i j hsa hsb]

end ArrModel.C14
