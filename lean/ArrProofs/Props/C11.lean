import ArrModel.Joining
namespace ArrModel.C11
end ArrModel.C11
