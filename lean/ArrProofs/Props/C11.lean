import ArrProofs.Lemmas.C11Column
import ArrProofs.Lemmas.C11Empty
/-!
# C11 — joining lays the inputs contiguously along the axis; splitting is its inverse

Model under test: `ArrModel/Split.lean` (`sectionSizes`, `divPoints`, `arraySplit`, `split`, `splitAxis`) and
`ArrModel/Joining.lean` (`appendAxis`, `append`, `validateStackShapes`, `concatenate`, `stack`, `vstack`, `hstack`,
`dstack`, `rowStack`, `hsplit`, `vsplit`, `dsplit`).  Every statement is for every rank, every axis (first, inner,
last), every axis length and every part count; no bounds.

Vocabulary: `a.get? c` is the element at coordinate `c`; `c.set k x` replaces coordinate `k`; `inRange s c` says `c` is a
coordinate inside shape `s`; `axLen k b = b.shape[k]`; `offsetOf k arrs i` = the sum of the axis-`k` lengths of the first `i`
inputs (where input `i` starts); `blockOf L sizes i = (L.drop (sizes[0]+…+sizes[i-1])).take sizes[i]`;
`Joinable k a0 rest` = all inputs well formed, axis `k` inside every rank, shapes equal with axis `k` removed
(zero-length axes allowed, on or off the axis); `colsOf b` = 1 for a vector, `b.shape[1]` for a matrix; `colCoord b row col` = `[row]` for a
vector, `[row, col]` for a matrix; `ColOK R b` = well formed of shape `[R]` or `[R, m]`.
-/
namespace ArrModel.C11
open ArrModel Arr
variable {α : Type}

/-! ## 1. section sizes and division points -/

/-- **section sizes**: `parts` of them, summing to `n`, the first `n % parts` are `n / parts + 1` and the others
`n / parts` (so they differ by at most one, larger first), all equal when `parts ∣ n` -/
theorem sectionSizes_spec (n parts : Nat) (hp : 0 < parts) :
    (sectionSizes n parts).length = parts ∧ (sectionSizes n parts).sum = n ∧
    (∀ i, i < parts → (sectionSizes n parts)[i]? = some (if i < n % parts then n / parts + 1 else n / parts)) ∧
    (n % parts = 0 → sectionSizes n parts = List.replicate parts (n / parts)) :=
  ⟨sectionSizes_length n parts hp, sectionSizes_sum n parts hp, fun i hi => sectionSizes_getElem? n parts i hi,
    sectionSizes_dvd n parts⟩

/-- **larger sections come first and sizes differ by at most one** -/
theorem sectionSizes_larger_first (n parts i j : Nat) (hij : i ≤ j) (hj : j < parts) :
    (sectionSizes n parts).getD j 0 ≤ (sectionSizes n parts).getD i 0 ∧
    (sectionSizes n parts).getD i 0 ≤ (sectionSizes n parts).getD j 0 + 1 := by
  simp only [List.getD_eq_getElem?_getD, sectionSizes_getElem? n parts i (by omega), sectionSizes_getElem? n parts j hj,
    Option.getD_some]
  split <;> split <;> omega

/-- **division points are the prefix sums of the sizes**: one more than the sizes, starting at 0, ending at the total,
non-decreasing -/
theorem divPoints_spec (sizes : List Nat) :
    (divPoints sizes).length = sizes.length + 1 ∧
    (∀ i, i ≤ sizes.length → (divPoints sizes)[i]? = some (sizes.take i).sum) ∧
    (divPoints sizes)[0]? = some 0 ∧ (divPoints sizes)[sizes.length]? = some sizes.sum ∧
    (∀ i j, i ≤ j → (sizes.take i).sum ≤ (sizes.take j).sum) := by
  refine ⟨divPoints_length sizes, fun i hi => divPoints_getElem? sizes i hi, ?_, ?_, sum_take_le sizes⟩
  · rw [divPoints_getElem? sizes 0 (by omega)]; simp
  · rw [divPoints_getElem? sizes _ (Nat.le_refl _), List.take_length]

/-! ## 2. splitting a 1-D array -/

/-- **the pieces of a 1-D split are the consecutive blocks of the element list with the section sizes** -/
theorem arraySplit_1d (a : Arr α) (zero : α) (parts n : Nat) (hwf : a.WF) (hs : a.shape = [n]) (hn : 0 < n)
    (hp : 0 < parts) :
    a.arraySplit zero parts (some 0) =
      .ok ((List.range parts).map (fun i => Arr.flat (blockOf a.elems (sectionSizes n parts) i))) ∧
    a.arraySplit zero parts none = a.arraySplit zero parts (some 0) :=
  ⟨arraySplit_flat1d a zero parts n hwf hs hn hp, arraySplit_none a zero parts⟩

/-- **1-D round trip**: chaining the pieces gives the element list back, and `concatenate(pieces, None)` is the array -/
theorem concat_split_id_flat (a : Arr α) (zero : α) (parts n : Nat) (hwf : a.WF) (hs : a.shape = [n]) (hn : 0 < n)
    (hp : 0 < parts) :
    ∃ pieces, a.arraySplit zero parts none = .ok pieces ∧ pieces.flatMap (·.elems) = a.elems ∧
      ∃ r, concatenate pieces zero none = .ok r ∧ r.elems = a.elems := by
  obtain ⟨h1, h2⟩ := arraySplit_1d a zero parts n hwf hs hn hp
  have hL : a.elems.length = n := by rw [hwf, hs]; simp
  have hfl : ((List.range parts).map (fun i => Arr.flat (blockOf a.elems (sectionSizes n parts) i))).flatMap (·.elems)
      = a.elems := by
    rw [List.flatMap_map]
    have := blocks_flatten a.elems (sectionSizes n parts) (by rw [sectionSizes_sum n parts hp, hL])
    rw [sectionSizes_length n parts hp] at this
    exact this
  refine ⟨_, h2.trans h1, hfl, ?_⟩
  cases hpc : (List.range parts).map (fun i => Arr.flat (blockOf a.elems (sectionSizes n parts) i)) with
  | nil => have := congrArg List.length hpc; simp at this; omega
  | cons p0 prest =>
    obtain ⟨r, g1, g2⟩ := concatenate_none_elems zero p0 prest
    exact ⟨r, g1, by rw [g2, ← hpc, hfl]⟩

/-! ## 3. splitting along an axis -/

/-- **`array_split` along axis `k`**: `parts` pieces; piece `i` has the input shape with axis `k` cut down to
`sizes[i]`, and its element at `c` is the input element at `c` moved by the block offset `sizes[0]+…+sizes[i-1]`
along axis `k` — the pieces are consecutive blocks along that axis -/
theorem arraySplit_at (a : Arr α) (zero : α) (parts k : Nat) (hwf : a.WF) (hnz : 0 ∉ a.shape) (hp : 0 < parts)
    (hk : k < a.ndim) :
    ∃ pieces, a.arraySplit zero parts (some k) = .ok pieces ∧ pieces.length = parts ∧
      ∀ i (hi : i < pieces.length),
        pieces[i].shape = a.shape.set k ((sectionSizes (a.shape.getD k 0) parts).getD i 0) ∧ pieces[i].WF ∧
        ∀ c, inRange pieces[i].shape c = true →
          pieces[i].get? c = a.get? (c.set k (((sectionSizes (a.shape.getD k 0) parts).take i).sum + c.getD k 0)) :=
  arraySplit_coord a zero parts k hwf hnz hp hk

/-- **`split` is `array_split` when the part count divides the axis length, and an error otherwise** -/
theorem split_spec (a : Arr α) (zero : α) (parts k : Nat) (hwf : a.WF) (hnz : 0 ∉ a.shape) (hp : 0 < parts)
    (hk : k < a.ndim) :
    a.split zero parts (some k) =
      if a.shape.getD k 0 % parts = 0 then a.arraySplit zero parts (some k) else .err .ParameterError := by
  have hne := isEmpty_false_of a hwf hnz
  unfold Arr.split
  rw [if_neg (by simp; omega), if_neg (by omega)]
  simp only [hne, Bool.false_eq_true, if_false, Option.getD_some, idx_getD a.shape k hk, Res.bind_ok]

/-- **refusals of splitting**: zero parts and an axis outside the rank are errors (never a panic, never data) -/
theorem split_refuses (a : Arr α) (zero : α) (parts k : Nat) :
    (parts = 0 → (∃ e, a.arraySplit zero parts (some k) = .err e) ∧ (∃ e, a.split zero parts (some k) = .err e)) ∧
    (a.ndim ≤ k → (∃ e, a.arraySplit zero parts (some k) = .err e) ∧ (∃ e, a.split zero parts (some k) = .err e) ∧
      a.splitAxis zero k = .err .AxisOutOfBounds) := by
  constructor
  · intro h0
    constructor
    · exact ⟨_, by unfold Arr.arraySplit; rw [if_pos h0]⟩
    · by_cases hd : decide (k ≥ a.ndim) = true
      · exact ⟨.AxisOutOfBounds, by unfold Arr.split; simp only [Option.getD_some, hd, if_true]⟩
      · exact ⟨.ParameterError, by unfold Arr.split; simp only [Option.getD_some, hd, h0, Bool.false_eq_true, if_false, if_true]⟩
  · intro hk
    have hd : decide (k ≥ a.ndim) = true := by simpa using hk
    refine ⟨?_, ⟨.AxisOutOfBounds, by unfold Arr.split; simp only [Option.getD_some, hd, if_true]⟩, by unfold Arr.splitAxis; rw [if_pos hk]⟩
    by_cases h0 : parts = 0
    · exact ⟨.ParameterError, by unfold Arr.arraySplit; rw [if_pos h0]⟩
    · exact ⟨.AxisOutOfBounds, by unfold Arr.arraySplit; rw [if_neg h0]; simp only [Option.getD_some, hd, if_true]⟩

/-- **splitting never panics** on a well-formed array without zero-length axis: every call is data or an error -/
theorem split_no_panic (a : Arr α) (zero : α) (parts k : Nat) (hwf : a.WF) (hnz : 0 ∉ a.shape) :
    a.arraySplit zero parts (some k) ≠ .panic ∧ a.split zero parts (some k) ≠ .panic := by
  by_cases hp : parts = 0
  · obtain ⟨⟨e1, h1⟩, ⟨e2, h2⟩⟩ := (split_refuses a zero parts k).1 hp
    rw [h1, h2]; simp
  · by_cases hk : a.ndim ≤ k
    · obtain ⟨⟨e1, h1⟩, ⟨e2, h2⟩, _⟩ := (split_refuses a zero parts k).2 hk
      rw [h1, h2]; simp
    · obtain ⟨pieces, h1, _⟩ := arraySplit_at a zero parts k hwf hnz (by omega) (by omega)
      rw [split_spec a zero parts k hwf hnz (by omega) (by omega), h1]
      constructor
      · simp
      · split <;> simp

/-- **the default axis of splitting and stacking is axis 0** — for splitting on every rank (a rank-0 receiver is refused
with either spelling: the code validates the DEFAULTED axis, /repo 3685e2a), for stacking on inputs of rank ≥ 1 -/
theorem none_axis_is_zero (a : Arr α) (zero : α) (parts : Nat) (rest : List (Arr α)) :
    a.arraySplit zero parts none = a.arraySplit zero parts (some 0) ∧
    a.split zero parts none = a.split zero parts (some 0) ∧
    (1 ≤ a.ndim → (∀ b ∈ rest, 1 ≤ b.ndim) → stack (a :: rest) zero none = stack (a :: rest) zero (some 0)) := by
  refine ⟨arraySplit_none a zero parts, split_none a zero parts, ?_⟩
  intro h hr
  have hd : ¬ (0 ≥ a.ndim) := by omega
  have hany : ((a :: rest).any fun b => decide (0 ≥ b.ndim)) = false := by
    simp only [List.any_eq_false, decide_eq_true_eq]
    intro b hb
    rcases List.mem_cons.1 hb with rfl | hb
    · exact hd
    · have := hr b hb; omega
  unfold Arr.stack
  simp only [hany, Bool.false_eq_true, if_false, Option.getD_none, Option.getD_some]

/-- **a rank-0 receiver is refused by `array_split` / `split` with the default axis** (`axis = None` stands for axis 0,
which a rank-0 array does not have): `Err(AxisOutOfBounds)` — never a panic at `shape[0]`, never data; zero parts are
refused first by `array_split` (`ParameterError`), the axis first by `split`.  No well-formedness needed. -/
theorem split_rank0_refused (a : Arr α) (zero : α) (parts : Nat) (h0 : a.ndim = 0) :
    a.arraySplit zero parts none = (if parts = 0 then .err .ParameterError else .err .AxisOutOfBounds) ∧
    a.split zero parts none = .err .AxisOutOfBounds ∧
    (∀ k, a.arraySplit zero parts (some k) = (if parts = 0 then .err .ParameterError else .err .AxisOutOfBounds)) ∧
    (∀ k, a.split zero parts (some k) = .err .AxisOutOfBounds) := by
  have hd : ∀ k : Nat, decide (k ≥ a.ndim) = true := by intro k; simp [h0]
  refine ⟨?_, ?_, ?_, ?_⟩
  · unfold Arr.arraySplit; simp only [Option.getD_none, hd, if_true]
  · unfold Arr.split; simp only [Option.getD_none, hd, if_true]
  · intro k; unfold Arr.arraySplit; simp only [Option.getD_some, hd, if_true]
  · intro k; unfold Arr.split; simp only [Option.getD_some, hd, if_true]

/-! ## 4. joining -/

/-- **`append` along axis `k`**: the axis length of the result is the sum; the first input keeps its coordinates, the
second occupies, unchanged, the block that follows it -/
theorem appendAxis_at (a v : Arr α) (zero : α) (k : Nat) (hwa : a.WF) (hwv : v.WF) (hk : k < a.ndim) (hkv : k < v.ndim)
    (hoff : a.shape.eraseIdx k = v.shape.eraseIdx k) :
    ∃ r, a.append v zero (some k) = .ok r ∧ r.shape = a.shape.set k (a.shape.getD k 0 + v.shape.getD k 0) ∧ r.WF ∧
      (∀ c, inRange a.shape c = true → r.get? c = a.get? c) ∧
      (∀ c, inRange v.shape c = true → r.get? (c.set k (a.shape.getD k 0 + c.getD k 0)) = v.get? c) :=
  appendAxis_coord a v zero k hwa hwv hk hkv hoff

/-- **`concatenate` along axis `k`** of inputs that agree off the axis: the result has the axis length = the sum of the
inputs' lengths, and input `i` occupies, unchanged, the block `[off_i, off_i + n_i)` along the axis -/
theorem concatenate_at (zero : α) (k : Nat) (a0 : Arr α) (rest : List (Arr α)) (h : Joinable k a0 rest) :
    ∃ r, concatenate (a0 :: rest) zero (some k) = .ok r ∧
      r.shape = a0.shape.set k (((a0 :: rest).map (axLen k)).sum) ∧ r.WF ∧
      ∀ i (hi : i < (a0 :: rest).length) c, inRange ((a0 :: rest)[i]).shape c = true →
        r.get? (c.set k (offsetOf k (a0 :: rest) i + c.getD k 0)) = ((a0 :: rest)[i]).get? c :=
  concatenate_coord zero k a0 rest h

/-- **along axis 0 the result is the chained element lists** -/
theorem concatenate_axis0_flat (zero : α) (a0 : Arr α) (rest : List (Arr α)) (h : Joinable 0 a0 rest) :
    concatenate (a0 :: rest) zero (some 0) =
      .ok ⟨(a0 :: rest).flatMap (·.elems), a0.shape.set 0 (((a0 :: rest).map (axLen 0)).sum)⟩ := by
  have hk0 : 0 < a0.shape.length := (h a0 List.mem_cons_self).2.1
  cases hs : a0.shape with
  | nil => rw [hs] at hk0; simp at hk0
  | cons n Q =>
    have := concatenate_axis0 zero Q a0 rest (fun b hb => by
      obtain ⟨g1, g2, g3⟩ := h b hb
      refine ⟨g1, ?_⟩
      have := shape_cut_of_eraseIdx b.shape 0 [] Q g2 rfl (by rw [g3, hs]; rfl)
      simpa [axLen] using this)
    rw [this]; rfl

/-- **`concatenate(…, None)` chains the element lists** (as a flat array when there are two or more inputs; a single
input is returned as it is) -/
theorem concatenate_none (zero : α) (a0 : Arr α) (rest : List (Arr α)) :
    (∃ r, concatenate (a0 :: rest) zero none = .ok r ∧ r.elems = (a0 :: rest).flatMap (·.elems)) ∧
    (rest ≠ [] → concatenate (a0 :: rest) zero none = .ok (Arr.flat ((a0 :: rest).flatMap (·.elems)))) := by
  refine ⟨concatenate_none_elems zero a0 rest, ?_⟩
  intro hne
  cases rest with
  | nil => exact absurd rfl hne
  | cons b rest => exact concatenate_none_two zero a0 b rest

/-- **inputs whose other axes differ are refused**: by `append` (rank or off-axis mismatch) and by `concatenate`
(an axis outside some rank, or some input differing from the first off the axis) — an error, never data or a panic -/
theorem mismatch_refused (zero : α) (k : Nat) (a0 : Arr α) (rest : List (Arr α)) :
    (∀ v : Arr α, (a0.ndim ≠ v.ndim ∨ a0.shape.eraseIdx k ≠ v.shape.eraseIdx k) → ∃ e, a0.append v zero (some k) = .err e) ∧
    ((∃ b ∈ a0 :: rest, k ≥ b.ndim ∨ b.shape.eraseIdx k ≠ a0.shape.eraseIdx k) →
      ∃ e, concatenate (a0 :: rest) zero (some k) = .err e) := by
  refine ⟨fun v hv => appendAxis_refuses a0 v zero k hv, ?_⟩
  intro h
  obtain ⟨e, he⟩ := validate_err k a0 rest h
  exact ⟨e, by simp only [concatenate, he, Res.bind_err]⟩

/-! ## 5. the round trip along an axis -/

/-- **splitting along an axis and concatenating the pieces along that axis gives the original array**, for every part
count (even or uneven split, more parts than the axis is long included) and for zero-size arrays too -/
theorem concat_split_id_axis (a : Arr α) (zero : α) (parts k : Nat) (hwf : a.WF) (hp : 0 < parts) (hk : k < a.ndim) :
    (a.arraySplit zero parts (some k) >>= fun ps => concatenate ps zero (some k)) = .ok a := by
  by_cases he : a.isEmpty = true
  · exact concat_split_empty a zero parts k he hp hk
  · have hnz : 0 ∉ a.shape := by
      intro hm
      apply he
      simp [Arr.isEmpty, show a.elems.length = a.shape.prod from hwf, prod_eq_zero_of_mem _ hm]
    obtain ⟨hs, hPl⟩ := shape_cut a.shape k hk
    generalize a.shape.take k = P at hs hPl
    subst hPl
    exact concat_split_cut a zero parts _ P _ hwf hs hnz hp

/-! ## 6. stacking -/

/-- **`stack` at position `k`**: the result has a new axis of length = the number of inputs at position `k`, and the
element at `c` with `j` inserted at position `k` is the element of input `j` at `c` -/
theorem stack_at (zero : α) (k : Nat) (a0 : Arr α) (rest : List (Arr α)) (hk : k < a0.ndim)
    (h : ∀ b ∈ a0 :: rest, b.WF ∧ b.shape = a0.shape) :
    ∃ r, stack (a0 :: rest) zero (some k) = .ok r ∧ r.shape = a0.shape.insertIdx k (rest.length + 1) ∧ r.WF ∧
      ∀ j (hj : j < (a0 :: rest).length) c, inRange a0.shape c = true →
        r.get? (c.insertIdx k j) = ((a0 :: rest)[j]).get? c :=
  stack_coord zero k a0 rest hk h

/-- **inputs of unequal shapes are refused by `stack`** -/
theorem stack_unequal_refused (zero : α) (axis : Option Nat) (a0 : Arr α) (rest : List (Arr α))
    (h : ∃ b ∈ a0 :: rest, b.shape ≠ a0.shape) : ∃ e, stack (a0 :: rest) zero axis = .err e :=
  stack_unequal zero axis a0 rest h

/-! ## 7. conveniences -/

/-- **`vstack` = `concatenate` along axis 0** for inputs of rank ≠ 1 -/
theorem vstack_eq_concatenate (zero : α) (a0 : Arr α) (rest : List (Arr α)) (h : Joinable 0 a0 rest)
    (h1 : a0.shape.length ≠ 1) : vstack (a0 :: rest) zero = concatenate (a0 :: rest) zero (some 0) :=
  vstack_nd zero a0 rest h h1

/-- **`vstack` of 1-D inputs of one length = `concatenate` along axis 0 after `atleast(2)`**: the rows under each other -/
theorem vstack_1d_eq_concatenate (zero : α) (n : Nat) (a0 : Arr α) (rest : List (Arr α))
    (h : ∀ b ∈ a0 :: rest, b.WF ∧ b.shape = [n]) :
    vstack (a0 :: rest) zero =
      (Res.mapM' (fun (a : Arr α) => a.atleast 2) (a0 :: rest) >>= fun l => concatenate l zero (some 0)) ∧
    vstack (a0 :: rest) zero = .ok ⟨(a0 :: rest).flatMap (·.elems), [rest.length + 1, n]⟩ := by
  obtain ⟨h1, h2⟩ := vstack_1d zero n a0 rest h
  exact ⟨h1.trans h2.symm, h1⟩

/-- **`row_stack` is `vstack`** -/
theorem rowStack_eq_vstack (zero : α) (arrs : List (Arr α)) : rowStack arrs zero = vstack arrs zero := rfl

/-- **`hstack` = `concatenate` along axis 0 for 1-D inputs, along axis 1 after `atleast(2)` otherwise** -/
theorem hstack_eq_concatenate (zero : α) (arrs : List (Arr α)) (a0 : Arr α) (rest : List (Arr α)) :
    ((a0 :: rest).all (fun a => a.ndim == 1) = true →
      hstack (a0 :: rest) zero = concatenate (a0 :: rest) zero (some 0)) ∧
    (arrs.all (fun a => a.ndim == 1) = false →
      Res.mapM' (fun (a : Arr α) => a.atleast 2) arrs = .ok (a0 :: rest) → Joinable 1 a0 rest →
      hstack arrs zero = concatenate (a0 :: rest) zero (some 1)) :=
  ⟨hstack_1d zero a0 rest, hstack_nd zero arrs a0 rest⟩

/-- **`dstack` = `concatenate` along axis 2 after `atleast(3)`** -/
theorem dstack_eq_concatenate (zero : α) (arrs : List (Arr α)) (a0 : Arr α) (rest : List (Arr α))
    (hprom : Res.mapM' (fun (a : Arr α) => a.atleast 3) arrs = .ok (a0 :: rest)) (h : Joinable 2 a0 rest) :
    dstack arrs zero = concatenate (a0 :: rest) zero (some 2) :=
  dstack_nd zero arrs a0 rest hprom h

/-- **`column_stack`**: 1-D inputs become single columns, 2-D inputs are laid side by side: the result has shape
`[rows, total columns]` and input `i` occupies, unchanged, the columns `[off_i, off_i + cols_i)` of every row (this is
`concatenate` along axis 1 of the inputs promoted to columns, stated by coordinates) -/
theorem columnStack_at (zero : α) (R : Nat) (a0 : Arr α) (rest : List (Arr α)) (h : ∀ b ∈ a0 :: rest, ColOK R b) :
    ∃ r, columnStack (a0 :: rest) zero = .ok r ∧ r.shape = [R, ((a0 :: rest).map colsOf).sum] ∧ r.WF ∧
      ∀ i (hi : i < (a0 :: rest).length) row col, row < R → col < colsOf ((a0 :: rest)[i]) →
        r.get? [row, (((a0 :: rest).take i).map colsOf).sum + col]
          = ((a0 :: rest)[i]).get? (colCoord ((a0 :: rest)[i]) row col) :=
  columnStack_spec zero R a0 rest h

/-- **`column_stack` refuses inputs of rank other than 1 or 2** -/
theorem columnStack_rank_refused (zero : α) (a0 : Arr α) (rest : List (Arr α)) (h0 : 1 ≤ a0.ndim)
    (h : ∃ b ∈ a0 :: rest, ¬ (b.ndim = 1 ∨ b.ndim = 2)) : columnStack (a0 :: rest) zero = .err .UnsupportedDimension :=
  columnStack_refuses zero a0 rest h0 h

/-- **what `atleast(2)` / `atleast(3)` do to a well-formed input**: a vector becomes a row (`[1,n]`, resp. `[1,n,1]`), a
matrix gets a trailing unit axis, higher ranks are unchanged; the elements are kept -/
theorem atleast_spec (b : Arr α) (hwf : b.WF) :
    (∀ n, b.shape = [n] → b.atleast 2 = .ok ⟨b.elems, [1, n]⟩ ∧ b.atleast 3 = .ok ⟨b.elems, [1, n, 1]⟩) ∧
    (∀ m n, b.shape = [m, n] → b.atleast 3 = .ok ⟨b.elems, [m, n, 1]⟩) ∧
    (2 ≤ b.ndim → b.atleast 2 = .ok b) ∧ (3 ≤ b.ndim → b.atleast 3 = .ok b) :=
  ⟨fun n hs => ⟨atleast2_rank1 b n hwf hs, atleast3_rank1 b n hwf hs⟩, fun m n hs => atleast3_rank2 b m n hwf hs,
    atleast2_rank_ge b, atleast3_rank_ge b⟩

/-- **`hsplit` / `vsplit` / `dsplit` are `split` along axis 1 (0 for a vector) / 0 / 2** -/
theorem xsplit_eq_split (a : Arr α) (zero : α) (parts : Nat) (hp : 0 < parts) :
    (1 ≤ a.ndim → a.hsplit zero parts = a.split zero parts (some (if a.ndim = 1 then 0 else 1))) ∧
    (2 ≤ a.ndim → a.vsplit zero parts = a.split zero parts (some 0)) ∧
    (3 ≤ a.ndim → a.dsplit zero parts = a.split zero parts (some 2)) :=
  ⟨hsplit_eq a zero parts hp, vsplit_eq a zero parts hp, dsplit_eq a zero parts hp⟩

/-! ## non-vacuity -/

example : sectionSizes 7 3 = [3, 2, 2] := by decide
example : sectionSizes 2 4 = [1, 1, 0, 0] := by decide
example : divPoints (sectionSizes 7 3) = [0, 3, 5, 7] := by decide
example : (⟨List.range 12, [2, 3, 2]⟩ : Arr Nat).WF ∧ 0 ∉ [2, 3, 2] ∧ 1 < (⟨List.range 12, [2, 3, 2]⟩ : Arr Nat).ndim := by decide
/-- an uneven split along the middle axis: blocks of 2 and 1 rows of every slab, in order -/
example : (⟨List.range 12, [2, 3, 2]⟩ : Arr Nat).arraySplit 0 2 (some 1)
    = .ok [⟨[0, 1, 2, 3, 6, 7, 8, 9], [2, 2, 2]⟩, ⟨[4, 5, 10, 11], [2, 1, 2]⟩] := by decide +kernel
example : (⟨List.range 12, [2, 3, 2]⟩ : Arr Nat).split 0 2 (some 1) = .err .ParameterError := by decide +kernel
example : ((⟨List.range 12, [2, 3, 2]⟩ : Arr Nat).arraySplit 0 2 (some 1) >>= fun ps => concatenate ps 0 (some 1))
    = .ok ⟨List.range 12, [2, 3, 2]⟩ := by decide +kernel
/-- joining along the last axis of a rank-3 array (the arm where `append`'s temporary shape is not the rolled shape) -/
example : (⟨[0, 1, 2, 3, 4, 5, 6, 7, 8, 9, 10, 11], [2, 3, 2]⟩ : Arr Nat).append ⟨[100, 101, 102, 103, 104, 105], [2, 3, 1]⟩ 0 (some 2)
    = .ok ⟨[0, 1, 100, 2, 3, 101, 4, 5, 102, 6, 7, 103, 8, 9, 104, 10, 11, 105], [2, 3, 3]⟩ := by decide +kernel
example : Joinable 1 (⟨List.range 4, [2, 2]⟩ : Arr Nat) [⟨List.range 2, [2, 1]⟩] := by
  intro b hb
  simp only [List.mem_cons, List.not_mem_nil, or_false] at hb
  rcases hb with rfl | rfl <;> decide
example : (⟨[1, 2], [2]⟩ : Arr Nat).append ⟨[3, 4, 5, 6], [2, 2]⟩ 0 (some 0) = .err .ParameterError := by decide
example : stack [(⟨[1, 2], [2]⟩ : Arr Nat), ⟨[3, 4], [2]⟩] 0 (some 0) = .ok ⟨[1, 2, 3, 4], [2, 2]⟩ := by decide +kernel
example : vstack [(⟨[1, 2], [2]⟩ : Arr Nat), ⟨[3, 4], [2]⟩] 0 = .ok ⟨[1, 2, 3, 4], [2, 2]⟩ := by decide +kernel
example : hstack [(⟨[1, 2], [2, 1]⟩ : Arr Nat), ⟨[3, 4, 5, 6], [2, 2]⟩] 0 = .ok ⟨[1, 3, 4, 2, 5, 6], [2, 3]⟩ := by decide +kernel

/-- zero-size inputs: an empty axis off the joining axis, and an empty input joined with a non-empty one -/
example : (⟨[], [2, 0]⟩ : Arr Nat).append ⟨[], [3, 0]⟩ 0 (some 0) = .ok ⟨[], [5, 0]⟩ := by decide +kernel
example : (⟨[], [2, 0]⟩ : Arr Nat).append ⟨[1, 2, 3, 4], [2, 2]⟩ 0 (some 1) = .ok ⟨[1, 2, 3, 4], [2, 2]⟩ := by decide +kernel
example : stack [(⟨[], [0, 2]⟩ : Arr Nat), ⟨[], [0, 2]⟩] 0 (some 1) = .ok ⟨[], [0, 2, 2]⟩ := by decide +kernel
example : columnStack [(⟨[1, 2], [2]⟩ : Arr Nat), ⟨[3, 4, 5, 6], [2, 2]⟩] 0 = .ok ⟨[1, 3, 4, 2, 5, 6], [2, 3]⟩ := by decide +kernel
example : ColOK 2 (⟨[1, 2], [2]⟩ : Arr Nat) ∧ ColOK 2 (⟨[3, 4, 5, 6], [2, 2]⟩ : Arr Nat) :=
  ⟨⟨by decide, Or.inl rfl⟩, ⟨by decide, Or.inr ⟨2, rfl⟩⟩⟩

/-! ## 8. arrays with a zero-length axis, and totality of splitting (no hypothesis on the shape) -/

/-- **a well-formed array with a zero-length axis is returned whole, as the single piece `[a]`, by every splitting
function** — after the refusals, in the order each function has them: `array_split` refuses zero parts first and then an
axis outside the rank, `split` the other way round, `split_axis` only the axis; `hsplit` refuses zero parts, `vsplit` /
`dsplit` refuse ranks below 2 / 3 first and then zero parts.  The part count is otherwise irrelevant: `split` does NOT
examine whether it divides the axis length (a `[2,0]` array split in 3 along axis 0 is `Ok([a])`). -/
theorem split_zero_axis (a : Arr α) (zero : α) (parts k : Nat) (hwf : a.WF) (hz : 0 ∈ a.shape) :
    a.arraySplit zero parts (some k) =
      (if parts = 0 then .err .ParameterError else if a.ndim ≤ k then .err .AxisOutOfBounds else .ok [a]) ∧
    a.arraySplit zero parts none = (if parts = 0 then .err .ParameterError else .ok [a]) ∧
    a.split zero parts (some k) =
      (if a.ndim ≤ k then .err .AxisOutOfBounds else if parts = 0 then .err .ParameterError else .ok [a]) ∧
    a.split zero parts none = (if parts = 0 then .err .ParameterError else .ok [a]) ∧
    a.splitAxis zero k = (if a.ndim ≤ k then .err .AxisOutOfBounds else .ok [a]) ∧
    a.hsplit zero parts = (if parts = 0 then .err .ParameterError else .ok [a]) ∧
    a.vsplit zero parts =
      (if a.ndim = 1 then .err .UnsupportedDimension else if parts = 0 then .err .ParameterError else .ok [a]) ∧
    a.dsplit zero parts =
      (if a.ndim = 1 ∨ a.ndim = 2 then .err .UnsupportedDimension
       else if parts = 0 then .err .ParameterError else .ok [a]) := by
  have he := isEmpty_of_zero_mem a hwf hz
  have hnd := ndim_pos_of_zero_mem a hz
  refine ⟨?_, ?_, ?_, ?_, ?_, ?_, ?_, ?_⟩
  · rw [arraySplit_empty a zero parts _ he]
    by_cases hk : a.ndim ≤ k <;> simp [hk]
  · rw [arraySplit_empty a zero parts _ he]
    have h0 : ¬ a.ndim = 0 := by omega
    simp [h0]
  · rw [split_empty a zero parts _ he]
    by_cases hk : a.ndim ≤ k <;> simp [hk]
  · rw [split_empty a zero parts _ he]
    have h0 : ¬ a.ndim = 0 := by omega
    simp [h0]
  · rw [splitAxis_empty a zero k he]
  · exact hsplit_empty a zero parts he hnd
  · rw [vsplit_empty a zero parts he]
    by_cases h1 : a.ndim = 1
    · rw [if_pos (.inr h1), if_pos h1]
    · rw [if_neg (by omega), if_neg h1]
  · rw [dsplit_empty a zero parts he]
    by_cases h1 : a.ndim = 1 ∨ a.ndim = 2
    · rw [if_pos (by omega), if_pos h1]
    · rw [if_neg (by omega), if_neg h1]

/-- **`array_split` is total on well-formed arrays** (no hypothesis on the shape, the axis or the part count): the answer
is `Err(ParameterError)` exactly for zero parts, otherwise `Err(AxisOutOfBounds)` exactly for an axis outside the rank,
otherwise a list of pieces whose concatenation along the axis is the array itself. -/
theorem arraySplit_total (a : Arr α) (zero : α) (parts k : Nat) (hwf : a.WF) :
    (parts = 0 ∧ a.arraySplit zero parts (some k) = .err .ParameterError) ∨
    (0 < parts ∧ a.ndim ≤ k ∧ a.arraySplit zero parts (some k) = .err .AxisOutOfBounds) ∨
    (0 < parts ∧ k < a.ndim ∧ ∃ pieces, a.arraySplit zero parts (some k) = .ok pieces ∧
      concatenate pieces zero (some k) = .ok a) := by
  by_cases hp : parts = 0
  · exact .inl ⟨hp, by unfold Arr.arraySplit; rw [if_pos hp]⟩
  · by_cases hk : a.ndim ≤ k
    · refine .inr (.inl ⟨by omega, hk, ?_⟩)
      have hd : decide (k ≥ a.ndim) = true := by simpa using hk
      unfold Arr.arraySplit; rw [if_neg hp]; simp only [Option.getD_some, hd, if_true]
    · refine .inr (.inr ⟨by omega, by omega, ?_⟩)
      have h := concat_split_id_axis a zero parts k hwf (by omega) (by omega)
      cases hs : a.arraySplit zero parts (some k) with
      | ok pieces => rw [hs, Res.bind_ok] at h; exact ⟨pieces, rfl, h⟩
      | err e => rw [hs] at h; cases h
      | panic => rw [hs] at h; cases h

/-- **splitting never panics on a well-formed array** — every rank ≥ 0, zero-length axes included, every axis (inside the
rank or not), every part count (zero included): `array_split`, `split`, `split_axis`, `hsplit`, `vsplit`, `dsplit`
answer with data or with an error, with `axis = None` as well (`None` is axis 0; a rank-0 receiver is then refused with
`AxisOutOfBounds`, `split_rank0_refused`). -/
theorem split_total (a : Arr α) (zero : α) (parts k : Nat) (hwf : a.WF) :
    a.arraySplit zero parts (some k) ≠ .panic ∧ a.split zero parts (some k) ≠ .panic ∧
    a.splitAxis zero k ≠ .panic ∧ a.hsplit zero parts ≠ .panic ∧ a.vsplit zero parts ≠ .panic ∧
    a.dsplit zero parts ≠ .panic ∧
    a.arraySplit zero parts none ≠ .panic ∧ a.split zero parts none ≠ .panic := by
  have hsp : ∀ k, a.arraySplit zero parts (some k) ≠ .panic ∧ a.split zero parts (some k) ≠ .panic := by
    intro k
    by_cases hz : 0 ∈ a.shape
    · obtain ⟨h1, _, h3, _⟩ := split_zero_axis a zero parts k hwf hz
      rw [h1, h3]
      constructor
      · split
        · simp
        · split <;> simp
      · split
        · simp
        · split <;> simp
    · exact split_no_panic a zero parts k hwf hz
  refine ⟨(hsp k).1, (hsp k).2, splitAxis_no_panic a zero k hwf, ?_, ?_, ?_, ?_, ?_⟩
  · unfold Arr.hsplit
    split
    · simp
    · split
      · simp
      · split
        · exact (hsp 0).2
        · exact (hsp 1).2
  · unfold Arr.vsplit
    split
    · simp
    · split
      · simp
      · exact (hsp 0).2
  · unfold Arr.dsplit
    split
    · simp
    · split
      · simp
      · exact (hsp 2).2
  · rw [arraySplit_none]; exact (hsp 0).1
  · rw [split_none]; exact (hsp 0).2

/-- **the round trip for every well-formed array** (the statement of `concat_split_id_axis`, which carries no hypothesis
on the shape, next to the total theorems), **and for `split`**: whenever `split` does not refuse — the array has a
zero-length axis, or the part count divides the axis length — concatenating its pieces gives the array back. -/
theorem concat_split_id_total (a : Arr α) (zero : α) (parts k : Nat) (hwf : a.WF) (hp : 0 < parts) (hk : k < a.ndim) :
    (a.arraySplit zero parts (some k) >>= fun ps => concatenate ps zero (some k)) = .ok a ∧
    ((0 ∈ a.shape ∨ a.shape.getD k 0 % parts = 0) →
      (a.split zero parts (some k) >>= fun ps => concatenate ps zero (some k)) = .ok a) ∧
    (a.splitAxis zero k >>= fun ps => concatenate ps zero (some k)) = .ok a := by
  have h1 := concat_split_id_axis a zero parts k hwf hp hk
  refine ⟨h1, ?_, ?_⟩
  · intro h
    by_cases hz : 0 ∈ a.shape
    · rw [(split_zero_axis a zero parts k hwf hz).2.2.1, if_neg (by omega), if_neg (by omega), Res.bind_ok]
      exact concatenate_singleton a zero k hk
    · have hd : a.shape.getD k 0 % parts = 0 := by
        rcases h with h | h
        · exact absurd h hz
        · exact h
      rw [split_spec a zero parts k hwf hz hp hk, if_pos hd]
      exact h1
  · unfold Arr.splitAxis
    rw [if_neg (by omega)]
    split
    · rw [Res.bind_ok]; exact concatenate_singleton a zero k hk
    · rename_i hne
      have hne' : ¬ (a.isEmpty = true) := by
        intro he; apply hne; simp [he]
      have hnz : 0 ∉ a.shape := fun hm => hne' (isEmpty_of_zero_mem a hwf hm)
      have hk' : k < a.shape.length := hk
      rw [idx_getD a.shape k hk', Res.bind_ok]
      exact concat_split_id_axis a zero _ k hwf (getD_mem_pos _ _ hk' hnz) hk

/-- **`stack` on a new LAST axis (`axis = rank`) is refused** with `AxisOutOfBounds` — by the code and by the model; more
generally any axis that is not inside the rank of some input.  (The new axis can therefore only be created at positions
`0 … rank-1`, `stack_at`; the position after the last axis is not reachable through `stack`.) -/
theorem stack_axis_rank_refused (zero : α) (a0 : Arr α) (rest : List (Arr α)) :
    stack (a0 :: rest) zero (some a0.ndim) = .err .AxisOutOfBounds ∧
    ∀ k, (∃ b ∈ a0 :: rest, b.ndim ≤ k) → stack (a0 :: rest) zero (some k) = .err .AxisOutOfBounds :=
  ⟨stack_axis_refused zero a0.ndim (a0 :: rest) ⟨a0, List.mem_cons_self, Nat.le_refl _⟩,
   fun k h => stack_axis_refused zero k (a0 :: rest) h⟩

/-! ### non-vacuity for section 8 -/

example : (⟨[], [2, 0]⟩ : Arr Nat).WF ∧ 0 ∈ (⟨[], [2, 0]⟩ : Arr Nat).shape := by decide
example : (⟨[], [2, 0]⟩ : Arr Nat).split 0 3 (some 0) = .ok [⟨[], [2, 0]⟩] := by decide
example : (⟨[], [2, 0]⟩ : Arr Nat).arraySplit 0 0 (some 7) = .err .ParameterError := by decide
example : (⟨[], [2, 0]⟩ : Arr Nat).split 0 0 (some 7) = .err .AxisOutOfBounds := by decide
example : (⟨[], [0, 3]⟩ : Arr Nat).arraySplit 0 2 (some 1) = .ok [⟨[], [0, 3]⟩] := by decide
example : (⟨[], [0, 3]⟩ : Arr Nat).hsplit 0 2 = .ok [⟨[], [0, 3]⟩] := by decide
example : (⟨[], [0, 3]⟩ : Arr Nat).dsplit 0 2 = .err .UnsupportedDimension := by decide
example : (⟨[], [2, 0, 3]⟩ : Arr Nat).dsplit 0 2 = .ok [⟨[], [2, 0, 3]⟩] := by decide
example : (⟨[], [2, 0, 3]⟩ : Arr Nat).vsplit 0 0 = .err .ParameterError := by decide
example : (⟨[], [2, 0, 3]⟩ : Arr Nat).splitAxis 0 2 = .ok [⟨[], [2, 0, 3]⟩] := by decide
example : ((⟨[], [2, 0, 3]⟩ : Arr Nat).split 0 5 (some 2) >>= fun ps => concatenate ps 0 (some 2))
    = .ok ⟨[], [2, 0, 3]⟩ := by decide
example : stack [(⟨[1, 2], [2]⟩ : Arr Nat), ⟨[3, 4], [2]⟩] 0 (some 1) = .err .AxisOutOfBounds := by decide
example := split_total (⟨[], [2, 0, 3]⟩ : Arr Nat) 0 4 1 (by decide)
/-- a rank-0 receiver with `axis = None` (formerly outside `split_total`: it reached `shape[0]`) is refused -/
example : (⟨[7], []⟩ : Arr Nat).WF ∧ (⟨[7], []⟩ : Arr Nat).arraySplit 0 1 none = .err .AxisOutOfBounds ∧
    (⟨[7], []⟩ : Arr Nat).split 0 2 none = .err .AxisOutOfBounds ∧
    (⟨[7], []⟩ : Arr Nat).arraySplit 0 0 none = .err .ParameterError := by decide
example := split_rank0_refused (⟨[7], []⟩ : Arr Nat) 0 2 rfl
example := split_total (⟨[7], []⟩ : Arr Nat) 0 2 0 (by decide)

end ArrModel.C11
