import ArrProofs.Lemmas.C18Generic
import ArrProofs.Lemmas.C18Display
import ArrProofs.Lemmas.C18Text
import ArrProofs.Lemmas.C18String
import ArrProofs.Lemmas.C18Fuel
/-!
# C18 — array literals and text forms carry shape and elements faithfully

Property theorems only (helper lemmas: `ArrProofs/Lemmas/C18*.lean`).  Model under test: `ArrModel/C18.lean`
(`arrayGeneric`, `parseShape`, `finish`, `display`/`buildString`, `showTuple2/3`, `showList`, `parseTuple2/3`,
`parseList`), a character-level transcription of `src/macros/{create,helpers}.rs`, `display.rs`, `tuple2.rs`,
`tuple3.rs`, `collection/mod.rs` after the repairs of `/verif/fixes/C18-*.diff`.

`Valid s es` (Lemmas/C18Nest): a regular nested literal of shape `s`, every axis ≥ 1, whose leaves print (Debug)
as `es` in reading order, each leaf text `Plain`: non-empty, free of `[ ] , " #`, not starting with a blank.
`debugVec s es` is the text `format!("{:?}", vec![lit,])` the macro starts from (`nest`: `[` items joined by `", "` `]`,
recursively); that `nest` is the real Debug text is checked by the tie on every compiled literal.
All theorems hold for every rank and every axis length (induction on the nesting depth).
-/
namespace ArrModel.C18
open ArrModel

/-- **literal macro, shape and elements** (`array!(T, <nested brackets>)`, generic arm): the per-depth
replace / count / truncate loop of `array_parse_shape!` returns exactly the written shape, and the element texts come
out in reading order. -/
theorem parseShape_debug (s : List Nat) (es : List Str) (hs : s ≠ []) (h : Valid s es) :
    arrayGeneric (debugVec s es) = .ok (s, es) := by
  rw [debugVec_eq h]
  exact arrayGeneric_mid h _ (Or.inl ⟨rfl, by cases s with | nil => exact absurd rfl hs | cons _ _ => simp⟩)

/-- **`array_parse_shape!` alone**, on the pre-processed text with any number `a` of opening and `b ≥ rank-1` closing
brackets around the middle text (this is the form every typed front end reaches after blanking the elements). -/
theorem parseShape_tight (s : List Nat) (es : List Str) (h : Valid s es) (a b : Nat) (hb : s.length ≤ b + 1) :
    parseShape s.length (rep '[' a ++ mid sepT s es ++ rep ']' b) = .ok s :=
  parseShapeLoop_mid h a b hb

/-- **multi-argument form** `array!(T, x₁, …, xₙ)` (text `[x₁, …, xₙ]`): a flat array of the `n` elements — the same
result as `Array::flat`. -/
theorem literal_args (n : Nat) (es : List Str) (h : Valid [n] es) :
    arrayGeneric (nest [n] es) = .ok ((Arr.flat es).shape, (Arr.flat es).elems) := by
  have := arrayGeneric_mid h 1 (Or.inr ⟨rfl, rfl⟩)
  rw [nest_eq_mid [n] h.pos]
  have hl : es.length = n := by simpa using h.len
  simpa [Arr.flat, hl] using this

/-- **`array_flat!(T, x₁, …, xₙ)`** expands to `array!(T, vec![x₁, …, xₙ])`, whose Debug text is `debugVec [n]`:
shape `[n]`, the elements in order — what `Array::flat` builds. -/
theorem flat_macro (n : Nat) (es : List Str) (h : Valid [n] es) :
    arrayGeneric (debugVec [n] es) = .ok ((Arr.flat es).shape, (Arr.flat es).elems) := by
  have hl : es.length = n := by simpa using h.len
  simpa [Arr.flat, hl] using parseShape_debug [n] es (by simp) h

/-- **the array that is built**: when the element parser inverts the element printer on the written values, the literal
is the array of shape `s` holding those values in reading order (`.parse().unwrap()` never fires, `Array::new`
accepts). -/
theorem literal_array {α} (pr : α → Str) (parse : Str → Option α) (s : List Nat) (vals : List α) (hs : s ≠ [])
    (h : Valid s (vals.map pr)) (hinv : ∀ v ∈ vals, parse (pr v) = some v) :
    finish parse (arrayGeneric (debugVec s (vals.map pr))) = .ok ⟨vals, s⟩ := by
  rw [parseShape_debug s _ hs h]
  have hm : Res.mapM' (fun t => Res.unwrap (parse t)) (vals.map pr) = .ok vals := by
    clear h
    induction vals with
    | nil => rfl
    | cons v r ih =>
      have h1 := hinv v (by simp)
      have h2 := ih (fun w hw => hinv w (by simp [hw]))
      simp only [Res.mapM', List.map_cons, Res.sequence, h1, Res.unwrap] at h2 ⊢
      rw [h2]; rfl
  have hl : s.prod = vals.length := by simpa using h.len.symm
  simp [finish, hm, Arr.new, hl]

/-- **character literals** `array!(char, <nested brackets>)` (repaired `array_char!`, `fixes/C18-char-literal.diff`):
the written shape and the characters in reading order, for every rank.  The characters may be brackets, commas,
blanks, `_`, `#` — anything Debug prints unescaped (not `'`, `\`; `"` is excluded only to keep the statement short). -/
theorem char_literal (s : List Nat) (cs : List Char) (hs : s ≠ []) (hpos : ∀ d ∈ s, 1 ≤ d)
    (hl : cs.length = s.prod) (hc : ∀ c ∈ cs, c ≠ '\'' ∧ c ≠ '\\' ∧ c ≠ '"') :
    arrayChar (debugVec s (cs.map (fun c => ['\'', c, '\'']))) = .ok (s, cs.map (fun c => [c])) :=
  arrayChar_literal s cs hs hpos hl hc

/-- **string literals** `array!(String, <nested brackets>)` (repaired `array_string!`,
`fixes/C18-string-literal.diff`): the written shape and the strings in reading order, for every rank, for all
contents satisfying `StrOk` — no `"`, no `\`, not exactly `", "`, no occurrence of the four characters `], [`;
commas, brackets, blanks and the empty string are carried faithfully. -/
theorem string_literal (s : List Nat) (cs : List Str) (hs : s ≠ []) (hpos : ∀ d ∈ s, 1 ≤ d)
    (hl : cs.length = s.prod) (hc : ∀ c ∈ cs, StrOk c) :
    arrayString (debugVec s (cs.map (wrapQ '"'))) = .ok (s, cs) :=
  arrayString_literal s cs hs hpos hl hc

/-- **plain text form**: `format!("{}", a)` / `format!("{:.p}", a)` of a non-empty array of rank ≥ 1 is the canonical
nesting of its rendered elements: brackets nest according to the shape, elements in reading order
(`pr` is the element printer with the requested precision). -/
theorem display_eq_nest {α} (pr : α → Str) (a : Arr α) (hwf : a.WF) (hs : a.shape ≠ []) (hpos : ∀ d ∈ a.shape, 1 ≤ d) :
    display pr false a = nest a.shape (a.elems.map pr) :=
  buildString_eq_nest pr 1 a.shape a.elems hs hpos hwf

/-- **display nesting, by parsing back**: the literal parser, applied to the plain text form wrapped the way
`vec![…]` wraps a literal, returns the array's shape and its rendered elements in order. -/
theorem display_nesting {α} (pr : α → Str) (a : Arr α) (hwf : a.WF) (hs : a.shape ≠ [])
    (hv : Valid a.shape (a.elems.map pr)) :
    arrayGeneric ('[' :: display pr false a ++ [']']) = .ok (a.shape, a.elems.map pr) := by
  rw [display_eq_nest pr a hwf hs hv.pos]
  have : '[' :: nest a.shape (a.elems.map pr) ++ [']'] = debugVec a.shape (a.elems.map pr) := by
    have ht : (a.elems.map pr).take a.shape.prod = a.elems.map pr := List.take_of_length_le (Nat.le_of_eq hv.len)
    simp only [debugVec, nest, chunks, List.map_cons, List.map_nil, joinWith_single, ht]
  rw [this]
  exact parseShape_debug _ _ hs hv

/-- **one-element arrays** (the arm the pinned tree prints as `[x]` whatever the rank): the repaired `build_string`
prints one bracket pair per axis around the element rendered with the requested precision, in both forms. -/
theorem display_single {α} (pr : α → Str) (alt : Bool) (r : Nat) (x : α) :
    display pr alt ⟨[x], List.replicate (r + 1) 1⟩ = rep '[' (r + 1) ++ pr x ++ rep ']' (r + 1) :=
  buildString_single pr alt 1 r x

/-- the empty array prints as `[]` -/
theorem display_empty {α} (pr : α → Str) (alt : Bool) (shape : List Nat) : display pr alt ⟨[], shape⟩ = ['[', ']'] := by
  unfold display
  match shape with
  | [] => rfl
  | [_] => rfl
  | _ :: _ :: _ => rfl

/-- **pretty form**: `format!("{:#}", a)` differs from the plain form only in blanks and line breaks (any array, any
precision). -/
theorem pretty_eq_plain_mod_ws {α} (pr : α → Str) (a : Arr α) :
    strip (display pr true a) = strip (display pr false a) :=
  strip_buildString pr 1 a.shape a.elems

/-- **pairs survive their text form**: `Tuple2::from_str(Tuple2(x, y).to_string()) = Ok(Tuple2(x, y))` when the component
parsers invert the component printers and the component texts are free of `, ( ) [ ]`. -/
theorem tuple2_roundtrip {α β} (sa : α → Str) (sb : β → Str) (pa : Str → Option α) (pb : Str → Option β) (x : α) (y : β)
    (hx : pa (sa x) = some x) (hy : pb (sb y) = some y) (fx : SepFree (sa x)) (fy : SepFree (sb y)) :
    parseTuple2 pa pb (showTuple2 sa sb (x, y)) = some (x, y) := by
  have hshow : showTuple2 sa sb (x, y) = '(' :: (joinWith [',', ' '] [sa x, sb y] ++ [')']) := by
    simp [showTuple2, joinWith_cons_cons]
  have hf : ∀ t ∈ [sa x, sb y], SepFree t := by
    intro t ht; simp at ht; rcases ht with rfl | rfl <;> assumption
  unfold parseTuple2
  rw [hshow, tupleParts_show _ hf, splitChar_joinWith _ (by simp) (fun t ht => (hf t ht).comma)]
  simp [hx, hy]

/-- **triples survive their text form** -/
theorem tuple3_roundtrip {α β γ} (sa : α → Str) (sb : β → Str) (sc : γ → Str)
    (pa : Str → Option α) (pb : Str → Option β) (pc : Str → Option γ) (x : α) (y : β) (z : γ)
    (hx : pa (sa x) = some x) (hy : pb (sb y) = some y) (hz : pc (sc z) = some z)
    (fx : SepFree (sa x)) (fy : SepFree (sb y)) (fz : SepFree (sc z)) :
    parseTuple3 pa pb pc (showTuple3 sa sb sc (x, y, z)) = some (x, y, z) := by
  have hshow : showTuple3 sa sb sc (x, y, z) = '(' :: (joinWith [',', ' '] [sa x, sb y, sc z] ++ [')']) := by
    simp [showTuple3, joinWith_cons_cons]
  have hf : ∀ t ∈ [sa x, sb y, sc z], SepFree t := by
    intro t ht; simp at ht; rcases ht with rfl | rfl | rfl <;> assumption
  unfold parseTuple3
  rw [hshow, tupleParts_show _ hf, splitChar_joinWith _ (by simp) (fun t ht => (hf t ht).comma)]
  simp [hx, hy, hz]

/-- **lists survive their text form** (repaired `List::from_str`): for every list, the empty one included, whose items
print as non-empty texts free of `, ( ) [ ]` and are recovered by the item parser. -/
theorem list_roundtrip {α} (sa : α → Str) (pa : Str → Option α) (xs : List α)
    (h : ∀ x ∈ xs, pa (sa x) = some x ∧ SepFree (sa x) ∧ sa x ≠ []) :
    parseList pa (showList sa xs) = some xs := by
  have hf : ∀ t ∈ xs.map sa, SepFree t := by
    intro t ht; obtain ⟨x, hx, rfl⟩ := List.mem_map.1 ht; exact (h x hx).2.1
  have hne : ∀ t ∈ xs.map sa, t ≠ [] := by
    intro t ht; obtain ⟨x, hx, rfl⟩ := List.mem_map.1 ht; exact (h x hx).2.2
  have hshow : showList sa xs = '[' :: (joinWith [',', ' '] (xs.map sa) ++ [']']) := by simp [showList]
  unfold parseList
  rw [hshow]
  simp only [parseList_show_body _ hf]
  cases hxs : xs with
  | nil => simp
  | cons x r =>
    have hnn : (joinWith [','] ((x :: r).map sa)).isEmpty = false := by
      cases hj : joinWith [','] ((x :: r).map sa) with
      | nil => have := joinWith_eq_nil hj (hxs ▸ hne); simp at this
      | cons _ _ => rfl
    rw [hnn]
    simp only [Bool.false_eq_true, if_false]
    rw [splitChar_joinWith _ (by simp) (fun t ht => (hxs ▸ hf) t ht |>.comma)]
    exact mapM_option_map sa pa (x :: r) (fun y hy => (h y (hxs ▸ hy)).1)

/-- the pinned `List::from_str` cannot read what `Display` prints: a witness of the defect repaired by
`fixes/C18-list-fromstr.diff` (the item parser here is the identity on texts, as for `List<String>`: the pinned code
returns the items `"[1"`, `"2]"`; for `List<i32>` it returns an error). -/
theorem list_pinned_witness :
    parseListPinned (fun t => some t) (showList (fun t : Str => t) [['1'], ['2']]) = some [['[', '1'], ['2', ']']]
    ∧ parseList (fun t => some t) (showList (fun t : Str => t) [['1'], ['2']]) = some [['1'], ['2']] := by
  decide


/-! ## the typed front ends `array_tuple!` / `array_list!` (their loops as written, `helpers.rs:31-106`) -/

/-- **tuple literals** `array!(Tuple2<…>, <nested brackets>)` / `array!(Tuple3<…>, …)` (`array_tuple!` run on
`format!("{:?}", vec![vec![lit]])`, whose leaves are the Debug texts `(c₁, c₂[, c₃])`): for every rank and every axis
length the macro's shape is the written shape and the parenthesised pieces come out in reading order, each with its
quotes removed and `", "` between two quoted components tightened to `","` (what `array_parse_input!` does; `from_str`
accepts both).  Excluded (`TupOk`): bodies containing `)` or `\`, or — after the quote rewrite — the four characters
`], [`.  An opening parenthesis inside a body is carried. -/
theorem tuple_literal (s : List Nat) (bs : List Str) (hs : s ≠ []) (hpos : ∀ d ∈ s, 1 ≤ d)
    (hl : bs.length = s.prod) (hc : ∀ b ∈ bs, TupOk b) :
    arrayTuple (debugVec (1 :: s) (bs.map wrapP)) = .ok (s, bs.map (fun b => remove '"' (wrapP (quoteTight b)))) :=
  arrayTuple_literal s bs hs hpos hl hc

/-- … and when no component is quoted (numbers, booleans, characters other than `"`), the pieces are carried unchanged -/
theorem tuple_literal_plain (s : List Nat) (bs : List Str) (hs : s ≠ []) (hpos : ∀ d ∈ s, 1 ≤ d)
    (hl : bs.length = s.prod) (hc : ∀ b ∈ bs, ')' ∉ b ∧ '\\' ∉ b ∧ ']' ∉ b ∧ '"' ∉ b) :
    arrayTuple (debugVec (1 :: s) (bs.map wrapP)) = .ok (s, bs.map wrapP) := by
  have hq : ∀ b ∈ bs, quoteTight b = b := fun b hb =>
    replace_of_not_mem (p := quoteSepL) (c := '"') (by decide) (hc b hb).2.2.2
  rw [tuple_literal s bs hs hpos hl (fun b hb => ⟨(hc b hb).1, (hc b hb).2.1, noBr_of_not_mem (hc b hb).2.2.1⟩)]
  congr 2
  apply List.map_congr_left
  intro b hb
  rw [hq b hb]
  exact remove_of_not_mem (by simp [wrapP, (hc b hb).2.2.2])

/-- **the array of pairs that is built** (components intact): for pairs whose components print without
`, ( ) [ ] " \` and are recovered by the component parsers, `array!(Tuple2<A, B>, lit)` is the array of shape `s`
holding the written pairs in reading order (`Tuple2::from_str` on each piece, then `Array::new`). -/
theorem tuple2_literal_array {α β} (sa : α → Str) (sb : β → Str) (pa : Str → Option α) (pb : Str → Option β)
    (s : List Nat) (vals : List (α × β)) (hs : s ≠ []) (hpos : ∀ d ∈ s, 1 ≤ d) (hl : vals.length = s.prod)
    (h : ∀ v ∈ vals, pa (sa v.1) = some v.1 ∧ pb (sb v.2) = some v.2 ∧ SepFree (sa v.1) ∧ SepFree (sb v.2) ∧
      (∀ c ∈ sa v.1 ++ sb v.2, c ≠ '"' ∧ c ≠ '\\')) :
    finish (parseTuple2 pa pb) (arrayTuple (debugVec (1 :: s) (vals.map (showTuple2 sa sb)))) = .ok ⟨vals, s⟩ := by
  have hshow : vals.map (showTuple2 sa sb) = (vals.map (fun v => sa v.1 ++ [',', ' '] ++ sb v.2)).map wrapP := by
    rw [List.map_map]; apply List.map_congr_left; intro v _; simp [showTuple2, wrapP, List.append_assoc]
  have hbody : ∀ b ∈ vals.map (fun v => sa v.1 ++ [',', ' '] ++ sb v.2), ')' ∉ b ∧ '\\' ∉ b ∧ ']' ∉ b ∧ '"' ∉ b := by
    intro b hb
    obtain ⟨v, hv, rfl⟩ := List.mem_map.1 hb
    obtain ⟨_, _, f1, f2, hq⟩ := h v hv
    have key : ∀ c, c ∈ sa v.1 ++ [',', ' '] ++ sb v.2 → c ≠ ')' ∧ c ≠ '\\' ∧ c ≠ ']' ∧ c ≠ '"' := by
      intro c hc
      simp only [List.mem_append, List.mem_cons, List.not_mem_nil, or_false] at hc
      rcases hc with (hc | hc | hc) | hc
      · exact ⟨(f1 c hc).2.2.1, (hq c (by simp [hc])).2, (f1 c hc).2.2.2.2, (hq c (by simp [hc])).1⟩
      · subst hc; decide
      · subst hc; decide
      · exact ⟨(f2 c hc).2.2.1, (hq c (by simp [hc])).2, (f2 c hc).2.2.2.2, (hq c (by simp [hc])).1⟩
    exact ⟨fun hm => (key _ hm).1 rfl, fun hm => (key _ hm).2.1 rfl, fun hm => (key _ hm).2.2.1 rfl,
      fun hm => (key _ hm).2.2.2 rfl⟩
  rw [hshow, tuple_literal_plain s _ hs hpos (by simpa using hl) hbody, ← hshow]
  have hm : Res.mapM' (fun t => Res.unwrap (parseTuple2 pa pb t)) (vals.map (showTuple2 sa sb)) = .ok vals := by
    clear hshow hbody hl
    induction vals with
    | nil => rfl
    | cons v r ih =>
      obtain ⟨h1, h2, f1, f2, _⟩ := h v (by simp)
      have hv : parseTuple2 pa pb (showTuple2 sa sb v) = some v := tuple2_roundtrip sa sb pa pb v.1 v.2 h1 h2 f1 f2
      have h2 := ih (fun w hw => h w (by simp [hw]))
      simp only [Res.mapM', List.map_cons, Res.sequence, hv, Res.unwrap] at h2 ⊢
      rw [h2]; rfl
  simp [finish, hm, Arr.new, hl]

/-- **list literals** `array!(List<T>, <nested brackets>)` (`array_list!` run on `format!("{:?}", vec![lit])`, whose
leaves are the Debug texts `[i₁, i₂, …]`, the empty list included): for every rank and every axis length the macro's shape
is the written shape — the marking pass writes `&[` exactly in front of the lists — and the list bodies come out in
reading order without their brackets, quotes removed, `", "` between two quoted items tightened to `","`.
Excluded (`ListOk`): bodies containing `[`, `]` or `\`.  An `&` or `_` inside a body is carried. -/
theorem list_literal (s : List Nat) (bs : List Str) (hs : s ≠ []) (hpos : ∀ d ∈ s, 1 ≤ d)
    (hl : bs.length = s.prod) (hc : ∀ b ∈ bs, ListOk b) :
    arrayList (debugVec s (bs.map wrapB)) = .ok (s, bs.map (fun b => remove '"' (quoteTight b))) :=
  arrayList_literal s bs hs hpos hl hc

/-- … and when no item is quoted, the bodies are carried unchanged -/
theorem list_literal_plain (s : List Nat) (bs : List Str) (hs : s ≠ []) (hpos : ∀ d ∈ s, 1 ≤ d)
    (hl : bs.length = s.prod) (hc : ∀ b ∈ bs, ListOk b ∧ '"' ∉ b) :
    arrayList (debugVec s (bs.map wrapB)) = .ok (s, bs) := by
  rw [list_literal s bs hs hpos hl (fun b hb => (hc b hb).1)]
  congr 2
  conv => rhs; rw [← List.map_id bs]
  apply List.map_congr_left
  intro b hb
  have : quoteTight b = b := replace_of_not_mem (p := quoteSepL) (c := '"') (by decide) (hc b hb).2
  rw [this]
  exact remove_of_not_mem (hc b hb).2

/-- **the `array_tuple!` loop ends on every text**: with `n` opening parentheses in the text, `n + 1` iterations are all
the loop can use (an iteration removes the first `(`, or panics, or is the single no-progress iteration of
`tuple_adjacent_no_progress`, which is followed by a panic); more fuel never changes the outcome. -/
theorem tuple_loop_ends (n : Nat) (text : Str) (acc : List Str) (k : Nat) (h : text.count '(' ≤ n) :
    cutTuples (n + 1 + k) text acc = cutTuples (n + 1) text acc :=
  cutTuples_fuel n text acc k h

/-- the fuel `text.length + 1` that `arrayTuple` / `arrayList` give their loops is never what decides the answer: the
model's `panic` never stands for a loop that would go on -/
theorem typed_loops_fuel_suffices (text : Str) (acc : List Str) (k : Nat) :
    cutTuples (text.length + 1 + k) text acc = cutTuples (text.length + 1) text acc
    ∧ cutLists (text.length + 1 + k) text acc = cutLists (text.length + 1) text acc :=
  ⟨cutTuples_fuel_text text acc k, cutLists_fuel_text text acc k⟩

/-- **the `array_list!` cut-out loop ends on every text** within `count('&') + 1` iterations -/
theorem list_loop_ends (n : Nat) (text : Str) (acc : List Str) (k : Nat) (h : text.count '&' ≤ n) :
    cutLists (n + 1 + k) text acc = cutLists (n + 1) text acc :=
  cutLists_fuel n text acc k h

/-- **the one iteration of `array_tuple!` that makes no progress**: when the first `)` of the text stands directly
before its first `(`, `start..=end` is the empty range at `start` — an empty piece is pushed, a `_` is inserted, nothing is
removed (the text grows by one character and still holds the same `(`). -/
theorem tuple_adjacent_no_progress (A Z : Str) (acc : List Str) (fuel : Nat) (hA : '(' ∉ A ∧ ')' ∉ A) :
    cutTuples (fuel + 1) (A ++ ')' :: '(' :: Z) acc = cutTuples fuel (A ++ ')' :: '_' :: '(' :: Z) ([] :: acc) :=
  cutTuples_adjacent_step A Z acc fuel hA

/-- … but the loop does not run on: the next iteration has `start = end + 2` and its slice panics.  On every text whose
first `)` comes before its first `(` — directly or not — `array_tuple!` panics, with any amount of fuel. -/
theorem tuple_adjacent_parens (A G Z : Str) (acc : List Str) (hA : '(' ∉ A ∧ ')' ∉ A) (hG : '(' ∉ G) (fuel : Nat) :
    cutTuples fuel (A ++ ')' :: (G ++ '(' :: Z)) acc = .panic := by
  cases G with
  | nil => exact cutTuples_adjacent A Z acc hA fuel
  | cons x G => exact cutTuples_close_first A (x :: G) Z acc hA hG (by simp) fuel

/-- the exclusions of `tuple_literal` / `list_literal` are necessary (each line: a literal whose one offending item
changes the outcome): a component `")"`; a component holding backslash-n; a component holding `], [`; a list item that
is itself a list; a list item `"a]"`; a list item holding backslash-n. -/
theorem typed_literal_exclusions_needed :
    arrayTuple "[[[(\")\", 1), (\"b\", 2)]]]".toList = .panic
    ∧ arrayTuple "[[[(\"a\\\\nb\", 1)]]]".toList = .ok ([1], ["(a\\\nb, 1)".toList])
    ∧ arrayTuple "[[[(\"x], [y\", 1), (\"b\", 2)]]]".toList = .ok ([2], ["(x],[y, 1)".toList, "(b, 2)".toList])
    ∧ arrayList "[[[[1], 2], [3]]]".toList = .ok ([2, 2], ["1".toList])
    ∧ arrayList "[[[\"a]\", \"b\"], [\"c\"]]]".toList = .panic
    ∧ arrayList "[[[\"a\\\\nb\"], [\"c\"]]]".toList = .ok ([2], ["a\\\nb".toList, "c".toList]) :=
  ⟨by decide, by decide, by decide, by decide, by decide, by decide⟩

/-! ## non-vacuity -/

section examples
private def d (n : Nat) : Str := (toString n).toList

/-- a rank-3 literal with a unit axis in the middle satisfies `Valid` -/
example : Valid [2, 1, 2] [['1'], ['-', '2'], ['3', '.', '5'], ['t', 'r', 'u', 'e']] :=
  ⟨by decide, by decide, by
    intro e he
    simp only [List.mem_cons, List.not_mem_nil, or_false] at he
    rcases he with rfl | rfl | rfl | rfl <;> exact ⟨by decide, by decide, by decide⟩⟩

example : debugVec [2, 1, 2] [['1'], ['-', '2'], ['3', '.', '5'], ['t', 'r', 'u', 'e']]
    = "[[[[1, -2]], [[3.5, true]]]]".toList := by decide

example : arrayGeneric "[[[[1, -2]], [[3.5, true]]]]".toList
    = .ok ([2, 1, 2], [['1'], ['-', '2'], ['3', '.', '5'], ['t', 'r', 'u', 'e']]) := by decide

/-- the hypotheses matter: a comma inside an element text changes the shape the generic arm computes -/
example : arrayGeneric (debugVec [2] [['a', ',', 'b'], ['c']]) = .ok ([3], [['a'], ['b'], ['c']]) := by decide

example : display (fun (n : Nat) => [Char.ofNat (48 + n)]) true ⟨[1, 2, 3, 4], [2, 2]⟩ = "[[1, 2],\n [3, 4]]".toList := by
  decide

/-- a string with a comma, a bracket and a blank is carried (`StrOk`), and the model run on the literal confirms it -/
example : StrOk ['a', ',', ' ', 'b', ']'] :=
  ⟨by decide, by decide, by decide, by
    intro k
    match k with
    | 0 | 1 | 2 | 3 | 4 => decide
    | k + 5 => simp [brSepL]⟩

example : arrayString "[[[\"a, b]\", \"\"], [\"[\", \",\"]]]".toList
    = .ok ([2, 2], ["a, b]".toList, [], ['['], [',']]) := by decide

example : arrayChar "[[[',', ' '], ['[', ']']]]".toList = .ok ([2, 2], [[','], [' '], ['['], [']']]) := by decide

example : SepFree ['-', '2', '.', '5'] := by
  intro c hc; simp only [List.mem_cons, List.not_mem_nil, or_false] at hc
  rcases hc with rfl | rfl | rfl | rfl <;> decide
example : parseTuple2 (fun t => some t) (fun t => some t) "(1, 2.5)".toList = some ("1".toList, "2.5".toList) := by decide

/-- tuple and list literals: the hypotheses are satisfiable and the model run on the literal confirms the statements
(quoted components with a blank, a comma-free `(`, an `&`, the empty list) -/
example : TupOk "\"a b\", \"(\"".toList :=
  ⟨by decide, by decide, noBr_of_not_mem (by decide)⟩
example : arrayTuple (debugVec [1, 2] ["(1, 2.5)".toList, "(\"a b\", \"(\")".toList])
    = .ok ([2], ["(1, 2.5)".toList, "(a b,()".toList]) := by decide
example : ListOk "\"a&\", \"_\"".toList := ⟨by decide, by decide, by decide⟩
example : arrayList (debugVec [2, 1] ["[1, 2]".toList, "[]".toList]) = .ok ([2, 1], ["1, 2".toList, []]) := by decide
example : arrayList "[[[\"a&\", \"b\"], [\"&c\"]]]".toList = .ok ([2], ["a&,b".toList, "&c".toList]) := by decide
/-- `)(`: one no-progress iteration, then a panic — never a result, never an endless loop -/
example : cutTuples 100 "[[[x)(1, 2)]]]".toList [] = .panic := by decide
end examples

end ArrModel.C18
