import ArrModel.C18
namespace ArrModel.C18
theorem placeholder_c18 : nest [] [] = [] := rfl
end ArrModel.C18
