import ArrProofs.Lemmas.C08Reduce
import ArrProofs.Lemmas.C08Empty
import ArrProofs.Lemmas.C08Kernels
/-!
# C08 — axis-wise reductions and scans equal the 1-D operation on every lane

Model under test: `ArrModel/AlongAxis.lean` (`applyAlongAxis` = `apply_along_axis`, `axis.rs:163-184`: move the axis
last, ravel, `split` into lanes, apply the 1-D body, flatten, reshape, move the axis back with the `axis == 0` arm),
`ArrModel/Split.lean`, `ArrModel/Axis.lean`, and the per-operation wrappers of `ArrModel/C08.lean`
(`reduceAxis` for sum/prod/max/min and the NaN forms, `countAxis` for count_nonzero/argmax/argmin with `keepdims`,
`scanAxis` for cumsum/cumprod and the NaN forms).  The 1-D body `f1` is an arbitrary parameter; the only hypothesis is
the length of its output on a lane (one element for reductions, the lane length for scans).

`laneOf a axis c` = the elements of `a` at `c` with coordinate `axis` replaced by `0, 1, …` (`laneOf_getElem?`,
`laneOf_length`).  The lane statements hold for every rank, every axis, every axis length ≥ 1 (`0 ∉ a.shape`); the last
section says what the model does on arrays WITH a zero-length axis (`along_axis_empty_axis`, `reduce_empty_axis`, …) and
gives the statements that hold for every well-formed array (`along_axis_total`, `axis_ops_never_panic`).
-/
namespace ArrModel.C08
open ArrModel Arr
variable {α β : Type}

/-- **the lane theorem** (central lemma, all axes of all ranks): `apply_along_axis` with a lane function producing
`m` elements per lane gives shape `shape[axis := m]`, and the element at `c` is element `c[axis]` of the lane function
applied to the lane through `c`. -/
theorem along_axis_spec (a : Arr α) (zero : α) (zb : β) (axis m : Nat) (f : Arr α → Res (Arr β))
    (hwf : a.WF) (hax : axis < a.ndim) (hnz : 0 ∉ a.shape)
    (hf : ∀ lane : List α, lane.length = a.shape.getD axis 0 → ∃ r, f (Arr.flat lane) = .ok r ∧ r.elems.length = m) :
    ∃ r, a.applyAlongAxis zero zb axis f = .ok r ∧ r.shape = a.shape.set axis m ∧ r.WF ∧
      ∀ c, inRange r.shape c = true →
        (laneOf a axis c).length = a.shape.getD axis 0 ∧
        (∀ j, j < a.shape.getD axis 0 → (laneOf a axis c)[j]? = a.get? (c.set axis j)) ∧
        ∃ y, f (Arr.flat (laneOf a axis c)) = .ok y ∧ r.get? c = y.elems[c.getD axis 0]? := by
  obtain ⟨r, h1, h2, h3, h4⟩ := applyAlongAxis_spec a zero zb axis m f hwf hax hnz hf
  refine ⟨r, h1, h2, h3, ?_⟩
  intro c hc
  have hc' : inRange (a.shape.set axis m) c = true := by rw [← h2]; exact hc
  exact ⟨laneOf_length a axis m c hwf hc', fun j hj => laneOf_getElem? a axis m c hwf hc' j hj, h4 c hc⟩

/-- **reductions** (sum, prod, max, min, nan-forms): the result shape is the input shape without the axis
(`[1]` when the input has rank 1), and the value at every position `c` of the remaining axes is the single element the
1-D operation returns on the lane through that position. -/
theorem reduce_spec (a : Arr α) (zero : α) (zb : β) (ax : Int) (f1 : Arr α → Res (Arr β))
    (hwf : a.WF) (hnz : 0 ∉ a.shape) (hax : normalizeAxis a.ndim ax < a.ndim)
    (hf : ∀ lane : List α, lane.length = a.shape.getD (normalizeAxis a.ndim ax) 0 →
      ∃ y, f1 (Arr.flat lane) = .ok y ∧ y.elems.length = 1) :
    ∃ r, a.reduceAxis zero zb (some ax) f1 = .ok r ∧
      r.shape = (if a.ndim > 1 then a.shape.eraseIdx (normalizeAxis a.ndim ax) else [1]) ∧ r.WF ∧
      ∀ c, inRange (a.shape.eraseIdx (normalizeAxis a.ndim ax)) c = true →
        ∃ y v, f1 (Arr.flat (laneOf a (normalizeAxis a.ndim ax) (c.insertIdx (normalizeAxis a.ndim ax) 0))) = .ok y ∧
          y.elems = [v] ∧ r.get? (if a.ndim > 1 then c else [0]) = some v := by
  generalize haxis : normalizeAxis a.ndim ax = axis at *
  have hax' : axis < a.shape.length := hax
  obtain ⟨r, h1, h2, h3, h4, h5⟩ := applyAlongAxis_single a zero zb axis f1 hwf hax hnz hf
  have hrnd : r.ndim = a.ndim := by simp [Arr.ndim, h2]
  by_cases hnd : a.ndim > 1
  · refine ⟨⟨r.elems, a.shape.eraseIdx axis⟩, ?_, by simp [hnd], h4, ?_⟩
    · simp only [Arr.reduceAxis, haxis, h1, Res.bind_ok, hrnd, hnd, if_true, vecRemove, h2, List.length_set,
        List.eraseIdx_set_eq, Arr.reshape, Arr.new, h4]
      rw [if_neg (by omega)]; simp
    · intro c hc
      obtain ⟨y, v, e1, e2, e3, _⟩ := h5 c hc
      exact ⟨y, v, e1, e2, by simpa [hnd, Arr.get?] using e3⟩
  · have h1d : a.ndim = 1 := by omega
    have h0 : axis = 0 := by omega
    obtain ⟨n, hn⟩ : ∃ n, a.shape = [n] := List.length_eq_one_iff.1 h1d
    have hrs : r.shape = [1] := by rw [h2, hn, h0]; rfl
    refine ⟨r, ?_, by simp [hnd, hrs], h3, ?_⟩
    · simp only [Arr.reduceAxis, haxis, h1, Res.bind_ok, hrnd, hnd, if_false, Arr.reshape, Arr.new]
      rw [if_pos h3.symm]
    · intro c hc
      obtain ⟨y, v, e1, e2, e3, _⟩ := h5 c hc
      refine ⟨y, v, e1, e2, ?_⟩
      have hc0 : c = [] := by
        rw [hn, h0] at hc
        have := inRange_length _ _ hc; simpa using this
      subst hc0
      rw [hn, h0] at e3
      simpa [hnd, Arr.get?, hrs, ravel] using e3

/-- **count / position queries** (count_nonzero, argmax, argmin): with `keepdims = Some(true)` the axis is kept
with length 1, otherwise it is removed; the value at every position of the remaining axes is the single element the
1-D query returns on the lane through that position. -/
theorem count_spec (a : Arr α) (zero : α) (zb : β) (ax : Int) (kd : Option Bool) (f1 : Arr α → Option Bool → Res (Arr β))
    (hwf : a.WF) (hnz : 0 ∉ a.shape) (hax : normalizeAxis a.ndim ax < a.ndim)
    (hf : ∀ lane : List α, lane.length = a.shape.getD (normalizeAxis a.ndim ax) 0 →
      ∃ y, f1 (Arr.flat lane) kd = .ok y ∧ y.elems.length = 1) :
    ∃ r, a.countAxis zero zb (some ax) kd f1 = .ok r ∧
      r.shape = (if kd = some true then a.shape.set (normalizeAxis a.ndim ax) 1 else a.shape.eraseIdx (normalizeAxis a.ndim ax)) ∧
      r.WF ∧
      ∀ c, inRange (a.shape.eraseIdx (normalizeAxis a.ndim ax)) c = true →
        ∃ y v, f1 (Arr.flat (laneOf a (normalizeAxis a.ndim ax) (c.insertIdx (normalizeAxis a.ndim ax) 0))) kd = .ok y ∧
          y.elems = [v] ∧ r.get? (if kd = some true then c.insertIdx (normalizeAxis a.ndim ax) 0 else c) = some v := by
  generalize haxis : normalizeAxis a.ndim ax = axis at *
  have hax' : axis < a.shape.length := hax
  obtain ⟨r, h1, h2, h3, h4, h5⟩ := applyAlongAxis_single a zero zb axis (fun arr => f1 arr kd) hwf hax hnz hf
  by_cases hkd : kd = some true
  · subst hkd
    refine ⟨r, ?_, by simp [h2], h3, ?_⟩
    · simp only [Arr.countAxis, haxis, h1, Res.bind_ok, if_true]
    · intro c hc
      obtain ⟨y, v, e1, e2, _, e4⟩ := h5 c hc
      exact ⟨y, v, e1, e2, by simpa using e4⟩
  · refine ⟨⟨r.elems, a.shape.eraseIdx axis⟩, ?_, by simp [hkd], h4, ?_⟩
    · simp only [Arr.countAxis, haxis, h1, Res.bind_ok, hkd, if_false, vecRemove, Arr.reshape, Arr.new, h4]
      rw [if_neg (by omega)]; simp
    · intro c hc
      obtain ⟨y, v, e1, e2, e3, _⟩ := h5 c hc
      exact ⟨y, v, e1, e2, by simpa [hkd, Arr.get?] using e3⟩

/-- **scans** (cumsum, cumprod, nan-forms): the shape is kept and every lane is replaced by the output of the 1-D
scan on that lane. -/
theorem scan_spec (a : Arr α) (zero : α) (zb : β) (ax : Int) (f1 : Arr α → Res (Arr β))
    (hwf : a.WF) (hnz : 0 ∉ a.shape) (hax : normalizeAxis a.ndim ax < a.ndim)
    (hf : ∀ lane : List α, lane.length = a.shape.getD (normalizeAxis a.ndim ax) 0 →
      ∃ y, f1 (Arr.flat lane) = .ok y ∧ y.elems.length = lane.length) :
    ∃ r, a.scanAxis zero zb (some ax) f1 = .ok r ∧ r.shape = a.shape ∧ r.WF ∧
      ∀ c, inRange a.shape c = true →
        ∃ y v, f1 (Arr.flat (laneOf a (normalizeAxis a.ndim ax) c)) = .ok y ∧
          y.elems[c.getD (normalizeAxis a.ndim ax) 0]? = some v ∧ r.get? c = some v := by
  generalize haxis : normalizeAxis a.ndim ax = axis at *
  obtain ⟨r, h1, h2, h3, h4⟩ := applyAlongAxis_spec a zero zb axis (a.shape.getD axis 0) f1 hwf hax hnz
    (fun lane hl => by obtain ⟨y, e1, e2⟩ := hf lane hl; exact ⟨y, e1, e2.trans hl⟩)
  rw [set_getD_self] at h2
  refine ⟨r, by simpa [Arr.scanAxis, haxis] using h1, h2, h3, ?_⟩
  intro c hc
  obtain ⟨y, e1, e2⟩ := h4 c (by rw [h2]; exact hc)
  have hc' : inRange (a.shape.set axis (a.shape.getD axis 0)) c = true := by rw [set_getD_self]; exact hc
  have hl := laneOf_length a axis _ c hwf hc'
  obtain ⟨y', e3, e4⟩ := hf _ hl
  rw [e1] at e3; cases e3
  have hj : c.getD axis 0 < y.elems.length := by
    rw [e4, hl]; exact inRange_getD_lt _ _ _ hc hax
  exact ⟨y, y.elems[c.getD axis 0], e1, List.getElem?_eq_getElem hj, by rw [e2, List.getElem?_eq_getElem hj]⟩

/-- **a negative axis denotes the same axis counted from the end** -/
theorem normalize_neg_axis (nd k : Nat) (hk : k < nd) : normalizeAxis nd ((k : Int) - (nd : Int)) = k := by
  have := C06.normalize_neg nd ((k : Int) - (nd : Int)) (by omega) (by omega)
  omega

theorem neg_axis_reduce (a : Arr α) (zero : α) (zb : β) (k : Nat) (hk : k < a.ndim) (f1 : Arr α → Res (Arr β)) :
    a.reduceAxis zero zb (some ((k : Int) - (a.ndim : Int))) f1 = a.reduceAxis zero zb (some (k : Int)) f1 := by
  have e : normalizeAxis a.ndim (k : Int) = k := normalizeAxis_ofNat _ _
  simp only [Arr.reduceAxis, normalize_neg_axis a.ndim k hk, e]

theorem neg_axis_count (a : Arr α) (zero : α) (zb : β) (k : Nat) (hk : k < a.ndim) (kd : Option Bool)
    (f1 : Arr α → Option Bool → Res (Arr β)) :
    a.countAxis zero zb (some ((k : Int) - (a.ndim : Int))) kd f1 = a.countAxis zero zb (some (k : Int)) kd f1 := by
  have e : normalizeAxis a.ndim (k : Int) = k := normalizeAxis_ofNat _ _
  simp only [Arr.countAxis, normalize_neg_axis a.ndim k hk, e]

theorem neg_axis_scan (a : Arr α) (zero : α) (zb : β) (k : Nat) (hk : k < a.ndim) (f1 : Arr α → Res (Arr β)) :
    a.scanAxis zero zb (some ((k : Int) - (a.ndim : Int))) f1 = a.scanAxis zero zb (some (k : Int)) f1 := by
  have e : normalizeAxis a.ndim (k : Int) = k := normalizeAxis_ofNat _ _
  simp only [Arr.scanAxis, normalize_neg_axis a.ndim k hk, e]

/-- **with no axis the operation acts on the flattened array**: a reduction is the 1-D body on the array itself (the
1-D bodies fold over `elements` only), a scan is the 1-D body on `ravel`.  (These two arms are the definitions of the
wrappers; that the real code takes them is established by the differential tie.) -/
theorem none_axis (a : Arr α) (zero : α) (zb : β) (f1 : Arr α → Res (Arr β)) (kd : Option Bool)
    (g1 : Arr α → Option Bool → Res (Arr β)) :
    a.reduceAxis zero zb none f1 = f1 a ∧ a.countAxis zero zb none kd g1 = g1 a kd ∧
    a.scanAxis zero zb none f1 = f1 (Arr.flat a.elems) := ⟨rfl, rfl, rfl⟩

/-- every axis number outside `-rank .. rank-1` (inside the `isize` range) normalises to something `≥ rank` … -/
theorem normalize_out_of_range (nd : Nat) (ax : Int) (hnd : nd < 2 ^ 63) (hlo : -(2 ^ 63 : Int) ≤ ax)
    (h : ax ≥ nd ∨ ax < -(nd : Int)) : normalizeAxis nd ax ≥ nd := by
  unfold normalizeAxis USIZE
  rcases h with h | h
  · rw [if_neg (by omega)]; omega
  · rw [if_pos (by omega)]
    simp only
    rw [if_pos (by omega)]
    omega

/-- … and **an out-of-range axis is refused with an error** by all three families (never a panic, never data) -/
theorem axis_out_of_range (a : Arr α) (zero : α) (zb : β) (ax : Int) (h : normalizeAxis a.ndim ax ≥ a.ndim)
    (f1 : Arr α → Res (Arr β)) (kd : Option Bool) (g1 : Arr α → Option Bool → Res (Arr β)) :
    a.reduceAxis zero zb (some ax) f1 = .err .AxisOutOfBounds ∧
    a.countAxis zero zb (some ax) kd g1 = .err .AxisOutOfBounds ∧
    a.scanAxis zero zb (some ax) f1 = .err .AxisOutOfBounds := by
  simp only [Arr.reduceAxis, Arr.countAxis, Arr.scanAxis, applyAlongAxis_axis_err _ _ _ _ _ h, Res.bind_err, and_self]

/-! ### non-vacuity: a `[2,3,2,2]` array, axis 1 (a middle axis of a rank-4 array — the case the pinned tree got wrong) -/
example : sample.WF ∧ 0 ∉ sample.shape ∧ normalizeAxis sample.ndim 1 < sample.ndim ∧ normalizeAxis sample.ndim (-3) = 1 := by decide
-- the hypotheses on the 1-D bodies are satisfiable (sum returns one element, cumsum as many as the lane has)
example : ∀ lane : List Nat, ∃ y, sumBody (Arr.flat lane) = .ok y ∧ y.elems.length = 1 := fun _ => ⟨_, rfl, rfl⟩
example : ∀ lane : List Nat, ∃ y, cumsumBody (Arr.flat lane) = .ok y ∧ y.elems.length = lane.length :=
  fun _ => ⟨_, rfl, by simp [Arr.flat]⟩
example : ∀ (lane : List Nat) kd, ∃ y, countBody (Arr.flat lane) kd = .ok y ∧ y.elems.length = 1 := by
  intro lane kd
  refine ⟨Arr.single ((Arr.flat lane).elems.filter (· != 0)).length, ?_, rfl⟩
  by_cases h : kd = some true
  · simp [countBody, keepdimsTail, h, Arr.flat, Arr.ndim, Arr.atleast, Arr.atleast1d]
  · simp [countBody, keepdimsTail, h]
-- so the theorems apply to the sample:
example := reduce_spec sample 0 0 1 sumBody (by decide) (by decide) (by decide) (fun _ _ => ⟨_, rfl, rfl⟩)
example := scan_spec sample 0 0 (-3) cumsumBody (by decide) (by decide) (by decide) (fun _ _ => ⟨_, rfl, by simp [Arr.flat]⟩)
-- and what they describe, computed by the model:
example : laneOf sample 1 [1, 0, 1, 0] = [14, 18, 22] := by decide +kernel
example : sample.reduceAxis 0 0 (some 1) sumBody = .ok ⟨[12, 15, 18, 21, 48, 51, 54, 57], [2, 2, 2]⟩ := by decide +kernel
example : sample.reduceAxis 0 0 (some (-3)) sumBody = sample.reduceAxis 0 0 (some 1) sumBody := by decide +kernel
example : sample.scanAxis 0 0 (some 1) cumsumBody =
    .ok ⟨[0, 1, 2, 3, 4, 6, 8, 10, 12, 15, 18, 21, 12, 13, 14, 15, 28, 30, 32, 34, 48, 51, 54, 57], [2, 3, 2, 2]⟩ := by decide +kernel
example : sample.countAxis 0 0 (some 1) (some true) countBody = .ok ⟨[2, 3, 3, 3, 3, 3, 3, 3], [2, 1, 2, 2]⟩ := by decide +kernel
example : sample.countAxis 0 0 (some 1) none countBody = .ok ⟨[2, 3, 3, 3, 3, 3, 3, 3], [2, 2, 2]⟩ := by decide +kernel
example : (⟨[5, 6, 7], [3]⟩ : Arr Nat).reduceAxis 0 0 (some 0) sumBody = .ok ⟨[18], [1]⟩ := by decide +kernel
example : sample.reduceAxis 0 0 (some 4) sumBody = .err .AxisOutOfBounds ∧
    sample.reduceAxis 0 0 (some (-5)) sumBody = .err .AxisOutOfBounds := by decide +kernel

/-! ### arrays with a zero-length axis, and the total statements (extension; proofs in `Lemmas/C08Empty.lean`)

The theorems above assume `0 ∉ a.shape`.  What follows says what the MODEL does on every well-formed array that HAS a
zero-length axis (such an array has no elements), for every rank and every axis, and closes with statements that hold for
EVERY well-formed array.  `rest = a.shape.eraseIdx axis` are the other axes.
* another axis is empty (`0 ∈ rest`): `parts = rest.prod = 0`, `split(0, None)` refuses: `Err(ParameterError)`;
* only the processed axis is empty: `parts > 0`, the moved array is empty, `split` returns the single empty piece, the
  1-D body is applied ONCE to the empty lane `Arr.flat []`; its answer `y` is reshaped to `rest ++ [y.len]`, which fits
  exactly when `rest.prod = 1 ∨ y.len = 0`; an error of the body on the empty lane (max / min / argmax / argmin) is passed on.
That the real crate does the same on these arrays is established by the zero-length stream of the differential tie. -/

/-- **another axis has length 0**: `apply_along_axis` answers `Err(ParameterError)` whatever the lane function -/
theorem along_axis_other_axis_empty (a : Arr α) (zero : α) (zb : β) (axis : Nat) (f : Arr α → Res (Arr β))
    (hwf : a.WF) (hax : axis < a.ndim) (h0 : 0 ∈ a.shape.eraseIdx axis) :
    a.applyAlongAxis zero zb axis f = .err .ParameterError :=
  applyAlongAxis_other_zero a zero zb axis f hwf hax h0

/-- **only the processed axis has length 0**: the complete outcome in terms of `f (Arr.flat [])` -/
theorem along_axis_empty_axis (a : Arr α) (zero : α) (zb : β) (axis : Nat) (f : Arr α → Res (Arr β))
    (hwf : a.WF) (hax : axis < a.ndim) (hrest : 0 ∉ a.shape.eraseIdx axis) (hn : a.shape.getD axis 0 = 0) :
    a.applyAlongAxis zero zb axis f = f (Arr.flat []) >>= fun y =>
      if (a.shape.eraseIdx axis).prod = 1 ∨ y.elems.length = 0 then .ok ⟨y.elems, a.shape.set axis y.elems.length⟩
      else .err .ShapeMustMatchValuesLength :=
  applyAlongAxis_axis_zero a zero zb axis f hwf hax hrest hn

/-- the two cases are exhaustive: a shape containing 0 has the zero on another axis, or only on the processed one -/
theorem empty_axis_cases (a : Arr α) (axis : Nat) (hax : axis < a.ndim) (h0 : 0 ∈ a.shape) :
    0 ∈ a.shape.eraseIdx axis ∨ (0 ∉ a.shape.eraseIdx axis ∧ a.shape.getD axis 0 = 0) :=
  zero_mem_cases a.shape axis hax h0

/-- **total statement for `apply_along_axis`**: EVERY well-formed array (with or without zero-length axes), every axis
(in range or not), every lane function that never panics — no assumption on the lengths it returns —: the answer is `Ok`
with a well-formed array of the same rank, or `Err`; never a panic -/
theorem along_axis_total (a : Arr α) (zero : α) (zb : β) (axis : Nat) (f : Arr α → Res (Arr β))
    (hwf : a.WF) (hf : ∀ x, f x ≠ .panic) :
    ((∃ r, a.applyAlongAxis zero zb axis f = .ok r ∧ r.WF ∧ r.ndim = a.ndim) ∨
     (∃ e, a.applyAlongAxis zero zb axis f = .err e)) ∧ a.applyAlongAxis zero zb axis f ≠ .panic :=
  ⟨applyAlongAxis_total a zero zb axis f hwf hf, applyAlongAxis_never_panics a zero zb axis f hwf hf⟩

/-- **all three families refuse when another axis is empty** -/
theorem axis_ops_other_axis_empty (a : Arr α) (zero : α) (zb : β) (ax : Int) (hwf : a.WF)
    (hax : normalizeAxis a.ndim ax < a.ndim) (h0 : 0 ∈ a.shape.eraseIdx (normalizeAxis a.ndim ax))
    (f1 : Arr α → Res (Arr β)) (kd : Option Bool) (g1 : Arr α → Option Bool → Res (Arr β)) :
    a.reduceAxis zero zb (some ax) f1 = .err .ParameterError ∧
    a.countAxis zero zb (some ax) kd g1 = .err .ParameterError ∧
    a.scanAxis zero zb (some ax) f1 = .err .ParameterError := by
  simp only [Arr.reduceAxis, Arr.countAxis, Arr.scanAxis, applyAlongAxis_other_zero _ _ _ _ _ hwf hax h0, Res.bind_err,
    and_self]

/-- **reductions along an empty axis** (the other axes non-empty): the 1-D body is asked once, on the empty lane; at
rank 1 its answer is the result; at rank > 1 the answer is kept only when it has one element and all other axes have
length 1 (otherwise the reshape refuses with `ShapeMustMatchValuesLength`); an error of the body is passed on -/
theorem reduce_empty_axis (a : Arr α) (zero : α) (zb : β) (ax : Int) (f1 : Arr α → Res (Arr β))
    (hwf : a.WF) (hax : normalizeAxis a.ndim ax < a.ndim)
    (hrest : 0 ∉ a.shape.eraseIdx (normalizeAxis a.ndim ax)) (hn : a.shape.getD (normalizeAxis a.ndim ax) 0 = 0) :
    a.reduceAxis zero zb (some ax) f1 = f1 (Arr.flat []) >>= fun y =>
      if a.ndim > 1 then
        (if (a.shape.eraseIdx (normalizeAxis a.ndim ax)).prod = 1 ∧ y.elems.length = 1
         then .ok ⟨y.elems, a.shape.eraseIdx (normalizeAxis a.ndim ax)⟩ else .err .ShapeMustMatchValuesLength)
      else .ok ⟨y.elems, [y.elems.length]⟩ := by
  generalize haxis : normalizeAxis a.ndim ax = axis at *
  have hax' : axis < a.shape.length := hax
  have hP : 0 < (a.shape.eraseIdx axis).prod := prod_pos_of_not_mem _ hrest
  simp only [Arr.reduceAxis, haxis, applyAlongAxis_axis_zero a zero zb axis f1 hwf hax hrest hn]
  cases f1 (Arr.flat []) with
  | err e => rfl
  | panic => rfl
  | ok y =>
    simp only [Res.bind_ok]
    by_cases hnd : a.ndim > 1
    · have hnd' : a.shape.length > 1 := hnd
      rw [if_pos hnd]
      by_cases hc : (a.shape.eraseIdx axis).prod = 1 ∨ y.elems.length = 0
      · rw [if_pos hc]
        simp only [Res.bind_ok, Arr.ndim, List.length_set, hnd', if_true, vecRemove, List.eraseIdx_set_eq, Arr.reshape, Arr.new]
        rw [if_neg (by omega)]
        simp only [Res.bind_ok]
        by_cases h1 : (a.shape.eraseIdx axis).prod = 1 ∧ y.elems.length = 1
        · rw [if_pos h1, if_pos (by omega)]
        · rw [if_neg h1, if_neg (by omega)]
      · rw [if_neg hc, if_neg (by omega)]; rfl
    · have h1d : a.shape.length = 1 := by have : a.ndim ≥ 1 := by omega
                                          simp only [Arr.ndim] at this hnd; omega
      obtain ⟨n, hs⟩ := List.length_eq_one_iff.1 h1d
      have h0 : axis = 0 := by omega
      subst h0
      rw [if_neg hnd, if_pos (Or.inl (by rw [hs]; rfl))]
      simp only [Res.bind_ok, Arr.ndim, Arr.reshape, Arr.new, hs, List.set_cons_zero, List.length_cons, List.length_nil,
        Nat.zero_add, Nat.lt_irrefl, if_false, List.prod_cons, List.prod_nil, Nat.mul_one, if_true]

/-- **count / position queries along an empty axis**: with `keepdims = Some(true)` the answer of the 1-D query on the
empty lane is kept along the axis when it fits; otherwise the axis is removed, which fits only a one-element answer
when all other axes have length 1 -/
theorem count_empty_axis (a : Arr α) (zero : α) (zb : β) (ax : Int) (kd : Option Bool) (g1 : Arr α → Option Bool → Res (Arr β))
    (hwf : a.WF) (hax : normalizeAxis a.ndim ax < a.ndim)
    (hrest : 0 ∉ a.shape.eraseIdx (normalizeAxis a.ndim ax)) (hn : a.shape.getD (normalizeAxis a.ndim ax) 0 = 0) :
    a.countAxis zero zb (some ax) kd g1 = g1 (Arr.flat []) kd >>= fun y =>
      if kd = some true then
        (if (a.shape.eraseIdx (normalizeAxis a.ndim ax)).prod = 1 ∨ y.elems.length = 0
         then .ok ⟨y.elems, a.shape.set (normalizeAxis a.ndim ax) y.elems.length⟩ else .err .ShapeMustMatchValuesLength)
      else
        (if (a.shape.eraseIdx (normalizeAxis a.ndim ax)).prod = 1 ∧ y.elems.length = 1
         then .ok ⟨y.elems, a.shape.eraseIdx (normalizeAxis a.ndim ax)⟩ else .err .ShapeMustMatchValuesLength) := by
  generalize haxis : normalizeAxis a.ndim ax = axis at *
  have hax' : axis < a.shape.length := hax
  have hP : 0 < (a.shape.eraseIdx axis).prod := prod_pos_of_not_mem _ hrest
  simp only [Arr.countAxis, haxis, applyAlongAxis_axis_zero a zero zb axis (fun arr => g1 arr kd) hwf hax hrest hn]
  cases g1 (Arr.flat []) kd with
  | err e => rfl
  | panic => rfl
  | ok y =>
    simp only [Res.bind_ok]
    by_cases hkd : kd = some true
    · rw [if_pos hkd]
      by_cases hc : (a.shape.eraseIdx axis).prod = 1 ∨ y.elems.length = 0
      · rw [if_pos hc, Res.bind_ok, if_pos hkd]
      · rw [if_neg hc]; rfl
    · rw [if_neg hkd]
      by_cases hc : (a.shape.eraseIdx axis).prod = 1 ∨ y.elems.length = 0
      · rw [if_pos hc]
        simp only [Res.bind_ok, hkd, if_false, vecRemove, Arr.reshape, Arr.new]
        rw [if_neg (by omega)]
        simp only [Res.bind_ok]
        by_cases h1 : (a.shape.eraseIdx axis).prod = 1 ∧ y.elems.length = 1
        · rw [if_pos h1, if_pos (by omega)]
        · rw [if_neg h1, if_neg (by omega)]
      · rw [if_neg hc, if_neg (by omega)]; rfl

/-- **scans along an empty axis**: the answer of the 1-D scan on the empty lane, kept along the axis when it fits; in
particular a scan that returns the empty lane for the empty lane returns the (empty) array unchanged -/
theorem scan_empty_axis (a : Arr α) (zero : α) (zb : β) (ax : Int) (f1 : Arr α → Res (Arr β))
    (hwf : a.WF) (hax : normalizeAxis a.ndim ax < a.ndim)
    (hrest : 0 ∉ a.shape.eraseIdx (normalizeAxis a.ndim ax)) (hn : a.shape.getD (normalizeAxis a.ndim ax) 0 = 0) :
    (a.scanAxis zero zb (some ax) f1 = f1 (Arr.flat []) >>= fun y =>
      if (a.shape.eraseIdx (normalizeAxis a.ndim ax)).prod = 1 ∨ y.elems.length = 0
      then .ok ⟨y.elems, a.shape.set (normalizeAxis a.ndim ax) y.elems.length⟩ else .err .ShapeMustMatchValuesLength) ∧
    (∀ y, f1 (Arr.flat []) = .ok y → y.elems = [] → a.scanAxis zero zb (some ax) f1 = .ok ⟨[], a.shape⟩) := by
  have h := applyAlongAxis_axis_zero a zero zb (normalizeAxis a.ndim ax) f1 hwf hax hrest hn
  refine ⟨h, ?_⟩
  intro y hy he
  simp only [Arr.scanAxis, h, hy, Res.bind_ok, he, List.length_nil, or_true, if_true]
  rw [← hn, set_getD_self]

/-- **no axis, empty array**: a reduction / query is the 1-D body on the array, which has no elements; a scan is the
1-D body on the empty flat array -/
theorem none_axis_empty (a : Arr α) (zero : α) (zb : β) (hwf : a.WF) (h0 : 0 ∈ a.shape)
    (f1 : Arr α → Res (Arr β)) (kd : Option Bool) (g1 : Arr α → Option Bool → Res (Arr β)) :
    a.elems = [] ∧ a.reduceAxis zero zb none f1 = f1 ⟨[], a.shape⟩ ∧ a.countAxis zero zb none kd g1 = g1 ⟨[], a.shape⟩ kd ∧
    a.scanAxis zero zb none f1 = f1 (Arr.flat []) := by
  have he := elems_nil_of_zero_mem a hwf h0
  have ha := eq_mk_nil_of_zero_mem a hwf h0
  refine ⟨he, ?_, ?_, ?_⟩
  · show f1 a = _; rw [← ha]
  · show g1 a kd = _; rw [← ha]
  · show f1 a.ravel = _; rw [Arr.ravel, he]

/-- **the three families never panic**: EVERY well-formed array (zero-length axes or not), every axis argument (none,
in range, out of range, either spelling), `keepdims` anything, 1-D bodies that never panic themselves -/
theorem axis_ops_never_panic (a : Arr α) (zero : α) (zb : β) (axis : Option Int) (kd : Option Bool)
    (f1 : Arr α → Res (Arr β)) (g1 : Arr α → Option Bool → Res (Arr β)) (hwf : a.WF)
    (hf : ∀ x, f1 x ≠ .panic) (hg : ∀ x k, g1 x k ≠ .panic) :
    a.reduceAxis zero zb axis f1 ≠ .panic ∧ a.countAxis zero zb axis kd g1 ≠ .panic ∧ a.scanAxis zero zb axis f1 ≠ .panic := by
  have hnew : ∀ (es : List β) (sh : List Nat), Arr.new es sh ≠ .panic := by
    intro es sh; unfold Arr.new; split <;> exact fun h => nomatch h
  cases axis with
  | none => exact ⟨hf a, hg a kd, hf _⟩
  | some ax =>
    by_cases hax : normalizeAxis a.ndim ax < a.ndim
    swap
    · obtain ⟨h1, h2, h3⟩ := axis_out_of_range a zero zb ax (by omega) f1 kd g1
      rw [h1, h2, h3]; exact ⟨(fun h => nomatch h), (fun h => nomatch h), (fun h => nomatch h)⟩
    have hax' : normalizeAxis a.ndim ax < a.shape.length := hax
    refine ⟨?_, ?_, ?_⟩
    · rcases applyAlongAxis_total a zero zb (normalizeAxis a.ndim ax) f1 hwf hf with ⟨r, h, _, hnd⟩ | ⟨e, h⟩
      · simp only [Arr.reduceAxis, h, Res.bind_ok]
        split
        · have : ¬ normalizeAxis a.ndim ax ≥ r.shape.length := by simp only [Arr.ndim] at hnd; omega
          simp only [vecRemove, this, if_false, Res.bind_ok, Arr.reshape]; exact hnew _ _
        · exact hnew _ _
      · simp only [Arr.reduceAxis, h, Res.bind_err]; exact fun h => nomatch h
    · rcases applyAlongAxis_total a zero zb (normalizeAxis a.ndim ax) (fun arr => g1 arr kd) hwf (fun x => hg x kd) with ⟨r, h, _, hnd⟩ | ⟨e, h⟩
      · simp only [Arr.countAxis, h, Res.bind_ok]
        split
        · exact fun h => nomatch h
        · have : ¬ normalizeAxis a.ndim ax ≥ a.shape.length := by omega
          simp only [vecRemove, this, if_false, Res.bind_ok, Arr.reshape]; exact hnew _ _
      · simp only [Arr.countAxis, h, Res.bind_err]; exact fun h => nomatch h
    · exact applyAlongAxis_never_panics a zero zb _ f1 hwf hf

/-! ### non-vacuity of the extension: shapes `[2,0]`, `[0,3]`, `[2,0,3]` (and `[1,0]`, `[0]`, where a reduction fits) -/
example : (⟨[], [2, 0]⟩ : Arr Nat).WF ∧ (⟨[], [0, 3]⟩ : Arr Nat).WF ∧ (⟨[], [2, 0, 3]⟩ : Arr Nat).WF := by decide
-- `[2,0]` axis 1: only the processed axis is empty; `[2,0]` axis 0 / `[0,3]` axis 1 / `[2,0,3]` axes 0, 2: another axis is empty
example : 0 ∉ ([2, 0] : List Nat).eraseIdx 1 ∧ ([2, 0] : List Nat).getD 1 0 = 0 := by decide
example : 0 ∈ ([2, 0] : List Nat).eraseIdx 0 ∧ 0 ∈ ([0, 3] : List Nat).eraseIdx 1 ∧ 0 ∈ ([2, 0, 3] : List Nat).eraseIdx 0
    ∧ 0 ∈ ([2, 0, 3] : List Nat).eraseIdx 2 ∧ 0 ∉ ([2, 0, 3] : List Nat).eraseIdx 1 := by decide
-- the sample bodies never panic, so the total statements apply to them
example : (∀ x, sumBody x ≠ .panic) ∧ (∀ x, cumsumBody x ≠ .panic) :=
  ⟨(fun _ h => nomatch h), (fun _ h => nomatch h)⟩
example := along_axis_total (⟨[], [2, 0, 3]⟩ : Arr Nat) 0 0 1 sumBody (by decide) (fun _ h => nomatch h)
example := reduce_empty_axis (⟨[], [2, 0]⟩ : Arr Nat) 0 0 1 sumBody (by decide) (by decide) (by decide) (by decide)
-- what the model answers, by evaluation:
example : (⟨[], [2, 0]⟩ : Arr Nat).reduceAxis 0 0 (some 1) sumBody = .err .ShapeMustMatchValuesLength := by decide +kernel
example : (⟨[], [2, 0]⟩ : Arr Nat).reduceAxis 0 0 (some 0) sumBody = .err .ParameterError := by decide +kernel
example : (⟨[], [0, 3]⟩ : Arr Nat).reduceAxis 0 0 (some 0) sumBody = .err .ShapeMustMatchValuesLength := by decide +kernel
example : (⟨[], [0, 3]⟩ : Arr Nat).reduceAxis 0 0 (some (-1)) sumBody = .err .ParameterError := by decide +kernel
example : (⟨[], [2, 0, 3]⟩ : Arr Nat).reduceAxis 0 0 (some 1) sumBody = .err .ShapeMustMatchValuesLength := by decide +kernel
example : (⟨[], [2, 0, 3]⟩ : Arr Nat).reduceAxis 0 0 (some 2) sumBody = .err .ParameterError := by decide +kernel
example : (⟨[], [1, 0]⟩ : Arr Nat).reduceAxis 0 0 (some 1) sumBody = .ok ⟨[0], [1]⟩ := by decide +kernel
example : (⟨[], [0]⟩ : Arr Nat).reduceAxis 0 0 (some 0) sumBody = .ok ⟨[0], [1]⟩ := by decide +kernel
example : (⟨[], [1, 0]⟩ : Arr Nat).countAxis 0 0 (some 1) (some true) countBody = .ok ⟨[0], [1, 1]⟩ := by decide +kernel
example : (⟨[], [2, 0]⟩ : Arr Nat).scanAxis 0 0 (some 1) cumsumBody = .ok ⟨[], [2, 0]⟩ := by decide +kernel
example : (⟨[], [2, 0, 3]⟩ : Arr Nat).scanAxis 0 0 (some 1) cumsumBody = .ok ⟨[], [2, 0, 3]⟩ := by decide +kernel
example : (⟨[], [2, 0, 3]⟩ : Arr Nat).scanAxis 0 0 (some 0) cumsumBody = .err .ParameterError := by decide +kernel
example : (⟨[], [0, 3]⟩ : Arr Nat).scanAxis 0 0 none cumsumBody = .ok ⟨[], [0]⟩ := by decide +kernel

/-! ## the 1-D kernels (`ArrModel/C08Kernels.lean`): what the `axis = None` arms compute, for lanes of EVERY length

`Elem α` carries the operations the Rust arms use (`zero`, `one`, `+`, `*`, `<`, `>`, `==`, `is_nan`, `N::from(NAN)`); `Elem.int` is
the instance of the integer types (no NaN), `Elem.nanInt` integers plus one NaN with the IEEE rules.  Laws are hypotheses:
`IsMonoid` (associative, neutral element), `Elem.LawfulOrd` (one linear order, no NaN), `Elem.NanLaws` (NaN absorbs `+` / `*`,
`NaN != x`); every one of them has an instance below. -/
section kernels
open ArrModel.C08K
variable {E : Elem α}

/-- **sum / prod are LEFT folds from `zero` / `one`**: the empty lane gives the initial value, one more element at the END
applies the operation once more on the right -/
theorem sum_prod_left_fold (E : Elem α) :
    sumK E [] = E.zero ∧ prodK E [] = E.one ∧
    (∀ xs x, sumK E (xs ++ [x]) = E.add (sumK E xs) x) ∧ (∀ xs x, prodK E (xs ++ [x]) = E.mul (prodK E xs) x) ∧
    (∀ xs, sumK E xs = xs.foldl E.add E.zero) ∧ (∀ xs, prodK E xs = xs.foldl E.mul E.one) :=
  ⟨rfl, rfl, fun xs x => by simp [sumK], fun xs x => by simp [prodK], fun _ => rfl, fun _ => rfl⟩

/-- concatenated lanes, no law assumed: the fold over the second part continues from the total of the first -/
theorem sum_prod_append (E : Elem α) (xs ys : List α) :
    sumK E (xs ++ ys) = ys.foldl E.add (sumK E xs) ∧ prodK E (xs ++ ys) = ys.foldl E.mul (prodK E xs) :=
  ⟨by simp [sumK], by simp [prodK]⟩

/-- concatenated lanes in a monoid: the total is the total of the parts -/
theorem sum_append_monoid (E : Elem α) (h : IsMonoid E.add E.zero) (xs ys : List α) :
    sumK E (xs ++ ys) = E.add (sumK E xs) (sumK E ys) := foldl_append_monoid h xs ys

theorem prod_append_monoid (E : Elem α) (h : IsMonoid E.mul E.one) (xs ys : List α) :
    prodK E (xs ++ ys) = E.mul (prodK E xs) (prodK E ys) := foldl_append_monoid h xs ys

/-- on the integer instance `sum` is the sum of the list -/
theorem sum_int (xs : List Int) : sumK Elem.int xs = xs.sum := by
  have := foldl_add_int xs 0
  simpa [sumK, Elem.int] using this

/-- **running totals** (cumsum, cumprod and their NaN forms): the answer has the lane's length, its `i`-th entry is what the
corresponding reduction (sum, prod, nansum, nanprod) gives on the first `i + 1` elements, and its last entry is the
reduction of the whole lane -/
theorem scan_kernel_running (E : Elem α) (op : ScanOp) (xs : List α) :
    (op.kernel E xs).length = xs.length ∧
    (∀ i, i < xs.length → ∃ v, (op.kernel E xs)[i]? = some v ∧ op.total.kernel E (xs.take (i + 1)) = .ok v) ∧
    (xs ≠ [] → ∃ v, (op.kernel E xs).getLast? = some v ∧ op.total.kernel E xs = .ok v) ∧
    (∀ ys, op.kernel E (xs ++ ys) = op.kernel E xs ++ runAcc (op.step E) (xs.foldl (op.step E) (op.init E)) ys) := by
  refine ⟨ScanOp.kernel_length E op xs, ?_, ?_, ?_⟩
  · intro i hi
    exact ⟨_, by rw [ScanOp.kernel_eq_runAcc, runAcc_getElem?, if_pos hi], ScanOp.total_kernel E op _⟩
  · intro hne
    exact ⟨_, by rw [ScanOp.kernel_eq_runAcc, runAcc_getLast?, if_neg hne], ScanOp.total_kernel E op _⟩
  · intro ys
    simp only [ScanOp.kernel_eq_runAcc, runAcc_append]

/-- cumsum spelled out: entry `i` is the sum of the first `i + 1` elements; the last entry is the sum -/
theorem cumsum_entries (E : Elem α) (xs : List α) :
    (cumsumK E xs).length = xs.length ∧ (∀ i, i < xs.length → (cumsumK E xs)[i]? = some (sumK E (xs.take (i + 1)))) ∧
    (xs ≠ [] → (cumsumK E xs).getLast? = some (sumK E xs)) ∧
    (cumprodK E xs).length = xs.length ∧ (∀ i, i < xs.length → (cumprodK E xs)[i]? = some (prodK E (xs.take (i + 1)))) ∧
    (xs ≠ [] → (cumprodK E xs).getLast? = some (prodK E xs)) := by
  refine ⟨runAcc_length _ _ _, fun i hi => ?_, fun hne => ?_, runAcc_length _ _ _, fun i hi => ?_, fun hne => ?_⟩
  · simp only [cumsumK, runAcc_getElem?, if_pos hi, sumK]
  · simp only [cumsumK, runAcc_getLast?, if_neg hne, sumK]
  · simp only [cumprodK, runAcc_getElem?, if_pos hi, prodK]
  · simp only [cumprodK, runAcc_getLast?, if_neg hne, prodK]

/-- **max / min on a non-empty lane of a linear order**: the answer is an element of the lane and bounds every element -/
theorem max_min_spec (E : Elem α) (h : E.LawfulOrd) (xs : List α) (hne : xs ≠ []) :
    (∃ m, maxK E xs = .ok m ∧ m ∈ xs ∧ ∀ y ∈ xs, E.le y m = true) ∧
    (∃ m, minK E xs = .ok m ∧ m ∈ xs ∧ ∀ y ∈ xs, E.le m y = true) :=
  ⟨maxK_lawful h.cmp xs hne, minK_lawful h xs hne⟩

/-- **the empty lane**: `max` / `min` / `argmax` / `argmin` answer `Err(ParameterError)` (no panic); `nanmax` / `nanmin` have no
emptiness test and answer `N::from(NAN)` (`0` on the integer types); the folds answer their initial value, the scans the
empty lane, `count_nonzero` zero -/
theorem empty_lane (E : Elem α) :
    maxK E [] = .err .ParameterError ∧ minK E [] = .err .ParameterError ∧
    CntOp.kernel E .argmax [] = .err .ParameterError ∧ CntOp.kernel E .argmin [] = .err .ParameterError ∧
    nanmaxK E [] = .ok E.nan ∧ nanminK E [] = .ok E.nan ∧
    sumK E [] = E.zero ∧ nansumK E [] = E.zero ∧ prodK E [] = E.one ∧ nanprodK E [] = E.one ∧
    (∀ op : ScanOp, op.kernel E [] = []) ∧ countK E [] = 0 :=
  ⟨rfl, rfl, rfl, rfl, rfl, rfl, rfl, rfl, rfl, rfl, fun op => by cases op <;> rfl, rfl⟩

/-- **argmax / argmin report the FIRST position of the extreme** (linear order, non-empty lane) -/
theorem arg_first_extreme (E : Elem α) (h : E.cmp.Lawful) (xs : List α) (hne : xs ≠ []) :
    (∃ p m, CntOp.kernel E .argmax xs = .ok p ∧ xs[p]? = some m ∧ (∀ y ∈ xs, E.le y m = true) ∧ ∀ q, q < p → xs[q]? ≠ some m) ∧
    (∃ p m, CntOp.kernel E .argmin xs = .ok p ∧ xs[p]? = some m ∧ (∀ y ∈ xs, E.le m y = true) ∧ ∀ q, q < p → xs[q]? ≠ some m) := by
  have hemp : xs.isEmpty = false := by cases xs with | nil => exact absurd rfl hne | cons _ _ => rfl
  obtain ⟨p, m, h1, h2, h3, h4⟩ := C10.argmax_spec h xs hne
  obtain ⟨p', m', h1', h2', h3', h4'⟩ := C10.argmin_spec h xs hne
  exact ⟨⟨p, m, by simp [CntOp.kernel, hemp, h1], h2, h3, h4⟩, ⟨p', m', by simp [CntOp.kernel, hemp, h1'], h2', h3', h4'⟩⟩

/-- **count_nonzero** = the number of elements that are `!=` zero; additive over concatenation; with a lawful `==` the number
of elements different from zero -/
theorem count_nonzero_kernel (E : Elem α) (xs ys : List α) :
    countK E xs = xs.countP (fun e => !E.beq e E.zero) ∧ countK E (xs ++ ys) = countK E xs + countK E ys ∧
    countK E xs ≤ xs.length ∧
    ((∀ a b, E.beq a b = true ↔ a = b) → ∀ [DecidableEq α], countK E xs = (xs.filter (fun e => decide (e ≠ E.zero))).length) := by
  refine ⟨by simp [countK, List.countP_eq_length_filter], by simp [countK], List.length_filter_le _ _, ?_⟩
  intro hb _
  unfold countK
  congr 1
  apply List.filter_congr
  intro x _
  by_cases hx : x = E.zero
  · simp [hx, (hb E.zero E.zero).2 rfl]
  · have : E.beq x E.zero = false := by
      cases hbx : E.beq x E.zero with
      | false => rfl
      | true => exact absurd ((hb _ _).1 hbx) hx
    simp [hx, this]

/-- **NaN-ignoring folds and scans = the plain form on the lane with every NaN REPLACED** by zero (sums) / one (products) -
exactly what the closures do; no law assumed -/
theorem nan_forms_replace (E : Elem α) (xs : List α) :
    nansumK E xs = sumK E (xs.map E.nanToZero) ∧ nanprodK E xs = prodK E (xs.map E.nanToOne) ∧
    nancumsumK E xs = cumsumK E (xs.map E.nanToZero) ∧ nancumprodK E xs = cumprodK E (xs.map E.nanToOne) :=
  ⟨foldl_replace_eq_map _ _ _ _, foldl_replace_eq_map _ _ _ _, runAcc_replace_eq_map _ _ _ _, runAcc_replace_eq_map _ _ _ _⟩

/-- in a monoid, replacing by the neutral element is leaving out: **nansum / nanprod = sum / prod of the lane with the NaNs
REMOVED** -/
theorem nan_forms_remove (E : Elem α) (ha : IsMonoid E.add E.zero) (hm : IsMonoid E.mul E.one) (xs : List α) :
    nansumK E xs = sumK E (xs.filter (fun x => !E.isNan x)) ∧ nanprodK E xs = prodK E (xs.filter (fun x => !E.isNan x)) :=
  ⟨foldl_replace_eq_filter ha E.isNan xs E.zero, foldl_replace_eq_filter hm E.isNan xs E.one⟩

/-- **nanmax / nanmin**: a lane that is not all NaN gives max / min of the lane with the NaNs removed; an all-NaN lane
(the empty lane included) gives `N::from(NAN)` -/
theorem nan_extrema (E : Elem α) (xs : List α) :
    (xs.all E.isNan = false → nanmaxK E xs = maxK E (xs.filter (fun i => !E.isNan i)) ∧
      nanminK E xs = minK E (xs.filter (fun i => !E.isNan i))) ∧
    (xs.all E.isNan = true → nanmaxK E xs = .ok E.nan ∧ nanminK E xs = .ok E.nan) :=
  ⟨fun h => ⟨nanmaxK_eq E xs h, nanminK_eq E xs h⟩, fun h => ⟨by simp [nanmaxK, h], by simp [nanminK, h]⟩⟩

/-- **the plain forms and NaN**: sum / prod are NaN exactly when the lane contains a NaN (and so is every running total from the
first NaN on); nansum / nanprod never are; max / min of a lane containing a NaN answer `N::from(NAN)`; argmax / argmin answer
the position of the FIRST NaN; count_nonzero counts a NaN -/
theorem nan_propagation (E : Elem α) (h : E.NanLaws) (xs : List α) :
    E.isNan (sumK E xs) = xs.any E.isNan ∧ E.isNan (prodK E xs) = xs.any E.isNan ∧
    (∀ i, i < xs.length → ∃ v, (cumsumK E xs)[i]? = some v ∧ E.isNan v = (xs.take (i + 1)).any E.isNan) ∧
    E.isNan (nansumK E xs) = false ∧ E.isNan (nanprodK E xs) = false ∧
    (xs.any E.isNan = true → maxK E xs = .ok E.nan ∧ minK E xs = .ok E.nan) ∧
    (∀ i, xs.findIdx? E.isNan = some i → CntOp.kernel E .argmax xs = .ok i ∧ CntOp.kernel E .argmin xs = .ok i) ∧
    (∀ x, E.isNan x = true → countK E (x :: xs) = countK E xs + 1) := by
  have hz : ∀ x, E.isNan (E.nanToZero x) = false := by
    intro x; unfold Elem.nanToZero; split
    · exact h.zero_not_nan
    · next hx => simpa using hx
  have ho : ∀ x, E.isNan (E.nanToOne x) = false := by
    intro x; unfold Elem.nanToOne; split
    · exact h.one_not_nan
    · next hx => simpa using hx
  have hany : ∀ (g : α → α), (∀ x, E.isNan (g x) = false) → (xs.map g).any E.isNan = false := by
    intro g hg; rw [List.any_eq_false]; intro y hy
    obtain ⟨x, _, rfl⟩ := List.mem_map.1 hy
    simp [hg x]
  refine ⟨?_, ?_, ?_, ?_, ?_, ?_, ?_, ?_⟩
  · simp [sumK, isNan_foldl E.isNan E.add h.add_nan, h.zero_not_nan]
  · simp [prodK, isNan_foldl E.isNan E.mul h.mul_nan, h.one_not_nan]
  · intro i hi
    refine ⟨(xs.take (i + 1)).foldl (fun acc x => E.add acc x) E.zero, by simp only [cumsumK, runAcc_getElem?, if_pos hi], ?_⟩
    simp [isNan_foldl E.isNan (fun acc x => E.add acc x) h.add_nan, h.zero_not_nan]
  · rw [(nan_forms_replace E xs).1]
    simp [sumK, isNan_foldl E.isNan E.add h.add_nan, h.zero_not_nan, hany _ hz]
  · rw [(nan_forms_replace E xs).2.1]
    simp [prodK, isNan_foldl E.isNan E.mul h.mul_nan, h.one_not_nan, hany _ ho]
  · intro hn
    have hemp : xs.isEmpty = false := by
      cases xs with
      | nil => simp at hn
      | cons _ _ => rfl
    exact ⟨by simp [maxK, hemp, hn], by simp [minK, hemp, hn]⟩
  · intro i hi
    have hemp : xs.isEmpty = false := by
      cases xs with
      | nil => simp at hi
      | cons _ _ => rfl
    exact ⟨by simp only [CntOp.kernel, hemp, Bool.false_eq_true, ↓reduceIte]; exact C10.argExtreme_nan E.cmp true xs i hi,
           by simp only [CntOp.kernel, hemp, Bool.false_eq_true, ↓reduceIte]; exact C10.argExtreme_nan E.cmp false xs i hi⟩
  · intro x hx
    simp [countK, h.beq_nan x E.zero hx]

/-- a NaN-free lane of the NaN-tagged instance behaves like the integer instance (sums and products) -/
theorem nanInt_of_int (xs : List Int) :
    sumK Elem.nanInt (xs.map some) = some (sumK Elem.int xs) ∧ prodK Elem.nanInt (xs.map some) = some (prodK Elem.int xs) :=
  ⟨foldl_nanInt_some (· + ·) Elem.nanInt.add (fun _ _ => rfl) xs 0, foldl_nanInt_some (· * ·) Elem.nanInt.mul (fun _ _ => rfl) xs 1⟩

/-! ### composed with the lane theorems: what `op(axis)` returns, in terms of the kernels -/

/-- **reductions along an axis** (sum, prod, nansum, nanprod, max/amax, min/amin, nanmax, nanmin; every rank, every axis, every
axis length >= 1, every element structure): the value at every position of the remaining axes is the KERNEL of the operation
on the lane through that position - e.g. for `sum` the left fold `((zero + l0) + l1) + …` of that lane -/
theorem reduce_kernel_spec (E : Elem α) (op : RedOp) (a : Arr α) (ax : Int)
    (hwf : a.WF) (hnz : 0 ∉ a.shape) (hax : normalizeAxis a.ndim ax < a.ndim) :
    ∃ r, reduceOp E op a (some ax) = .ok r ∧
      r.shape = (if a.ndim > 1 then a.shape.eraseIdx (normalizeAxis a.ndim ax) else [1]) ∧ r.WF ∧
      ∀ c, inRange (a.shape.eraseIdx (normalizeAxis a.ndim ax)) c = true →
        ∃ v, op.kernel E (laneOf a (normalizeAxis a.ndim ax) (c.insertIdx (normalizeAxis a.ndim ax) 0)) = .ok v ∧
          r.get? (if a.ndim > 1 then c else [0]) = some v := by
  have hpos : 0 < a.shape.getD (normalizeAxis a.ndim ax) 0 := getD_mem_pos _ _ hax hnz
  have hbody : ∀ lane : List α, lane.length = a.shape.getD (normalizeAxis a.ndim ax) 0 →
      ∃ v, op.kernel E lane = .ok v ∧ op.lane E (Arr.flat lane) = .ok (Arr.single v) := by
    intro lane hl
    obtain ⟨v, hv⟩ := RedOp.kernel_ok E op lane (length_pos_ne_nil lane _ hl hpos)
    exact ⟨v, hv, RedOp.lane_flat E op lane v hv⟩
  obtain ⟨r, h1, h2, h3, h4⟩ := reduce_spec a E.zero E.zero ax (op.lane E) hwf hnz hax
    (fun lane hl => by obtain ⟨v, _, hv⟩ := hbody lane hl; exact ⟨_, hv, rfl⟩)
  refine ⟨r, h1, h2, h3, ?_⟩
  intro c hc
  obtain ⟨y, v, e1, e2, e3⟩ := h4 c hc
  obtain ⟨v', hv1, hv2⟩ := hbody _ (laneOf_reduced_length a _ c hwf hax hc)
  rw [hv2] at e1
  cases e1
  simp only [Arr.single, List.cons.injEq, and_true] at e2
  exact ⟨v', hv1, by rw [e2]; exact e3⟩

/-- **scans along an axis** (cumsum, cumprod, nancumsum, nancumprod): the shape is kept and the value at coordinate `c` is the
corresponding reduction (sum, prod, nansum, nanprod) of the first `c[axis] + 1` elements of the lane through `c` -/
theorem scan_kernel_spec (E : Elem α) (op : ScanOp) (a : Arr α) (ax : Int)
    (hwf : a.WF) (hnz : 0 ∉ a.shape) (hax : normalizeAxis a.ndim ax < a.ndim) :
    ∃ r, scanOp E op a (some ax) = .ok r ∧ r.shape = a.shape ∧ r.WF ∧
      ∀ c, inRange a.shape c = true →
        ∃ v, (op.kernel E (laneOf a (normalizeAxis a.ndim ax) c))[c.getD (normalizeAxis a.ndim ax) 0]? = some v ∧
          op.total.kernel E ((laneOf a (normalizeAxis a.ndim ax) c).take (c.getD (normalizeAxis a.ndim ax) 0 + 1)) = .ok v ∧
          r.get? c = some v := by
  obtain ⟨r, h1, h2, h3, h4⟩ := scan_spec a E.zero E.zero ax (op.lane E) hwf hnz hax
    (fun lane _ => ⟨_, ScanOp.lane_flat E op lane, by simp⟩)
  refine ⟨r, h1, h2, h3, ?_⟩
  intro c hc
  obtain ⟨y, v, e1, e2, e3⟩ := h4 c hc
  rw [ScanOp.lane_flat] at e1
  cases e1
  refine ⟨v, e2, ?_, e3⟩
  simp only at e2
  have hk : c.getD (normalizeAxis a.ndim ax) 0 < (laneOf a (normalizeAxis a.ndim ax) c).length := by
    have := (List.getElem?_eq_some_iff.1 e2).1
    simpa using this
  rw [ScanOp.kernel_eq_runAcc, runAcc_getElem?, if_pos hk] at e2
  rw [ScanOp.total_kernel]
  exact congrArg Res.ok (Option.some.inj e2)

/-- **count_nonzero / argmax / argmin along an axis** with `keepdims`: the value at every position of the remaining axes is the
kernel on the lane through it - the number of elements `!=` zero, resp. (linear order) the first position of the extreme -/
theorem count_kernel_spec (E : Elem α) (op : CntOp) (a : Arr α) (ax : Int) (kd : Option Bool)
    (hop : op = .countNonzero ∨ E.cmp.Lawful)
    (hwf : a.WF) (hnz : 0 ∉ a.shape) (hax : normalizeAxis a.ndim ax < a.ndim) :
    ∃ r, countOp E op a (some ax) kd = .ok r ∧
      r.shape = (if kd = some true then a.shape.set (normalizeAxis a.ndim ax) 1 else a.shape.eraseIdx (normalizeAxis a.ndim ax)) ∧
      r.WF ∧
      ∀ c, inRange (a.shape.eraseIdx (normalizeAxis a.ndim ax)) c = true →
        ∃ v, op.kernel E (laneOf a (normalizeAxis a.ndim ax) (c.insertIdx (normalizeAxis a.ndim ax) 0)) = .ok v ∧
          r.get? (if kd = some true then c.insertIdx (normalizeAxis a.ndim ax) 0 else c) = some v := by
  have hpos : 0 < a.shape.getD (normalizeAxis a.ndim ax) 0 := getD_mem_pos _ _ hax hnz
  have hbody : ∀ lane : List α, lane.length = a.shape.getD (normalizeAxis a.ndim ax) 0 →
      ∃ v, op.kernel E lane = .ok v ∧ op.lane E (Arr.flat lane) kd = .ok (Arr.single v) := by
    intro lane hl
    obtain ⟨v, hv⟩ := CntOp.kernel_ok E op hop lane (length_pos_ne_nil lane _ hl hpos)
    exact ⟨v, hv, CntOp.lane_flat E op lane kd v hv⟩
  obtain ⟨r, h1, h2, h3, h4⟩ := count_spec a E.zero (0 : Nat) ax kd (op.lane E) hwf hnz hax
    (fun lane hl => by obtain ⟨v, _, hv⟩ := hbody lane hl; exact ⟨_, hv, rfl⟩)
  refine ⟨r, h1, h2, h3, ?_⟩
  intro c hc
  obtain ⟨y, v, e1, e2, e3⟩ := h4 c hc
  obtain ⟨v', hv1, hv2⟩ := hbody _ (laneOf_reduced_length a _ c hwf hax hc)
  rw [hv2] at e1
  cases e1
  simp only [Arr.single, List.cons.injEq, and_true] at e2
  exact ⟨v', hv1, by rw [e2]; exact e3⟩

/-- **no axis**: the kernel on the whole buffer (reductions: `[1]`-shaped; scans: the running values of the flattened array;
count family on a rank-1 array or without `keepdims = Some(true)`: `[1]`-shaped) -/
theorem kernel_none_axis (E : Elem α) (a : Arr α) :
    (∀ op : RedOp, reduceOp E op a none = (op.kernel E a.elems >>= fun v => .ok ⟨[v], [1]⟩)) ∧
    (∀ op : ScanOp, scanOp E op a none = .ok ⟨op.kernel E a.elems, [a.elems.length]⟩) ∧
    (∀ kd, kd ≠ some true → countOp E .countNonzero a none kd = .ok ⟨[countK E a.elems], [1]⟩) := by
  refine ⟨fun op => rfl, fun op => ?_, fun kd hk => ?_⟩
  · show op.lane E a.ravel = _
    exact ScanOp.lane_flat E op a.elems
  · simp [countOp, Arr.countAxis, CntOp.lane, Arr.keepdimsTail, hk, Arr.single]

/-- the kernel-backed reductions and scans never panic, whatever the element structure, the array, the axis argument -/
theorem kernel_ops_never_panic (E : Elem α) (a : Arr α) (hwf : a.WF) (axis : Option Int) (rop : RedOp) (sop : ScanOp) :
    reduceOp E rop a axis ≠ .panic ∧ scanOp E sop a axis ≠ .panic := by
  have hr : ∀ x : Arr α, rop.lane E x ≠ .panic := by
    intro x
    by_cases hx : x.elems = []
    · unfold RedOp.lane; rw [hx]
      cases rop <;> simp [RedOp.kernel, maxK, minK, nanmaxK, nanminK]
    · obtain ⟨v, hv⟩ := RedOp.kernel_ok E rop x.elems hx
      simp [RedOp.lane, hv]
  have hs : ∀ x : Arr α, sop.lane E x ≠ .panic := by
    intro x
    simp only [ScanOp.lane, Arr.reshape, Arr.new]
    split <;> exact fun h => nomatch h
  exact ⟨(axis_ops_never_panic a E.zero E.zero axis none (rop.lane E) (fun x _ => rop.lane E x) hwf hr (fun x _ => hr x)).1,
         (axis_ops_never_panic a E.zero E.zero axis none (sop.lane E) (fun x _ => sop.lane E x) hwf hs (fun x _ => hs x)).2.2⟩

/-! ### non-vacuity of the kernel section: the laws have instances, the hypotheses are satisfiable, the definitions compute -/
example : Elem.int.LawfulOrd ∧ IsMonoid Elem.int.add Elem.int.zero ∧ IsMonoid Elem.int.mul Elem.int.one ∧ Elem.int.NanLaws :=
  ⟨Elem.int_lawfulOrd, Elem.int_add_monoid, Elem.int_mul_monoid, Elem.int_nanLaws⟩
example : IsMonoid Elem.nanInt.add Elem.nanInt.zero ∧ IsMonoid Elem.nanInt.mul Elem.nanInt.one ∧ Elem.nanInt.NanLaws :=
  ⟨Elem.nanInt_add_monoid, Elem.nanInt_mul_monoid, Elem.nanInt_nanLaws⟩
example : ([some 1, none, some 3] : List (Option Int)).all Elem.nanInt.isNan = false ∧
    ([none, none] : List (Option Int)).all Elem.nanInt.isNan = true ∧ ([some 1, none] : List (Option Int)).any Elem.nanInt.isNan = true ∧
    ([some 1, none, none] : List (Option Int)).findIdx? Elem.nanInt.isNan = some 1 := by decide
example : ∀ a b : Int, Elem.int.beq a b = true ↔ a = b := fun a b => by simp [Elem.int]
example : sampleI.WF ∧ 0 ∉ sampleI.shape ∧ normalizeAxis sampleI.ndim (-2) < sampleI.ndim := by decide
example := reduce_kernel_spec Elem.int .max sampleI (-2) (by decide) (by decide) (by decide)
example := count_kernel_spec Elem.int .argmax sampleI 1 none (Or.inr Elem.int_lawfulOrd.cmp) (by decide) (by decide) (by decide)
example := count_kernel_spec Elem.nanInt .countNonzero sampleN 1 none (Or.inl rfl) (by decide) (by decide) (by decide)
example : reduceOp Elem.int .sum sampleI (some 1) = .ok ⟨[2, 9, 12, 9], [2, 2]⟩ ∧
    reduceOp Elem.int .max sampleI (some (-2)) = .ok ⟨[4, 9, 5, 6], [2, 2]⟩ ∧
    reduceOp Elem.int .min sampleI (some 0) = .ok ⟨[2, -1, 4, 1, -5, 0], [3, 2]⟩ ∧
    reduceOp Elem.int .prod sampleI none = .ok ⟨[0], [1]⟩ := by decide +kernel
example : scanOp Elem.int .cumsum sampleI (some 1) = .ok ⟨[3, -1, 7, 0, 2, 9, 2, 6, 7, 9, 12, 9], [2, 3, 2]⟩ ∧
    scanOp Elem.int .cumprod sampleI none = .ok ⟨[3, -3, -12, -12, 60, 540, 1080, 6480, 32400, 97200, 486000, 0], [12]⟩ := by
  decide +kernel
example : countOp Elem.int .countNonzero sampleI (some 1) (some true) = .ok ⟨[3, 3, 3, 2], [2, 1, 2]⟩ ∧
    countOp Elem.int .argmax sampleI (some 1) none = .ok ⟨[1, 2, 1, 0], [2, 2]⟩ ∧
    countOp Elem.int .argmin sampleI (some 2) (some false) = .ok ⟨[1, 1, 0, 0, 1, 1], [2, 3]⟩ := by decide +kernel
example : reduceOp Elem.nanInt .sum sampleN (some 1) = .ok ⟨[some 2, none, none, none], [2, 2]⟩ ∧
    reduceOp Elem.nanInt .nansum sampleN (some 1) = .ok ⟨[some 2, some 10, some 10, some 6], [2, 2]⟩ ∧
    reduceOp Elem.nanInt .max sampleN (some 1) = .ok ⟨[some 4, none, none, none], [2, 2]⟩ ∧
    reduceOp Elem.nanInt .nanmin sampleN (some 1) = .ok ⟨[some (-5), some 1, some 5, some 0], [2, 2]⟩ ∧
    scanOp Elem.nanInt .nancumprod sampleN (some 1) =
      .ok ⟨[some 3, some 1, some 12, some 1, some (-60), some 9, some 1, some 6, some 5, some 6, some 25, some 0], [2, 3, 2]⟩ ∧
    countOp Elem.nanInt .argmax sampleN (some 1) none = .ok ⟨[1, 0, 0, 1], [2, 2]⟩ ∧
    countOp Elem.nanInt .countNonzero sampleN (some 1) none = .ok ⟨[3, 3, 3, 2], [2, 2]⟩ := by decide +kernel
example : reduceOp Elem.int .max ⟨[], [0]⟩ (some 0) = .err .ParameterError ∧ reduceOp Elem.int .nanmax ⟨[], [0]⟩ (some 0) = .ok ⟨[0], [1]⟩ ∧
    reduceOp Elem.nanInt .nanmax ⟨[], [0]⟩ none = .ok ⟨[none], [1]⟩ ∧ countOp Elem.int .argmin ⟨[], [0]⟩ none none = .err .ParameterError ∧
    scanOp Elem.int .cumsum ⟨[], [2, 0]⟩ (some 1) = .ok ⟨[], [2, 0]⟩ := by decide +kernel

end kernels

end ArrModel.C08
