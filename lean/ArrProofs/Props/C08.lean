import ArrModel.C08
namespace ArrModel.C08
end ArrModel.C08
