import ArrProofs.Lemmas.C08Reduce
/-!
# C08 — axis-wise reductions and scans equal the 1-D operation on every lane

Model under test: `ArrModel/AlongAxis.lean` (`applyAlongAxis` = `apply_along_axis`, `axis.rs:163-184`: move the axis
last, ravel, `split` into lanes, apply the 1-D body, flatten, reshape, move the axis back with the `axis == 0` arm),
`ArrModel/Split.lean`, `ArrModel/Axis.lean`, and the per-operation wrappers of `ArrModel/C08.lean`
(`reduceAxis` for sum/prod/max/min and the NaN forms, `countAxis` for count_nonzero/argmax/argmin with `keepdims`,
`scanAxis` for cumsum/cumprod and the NaN forms).  The 1-D body `f1` is an arbitrary parameter; the only hypothesis is
the length of its output on a lane (one element for reductions, the lane length for scans).

`laneOf a axis c` = the elements of `a` at `c` with coordinate `axis` replaced by `0, 1, …` (`laneOf_getElem?`,
`laneOf_length`).  All statements hold for every rank, every axis, every axis length ≥ 1 (`0 ∉ a.shape`; arrays
with a zero-length axis are covered by the differential tie only).
-/
namespace ArrModel.C08
open ArrModel Arr
variable {α β : Type}

/-- **the lane theorem** (central lemma, all axes of all ranks): `apply_along_axis` with a lane function producing
`m` elements per lane gives shape `shape[axis := m]`, and the element at `c` is element `c[axis]` of the lane function
applied to the lane through `c`. -/
theorem along_axis_spec (a : Arr α) (zero : α) (zb : β) (axis m : Nat) (f : Arr α → Res (Arr β))
    (hwf : a.WF) (hax : axis < a.ndim) (hnz : 0 ∉ a.shape)
    (hf : ∀ lane : List α, lane.length = a.shape.getD axis 0 → ∃ r, f (Arr.flat lane) = .ok r ∧ r.elems.length = m) :
    ∃ r, a.applyAlongAxis zero zb axis f = .ok r ∧ r.shape = a.shape.set axis m ∧ r.WF ∧
      ∀ c, inRange r.shape c = true →
        (laneOf a axis c).length = a.shape.getD axis 0 ∧
        (∀ j, j < a.shape.getD axis 0 → (laneOf a axis c)[j]? = a.get? (c.set axis j)) ∧
        ∃ y, f (Arr.flat (laneOf a axis c)) = .ok y ∧ r.get? c = y.elems[c.getD axis 0]? := by
  obtain ⟨r, h1, h2, h3, h4⟩ := applyAlongAxis_spec a zero zb axis m f hwf hax hnz hf
  refine ⟨r, h1, h2, h3, ?_⟩
  intro c hc
  have hc' : inRange (a.shape.set axis m) c = true := by rw [← h2]; exact hc
  exact ⟨laneOf_length a axis m c hwf hc', fun j hj => laneOf_getElem? a axis m c hwf hc' j hj, h4 c hc⟩

/-- **reductions** (sum, prod, max, min, nan-forms): the result shape is the input shape without the axis
(`[1]` when the input has rank 1), and the value at every position `c` of the remaining axes is the single element the
1-D operation returns on the lane through that position. -/
theorem reduce_spec (a : Arr α) (zero : α) (zb : β) (ax : Int) (f1 : Arr α → Res (Arr β))
    (hwf : a.WF) (hnz : 0 ∉ a.shape) (hax : normalizeAxis a.ndim ax < a.ndim)
    (hf : ∀ lane : List α, lane.length = a.shape.getD (normalizeAxis a.ndim ax) 0 →
      ∃ y, f1 (Arr.flat lane) = .ok y ∧ y.elems.length = 1) :
    ∃ r, a.reduceAxis zero zb (some ax) f1 = .ok r ∧
      r.shape = (if a.ndim > 1 then a.shape.eraseIdx (normalizeAxis a.ndim ax) else [1]) ∧ r.WF ∧
      ∀ c, inRange (a.shape.eraseIdx (normalizeAxis a.ndim ax)) c = true →
        ∃ y v, f1 (Arr.flat (laneOf a (normalizeAxis a.ndim ax) (c.insertIdx (normalizeAxis a.ndim ax) 0))) = .ok y ∧
          y.elems = [v] ∧ r.get? (if a.ndim > 1 then c else [0]) = some v := by
  generalize haxis : normalizeAxis a.ndim ax = axis at *
  have hax' : axis < a.shape.length := hax
  obtain ⟨r, h1, h2, h3, h4, h5⟩ := applyAlongAxis_single a zero zb axis f1 hwf hax hnz hf
  have hrnd : r.ndim = a.ndim := by simp [Arr.ndim, h2]
  by_cases hnd : a.ndim > 1
  · refine ⟨⟨r.elems, a.shape.eraseIdx axis⟩, ?_, by simp [hnd], h4, ?_⟩
    · simp only [Arr.reduceAxis, haxis, h1, Res.bind_ok, hrnd, hnd, if_true, vecRemove, h2, List.length_set,
        List.eraseIdx_set_eq, Arr.reshape, Arr.new, h4]
      rw [if_neg (by omega)]; simp
    · intro c hc
      obtain ⟨y, v, e1, e2, e3, _⟩ := h5 c hc
      exact ⟨y, v, e1, e2, by simpa [hnd, Arr.get?] using e3⟩
  · have h1d : a.ndim = 1 := by omega
    have h0 : axis = 0 := by omega
    obtain ⟨n, hn⟩ : ∃ n, a.shape = [n] := List.length_eq_one_iff.1 h1d
    have hrs : r.shape = [1] := by rw [h2, hn, h0]; rfl
    refine ⟨r, ?_, by simp [hnd, hrs], h3, ?_⟩
    · simp only [Arr.reduceAxis, haxis, h1, Res.bind_ok, hrnd, hnd, if_false, Arr.reshape, Arr.new]
      rw [if_pos h3.symm]
    · intro c hc
      obtain ⟨y, v, e1, e2, e3, _⟩ := h5 c hc
      refine ⟨y, v, e1, e2, ?_⟩
      have hc0 : c = [] := by
        rw [hn, h0] at hc
        have := inRange_length _ _ hc; simpa using this
      subst hc0
      rw [hn, h0] at e3
      simpa [hnd, Arr.get?, hrs, ravel] using e3

/-- **count / position queries** (count_nonzero, argmax, argmin): with `keepdims = Some(true)` the axis is kept
with length 1, otherwise it is removed; the value at every position of the remaining axes is the single element the
1-D query returns on the lane through that position. -/
theorem count_spec (a : Arr α) (zero : α) (zb : β) (ax : Int) (kd : Option Bool) (f1 : Arr α → Option Bool → Res (Arr β))
    (hwf : a.WF) (hnz : 0 ∉ a.shape) (hax : normalizeAxis a.ndim ax < a.ndim)
    (hf : ∀ lane : List α, lane.length = a.shape.getD (normalizeAxis a.ndim ax) 0 →
      ∃ y, f1 (Arr.flat lane) kd = .ok y ∧ y.elems.length = 1) :
    ∃ r, a.countAxis zero zb (some ax) kd f1 = .ok r ∧
      r.shape = (if kd = some true then a.shape.set (normalizeAxis a.ndim ax) 1 else a.shape.eraseIdx (normalizeAxis a.ndim ax)) ∧
      r.WF ∧
      ∀ c, inRange (a.shape.eraseIdx (normalizeAxis a.ndim ax)) c = true →
        ∃ y v, f1 (Arr.flat (laneOf a (normalizeAxis a.ndim ax) (c.insertIdx (normalizeAxis a.ndim ax) 0))) kd = .ok y ∧
          y.elems = [v] ∧ r.get? (if kd = some true then c.insertIdx (normalizeAxis a.ndim ax) 0 else c) = some v := by
  generalize haxis : normalizeAxis a.ndim ax = axis at *
  have hax' : axis < a.shape.length := hax
  obtain ⟨r, h1, h2, h3, h4, h5⟩ := applyAlongAxis_single a zero zb axis (fun arr => f1 arr kd) hwf hax hnz hf
  by_cases hkd : kd = some true
  · subst hkd
    refine ⟨r, ?_, by simp [h2], h3, ?_⟩
    · simp only [Arr.countAxis, haxis, h1, Res.bind_ok, if_true]
    · intro c hc
      obtain ⟨y, v, e1, e2, _, e4⟩ := h5 c hc
      exact ⟨y, v, e1, e2, by simpa using e4⟩
  · refine ⟨⟨r.elems, a.shape.eraseIdx axis⟩, ?_, by simp [hkd], h4, ?_⟩
    · simp only [Arr.countAxis, haxis, h1, Res.bind_ok, hkd, if_false, vecRemove, Arr.reshape, Arr.new, h4]
      rw [if_neg (by omega)]; simp
    · intro c hc
      obtain ⟨y, v, e1, e2, e3, _⟩ := h5 c hc
      exact ⟨y, v, e1, e2, by simpa [hkd, Arr.get?] using e3⟩

/-- **scans** (cumsum, cumprod, nan-forms): the shape is kept and every lane is replaced by the output of the 1-D
scan on that lane. -/
theorem scan_spec (a : Arr α) (zero : α) (zb : β) (ax : Int) (f1 : Arr α → Res (Arr β))
    (hwf : a.WF) (hnz : 0 ∉ a.shape) (hax : normalizeAxis a.ndim ax < a.ndim)
    (hf : ∀ lane : List α, lane.length = a.shape.getD (normalizeAxis a.ndim ax) 0 →
      ∃ y, f1 (Arr.flat lane) = .ok y ∧ y.elems.length = lane.length) :
    ∃ r, a.scanAxis zero zb (some ax) f1 = .ok r ∧ r.shape = a.shape ∧ r.WF ∧
      ∀ c, inRange a.shape c = true →
        ∃ y v, f1 (Arr.flat (laneOf a (normalizeAxis a.ndim ax) c)) = .ok y ∧
          y.elems[c.getD (normalizeAxis a.ndim ax) 0]? = some v ∧ r.get? c = some v := by
  generalize haxis : normalizeAxis a.ndim ax = axis at *
  obtain ⟨r, h1, h2, h3, h4⟩ := applyAlongAxis_spec a zero zb axis (a.shape.getD axis 0) f1 hwf hax hnz
    (fun lane hl => by obtain ⟨y, e1, e2⟩ := hf lane hl; exact ⟨y, e1, e2.trans hl⟩)
  rw [set_getD_self] at h2
  refine ⟨r, by simpa [Arr.scanAxis, haxis] using h1, h2, h3, ?_⟩
  intro c hc
  obtain ⟨y, e1, e2⟩ := h4 c (by rw [h2]; exact hc)
  have hc' : inRange (a.shape.set axis (a.shape.getD axis 0)) c = true := by rw [set_getD_self]; exact hc
  have hl := laneOf_length a axis _ c hwf hc'
  obtain ⟨y', e3, e4⟩ := hf _ hl
  rw [e1] at e3; cases e3
  have hj : c.getD axis 0 < y.elems.length := by
    rw [e4, hl]; exact inRange_getD_lt _ _ _ hc hax
  exact ⟨y, y.elems[c.getD axis 0], e1, List.getElem?_eq_getElem hj, by rw [e2, List.getElem?_eq_getElem hj]⟩

/-- **a negative axis denotes the same axis counted from the end** -/
theorem normalize_neg_axis (nd k : Nat) (hk : k < nd) : normalizeAxis nd ((k : Int) - (nd : Int)) = k := by
  have := C06.normalize_neg nd ((k : Int) - (nd : Int)) (by omega) (by omega)
  omega

theorem neg_axis_reduce (a : Arr α) (zero : α) (zb : β) (k : Nat) (hk : k < a.ndim) (f1 : Arr α → Res (Arr β)) :
    a.reduceAxis zero zb (some ((k : Int) - (a.ndim : Int))) f1 = a.reduceAxis zero zb (some (k : Int)) f1 := by
  have e : normalizeAxis a.ndim (k : Int) = k := normalizeAxis_ofNat _ _
  simp only [Arr.reduceAxis, normalize_neg_axis a.ndim k hk, e]

theorem neg_axis_count (a : Arr α) (zero : α) (zb : β) (k : Nat) (hk : k < a.ndim) (kd : Option Bool)
    (f1 : Arr α → Option Bool → Res (Arr β)) :
    a.countAxis zero zb (some ((k : Int) - (a.ndim : Int))) kd f1 = a.countAxis zero zb (some (k : Int)) kd f1 := by
  have e : normalizeAxis a.ndim (k : Int) = k := normalizeAxis_ofNat _ _
  simp only [Arr.countAxis, normalize_neg_axis a.ndim k hk, e]

theorem neg_axis_scan (a : Arr α) (zero : α) (zb : β) (k : Nat) (hk : k < a.ndim) (f1 : Arr α → Res (Arr β)) :
    a.scanAxis zero zb (some ((k : Int) - (a.ndim : Int))) f1 = a.scanAxis zero zb (some (k : Int)) f1 := by
  have e : normalizeAxis a.ndim (k : Int) = k := normalizeAxis_ofNat _ _
  simp only [Arr.scanAxis, normalize_neg_axis a.ndim k hk, e]

/-- **with no axis the operation acts on the flattened array**: a reduction is the 1-D body on the array itself (the
1-D bodies fold over `elements` only), a scan is the 1-D body on `ravel`.  (These two arms are the definitions of the
wrappers; that the real code takes them is established by the differential tie.) -/
theorem none_axis (a : Arr α) (zero : α) (zb : β) (f1 : Arr α → Res (Arr β)) (kd : Option Bool)
    (g1 : Arr α → Option Bool → Res (Arr β)) :
    a.reduceAxis zero zb none f1 = f1 a ∧ a.countAxis zero zb none kd g1 = g1 a kd ∧
    a.scanAxis zero zb none f1 = f1 (Arr.flat a.elems) := ⟨rfl, rfl, rfl⟩

/-- every axis number outside `-rank .. rank-1` (inside the `isize` range) normalises to something `≥ rank` … -/
theorem normalize_out_of_range (nd : Nat) (ax : Int) (hnd : nd < 2 ^ 63) (hlo : -(2 ^ 63 : Int) ≤ ax)
    (h : ax ≥ nd ∨ ax < -(nd : Int)) : normalizeAxis nd ax ≥ nd := by
  unfold normalizeAxis USIZE
  rcases h with h | h
  · rw [if_neg (by omega)]; omega
  · rw [if_pos (by omega)]
    simp only
    rw [if_pos (by omega)]
    omega

/-- … and **an out-of-range axis is refused with an error** by all three families (never a panic, never data) -/
theorem axis_out_of_range (a : Arr α) (zero : α) (zb : β) (ax : Int) (h : normalizeAxis a.ndim ax ≥ a.ndim)
    (f1 : Arr α → Res (Arr β)) (kd : Option Bool) (g1 : Arr α → Option Bool → Res (Arr β)) :
    a.reduceAxis zero zb (some ax) f1 = .err .AxisOutOfBounds ∧
    a.countAxis zero zb (some ax) kd g1 = .err .AxisOutOfBounds ∧
    a.scanAxis zero zb (some ax) f1 = .err .AxisOutOfBounds := by
  simp only [Arr.reduceAxis, Arr.countAxis, Arr.scanAxis, applyAlongAxis_axis_err _ _ _ _ _ h, Res.bind_err, and_self]

/-! ### non-vacuity: a `[2,3,2,2]` array, axis 1 (a middle axis of a rank-4 array — the case the pinned tree got wrong) -/
example : sample.WF ∧ 0 ∉ sample.shape ∧ normalizeAxis sample.ndim 1 < sample.ndim ∧ normalizeAxis sample.ndim (-3) = 1 := by decide
-- the hypotheses on the 1-D bodies are satisfiable (sum returns one element, cumsum as many as the lane has)
example : ∀ lane : List Nat, ∃ y, sumBody (Arr.flat lane) = .ok y ∧ y.elems.length = 1 := fun _ => ⟨_, rfl, rfl⟩
example : ∀ lane : List Nat, ∃ y, cumsumBody (Arr.flat lane) = .ok y ∧ y.elems.length = lane.length :=
  fun _ => ⟨_, rfl, by simp [Arr.flat]⟩
example : ∀ (lane : List Nat) kd, ∃ y, countBody (Arr.flat lane) kd = .ok y ∧ y.elems.length = 1 := by
  intro lane kd
  refine ⟨Arr.single ((Arr.flat lane).elems.filter (· != 0)).length, ?_, rfl⟩
  by_cases h : kd = some true
  · simp [countBody, keepdimsTail, h, Arr.flat, Arr.ndim, Arr.atleast, Arr.atleast1d]
  · simp [countBody, keepdimsTail, h]
-- so the theorems apply to the sample:
example := reduce_spec sample 0 0 1 sumBody (by decide) (by decide) (by decide) (fun _ _ => ⟨_, rfl, rfl⟩)
example := scan_spec sample 0 0 (-3) cumsumBody (by decide) (by decide) (by decide) (fun _ _ => ⟨_, rfl, by simp [Arr.flat]⟩)
-- and what they describe, computed by the model:
example : laneOf sample 1 [1, 0, 1, 0] = [14, 18, 22] := by decide +kernel
example : sample.reduceAxis 0 0 (some 1) sumBody = .ok ⟨[12, 15, 18, 21, 48, 51, 54, 57], [2, 2, 2]⟩ := by decide +kernel
example : sample.reduceAxis 0 0 (some (-3)) sumBody = sample.reduceAxis 0 0 (some 1) sumBody := by decide +kernel
example : sample.scanAxis 0 0 (some 1) cumsumBody =
    .ok ⟨[0, 1, 2, 3, 4, 6, 8, 10, 12, 15, 18, 21, 12, 13, 14, 15, 28, 30, 32, 34, 48, 51, 54, 57], [2, 3, 2, 2]⟩ := by decide +kernel
example : sample.countAxis 0 0 (some 1) (some true) countBody = .ok ⟨[2, 3, 3, 3, 3, 3, 3, 3], [2, 1, 2, 2]⟩ := by decide +kernel
example : sample.countAxis 0 0 (some 1) none countBody = .ok ⟨[2, 3, 3, 3, 3, 3, 3, 3], [2, 2, 2]⟩ := by decide +kernel
example : (⟨[5, 6, 7], [3]⟩ : Arr Nat).reduceAxis 0 0 (some 0) sumBody = .ok ⟨[18], [1]⟩ := by decide +kernel
example : sample.reduceAxis 0 0 (some 4) sumBody = .err .AxisOutOfBounds ∧
    sample.reduceAxis 0 0 (some (-5)) sumBody = .err .AxisOutOfBounds := by decide +kernel

end ArrModel.C08
