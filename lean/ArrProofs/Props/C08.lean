import ArrProofs.Lemmas.C08Reduce
import ArrProofs.Lemmas.C08Empty
/-!
# C08 — axis-wise reductions and scans equal the 1-D operation on every lane

Model under test: `ArrModel/AlongAxis.lean` (`applyAlongAxis` = `apply_along_axis`, `axis.rs:163-184`: move the axis
last, ravel, `split` into lanes, apply the 1-D body, flatten, reshape, move the axis back with the `axis == 0` arm),
`ArrModel/Split.lean`, `ArrModel/Axis.lean`, and the per-operation wrappers of `ArrModel/C08.lean`
(`reduceAxis` for sum/prod/max/min and the NaN forms, `countAxis` for count_nonzero/argmax/argmin with `keepdims`,
`scanAxis` for cumsum/cumprod and the NaN forms).  The 1-D body `f1` is an arbitrary parameter; the only hypothesis is
the length of its output on a lane (one element for reductions, the lane length for scans).

`laneOf a axis c` = the elements of `a` at `c` with coordinate `axis` replaced by `0, 1, …` (`laneOf_getElem?`,
`laneOf_length`).  The lane statements hold for every rank, every axis, every axis length ≥ 1 (`0 ∉ a.shape`); the last
section says what the model does on arrays WITH a zero-length axis (`along_axis_empty_axis`, `reduce_empty_axis`, …) and
gives the statements that hold for every well-formed array (`along_axis_total`, `axis_ops_never_panic`).
-/
namespace ArrModel.C08
open ArrModel Arr
variable {α β : Type}

/-- **the lane theorem** (central lemma, all axes of all ranks): `apply_along_axis` with a lane function producing
`m` elements per lane gives shape `shape[axis := m]`, and the element at `c` is element `c[axis]` of the lane function
applied to the lane through `c`. -/
theorem along_axis_spec (a : Arr α) (zero : α) (zb : β) (axis m : Nat) (f : Arr α → Res (Arr β))
    (hwf : a.WF) (hax : axis < a.ndim) (hnz : 0 ∉ a.shape)
    (hf : ∀ lane : List α, lane.length = a.shape.getD axis 0 → ∃ r, f (Arr.flat lane) = .ok r ∧ r.elems.length = m) :
    ∃ r, a.applyAlongAxis zero zb axis f = .ok r ∧ r.shape = a.shape.set axis m ∧ r.WF ∧
      ∀ c, inRange r.shape c = true →
        (laneOf a axis c).length = a.shape.getD axis 0 ∧
        (∀ j, j < a.shape.getD axis 0 → (laneOf a axis c)[j]? = a.get? (c.set axis j)) ∧
        ∃ y, f (Arr.flat (laneOf a axis c)) = .ok y ∧ r.get? c = y.elems[c.getD axis 0]? := by
  obtain ⟨r, h1, h2, h3, h4⟩ := applyAlongAxis_spec a zero zb axis m f hwf hax hnz hf
  refine ⟨r, h1, h2, h3, ?_⟩
  intro c hc
  have hc' : inRange (a.shape.set axis m) c = true := by rw [← h2]; exact hc
  exact ⟨laneOf_length a axis m c hwf hc', fun j hj => laneOf_getElem? a axis m c hwf hc' j hj, h4 c hc⟩

/-- **reductions** (sum, prod, max, min, nan-forms): the result shape is the input shape without the axis
(`[1]` when the input has rank 1), and the value at every position `c` of the remaining axes is the single element the
1-D operation returns on the lane through that position. -/
theorem reduce_spec (a : Arr α) (zero : α) (zb : β) (ax : Int) (f1 : Arr α → Res (Arr β))
    (hwf : a.WF) (hnz : 0 ∉ a.shape) (hax : normalizeAxis a.ndim ax < a.ndim)
    (hf : ∀ lane : List α, lane.length = a.shape.getD (normalizeAxis a.ndim ax) 0 →
      ∃ y, f1 (Arr.flat lane) = .ok y ∧ y.elems.length = 1) :
    ∃ r, a.reduceAxis zero zb (some ax) f1 = .ok r ∧
      r.shape = (if a.ndim > 1 then a.shape.eraseIdx (normalizeAxis a.ndim ax) else [1]) ∧ r.WF ∧
      ∀ c, inRange (a.shape.eraseIdx (normalizeAxis a.ndim ax)) c = true →
        ∃ y v, f1 (Arr.flat (laneOf a (normalizeAxis a.ndim ax) (c.insertIdx (normalizeAxis a.ndim ax) 0))) = .ok y ∧
          y.elems = [v] ∧ r.get? (if a.ndim > 1 then c else [0]) = some v := by
  generalize haxis : normalizeAxis a.ndim ax = axis at *
  have hax' : axis < a.shape.length := hax
  obtain ⟨r, h1, h2, h3, h4, h5⟩ := applyAlongAxis_single a zero zb axis f1 hwf hax hnz hf
  have hrnd : r.ndim = a.ndim := by simp [Arr.ndim, h2]
  by_cases hnd : a.ndim > 1
  · refine ⟨⟨r.elems, a.shape.eraseIdx axis⟩, ?_, by simp [hnd], h4, ?_⟩
    · simp only [Arr.reduceAxis, haxis, h1, Res.bind_ok, hrnd, hnd, if_true, vecRemove, h2, List.length_set,
        List.eraseIdx_set_eq, Arr.reshape, Arr.new, h4]
      rw [if_neg (by omega)]; simp
    · intro c hc
      obtain ⟨y, v, e1, e2, e3, _⟩ := h5 c hc
      exact ⟨y, v, e1, e2, by simpa [hnd, Arr.get?] using e3⟩
  · have h1d : a.ndim = 1 := by omega
    have h0 : axis = 0 := by omega
    obtain ⟨n, hn⟩ : ∃ n, a.shape = [n] := List.length_eq_one_iff.1 h1d
    have hrs : r.shape = [1] := by rw [h2, hn, h0]; rfl
    refine ⟨r, ?_, by simp [hnd, hrs], h3, ?_⟩
    · simp only [Arr.reduceAxis, haxis, h1, Res.bind_ok, hrnd, hnd, if_false, Arr.reshape, Arr.new]
      rw [if_pos h3.symm]
    · intro c hc
      obtain ⟨y, v, e1, e2, e3, _⟩ := h5 c hc
      refine ⟨y, v, e1, e2, ?_⟩
      have hc0 : c = [] := by
        rw [hn, h0] at hc
        have := inRange_length _ _ hc; simpa using this
      subst hc0
      rw [hn, h0] at e3
      simpa [hnd, Arr.get?, hrs, ravel] using e3

/-- **count / position queries** (count_nonzero, argmax, argmin): with `keepdims = Some(true)` the axis is kept
with length 1, otherwise it is removed; the value at every position of the remaining axes is the single element the
1-D query returns on the lane through that position. -/
theorem count_spec (a : Arr α) (zero : α) (zb : β) (ax : Int) (kd : Option Bool) (f1 : Arr α → Option Bool → Res (Arr β))
    (hwf : a.WF) (hnz : 0 ∉ a.shape) (hax : normalizeAxis a.ndim ax < a.ndim)
    (hf : ∀ lane : List α, lane.length = a.shape.getD (normalizeAxis a.ndim ax) 0 →
      ∃ y, f1 (Arr.flat lane) kd = .ok y ∧ y.elems.length = 1) :
    ∃ r, a.countAxis zero zb (some ax) kd f1 = .ok r ∧
      r.shape = (if kd = some true then a.shape.set (normalizeAxis a.ndim ax) 1 else a.shape.eraseIdx (normalizeAxis a.ndim ax)) ∧
      r.WF ∧
      ∀ c, inRange (a.shape.eraseIdx (normalizeAxis a.ndim ax)) c = true →
        ∃ y v, f1 (Arr.flat (laneOf a (normalizeAxis a.ndim ax) (c.insertIdx (normalizeAxis a.ndim ax) 0))) kd = .ok y ∧
          y.elems = [v] ∧ r.get? (if kd = some true then c.insertIdx (normalizeAxis a.ndim ax) 0 else c) = some v := by
  generalize haxis : normalizeAxis a.ndim ax = axis at *
  have hax' : axis < a.shape.length := hax
  obtain ⟨r, h1, h2, h3, h4, h5⟩ := applyAlongAxis_single a zero zb axis (fun arr => f1 arr kd) hwf hax hnz hf
  by_cases hkd : kd = some true
  · subst hkd
    refine ⟨r, ?_, by simp [h2], h3, ?_⟩
    · simp only [Arr.countAxis, haxis, h1, Res.bind_ok, if_true]
    · intro c hc
      obtain ⟨y, v, e1, e2, _, e4⟩ := h5 c hc
      exact ⟨y, v, e1, e2, by simpa using e4⟩
  · refine ⟨⟨r.elems, a.shape.eraseIdx axis⟩, ?_, by simp [hkd], h4, ?_⟩
    · simp only [Arr.countAxis, haxis, h1, Res.bind_ok, hkd, if_false, vecRemove, Arr.reshape, Arr.new, h4]
      rw [if_neg (by omega)]; simp
    · intro c hc
      obtain ⟨y, v, e1, e2, e3, _⟩ := h5 c hc
      exact ⟨y, v, e1, e2, by simpa [hkd, Arr.get?] using e3⟩

/-- **scans** (cumsum, cumprod, nan-forms): the shape is kept and every lane is replaced by the output of the 1-D
scan on that lane. -/
theorem scan_spec (a : Arr α) (zero : α) (zb : β) (ax : Int) (f1 : Arr α → Res (Arr β))
    (hwf : a.WF) (hnz : 0 ∉ a.shape) (hax : normalizeAxis a.ndim ax < a.ndim)
    (hf : ∀ lane : List α, lane.length = a.shape.getD (normalizeAxis a.ndim ax) 0 →
      ∃ y, f1 (Arr.flat lane) = .ok y ∧ y.elems.length = lane.length) :
    ∃ r, a.scanAxis zero zb (some ax) f1 = .ok r ∧ r.shape = a.shape ∧ r.WF ∧
      ∀ c, inRange a.shape c = true →
        ∃ y v, f1 (Arr.flat (laneOf a (normalizeAxis a.ndim ax) c)) = .ok y ∧
          y.elems[c.getD (normalizeAxis a.ndim ax) 0]? = some v ∧ r.get? c = some v := by
  generalize haxis : normalizeAxis a.ndim ax = axis at *
  obtain ⟨r, h1, h2, h3, h4⟩ := applyAlongAxis_spec a zero zb axis (a.shape.getD axis 0) f1 hwf hax hnz
    (fun lane hl => by obtain ⟨y, e1, e2⟩ := hf lane hl; exact ⟨y, e1, e2.trans hl⟩)
  rw [set_getD_self] at h2
  refine ⟨r, by simpa [Arr.scanAxis, haxis] using h1, h2, h3, ?_⟩
  intro c hc
  obtain ⟨y, e1, e2⟩ := h4 c (by rw [h2]; exact hc)
  have hc' : inRange (a.shape.set axis (a.shape.getD axis 0)) c = true := by rw [set_getD_self]; exact hc
  have hl := laneOf_length a axis _ c hwf hc'
  obtain ⟨y', e3, e4⟩ := hf _ hl
  rw [e1] at e3; cases e3
  have hj : c.getD axis 0 < y.elems.length := by
    rw [e4, hl]; exact inRange_getD_lt _ _ _ hc hax
  exact ⟨y, y.elems[c.getD axis 0], e1, List.getElem?_eq_getElem hj, by rw [e2, List.getElem?_eq_getElem hj]⟩

/-- **a negative axis denotes the same axis counted from the end** -/
theorem normalize_neg_axis (nd k : Nat) (hk : k < nd) : normalizeAxis nd ((k : Int) - (nd : Int)) = k := by
  have := C06.normalize_neg nd ((k : Int) - (nd : Int)) (by omega) (by omega)
  omega

theorem neg_axis_reduce (a : Arr α) (zero : α) (zb : β) (k : Nat) (hk : k < a.ndim) (f1 : Arr α → Res (Arr β)) :
    a.reduceAxis zero zb (some ((k : Int) - (a.ndim : Int))) f1 = a.reduceAxis zero zb (some (k : Int)) f1 := by
  have e : normalizeAxis a.ndim (k : Int) = k := normalizeAxis_ofNat _ _
  simp only [Arr.reduceAxis, normalize_neg_axis a.ndim k hk, e]

theorem neg_axis_count (a : Arr α) (zero : α) (zb : β) (k : Nat) (hk : k < a.ndim) (kd : Option Bool)
    (f1 : Arr α → Option Bool → Res (Arr β)) :
    a.countAxis zero zb (some ((k : Int) - (a.ndim : Int))) kd f1 = a.countAxis zero zb (some (k : Int)) kd f1 := by
  have e : normalizeAxis a.ndim (k : Int) = k := normalizeAxis_ofNat _ _
  simp only [Arr.countAxis, normalize_neg_axis a.ndim k hk, e]

theorem neg_axis_scan (a : Arr α) (zero : α) (zb : β) (k : Nat) (hk : k < a.ndim) (f1 : Arr α → Res (Arr β)) :
    a.scanAxis zero zb (some ((k : Int) - (a.ndim : Int))) f1 = a.scanAxis zero zb (some (k : Int)) f1 := by
  have e : normalizeAxis a.ndim (k : Int) = k := normalizeAxis_ofNat _ _
  simp only [Arr.scanAxis, normalize_neg_axis a.ndim k hk, e]

/-- **with no axis the operation acts on the flattened array**: a reduction is the 1-D body on the array itself (the
1-D bodies fold over `elements` only), a scan is the 1-D body on `ravel`.  (These two arms are the definitions of the
wrappers; that the real code takes them is established by the differential tie.) -/
theorem none_axis (a : Arr α) (zero : α) (zb : β) (f1 : Arr α → Res (Arr β)) (kd : Option Bool)
    (g1 : Arr α → Option Bool → Res (Arr β)) :
    a.reduceAxis zero zb none f1 = f1 a ∧ a.countAxis zero zb none kd g1 = g1 a kd ∧
    a.scanAxis zero zb none f1 = f1 (Arr.flat a.elems) := ⟨rfl, rfl, rfl⟩

/-- every axis number outside `-rank .. rank-1` (inside the `isize` range) normalises to something `≥ rank` … -/
theorem normalize_out_of_range (nd : Nat) (ax : Int) (hnd : nd < 2 ^ 63) (hlo : -(2 ^ 63 : Int) ≤ ax)
    (h : ax ≥ nd ∨ ax < -(nd : Int)) : normalizeAxis nd ax ≥ nd := by
  unfold normalizeAxis USIZE
  rcases h with h | h
  · rw [if_neg (by omega)]; omega
  · rw [if_pos (by omega)]
    simp only
    rw [if_pos (by omega)]
    omega

/-- … and **an out-of-range axis is refused with an error** by all three families (never a panic, never data) -/
theorem axis_out_of_range (a : Arr α) (zero : α) (zb : β) (ax : Int) (h : normalizeAxis a.ndim ax ≥ a.ndim)
    (f1 : Arr α → Res (Arr β)) (kd : Option Bool) (g1 : Arr α → Option Bool → Res (Arr β)) :
    a.reduceAxis zero zb (some ax) f1 = .err .AxisOutOfBounds ∧
    a.countAxis zero zb (some ax) kd g1 = .err .AxisOutOfBounds ∧
    a.scanAxis zero zb (some ax) f1 = .err .AxisOutOfBounds := by
  simp only [Arr.reduceAxis, Arr.countAxis, Arr.scanAxis, applyAlongAxis_axis_err _ _ _ _ _ h, Res.bind_err, and_self]

/-! ### non-vacuity: a `[2,3,2,2]` array, axis 1 (a middle axis of a rank-4 array — the case the pinned tree got wrong) -/
example : sample.WF ∧ 0 ∉ sample.shape ∧ normalizeAxis sample.ndim 1 < sample.ndim ∧ normalizeAxis sample.ndim (-3) = 1 := by decide
-- the hypotheses on the 1-D bodies are satisfiable (sum returns one element, cumsum as many as the lane has)
example : ∀ lane : List Nat, ∃ y, sumBody (Arr.flat lane) = .ok y ∧ y.elems.length = 1 := fun _ => ⟨_, rfl, rfl⟩
example : ∀ lane : List Nat, ∃ y, cumsumBody (Arr.flat lane) = .ok y ∧ y.elems.length = lane.length :=
  fun _ => ⟨_, rfl, by simp [Arr.flat]⟩
example : ∀ (lane : List Nat) kd, ∃ y, countBody (Arr.flat lane) kd = .ok y ∧ y.elems.length = 1 := by
  intro lane kd
  refine ⟨Arr.single ((Arr.flat lane).elems.filter (· != 0)).length, ?_, rfl⟩
  by_cases h : kd = some true
  · simp [countBody, keepdimsTail, h, Arr.flat, Arr.ndim, Arr.atleast, Arr.atleast1d]
  · simp [countBody, keepdimsTail, h]
-- so the theorems apply to the sample:
example := reduce_spec sample 0 0 1 sumBody (by decide) (by decide) (by decide) (fun _ _ => ⟨_, rfl, rfl⟩)
example := scan_spec sample 0 0 (-3) cumsumBody (by decide) (by decide) (by decide) (fun _ _ => ⟨_, rfl, by simp [Arr.flat]⟩)
-- and what they describe, computed by the model:
example : laneOf sample 1 [1, 0, 1, 0] = [14, 18, 22] := by decide +kernel
example : sample.reduceAxis 0 0 (some 1) sumBody = .ok ⟨[12, 15, 18, 21, 48, 51, 54, 57], [2, 2, 2]⟩ := by decide +kernel
example : sample.reduceAxis 0 0 (some (-3)) sumBody = sample.reduceAxis 0 0 (some 1) sumBody := by decide +kernel
example : sample.scanAxis 0 0 (some 1) cumsumBody =
    .ok ⟨[0, 1, 2, 3, 4, 6, 8, 10, 12, 15, 18, 21, 12, 13, 14, 15, 28, 30, 32, 34, 48, 51, 54, 57], [2, 3, 2, 2]⟩ := by decide +kernel
example : sample.countAxis 0 0 (some 1) (some true) countBody = .ok ⟨[2, 3, 3, 3, 3, 3, 3, 3], [2, 1, 2, 2]⟩ := by decide +kernel
example : sample.countAxis 0 0 (some 1) none countBody = .ok ⟨[2, 3, 3, 3, 3, 3, 3, 3], [2, 2, 2]⟩ := by decide +kernel
example : (⟨[5, 6, 7], [3]⟩ : Arr Nat).reduceAxis 0 0 (some 0) sumBody = .ok ⟨[18], [1]⟩ := by decide +kernel
example : sample.reduceAxis 0 0 (some 4) sumBody = .err .AxisOutOfBounds ∧
    sample.reduceAxis 0 0 (some (-5)) sumBody = .err .AxisOutOfBounds := by decide +kernel

/-! ### arrays with a zero-length axis, and the total statements (extension; proofs in `Lemmas/C08Empty.lean`)

The theorems above assume `0 ∉ a.shape`.  What follows says what the MODEL does on every well-formed array that HAS a
zero-length axis (such an array has no elements), for every rank and every axis, and closes with statements that hold for
EVERY well-formed array.  `rest = a.shape.eraseIdx axis` are the other axes.
* another axis is empty (`0 ∈ rest`): `parts = rest.prod = 0`, `split(0, None)` refuses: `Err(ParameterError)`;
* only the processed axis is empty: `parts > 0`, the moved array is empty, `split` returns the single empty piece, the
  1-D body is applied ONCE to the empty lane `Arr.flat []`; its answer `y` is reshaped to `rest ++ [y.len]`, which fits
  exactly when `rest.prod = 1 ∨ y.len = 0`; an error of the body on the empty lane (max / min / argmax / argmin) is passed on.
That the real crate does the same on these arrays is established by the zero-length stream of the differential tie. -/

/-- **another axis has length 0**: `apply_along_axis` answers `Err(ParameterError)` whatever the lane function -/
theorem along_axis_other_axis_empty (a : Arr α) (zero : α) (zb : β) (axis : Nat) (f : Arr α → Res (Arr β))
    (hwf : a.WF) (hax : axis < a.ndim) (h0 : 0 ∈ a.shape.eraseIdx axis) :
    a.applyAlongAxis zero zb axis f = .err .ParameterError :=
  applyAlongAxis_other_zero a zero zb axis f hwf hax h0

/-- **only the processed axis has length 0**: the complete outcome in terms of `f (Arr.flat [])` -/
theorem along_axis_empty_axis (a : Arr α) (zero : α) (zb : β) (axis : Nat) (f : Arr α → Res (Arr β))
    (hwf : a.WF) (hax : axis < a.ndim) (hrest : 0 ∉ a.shape.eraseIdx axis) (hn : a.shape.getD axis 0 = 0) :
    a.applyAlongAxis zero zb axis f = f (Arr.flat []) >>= fun y =>
      if (a.shape.eraseIdx axis).prod = 1 ∨ y.elems.length = 0 then .ok ⟨y.elems, a.shape.set axis y.elems.length⟩
      else .err .ShapeMustMatchValuesLength :=
  applyAlongAxis_axis_zero a zero zb axis f hwf hax hrest hn

/-- the two cases are exhaustive: a shape containing 0 has the zero on another axis, or only on the processed one -/
theorem empty_axis_cases (a : Arr α) (axis : Nat) (hax : axis < a.ndim) (h0 : 0 ∈ a.shape) :
    0 ∈ a.shape.eraseIdx axis ∨ (0 ∉ a.shape.eraseIdx axis ∧ a.shape.getD axis 0 = 0) :=
  zero_mem_cases a.shape axis hax h0

/-- **total statement for `apply_along_axis`**: EVERY well-formed array (with or without zero-length axes), every axis
(in range or not), every lane function that never panics — no assumption on the lengths it returns —: the answer is `Ok`
with a well-formed array of the same rank, or `Err`; never a panic -/
theorem along_axis_total (a : Arr α) (zero : α) (zb : β) (axis : Nat) (f : Arr α → Res (Arr β))
    (hwf : a.WF) (hf : ∀ x, f x ≠ .panic) :
    ((∃ r, a.applyAlongAxis zero zb axis f = .ok r ∧ r.WF ∧ r.ndim = a.ndim) ∨
     (∃ e, a.applyAlongAxis zero zb axis f = .err e)) ∧ a.applyAlongAxis zero zb axis f ≠ .panic :=
  ⟨applyAlongAxis_total a zero zb axis f hwf hf, applyAlongAxis_never_panics a zero zb axis f hwf hf⟩

/-- **all three families refuse when another axis is empty** -/
theorem axis_ops_other_axis_empty (a : Arr α) (zero : α) (zb : β) (ax : Int) (hwf : a.WF)
    (hax : normalizeAxis a.ndim ax < a.ndim) (h0 : 0 ∈ a.shape.eraseIdx (normalizeAxis a.ndim ax))
    (f1 : Arr α → Res (Arr β)) (kd : Option Bool) (g1 : Arr α → Option Bool → Res (Arr β)) :
    a.reduceAxis zero zb (some ax) f1 = .err .ParameterError ∧
    a.countAxis zero zb (some ax) kd g1 = .err .ParameterError ∧
    a.scanAxis zero zb (some ax) f1 = .err .ParameterError := by
  simp only [Arr.reduceAxis, Arr.countAxis, Arr.scanAxis, applyAlongAxis_other_zero _ _ _ _ _ hwf hax h0, Res.bind_err,
    and_self]

/-- **reductions along an empty axis** (the other axes non-empty): the 1-D body is asked once, on the empty lane; at
rank 1 its answer is the result; at rank > 1 the answer is kept only when it has one element and all other axes have
length 1 (otherwise the reshape refuses with `ShapeMustMatchValuesLength`); an error of the body is passed on -/
theorem reduce_empty_axis (a : Arr α) (zero : α) (zb : β) (ax : Int) (f1 : Arr α → Res (Arr β))
    (hwf : a.WF) (hax : normalizeAxis a.ndim ax < a.ndim)
    (hrest : 0 ∉ a.shape.eraseIdx (normalizeAxis a.ndim ax)) (hn : a.shape.getD (normalizeAxis a.ndim ax) 0 = 0) :
    a.reduceAxis zero zb (some ax) f1 = f1 (Arr.flat []) >>= fun y =>
      if a.ndim > 1 then
        (if (a.shape.eraseIdx (normalizeAxis a.ndim ax)).prod = 1 ∧ y.elems.length = 1
         then .ok ⟨y.elems, a.shape.eraseIdx (normalizeAxis a.ndim ax)⟩ else .err .ShapeMustMatchValuesLength)
      else .ok ⟨y.elems, [y.elems.length]⟩ := by
  generalize haxis : normalizeAxis a.ndim ax = axis at *
  have hax' : axis < a.shape.length := hax
  have hP : 0 < (a.shape.eraseIdx axis).prod := prod_pos_of_not_mem _ hrest
  simp only [Arr.reduceAxis, haxis, applyAlongAxis_axis_zero a zero zb axis f1 hwf hax hrest hn]
  cases f1 (Arr.flat []) with
  | err e => rfl
  | panic => rfl
  | ok y =>
    simp only [Res.bind_ok]
    by_cases hnd : a.ndim > 1
    · have hnd' : a.shape.length > 1 := hnd
      rw [if_pos hnd]
      by_cases hc : (a.shape.eraseIdx axis).prod = 1 ∨ y.elems.length = 0
      · rw [if_pos hc]
        simp only [Res.bind_ok, Arr.ndim, List.length_set, hnd', if_true, vecRemove, List.eraseIdx_set_eq, Arr.reshape, Arr.new]
        rw [if_neg (by omega)]
        simp only [Res.bind_ok]
        by_cases h1 : (a.shape.eraseIdx axis).prod = 1 ∧ y.elems.length = 1
        · rw [if_pos h1, if_pos (by omega)]
        · rw [if_neg h1, if_neg (by omega)]
      · rw [if_neg hc, if_neg (by omega)]; rfl
    · have h1d : a.shape.length = 1 := by have : a.ndim ≥ 1 := by omega
                                          simp only [Arr.ndim] at this hnd; omega
      obtain ⟨n, hs⟩ := List.length_eq_one_iff.1 h1d
      have h0 : axis = 0 := by omega
      subst h0
      rw [if_neg hnd, if_pos (Or.inl (by rw [hs]; rfl))]
      simp only [Res.bind_ok, Arr.ndim, Arr.reshape, Arr.new, hs, List.set_cons_zero, List.length_cons, List.length_nil,
        Nat.zero_add, Nat.lt_irrefl, if_false, List.prod_cons, List.prod_nil, Nat.mul_one, if_true]

/-- **count / position queries along an empty axis**: with `keepdims = Some(true)` the answer of the 1-D query on the
empty lane is kept along the axis when it fits; otherwise the axis is removed, which fits only a one-element answer
when all other axes have length 1 -/
theorem count_empty_axis (a : Arr α) (zero : α) (zb : β) (ax : Int) (kd : Option Bool) (g1 : Arr α → Option Bool → Res (Arr β))
    (hwf : a.WF) (hax : normalizeAxis a.ndim ax < a.ndim)
    (hrest : 0 ∉ a.shape.eraseIdx (normalizeAxis a.ndim ax)) (hn : a.shape.getD (normalizeAxis a.ndim ax) 0 = 0) :
    a.countAxis zero zb (some ax) kd g1 = g1 (Arr.flat []) kd >>= fun y =>
      if kd = some true then
        (if (a.shape.eraseIdx (normalizeAxis a.ndim ax)).prod = 1 ∨ y.elems.length = 0
         then .ok ⟨y.elems, a.shape.set (normalizeAxis a.ndim ax) y.elems.length⟩ else .err .ShapeMustMatchValuesLength)
      else
        (if (a.shape.eraseIdx (normalizeAxis a.ndim ax)).prod = 1 ∧ y.elems.length = 1
         then .ok ⟨y.elems, a.shape.eraseIdx (normalizeAxis a.ndim ax)⟩ else .err .ShapeMustMatchValuesLength) := by
  generalize haxis : normalizeAxis a.ndim ax = axis at *
  have hax' : axis < a.shape.length := hax
  have hP : 0 < (a.shape.eraseIdx axis).prod := prod_pos_of_not_mem _ hrest
  simp only [Arr.countAxis, haxis, applyAlongAxis_axis_zero a zero zb axis (fun arr => g1 arr kd) hwf hax hrest hn]
  cases g1 (Arr.flat []) kd with
  | err e => rfl
  | panic => rfl
  | ok y =>
    simp only [Res.bind_ok]
    by_cases hkd : kd = some true
    · rw [if_pos hkd]
      by_cases hc : (a.shape.eraseIdx axis).prod = 1 ∨ y.elems.length = 0
      · rw [if_pos hc, Res.bind_ok, if_pos hkd]
      · rw [if_neg hc]; rfl
    · rw [if_neg hkd]
      by_cases hc : (a.shape.eraseIdx axis).prod = 1 ∨ y.elems.length = 0
      · rw [if_pos hc]
        simp only [Res.bind_ok, hkd, if_false, vecRemove, Arr.reshape, Arr.new]
        rw [if_neg (by omega)]
        simp only [Res.bind_ok]
        by_cases h1 : (a.shape.eraseIdx axis).prod = 1 ∧ y.elems.length = 1
        · rw [if_pos h1, if_pos (by omega)]
        · rw [if_neg h1, if_neg (by omega)]
      · rw [if_neg hc, if_neg (by omega)]; rfl

/-- **scans along an empty axis**: the answer of the 1-D scan on the empty lane, kept along the axis when it fits; in
particular a scan that returns the empty lane for the empty lane returns the (empty) array unchanged -/
theorem scan_empty_axis (a : Arr α) (zero : α) (zb : β) (ax : Int) (f1 : Arr α → Res (Arr β))
    (hwf : a.WF) (hax : normalizeAxis a.ndim ax < a.ndim)
    (hrest : 0 ∉ a.shape.eraseIdx (normalizeAxis a.ndim ax)) (hn : a.shape.getD (normalizeAxis a.ndim ax) 0 = 0) :
    (a.scanAxis zero zb (some ax) f1 = f1 (Arr.flat []) >>= fun y =>
      if (a.shape.eraseIdx (normalizeAxis a.ndim ax)).prod = 1 ∨ y.elems.length = 0
      then .ok ⟨y.elems, a.shape.set (normalizeAxis a.ndim ax) y.elems.length⟩ else .err .ShapeMustMatchValuesLength) ∧
    (∀ y, f1 (Arr.flat []) = .ok y → y.elems = [] → a.scanAxis zero zb (some ax) f1 = .ok ⟨[], a.shape⟩) := by
  have h := applyAlongAxis_axis_zero a zero zb (normalizeAxis a.ndim ax) f1 hwf hax hrest hn
  refine ⟨h, ?_⟩
  intro y hy he
  simp only [Arr.scanAxis, h, hy, Res.bind_ok, he, List.length_nil, or_true, if_true]
  rw [← hn, set_getD_self]

/-- **no axis, empty array**: a reduction / query is the 1-D body on the array, which has no elements; a scan is the
1-D body on the empty flat array -/
theorem none_axis_empty (a : Arr α) (zero : α) (zb : β) (hwf : a.WF) (h0 : 0 ∈ a.shape)
    (f1 : Arr α → Res (Arr β)) (kd : Option Bool) (g1 : Arr α → Option Bool → Res (Arr β)) :
    a.elems = [] ∧ a.reduceAxis zero zb none f1 = f1 ⟨[], a.shape⟩ ∧ a.countAxis zero zb none kd g1 = g1 ⟨[], a.shape⟩ kd ∧
    a.scanAxis zero zb none f1 = f1 (Arr.flat []) := by
  have he := elems_nil_of_zero_mem a hwf h0
  have ha := eq_mk_nil_of_zero_mem a hwf h0
  refine ⟨he, ?_, ?_, ?_⟩
  · show f1 a = _; rw [← ha]
  · show g1 a kd = _; rw [← ha]
  · show f1 a.ravel = _; rw [Arr.ravel, he]

/-- **the three families never panic**: EVERY well-formed array (zero-length axes or not), every axis argument (none,
in range, out of range, either spelling), `keepdims` anything, 1-D bodies that never panic themselves -/
theorem axis_ops_never_panic (a : Arr α) (zero : α) (zb : β) (axis : Option Int) (kd : Option Bool)
    (f1 : Arr α → Res (Arr β)) (g1 : Arr α → Option Bool → Res (Arr β)) (hwf : a.WF)
    (hf : ∀ x, f1 x ≠ .panic) (hg : ∀ x k, g1 x k ≠ .panic) :
    a.reduceAxis zero zb axis f1 ≠ .panic ∧ a.countAxis zero zb axis kd g1 ≠ .panic ∧ a.scanAxis zero zb axis f1 ≠ .panic := by
  have hnew : ∀ (es : List β) (sh : List Nat), Arr.new es sh ≠ .panic := by
    intro es sh; unfold Arr.new; split <;> exact fun h => nomatch h
  cases axis with
  | none => exact ⟨hf a, hg a kd, hf _⟩
  | some ax =>
    by_cases hax : normalizeAxis a.ndim ax < a.ndim
    swap
    · obtain ⟨h1, h2, h3⟩ := axis_out_of_range a zero zb ax (by omega) f1 kd g1
      rw [h1, h2, h3]; exact ⟨(fun h => nomatch h), (fun h => nomatch h), (fun h => nomatch h)⟩
    have hax' : normalizeAxis a.ndim ax < a.shape.length := hax
    refine ⟨?_, ?_, ?_⟩
    · rcases applyAlongAxis_total a zero zb (normalizeAxis a.ndim ax) f1 hwf hf with ⟨r, h, _, hnd⟩ | ⟨e, h⟩
      · simp only [Arr.reduceAxis, h, Res.bind_ok]
        split
        · have : ¬ normalizeAxis a.ndim ax ≥ r.shape.length := by simp only [Arr.ndim] at hnd; omega
          simp only [vecRemove, this, if_false, Res.bind_ok, Arr.reshape]; exact hnew _ _
        · exact hnew _ _
      · simp only [Arr.reduceAxis, h, Res.bind_err]; exact fun h => nomatch h
    · rcases applyAlongAxis_total a zero zb (normalizeAxis a.ndim ax) (fun arr => g1 arr kd) hwf (fun x => hg x kd) with ⟨r, h, _, hnd⟩ | ⟨e, h⟩
      · simp only [Arr.countAxis, h, Res.bind_ok]
        split
        · exact fun h => nomatch h
        · have : ¬ normalizeAxis a.ndim ax ≥ a.shape.length := by omega
          simp only [vecRemove, this, if_false, Res.bind_ok, Arr.reshape]; exact hnew _ _
      · simp only [Arr.countAxis, h, Res.bind_err]; exact fun h => nomatch h
    · exact applyAlongAxis_never_panics a zero zb _ f1 hwf hf

/-! ### non-vacuity of the extension: shapes `[2,0]`, `[0,3]`, `[2,0,3]` (and `[1,0]`, `[0]`, where a reduction fits) -/
example : (⟨[], [2, 0]⟩ : Arr Nat).WF ∧ (⟨[], [0, 3]⟩ : Arr Nat).WF ∧ (⟨[], [2, 0, 3]⟩ : Arr Nat).WF := by decide
-- `[2,0]` axis 1: only the processed axis is empty; `[2,0]` axis 0 / `[0,3]` axis 1 / `[2,0,3]` axes 0, 2: another axis is empty
example : 0 ∉ ([2, 0] : List Nat).eraseIdx 1 ∧ ([2, 0] : List Nat).getD 1 0 = 0 := by decide
example : 0 ∈ ([2, 0] : List Nat).eraseIdx 0 ∧ 0 ∈ ([0, 3] : List Nat).eraseIdx 1 ∧ 0 ∈ ([2, 0, 3] : List Nat).eraseIdx 0
    ∧ 0 ∈ ([2, 0, 3] : List Nat).eraseIdx 2 ∧ 0 ∉ ([2, 0, 3] : List Nat).eraseIdx 1 := by decide
-- the sample bodies never panic, so the total statements apply to them
example : (∀ x, sumBody x ≠ .panic) ∧ (∀ x, cumsumBody x ≠ .panic) :=
  ⟨(fun _ h => nomatch h), (fun _ h => nomatch h)⟩
example := along_axis_total (⟨[], [2, 0, 3]⟩ : Arr Nat) 0 0 1 sumBody (by decide) (fun _ h => nomatch h)
example := reduce_empty_axis (⟨[], [2, 0]⟩ : Arr Nat) 0 0 1 sumBody (by decide) (by decide) (by decide) (by decide)
-- what the model answers, by evaluation:
example : (⟨[], [2, 0]⟩ : Arr Nat).reduceAxis 0 0 (some 1) sumBody = .err .ShapeMustMatchValuesLength := by decide +kernel
example : (⟨[], [2, 0]⟩ : Arr Nat).reduceAxis 0 0 (some 0) sumBody = .err .ParameterError := by decide +kernel
example : (⟨[], [0, 3]⟩ : Arr Nat).reduceAxis 0 0 (some 0) sumBody = .err .ShapeMustMatchValuesLength := by decide +kernel
example : (⟨[], [0, 3]⟩ : Arr Nat).reduceAxis 0 0 (some (-1)) sumBody = .err .ParameterError := by decide +kernel
example : (⟨[], [2, 0, 3]⟩ : Arr Nat).reduceAxis 0 0 (some 1) sumBody = .err .ShapeMustMatchValuesLength := by decide +kernel
example : (⟨[], [2, 0, 3]⟩ : Arr Nat).reduceAxis 0 0 (some 2) sumBody = .err .ParameterError := by decide +kernel
example : (⟨[], [1, 0]⟩ : Arr Nat).reduceAxis 0 0 (some 1) sumBody = .ok ⟨[0], [1]⟩ := by decide +kernel
example : (⟨[], [0]⟩ : Arr Nat).reduceAxis 0 0 (some 0) sumBody = .ok ⟨[0], [1]⟩ := by decide +kernel
example : (⟨[], [1, 0]⟩ : Arr Nat).countAxis 0 0 (some 1) (some true) countBody = .ok ⟨[0], [1, 1]⟩ := by decide +kernel
example : (⟨[], [2, 0]⟩ : Arr Nat).scanAxis 0 0 (some 1) cumsumBody = .ok ⟨[], [2, 0]⟩ := by decide +kernel
example : (⟨[], [2, 0, 3]⟩ : Arr Nat).scanAxis 0 0 (some 1) cumsumBody = .ok ⟨[], [2, 0, 3]⟩ := by decide +kernel
example : (⟨[], [2, 0, 3]⟩ : Arr Nat).scanAxis 0 0 (some 0) cumsumBody = .err .ParameterError := by decide +kernel
example : (⟨[], [0, 3]⟩ : Arr Nat).scanAxis 0 0 none cumsumBody = .ok ⟨[], [0]⟩ := by decide +kernel

end ArrModel.C08
