import ArrProofs.Lemmas.C01Machine
import ArrProofs.Lemmas.C01Ext
/-!
# C01 — shape and element count never disagree on any result of any operation chain

Property theorems only (helpers: `ArrProofs/Lemmas/C01Basic|Core|Struct|Ops|Num|Machine|Ext.lean`, one `op_wf` lemma per
modelled operation; `C01Ext`: `slice`, `indices_at`, every arm of `dot`, `clip` with a missing bound, the string-array
operations).  Model under test: `ArrModel/C01.lean` — the small-step store machine whose operations are the
very definitions of `ArrModel/*.lean` (axis permutations, reshaping, broadcasting, splitting/joining, reorder,
delete/insert/append/repeat/trim, closures, reductions/scans/sorting, elementwise math patterns, products,
constructors, bit packing, operator overloads).

* `array_new_*`, `reshape_*`, `create_*`, `broadcastTo_*`, `resize_*`: the validating funnel answers `ok` only with a
  consistent array and **refuses** a request whose element list does not fit the shape;
* `meta_agree`: `len`, `ndim`, `is_empty` agree with the element list and (for a consistent array) with the shape;
* `eval_wf`: one case per operation of the machine — on a store whose arrays are all consistent, whatever the
  operation returns (an array, every member of a returned list / pair) is consistent;
* `run_wf` / `reachable_wf`: the invariant on every store reachable by any finite chain (induction over the chain);
* `bypass_*`: the operator impls that build `Array { elements, shape }` without validation are consistent **only
  because** both operands are (the hypotheses of the corresponding `eval_wf` cases cannot be dropped).
All statements are for every shape (any rank, unit axes, zero-length axes) and every chain length.
-/
namespace ArrModel.C01
open ArrModel

variable {α : Type}

/-! ## the funnel -/

/-- `Array::new` never answers with an inconsistent array -/
theorem array_new_ok_wf (e : List α) (s : List Nat) (r : Arr α) (h : Arr.new e s = .ok r) :
    r.WF ∧ r.elems = e ∧ r.shape = s :=
  ⟨new_ok_wf h, (new_ok_shape h).2, (new_ok_shape h).1⟩

/-- asking for an array whose element list does not fit the requested shape is refused with an error -/
theorem array_new_refuses (e : List α) (s : List Nat) (h : e.length ≠ s.prod) :
    Arr.new e s = .err .ShapeMustMatchValuesLength := new_refuses e s h

/-- … and a fitting request is granted, unchanged -/
theorem array_new_accepts (e : List α) (s : List Nat) (h : e.length = s.prod) : Arr.new e s = .ok ⟨e, s⟩ :=
  new_accepts e s h

/-- `reshape` to a shape of a different element count is refused -/
theorem reshape_refuses (a : Arr α) (s : List Nat) (h : a.elems.length ≠ s.prod) :
    a.reshape s = .err .ShapeMustMatchValuesLength := new_refuses _ _ h

/-- `create(elements, shape, ndmin)` with a non-fitting element list is refused whatever `ndmin` is -/
theorem create_refuses (e : List α) (s : List Nat) (ndmin : Option Nat) (h : e.length ≠ s.prod) :
    Arr.create e s ndmin = .err .ShapeMustMatchValuesLength := by
  unfold Arr.create
  simp only [new_refuses e s h]
  split <;> rfl

/-- `broadcast_to` never answers with an array of another element count than the requested shape's -/
theorem broadcastTo_ok_count (a : Arr α) (s : List Nat) (r : Arr α) (h : a.broadcastTo s = .ok r) :
    r.WF ∧ r.shape = s := by
  refine ⟨broadcastTo_wf a s h, ?_⟩
  unfold Arr.broadcastTo at h
  repeat' (first | split at h | (dsimp only at h; split at h))
  all_goals first
    | cases h
    | exact (new_ok_shape h).1
    | (obtain ⟨_, _, h⟩ := bind_ok_inv h; exact (new_ok_shape h).1)

/-- `resize` always yields exactly the requested shape, consistently (it cycles through the source) -/
theorem resize_ok_count (a : Arr α) (s : List Nat) (r : Arr α) (h : a.resize s = .ok r) : r.WF ∧ r.shape = s :=
  ⟨new_ok_wf h, (new_ok_shape h).1⟩

/-! ## the reported metadata -/

theorem prod_eq_zero_iff_mem : ∀ (s : List Nat), s.prod = 0 ↔ 0 ∈ s
  | [] => by simp
  | d :: ds => by
    rw [List.prod_cons, Nat.mul_eq_zero, prod_eq_zero_iff_mem ds, List.mem_cons]
    constructor
    · rintro (h | h)
      · exact Or.inl h.symm
      · exact Or.inr h
    · rintro (h | h)
      · exact Or.inl h.symm
      · exact Or.inr h

/-- `len`, `ndim`, `is_empty` agree with the element list, and — for a consistent array — with the shape:
the length is the product of the shape, and the array is empty exactly when some axis has length zero. -/
theorem meta_agree (a : Arr α) :
    a.len = a.elems.length ∧ a.ndim = a.shape.length ∧ (a.isEmpty = true ↔ a.len = 0) ∧
    (a.WF → a.len = a.shape.prod ∧ (a.isEmpty = true ↔ 0 ∈ a.shape)) := by
  refine ⟨rfl, rfl, by simp [Arr.isEmpty, Arr.len], ?_⟩
  intro h
  refine ⟨h, ?_⟩
  rw [← prod_eq_zero_iff_mem, ← h]
  simp [Arr.isEmpty]

/-! ## one step -/

/-- **every operation of the machine** (one case per operation): on a store whose arrays are all consistent, the
outcome — an array, or every member of a returned list / pair — is consistent. -/
theorem eval_wf (s : Store) (hs : StoreWF s) (op : Op) : ValWF (eval s op) := by
  cases op with
  | new n off shape => exact ofRes_wf fun r h => new_ok_wf h
  | create n shape ndmin => exact ofRes_wf fun r h => create_wf _ _ _ h
  | single => exact single_wf _
  | flat n => exact flat_wf _
  | empty => exact empty_wf
  | zeros shape => exact ofRes_wf fun r h => c16_zeros_wf _ h
  | ones shape => exact ofRes_wf fun r h => c16_ones_wf _ h
  | full shape => exact ofRes_wf fun r h => c16_full_wf _ _ h
  | rand shape => exact ofRes_wf fun r h => c16_rand_wf _ _ h
  | zerosLike a => exact with1_wf hs fun a ha => ofRes_wf fun r h => c16_zerosLike_wf a ha h
  | onesLike a => exact with1_wf hs fun a ha => ofRes_wf fun r h => c16_onesLike_wf a ha h
  | fullLike a => exact with1_wf hs fun a ha => ofRes_wf fun r h => c16_fullLike_wf a _ ha h
  | eye n m k => exact ofRes_wf fun r h => c16_eye_wf _ _ _ h
  | identity n => exact ofRes_wf fun r h => c16_identity_wf _ h
  | tri n m k => exact ofRes_wf fun r h => c16_tri_wf _ _ _ h
  | arange a b c => exact ofRes_map_wf ofRatArr_wf fun r h => c16_arange_wf _ _ _ h
  | linspace a b n e => exact ofRes_map_wf ofRatArr_wf fun r h => c16_linspace_wf _ _ _ _ h
  | diag a k => exact with1_wf hs fun a ha => ofRes_wf fun r h => c16_diag_wf a k ha h
  | diagflat a k => exact with1_wf hs fun a ha => ofRes_wf fun r h => c16_diagflat_wf a k ha h
  | tril a k => exact with1_wf hs fun a ha => ofRes_wf fun r h => c16_tril_wf a k ha h
  | triu a k => exact with1_wf hs fun a ha => ofRes_wf fun r h => c16_triu_wf a k ha h
  | vander a n i => exact with1_wf hs fun a ha => ofRes_wf fun r h => c16_vander_wf a n i ha h
  | transpose a axes => exact with1_wf hs fun a _ => ofRes_wf fun r h => transpose_wf a 0 axes h
  | moveaxis a src dst => exact with1_wf hs fun a _ => ofRes_wf fun r h => moveaxis_wf a 0 src dst h
  | rollaxis a axis start => exact with1_wf hs fun a _ => ofRes_wf fun r h => rollaxis_wf a 0 axis start h
  | swapaxes a i j => exact with1_wf hs fun a _ => ofRes_wf fun r h => swapaxes_wf a 0 i j h
  | expandDims a axes => exact with1_wf hs fun a ha => ofRes_wf fun r h => expandDims_wf a axes ha h
  | squeeze a axes => exact with1_wf hs fun a ha => ofRes_wf fun r h => squeeze_wf a axes ha h
  | reshape a shape => exact with1_wf hs fun a _ => ofRes_wf fun r h => reshape_wf h
  | resize a shape => exact with1_wf hs fun a ha => ofRes_wf fun r h => resize_wf a shape ha h
  | ravel a => exact with1_wf hs fun a _ => ravel_wf a
  | atleast a n => exact with1_wf hs fun a ha => ofRes_wf fun r h => atleast_wf a n ha h
  | cycleTake a n => exact with1_wf hs fun a ha => cycleTakeArr_wf a n ha
  | applyAlongAxis a axis f => exact with1_wf hs fun a _ => ofRes_wf fun r h => applyAlongAxis_wf a 0 0 axis _ h
  | broadcastTo a shape => exact with1_wf hs fun a _ => ofRes_wf fun r h => broadcastTo_wf a shape h
  | broadcast a b => exact with2_wf hs fun a b ha hb => ofRes_map_wf fstArr_wf fun r h => broadcast_wf a b ha hb h
  | broadcastArrays r => exact withL_wf hs fun l hl => ofResL_wf fun r h => broadcastArrays_wf l hl h
  | zip a b => exact with2_wf hs fun a b ha hb => ofRes_map_wf fstArr_wf fun r h => zip_wf a b ha hb h
  | arraySplit a parts axis => exact with1_wf hs fun a ha => ofResL_wf fun r h => arraySplit_wf a 0 parts axis ha h
  | split a parts axis => exact with1_wf hs fun a ha => ofResL_wf fun r h => split_wf a 0 parts axis ha h
  | splitAxis a axis => exact with1_wf hs fun a ha => ofResL_wf fun r h => splitAxis_wf a 0 axis ha h
  | hsplit a parts => exact with1_wf hs fun a ha => ofResL_wf fun r h => hsplit_wf a 0 parts ha h
  | vsplit a parts => exact with1_wf hs fun a ha => ofResL_wf fun r h => vsplit_wf a 0 parts ha h
  | dsplit a parts => exact with1_wf hs fun a ha => ofResL_wf fun r h => dsplit_wf a 0 parts ha h
  | member l j =>
    show ValWF (evalMember s l j)
    unfold evalMember
    split
    · rename_i l' hl
      split
      · rename_i a ha
        exact getL_wf hs hl a (List.mem_of_getElem? ha)
      · trivial
    · trivial
  | concatenate r axis => exact withL_wf hs fun l hl => ofRes_wf fun r h => concatenate_wf l 0 axis hl h
  | stack r axis => exact withL_wf hs fun l hl => ofRes_wf fun r h => stack_wf l 0 axis hl h
  | vstack r => exact withL_wf hs fun l hl => ofRes_wf fun r h => vstack_wf l 0 hl h
  | hstack r => exact withL_wf hs fun l hl => ofRes_wf fun r h => hstack_wf l 0 hl h
  | dstack r => exact withL_wf hs fun l hl => ofRes_wf fun r h => dstack_wf l 0 hl h
  | columnStack r => exact withL_wf hs fun l hl => ofRes_wf fun r h => columnStack_wf l 0 hl h
  | rowStack r => exact withL_wf hs fun l hl => ofRes_wf fun r h => rowStack_wf l 0 hl h
  | flip a axes => exact with1_wf hs fun a ha => ofRes_wf fun r h => flip_wf a axes ha h
  | flipud a => exact with1_wf hs fun a ha => ofRes_wf fun r h => flipud_wf a ha h
  | fliplr a => exact with1_wf hs fun a ha => ofRes_wf fun r h => fliplr_wf a ha h
  | roll a shift axes => exact with1_wf hs fun a ha => ofRes_wf fun r h => roll_wf a shift axes ha h
  | rot90 a k axes => exact with1_wf hs fun a ha => ofRes_wf fun r h => rot90_wf a 0 k axes ha h
  | delete a indices axis => exact with1_wf hs fun a ha => ofRes_wf fun r h => delete_wf a 0 indices axis ha h
  | insertFlat a indices v => exact with2_wf hs fun a v ha hv => ofRes_wf fun r h => insertFlat_wf a indices v ha hv h
  | append a v axis => exact with2_wf hs fun a v ha hv => ofRes_wf fun r h => append_wf a v 0 axis ha hv h
  | repeatFlat a reps => exact with1_wf hs fun a ha => ofRes_wf fun r h => repeatFlat_wf a reps ha h
  | repeatAxis a reps axis => exact with1_wf hs fun a ha => ofRes_wf fun r h => repeatAxis_wf a 0 reps axis ha h
  | trimZeros a => exact with1_wf hs fun a ha => ofRes_wf fun r h => trimZeros_wf a 0 ha h
  | map a => exact with1_wf hs fun a ha => ofRes_wf fun r h => iter_map_wf a _ ha h
  | mapE a => exact with1_wf hs fun a ha => ofRes_wf fun r h => iter_mapE_wf a _ ha h
  | filterE a m t => exact with1_wf hs fun a ha => ofRes_wf fun r h => iter_filterE_wf a _ ha h
  | filterMapE a m t => exact with1_wf hs fun a ha => ofRes_wf fun r h => iter_filterMapE_wf a _ ha h
  | filterNonzero a => exact with1_wf hs fun a ha => ofRes_wf fun r h => iter_filter_wf a _ ha h
  | reduceFold a axis => exact with1_wf hs fun a ha => ofRes_wf fun r h => reduceAxis_wf a 0 0 axis _ ha foldBody_wf h
  | reduceExtreme a axis =>
    exact with1_wf hs fun a ha => ofRes_wf fun r h => reduceAxis_wf a 0 0 axis _ ha extremeBody_wf h
  | countNonzero a axis kd =>
    exact with1_wf hs fun a ha => ofRes_wf fun r h => countAxis_wf a 0 0 axis kd _ ha countBody_wf h
  | argExtreme a isMax axis kd =>
    exact with1_wf hs fun a ha => ofRes_map_wf ofNatArr_wf fun r h => argExtreme_wf _ 0 isMax a axis kd ha h
  | scan a axis => exact with1_wf hs fun a ha => ofRes_wf fun r h => scanAxis_wf a 0 0 axis _ ha scanBody_wf h
  | sort a axis kind => exact with1_wf hs fun a ha => ofRes_wf fun r h => sort_wf _ 0 a axis kind ha h
  | argsort a axis kind =>
    exact with1_wf hs fun a ha => ofRes_map_wf ofNatArr_wf fun r h => argsort_wf _ 0 a axis kind ha h
  | unique a axis => exact with1_wf hs fun a ha => ofRes_wf fun r h => unique_wf _ 0 a axis ha h
  | unary a => exact with1_wf hs fun a ha => ofRes_wf fun r h => iter_unary_wf _ a ha h
  | logE a => exact with1_wf hs fun a ha => ofRes_wf fun r h => binPat_wf .B a _ ha (single_wf _) h
  | rint a => exact with1_wf hs fun a ha => ofRes_wf fun r h => roundLike_wf a _ ha (single_wf _) h
  | round a d => exact with2_wf hs fun a d ha hd => ofRes_wf fun r h => roundLike_wf a d ha hd h
  | binary p a b => exact with2_wf hs fun a b ha hb => ofRes_wf fun r h => binPat_wf p a b ha hb h
  | clip a lo hi =>
    exact with3_wf hs fun a lo hi ha hlo hhi => ofRes_wf fun r h => c04_clipLike_wf _ a lo hi ha hlo hhi h
  | vdot a b => exact with2_wf hs fun a b ha hb => ofRes_wf fun r h => c14_vdot_wf a b ha hb h
  | outer a b => exact with2_wf hs fun a b ha hb => ofRes_wf fun r h => c14_outer_wf a b ha hb h
  | inner a b => exact with2_wf hs fun a b ha hb => ofRes_wf fun r h => c14_inner_wf a b ha hb h
  | matmul a b => exact with2_wf hs fun a b ha hb => ofRes_wf fun r h => c14_matmul_wf a b ha hb h
  | dot a b => exact with2_wf hs fun a b ha hb => ofRes_wf fun r h => c01x_dotFull_wf a b ha hb h
  | unpackBits a axis count order =>
    exact with1_wf hs fun a ha => ofRes_map_wf ofNatArr_wf fun r h =>
      c19_unpackBits_pipe_wf _ axis count _ (toNatArr_wf ha) h
  | packBits a axis order =>
    exact with1_wf hs fun a ha => ofRes_map_wf ofNatArr_wf fun r h =>
      c19_packBits_pipe_wf _ axis _ (toNatArr_wf ha) h
  | operator k a b => exact with2_wf hs fun a b ha hb => ofRes_wf fun r h => opKind_wf k a b ha hb h
  | slice a start stop => exact with1_wf hs fun a ha => ofRes_wf fun r h => c01x_slice_wf a start stop ha h
  | indicesAt a indices => exact with1_wf hs fun a ha => ofRes_wf fun r h => c01x_indicesAt_wf a indices ha h
  | filterMapNonzero a => exact with1_wf hs fun a ha => ofRes_wf fun r h => iter_filterMap_wf a _ ha h
  | clipOpt a lo hi =>
    refine with1_wf hs fun a ha => ?_
    split
    · rename_i lo' hi' hlo hhi
      exact ofRes_wf fun r h => c01x_clipOpt_wf a ha lo' hi' (getOpt_wf hs hlo) (getOpt_wf hs hhi) h
    · trivial
  | strUnary a => exact with1_wf hs fun a _ => ofRes_map_wf blankArr_wf fun r h => c01x_strUnary_wf _ h
  | strBinary a b => exact with2_wf hs fun a b _ _ => ofRes_map_wf blankArr_wf fun r h => c01x_strBinary_wf _ _ _ h
  | strStrip a c => exact with2_wf hs fun a c _ _ => ofRes_map_wf blankArr_wf fun r h => c01x_strStrip_wf _ _ _ h
  | strCompare a b op =>
    exact with2_wf hs fun a b _ _ => ofRes_map_wf blankArr_wf fun r h => c01x_strCompare_wf _ _ _ _ h
  | strMultiply a n => exact with2_wf hs fun a n _ _ => ofRes_map_wf blankArr_wf fun r h => c01x_strMultiply_wf _ _ _ h
  | strSplitlines a keep =>
    exact with1_wf hs fun a _ => ofRes_map_wf blankArr_wf fun r h => c01x_strSplitlines_wf _ _ _ h
  | strPad a w fill => exact with2_wf hs fun a w _ _ => ofRes_map_wf blankArr_wf fun r h => c01x_strPad_wf _ _ _ _ h
  | strSplit a sep m =>
    refine with1_wf hs fun a _ => ?_
    split
    · exact ofRes_wf fun r h => c01x_strSplit_wf a _ m h
    · trivial
  | strReplace a o n cnt =>
    exact with3_wf hs fun a o n _ _ _ => ofRes_map_wf blankArr_wf fun r h => c01x_strReplace_wf _ _ _ _ _ h
  | extern e => exact ext_wf e

/-- one step keeps the invariant (earlier entries are never touched, the new entry is consistent) -/
theorem step_wf (s : Store) (hs : StoreWF s) (op : Op) : StoreWF (step s op) := by
  intro v hv
  unfold step at hv
  rcases List.mem_append.mp hv with h | h
  · exact hs v h
  · rw [List.mem_singleton] at h
    subst h
    exact eval_wf s hs op

/-! ## every reachable store -/

/-- **the invariant on every store reachable from a consistent store by any finite chain** -/
theorem reachable_wf (init : Store) (hinit : StoreWF init) (ops : List Op) : StoreWF (ops.foldl step init) := by
  induction ops generalizing init with
  | nil => exact hinit
  | cons op ops ih => exact ih (step init op) (step_wf init hinit op)

/-- … in particular from the empty store: every array a caller can obtain by any chain of modelled operations —
as a result, as a member of a returned list or pair — holds exactly as many elements as the product of its shape -/
theorem run_wf (ops : List Op) : StoreWF (run ops) :=
  reachable_wf [] (fun _ h => by cases h) ops

/-- the same, spelled out on the entries: position `i` of the store after the chain `ops` -/
theorem run_entry_wf (ops : List Op) (i : Nat) :
    (∀ a, (run ops)[i]? = some (.arr a) → a.elems.length = a.shape.prod) ∧
    (∀ l, (run ops)[i]? = some (.list l) → ∀ a ∈ l, a.elems.length = a.shape.prod) :=
  ⟨fun a h => run_wf ops (.arr a) (List.mem_of_getElem? h), fun l h => run_wf ops (.list l) (List.mem_of_getElem? h)⟩

/-- the store only grows: one entry per operation (nothing a caller holds is ever changed by a later call) -/
theorem run_length (ops : List Op) : (run ops).length = ops.length := by
  have : ∀ (init : Store), (ops.foldl step init).length = init.length + ops.length := by
    induction ops with
    | nil => intro init; simp
    | cons op ops ih => intro init; rw [List.foldl_cons, ih]; simp [step]; omega
  simpa [run] using this []

/-! ## the struct-literal bypasses (`boolean/operations/ops.rs:41,52`, the `*Assign` impls) -/

/-- the bit operators build `Array { elements, shape: self.shape }` with no check: consistent when BOTH operands are -/
theorem bypass_bitop_wf (f : Int → Int → Int) (a b r : A) (ha : a.WF) (hb : b.WF) (h : C20.bitop f a b = .ok r) :
    r.WF ∧ r.shape = a.shape := by
  refine ⟨c20_bitop_wf f a b ha hb h, ?_⟩
  unfold C20.bitop at h
  split at h
  · cases h
  · cases h; rfl

/-- … and the hypothesis is needed: an inconsistent operand of equal shape comes out as an inconsistent result
(the same call through the validated `impl_op!` path cannot: `c20_binop_wf_unconditional`) -/
theorem bypass_bitop_needs_wf : ∃ (a b r : A), a.WF ∧ a.shape = b.shape ∧ C20.bitop (· + ·) a b = .ok r ∧ ¬ r.WF :=
  c20_bitop_needs_wf

theorem bypass_bitScalar_needs_wf : ∃ (a r : A), C20.bitScalar (· + ·) a 0 = .ok r ∧ ¬ r.WF := c20_bitScalar_needs_wf

theorem bypass_assign_needs_wf : ∃ (a b r : A), b.WF ∧ a.shape = b.shape ∧ C20.assignop (· + ·) a b = .ok r ∧ ¬ r.WF :=
  c20_assignop_needs_wf

/-- by contrast the arithmetic operators go through `Array::new`: consistent with no hypothesis at all -/
theorem validated_binop_wf (f : Int → Int → Int) (a b r : A) (h : C20.binop f a b = .ok r) : r.WF :=
  c20_binop_wf_unconditional f a b h

/-! ## non-vacuity -/

/-- a chain through constructors, axis moves, a split, a member, joins, a bypass operator, a product, a reduction:
the machine really produces arrays, lists, errors and panics -/
example : (run [.new 6 0 [2, 3], .transpose 0 none, .split 1 3 (some 0), .member 2 1, .concatenate (.lst 2) (some 0),
      .operator .bitop 0 0, .operator .binop 0 1, .new 5 0 [2, 3], .matmul 0 1, .reduceFold 0 (some 1)]).map
      (fun v => match v with
        | .arr a => some a.shape | .list l => some (l.flatMap (·.shape)) | _ => none) =
    [some [2, 3], some [3, 2], some [1, 2, 1, 2, 1, 2], some [1, 2], some [3, 2], some [2, 3], none, none,
     some [2, 2], some [2]] := by decide +kernel

example : (match eval [] (.new 5 0 [2, 3]) with | .err .ShapeMustMatchValuesLength => true | _ => false) = true := by decide
example : (match eval [.arr ⟨[1, 2], [2]⟩, .arr ⟨[1, 2, 3], [3]⟩] (.operator .bitop 0 1) with | .panic => true | _ => false) = true := by
  decide
example : StoreWF (run [.new 24 0 [2, 3, 4], .moveaxis 0 [0] [2], .arraySplit 1 2 (some 1), .extern (.list [[2], [3, 1]])]) :=
  run_wf _
/-- the empty array and unit axes are inside the quantifier -/
example : (Arr.new ([] : List Int) [2, 0, 3]).isOk = true ∧ (⟨[], [2, 0, 3]⟩ : A).WF ∧ (⟨[], [2, 0, 3]⟩ : A).isEmpty = true := by
  decide

end ArrModel.C01
