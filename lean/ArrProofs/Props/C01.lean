import ArrProofs.Lemmas.C01Machine
import ArrProofs.Lemmas.C01Ext
import ArrProofs.Lemmas.C01Diff
import ArrProofs.Lemmas.GenCore
/-!
# C01 — shape and element count never disagree on any result of any operation chain

Property theorems only (helpers: `ArrProofs/Lemmas/C01Basic|Core|Struct|Ops|Num|Machine|Ext.lean`, one `op_wf` lemma per
modelled operation; `C01Ext`: `slice`, `indices_at`, every arm of `dot`, `clip` with a missing bound, the string-array
operations).  Model under test: `ArrModel/C01.lean` — the small-step store machine whose operations are the
very definitions of `ArrModel/*.lean` (axis permutations, reshaping, broadcasting, splitting/joining, reorder,
delete/insert/append/repeat/trim, closures, reductions/scans/sorting, elementwise math patterns, products,
constructors, bit packing, operator overloads).

* `array_new_*`, `reshape_*`, `create_*`, `broadcastTo_*`, `resize_*`: the validating funnel answers `ok` only with a
  consistent array and **refuses** a request whose element list does not fit the shape;
* `meta_agree`: `len`, `ndim`, `is_empty` agree with the element list and (for a consistent array) with the shape;
* `eval_wf`: one case per operation of the machine — on a store whose arrays are all consistent, whatever the
  operation returns (an array, every member of a returned list / pair) is consistent;
* `run_wf` / `reachable_wf`: the invariant on every store reachable by any finite chain (induction over the chain);
* `adjDiff_element` … `convolve_spec`: what the operations of `ArrModel/C01Diff.lean` (`ediff1d`, `diff`, `insert` with an axis,
  `convolve`) compute — first-order difference, `n`-fold iteration, the lane-wise reading of the N-D arm of `diff`, the defining
  double sum of the convolution and its three windows, the refusals;
* `bypass_*`: the operator impls that build `Array { elements, shape }` without validation are consistent **only
  because** both operands are (the hypotheses of the corresponding `eval_wf` cases cannot be dropped).
All statements are for every shape (any rank, unit axes, zero-length axes) and every chain length.
-/
namespace ArrModel.C01
open ArrModel

variable {α : Type}

/-! ## the funnel -/

/-- `Array::new` never answers with an inconsistent array -/
theorem array_new_ok_wf (e : List α) (s : List Nat) (r : Arr α) (h : Arr.new e s = .ok r) :
    r.WF ∧ r.elems = e ∧ r.shape = s :=
  ⟨new_ok_wf h, (new_ok_shape h).2, (new_ok_shape h).1⟩

/-- asking for an array whose element list does not fit the requested shape is refused with an error -/
theorem array_new_refuses (e : List α) (s : List Nat) (h : e.length ≠ s.prod) :
    Arr.new e s = .err .ShapeMustMatchValuesLength := new_refuses e s h

/-- … and a fitting request is granted, unchanged -/
theorem array_new_accepts (e : List α) (s : List Nat) (h : e.length = s.prod) : Arr.new e s = .ok ⟨e, s⟩ :=
  new_accepts e s h

/-- `reshape` to a shape of a different element count is refused -/
theorem reshape_refuses (a : Arr α) (s : List Nat) (h : a.elems.length ≠ s.prod) :
    a.reshape s = .err .ShapeMustMatchValuesLength := new_refuses _ _ h

/-- `create(elements, shape, ndmin)` with a non-fitting element list is refused whatever `ndmin` is -/
theorem create_refuses (e : List α) (s : List Nat) (ndmin : Option Nat) (h : e.length ≠ s.prod) :
    Arr.create e s ndmin = .err .ShapeMustMatchValuesLength := by
  unfold Arr.create
  simp only [new_refuses e s h]
  split <;> rfl

/-- `broadcast_to` never answers with an array of another element count than the requested shape's -/
theorem broadcastTo_ok_count (a : Arr α) (s : List Nat) (r : Arr α) (h : a.broadcastTo s = .ok r) :
    r.WF ∧ r.shape = s := by
  refine ⟨broadcastTo_wf a s h, ?_⟩
  unfold Arr.broadcastTo at h
  repeat' (first | split at h | (dsimp only at h; split at h))
  all_goals first
    | cases h
    | exact (new_ok_shape h).1
    | (obtain ⟨_, _, h⟩ := bind_ok_inv h; exact (new_ok_shape h).1)

/-- `resize` always yields exactly the requested shape, consistently (it cycles through the source) -/
theorem resize_ok_count (a : Arr α) (s : List Nat) (r : Arr α) (h : a.resize s = .ok r) : r.WF ∧ r.shape = s :=
  ⟨new_ok_wf h, (new_ok_shape h).1⟩

/-! ## the reported metadata -/

theorem prod_eq_zero_iff_mem : ∀ (s : List Nat), s.prod = 0 ↔ 0 ∈ s
  | [] => by simp
  | d :: ds => by
    rw [List.prod_cons, Nat.mul_eq_zero, prod_eq_zero_iff_mem ds, List.mem_cons]
    constructor
    · rintro (h | h)
      · exact Or.inl h.symm
      · exact Or.inr h
    · rintro (h | h)
      · exact Or.inl h.symm
      · exact Or.inr h

/-- `len`, `ndim`, `is_empty` agree with the element list, and — for a consistent array — with the shape:
the length is the product of the shape, and the array is empty exactly when some axis has length zero. -/
theorem meta_agree (a : Arr α) :
    a.len = a.elems.length ∧ a.ndim = a.shape.length ∧ (a.isEmpty = true ↔ a.len = 0) ∧
    (a.WF → a.len = a.shape.prod ∧ (a.isEmpty = true ↔ 0 ∈ a.shape)) := by
  refine ⟨rfl, rfl, by simp [Arr.isEmpty, Arr.len], ?_⟩
  intro h
  refine ⟨h, ?_⟩
  rw [← prod_eq_zero_iff_mem, ← h]
  simp [Arr.isEmpty]

/-! ## one step -/

/-- **every operation of the machine** (one case per operation): on a store whose arrays are all consistent, the
outcome — an array, or every member of a returned list / pair — is consistent. -/
theorem eval_wf (s : Store) (hs : StoreWF s) (op : Op) : ValWF (eval s op) := by
  cases op with
  | new n off shape => exact ofRes_wf fun r h => new_ok_wf h
  | create n shape ndmin => exact ofRes_wf fun r h => create_wf _ _ _ h
  | single => exact single_wf _
  | flat n => exact flat_wf _
  | empty => exact empty_wf
  | zeros shape => exact ofRes_wf fun r h => c16_zeros_wf _ h
  | ones shape => exact ofRes_wf fun r h => c16_ones_wf _ h
  | full shape => exact ofRes_wf fun r h => c16_full_wf _ _ h
  | rand shape => exact ofRes_wf fun r h => c16_rand_wf _ _ h
  | zerosLike a => exact with1_wf hs fun a ha => ofRes_wf fun r h => c16_zerosLike_wf a ha h
  | onesLike a => exact with1_wf hs fun a ha => ofRes_wf fun r h => c16_onesLike_wf a ha h
  | fullLike a => exact with1_wf hs fun a ha => ofRes_wf fun r h => c16_fullLike_wf a _ ha h
  | eye n m k => exact ofRes_wf fun r h => c16_eye_wf _ _ _ h
  | identity n => exact ofRes_wf fun r h => c16_identity_wf _ h
  | tri n m k => exact ofRes_wf fun r h => c16_tri_wf _ _ _ h
  | arange a b c => exact ofRes_map_wf ofRatArr_wf fun r h => c16_arange_wf _ _ _ h
  | linspace a b n e => exact ofRes_map_wf ofRatArr_wf fun r h => c16_linspace_wf _ _ _ _ h
  | diag a k => exact with1_wf hs fun a ha => ofRes_wf fun r h => c16_diag_wf a k ha h
  | diagflat a k => exact with1_wf hs fun a ha => ofRes_wf fun r h => c16_diagflat_wf a k ha h
  | tril a k => exact with1_wf hs fun a ha => ofRes_wf fun r h => c16_tril_wf a k ha h
  | triu a k => exact with1_wf hs fun a ha => ofRes_wf fun r h => c16_triu_wf a k ha h
  | vander a n i => exact with1_wf hs fun a ha => ofRes_wf fun r h => c16_vander_wf a n i ha h
  | transpose a axes => exact with1_wf hs fun a _ => ofRes_wf fun r h => transpose_wf a 0 axes h
  | moveaxis a src dst => exact with1_wf hs fun a _ => ofRes_wf fun r h => moveaxis_wf a 0 src dst h
  | rollaxis a axis start => exact with1_wf hs fun a _ => ofRes_wf fun r h => rollaxis_wf a 0 axis start h
  | swapaxes a i j => exact with1_wf hs fun a _ => ofRes_wf fun r h => swapaxes_wf a 0 i j h
  | expandDims a axes => exact with1_wf hs fun a ha => ofRes_wf fun r h => expandDims_wf a axes ha h
  | squeeze a axes => exact with1_wf hs fun a ha => ofRes_wf fun r h => squeeze_wf a axes ha h
  | reshape a shape => exact with1_wf hs fun a _ => ofRes_wf fun r h => reshape_wf h
  | resize a shape => exact with1_wf hs fun a ha => ofRes_wf fun r h => resize_wf a shape ha h
  | ravel a => exact with1_wf hs fun a _ => ravel_wf a
  | atleast a n => exact with1_wf hs fun a ha => ofRes_wf fun r h => atleast_wf a n ha h
  | cycleTake a n => exact with1_wf hs fun a ha => cycleTakeArr_wf a n ha
  | applyAlongAxis a axis f => exact with1_wf hs fun a _ => ofRes_wf fun r h => applyAlongAxis_wf a 0 0 axis _ h
  | broadcastTo a shape => exact with1_wf hs fun a _ => ofRes_wf fun r h => broadcastTo_wf a shape h
  | broadcast a b => exact with2_wf hs fun a b ha hb => ofRes_map_wf fstArr_wf fun r h => broadcast_wf a b ha hb h
  | broadcastArrays r => exact withL_wf hs fun l hl => ofResL_wf fun r h => broadcastArrays_wf l hl h
  | zip a b => exact with2_wf hs fun a b ha hb => ofRes_map_wf fstArr_wf fun r h => zip_wf a b ha hb h
  | arraySplit a parts axis => exact with1_wf hs fun a ha => ofResL_wf fun r h => arraySplit_wf a 0 parts axis ha h
  | split a parts axis => exact with1_wf hs fun a ha => ofResL_wf fun r h => split_wf a 0 parts axis ha h
  | splitAxis a axis => exact with1_wf hs fun a ha => ofResL_wf fun r h => splitAxis_wf a 0 axis ha h
  | hsplit a parts => exact with1_wf hs fun a ha => ofResL_wf fun r h => hsplit_wf a 0 parts ha h
  | vsplit a parts => exact with1_wf hs fun a ha => ofResL_wf fun r h => vsplit_wf a 0 parts ha h
  | dsplit a parts => exact with1_wf hs fun a ha => ofResL_wf fun r h => dsplit_wf a 0 parts ha h
  | member l j =>
    show ValWF (evalMember s l j)
    unfold evalMember
    split
    · rename_i l' hl
      split
      · rename_i a ha
        exact getL_wf hs hl a (List.mem_of_getElem? ha)
      · trivial
    · trivial
  | concatenate r axis => exact withL_wf hs fun l hl => ofRes_wf fun r h => concatenate_wf l 0 axis hl h
  | stack r axis => exact withL_wf hs fun l hl => ofRes_wf fun r h => stack_wf l 0 axis hl h
  | vstack r => exact withL_wf hs fun l hl => ofRes_wf fun r h => vstack_wf l 0 hl h
  | hstack r => exact withL_wf hs fun l hl => ofRes_wf fun r h => hstack_wf l 0 hl h
  | dstack r => exact withL_wf hs fun l hl => ofRes_wf fun r h => dstack_wf l 0 hl h
  | columnStack r => exact withL_wf hs fun l hl => ofRes_wf fun r h => columnStack_wf l 0 hl h
  | rowStack r => exact withL_wf hs fun l hl => ofRes_wf fun r h => rowStack_wf l 0 hl h
  | flip a axes => exact with1_wf hs fun a ha => ofRes_wf fun r h => flip_wf a axes ha h
  | flipud a => exact with1_wf hs fun a ha => ofRes_wf fun r h => flipud_wf a ha h
  | fliplr a => exact with1_wf hs fun a ha => ofRes_wf fun r h => fliplr_wf a ha h
  | roll a shift axes => exact with1_wf hs fun a ha => ofRes_wf fun r h => roll_wf a shift axes ha h
  | rot90 a k axes => exact with1_wf hs fun a ha => ofRes_wf fun r h => rot90_wf a 0 k axes ha h
  | delete a indices axis => exact with1_wf hs fun a ha => ofRes_wf fun r h => delete_wf a 0 indices axis ha h
  | insertFlat a indices v => exact with2_wf hs fun a v ha hv => ofRes_wf fun r h => insertFlat_wf a indices v ha hv h
  | append a v axis => exact with2_wf hs fun a v ha hv => ofRes_wf fun r h => append_wf a v 0 axis ha hv h
  | repeatFlat a reps => exact with1_wf hs fun a ha => ofRes_wf fun r h => repeatFlat_wf a reps ha h
  | repeatAxis a reps axis => exact with1_wf hs fun a ha => ofRes_wf fun r h => repeatAxis_wf a 0 reps axis ha h
  | trimZeros a => exact with1_wf hs fun a ha => ofRes_wf fun r h => trimZeros_wf a 0 ha h
  | map a => exact with1_wf hs fun a ha => ofRes_wf fun r h => iter_map_wf a _ ha h
  | mapE a => exact with1_wf hs fun a ha => ofRes_wf fun r h => iter_mapE_wf a _ ha h
  | filterE a m t => exact with1_wf hs fun a ha => ofRes_wf fun r h => iter_filterE_wf a _ ha h
  | filterMapE a m t => exact with1_wf hs fun a ha => ofRes_wf fun r h => iter_filterMapE_wf a _ ha h
  | filterNonzero a => exact with1_wf hs fun a ha => ofRes_wf fun r h => iter_filter_wf a _ ha h
  | reduceFold a axis => exact with1_wf hs fun a ha => ofRes_wf fun r h => reduceAxis_wf a 0 0 axis _ ha foldBody_wf h
  | reduceExtreme a axis =>
    exact with1_wf hs fun a ha => ofRes_wf fun r h => reduceAxis_wf a 0 0 axis _ ha extremeBody_wf h
  | countNonzero a axis kd =>
    exact with1_wf hs fun a ha => ofRes_wf fun r h => countAxis_wf a 0 0 axis kd _ ha countBody_wf h
  | argExtreme a isMax axis kd =>
    exact with1_wf hs fun a ha => ofRes_map_wf ofNatArr_wf fun r h => argExtreme_wf _ 0 isMax a axis kd ha h
  | scan a axis => exact with1_wf hs fun a ha => ofRes_wf fun r h => scanAxis_wf a 0 0 axis _ ha scanBody_wf h
  | sort a axis kind => exact with1_wf hs fun a ha => ofRes_wf fun r h => sort_wf _ 0 a axis kind ha h
  | argsort a axis kind =>
    exact with1_wf hs fun a ha => ofRes_map_wf ofNatArr_wf fun r h => argsort_wf _ 0 a axis kind ha h
  | unique a axis => exact with1_wf hs fun a ha => ofRes_wf fun r h => unique_wf _ 0 a axis ha h
  | unary a => exact with1_wf hs fun a ha => ofRes_wf fun r h => iter_unary_wf _ a ha h
  | logE a => exact with1_wf hs fun a ha => ofRes_wf fun r h => binPat_wf .B a _ ha (single_wf _) h
  | rint a => exact with1_wf hs fun a ha => ofRes_wf fun r h => roundLike_wf a _ ha (single_wf _) h
  | round a d => exact with2_wf hs fun a d ha hd => ofRes_wf fun r h => roundLike_wf a d ha hd h
  | binary p a b => exact with2_wf hs fun a b ha hb => ofRes_wf fun r h => binPat_wf p a b ha hb h
  | clip a lo hi =>
    exact with3_wf hs fun a lo hi ha hlo hhi => ofRes_wf fun r h => c04_clipLike_wf _ a lo hi ha hlo hhi h
  | vdot a b => exact with2_wf hs fun a b ha hb => ofRes_wf fun r h => c14_vdot_wf a b ha hb h
  | outer a b => exact with2_wf hs fun a b ha hb => ofRes_wf fun r h => c14_outer_wf a b ha hb h
  | inner a b => exact with2_wf hs fun a b ha hb => ofRes_wf fun r h => c14_inner_wf a b ha hb h
  | matmul a b => exact with2_wf hs fun a b ha hb => ofRes_wf fun r h => c14_matmul_wf a b ha hb h
  | dot a b => exact with2_wf hs fun a b ha hb => ofRes_wf fun r h => c01x_dotFull_wf a b ha hb h
  | unpackBits a axis count order =>
    exact with1_wf hs fun a ha => ofRes_map_wf ofNatArr_wf fun r h =>
      c19_unpackBits_pipe_wf _ axis count _ (toNatArr_wf ha) h
  | packBits a axis order =>
    exact with1_wf hs fun a ha => ofRes_map_wf ofNatArr_wf fun r h =>
      c19_packBits_pipe_wf _ axis _ (toNatArr_wf ha) h
  | operator k a b => exact with2_wf hs fun a b ha hb => ofRes_wf fun r h => opKind_wf k a b ha hb h
  | slice a start stop => exact with1_wf hs fun a ha => ofRes_wf fun r h => c01x_slice_wf a start stop ha h
  | indicesAt a indices => exact with1_wf hs fun a ha => ofRes_wf fun r h => c01x_indicesAt_wf a indices ha h
  | filterMapNonzero a => exact with1_wf hs fun a ha => ofRes_wf fun r h => iter_filterMap_wf a _ ha h
  | clipOpt a lo hi =>
    refine with1_wf hs fun a ha => ?_
    split
    · rename_i lo' hi' hlo hhi
      exact ofRes_wf fun r h => c01x_clipOpt_wf a ha lo' hi' (getOpt_wf hs hlo) (getOpt_wf hs hhi) h
    · trivial
  | strUnary a => exact with1_wf hs fun a _ => ofRes_map_wf blankArr_wf fun r h => c01x_strUnary_wf _ h
  | strBinary a b => exact with2_wf hs fun a b _ _ => ofRes_map_wf blankArr_wf fun r h => c01x_strBinary_wf _ _ _ h
  | strStrip a c => exact with2_wf hs fun a c _ _ => ofRes_map_wf blankArr_wf fun r h => c01x_strStrip_wf _ _ _ h
  | strCompare a b op =>
    exact with2_wf hs fun a b _ _ => ofRes_map_wf blankArr_wf fun r h => c01x_strCompare_wf _ _ _ _ h
  | strMultiply a n => exact with2_wf hs fun a n _ _ => ofRes_map_wf blankArr_wf fun r h => c01x_strMultiply_wf _ _ _ h
  | strSplitlines a keep =>
    exact with1_wf hs fun a _ => ofRes_map_wf blankArr_wf fun r h => c01x_strSplitlines_wf _ _ _ h
  | strPad a w fill => exact with2_wf hs fun a w _ _ => ofRes_map_wf blankArr_wf fun r h => c01x_strPad_wf _ _ _ _ h
  | strSplit a sep m =>
    refine with1_wf hs fun a _ => ?_
    split
    · exact ofRes_wf fun r h => c01x_strSplit_wf a _ m h
    · trivial
  | strReplace a o n cnt =>
    exact with3_wf hs fun a o n _ _ _ => ofRes_map_wf blankArr_wf fun r h => c01x_strReplace_wf _ _ _ _ _ h
  | ediff1d a e b =>
    refine with1_wf hs fun a _ => ?_
    split
    · exact c01d_ediff1d_wf a _ _
    · trivial
  | diff a n axis p q =>
    refine with1_wf hs fun a _ => ?_
    split
    · exact ofRes_wf fun r h => c01d_diff_wf a 0 n axis _ _ h
    · trivial
  | insertAxis a indices v axis =>
    exact with2_wf hs fun a v ha hv => ofRes_wf fun r h => c01d_insertAxis_wf a 0 indices v axis ha hv h
  | convolve a b mode => exact with2_wf hs fun a b _ _ => ofRes_wf fun r h => c01d_convolve_wf a b mode h
  | modf a => exact with1_wf hs fun a ha => ofResP_wf fun r h => c01d_modfPair_wf a ha h
  | divmod a => exact with1_wf hs fun a ha => ofResP_wf fun r h => c01d_divmodPair_wf a ha h
  | frexp a => exact with1_wf hs fun a _ => ofResP_wf fun r h => ⟨(c01d_frexpPair_wf a h).1, (c01d_frexpPair_wf a h).2.1⟩
  | extern e => exact ext_wf e

/-- one step keeps the invariant (earlier entries are never touched, the new entry is consistent) -/
theorem step_wf (s : Store) (hs : StoreWF s) (op : Op) : StoreWF (step s op) := by
  intro v hv
  unfold step at hv
  rcases List.mem_append.mp hv with h | h
  · exact hs v h
  · rw [List.mem_singleton] at h
    subst h
    exact eval_wf s hs op

/-! ## every reachable store -/

/-- **the invariant on every store reachable from a consistent store by any finite chain** -/
theorem reachable_wf (init : Store) (hinit : StoreWF init) (ops : List Op) : StoreWF (ops.foldl step init) := by
  induction ops generalizing init with
  | nil => exact hinit
  | cons op ops ih => exact ih (step init op) (step_wf init hinit op)

/-- … in particular from the empty store: every array a caller can obtain by any chain of modelled operations —
as a result, as a member of a returned list or pair — holds exactly as many elements as the product of its shape -/
theorem run_wf (ops : List Op) : StoreWF (run ops) :=
  reachable_wf [] (fun _ h => by cases h) ops

/-- the same, spelled out on the entries: position `i` of the store after the chain `ops` -/
theorem run_entry_wf (ops : List Op) (i : Nat) :
    (∀ a, (run ops)[i]? = some (.arr a) → a.elems.length = a.shape.prod) ∧
    (∀ l, (run ops)[i]? = some (.list l) → ∀ a ∈ l, a.elems.length = a.shape.prod) :=
  ⟨fun a h => run_wf ops (.arr a) (List.mem_of_getElem? h), fun l h => run_wf ops (.list l) (List.mem_of_getElem? h)⟩

/-- the store only grows: one entry per operation (nothing a caller holds is ever changed by a later call) -/
theorem run_length (ops : List Op) : (run ops).length = ops.length := by
  have : ∀ (init : Store), (ops.foldl step init).length = init.length + ops.length := by
    induction ops with
    | nil => intro init; simp
    | cons op ops ih => intro init; rw [List.foldl_cons, ih]; simp [step]; omega
  simpa [run] using this []

/-! ## the struct-literal bypasses (`boolean/operations/ops.rs:41,52`, the `*Assign` impls) -/

/-- the bit operators build `Array { elements, shape: self.shape }` with no check: consistent when BOTH operands are -/
theorem bypass_bitop_wf (f : Int → Int → Int) (a b r : A) (ha : a.WF) (hb : b.WF) (h : C20.bitop f a b = .ok r) :
    r.WF ∧ r.shape = a.shape := by
  refine ⟨c20_bitop_wf f a b ha hb h, ?_⟩
  unfold C20.bitop at h
  split at h
  · cases h
  · cases h; rfl

/-- … and the hypothesis is needed: an inconsistent operand of equal shape comes out as an inconsistent result
(the same call through the validated `impl_op!` path cannot: `c20_binop_wf_unconditional`) -/
theorem bypass_bitop_needs_wf : ∃ (a b r : A), a.WF ∧ a.shape = b.shape ∧ C20.bitop (· + ·) a b = .ok r ∧ ¬ r.WF :=
  c20_bitop_needs_wf

theorem bypass_bitScalar_needs_wf : ∃ (a r : A), C20.bitScalar (· + ·) a 0 = .ok r ∧ ¬ r.WF := c20_bitScalar_needs_wf

theorem bypass_assign_needs_wf : ∃ (a b r : A), b.WF ∧ a.shape = b.shape ∧ C20.assignop (· + ·) a b = .ok r ∧ ¬ r.WF :=
  c20_assignop_needs_wf

/-- by contrast the arithmetic operators go through `Array::new`: consistent with no hypothesis at all -/
theorem validated_binop_wf (f : Int → Int → Int) (a b r : A) (h : C20.binop f a b = .ok r) : r.WF :=
  c20_binop_wf_unconditional f a b h

/-! ## `ediff1d`, `diff`, `insert` with an axis, `convolve` (`ArrModel/C01Diff.lean`): what the machine's new operations compute -/

/-- first-order difference: element `i` of the adjacent differences of a lane is `l[i+1] - l[i]`, and there are `len - 1` of them -/
theorem adjDiff_element [Sub α] (l : List α) (i : Nat) (h : i + 1 < l.length) :
    (adjDiff l)[i]? = some (l[i + 1] - l[i]) ∧ (adjDiff l).length = l.length - 1 :=
  ⟨adjDiff_getElem? l i h, adjDiff_length l⟩

/-- `n`-th order difference = `n`-fold iteration of the first-order one; it is `n` elements shorter (empty once `n ≥ len`) -/
theorem iterDiff_iterates [Sub α] (n : Nat) (l : List α) :
    iterDiff 0 l = l ∧ iterDiff (n + 1) l = adjDiff (iterDiff n l) ∧ (iterDiff n l).length = l.length - n :=
  ⟨rfl, iterDiff_succ' n l, iterDiff_length n l⟩

/-- `ediff1d(to_end, to_begin)`: `to_begin`, then the adjacent differences of the flattened receiver, then `to_end`; shape `[count]` -/
theorem ediff1d_spec [Sub α] (a : Arr α) (e b : Option (Arr α)) :
    (a.ediff1d e b).elems = Arr.optElems b ++ adjDiff a.elems ++ Arr.optElems e ∧
    (a.ediff1d e b).shape = [(Arr.optElems b).length + (a.elems.length - 1) + (Arr.optElems e).length] ∧ (a.ediff1d e b).WF :=
  ⟨(c01d_ediff1d_spec a e b).1, (c01d_ediff1d_spec a e b).2, c01d_ediff1d_wf a e b⟩

/-- … element-wise: position `|to_begin| + i` holds `a[i+1] - a[i]` -/
theorem ediff1d_element [Sub α] (a : Arr α) (e b : Option (Arr α)) (i : Nat) (h : i + 1 < a.elems.length) :
    (a.ediff1d e b).elems[(Arr.optElems b).length + i]? = some (a.elems[i + 1] - a.elems[i]) := by
  rw [(c01d_ediff1d_spec a e b).1, List.append_assoc, List.getElem?_append_right (Nat.le_add_right _ _),
    Nat.add_sub_cancel_left, List.getElem?_append_left (by rw [adjDiff_length]; omega)]
  exact adjDiff_getElem? a.elems i h

/-- `diff` refuses an axis outside the rank (whatever `n` is), and order 0 answers the empty array -/
theorem diff_refusals [Sub α] (a : Arr α) (zero : α) (n : Nat) (axis : Option Int) (p q : Option (Arr α)) :
    (Arr.diffAxisBad a.ndim axis = true → a.diff zero n axis p q = .err .AxisOutOfBounds) ∧
    (Arr.diffAxisBad a.ndim axis = false → n = 0 → a.diff zero n axis p q = .ok Arr.empty) := by
  constructor
  · intro h; unfold Arr.diff; rw [h]; rfl
  · intro h hn; unfold Arr.diff; rw [h, hn]; rfl

/-- `diff` of a rank-1 array: the `n`-th order difference of `prepend ++ elements ++ append`, shape `[len - n]` -/
theorem diff_rank1 [Sub α] (a : Arr α) (zero : α) (n : Nat) (axis : Option Int) (p q : Option (Arr α))
    (hax : Arr.diffAxisBad a.ndim axis = false) (hn : n ≠ 0) (h1 : a.ndim = 1) :
    ∃ r, a.diff zero n axis p q = .ok r ∧ r.elems = iterDiff n (Arr.optElems p ++ a.elems ++ Arr.optElems q) ∧
      r.shape = [(Arr.optElems p).length + a.elems.length + (Arr.optElems q).length - n] ∧ r.WF := by
  refine ⟨_, c01d_diff_flat_spec a zero n axis p q hax hn h1, rfl, ?_, flat_wf _⟩
  simp [Arr.flat, iterDiff_length, Nat.add_assoc]

/-- `diff` of an array of another rank: the code re-lays the array (`diffRelay`) and takes the `n`-th order difference of every
lane along the axis.  For the re-laid array `x` (no zero-length axis): the result has the shape of `x` with the axis shortened
by `n`, it is consistent, and its element at coordinate `c` is element `c[axis]` of the `n`-th order difference of the lane of `x`
through `c` — out[.., i, ..] = x[.., i+1, ..] - x[.., i, ..] for `n = 1` (`adjDiff_element`). -/
theorem diff_nd_lanes [Sub α] (a : Arr α) (zero : α) (n : Nat) (axis : Option Int) (p q : Option (Arr α)) (x : Arr α)
    (hax : Arr.diffAxisBad a.ndim axis = false) (hn : n ≠ 0) (h1 : a.ndim ≠ 1)
    (hin : normalizeAxis a.ndim (axis.getD (-1)) < a.ndim)
    (hx : a.diffRelay zero (normalizeAxis a.ndim (axis.getD (-1))) p q = .ok x)
    (hxa : normalizeAxis a.ndim (axis.getD (-1)) < x.ndim) (hnz : 0 ∉ x.shape) :
    ∃ r, a.diff zero n axis p q = .ok r ∧
      r.shape = x.shape.set (normalizeAxis a.ndim (axis.getD (-1))) (x.shape.getD (normalizeAxis a.ndim (axis.getD (-1))) 0 - n) ∧
      r.WF ∧
      ∀ c, inRange r.shape c = true →
        r.get? c = (iterDiff n (laneOf x (normalizeAxis a.ndim (axis.getD (-1))) c))[c.getD (normalizeAxis a.ndim (axis.getD (-1))) 0]? := by
  obtain ⟨r, h1', h2, h3, h4⟩ := c01d_diff_lanes x zero n _ (c01d_diffRelay_wf a zero _ p q hx) hxa hnz
  refine ⟨r, ?_, h2, h3, h4⟩
  rw [c01d_diff_nd_eq a zero n axis p q hax hn h1 hin, hx]
  exact h1'

/-- whatever `diff` answers is consistent (every arm), and so is what `insert` with an axis answers; on a receiver of rank ≠ 1 the
latter has the shape the code computes (on a rank-1 receiver the call IS the flat insert of C13): the receiver's shape with the axis length replaced, axes 0 and `axis` swapped, then permuted by
`(1..ndim).insert_at(axis, 0)` -/
theorem diff_insertAxis_wf [Sub α] (a : Arr α) (zero : α) (ha : a.WF) :
    (∀ n axis p q r, a.diff zero n axis p q = .ok r → r.WF) ∧
    (∀ indices v axis r, v.WF → a.insertAxis zero indices v axis = .ok r → r.WF ∧ axis < a.ndim ∧
      (a.ndim ≠ 1 →
        ∃ K, r.shape = permute ((List.range' 1 (a.ndim - 1)).insertIdx axis 0) (swapExt (a.shape.set axis K) 0 axis))) ∧
    (∀ indices v, a.ndim = 1 → indices.any (fun i => decide (i > a.shape.getD 0 0)) = false → v.ndim = 1 →
      a.insertAxis zero indices v 0 = a.insertFlat indices v) :=
  ⟨fun n axis p q _ h => c01d_diff_wf a zero n axis p q h,
   fun indices v axis _ hv h => ⟨c01d_insertAxis_wf a zero indices v axis ha hv h, by
      unfold Arr.insertAxis at h
      split at h
      · cases h
      · rename_i hax; exact Nat.not_le.mp hax,
      fun h1 => (c01d_insertAxis_shape a zero indices v axis h1 h).2⟩,
   fun indices v h1 hix hv => c01d_insertAxis_rank1 a zero indices v h1 hix hv⟩

/-- `convolve`: the accumulation loop computes the defining sum — position `k` of the full product is `Σ_{i+j=k} x[i]·y[j]`
(`convCoeff`), for every `k < n + m - 1` -/
theorem convolve_full_coeff (x y : List Int) (k : Nat) (hk : k < x.length + y.length - 1) :
    (convFull x y)[k]? = some (convCoeff x y k) ∧ (convFull x y).length = x.length + y.length - 1 :=
  ⟨convFull_getElem? x y k hk, convFull_length x y⟩

/-- … and the three modes cut the windows `full`: all `n + m - 1`, `valid`: `n - m + 1` from offset `m - 1`, `same`: `n` from
offset `(m - 1) / 2` (`n ≥ m ≥ 1` the longer / shorter operand): length and every element -/
theorem convolve_window (md : ConvMode) (x y : List Int) (hm : 1 ≤ y.length) (hnm : y.length ≤ x.length) :
    (convWindow md x.length y.length (convFull x y)).length = convLen md x.length y.length ∧
    (convLen .full x.length y.length = x.length + y.length - 1 ∧ convLen .valid x.length y.length = x.length - y.length + 1 ∧
      convLen .same x.length y.length = x.length ∧ convOffset .full y.length = 0 ∧ convOffset .valid y.length = y.length - 1 ∧
      convOffset .same y.length = (y.length - 1) / 2) ∧
    ∀ k, k < (convWindow md x.length y.length (convFull x y)).length →
      (convWindow md x.length y.length (convFull x y))[k]? = some (convCoeff x y (k + convOffset md y.length)) :=
  ⟨convWindow_length md x y hm hnm, ⟨rfl, rfl, rfl, rfl, rfl, rfl⟩, fun k hk => convWindow_getElem? md x y hm hnm k hk⟩

/-- `convolve` on arrays: refused when an operand has no element or the mode text is none of `full` / `valid` / `same`; otherwise
the flat array of the window of the product of the longer by the shorter operand -/
theorem convolve_spec (a b : Arr Int) (mode : Option (List Char)) :
    ((a.len = 0 ∨ b.len = 0) → a.convolve b mode = .err .ParameterError) ∧
    (a.len ≠ 0 → b.len ≠ 0 → convModeOf mode = none → a.convolve b mode = .err .ParameterError) ∧
    (a.len ≠ 0 → b.len ≠ 0 → ∀ md, convModeOf mode = some md →
      a.convolve b mode = .ok (Arr.flat (convWindow md (max a.len b.len) (min a.len b.len)
        (if b.len > a.len then convFull b.elems a.elems else convFull a.elems b.elems)))) := by
  constructor
  · intro h
    unfold Arr.convolve
    rw [if_pos (by rcases h with h | h <;> simp [h])]
  constructor
  · intro ha hb hmd
    unfold Arr.convolve
    rw [if_neg (by simp [ha, hb]), hmd]
  · intro ha hb md hmd
    unfold Arr.convolve
    rw [if_neg (by simp [ha, hb]), hmd]
    dsimp only
    by_cases hlt : b.len > a.len
    · simp only [if_pos hlt]
      rw [show max a.len b.len = b.elems.length from by simp [Arr.len] at hlt ⊢; omega,
          show min a.len b.len = a.elems.length from by simp [Arr.len] at hlt ⊢; omega]
    · simp only [if_neg hlt]
      rw [show max a.len b.len = a.elems.length from by simp [Arr.len] at hlt ⊢; omega,
          show min a.len b.len = b.elems.length from by simp [Arr.len] at hlt ⊢; omega]

/-- the pair-returning `frexp`: on a consistent receiver it succeeds, and both members (mantissas, exponents) are consistent
and have exactly the receiver's shape; `modf` / `divmod`: both members of whatever they answer are consistent -/
theorem pairs_wf (a : A) (ha : a.WF) :
    (∃ r, frexpPair a = .ok r ∧ r.1.WF ∧ r.2.WF ∧ r.1.shape = a.shape ∧ r.2.shape = a.shape) ∧
    (∀ r, modfPair a = .ok r → r.1.WF ∧ r.2.WF) ∧ (∀ r, divmodPair a = .ok r → r.1.WF ∧ r.2.WF) := by
  obtain ⟨r, hr⟩ := c01d_frexpPair_ok a ha
  exact ⟨⟨r, hr, c01d_frexpPair_wf a hr⟩, fun _ h => c01d_modfPair_wf a ha h, fun _ h => c01d_divmodPair_wf a ha h⟩

/-! ## non-vacuity -/

/-- the hypotheses of `diff_nd_lanes` are satisfiable (a 2×3 array, last axis), and the code's re-lay is NOT the identity for an
outer axis of a rank-3 array (the 4×3×2 array of squares, axis 0: the lane differences come out in permuted order) -/
example : ∃ x, (⟨[0, 1, 4, 9, 16, 25], [2, 3]⟩ : A).diffRelay 0 1 none none = .ok x ∧ 1 < x.ndim ∧ 0 ∉ x.shape ∧
    (⟨[0, 1, 4, 9, 16, 25], [2, 3]⟩ : A).diff 0 1 none none none = .ok ⟨[1, 3, 7, 9], [2, 2]⟩ :=
  ⟨⟨[0, 1, 4, 9, 16, 25], [2, 3]⟩, by decide +kernel, by decide, by decide, by decide +kernel⟩
example : ((⟨(List.range 24).map (fun i => Int.ofNat (i * i)), [4, 3, 2]⟩ : A).diff 0 1 (some 0) none none).map (·.elems.take 4) =
    .ok [36, 72, 48, 84] := by decide +kernel
example : Arr.diffAxisBad 2 (some 2) = true ∧ Arr.diffAxisBad 2 (some (-1)) = false ∧ Arr.diffAxisBad 0 none = false := by decide
example : (⟨[7], []⟩ : A).diff 0 1 none none none = .panic := by decide +kernel
example : (⟨[1, 4, 9], [3]⟩ : A).diff 0 2 none (some ⟨[0], [1]⟩) none = .ok ⟨[2, 2], [2]⟩ := by decide +kernel
example : (⟨[0, 1, 4, 9, 16, 25], [2, 3]⟩ : A).insertAxis 0 [0, 2] ⟨[100, 200, 300], [3]⟩ 0 =
    .ok ⟨[100, 200, 300, 0, 1, 4, 9, 16, 25, 100, 200, 300], [4, 3]⟩ := by decide +kernel
example : (⟨[1, 2, 3], [3]⟩ : A).convolve ⟨[0, 1, 5], [3]⟩ none = .ok ⟨[0, 1, 7, 13, 15], [5]⟩ ∧
    (⟨[1, 2, 3], [3]⟩ : A).convolve ⟨[0, 1], [2]⟩ (some ['s', 'a', 'm', 'e']) = .ok ⟨[0, 1, 2], [3]⟩ ∧
    (⟨[1, 2, 3], [3]⟩ : A).convolve ⟨[0, 1], [2]⟩ (some ['S', 'a', 'm', 'e']) = .err .ParameterError ∧
    convCoeff [1, 2, 3] [0, 1, 5] 2 = 7 := by decide +kernel
example : (run [.new 6 0 [2, 3], .diff 0 1 (some 0) none none, .ediff1d 0 none (some 1), .new 2 5 [2], .convolve 0 3 none,
      .insertAxis 0 [1] 3 1, .insertAxis 0 [1] 3 2]).map
      (fun v => match v with | .arr a => some a.shape | _ => none) =
    [some [2, 3], some [1, 3], some [8], some [2], some [7], some [2, 4], none] := by decide +kernel

/-- a chain through constructors, axis moves, a split, a member, joins, a bypass operator, a product, a reduction:
the machine really produces arrays, lists, errors and panics -/
example : (run [.new 6 0 [2, 3], .transpose 0 none, .split 1 3 (some 0), .member 2 1, .concatenate (.lst 2) (some 0),
      .operator .bitop 0 0, .operator .binop 0 1, .new 5 0 [2, 3], .matmul 0 1, .reduceFold 0 (some 1)]).map
      (fun v => match v with
        | .arr a => some a.shape | .list l => some (l.flatMap (·.shape)) | _ => none) =
    [some [2, 3], some [3, 2], some [1, 2, 1, 2, 1, 2], some [1, 2], some [3, 2], some [2, 3], none, none,
     some [2, 2], some [2]] := by decide +kernel

example : (match eval [] (.new 5 0 [2, 3]) with | .err .ShapeMustMatchValuesLength => true | _ => false) = true := by decide
example : (match eval [.arr ⟨[1, 2], [2]⟩, .arr ⟨[1, 2, 3], [3]⟩] (.operator .bitop 0 1) with | .panic => true | _ => false) = true := by
  decide
example : StoreWF (run [.new 24 0 [2, 3, 4], .moveaxis 0 [0] [2], .arraySplit 1 2 (some 1), .extern (.list [[2], [3, 1]])]) :=
  run_wf _
/-- the empty array and unit axes are inside the quantifier -/
example : (Arr.new ([] : List Int) [2, 0, 3]).isOk = true ∧ (⟨[], [2, 0, 3]⟩ : A).WF ∧ (⟨[], [2, 0, 3]⟩ : A).isEmpty = true := by
  decide

/-! ## the validating funnel as REGENERATED FROM THE RUST SOURCE on every run
`tools/rs2lean.py` translates `Array::new`, `create`, `single`, `flat`, `empty`, `FromIterator::from_iter`, `reshape` and the
getters construct by construct into `ArrModel/Gen/Core.lean`; these theorems are about those generated definitions (their
equivalence with the hand model is `ArrProofs/Lemmas/GenCore.lean`), so a change of the Rust funnel changes what has to be
proved here. -/

open ArrModel.Gen.Core in
/-- `Array::new` as written in `create.rs` today: Ok exactly when the element list fits the shape - and then the very array
`{elements, shape}`, which is consistent -, the error value `ShapeMustMatchValuesLength` otherwise, never a panic -/
theorem gen_new_funnel {α : Type} (e : List α) (s : List Nat) :
    (∀ r, Array_new e s = .ok r ↔ s.prod = e.length ∧ r = ⟨e, s⟩) ∧ (∀ r, Array_new e s = .ok r → r.WF) ∧
    (s.prod ≠ e.length → Array_new e s = .err .ShapeMustMatchValuesLength) ∧ Array_new e s ≠ .panic :=
  ⟨c01_gen_new_ok_iff e s, c01_gen_new_wf e s, c01_gen_new_err e s, c01_gen_new_never_panics e s⟩

open ArrModel.Gen.Core in
/-- every other constructor of `create.rs` / `iter.rs` and `reshape` of `manipulate.rs`, as written today, answers only with a
consistent array holding exactly the given elements -/
theorem gen_constructors_wf {α : Type} (e : List α) (s : List Nat) (nd : Option Nat) (x : α) (a : Arr α) :
    (∀ r, Array_create e s nd = .ok r → r.WF) ∧
    (∃ r, Array_single x = .ok r ∧ r.WF ∧ r.elems = [x] ∧ r.shape = [1]) ∧
    (∃ r, Array_flat e = .ok r ∧ r.WF ∧ r.elems = e ∧ r.shape = [e.length]) ∧
    (∃ r : Arr α, Array_empty = .ok r ∧ r.WF ∧ r.elems = [] ∧ r.shape = [0]) ∧
    (∃ r, Array_from_iter e = .ok r ∧ r.WF ∧ r.elems = e ∧ r.shape = [e.length]) ∧
    (∀ r, Array_reshape a s = .ok r → r.WF ∧ r.elems = a.elems ∧ r.shape = s) :=
  ⟨c01_gen_create_wf e s nd, c01_gen_single_wf x, c01_gen_flat_wf e, c01_gen_empty_wf, c01_gen_from_iter_wf e,
   fun r h => c01_gen_reshape_wf a r s h⟩

open ArrModel.Gen.Core in
/-- the getters of `meta.rs` as written today: `len` is the element count (= the product of the shape on a consistent array),
`ndim` the length of the shape, `is_empty` holds exactly when the product of the shape is 0 -/
theorem gen_meta_agree {α : Type} (a : Arr α) (hwf : a.WF) :
    Array_len a = .ok a.shape.prod ∧ Array_ndim a = .ok a.shape.length ∧ Array_is_empty a = .ok (a.shape.prod == 0) ∧
    Array_get_elements a = .ok a.elems ∧ Array_get_shape a = .ok a.shape :=
  ⟨c01_gen_len a hwf, c01_gen_ndim a, c01_gen_is_empty a hwf, (c01_gen_get a).1, (c01_gen_get a).2⟩

example : ArrModel.Gen.Core.Array_new [1, 2, 3] [2, 2] = .err .ShapeMustMatchValuesLength ∧
    ArrModel.Gen.Core.Array_new [1, 2, 3, 4] [2, 2] = .ok ⟨[1, 2, 3, 4], [2, 2]⟩ := by decide

end ArrModel.C01
