import ArrProofs.Lemmas.C20
/-!
# C20 — operator overloads equal the native scalar operators at every position

Property theorems only (helpers in `ArrProofs/Lemmas/C20.lean`).  Model under test: `ArrModel/C20.lean`
(`binop`, `scalarop`, `assignop`, `assignScalar`, `unop`, `bitop`, `bitScalar`, `bitAssign`, `bitAssignScalar`,
`opEq`, `opNe`, `opPartialCmp`, `opLt`, `opLe`, `opGt`, `opGe`), which transcribes `impl_op!`, `Neg`,
`impl_bitwise_ops!`, `Not`, `PartialEq`, `PartialOrd` statement by statement.

All theorems hold for every element type, every scalar function `f`/`g`/`eq`/`pcmp`, every shape (no bound on
rank or length).  `f` stands for the native scalar operator; that the crate applies *the native operator* of the
element type is not a Lean statement — it is checked by the tie, natively and bit-exactly.
-/
namespace ArrModel.C20
open ArrModel Arr

variable {α : Type}

/-! ## array ∘ array (`impl_op!`) -/

/-- **complete characterisation of `a op b`**: a value is produced exactly for equal shapes (whose product
matches the zipped length), and it is the receiver's shape with the zipped elements. -/
theorem binop_ok_iff (f : α → α → α) (a b r : Arr α) :
    binop f a b = .ok r ↔
      a.shape = b.shape ∧ a.shape.prod = min a.elems.length b.elems.length ∧
      r = ⟨List.zipWith f a.elems b.elems, a.shape⟩ := by
  unfold binop
  by_cases hs : a.shape = b.shape
  · rw [if_neg (by simpa using hs), newUnwrap_ok_iff]; simp [hs]
  · rw [if_pos hs]; simp [hs]

/-- **`a op b` on well-formed equally shaped arrays**: the receiver's shape, a well-formed result, and at
every position the scalar operator applied to the two elements at that position. -/
theorem binop_at (f : α → α → α) (a b : Arr α) (ha : a.WF) (hb : b.WF) (hs : a.shape = b.shape) :
    ∃ r, binop f a b = .ok r ∧ r.shape = a.shape ∧ r.WF ∧ r.elems.length = a.elems.length ∧
      ∀ (i : Nat) (x y : α), a.elems[i]? = some x → b.elems[i]? = some y → r.elems[i]? = some (f x y) := by
  have hl : b.elems.length = a.elems.length := by rw [ha, hb, hs]
  refine ⟨⟨List.zipWith f a.elems b.elems, a.shape⟩, ?_, rfl, ?_, ?_, ?_⟩
  · exact (binop_ok_iff f a b _).2 ⟨hs, by rw [hl, Nat.min_self, ha], rfl⟩
  · simp [Arr.WF, hl, ha.symm]
  · simp [hl]
  · intro i x y hx hy; exact getElem?_zipWith_some f _ _ i x y hx hy

/-- the same, read through coordinates (`get? c = elems[ravel shape c]?`, C02): the element of the result at
coordinate `c` is `f` of the operands' elements at coordinate `c`. -/
theorem binop_at_coord (f : α → α → α) (a b r : Arr α) (h : binop f a b = .ok r) (c : List Nat) (x y : α)
    (hx : a.get? c = some x) (hy : b.get? c = some y) : r.get? c = some (f x y) := by
  obtain ⟨hs, -, rfl⟩ := (binop_ok_iff f a b r).1 h
  unfold Arr.get? at *
  rw [← hs] at hy
  exact getElem?_zipWith_some f _ _ _ x y hx hy

/-- a panic is the only refusal (`a op b` has no `Result`) -/
theorem binop_never_err (f : α → α → α) (a b : Arr α) (e : Err) : binop f a b ≠ .err e := by
  unfold binop; split
  · simp
  · exact newUnwrap_ne_err _ _ e

/-! ## array ∘ scalar -/

/-- **`a op s`** returns `Ok` of the receiver's shape with `f · s` at every position -/
theorem scalarop_at (f : α → α → α) (a : Arr α) (s : α) (ha : a.WF) :
    ∃ r, scalarop f a s = .ok r ∧ r.shape = a.shape ∧ r.WF ∧ r.elems.length = a.elems.length ∧
      ∀ (i : Nat) (x : α), a.elems[i]? = some x → r.elems[i]? = some (f x s) := by
  refine ⟨⟨a.elems.map (fun x => f x s), a.shape⟩, ?_, rfl, ?_, by simp, ?_⟩
  · unfold scalarop
    rw [mapArr_ok _ _ ha]
    simp only [Res.bind_ok]
    rw [reshape_ok _ _ (by simpa using ha.symm)]
  · simpa [Arr.WF] using ha
  · intro i x hx; simp [hx]

/-- the scalar forms never panic, whatever the receiver -/
theorem scalarop_never_panics (f : α → α → α) (a : Arr α) (s : α) : scalarop f a s ≠ .panic := by
  by_cases ha : a.WF
  · obtain ⟨r, hr, -⟩ := scalarop_at f a s ha; rw [hr]; simp
  · unfold scalarop; rw [mapArr_err _ _ ha]; simp

/-! ## compound assignment -/

/-- **`a op= b` leaves the receiver equal to what `a op b` returns** (both refuse — panic — on different
shapes), given that the scalar compound assignment `g` agrees with the scalar operator `f`. -/
theorem assign_eq_plain (f g : α → α → α) (hg : ∀ x y, g x y = f x y) (a b : Arr α) (ha : a.WF) (hb : b.WF) :
    assignop g a b = binop f a b := by
  unfold assignop binop
  by_cases hs : a.shape = b.shape
  · have hl : b.elems.length = a.elems.length := by rw [ha, hb, hs]
    rw [if_neg (by simpa using hs), if_neg (by simpa using hs),
      newUnwrap_ok _ _ (by simp [hl, ha.symm]), zipAssign_congr hg,
      zipAssign_eq_zipWith _ _ _ (by omega)]
  · rw [if_pos hs, if_pos hs]

/-- per position: the state after `a op= b` holds `g x y` -/
theorem assignop_at (g : α → α → α) (a b : Arr α) (ha : a.WF) (hb : b.WF) (hs : a.shape = b.shape) :
    ∃ r, assignop g a b = .ok r ∧ r.shape = a.shape ∧ r.WF ∧
      ∀ (i : Nat) (x y : α), a.elems[i]? = some x → b.elems[i]? = some y → r.elems[i]? = some (g x y) := by
  obtain ⟨r, h, h1, h2, -, h4⟩ := binop_at g a b ha hb hs
  exact ⟨r, by rw [assign_eq_plain g g (fun _ _ => rfl) a b ha hb, h], h1, h2, h4⟩

/-- **`a op= s` leaves the receiver equal to what `a op s` returns** -/
theorem assignScalar_eq_plain (f g : α → α → α) (hg : ∀ x y, g x y = f x y) (a : Arr α) (s : α) (ha : a.WF) :
    assignScalar g a s = scalarop f a s := by
  unfold assignScalar scalarop
  rw [mapArr_ok _ _ ha]
  simp only [Res.bind_ok]
  rw [reshape_ok _ _ (by simpa using ha.symm)]
  simp [hg]

/-! ## negation / logical not -/

/-- **`-a`, `!a`**: receiver's shape, `f` at every position -/
theorem unop_at (f : α → α) (a : Arr α) (ha : a.WF) :
    ∃ r, unop f a = .ok r ∧ r.shape = a.shape ∧ r.WF ∧ r.elems.length = a.elems.length ∧
      ∀ (i : Nat) (x : α), a.elems[i]? = some x → r.elems[i]? = some (f x) := by
  refine ⟨⟨a.elems.map f, a.shape⟩, ?_, rfl, ?_, by simp, ?_⟩
  · unfold unop; exact newUnwrap_ok _ _ (by simpa using ha.symm)
  · simpa [Arr.WF] using ha
  · intro i x hx; simp [hx]

/-! ## bit operators (`impl_bitwise_ops!`) -/

theorem bitop_ok_iff (f : α → α → α) (a b r : Arr α) :
    bitop f a b = .ok r ↔ a.shape = b.shape ∧ r = ⟨List.zipWith f a.elems b.elems, a.shape⟩ := by
  unfold bitop
  by_cases hs : a.shape = b.shape
  · rw [if_neg (by simpa using hs)]; simp [hs, eq_comm]
  · rw [if_pos hs]; simp [hs]

/-- **`a & b`, `a | b`, `a ^ b`**: although the result is built by a struct literal (no validation), it is
well-formed, has the receiver's shape and holds `f x y` at every position. -/
theorem bitop_at (f : α → α → α) (a b : Arr α) (ha : a.WF) (hb : b.WF) (hs : a.shape = b.shape) :
    ∃ r, bitop f a b = .ok r ∧ r.shape = a.shape ∧ r.WF ∧ r.elems.length = a.elems.length ∧
      ∀ (i : Nat) (x y : α), a.elems[i]? = some x → b.elems[i]? = some y → r.elems[i]? = some (f x y) := by
  have hl : b.elems.length = a.elems.length := by rw [ha, hb, hs]
  refine ⟨⟨List.zipWith f a.elems b.elems, a.shape⟩, (bitop_ok_iff f a b _).2 ⟨hs, rfl⟩, rfl, ?_, by simp [hl], ?_⟩
  · simp [Arr.WF, hl, ha.symm]
  · intro i x y hx hy; exact getElem?_zipWith_some f _ _ i x y hx hy

/-- on well-formed operands the bit operators and the arithmetic operators are the same lifting -/
theorem bitop_eq_binop (f : α → α → α) (a b : Arr α) (ha : a.WF) (hb : b.WF) : bitop f a b = binop f a b := by
  unfold bitop binop
  by_cases hs : a.shape = b.shape
  · have hl : b.elems.length = a.elems.length := by rw [ha, hb, hs]
    rw [if_neg (by simpa using hs), if_neg (by simpa using hs), newUnwrap_ok _ _ (by simp [hl, ha.symm])]
  · rw [if_pos hs, if_pos hs]

theorem bitScalar_at (f : α → α → α) (a : Arr α) (s : α) (ha : a.WF) :
    ∃ r, bitScalar f a s = .ok r ∧ r.shape = a.shape ∧ r.WF ∧ r.elems.length = a.elems.length ∧
      ∀ (i : Nat) (x : α), a.elems[i]? = some x → r.elems[i]? = some (f x s) := by
  refine ⟨⟨a.elems.map (fun x => f x s), a.shape⟩, rfl, rfl, ?_, by simp, ?_⟩
  · simpa [Arr.WF] using ha
  · intro i x hx; simp [hx]

/-- **`a &= b` etc. leave the receiver equal to `a & b`** (same scalar function in the code: `*a = a.op(b)`) -/
theorem bitAssign_eq_plain (f : α → α → α) (a b : Arr α) (ha : a.WF) (hb : b.WF) :
    bitAssign f a b = bitop f a b := by
  rw [bitop_eq_binop f a b ha hb]
  exact assign_eq_plain f f (fun _ _ => rfl) a b ha hb

theorem bitAssignScalar_eq_plain (f : α → α → α) (a : Arr α) (s : α) :
    bitAssignScalar f a s = bitScalar f a s := rfl

/-! ## differently shaped operands are rejected -/

/-- **no operator combines or compares differently shaped arrays**: every two-array form refuses (by
panicking — an operator cannot return `Result`; the suite's `#[should_panic]` cases pin this refusal). -/
theorem mismatch_rejected (f : α → α → α) (eq : α → α → Bool) (pcmp : α → α → Option Ordering)
    (a b : Arr α) (hs : a.shape ≠ b.shape) :
    binop f a b = .panic ∧ assignop f a b = .panic ∧ bitop f a b = .panic ∧ bitAssign f a b = .panic ∧
    opEq eq a b = .panic ∧ opNe eq a b = .panic ∧ opPartialCmp pcmp a b = .panic ∧
    opLt pcmp a b = .panic ∧ opLe pcmp a b = .panic ∧ opGt pcmp a b = .panic ∧ opGe pcmp a b = .panic := by
  simp [binop, assignop, bitop, bitAssign, opEq, opNe, opPartialCmp, opLt, opLe, opGt, opGe, hs, Res.map]

/-- conversely a value (or a truth value) is only ever produced for equal shapes -/
theorem value_only_for_equal_shapes (f : α → α → α) (eq : α → α → Bool) (pcmp : α → α → Option Ordering)
    (a b : Arr α) :
    ((∃ r, binop f a b = .ok r) → a.shape = b.shape) ∧ ((∃ r, assignop f a b = .ok r) → a.shape = b.shape) ∧
    ((∃ r, bitop f a b = .ok r) → a.shape = b.shape) ∧ ((∃ v, opEq eq a b = .ok v) → a.shape = b.shape) ∧
    ((∃ v, opLt pcmp a b = .ok v) → a.shape = b.shape) := by
  by_cases hs : a.shape = b.shape
  · simp [hs]
  · have h := mismatch_rejected f eq pcmp a b hs
    simp [h.1, h.2.1, h.2.2.1, h.2.2.2.2.1, h.2.2.2.2.2.2.2.1]

/-! ## equality -/

/-- **`a == b` is true exactly when all elements are equal** (equal shapes, well-formed) -/
theorem eq_iff_all (eq : α → α → Bool) (a b : Arr α) (ha : a.WF) (hb : b.WF) (hs : a.shape = b.shape) :
    ∃ v, opEq eq a b = .ok v ∧
      (v = true ↔ ∀ (i : Nat) (x y : α), a.elems[i]? = some x → b.elems[i]? = some y → eq x y = true) := by
  have hl : a.elems.length = b.elems.length := by rw [ha, hb, hs]
  refine ⟨_, by unfold opEq; rw [if_neg (by simpa using hs)], ?_⟩
  rw [List.all_eq_true]
  constructor
  · intro h i x y hx hy
    obtain ⟨hi, rfl⟩ := List.getElem?_eq_some_iff.1 hx
    obtain ⟨hi', rfl⟩ := List.getElem?_eq_some_iff.1 hy
    have : (a.elems[i], b.elems[i]) ∈ a.elems.zip b.elems := by
      rw [List.mem_iff_getElem]; exact ⟨i, by simp only [List.length_zip]; omega, by simp⟩
    exact h _ this
  · intro h p hp
    obtain ⟨i, hi, rfl⟩ := List.mem_iff_getElem.1 hp
    simp only [List.length_zip] at hi
    simp only [List.getElem_zip]
    exact h i _ _ (List.getElem?_eq_getElem (by omega)) (List.getElem?_eq_getElem (by omega))

/-- with a lawful scalar `==`: `a == b` iff the arrays are the same value -/
theorem eq_iff_same [BEq α] [LawfulBEq α] (a b : Arr α) (ha : a.WF) (hb : b.WF) (hs : a.shape = b.shape) :
    opEq (· == ·) a b = .ok true ↔ a = b := by
  have hl : a.elems.length = b.elems.length := by rw [ha, hb, hs]
  obtain ⟨v, hv, hiff⟩ := eq_iff_all (· == ·) a b ha hb hs
  rw [hv]
  constructor
  · intro h
    have hv' : v = true := by simpa using h
    have hall := hiff.1 hv'
    have : a.elems = b.elems := by
      apply List.ext_getElem hl
      intro i h1 h2
      simpa using hall i _ _ (List.getElem?_eq_getElem h1) (List.getElem?_eq_getElem h2)
    cases a; cases b; simp_all
  · rintro rfl
    have : v = true := hiff.2 (by
      intro i x y hx hy; rw [hx] at hy; cases hy; simp)
    rw [this]

/-- `a != b` is the negation -/
theorem ne_eq_not_eq (eq : α → α → Bool) (a b : Arr α) : opNe eq a b = (opEq eq a b).map (!·) := rfl

/-! ## ordering: lexicographic on the flat element sequences -/

/-- **`a < b`**: true exactly when at the first position whose elements do not compare `Equal` the receiver's
element is `Less` (equal shapes ⇒ equal lengths, so no prefix case). -/
theorem lt_lex (pcmp : α → α → Option Ordering) (a b : Arr α) (ha : a.WF) (hb : b.WF) (hs : a.shape = b.shape) :
    ∃ v, opLt pcmp a b = .ok v ∧ (v = true ↔ FirstAt pcmp (some .lt) a.elems b.elems) := by
  have hl : a.elems.length = b.elems.length := by rw [ha, hb, hs]
  refine ⟨_, by simp only [opLt, opPartialCmp]; rw [if_neg (by simpa using hs)]; rfl, ?_⟩
  rw [← slicePartialCmp_first_iff pcmp _ (by simp) _ _ hl]; simp

/-- **`a > b`** -/
theorem gt_lex (pcmp : α → α → Option Ordering) (a b : Arr α) (ha : a.WF) (hb : b.WF) (hs : a.shape = b.shape) :
    ∃ v, opGt pcmp a b = .ok v ∧ (v = true ↔ FirstAt pcmp (some .gt) a.elems b.elems) := by
  have hl : a.elems.length = b.elems.length := by rw [ha, hb, hs]
  refine ⟨_, by simp only [opGt, opPartialCmp]; rw [if_neg (by simpa using hs)]; rfl, ?_⟩
  rw [← slicePartialCmp_first_iff pcmp _ (by simp) _ _ hl]; simp

/-- **`a <= b`**: lexicographically less, or all positions `Equal` -/
theorem le_lex (pcmp : α → α → Option Ordering) (a b : Arr α) (ha : a.WF) (hb : b.WF) (hs : a.shape = b.shape) :
    ∃ v, opLe pcmp a b = .ok v ∧
      (v = true ↔ FirstAt pcmp (some .lt) a.elems b.elems ∨ AllEq pcmp a.elems b.elems) := by
  have hl : a.elems.length = b.elems.length := by rw [ha, hb, hs]
  refine ⟨_, by simp only [opLe, opPartialCmp]; rw [if_neg (by simpa using hs)]; rfl, ?_⟩
  rw [← slicePartialCmp_first_iff pcmp _ (by simp) _ _ hl, ← slicePartialCmp_eq_iff pcmp _ _ hl]; simp

/-- **`a >= b`** -/
theorem ge_lex (pcmp : α → α → Option Ordering) (a b : Arr α) (ha : a.WF) (hb : b.WF) (hs : a.shape = b.shape) :
    ∃ v, opGe pcmp a b = .ok v ∧
      (v = true ↔ FirstAt pcmp (some .gt) a.elems b.elems ∨ AllEq pcmp a.elems b.elems) := by
  have hl : a.elems.length = b.elems.length := by rw [ha, hb, hs]
  refine ⟨_, by simp only [opGe, opPartialCmp]; rw [if_neg (by simpa using hs)]; rfl, ?_⟩
  rw [← slicePartialCmp_first_iff pcmp _ (by simp) _ _ hl, ← slicePartialCmp_eq_iff pcmp _ _ hl]; simp

/-- **`partial_cmp`** answers `None` exactly when the first non-`Equal` position is incomparable (NaN) -/
theorem partialCmp_none_iff (pcmp : α → α → Option Ordering) (a b : Arr α) (ha : a.WF) (hb : b.WF)
    (hs : a.shape = b.shape) :
    opPartialCmp pcmp a b = .ok none ↔ FirstAt pcmp none a.elems b.elems := by
  have hl : a.elems.length = b.elems.length := by rw [ha, hb, hs]
  unfold opPartialCmp
  rw [if_neg (by simpa using hs), ← slicePartialCmp_first_iff pcmp none (by simp) _ _ hl]; simp

/-- for integer elements this is Lean's own lexicographic order `<` on `List Int` -/
theorem lt_int_iff (a b : Arr Int) (hs : a.shape = b.shape) :
    opLt (fun x y => some (compare x y)) a b = .ok (decide (a.elems < b.elems)) := by
  simp only [opLt, opPartialCmp]
  rw [if_neg (by simpa using hs)]
  simp only [Res.map]
  congr 1
  rw [Bool.eq_iff_iff]
  simp [slicePartialCmp_int_lt]

/-! ## non-vacuity -/

example : (⟨[1, 2, 3, 4, 5, 6], [2, 3]⟩ : Arr Int).WF := by decide
example : binop (· - ·) (⟨[1, 2, 3, 4, 5, 6], [2, 3]⟩ : Arr Int) ⟨[6, 5, 4, 3, 2, 1], [2, 3]⟩
    = .ok ⟨[-5, -3, -1, 1, 3, 5], [2, 3]⟩ := by decide
example : binop (· - ·) (⟨[1, 2, 3, 4, 5, 6], [2, 3]⟩ : Arr Int) ⟨[6, 5, 4, 3, 2, 1], [3, 2]⟩ = .panic := by decide
example : assignop (· - ·) (⟨[1, 2, 3, 4, 5, 6], [2, 3]⟩ : Arr Int) ⟨[6, 5, 4, 3, 2, 1], [2, 3]⟩
    = .ok ⟨[-5, -3, -1, 1, 3, 5], [2, 3]⟩ := by decide
example : scalarop (· * ·) (⟨[1, 2, 3, 4, 5, 6], [2, 3]⟩ : Arr Int) 2 = .ok ⟨[2, 4, 6, 8, 10, 12], [2, 3]⟩ := by decide
example : unop (- ·) (⟨[1, -2], [1, 2]⟩ : Arr Int) = .ok ⟨[-1, 2], [1, 2]⟩ := by decide
example : opLt Flt.pcmp ⟨[some 1, some 2, some 3, some 0], [2, 2]⟩ ⟨[some 1, some 2, some 4, some 0], [2, 2]⟩ = .ok true := by decide
example : opLe Flt.pcmp ⟨[some 1, none], [2]⟩ ⟨[some 1, none], [2]⟩ = .ok false := by decide
example : FirstAt Flt.pcmp (some .lt) [some 1, some 2, some 3] [some 1, some 2, some 4] :=
  ⟨2, some 3, some 4, rfl, rfl, by decide, by decide, by
    intro j hj u v hu hv
    match j, hj with
    | 0, _ => simp at hu hv; subst hu hv; decide
    | 1, _ => simp at hu hv; subst hu hv; decide⟩
/-- without well-formedness the compound form and the plain form really differ (the hypothesis is needed) -/
example : assignop (· + ·) (⟨[1, 2, 3], [2]⟩ : Arr Int) ⟨[1], [2]⟩ ≠ binop (· + ·) ⟨[1, 2, 3], [2]⟩ ⟨[1], [2]⟩ := by decide

end ArrModel.C20
