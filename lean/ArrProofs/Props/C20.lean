import ArrProofs.Lemmas.C20
import ArrProofs.Lemmas.C20Int
/-!
# C20 — operator overloads equal the native scalar operators at every position

Property theorems only (helpers in `ArrProofs/Lemmas/C20.lean`).  Model under test: `ArrModel/C20.lean`
(`binop`, `scalarop`, `assignop`, `assignScalar`, `unop`, `bitop`, `bitScalar`, `bitAssign`, `bitAssignScalar`,
`opEq`, `opNe`, `opPartialCmp`, `opLt`, `opLe`, `opGt`, `opGe`), which transcribes `impl_op!`, `Neg`,
`impl_bitwise_ops!`, `Not`, `PartialEq`, `PartialOrd` statement by statement.

All theorems hold for every element type, every scalar function `f`/`g`/`eq`/`pcmp`, every shape (no bound on
rank or length).  `f` stands for the native scalar operator.  For the INTEGER element types and `bool` the native
operator itself is modelled (`ArrModel/C20Int.lean`, second half of this file: every width, every value, both
builds); for the float types it stays a parameter that the tie evaluates natively and bit-exactly.
-/
namespace ArrModel.C20
open ArrModel Arr

variable {α : Type}

/-! ## array ∘ array (`impl_op!`) -/

/-- **complete characterisation of `a op b`**: a value is produced exactly for equal shapes (whose product
matches the zipped length), and it is the receiver's shape with the zipped elements. -/
theorem binop_ok_iff (f : α → α → α) (a b r : Arr α) :
    binop f a b = .ok r ↔
      a.shape = b.shape ∧ a.shape.prod = min a.elems.length b.elems.length ∧
      r = ⟨List.zipWith f a.elems b.elems, a.shape⟩ := by
  unfold binop
  by_cases hs : a.shape = b.shape
  · rw [if_neg (by simpa using hs), newUnwrap_ok_iff]; simp [hs]
  · rw [if_pos hs]; simp [hs]

/-- **`a op b` on well-formed equally shaped arrays**: the receiver's shape, a well-formed result, and at
every position the scalar operator applied to the two elements at that position. -/
theorem binop_at (f : α → α → α) (a b : Arr α) (ha : a.WF) (hb : b.WF) (hs : a.shape = b.shape) :
    ∃ r, binop f a b = .ok r ∧ r.shape = a.shape ∧ r.WF ∧ r.elems.length = a.elems.length ∧
      ∀ (i : Nat) (x y : α), a.elems[i]? = some x → b.elems[i]? = some y → r.elems[i]? = some (f x y) := by
  have hl : b.elems.length = a.elems.length := by rw [ha, hb, hs]
  refine ⟨⟨List.zipWith f a.elems b.elems, a.shape⟩, ?_, rfl, ?_, ?_, ?_⟩
  · exact (binop_ok_iff f a b _).2 ⟨hs, by rw [hl, Nat.min_self, ha], rfl⟩
  · simp [Arr.WF, hl, ha.symm]
  · simp [hl]
  · intro i x y hx hy; exact getElem?_zipWith_some f _ _ i x y hx hy

/-- the same, read through coordinates (`get? c = elems[ravel shape c]?`, C02): the element of the result at
coordinate `c` is `f` of the operands' elements at coordinate `c`. -/
theorem binop_at_coord (f : α → α → α) (a b r : Arr α) (h : binop f a b = .ok r) (c : List Nat) (x y : α)
    (hx : a.get? c = some x) (hy : b.get? c = some y) : r.get? c = some (f x y) := by
  obtain ⟨hs, -, rfl⟩ := (binop_ok_iff f a b r).1 h
  unfold Arr.get? at *
  rw [← hs] at hy
  exact getElem?_zipWith_some f _ _ _ x y hx hy

/-- a panic is the only refusal (`a op b` has no `Result`) -/
theorem binop_never_err (f : α → α → α) (a b : Arr α) (e : Err) : binop f a b ≠ .err e := by
  unfold binop; split
  · simp
  · exact newUnwrap_ne_err _ _ e

/-! ## array ∘ scalar -/

/-- **`a op s`** returns `Ok` of the receiver's shape with `f · s` at every position -/
theorem scalarop_at (f : α → α → α) (a : Arr α) (s : α) (ha : a.WF) :
    ∃ r, scalarop f a s = .ok r ∧ r.shape = a.shape ∧ r.WF ∧ r.elems.length = a.elems.length ∧
      ∀ (i : Nat) (x : α), a.elems[i]? = some x → r.elems[i]? = some (f x s) := by
  refine ⟨⟨a.elems.map (fun x => f x s), a.shape⟩, ?_, rfl, ?_, by simp, ?_⟩
  · unfold scalarop
    rw [mapArr_ok _ _ ha]
    simp only [Res.bind_ok]
    rw [reshape_ok _ _ (by simpa using ha.symm)]
  · simpa [Arr.WF] using ha
  · intro i x hx; simp [hx]

/-- the scalar forms never panic, whatever the receiver -/
theorem scalarop_never_panics (f : α → α → α) (a : Arr α) (s : α) : scalarop f a s ≠ .panic := by
  by_cases ha : a.WF
  · obtain ⟨r, hr, -⟩ := scalarop_at f a s ha; rw [hr]; simp
  · unfold scalarop; rw [mapArr_err _ _ ha]; simp

/-! ## compound assignment -/

/-- **`a op= b` leaves the receiver equal to what `a op b` returns** (both refuse — panic — on different
shapes), given that the scalar compound assignment `g` agrees with the scalar operator `f`. -/
theorem assign_eq_plain (f g : α → α → α) (hg : ∀ x y, g x y = f x y) (a b : Arr α) (ha : a.WF) (hb : b.WF) :
    assignop g a b = binop f a b := by
  unfold assignop binop
  by_cases hs : a.shape = b.shape
  · have hl : b.elems.length = a.elems.length := by rw [ha, hb, hs]
    rw [if_neg (by simpa using hs), if_neg (by simpa using hs),
      newUnwrap_ok _ _ (by simp [hl, ha.symm]), zipAssign_congr hg,
      zipAssign_eq_zipWith _ _ _ (by omega)]
  · rw [if_pos hs, if_pos hs]

/-- per position: the state after `a op= b` holds `g x y` -/
theorem assignop_at (g : α → α → α) (a b : Arr α) (ha : a.WF) (hb : b.WF) (hs : a.shape = b.shape) :
    ∃ r, assignop g a b = .ok r ∧ r.shape = a.shape ∧ r.WF ∧
      ∀ (i : Nat) (x y : α), a.elems[i]? = some x → b.elems[i]? = some y → r.elems[i]? = some (g x y) := by
  obtain ⟨r, h, h1, h2, -, h4⟩ := binop_at g a b ha hb hs
  exact ⟨r, by rw [assign_eq_plain g g (fun _ _ => rfl) a b ha hb, h], h1, h2, h4⟩

/-- **`a op= s` leaves the receiver equal to what `a op s` returns** -/
theorem assignScalar_eq_plain (f g : α → α → α) (hg : ∀ x y, g x y = f x y) (a : Arr α) (s : α) (ha : a.WF) :
    assignScalar g a s = scalarop f a s := by
  unfold assignScalar scalarop
  rw [mapArr_ok _ _ ha]
  simp only [Res.bind_ok]
  rw [reshape_ok _ _ (by simpa using ha.symm)]
  simp [hg]

/-! ## negation / logical not -/

/-- **`-a`, `!a`**: receiver's shape, `f` at every position -/
theorem unop_at (f : α → α) (a : Arr α) (ha : a.WF) :
    ∃ r, unop f a = .ok r ∧ r.shape = a.shape ∧ r.WF ∧ r.elems.length = a.elems.length ∧
      ∀ (i : Nat) (x : α), a.elems[i]? = some x → r.elems[i]? = some (f x) := by
  refine ⟨⟨a.elems.map f, a.shape⟩, ?_, rfl, ?_, by simp, ?_⟩
  · unfold unop; exact newUnwrap_ok _ _ (by simpa using ha.symm)
  · simpa [Arr.WF] using ha
  · intro i x hx; simp [hx]

/-! ## bit operators (`impl_bitwise_ops!`) -/

theorem bitop_ok_iff (f : α → α → α) (a b r : Arr α) :
    bitop f a b = .ok r ↔ a.shape = b.shape ∧ r = ⟨List.zipWith f a.elems b.elems, a.shape⟩ := by
  unfold bitop
  by_cases hs : a.shape = b.shape
  · rw [if_neg (by simpa using hs)]; simp [hs, eq_comm]
  · rw [if_pos hs]; simp [hs]

/-- **`a & b`, `a | b`, `a ^ b`**: although the result is built by a struct literal (no validation), it is
well-formed, has the receiver's shape and holds `f x y` at every position. -/
theorem bitop_at (f : α → α → α) (a b : Arr α) (ha : a.WF) (hb : b.WF) (hs : a.shape = b.shape) :
    ∃ r, bitop f a b = .ok r ∧ r.shape = a.shape ∧ r.WF ∧ r.elems.length = a.elems.length ∧
      ∀ (i : Nat) (x y : α), a.elems[i]? = some x → b.elems[i]? = some y → r.elems[i]? = some (f x y) := by
  have hl : b.elems.length = a.elems.length := by rw [ha, hb, hs]
  refine ⟨⟨List.zipWith f a.elems b.elems, a.shape⟩, (bitop_ok_iff f a b _).2 ⟨hs, rfl⟩, rfl, ?_, by simp [hl], ?_⟩
  · simp [Arr.WF, hl, ha.symm]
  · intro i x y hx hy; exact getElem?_zipWith_some f _ _ i x y hx hy

/-- on well-formed operands the bit operators and the arithmetic operators are the same lifting -/
theorem bitop_eq_binop (f : α → α → α) (a b : Arr α) (ha : a.WF) (hb : b.WF) : bitop f a b = binop f a b := by
  unfold bitop binop
  by_cases hs : a.shape = b.shape
  · have hl : b.elems.length = a.elems.length := by rw [ha, hb, hs]
    rw [if_neg (by simpa using hs), if_neg (by simpa using hs), newUnwrap_ok _ _ (by simp [hl, ha.symm])]
  · rw [if_pos hs, if_pos hs]

theorem bitScalar_at (f : α → α → α) (a : Arr α) (s : α) (ha : a.WF) :
    ∃ r, bitScalar f a s = .ok r ∧ r.shape = a.shape ∧ r.WF ∧ r.elems.length = a.elems.length ∧
      ∀ (i : Nat) (x : α), a.elems[i]? = some x → r.elems[i]? = some (f x s) := by
  refine ⟨⟨a.elems.map (fun x => f x s), a.shape⟩, rfl, rfl, ?_, by simp, ?_⟩
  · simpa [Arr.WF] using ha
  · intro i x hx; simp [hx]

/-- **`a &= b` etc. leave the receiver equal to `a & b`** (same scalar function in the code: `*a = a.op(b)`) -/
theorem bitAssign_eq_plain (f : α → α → α) (a b : Arr α) (ha : a.WF) (hb : b.WF) :
    bitAssign f a b = bitop f a b := by
  rw [bitop_eq_binop f a b ha hb]
  exact assign_eq_plain f f (fun _ _ => rfl) a b ha hb

theorem bitAssignScalar_eq_plain (f : α → α → α) (a : Arr α) (s : α) :
    bitAssignScalar f a s = bitScalar f a s := rfl

/-! ## differently shaped operands are rejected -/

/-- **no operator combines or compares differently shaped arrays**: every two-array form refuses (by
panicking — an operator cannot return `Result`; the suite's `#[should_panic]` cases pin this refusal). -/
theorem mismatch_rejected (f : α → α → α) (eq : α → α → Bool) (pcmp : α → α → Option Ordering)
    (a b : Arr α) (hs : a.shape ≠ b.shape) :
    binop f a b = .panic ∧ assignop f a b = .panic ∧ bitop f a b = .panic ∧ bitAssign f a b = .panic ∧
    opEq eq a b = .panic ∧ opNe eq a b = .panic ∧ opPartialCmp pcmp a b = .panic ∧
    opLt pcmp a b = .panic ∧ opLe pcmp a b = .panic ∧ opGt pcmp a b = .panic ∧ opGe pcmp a b = .panic := by
  simp [binop, assignop, bitop, bitAssign, opEq, opNe, opPartialCmp, opLt, opLe, opGt, opGe, hs, Res.map]

/-- conversely a value (or a truth value) is only ever produced for equal shapes -/
theorem value_only_for_equal_shapes (f : α → α → α) (eq : α → α → Bool) (pcmp : α → α → Option Ordering)
    (a b : Arr α) :
    ((∃ r, binop f a b = .ok r) → a.shape = b.shape) ∧ ((∃ r, assignop f a b = .ok r) → a.shape = b.shape) ∧
    ((∃ r, bitop f a b = .ok r) → a.shape = b.shape) ∧ ((∃ v, opEq eq a b = .ok v) → a.shape = b.shape) ∧
    ((∃ v, opLt pcmp a b = .ok v) → a.shape = b.shape) := by
  by_cases hs : a.shape = b.shape
  · simp [hs]
  · have h := mismatch_rejected f eq pcmp a b hs
    simp [h.1, h.2.1, h.2.2.1, h.2.2.2.2.1, h.2.2.2.2.2.2.2.1]

/-! ## equality -/

/-- **`a == b` is true exactly when all elements are equal** (equal shapes, well-formed) -/
theorem eq_iff_all (eq : α → α → Bool) (a b : Arr α) (ha : a.WF) (hb : b.WF) (hs : a.shape = b.shape) :
    ∃ v, opEq eq a b = .ok v ∧
      (v = true ↔ ∀ (i : Nat) (x y : α), a.elems[i]? = some x → b.elems[i]? = some y → eq x y = true) := by
  have hl : a.elems.length = b.elems.length := by rw [ha, hb, hs]
  refine ⟨_, by unfold opEq; rw [if_neg (by simpa using hs)], ?_⟩
  rw [List.all_eq_true]
  constructor
  · intro h i x y hx hy
    obtain ⟨hi, rfl⟩ := List.getElem?_eq_some_iff.1 hx
    obtain ⟨hi', rfl⟩ := List.getElem?_eq_some_iff.1 hy
    have : (a.elems[i], b.elems[i]) ∈ a.elems.zip b.elems := by
      rw [List.mem_iff_getElem]; exact ⟨i, by simp only [List.length_zip]; omega, by simp⟩
    exact h _ this
  · intro h p hp
    obtain ⟨i, hi, rfl⟩ := List.mem_iff_getElem.1 hp
    simp only [List.length_zip] at hi
    simp only [List.getElem_zip]
    exact h i _ _ (List.getElem?_eq_getElem (by omega)) (List.getElem?_eq_getElem (by omega))

/-- with a lawful scalar `==`: `a == b` iff the arrays are the same value -/
theorem eq_iff_same [BEq α] [LawfulBEq α] (a b : Arr α) (ha : a.WF) (hb : b.WF) (hs : a.shape = b.shape) :
    opEq (· == ·) a b = .ok true ↔ a = b := by
  have hl : a.elems.length = b.elems.length := by rw [ha, hb, hs]
  obtain ⟨v, hv, hiff⟩ := eq_iff_all (· == ·) a b ha hb hs
  rw [hv]
  constructor
  · intro h
    have hv' : v = true := by simpa using h
    have hall := hiff.1 hv'
    have : a.elems = b.elems := by
      apply List.ext_getElem hl
      intro i h1 h2
      simpa using hall i _ _ (List.getElem?_eq_getElem h1) (List.getElem?_eq_getElem h2)
    cases a; cases b; simp_all
  · rintro rfl
    have : v = true := hiff.2 (by
      intro i x y hx hy; rw [hx] at hy; cases hy; simp)
    rw [this]

/-- `a != b` is the negation -/
theorem ne_eq_not_eq (eq : α → α → Bool) (a b : Arr α) : opNe eq a b = (opEq eq a b).map (!·) := rfl

/-! ## ordering: lexicographic on the flat element sequences -/

/-- **`a < b`**: true exactly when at the first position whose elements do not compare `Equal` the receiver's
element is `Less` (equal shapes ⇒ equal lengths, so no prefix case). -/
theorem lt_lex (pcmp : α → α → Option Ordering) (a b : Arr α) (ha : a.WF) (hb : b.WF) (hs : a.shape = b.shape) :
    ∃ v, opLt pcmp a b = .ok v ∧ (v = true ↔ FirstAt pcmp (some .lt) a.elems b.elems) := by
  have hl : a.elems.length = b.elems.length := by rw [ha, hb, hs]
  refine ⟨_, by simp only [opLt, opPartialCmp]; rw [if_neg (by simpa using hs)]; rfl, ?_⟩
  rw [← slicePartialCmp_first_iff pcmp _ (by simp) _ _ hl]; simp

/-- **`a > b`** -/
theorem gt_lex (pcmp : α → α → Option Ordering) (a b : Arr α) (ha : a.WF) (hb : b.WF) (hs : a.shape = b.shape) :
    ∃ v, opGt pcmp a b = .ok v ∧ (v = true ↔ FirstAt pcmp (some .gt) a.elems b.elems) := by
  have hl : a.elems.length = b.elems.length := by rw [ha, hb, hs]
  refine ⟨_, by simp only [opGt, opPartialCmp]; rw [if_neg (by simpa using hs)]; rfl, ?_⟩
  rw [← slicePartialCmp_first_iff pcmp _ (by simp) _ _ hl]; simp

/-- **`a <= b`**: lexicographically less, or all positions `Equal` -/
theorem le_lex (pcmp : α → α → Option Ordering) (a b : Arr α) (ha : a.WF) (hb : b.WF) (hs : a.shape = b.shape) :
    ∃ v, opLe pcmp a b = .ok v ∧
      (v = true ↔ FirstAt pcmp (some .lt) a.elems b.elems ∨ AllEq pcmp a.elems b.elems) := by
  have hl : a.elems.length = b.elems.length := by rw [ha, hb, hs]
  refine ⟨_, by simp only [opLe, opPartialCmp]; rw [if_neg (by simpa using hs)]; rfl, ?_⟩
  rw [← slicePartialCmp_first_iff pcmp _ (by simp) _ _ hl, ← slicePartialCmp_eq_iff pcmp _ _ hl]; simp

/-- **`a >= b`** -/
theorem ge_lex (pcmp : α → α → Option Ordering) (a b : Arr α) (ha : a.WF) (hb : b.WF) (hs : a.shape = b.shape) :
    ∃ v, opGe pcmp a b = .ok v ∧
      (v = true ↔ FirstAt pcmp (some .gt) a.elems b.elems ∨ AllEq pcmp a.elems b.elems) := by
  have hl : a.elems.length = b.elems.length := by rw [ha, hb, hs]
  refine ⟨_, by simp only [opGe, opPartialCmp]; rw [if_neg (by simpa using hs)]; rfl, ?_⟩
  rw [← slicePartialCmp_first_iff pcmp _ (by simp) _ _ hl, ← slicePartialCmp_eq_iff pcmp _ _ hl]; simp

/-- **`partial_cmp`** answers `None` exactly when the first non-`Equal` position is incomparable (NaN) -/
theorem partialCmp_none_iff (pcmp : α → α → Option Ordering) (a b : Arr α) (ha : a.WF) (hb : b.WF)
    (hs : a.shape = b.shape) :
    opPartialCmp pcmp a b = .ok none ↔ FirstAt pcmp none a.elems b.elems := by
  have hl : a.elems.length = b.elems.length := by rw [ha, hb, hs]
  unfold opPartialCmp
  rw [if_neg (by simpa using hs), ← slicePartialCmp_first_iff pcmp none (by simp) _ _ hl]; simp

/-- for integer elements this is Lean's own lexicographic order `<` on `List Int` -/
theorem lt_int_iff (a b : Arr Int) (hs : a.shape = b.shape) :
    opLt (fun x y => some (compare x y)) a b = .ok (decide (a.elems < b.elems)) := by
  simp only [opLt, opPartialCmp]
  rw [if_neg (by simpa using hs)]
  simp only [Res.map]
  congr 1
  rw [Bool.eq_iff_iff]
  simp [slicePartialCmp_int_lt]

/-! ## non-vacuity -/

example : (⟨[1, 2, 3, 4, 5, 6], [2, 3]⟩ : Arr Int).WF := by decide
example : binop (· - ·) (⟨[1, 2, 3, 4, 5, 6], [2, 3]⟩ : Arr Int) ⟨[6, 5, 4, 3, 2, 1], [2, 3]⟩
    = .ok ⟨[-5, -3, -1, 1, 3, 5], [2, 3]⟩ := by decide
example : binop (· - ·) (⟨[1, 2, 3, 4, 5, 6], [2, 3]⟩ : Arr Int) ⟨[6, 5, 4, 3, 2, 1], [3, 2]⟩ = .panic := by decide
example : assignop (· - ·) (⟨[1, 2, 3, 4, 5, 6], [2, 3]⟩ : Arr Int) ⟨[6, 5, 4, 3, 2, 1], [2, 3]⟩
    = .ok ⟨[-5, -3, -1, 1, 3, 5], [2, 3]⟩ := by decide
example : scalarop (· * ·) (⟨[1, 2, 3, 4, 5, 6], [2, 3]⟩ : Arr Int) 2 = .ok ⟨[2, 4, 6, 8, 10, 12], [2, 3]⟩ := by decide
example : unop (- ·) (⟨[1, -2], [1, 2]⟩ : Arr Int) = .ok ⟨[-1, 2], [1, 2]⟩ := by decide
example : opLt Flt.pcmp ⟨[some 1, some 2, some 3, some 0], [2, 2]⟩ ⟨[some 1, some 2, some 4, some 0], [2, 2]⟩ = .ok true := by decide
example : opLe Flt.pcmp ⟨[some 1, none], [2]⟩ ⟨[some 1, none], [2]⟩ = .ok false := by decide
example : FirstAt Flt.pcmp (some .lt) [some 1, some 2, some 3] [some 1, some 2, some 4] :=
  ⟨2, some 3, some 4, rfl, rfl, by decide, by decide, by
    intro j hj u v hu hv
    match j, hj with
    | 0, _ => simp at hu hv; subst hu hv; decide
    | 1, _ => simp at hu hv; subst hu hv; decide⟩
/-- without well-formedness the compound form and the plain form really differ (the hypothesis is needed) -/
example : assignop (· + ·) (⟨[1, 2, 3], [2]⟩ : Arr Int) ⟨[1], [2]⟩ ≠ binop (· + ·) ⟨[1, 2, 3], [2]⟩ ⟨[1], [2]⟩ := by decide


/-! # the NATIVE integer operators (`ArrModel/C20Int.lean`) — every width, every value

Scalars are `BitVec w` read through `IntTy.val` (two's complement for the signed types); `Build.harness` is the build
`./check` executes (`overflow-checks = true`), `Build.release` a plain release build (wrap-around).  `scalarBin … = none`
means: the operator panics. -/

section native
variable (ty : IntTy) (bld : Build)

/-! ## the array theorems instantiate to the native scalars -/

/-- **`a op b` with the native operator**: on well-formed equally shaped arrays the integer-valued model is the native
operator at every position — a value exactly when no position panics. -/
theorem iBinop_native (op : BinOp) (a b : IArr ty) (ha : a.WF) (hb : b.WF) (hs : a.shape = b.shape) :
    (∀ r, iBinop ty bld op a b = .ok r → r.shape = a.shape ∧
      ∀ (i : Nat) (x y : BitVec ty.w), a.elems[i]? = some x → b.elems[i]? = some y →
        ∃ v, scalarBin ty bld op x y = some v ∧ r.elems[i]? = some v) ∧
    (iBinop ty bld op a b = .panic ↔
      ∃ (i : Nat) (x y : BitVec ty.w), a.elems[i]? = some x ∧ b.elems[i]? = some y ∧ scalarBin ty bld op x y = none) ∧
    (∀ e, iBinop ty bld op a b ≠ .err e) := by
  rw [iBinop_eq ty bld op a b ha hb hs]
  refine ⟨?_, ?_, ?_⟩
  · intro r hr
    cases hz : zipOpt (scalarBin ty bld op) a.elems b.elems with
    | none => simp [hz, liftOpt] at hr
    | some vs =>
      simp only [hz, liftOpt, Res.ok.injEq] at hr
      subst hr
      exact ⟨rfl, fun i x y hx hy => zipOpt_some_getElem _ _ _ _ hz i x y hx hy⟩
  · rw [← zipOpt_none_iff]
    cases zipOpt (scalarBin ty bld op) a.elems b.elems <;> simp [liftOpt]
  · intro e; cases zipOpt (scalarBin ty bld op) a.elems b.elems <;> simp [liftOpt]

/-- **instance of `binop_at` with `f :=` the fixed-width operator**: whenever the native call returns, its value is the
generic model `binop` run with the wrapping machine operator `wrapBin` — the receiver's shape and
`wrapBin op x y` at every position. -/
theorem iBinop_eq_binop_wrap (op : BinOp) (a b r : IArr ty) (ha : a.WF) (hb : b.WF)
    (h : iBinop ty bld op a b = .ok r) : binop (wrapBin ty.signed op) a b = .ok r := by
  by_cases hs : a.shape = b.shape
  · rw [iBinop_eq ty bld op a b ha hb hs] at h
    cases hz : zipOpt (scalarBin ty bld op) a.elems b.elems with
    | none => simp [hz, liftOpt] at h
    | some vs =>
      simp only [hz, liftOpt, Res.ok.injEq] at h
      subst h
      have hl : b.elems.length = a.elems.length := by rw [ha, hb, hs]
      rw [binop_ok_iff]
      refine ⟨hs, by rw [hl, Nat.min_self, ha], ?_⟩
      congr 1
      exact zipOpt_some_eq _ _ (fun x y v hv => scalarBin_some ty bld op x y v hv) _ _ _ hz
  · have : iBinop ty bld op a b = .panic := by
      unfold iBinop binop symOf; simp [hs, evalArr]
    rw [this] at h; cases h

/-- without overflow checks `+ - * & | ^` are total: the native call IS `binop` at the wrapping operator -/
theorem iBinop_release_eq_binop (op : BinOp) (h1 : op ≠ .div) (h2 : op ≠ .rem) (a b : IArr ty) (ha : a.WF) (hb : b.WF) :
    iBinop ty Build.release op a b = binop (wrapBin ty.signed op) a b := by
  by_cases hs : a.shape = b.shape
  · have hl : b.elems.length = a.elems.length := by rw [ha, hb, hs]
    rw [iBinop_eq ty _ op a b ha hb hs]
    have : zipOpt (scalarBin ty Build.release op) a.elems b.elems = some (List.zipWith (wrapBin ty.signed op) a.elems b.elems) := by
      rw [zipOpt, allSome_eq_some_iff]
      have : scalarBin ty Build.release op = fun x y => some (wrapBin ty.signed op x y) := by
        funext x y; exact release_total ty op h1 h2 x y
      rw [this]
      apply List.ext_getElem? ; intro i
      simp only [List.getElem?_zipWith, List.getElem?_map]
      cases a.elems[i]? <;> cases b.elems[i]? <;> simp
    rw [this]
    exact ((binop_ok_iff _ a b _).2 ⟨hs, by rw [hl, Nat.min_self, ha], rfl⟩).symm
  · unfold iBinop binop symOf; simp [hs, evalArr]

/-- **`a op= b` equals `a op b`** for the native integer operators, in every build (also when they panic) -/
theorem iAssign_eq_iBinop (op : BinOp) (a b : IArr ty) (ha : a.WF) (hb : b.WF) :
    iAssign ty bld op a b = iBinop ty bld op a b := by
  by_cases hs : a.shape = b.shape
  · rw [iAssign_eq ty bld op a b ha hb hs, iBinop_eq ty bld op a b ha hb hs]; rfl
  · unfold iAssign iBinop assignop binop symOf; simp [hs, evalArr]

/-- **`a op= s` equals `a op s`** -/
theorem iAssignScalar_eq_iScalar (op : BinOp) (a : IArr ty) (s : BitVec ty.w) (ha : a.WF) :
    iAssignScalar ty bld op a s = iScalar ty bld op a s := by
  rw [iAssignScalar_eq, iScalar_eq ty bld op a s ha]; rfl

/-- `a &= b` equals `a & b`, `a &= s` equals `a & s` (likewise `|`, `^`) -/
theorem iBitAssign_eq_iBitop (op : BinOp) (a b : IArr ty) (ha : a.WF) (hb : b.WF) :
    iBitAssign ty bld op a b = iBitop ty bld op a b ∧
    ∀ s, iBitAssignScalar ty bld op a s = iBitScalar ty bld op a s := by
  refine ⟨?_, fun s => rfl⟩
  by_cases hs : a.shape = b.shape
  · rw [iBitAssign_eq ty bld op a b ha hb hs, iBitop_eq ty bld op a b ha hb hs]
  · unfold iBitAssign iBitop bitAssign assignop bitop symOf; simp [hs, evalArr]

/-- the scalar compound assignment IS the scalar operator (`x op= y` ≡ `x = x op y` on a primitive integer) -/
theorem scalarAsg_eq_scalarBin (op : BinOp) (x y : BitVec ty.w) : scalarAsg ty bld op x y = scalarBin ty bld op x y := rfl

/-- **`a op s`**: the native operator against the scalar at every position; a panic exactly when a position panics -/
theorem iScalar_native (op : BinOp) (a : IArr ty) (s : BitVec ty.w) (ha : a.WF) :
    (∀ r, iScalar ty bld op a s = .ok r → r.shape = a.shape ∧
      ∀ (i : Nat) (x : BitVec ty.w), a.elems[i]? = some x → ∃ v, scalarBin ty bld op x s = some v ∧ r.elems[i]? = some v) ∧
    (iScalar ty bld op a s = .panic ↔ ∃ x ∈ a.elems, scalarBin ty bld op x s = none) := by
  rw [iScalar_eq ty bld op a s ha]
  refine ⟨?_, ?_⟩
  · intro r hr
    cases hz : allSome (a.elems.map (fun x => scalarBin ty bld op x s)) with
    | none => simp [hz, liftOpt] at hr
    | some vs =>
      simp only [hz, liftOpt, Res.ok.injEq] at hr
      subst hr
      refine ⟨rfl, fun i x hx => ?_⟩
      rw [allSome_eq_some_iff] at hz
      have := congrArg (·[i]?) hz
      simp only [List.getElem?_map, hx, Option.map_some] at this
      cases hv : vs[i]? with
      | none => simp [hv] at this
      | some v => exact ⟨v, by simpa [hv] using this, rfl⟩
  · cases hz : allSome (a.elems.map (fun x => scalarBin ty bld op x s)) with
    | none =>
      simp only [liftOpt, true_iff]
      rw [allSome_eq_none_iff, List.mem_map] at hz
      obtain ⟨x, hx, h⟩ := hz; exact ⟨x, hx, h⟩
    | some vs =>
      simp only [liftOpt, reduceCtorEq, false_iff]
      rintro ⟨x, hx, h⟩
      have : none ∈ a.elems.map (fun x => scalarBin ty bld op x s) := List.mem_map.2 ⟨x, hx, h⟩
      rw [← allSome_eq_none_iff, hz] at this; cases this

/-- **`-a`, `!a`**: the native unary operator at every position; `-a` panics (overflow checks) exactly when `MIN` occurs -/
theorem iUnop_native (un : UnOp) (a : IArr ty) (ha : a.WF) :
    iUnop ty bld un a = liftOpt a.shape (allSome (a.elems.map (scalarUn ty bld un))) ∧
    (ty.signed = true → (iUnop ty Build.harness .neg a = .panic ↔ BitVec.intMin ty.w ∈ a.elems)) ∧
    iUnop ty bld .not a = .ok ⟨a.elems.map (~~~ ·), a.shape⟩ := by
  refine ⟨iUnop_eq ty bld un a ha, ?_, ?_⟩
  · intro hsg
    rw [iUnop_eq ty _ _ a ha]
    cases hz : allSome (a.elems.map (scalarUn ty Build.harness .neg)) with
    | none =>
      simp only [liftOpt, true_iff]
      rw [allSome_eq_none_iff, List.mem_map] at hz
      obtain ⟨x, hx, h⟩ := hz
      have : x = BitVec.intMin ty.w := by
        simpa [scalarUn, unPanics, hsg, Build.harness] using h
      exact this ▸ hx
    | some vs =>
      simp only [liftOpt, reduceCtorEq, false_iff]
      intro hm
      have : none ∈ a.elems.map (scalarUn ty Build.harness .neg) :=
        List.mem_map.2 ⟨_, hm, by simp [scalarUn, unPanics, hsg, Build.harness]⟩
      rw [← allSome_eq_none_iff, hz] at this; cases this
  · rw [iUnop_eq ty _ _ a ha]
    have : a.elems.map (scalarUn ty bld .not) = (a.elems.map (~~~ ·)).map some := by
      rw [List.map_map]; apply List.map_congr_left; intro x _; simp [scalarUn, unPanics, wrapUn]
    rw [this, allSome_map_some]; rfl

/-- **`a & b`, `a | b`, `a ^ b` never panic on equal shapes**: they are `bitop` at the machine operator, in every build -/
theorem iBitop_eq_bitop (op : BinOp) (hop : op = .and ∨ op = .or ∨ op = .xor) (a b : IArr ty) (ha : a.WF) (hb : b.WF) :
    iBitop ty bld op a b = bitop (wrapBin ty.signed op) a b := by
  by_cases hs : a.shape = b.shape
  · rw [iBitop_eq ty bld op a b ha hb hs]
    have : zipOpt (scalarBin ty bld op) a.elems b.elems = some (List.zipWith (wrapBin ty.signed op) a.elems b.elems) := by
      rw [zipOpt, allSome_eq_some_iff]
      have : scalarBin ty bld op = fun x y => some (wrapBin ty.signed op x y) := by
        funext x y; rcases hop with h | h | h <;> subst h <;> simp [scalarBin, binPanics]
      rw [this]
      apply List.ext_getElem? ; intro i
      simp only [List.getElem?_zipWith, List.getElem?_map]
      cases a.elems[i]? <;> cases b.elems[i]? <;> simp
    rw [this]
    exact ((bitop_ok_iff _ a b _).2 ⟨hs, rfl⟩).symm
  · unfold iBitop bitop symOf; simp [hs, evalArr]

/-! ## overflow: the checked build computes the mathematical result or panics; the release build wraps -/

/-- **`+ - *` with overflow checks**: a value is the exact mathematical result; a panic happens exactly when that result is
not representable. -/
theorem checked_arith_exact (x y : BitVec ty.w) :
    (∀ v, scalarBin ty Build.harness .add x y = some v → ty.val v = ty.val x + ty.val y) ∧
    (∀ v, scalarBin ty Build.harness .sub x y = some v → ty.val v = ty.val x - ty.val y) ∧
    (∀ v, scalarBin ty Build.harness .mul x y = some v → ty.val v = ty.val x * ty.val y) ∧
    (scalarBin ty Build.harness .add x y = none ↔ ¬ (ty.minVal ≤ ty.val x + ty.val y ∧ ty.val x + ty.val y ≤ ty.maxVal)) ∧
    (scalarBin ty Build.harness .sub x y = none ↔ ¬ (ty.minVal ≤ ty.val x - ty.val y ∧ ty.val x - ty.val y ≤ ty.maxVal)) ∧
    (scalarBin ty Build.harness .mul x y = none ↔ ¬ (ty.minVal ≤ ty.val x * ty.val y ∧ ty.val x * ty.val y ≤ ty.maxVal)) := by
  refine ⟨add_value ty x y, sub_value ty x y, mul_value ty x y, ?_, ?_, ?_⟩ <;>
    simp [scalarBin, binPanics, Build.harness, IntTy.inRange]

/-- the two builds agree wherever the checked build returns; the release build never panics on `+ - * & | ^ << >>` -/
theorem builds_agree (op : BinOp) (x y : BitVec ty.w) :
    (∀ v, scalarBin ty Build.harness op x y = some v → scalarBin ty Build.release op x y = some v) ∧
    (op ≠ .div → op ≠ .rem → scalarBin ty Build.release op x y = some (wrapBin ty.signed op x y)) :=
  ⟨harness_some_release ty op x y, fun h1 h2 => release_total ty op h1 h2 x y⟩

/-- **wrap-around is arithmetic modulo `2^w`** (release build): the result is congruent to the mathematical one -/
theorem wrap_mod (x y : BitVec ty.w) :
    ty.val (wrapBin ty.signed .add x y) % (2 : Int) ^ ty.w = (ty.val x + ty.val y) % (2 : Int) ^ ty.w ∧
    ty.val (wrapBin ty.signed .sub x y) % (2 : Int) ^ ty.w = (ty.val x - ty.val y) % (2 : Int) ^ ty.w ∧
    ty.val (wrapBin ty.signed .mul x y) % (2 : Int) ^ ty.w = (ty.val x * ty.val y) % (2 : Int) ^ ty.w ∧
    ty.val (wrapUn .neg x) % (2 : Int) ^ ty.w = (- ty.val x) % (2 : Int) ^ ty.w := by
  have hx := val_emod ty x
  have hy := val_emod ty y
  refine ⟨?_, ?_, ?_, ?_⟩
  · rw [val_emod, Int.add_emod, hx, hy]; simp [wrapBin, BitVec.toNat_add]
  · rw [val_emod, Int.sub_emod, hx, hy]
    simp only [wrapBin, BitVec.toNat_sub, Int.natCast_emod, Int.natCast_add, two_pow_cast]
    have hlt : (y.toNat : Int) ≤ (2 : Int) ^ ty.w := by have := y.isLt; have := two_pow_cast ty.w; omega
    rw [Int.natCast_sub (by have := y.isLt; omega), two_pow_cast]
    have : ((2 : Int) ^ ty.w - ↑y.toNat + ↑x.toNat) = (↑x.toNat - ↑y.toNat) + (2 : Int) ^ ty.w := by omega
    rw [this, Int.add_emod_right]
  · rw [val_emod, Int.mul_emod, hx, hy]; simp [wrapBin, BitVec.toNat_mul]
  · rw [val_emod]
    simp only [wrapUn, BitVec.toNat_neg, Int.natCast_emod, two_pow_cast]
    rw [Int.natCast_sub (by have := x.isLt; omega), two_pow_cast, ← hx]
    rw [Int.sub_emod, Int.emod_self, Int.emod_emod, Int.zero_sub, Int.neg_emod_eq_sub_emod (a := ty.val x % 2 ^ ty.w)]
    rw [Int.sub_emod, Int.emod_self, Int.emod_emod, Int.zero_sub]
    rw [Int.neg_emod_eq_sub_emod (a := ty.val x), Int.sub_emod _ (ty.val x), Int.emod_self, Int.zero_sub]

/-! ## algebra of the native operators -/

/-- **`+` and `*` commute and are associative modulo `2^w`; `a - b + b = a`; `-(-a) = a`** (release build) -/
theorem wrap_ring (s : Bool) {w : Nat} (a b c : BitVec w) :
    wrapBin s .add a b = wrapBin s .add b a ∧ wrapBin s .mul a b = wrapBin s .mul b a ∧
    wrapBin s .add (wrapBin s .add a b) c = wrapBin s .add a (wrapBin s .add b c) ∧
    wrapBin s .mul (wrapBin s .mul a b) c = wrapBin s .mul a (wrapBin s .mul b c) ∧
    wrapBin s .add (wrapBin s .sub a b) b = a ∧ wrapUn .neg (wrapUn .neg a) = a :=
  ⟨BitVec.add_comm a b, BitVec.mul_comm a b, BitVec.add_assoc a b c, BitVec.mul_assoc a b c,
    BitVec.sub_add_cancel a b, BitVec.neg_neg⟩

/-- **bit operators**: `!(!a) = a`, `a ^ a = 0`, `a & a = a`, `a | a = a`, De Morgan (both), commutativity — every build -/
theorem bit_algebra (s : Bool) {w : Nat} (a b : BitVec w) :
    wrapUn .not (wrapUn .not a) = a ∧ wrapBin s .xor a a = 0 ∧ wrapBin s .and a a = a ∧ wrapBin s .or a a = a ∧
    wrapUn .not (wrapBin s .and a b) = wrapBin s .or (wrapUn .not a) (wrapUn .not b) ∧
    wrapUn .not (wrapBin s .or a b) = wrapBin s .and (wrapUn .not a) (wrapUn .not b) ∧
    wrapBin s .and a b = wrapBin s .and b a ∧ wrapBin s .or a b = wrapBin s .or b a ∧ wrapBin s .xor a b = wrapBin s .xor b a :=
  ⟨BitVec.not_not, BitVec.xor_self, BitVec.and_self, BitVec.or_self, BitVec.not_and, BitVec.not_or,
    BitVec.and_comm a b, BitVec.or_comm a b, BitVec.xor_comm a b⟩

/-- **in the overflow-checks build** `+`, `*` still commute — including WHEN they panic —, `a - b + b = a` whenever `a - b`
is defined (the addition then cannot overflow), `-(-a) = a` whenever `-a` is defined, and the associativity laws hold
whenever both sides are defined. -/
theorem checked_algebra (a b c : BitVec ty.w) :
    scalarBin ty bld .add a b = scalarBin ty bld .add b a ∧ scalarBin ty bld .mul a b = scalarBin ty bld .mul b a ∧
    (∀ d, scalarBin ty Build.harness .sub a b = some d → scalarBin ty Build.harness .add d b = some a) ∧
    (∀ n, scalarUn ty Build.harness .neg a = some n → scalarUn ty Build.harness .neg n = some a) ∧
    (∀ u v p q, scalarBin ty bld .add a b = some u → scalarBin ty bld .add u c = some p →
      scalarBin ty bld .add b c = some v → scalarBin ty bld .add a v = some q → p = q) ∧
    (∀ u v p q, scalarBin ty bld .mul a b = some u → scalarBin ty bld .mul u c = some p →
      scalarBin ty bld .mul b c = some v → scalarBin ty bld .mul a v = some q → p = q) := by
  refine ⟨?_, ?_, ?_, ?_, ?_, ?_⟩
  · have h1 : ty.val a + ty.val b = ty.val b + ty.val a := Int.add_comm _ _
    have h2 : a + b = b + a := BitVec.add_comm a b
    have h3 : binPanics ty bld .add a b = binPanics ty bld .add b a := by simp only [binPanics, h1]
    simp only [scalarBin, h3, wrapBin, h2]
  · have h1 : ty.val a * ty.val b = ty.val b * ty.val a := Int.mul_comm _ _
    have h2 : a * b = b * a := BitVec.mul_comm a b
    have h3 : binPanics ty bld .mul a b = binPanics ty bld .mul b a := by simp only [binPanics, h1]
    simp only [scalarBin, h3, wrapBin, h2]
  · intro d hd
    have hv := sub_value ty a b d hd
    have hd' := scalarBin_some ty _ _ a b d hd
    have hr := (inRange_iff ty _).1 (val_inRange ty a)
    have : ty.inRange (ty.val d + ty.val b) = true := by
      rw [inRange_iff]; rw [hv]; constructor <;> omega
    simp only [scalarBin, binPanics, Build.harness, this, Bool.not_true, Bool.and_false, Bool.false_eq_true, if_false,
      Option.some.injEq]
    rw [hd']; exact BitVec.sub_add_cancel a b
  · intro n hn
    obtain ⟨hs, hne, hn', -⟩ := neg_value ty a n hn
    subst hn'
    have : -a ≠ BitVec.intMin ty.w := fun h => hne (BitVec.neg_eq_intMin.1 h)
    simp [scalarUn, unPanics, hs, this, wrapUn, Build.harness]
  · intro u v p q h1 h2 h3 h4
    rw [scalarBin_some ty bld _ _ _ _ h2, scalarBin_some ty bld _ _ _ _ h1, scalarBin_some ty bld _ _ _ _ h4,
      scalarBin_some ty bld _ _ _ _ h3]
    exact BitVec.add_assoc a b c
  · intro u v p q h1 h2 h3 h4
    rw [scalarBin_some ty bld _ _ _ _ h2, scalarBin_some ty bld _ _ _ _ h1, scalarBin_some ty bld _ _ _ _ h4,
      scalarBin_some ty bld _ _ _ _ h3]
    exact BitVec.mul_assoc a b c

/-! ## division and remainder -/

/-- **`x / 0` and `x % 0` panic for every `x`, in every build; `MIN / -1` and `MIN % -1` too (signed)** — and these are
the ONLY panics of `/` and `%`. -/
theorem div_rem_panics (x y : BitVec ty.w) :
    scalarBin ty bld .div x 0 = none ∧ scalarBin ty bld .rem x 0 = none ∧
    (ty.signed = true → scalarBin ty bld .div (BitVec.intMin ty.w) (BitVec.allOnes ty.w) = none ∧
      scalarBin ty bld .rem (BitVec.intMin ty.w) (BitVec.allOnes ty.w) = none) ∧
    (scalarBin ty bld .div x y = none ↔ y = 0 ∨ (ty.signed = true ∧ x = BitVec.intMin ty.w ∧ y = BitVec.allOnes ty.w)) ∧
    (scalarBin ty bld .rem x y = none ↔ y = 0 ∨ (ty.signed = true ∧ x = BitVec.intMin ty.w ∧ y = BitVec.allOnes ty.w)) := by
  refine ⟨by simp [scalarBin, binPanics], by simp [scalarBin, binPanics],
    fun h => ⟨by simp [scalarBin, binPanics, h], by simp [scalarBin, binPanics, h]⟩, ?_, ?_⟩
  · rw [← divPanics_iff ty bld]; unfold scalarBin; split <;> simp_all
  · rw [← remPanics_iff ty bld]; unfold scalarBin; split <;> simp_all

/-- **`MIN / -1` is the only overflowing division**: for a non-zero divisor the truncated quotient of the operands' values is
representable unless the operands are `MIN` and `-1` of a signed type (where it is `2^(w-1) = MAX + 1`). -/
theorem div_overflow_only (hw : 0 < ty.w) (x y : BitVec ty.w) (hy : y ≠ 0) :
    ty.inRange ((ty.val x).tdiv (ty.val y)) = false ↔
      (ty.signed = true ∧ x = BitVec.intMin ty.w ∧ y = BitVec.allOnes ty.w) := by
  constructor
  · intro h
    by_cases hp : ty.signed = true ∧ x = BitVec.intMin ty.w ∧ y = BitVec.allOnes ty.w
    · exact hp
    · exfalso
      have hn : ¬ binPanics ty Build.release .div x y = true := by
        rw [divPanics_iff]; rintro (h0 | h1)
        · exact hy h0
        · exact hp h1
      have hq : scalarBin ty Build.release .div x y = some (wrapBin ty.signed .div x y) := by simp [scalarBin, hn]
      rw [← div_value ty Build.release x y _ hq, val_inRange] at h
      cases h
  · rintro ⟨hs, rfl, rfl⟩
    have h1 : ty.val (BitVec.intMin ty.w) = -(2 : Int) ^ (ty.w - 1) := by
      simp only [IntTy.val, hs, if_true]; exact BitVec.toInt_intMin_of_pos hw
    have h2 : ty.val (BitVec.allOnes ty.w) = -1 := by
      simp [IntTy.val, hs, BitVec.toInt_allOnes, hw]
    rw [h1, h2]
    simp only [Int.tdiv_neg, Int.tdiv_one, Int.neg_neg, IntTy.inRange, IntTy.minVal, IntTy.maxVal, hs, if_true]
    simp only [Bool.and_eq_false_iff, decide_eq_false_iff_not]
    right; omega

/-- **Rust's truncating division**: the quotient is the quotient of the values rounded toward zero, the remainder has the
sign of the dividend and is smaller than the divisor in absolute value, and `(a / b) * b + a % b = a` — on the values
and on the bit patterns — whenever `/` is defined (`%` is then defined too). -/
theorem div_rem_spec (x y q : BitVec ty.w) (hq : scalarBin ty bld .div x y = some q) :
    ∃ r, scalarBin ty bld .rem x y = some r ∧
      ty.val q = (ty.val x).tdiv (ty.val y) ∧ ty.val r = (ty.val x).tmod (ty.val y) ∧
      ty.val q * ty.val y + ty.val r = ty.val x ∧
      (0 ≤ ty.val x → 0 ≤ ty.val r) ∧ (ty.val x ≤ 0 → ty.val r ≤ 0) ∧ (ty.val r).natAbs < (ty.val y).natAbs ∧
      wrapBin ty.signed .add (wrapBin ty.signed .mul q y) r = x := by
  have hnp : ¬ binPanics ty bld .div x y = true := by
    intro h; simp [scalarBin, h] at hq
  have hnr : ¬ binPanics ty bld .rem x y = true := by
    rw [remPanics_iff, ← divPanics_iff ty bld]; exact hnp
  have hr : scalarBin ty bld .rem x y = some (wrapBin ty.signed .rem x y) := by simp [scalarBin, hnr]
  have hy0 : ty.val y ≠ 0 := by
    intro h0
    have : y = 0 := by
      rw [← val_inj ty]; rw [h0]; simp [IntTy.val]
    exact hnp ((divPanics_iff ty bld x y).2 (Or.inl this))
  have vq := div_value ty bld x y q hq
  have vr := rem_value ty bld x y _ hr
  have hsum : ty.val q * ty.val y + ty.val (wrapBin ty.signed .rem x y) = ty.val x := by
    rw [vq, vr, Int.mul_comm]; exact Int.mul_tdiv_add_tmod _ _
  refine ⟨_, hr, vq, vr, hsum, ?_, ?_, ?_, ?_⟩
  · intro h; rw [vr]; exact Int.tmod_nonneg _ h
  · intro h; rw [vr]
    have := Int.tmod_nonneg (ty.val y) (a := -ty.val x) (by omega)
    rw [Int.neg_tmod] at this; omega
  · rw [vr, Int.natAbs_tmod]; exact Nat.mod_lt _ (by omega)
  · -- both sides denote the same value modulo 2^w, hence the same bit pattern
    rw [← BitVec.toNat_inj, ← Int.ofNat_inj, ← val_emod ty, ← val_emod ty x]
    have hm := (wrap_mod ty (wrapBin ty.signed .mul q y) (wrapBin ty.signed .rem x y)).1
    have hm2 := (wrap_mod ty q y).2.2.1
    rw [hm, Int.add_emod, hm2, ← Int.add_emod, hsum]

/-! ## shifts -/

/-- **shifts by `k < w`**: `x << k` is multiplication by `2^k` modulo `2^w`, `x >> k` is FLOOR division of the value by `2^k`
— logical for the unsigned types, arithmetic (sign-propagating) for the signed ones —, in every build. -/
theorem shift_small (x k : BitVec ty.w) (hk : k.toNat < ty.w) :
    scalarBin ty bld .shl x k = some (wrapBin ty.signed .mul x (BitVec.twoPow ty.w k.toNat)) ∧
    (∀ r, scalarBin ty bld .shl x k = some r → ty.val r % (2 : Int) ^ ty.w = (ty.val x * (2 : Int) ^ k.toNat) % (2 : Int) ^ ty.w) ∧
    ∃ r, scalarBin ty bld .shr x k = some r ∧ ty.val r = ty.val x / (2 : Int) ^ k.toNat := by
  refine ⟨shl_value ty bld x k hk, ?_, ?_⟩
  · intro r hr
    rw [shl_value ty bld x k hk, Option.some.injEq] at hr
    subst hr
    have h1 := (wrap_mod ty x (BitVec.twoPow ty.w k.toNat)).2.2.1
    simp only [wrapBin] at h1
    have htp : ty.val (BitVec.twoPow ty.w k.toNat) % (2 : Int) ^ ty.w = (2 : Int) ^ k.toNat % (2 : Int) ^ ty.w := by
      rw [val_emod, BitVec.toNat_twoPow_of_lt hk, two_pow_cast]
      have hlt : 2 ^ k.toNat < 2 ^ ty.w := Nat.pow_lt_pow_right (by omega) hk
      have h0 : (0 : Int) ≤ ((2 ^ k.toNat : Nat) : Int) := Int.natCast_nonneg _
      have h1 : ((2 ^ k.toNat : Nat) : Int) < ((2 ^ ty.w : Nat) : Int) := Int.ofNat_lt.2 hlt
      rw [two_pow_cast] at h0 h1
      rw [two_pow_cast] at h1
      exact (Int.emod_eq_of_lt h0 h1).symm
    rw [h1, Int.mul_emod, htp, ← Int.mul_emod]
  · have : ¬ ty.w ≤ k.toNat := by omega
    have hv : scalarBin ty bld .shr x k = some (wrapBin ty.signed .shr x k) := by simp [scalarBin, binPanics, this]
    exact ⟨_, hv, shr_value ty bld x k _ hk hv⟩

/-- **shift amounts `>= w`** (a negative amount of a signed type reads as one): a panic with overflow checks — the build the
harness executes —; without them the amount is taken modulo `w`. -/
theorem shift_large (x k : BitVec ty.w) (hk : ty.w ≤ k.toNat) :
    scalarBin ty Build.harness .shl x k = none ∧ scalarBin ty Build.harness .shr x k = none ∧
    scalarBin ty Build.release .shl x k = some (x <<< (k.toNat % ty.w)) ∧
    (ty.signed = true → k.toInt < 0 → 0 < ty.w → ty.w ≤ k.toNat) := by
  refine ⟨by simp [scalarBin, binPanics, Build.harness, hk], by simp [scalarBin, binPanics, Build.harness, hk],
    by simp [scalarBin, binPanics, Build.release, wrapBin], fun _ _ _ => hk⟩

/-- a negative shift amount of a signed type is `>= w` when read as unsigned (so it panics with overflow checks) -/
theorem negative_amount_is_large {w : Nat} (k : BitVec w) (h : k.toInt < 0) : w ≤ k.toNat := by
  have h1 : w < 2 ^ w := Nat.lt_two_pow_self
  rw [BitVec.toInt_eq_toNat_cond] at h
  split at h
  · omega
  · rename_i h2
    have : 2 ^ w ≤ 2 * k.toNat := by omega
    by_cases hw : w = 0
    · omega
    · have : 2 ^ w = 2 * 2 ^ (w - 1) := by
        rw [← Nat.pow_succ']; congr 1; omega
      have : w - 1 < 2 ^ (w - 1) := Nat.lt_two_pow_self
      omega

/-! ## `bool` -/

/-- `& | ^ !` on `bool` are the Boolean connectives (the 1-bit instance of the operators above); the `bool` "shifts" of
`Numeric` are `x && !k` -/
theorem bool_ops (a b : Bool) :
    wrapBin false .and (BitVec.ofBool a) (BitVec.ofBool b) = BitVec.ofBool (a && b) ∧
    wrapBin false .or (BitVec.ofBool a) (BitVec.ofBool b) = BitVec.ofBool (a || b) ∧
    wrapBin false .xor (BitVec.ofBool a) (BitVec.ofBool b) = BitVec.ofBool (a ^^ b) ∧
    wrapUn .not (BitVec.ofBool a) = BitVec.ofBool (!a) ∧
    boolShl a b = (a && !b) ∧ boolShr a b = (a && !b) := by
  refine ⟨by simp [wrapBin], by simp [wrapBin], by simp [wrapBin], by simp [wrapUn], ?_, ?_⟩ <;>
    cases a <;> cases b <;> rfl

end native

/-! ## non-vacuity of the native-operator theorems -/

example : iBinop .i8 Build.harness .add ⟨[127#8, 1#8], [2]⟩ ⟨[1#8, 1#8], [2]⟩ = .panic := by decide
example : iBinop .i8 Build.release .add ⟨[127#8, 1#8], [2]⟩ ⟨[1#8, 1#8], [2]⟩ = .ok ⟨[128#8, 2#8], [2]⟩ := by decide
example : IntTy.i8.val (128#8) = -128 := by decide
example : iBinop .i8 Build.harness .div ⟨[(-7 : Int), 7, -7, 7].map (IntTy.ofVal .i8), [4]⟩ ⟨[(2 : Int), -2, -2, 2].map (IntTy.ofVal .i8), [4]⟩
    = .ok ⟨[(-3 : Int), -3, 3, 3].map (IntTy.ofVal .i8), [4]⟩ := by decide
example : iBinop .i8 Build.harness .rem ⟨[(-7 : Int), 7, -7, 7].map (IntTy.ofVal .i8), [4]⟩ ⟨[(2 : Int), -2, -2, 2].map (IntTy.ofVal .i8), [4]⟩
    = .ok ⟨[(-1 : Int), 1, -1, 1].map (IntTy.ofVal .i8), [4]⟩ := by decide
example : scalarBin .i8 Build.release .div (BitVec.intMin 8) (BitVec.allOnes 8) = none := by decide
example : scalarBin .u8 Build.harness .div 200#8 (BitVec.allOnes 8) = some 0#8 := rfl
example : scalarBin .i8 Build.harness .shl 1#8 8#8 = none ∧ scalarBin .i8 Build.release .shl 1#8 8#8 = some 1#8 := ⟨rfl, rfl⟩
example : scalarBin .i8 Build.release .shl 1#8 (BitVec.allOnes 8) = some 128#8 := rfl
example : scalarBin .i8 Build.harness .shr 128#8 2#8 = some 224#8 ∧ IntTy.i8.val 224#8 = -32 := ⟨rfl, rfl⟩
example : scalarBin .u8 Build.harness .shr 200#8 2#8 = some 50#8 := rfl
example : scalarUn .i8 Build.harness .neg (BitVec.intMin 8) = none ∧ scalarUn .i8 Build.release .neg (BitVec.intMin 8) = some (BitVec.intMin 8) := ⟨rfl, rfl⟩
example : (⟨[127#8, 1#8], [2]⟩ : IArr .i8).WF := by decide
example : ∃ k : BitVec 8, k.toInt < 0 := ⟨255#8, by decide⟩
example : scalarBin .i8 Build.harness .sub (BitVec.intMin 8) 5#8 = none ∧ scalarBin .i8 Build.harness .sub 5#8 7#8 = some 254#8 := ⟨rfl, rfl⟩
example : scalarUn .i8 Build.harness .neg 5#8 = some 251#8 := rfl
example : scalarBin .i16 Build.harness .mul 200#16 100#16 = some 20000#16 ∧ scalarBin .i16 Build.harness .mul 200#16 200#16 = none := ⟨rfl, rfl⟩
example : 0 < IntTy.i64.w ∧ (3#8 : BitVec 8) ≠ 0 ∧ (3#8 : BitVec 8).toNat < IntTy.u8.w ∧ IntTy.u8.w ≤ (9#8 : BitVec 8).toNat := by decide
example : BinOp.add ≠ .div ∧ BinOp.add ≠ .rem := by decide
example : iScalar .i64 Build.harness .mul ⟨[3#64, 4#64], [2, 1]⟩ (IntTy.ofVal .i64 (-5)) = .ok ⟨[IntTy.ofVal .i64 (-15), IntTy.ofVal .i64 (-20)], [2, 1]⟩ := by decide
example : iUnop .bool Build.harness .not ⟨[1#1, 0#1], [2]⟩ = .ok ⟨[0#1, 1#1], [2]⟩ := by decide
example : iBitop .u8 Build.harness .and ⟨[200#8, 15#8], [2]⟩ ⟨[100#8, 9#8], [2]⟩ = .ok ⟨[64#8, 9#8], [2]⟩ := by decide
example : IntTy.i8.signed = true := rfl

end ArrModel.C20
