import ArrProofs.Lemmas.C04
/-!
# C04 — two-operand elementwise operations act positionwise on broadcast operands

Property theorems only (helpers in `ArrProofs/Lemmas/C04.lean`; the broadcast layer is C03's: `broadcast_at`, `zip_at`, …).
Model under test: `ArrModel/C04.lean` — one definition per lifting pattern of the Rust code, generic in the scalar
kernel `f` (so every theorem holds for every kernel, every element type):

* `zipWithB`  — both operands stretched: add, subtract, multiply, power, float_power, logn, log_add_exp, log_add_exp2, atan2, hypot
* `divideLike` — zero-divisor guard then B: divide, true_divide, fmod, remainder, mod;  `floorDivideLike`: floor_divide
* `bitwiseLike` — extra `is_broadcastable` call then B: bitwise_and, bitwise_or, bitwise_xor, left_shift, right_shift
* `zipWithR`  — only the argument stretched to the receiver: maximum, minimum, fmax, fmin, heaviside, copysign, nextafter, ldexp
* `zipWithRA` — `abs` of both operands, then R: gcd, lcm
* `clipLike`  — clip with both bounds given

Vocabulary (C03): `broadcastShape s t` — the broadcast shape (characterised axis by axis by `C03.broadcastShape_spec`);
`bsrc s c` — the source coordinate of result coordinate `c` in an operand of shape `s` (drop the added leading axes,
index 0 along unit axes); `a.get? c` — the element stored at coordinate `c`; `stretchable s t` — `s` can be stretched to `t`.

What is NOT proved here: anything about the scalar kernels (IEEE arithmetic, the f64 round trip, integer casts) —
their identity is tied natively and bit-exactly by `harness/src/bin/c04.rs`.
-/
namespace ArrModel.C04
open ArrModel Arr

variable {α β γ δ : Type}

/-! ## A. both operands stretched (pattern B) -/

/-- **B, shape and values**: for every kernel `f`, when the operand shapes have the broadcast shape `fs` (no zero-length
axis — the code refuses those, `zipWithB_zero_axis`) the call succeeds, the result has exactly the shape `fs`, is well
formed, and the element at every in-range coordinate `c` is `f` applied to the element of `a` at `bsrc a.shape c` and the
element of `b` at `bsrc b.shape c`. -/
theorem zipWithB_spec (f : α → β → γ) (a : Arr α) (b : Arr β) (fs : List Nat) (ha : a.WF) (hb : b.WF)
    (hfs : broadcastShape a.shape b.shape = .ok fs) (hz : 0 ∉ fs) :
    ∃ r, zipWithB f a b = .ok r ∧ r.shape = fs ∧ r.WF ∧
      ∀ c, inRange fs c = true →
        ∃ x y, a.get? (bsrc a.shape c) = some x ∧ b.get? (bsrc b.shape c) = some y ∧ r.get? c = some (f x y) := by
  obtain ⟨br, h1, h2, h3, h4⟩ := C03.broadcast_at a b fs ha hb hfs hz
  refine ⟨mapped (fun t => f t.1 t.2) br, ?_, h2, mapped_wf _ br h3, fun c hc => ?_⟩
  · unfold zipWithB
    rw [h1]
    exact new_map_ok _ br h3
  · obtain ⟨x, y, hx, hy, hr⟩ := h4 c hc
    exact ⟨x, y, hx, hy, by rw [mapped_get, hr]; rfl⟩

/-- **B, rejection**: operands that disagree on an aligned axis where neither length is one are refused -/
theorem zipWithB_reject (f : α → β → γ) (a : Arr α) (b : Arr β) (k : Nat) (hka : k < a.shape.length) (hkb : k < b.shape.length)
    (h : fromEnd a.shape k ≠ fromEnd b.shape k ∧ fromEnd a.shape k ≠ 1 ∧ fromEnd b.shape k ≠ 1) :
    zipWithB f a b = .err .BroadcastShapeMismatch := by
  unfold zipWithB
  rw [C03.broadcast_reject a b k hka hkb h]; rfl

/-- **B, zero-length axes are refused** (so `0 ∉ fs` in `zipWithB_spec` is exactly the success region) -/
theorem zipWithB_zero_axis (f : α → β → γ) (a : Arr α) (b : Arr β) (fs : List Nat) (ha : a.WF)
    (hfs : broadcastShape a.shape b.shape = .ok fs) (hz : 0 ∈ fs) :
    zipWithB f a b = .err .BroadcastShapeMismatch := by
  unfold zipWithB
  rw [C03.broadcast_zero_axis a b fs ha hfs hz]; rfl

/-! ## B. only the argument stretched, to the receiver's shape (pattern R) -/

/-- **R, shape and values**: when the argument's shape can be stretched to the receiver's, the call succeeds with the
receiver's shape, and the element at `c` is `f (a at c) (b at bsrc b.shape c)` -/
theorem zipWithR_spec (f : α → β → γ) (a : Arr α) (b : Arr β) (ha : a.WF) (hb : b.WF)
    (hs : stretchable b.shape a.shape = true) :
    ∃ r, zipWithR f a b = .ok r ∧ r.shape = a.shape ∧ r.WF ∧
      ∀ c, inRange a.shape c = true →
        ∃ x y, a.get? c = some x ∧ b.get? (bsrc b.shape c) = some y ∧ r.get? c = some (f x y) := by
  obtain ⟨z, h1, h2, h3, h4⟩ := C03.zip_at a b ha hb hs
  refine ⟨mapped (fun t => f t.1 t.2) z, ?_, h2, mapped_wf _ z h3, fun c hc => ?_⟩
  · unfold zipWithR
    rw [h1]
    exact map1_ok _ z h3
  · obtain ⟨x, y, hx, hy, hr⟩ := h4 c hc
    exact ⟨x, y, hx, hy, by rw [mapped_get, hr]; rfl⟩

/-- **R, the receiver's shape is the broadcast shape** of the pair whenever the argument can be stretched to it -/
theorem zipWithR_shape_is_broadcastShape (a : Arr α) (b : Arr β) (hs : stretchable b.shape a.shape = true) :
    broadcastShape a.shape b.shape = .ok a.shape :=
  broadcastShape_of_stretchable b.shape a.shape hs

/-- **R, rejection**: an argument of a different element count that cannot be stretched to the receiver's shape is
refused — the receiver is never stretched (`maximum([1], [1,2,3])` is an error, not truncated data) -/
theorem zipWithR_reject (f : α → β → γ) (a : Arr α) (b : Arr β) (hs : stretchable b.shape a.shape = false)
    (hp : b.shape.prod ≠ a.shape.prod) : zipWithR f a b = .err .BroadcastShapeMismatch := by
  unfold zipWithR
  rw [C03.zip_reject a b hs hp]; rfl

/-- **R agrees with B** wherever the argument is a stretch of the receiver's shape: the two lifting patterns
compute the same array -/
theorem zipWithR_eq_zipWithB (f : α → β → γ) (a : Arr α) (b : Arr β) (ha : a.WF) (hb : b.WF)
    (hs : stretchable b.shape a.shape = true) (hz : 0 ∉ a.shape) :
    zipWithR f a b = zipWithB f a b := by
  obtain ⟨r, h1, h2, h3, h4⟩ := zipWithR_spec f a b ha hb hs
  obtain ⟨r', g1, g2, g3, g4⟩ := zipWithB_spec f a b a.shape ha hb (broadcastShape_of_stretchable _ _ hs) hz
  rw [h1, g1]
  congr 1
  apply ext_get r r' h3 g3 (by rw [h2, g2])
  intro c hc
  rw [h2] at hc
  obtain ⟨x, y, hx, hy, hr⟩ := h4 c hc
  obtain ⟨x', y', hx', hy', hr'⟩ := g4 c hc
  rw [bsrc_of_inRange _ _ hc, hx] at hx'
  rw [hy] at hy'
  cases hx'; cases hy'
  rw [hr, hr']

/-! ## C. commutativity -/

/-- **commutativity on equally shaped arrays (B)**: a kernel that commutes on scalars commutes on arrays — for all
arrays, well formed or not -/
theorem zipWith_comm (f : α → α → γ) (hf : ∀ x y, f x y = f y x) (a b : Arr α) (hs : a.shape = b.shape) :
    zipWithB f a b = zipWithB f b a := by
  unfold zipWithB Arr.broadcast
  rw [isBroadcastable_comm b.shape a.shape, if_pos hs, if_pos hs.symm, ← hs]
  cases hib : isBroadcastable a.shape a.shape
  · rfl
  · exact eqArm_comm f hf a b a.shape

/-- **commutativity on equally shaped arrays (R)** -/
theorem zipWithR_comm (f : α → α → γ) (hf : ∀ x y, f x y = f y x) (a b : Arr α) (ha : a.WF) (hb : b.WF)
    (hs : a.shape = b.shape) (hz : 0 ∉ a.shape) :
    zipWithR f a b = zipWithR f b a := by
  have hst : stretchable a.shape a.shape = true := by
    rw [stretchable_iff_fromEnd]
    exact ⟨Nat.le_refl _, fun k hk => ⟨.inl rfl, (zero_not_mem_iff_fromEnd _).1 hz k hk, (zero_not_mem_iff_fromEnd _).1 hz k hk⟩⟩
  rw [zipWithR_eq_zipWithB f a b ha hb (by rw [← hs]; exact hst) hz,
    zipWithR_eq_zipWithB f b a hb ha (by rw [← hs]; exact hst) (by rw [← hs]; exact hz)]
  exact zipWith_comm f hf a b hs

/-- **commutativity on every pair of well-formed operands (B)**, whatever their shapes: same result or same refusal -/
theorem zipWithB_comm (f : α → α → γ) (hf : ∀ x y, f x y = f y x) (a b : Arr α) (ha : a.WF) (hb : b.WF) :
    zipWithB f a b = zipWithB f b a := by
  by_cases hs : a.shape = b.shape
  · exact zipWith_comm f hf a b hs
  · rcases broadcastShape_ok_or_err a.shape b.shape with ⟨fs, hfs⟩ | herr
    · have hfs' := broadcastShape_comm_ok _ _ _ hfs
      by_cases hz : 0 ∈ fs
      · rw [zipWithB_zero_axis f a b fs ha hfs hz, zipWithB_zero_axis f b a fs hb hfs' hz]
      · obtain ⟨r, h1, h2, h3, h4⟩ := zipWithB_spec f a b fs ha hb hfs hz
        obtain ⟨r', g1, g2, g3, g4⟩ := zipWithB_spec f b a fs hb ha hfs' hz
        rw [h1, g1]
        congr 1
        apply ext_get r r' h3 g3 (by rw [h2, g2])
        intro c hc
        rw [h2] at hc
        obtain ⟨x, y, hx, hy, hr⟩ := h4 c hc
        obtain ⟨y', x', hy', hx', hr'⟩ := g4 c hc
        rw [hx] at hx'; rw [hy] at hy'
        cases hx'; cases hy'
        rw [hr, hr', hf]
    · have herr' : broadcastShape b.shape a.shape = .err .BroadcastShapeMismatch := by
        rw [← broadcastShape_comm]; exact herr
      unfold zipWithB Arr.broadcast
      rw [isBroadcastable_comm b.shape a.shape, if_neg hs, if_neg (show ¬ b.shape = a.shape from fun h => hs h.symm), herr, herr']
      split <;> rfl

/-! ## D. the division family refuses a divisor array that contains zero -/

/-- **refusal**: a zero anywhere in the divisor array ⇒ `ParameterError`, whatever the shapes (the guard runs first) -/
theorem divide_refuses_zero (isZero : β → Bool) (f : α → β → γ) (a : Arr α) (b : Arr β)
    (h : ∃ y ∈ b.elems, isZero y = true) : divideLike isZero f a b = .err .ParameterError := by
  unfold divideLike
  rw [if_pos (List.any_eq_true.2 h)]

/-- without a zero in the divisor array the guarded operation is pattern B (so `zipWithB_spec` describes it) -/
theorem divide_no_zero (isZero : β → Bool) (f : α → β → γ) (a : Arr α) (b : Arr β)
    (h : ∀ y ∈ b.elems, isZero y = false) : divideLike isZero f a b = zipWithB f a b := by
  unfold divideLike
  rw [if_neg]
  rw [List.any_eq_true]
  rintro ⟨y, hy, hy'⟩
  rw [h y hy] at hy'; cases hy'

/-- `floor_divide` refuses the same divisors (the error of `divide` passes through `floor`) -/
theorem floorDivide_refuses_zero (isZero : β → Bool) (f : α → β → γ) (post : γ → δ) (a : Arr α) (b : Arr β)
    (h : ∃ y ∈ b.elems, isZero y = true) : floorDivideLike isZero f post a b = .err .ParameterError := by
  unfold floorDivideLike
  rw [divide_refuses_zero isZero f a b h]; rfl

/-- **floor_divide, shape and values**: without a zero divisor, the element at `c` is `post (f x y)` of the two
broadcast sources -/
theorem floorDivide_spec (isZero : β → Bool) (f : α → β → γ) (post : γ → δ) (a : Arr α) (b : Arr β) (fs : List Nat)
    (ha : a.WF) (hb : b.WF) (hnz : ∀ y ∈ b.elems, isZero y = false)
    (hfs : broadcastShape a.shape b.shape = .ok fs) (hz : 0 ∉ fs) :
    ∃ r, floorDivideLike isZero f post a b = .ok r ∧ r.shape = fs ∧ r.WF ∧
      ∀ c, inRange fs c = true →
        ∃ x y, a.get? (bsrc a.shape c) = some x ∧ b.get? (bsrc b.shape c) = some y ∧ r.get? c = some (post (f x y)) := by
  obtain ⟨q, h1, h2, h3, h4⟩ := zipWithB_spec f a b fs ha hb hfs hz
  refine ⟨mapped post q, ?_, h2, mapped_wf _ q h3, fun c hc => ?_⟩
  · unfold floorDivideLike
    rw [divide_no_zero isZero f a b hnz, h1]
    exact map1_ok post q h3
  · obtain ⟨x, y, hx, hy, hr⟩ := h4 c hc
    exact ⟨x, y, hx, hy, by rw [mapped_get, hr]; rfl⟩

/-! ## E. bitwise logic and shifts: the extra `is_broadcastable` call is redundant -/

/-- the extra check of the bitwise family agrees with `broadcast`'s own first check: the pattern *is* pattern B, for
all inputs (so `zipWithB_spec`, `zipWithB_reject`, `zipWithB_comm` hold for bitwise_and/or/xor and the shifts) -/
theorem bitwiseLike_eq_zipWithB (f : α → β → γ) (a : Arr α) (b : Arr β) : bitwiseLike f a b = zipWithB f a b := by
  unfold bitwiseLike
  split
  · rename_i h
    unfold zipWithB Arr.broadcast
    rw [if_pos h]; rfl
  · rfl

/-! ## F. gcd / lcm: `abs` of both operands, then R -/

/-- **RA, shape and values**: the element at `c` is `f (g (a at c)) (h (b at bsrc b.shape c))` -/
theorem zipWithRA_spec (g : α → α) (h : β → β) (f : α → β → γ) (a : Arr α) (b : Arr β) (ha : a.WF) (hb : b.WF)
    (hs : stretchable b.shape a.shape = true) :
    ∃ r, zipWithRA g h f a b = .ok r ∧ r.shape = a.shape ∧ r.WF ∧
      ∀ c, inRange a.shape c = true →
        ∃ x y, a.get? c = some x ∧ b.get? (bsrc b.shape c) = some y ∧ r.get? c = some (f (g x) (h y)) := by
  obtain ⟨r, h1, h2, h3, h4⟩ := zipWithR_spec f (mapped g a) (mapped h b) (mapped_wf g a ha) (mapped_wf h b hb) hs
  refine ⟨r, ?_, h2, h3, fun c hc => ?_⟩
  · unfold zipWithRA
    rw [map1_ok g a ha, map1_ok h b hb]
    exact h1
  · obtain ⟨x', y', hx, hy, hr⟩ := h4 c hc
    rw [mapped_get] at hx hy
    change (b.get? (bsrc b.shape c)).map h = some y' at hy
    obtain ⟨x, hx1, rfl⟩ := Option.map_eq_some_iff.1 hx
    obtain ⟨y, hy1, rfl⟩ := Option.map_eq_some_iff.1 hy
    exact ⟨x, y, hx1, hy1, hr⟩

/-! ## G. clip with both bounds -/

/-- **clip, shape and values**: both bounds stretchable to the receiver ⇒ receiver-shaped result whose element at `c`
is `f (a at c) (lo at bsrc lo.shape c) (hi at bsrc hi.shape c)` -/
theorem clipLike_spec (f : α → β → β → γ) (a : Arr α) (lo hi : Arr β) (ha : a.WF) (hlo : lo.WF) (hhi : hi.WF)
    (hs1 : stretchable lo.shape a.shape = true) (hs2 : stretchable hi.shape a.shape = true) (hz : 0 ∉ a.shape) :
    ∃ r, clipLike f a lo hi = .ok r ∧ r.shape = a.shape ∧ r.WF ∧
      ∀ c, inRange a.shape c = true →
        ∃ x l h, a.get? c = some x ∧ lo.get? (bsrc lo.shape c) = some l ∧ hi.get? (bsrc hi.shape c) = some h ∧
          r.get? c = some (f x l h) := by
  obtain ⟨lo', l1, l2, l3, l4⟩ := C03.broadcastTo_stretch lo a.shape hlo hs1
  obtain ⟨hi', k1, k2, k3, k4⟩ := C03.broadcastTo_stretch hi a.shape hhi hs2
  have hself : stretchable a.shape a.shape = true := by
    rw [stretchable_iff_fromEnd]
    exact ⟨Nat.le_refl _, fun k hk => ⟨.inl rfl, (zero_not_mem_iff_fromEnd _).1 hz k hk, (zero_not_mem_iff_fromEnd _).1 hz k hk⟩⟩
  obtain ⟨bd, b1, b2, b3, b4⟩ := C03.zip_at lo' hi' l3 k3 (by rw [l2, k2]; exact hself)
  obtain ⟨z, z1, z2, z3, z4⟩ := C03.zip_at a bd ha b3 (by rw [b2, l2]; exact hself)
  refine ⟨mapped (fun t => f t.1 t.2.1 t.2.2) z, ?_, z2, mapped_wf _ z z3, fun c hc => ?_⟩
  · unfold clipLike
    rw [l1]; simp only [Res.bind_ok]
    rw [k1]; simp only [Res.bind_ok]
    rw [b1]; simp only [Res.bind_ok]
    rw [z1]; simp only [Res.bind_ok]
    exact map1_ok _ z z3
  · obtain ⟨x, p, hx, hp, hr⟩ := z4 c hc
    rw [b2, l2, bsrc_of_inRange _ _ hc] at hp
    obtain ⟨l, h, hl, hh, hb⟩ := b4 c (by rw [l2]; exact hc)
    rw [k2, bsrc_of_inRange _ _ hc] at hh
    rw [hp] at hb; cases hb
    obtain ⟨_, l', hl'⟩ := C03.broadcastTo_total lo a.shape hlo hs1 c hc
    obtain ⟨_, h', hh'⟩ := C03.broadcastTo_total hi a.shape hhi hs2 c hc
    refine ⟨x, l, h, hx, ?_, ?_, by rw [mapped_get, hr]; rfl⟩
    · rw [← l4 c hc]; exact hl
    · rw [← k4 c hc]; exact hh

/-! ### non-vacuity: concrete instances meeting the hypotheses, and the conclusions observed on them -/
-- B on shapes [3] and [2,1] (both operands stretched), kernel = subtraction
example : broadcastShape [3] [2, 1] = .ok [2, 3] ∧ 0 ∉ [2, 3] ∧
    zipWithB (fun x y : Int => x - y) ⟨[10, 20, 30], [3]⟩ ⟨[1, 2], [2, 1]⟩ = .ok ⟨[9, 19, 29, 8, 18, 28], [2, 3]⟩ := by decide
example : bsrc [3] [1, 2] = [2] ∧ bsrc [2, 1] [1, 2] = [1, 0] := by decide
-- B rejection: [2,3] against [2]
example : fromEnd [2, 3] 0 ≠ fromEnd [2] 0 ∧ fromEnd [2, 3] 0 ≠ 1 ∧ fromEnd [2] 0 ≠ 1 ∧
    zipWithB (fun x y : Int => x + y) ⟨[1, 2, 3, 4, 5, 6], [2, 3]⟩ ⟨[1, 2], [2]⟩ = .err .BroadcastShapeMismatch := by decide
-- R: the argument [3] is stretched to the receiver [2,3]; the receiver [1] is NOT stretched to the argument [3]
example : stretchable [3] [2, 3] = true ∧
    zipWithR (fun x y : Int => max x y) ⟨[1, 5, 3, 9, 0, 2], [2, 3]⟩ ⟨[2, 4, 1], [3]⟩ = .ok ⟨[2, 5, 3, 9, 4, 2], [2, 3]⟩ := by decide
example : stretchable [3] [1] = false ∧ [3].prod ≠ [1].prod ∧
    zipWithR (fun x y : Int => max x y) ⟨[1], [1]⟩ ⟨[1, 2, 3], [3]⟩ = .err .BroadcastShapeMismatch := by decide
-- the region C03 leaves open (same count, not a stretch): R reshapes the argument, B broadcasts — they differ there
example : stretchable [1, 3] [3, 1] = false ∧
    zipWithR (fun x y : Int => x + y) ⟨[1, 2, 3], [3, 1]⟩ ⟨[10, 20, 30], [1, 3]⟩ = .ok ⟨[11, 22, 33], [3, 1]⟩ ∧
    zipWithB (fun x y : Int => x + y) ⟨[1, 2, 3], [3, 1]⟩ ⟨[10, 20, 30], [1, 3]⟩
      = .ok ⟨[11, 21, 31, 12, 22, 32, 13, 23, 33], [3, 3]⟩ := by decide
-- commutativity needs the kernel to commute: subtraction does not, and the arrays differ
example : zipWithB (fun x y : Int => x - y) ⟨[1, 2], [2]⟩ ⟨[5, 7], [2]⟩ ≠ zipWithB (fun x y : Int => x - y) ⟨[5, 7], [2]⟩ ⟨[1, 2], [2]⟩ := by decide
example : zipWithB (fun x y : Int => x * y) ⟨[1, 2, 3], [3]⟩ ⟨[5, 7], [2, 1]⟩ = zipWithB (fun x y : Int => x * y) ⟨[5, 7], [2, 1]⟩ ⟨[1, 2, 3], [3]⟩ := by decide
-- refusal: a zero in the divisor array, compatible or incompatible shapes
example : divideLike (fun y : Int => y == 0) (fun x y : Int => x / y) ⟨[6, 8], [2]⟩ ⟨[2, 0], [2]⟩ = .err .ParameterError ∧
    divideLike (fun y : Int => y == 0) (fun x y : Int => x / y) ⟨[6, 8], [2]⟩ ⟨[2, 0, 1], [3]⟩ = .err .ParameterError ∧
    divideLike (fun y : Int => y == 0) (fun x y : Int => x / y) ⟨[6, 8], [2]⟩ ⟨[2], [1]⟩ = .ok ⟨[3, 4], [2]⟩ := by decide
example : floorDivideLike (fun y : Int => y == 0) (fun x y : Int => x * 10 / y) (fun q : Int => q / 10) ⟨[7, 9], [2]⟩ ⟨[2], [1]⟩
    = .ok ⟨[3, 4], [2]⟩ := by decide
-- the pinned `bitwise_xor` (result built with the receiver's shape) against the repaired pattern, on [3] ^ [2,1]
example : bitwiseXorPinned (fun x y : Nat => x ^^^ y) ⟨[1, 2, 3], [3]⟩ ⟨[7, 8], [2, 1]⟩ = .err .ShapeMustMatchValuesLength ∧
    bitwiseLike (fun x y : Nat => x ^^^ y) ⟨[1, 2, 3], [3]⟩ ⟨[7, 8], [2, 1]⟩ = .ok ⟨[6, 5, 4, 9, 10, 11], [2, 3]⟩ ∧
    bitwiseXorPinned (fun x y : Nat => x ^^^ y) ⟨[1, 2, 3], [1, 3]⟩ ⟨[4, 5, 6], [1, 1, 3]⟩ = .ok ⟨[5, 7, 5], [1, 3]⟩ ∧
    bitwiseLike (fun x y : Nat => x ^^^ y) ⟨[1, 2, 3], [1, 3]⟩ ⟨[4, 5, 6], [1, 1, 3]⟩ = .ok ⟨[5, 7, 5], [1, 1, 3]⟩ := by decide
-- RA (absolute values of both operands first) and clip
example : stretchable [2] [2, 2] = true ∧
    zipWithRA (fun x : Int => (x.natAbs : Int)) (fun y : Int => (y.natAbs : Int)) (fun x y : Int => x + 100 * y)
      ⟨[-12, 18, -7, 0], [2, 2]⟩ ⟨[-8, 27], [2]⟩ = .ok ⟨[812, 2718, 807, 2700], [2, 2]⟩ := by decide
example : stretchable [1] [2, 2] = true ∧ stretchable [2] [2, 2] = true ∧
    clipLike (fun x l h : Int => if x < l then l else if x > h then h else x) ⟨[-5, 3, 8, 20], [2, 2]⟩ ⟨[0], [1]⟩ ⟨[5, 10], [2]⟩
      = .ok ⟨[0, 3, 5, 10], [2, 2]⟩ := by decide

end ArrModel.C04
