import ArrModel.C10
namespace ArrModel.C10
theorem placeholder : True := trivial
end ArrModel.C10
