import ArrProofs.Lemmas.C10Basic
import ArrProofs.Lemmas.C10Heap
import ArrProofs.Lemmas.C10Tim
import ArrProofs.Lemmas.C10Query
import ArrProofs.Lemmas.C10Axis
import ArrProofs.Lemmas.C10Ext
/-!
# C10 — all sort kinds give the same ordered rearrangement; order queries agree

Property theorems only (helper lemmas: `ArrProofs/Lemmas/C10{Basic,Heap,Tim,Query}.lean`).
Model under test: `ArrModel/C10.lean` — `merge_sort`, `quick_sort`, index-based `heap_sort`, run-merging `tim_sort`
(as repaired by `fixes/C10-timsort-merge.diff`), the `SortKind` selector with its string spellings, `sort`, `argsort`,
`argmax`, `argmin`, `unique`.

All theorems are for **every lane of every length** over any element type whose comparison operators form a linear
order (`Cmp.Lawful`; `Cmp.int_lawful` is the instance the tie runs on).  "Never panics" includes "the loop fuel of the
model suffices" (running out of fuel is modelled as a panic).

Scope: the lane-level (flat, `axis = None`) forms, and the `axis = Some(k)` forms of `sort`, `argsort`, `argmax`,
`argmin` for every axis (either spelling) of every array of any rank whose axes all have length >= 1, lifted through
the lead's central lemma for `apply_along_axis` (`applyAlongAxis_spec`).

Extension (last three sections of this file, helper lemmas in `Lemmas/C10Ext.lean`):
* arrays with a zero-length axis: the complete outcome of `sort` / `argsort` / `unique` / `argmax` / `argmin` in the flat
  and axis forms (`*_zero_axis`, `*_flat_zero`, `argExtreme_zero`), and the total statements `*_op_total` /
  `*_op_never_panics` for EVERY well-formed array (no "no zero-length axis" hypothesis), every axis option and selector;
* `unique(axis)`: `unique_axis_spec` (every lane has `k` distinct values: shape[axis := k], every lane of the result is
  the sorted distinct values of the input lane), `unique_axis_outcome` (the complete outcome for ragged lanes: the
  concatenated per-lane answers reshaped to `rest ++ [k0]`, `k0` = the FIRST lane's count, when the total count happens
  to be `rest.prod * k0`, otherwise `Err(ShapeMustMatchValuesLength)`), `unique_axis_ragged_refused`;
* the result of `sort` / `argsort` in every form does not depend on the selected kind (`sort_op_kinds_equal`,
  `argsort_op_kinds_equal`); `argsort_axis_lane_facts`: the three facts of `argsort_spec` for every lane of the axis form;
* `argsort_rank_formula` (closed form: rank = #smaller + #equal-and-earlier) and `argsort_determined` (the three facts
  of `argsort_spec` determine the answer).
-/
namespace ArrModel.C10
open ArrModel ArrModel.Sort Arr

variable {α : Type} {c : Cmp α}

/-! ## the four algorithms -/

/-- **uniqueness of the sorted rearrangement**: a lane has exactly one non-decreasing permutation -/
theorem sorted_perm_unique (h : c.Lawful) {l₁ l₂ : List α} (h₁ : Sorted c l₁) (h₂ : Sorted c l₂) (p : l₁.Perm l₂) :
    l₁ = l₂ := h.sorted_perm_unique h₁ h₂ p

theorem merge_perm (xs : List α) : (mergeSort c xs).Perm xs := mergeSort_perm c xs
theorem merge_sorted (h : c.Lawful) (xs : List α) : Sorted c (mergeSort c xs) := mergeSort_sorted h xs

theorem quick_perm (xs : List α) : (quickSort c xs).Perm xs := quickSort_perm c xs
theorem quick_sorted (h : c.Lawful) (xs : List α) : Sorted c (quickSort c xs) := quickSort_sorted h xs

/-- `heap_sort` (index-based sift-down on the array): succeeds on every lane — no index ever leaves the array, the
`loop` terminates — and returns a non-decreasing permutation -/
theorem heap_spec (h : c.Lawful) (xs : List α) : ∃ s, heapSort c xs = .ok s ∧ s.Perm xs ∧ Sorted c s :=
  heapSort_spec h xs

theorem heap_no_panic (h : c.Lawful) (xs : List α) : heapSort c xs ≠ .panic := by
  obtain ⟨s, hs, _⟩ := heapSort_spec h xs; rw [hs]; simp

/-- `tim_sort` (repaired): succeeds on every lane **including the empty one and every length >= 32** (where runs
are merged), and returns a non-decreasing permutation -/
theorem tim_spec (h : c.Lawful) (xs : List α) : ∃ s, timSort c xs = .ok s ∧ s.Perm xs ∧ Sorted c s :=
  timSort_spec h xs

theorem tim_no_panic (h : c.Lawful) (xs : List α) : timSort c xs ≠ .panic := by
  obtain ⟨s, hs, _⟩ := timSort_spec h xs; rw [hs]; simp

/-- **all four selectable algorithms return the same lane**: the input's elements, each with its multiplicity, in
non-decreasing order (= the standard stable sort of the lane) -/
theorem sorts_agree (h : c.Lawful) (k : SortKind) (xs : List α) : sortFlat c k xs = .ok (xs.mergeSort c.le) := by
  cases k
  · exact congrArg Res.ok (h.eq_mergeSort_of_sorted_perm (quickSort_sorted h xs) (quickSort_perm c xs))
  · exact congrArg Res.ok (h.eq_mergeSort_of_sorted_perm (mergeSort_sorted h xs) (mergeSort_perm c xs))
  · obtain ⟨s, hs, hp, hsort⟩ := heapSort_spec h xs
    show heapSort c xs = _
    rw [hs, h.eq_mergeSort_of_sorted_perm hsort hp]
  · obtain ⟨s, hs, hp, hsort⟩ := timSort_spec h xs
    show timSort c xs = _
    rw [hs, h.eq_mergeSort_of_sorted_perm hsort hp]

/-- the common result is a permutation of the lane and non-decreasing -/
theorem sort_result (h : c.Lawful) (k : SortKind) (xs : List α) :
    ∃ s, sortFlat c k xs = .ok s ∧ s.Perm xs ∧ Sorted c s :=
  ⟨_, sorts_agree h k xs, List.mergeSort_perm xs c.le, h.sorted_mergeSort xs⟩

theorem sort_kinds_equal (h : c.Lawful) (k k' : SortKind) (xs : List α) : sortFlat c k xs = sortFlat c k' xs := by
  rw [sorts_agree h k, sorts_agree h k']

theorem sort_never_panics (h : c.Lawful) (k : SortKind) (xs : List α) : sortFlat c k xs ≠ .panic := by
  rw [sorts_agree h k]; simp

/-- **idempotence**: sorting a sorted lane (with any of the four kinds) returns it unchanged -/
theorem sort_idem (h : c.Lawful) (k k' : SortKind) (xs s : List α) (hs : sortFlat c k xs = .ok s) :
    sortFlat c k' s = .ok s := by
  rw [sorts_agree h k] at hs
  cases hs
  rw [sorts_agree h k']
  exact congrArg Res.ok (List.mergeSort_of_pairwise (h.sorted_mergeSort xs))

/-! ## the selector: enum and string spellings -/

/-- canonical (lower-case) name of a selector -/
def kindName : SortKind → List Char
  | .Quicksort => ['q','u','i','c','k','s','o','r','t']
  | .Mergesort => ['m','e','r','g','e','s','o','r','t']
  | .Heapsort => ['h','e','a','p','s','o','r','t']
  | .Stable => ['s','t','a','b','l','e']

/-- a string selects kind `k` exactly when its ASCII-lower-cased text is `k`'s name; every other text is refused
with an error value -/
theorem resolveKind_str (s : List Char) (k : SortKind) :
    resolveKind (.str s) = .ok k ↔ lowerAscii s = kindName k := by
  simp only [resolveKind, parseKindLower]
  generalize lowerAscii s = t
  constructor
  · intro h
    split at h
    · cases h; assumption
    · split at h
      · cases h; assumption
      · split at h
        · cases h; assumption
        · split at h
          · cases h; assumption
          · cases h
  · intro h
    subst h
    cases k <;> simp [kindName]

theorem resolveKind_unknown (s : List Char) (h : ∀ k, lowerAscii s ≠ kindName k) :
    resolveKind (.str s) = .err .ParameterError := by
  have h1 := h .Quicksort; have h2 := h .Mergesort; have h3 := h .Heapsort; have h4 := h .Stable
  simp only [kindName] at h1 h2 h3 h4
  simp only [resolveKind, parseKindLower, if_neg h1, if_neg h2, if_neg h3, if_neg h4]

theorem resolveKind_never_panics (ka : KindArg) : resolveKind ka ≠ .panic := by
  cases ka with
  | none => simp [resolveKind]
  | enum k => simp [resolveKind]
  | str s =>
    simp only [resolveKind, parseKindLower]
    repeat' split
    all_goals simp

/-- every selector is reachable as enum value, by its lower-case name, and `None` means quicksort -/
theorem resolveKind_enum (k : SortKind) : resolveKind (.enum k) = .ok k := rfl
theorem resolveKind_name (k : SortKind) : resolveKind (.str (kindName k)) = .ok k := by
  cases k <;> decide
theorem resolveKind_default : resolveKind .none = .ok .Quicksort := rfl

/-! ## `sort` (public operation) -/

/-- flat form, any input shape, any accepted selector spelling: the 1-D array of the sorted elements -/
theorem sort_flat (h : c.Lawful) (zero : α) (a : Arr α) (ka : KindArg) (k : SortKind)
    (hk : resolveKind ka = .ok k) :
    Sort.sort c zero a none ka = .ok (Arr.flat (a.elems.mergeSort c.le)) := by
  simp only [Sort.sort, hk, Res.bind_ok, sortLane, sorts_agree h k, Res.map]

/-- **axis form, every axis of every rank** (`k` or `k - rank`): the shape is kept and every lane along the axis is
replaced by its sorted rearrangement — the same for all four kinds and all selector spellings -/
theorem sort_axis_spec (h : c.Lawful) (zero : α) (a : Arr α) (ax : Int) (ka : KindArg) (k : SortKind)
    (hk : resolveKind ka = .ok k) (hwf : a.WF) (hnz : 0 ∉ a.shape) (hax : normalizeAxis a.ndim ax < a.ndim) :
    ∃ r, Sort.sort c zero a (some ax) ka = .ok r ∧ r.shape = a.shape ∧ r.WF ∧
      ∀ cd, inRange a.shape cd = true →
        laneOf r (normalizeAxis a.ndim ax) cd = (laneOf a (normalizeAxis a.ndim ax) cd).mergeSort c.le := by
  simp only [Sort.sort, hk, Res.bind_ok]
  exact along_lanewise a zero zero _ (sortLane c k) (fun l => l.mergeSort c.le) hwf hax hnz
    (fun lane _ => ⟨by simp only [sortLane, Arr.flat, sorts_agree h k, Res.map], List.length_mergeSort lane⟩)

/-- an unknown selector name is an error value for `sort` and `argsort`, whatever the array and axis -/
theorem sort_bad_kind (zero : α) (a : Arr α) (axis : Option Int) (ka : KindArg) (e : Err)
    (hk : resolveKind ka = .err e) : Sort.sort c zero a axis ka = .err e := by
  simp only [Sort.sort, hk, Res.bind_err]

theorem argsort_bad_kind (zero : α) (a : Arr α) (axis : Option Int) (ka : KindArg) (e : Err)
    (hk : resolveKind ka = .err e) : Sort.argsort c zero a axis ka = .err e := by
  simp only [Sort.argsort, hk, Res.bind_err]

/-- the result of the flat `sort` satisfies the shape/count invariant and is a fixed point of `sort` -/
theorem sort_flat_idem (h : c.Lawful) (zero : α) (a : Arr α) (ka ka' : KindArg) (k k' : SortKind)
    (hk : resolveKind ka = .ok k) (hk' : resolveKind ka' = .ok k') (r : Arr α)
    (hr : Sort.sort c zero a none ka = .ok r) : r.WF ∧ Sort.sort c zero r none ka' = .ok r := by
  rw [sort_flat h zero a ka k hk] at hr
  cases hr
  refine ⟨by simp [Arr.WF, Arr.flat], ?_⟩
  rw [sort_flat h zero _ ka' k' hk']
  simp only [Arr.flat, List.mergeSort_of_pairwise (h.sorted_mergeSort a.elems)]

/-- an axis outside the rank (after `normalize_axis`) is refused with an error value by all four operations -/
theorem axis_out_of_range (zero : α) (a : Arr α) (ax : Int) (ka : KindArg) (k : SortKind) (hk : resolveKind ka = .ok k)
    (isMax : Bool) (kd : Option Bool) (hax : a.ndim ≤ normalizeAxis a.ndim ax) :
    Sort.sort c zero a (some ax) ka = .err .AxisOutOfBounds ∧
    Sort.argsort c zero a (some ax) ka = .err .AxisOutOfBounds ∧
    Sort.unique c zero a (some ax) = .err .AxisOutOfBounds ∧
    Sort.argExtreme c zero isMax a (some ax) kd = .err .AxisOutOfBounds := by
  simp only [Sort.sort, Sort.argsort, Sort.unique, Sort.argExtreme, Arr.countAxis, hk, Res.bind_ok,
    applyAlongAxis_axis_err _ _ _ _ _ hax, Res.bind_err, and_self]

/-! ## `argsort` -/

/-- **index form**: `argsort` succeeds (its two `unwrap`s and `Vec::remove` never fail) and assigns to every element
the position it occupies in the sorted lane: the answer is a permutation of `0..n`, `sorted[r[i]] = xs[i]`, and equal
elements receive increasing positions in order of appearance.  (These three facts determine `r` uniquely.) -/
theorem argsort_spec (h : c.Lawful) (k : SortKind) (xs : List α) :
    ∃ r, argsortFlat c k xs = .ok r ∧ r.Perm (List.range xs.length) ∧
      (∀ (i : Nat) (x : α) (p : Nat), xs[i]? = some x → r[i]? = some p → (xs.mergeSort c.le)[p]? = some x) ∧
      (∀ (i j : Nat) (x : α) (pi pj : Nat), i < j → xs[i]? = some x → xs[j]? = some x → r[i]? = some pi →
        r[j]? = some pj → pi < pj) := by
  unfold argsortFlat
  rw [sorts_agree h k, Res.bind_ok]
  have hfst := enumFrom_map_fst 0 (xs.mergeSort c.le)
  have hsnd := enumFrom_map_snd 0 (xs.mergeSort c.le)
  obtain ⟨out, ho, hperm, hpt, hst⟩ := argsortLoop_spec h xs (enumFrom 0 (xs.mergeSort c.le))
    (by rw [hfst]; exact List.pairwise_lt_range')
    (by rw [hsnd]; exact (List.mergeSort_perm xs c.le).symm)
  refine ⟨out, ho, ?_, ?_, hst⟩
  · rw [hfst, List.length_mergeSort] at hperm
    rwa [List.range_eq_range']
  · intro i x p hi hp
    have := (mem_enumFrom 0 _ p x).1 (hpt i x p hi hp)
    simpa using this.2

theorem argsort_never_panics (h : c.Lawful) (k : SortKind) (xs : List α) : argsortFlat c k xs ≠ .panic := by
  obtain ⟨r, hr, _⟩ := argsort_spec h k xs; rw [hr]; simp

/-- the rank of an element does not depend on the algorithm selected -/
theorem argsort_kinds_equal (h : c.Lawful) (k k' : SortKind) (xs : List α) :
    argsortFlat c k xs = argsortFlat c k' xs := by
  unfold argsortFlat; rw [sorts_agree h k, sorts_agree h k']

/-- public form, `axis = None`: the 1-D array of those positions -/
theorem argsort_flat (h : c.Lawful) (zero : α) (a : Arr α) (ka : KindArg) (k : SortKind)
    (hk : resolveKind ka = .ok k) :
    ∃ r, argsortFlat c k a.elems = .ok r ∧ Sort.argsort c zero a none ka = .ok (Arr.flat r) := by
  obtain ⟨r, hr, _⟩ := argsort_spec h k a.elems
  exact ⟨r, hr, by simp only [Sort.argsort, hk, Res.bind_ok, argsortLane, hr, Res.map]⟩

/-- **axis form, every axis of every rank**: the shape is kept and every lane of the answer is the `argsort` of the
corresponding lane of the input (so `argsort_spec` describes each lane) -/
theorem argsort_axis_spec (h : c.Lawful) (zero : α) (a : Arr α) (ax : Int) (ka : KindArg) (k : SortKind)
    (hk : resolveKind ka = .ok k) (hwf : a.WF) (hnz : 0 ∉ a.shape) (hax : normalizeAxis a.ndim ax < a.ndim) :
    ∃ r, Sort.argsort c zero a (some ax) ka = .ok r ∧ r.shape = a.shape ∧ r.WF ∧
      ∀ cd, inRange a.shape cd = true →
        argsortFlat c k (laneOf a (normalizeAxis a.ndim ax) cd) = .ok (laneOf r (normalizeAxis a.ndim ax) cd) := by
  simp only [Sort.argsort, hk, Res.bind_ok]
  -- the lane function as a total list function
  let g : List α → List Nat := fun lane => match argsortFlat c k lane with | .ok r => r | _ => []
  have hg : ∀ lane, argsortFlat c k lane = .ok (g lane) := by
    intro lane
    obtain ⟨r, hr, _⟩ := argsort_spec h k lane
    simp only [g, hr]
  obtain ⟨r, h1, h2, h3, h4⟩ := along_lanewise a zero (0 : Nat) _ (argsortLane c k) g hwf hax hnz
    (fun lane _ => by
      refine ⟨by simp only [argsortLane, Arr.flat, hg lane, Res.map], ?_⟩
      obtain ⟨r, hr, hp, _⟩ := argsort_spec h k lane
      have : g lane = r := by simp only [g, hr]
      rw [this, hp.length_eq, List.length_range])
  exact ⟨r, h1, h2, h3, fun cd hcd => by rw [h4 cd hcd]; exact hg _⟩

/-! ## `argmax` / `argmin` -/

/-- **argmax**: on a non-empty lane the answer is the first position of a largest element -/
theorem argmax_spec (h : c.Lawful) (xs : List α) (hne : xs ≠ []) :
    ∃ p m, argExtremePos c true xs = .ok p ∧ xs[p]? = some m ∧ (∀ y ∈ xs, c.le y m = true) ∧
      (∀ q, q < p → xs[q]? ≠ some m) := by
  unfold argExtremePos
  have hnan : xs.findIdx? c.isNan = none := by
    rw [List.findIdx?_eq_none_iff]; intro x _; exact h.not_nan x
  have hq : resolveKind (.str ['q','u','i','c','k','s','o','r','t']) = .ok .Quicksort := by decide
  rw [hnan]
  simp only [hq, Res.bind_ok, sorts_agree h .Quicksort, ↓reduceIte]
  have hlen : 0 < (xs.mergeSort c.le).length := by
    rw [List.length_mergeSort]; exact List.length_pos_iff.2 hne
  have hidx : (xs.mergeSort c.le).length - 1 < (xs.mergeSort c.le).length := by omega
  rw [idx_ok _ _ hidx, Res.bind_ok]
  have hmem : (xs.mergeSort c.le)[(xs.mergeSort c.le).length - 1] ∈ xs :=
    List.mem_mergeSort.1 (List.getElem_mem hidx)
  obtain ⟨p, hp, hpm, hfirst⟩ := findIdx_beq_spec h xs _ hmem
  refine ⟨p, _, by rw [hp]; rfl, hpm, ?_, hfirst⟩
  intro y hy
  exact sorted_last_max h _ (h.sorted_mergeSort xs) _ (List.getElem?_eq_getElem hidx) y (List.mem_mergeSort.2 hy)

/-- **argmin**: on a non-empty lane the answer is the first position of a smallest element -/
theorem argmin_spec (h : c.Lawful) (xs : List α) (hne : xs ≠ []) :
    ∃ p m, argExtremePos c false xs = .ok p ∧ xs[p]? = some m ∧ (∀ y ∈ xs, c.le m y = true) ∧
      (∀ q, q < p → xs[q]? ≠ some m) := by
  unfold argExtremePos
  have hnan : xs.findIdx? c.isNan = none := by
    rw [List.findIdx?_eq_none_iff]; intro x _; exact h.not_nan x
  have hq : resolveKind (.str ['q','u','i','c','k','s','o','r','t']) = .ok .Quicksort := by decide
  rw [hnan]
  simp only [hq, Res.bind_ok, sorts_agree h .Quicksort, Bool.false_eq_true, ↓reduceIte]
  have hlen : 0 < (xs.mergeSort c.le).length := by
    rw [List.length_mergeSort]; exact List.length_pos_iff.2 hne
  rw [idx_ok _ _ hlen, Res.bind_ok]
  have hmem : (xs.mergeSort c.le)[0] ∈ xs := List.mem_mergeSort.1 (List.getElem_mem hlen)
  obtain ⟨p, hp, hpm, hfirst⟩ := findIdx_beq_spec h xs _ hmem
  refine ⟨p, _, by rw [hp]; rfl, hpm, ?_, hfirst⟩
  intro y hy
  exact sorted_first_min h _ (h.sorted_mergeSort xs) _ (List.getElem?_eq_getElem hlen) y (List.mem_mergeSort.2 hy)

/-- the NaN arm (element types with NaN, no order law needed): the first NaN position wins, for both queries -/
theorem argExtreme_nan (c : Cmp α) (isMax : Bool) (xs : List α) (i : Nat) (hi : xs.findIdx? c.isNan = some i) :
    argExtremePos c isMax xs = .ok i := by
  unfold argExtremePos; rw [hi]

/-- public form, `axis = None`: one-element 1-D array holding that position; the empty array is refused with an
error value; `keepdims = Some(true)` only changes the shape (`atleast(ndim)`; shown here for rank 1) -/
theorem argExtreme_flat (h : c.Lawful) (zero : α) (isMax : Bool) (a : Arr α) :
    (a.elems = [] → Sort.argExtreme c zero isMax a none none = .err .ParameterError) ∧
    (a.elems ≠ [] → ∃ p, argExtremePos c isMax a.elems = .ok p ∧
        Sort.argExtreme c zero isMax a none none = .ok ⟨[p], [1]⟩ ∧
        Sort.argExtreme c zero isMax a none (some false) = .ok ⟨[p], [1]⟩ ∧
        (a.ndim = 1 → Sort.argExtreme c zero isMax a none (some true) = .ok ⟨[p], [1]⟩)) := by
  constructor
  · intro he
    simp [Sort.argExtreme, Arr.countAxis, argExtremeLane, Arr.isEmpty, he]
  · intro hne
    have hemp : a.isEmpty = false := by
      simp only [Arr.isEmpty, beq_eq_false_iff_ne, ne_eq, List.length_eq_zero_iff]; exact hne
    obtain ⟨p, hp⟩ : ∃ p, argExtremePos c isMax a.elems = .ok p := by
      cases isMax
      · obtain ⟨p, _, hp, _⟩ := argmin_spec h a.elems hne; exact ⟨p, hp⟩
      · obtain ⟨p, _, hp, _⟩ := argmax_spec h a.elems hne; exact ⟨p, hp⟩
    refine ⟨p, hp, ?_, ?_, ?_⟩
    · simp [Sort.argExtreme, Arr.countAxis, argExtremeLane, hemp, hp, Arr.keepdimsTail, Arr.single]
    · simp [Sort.argExtreme, Arr.countAxis, argExtremeLane, hemp, hp, Arr.keepdimsTail, Arr.single]
    · intro h1
      simp [Sort.argExtreme, Arr.countAxis, argExtremeLane, hemp, hp, h1, Arr.keepdimsTail, Arr.single,
        Arr.atleast, Arr.atleast1d]

/-- **axis form, every axis of every rank**: with `keepdims = Some(true)` the axis is kept with length 1, otherwise
it is removed; the value at every position of the remaining axes is the position `argmax` / `argmin` reports on the
lane through that position (so `argmax_spec` / `argmin_spec` describe it: first position of an extreme element) -/
theorem argExtreme_axis_spec (h : c.Lawful) (zero : α) (isMax : Bool) (a : Arr α) (ax : Int) (kd : Option Bool)
    (hwf : a.WF) (hnz : 0 ∉ a.shape) (hax : normalizeAxis a.ndim ax < a.ndim) :
    ∃ r, Sort.argExtreme c zero isMax a (some ax) kd = .ok r ∧
      r.shape = (if kd = some true then a.shape.set (normalizeAxis a.ndim ax) 1
                 else a.shape.eraseIdx (normalizeAxis a.ndim ax)) ∧
      r.WF ∧
      ∀ cd, inRange (a.shape.eraseIdx (normalizeAxis a.ndim ax)) cd = true →
        ∃ p, argExtremePos c isMax
               (laneOf a (normalizeAxis a.ndim ax) (cd.insertIdx (normalizeAxis a.ndim ax) 0)) = .ok p ∧
          r.get? (if kd = some true then cd.insertIdx (normalizeAxis a.ndim ax) 0 else cd) = some p := by
  have hpos : 0 < a.shape.getD (normalizeAxis a.ndim ax) 0 := getD_mem_pos _ _ hax hnz
  -- the 1-D body on a non-empty lane
  have hbody : ∀ lane : List α, lane ≠ [] → ∃ p, argExtremePos c isMax lane = .ok p ∧
      argExtremeLane c isMax (Arr.flat lane) kd = .ok (Arr.single p) := by
    intro lane hne
    have hemp : (Arr.flat lane).isEmpty = false := by
      simp only [Arr.isEmpty, Arr.flat, beq_eq_false_iff_ne, ne_eq, List.length_eq_zero_iff]; exact hne
    obtain ⟨p, hp⟩ : ∃ p, argExtremePos c isMax lane = .ok p := by
      cases isMax
      · obtain ⟨p, _, hp, _⟩ := argmin_spec h lane hne; exact ⟨p, hp⟩
      · obtain ⟨p, _, hp, _⟩ := argmax_spec h lane hne; exact ⟨p, hp⟩
    refine ⟨p, hp, ?_⟩
    have hp' : argExtremePos c isMax (Arr.flat lane).elems = .ok p := hp
    unfold argExtremeLane
    rw [if_neg (by simp [hemp]), hp', Res.bind_ok]
    by_cases hkd : kd = some true
    · have hnd : (Arr.flat lane).ndim = 1 := rfl
      simp [Arr.keepdimsTail, hkd, hnd, Arr.atleast, Arr.atleast1d]
    · simp [Arr.keepdimsTail, hkd]
  obtain ⟨r, h1, h2, h3, h4⟩ := countAxis_single a zero (0 : Nat) ax kd (argExtremeLane c isMax) hwf hnz hax
    (fun lane hl => by
      obtain ⟨p, _, hp⟩ := hbody lane (by intro h0; rw [h0, List.length_nil] at hl; omega)
      exact ⟨_, hp, rfl⟩)
  refine ⟨r, h1, h2, h3, ?_⟩
  intro cd hcd
  obtain ⟨y, v, e1, e2, e3⟩ := h4 cd hcd
  have hne : laneOf a (normalizeAxis a.ndim ax) (cd.insertIdx (normalizeAxis a.ndim ax) 0) ≠ [] := by
    intro h0
    rw [h0] at e1
    simp [argExtremeLane, Arr.isEmpty, Arr.flat] at e1
  obtain ⟨p, hp1, hp2⟩ := hbody _ hne
  rw [hp2] at e1
  cases e1
  simp only [Arr.single, List.cons.injEq, and_true] at e2
  exact ⟨p, hp1, by rw [e3, e2]⟩

/-! ## `unique` -/

/-- **distinct values**: strictly increasing, and exactly the members of the lane -/
theorem unique_spec (h : c.Lawful) (xs : List α) :
    (uniqueFlat c xs).Pairwise (fun a b => c.lt a b = true) ∧ (∀ y, y ∈ uniqueFlat c xs ↔ y ∈ xs) := by
  obtain ⟨h1, h2⟩ := dedup_spec h (xs.mergeSort c.le) (h.sorted_mergeSort xs)
  exact ⟨h1, fun y => (h2 y).trans List.mem_mergeSort⟩

/-- `unique` = the sorted lane (by any of the four kinds) without repetitions -/
theorem unique_eq_dedup_sort (h : c.Lawful) (k : SortKind) (xs : List α) :
    sortFlat c k xs = .ok (xs.mergeSort c.le) ∧ uniqueFlat c xs = dedup c (xs.mergeSort c.le) :=
  ⟨sorts_agree h k xs, rfl⟩

theorem unique_flat (zero : α) (a : Arr α) :
    Sort.unique c zero a none = .ok (Arr.flat (uniqueFlat c a.elems)) := rfl

/-! ## the pinned defect, as a theorem about the pinned statements -/

/-- On every exit of `merge`'s loop (`i == len1 || j == len2`) with two non-empty runs, the **pinned** remainder
copies `arr[k..k+len1] <- left_arr[i..]; arr[k+len1..k+len1+len2] <- right_arr[j..]` panic — whatever the array.
`merge` is called for every lane of length >= 32, hence `SortKind::Stable` panics there on the pinned tree. -/
theorem pinned_merge_tail_panics (L R a : List α) (i j k : Nat) (hL : L ≠ []) (hR : R ≠ [])
    (hexit : i = L.length ∨ j = R.length) (hi : i ≤ L.length) (hj : j ≤ R.length) :
    pinnedMergeTail L R L.length R.length a i j k = .panic := by
  have hLl : 0 < L.length := List.length_pos_iff.2 hL
  have hRl : 0 < R.length := List.length_pos_iff.2 hR
  unfold pinnedMergeTail
  simp only [sliceFrom, if_pos hi, if_pos hj, Res.bind_ok]
  by_cases h1 : k ≤ k + L.length ∧ k + L.length ≤ a.length ∧ k + L.length - k = (L.drop i).length
  · have hi0 : i = 0 := by
      have := h1.2.2; rw [List.length_drop] at this; omega
    have hjR : j = R.length := by omega
    simp only [cloneFromSlice, if_pos h1, Res.bind_ok]
    rw [if_neg]
    intro h2
    have := h2.2.2
    rw [List.length_drop] at this
    omega
  · simp only [cloneFromSlice, if_neg h1, Res.bind_panic]

/-! ## non-vacuity: the hypotheses are met, on lanes that exercise every loop -/

/-- the tie's element type is a lawful order -/
example : (Cmp.int).Lawful := Cmp.int_lawful

/-- a 70-element lane (two runs of 35, one merge pass): all four kinds, by evaluation of the model -/
def lane70 : List Int := (List.range 70).map (fun i => ((i * 37 + 11) % 23 : Nat))

example : timSort Cmp.int lane70 = .ok (mergeSort Cmp.int lane70) := by decide +kernel
example : heapSort Cmp.int lane70 = .ok (mergeSort Cmp.int lane70) := by decide +kernel
example : quickSort Cmp.int lane70 = mergeSort Cmp.int lane70 := by decide +kernel
example : (mergeSort Cmp.int lane70).take 8 = [0, 0, 0, 1, 1, 1, 2, 2] ∧ (mergeSort Cmp.int lane70).length = 70 := by
  decide +kernel
example : timSort Cmp.int ([] : List Int) = .ok [] := by decide
example : argsortFlat Cmp.int .Stable [3, 1, 3, 1] = .ok [2, 0, 3, 1] := by decide +kernel
example : argExtremePos Cmp.int true [3, 1, 3, 1] = .ok 0 ∧ argExtremePos Cmp.int false [3, 1, 3, 1] = .ok 1 := by
  decide +kernel
example : uniqueFlat Cmp.int [3, 1, 3, 1] = [1, 3] := by
  have e : ([3, 1, 3, 1] : List Int).mergeSort Cmp.int.le = mergeSort Cmp.int [3, 1, 3, 1] :=
    (Res.ok.inj ((sorts_agree Cmp.int_lawful .Mergesort [3, 1, 3, 1]).symm.trans rfl))
  rw [uniqueFlat, e]; decide +kernel
example : argExtremePos Cmp.f64 true [some 1, none, none] = .ok 1 := by decide +kernel
example : resolveKind (.str ['Q','u','I','c','K','s','O','r','T']) = .ok .Quicksort := by decide
example : resolveKind (.str ['S','T','A','B','L','E']) = .ok .Stable := by decide
example : resolveKind (.str ['t','i','m','s','o','r','t']) = .err .ParameterError := by decide
/-- the pinned copies on the first merge of a 32-element lane (runs of 16, loop exits with `i = 16`) -/
example : pinnedMergeTail (List.range 16) (List.range 16) 16 16 (List.range 32) 16 0 16 = .panic := by decide +kernel

/-- a `[2,3,2]` array with duplicates, middle axis (either spelling): hypotheses of the axis theorems, and what they
describe, computed by the model -/
def sample3 : Arr Int := ⟨[3, 1, 2, 1, 1, 0, 2, 3, 2, 0, 2, 1], [2, 3, 2]⟩

example : sample3.WF ∧ 0 ∉ sample3.shape ∧ normalizeAxis sample3.ndim 1 < sample3.ndim ∧
    normalizeAxis sample3.ndim (-2) = 1 := by decide
example : Sort.sort Cmp.int 0 sample3 (some 1) (.enum .Stable) =
    .ok ⟨[1, 0, 2, 1, 3, 1, 2, 0, 2, 1, 2, 3], [2, 3, 2]⟩ := by decide +kernel
example : Sort.sort Cmp.int 0 sample3 (some (-2)) (.enum .Heapsort) =
    Sort.sort Cmp.int 0 sample3 (some 1) (.enum .Stable) := by decide +kernel
example : laneOf sample3 1 [0, 0, 0] = [3, 2, 1] ∧ laneOf sample3 1 [1, 2, 1] = [3, 0, 1] := by decide +kernel
example : Sort.argsort Cmp.int 0 sample3 (some 1) (.enum .Mergesort) =
    .ok ⟨[2, 1, 1, 2, 0, 0, 0, 2, 1, 0, 2, 1], [2, 3, 2]⟩ := by decide +kernel
example : Sort.argExtreme Cmp.int 0 false sample3 (some 1) (some true) = .ok ⟨[2, 2, 0, 1], [2, 1, 2]⟩ ∧
    Sort.argExtreme Cmp.int 0 false sample3 (some 1) none = .ok ⟨[2, 2, 0, 1], [2, 2]⟩ := by decide +kernel
example : Sort.sort Cmp.int 0 sample3 (some 3) (.enum .Stable) = .err .AxisOutOfBounds := by decide +kernel
example := sort_axis_spec Cmp.int_lawful 0 sample3 1 (.enum .Stable) .Stable rfl (by decide) (by decide) (by decide)
example := argExtreme_axis_spec Cmp.int_lawful 0 true sample3 (-2) none (by decide) (by decide) (by decide)

/-! ## arrays with a zero-length axis (no order law needed: no comparison is ever made) -/

/-- all four kinds return the empty lane for the empty lane — for ANY comparison operators -/
theorem sortFlat_nil (c : Cmp α) (k : SortKind) : sortFlat c k ([] : List α) = .ok [] := by cases k <;> rfl

theorem argsortFlat_nil (c : Cmp α) (k : SortKind) : argsortFlat c k ([] : List α) = .ok [] := by
  unfold argsortFlat; rw [sortFlat_nil]; rfl

theorem uniqueFlat_nil (c : Cmp α) : uniqueFlat c ([] : List α) = [] := by
  simp [uniqueFlat, dedup]

/-- flat forms on an array without elements (any shape): the empty 1-D array -/
theorem sort_flat_zero (zero : α) (a : Arr α) (ka : KindArg) (k : SortKind) (hk : resolveKind ka = .ok k)
    (he : a.elems = []) : Sort.sort c zero a none ka = .ok (Arr.flat []) := by
  simp only [Sort.sort, hk, Res.bind_ok, sortLane, he, sortFlat_nil, Res.map]

theorem argsort_flat_zero (zero : α) (a : Arr α) (ka : KindArg) (k : SortKind) (hk : resolveKind ka = .ok k)
    (he : a.elems = []) : Sort.argsort c zero a none ka = .ok (Arr.flat []) := by
  simp only [Sort.argsort, hk, Res.bind_ok, argsortLane, he, argsortFlat_nil, Res.map]

theorem unique_flat_zero (zero : α) (a : Arr α) (he : a.elems = []) :
    Sort.unique c zero a none = .ok (Arr.flat []) := by
  simp only [Sort.unique, uniqueLane, he, uniqueFlat_nil]

/-- **`sort(axis)` on a well-formed array with a zero-length axis**, every rank, every axis in range, every kind: when
an axis OTHER than the processed one has length 0 the call answers `Err(ParameterError)` (`split(0, None)` inside
`apply_along_axis`), otherwise — only the processed axis is empty — the array itself comes back -/
theorem sort_zero_axis (zero : α) (a : Arr α) (ax : Int) (ka : KindArg) (k : SortKind) (hk : resolveKind ka = .ok k)
    (hwf : a.WF) (h0 : 0 ∈ a.shape) (hax : normalizeAxis a.ndim ax < a.ndim) :
    Sort.sort c zero a (some ax) ka =
      if 0 ∈ a.shape.eraseIdx (normalizeAxis a.ndim ax) then .err .ParameterError else .ok a := by
  simp only [Sort.sort, hk, Res.bind_ok]
  rw [along_zero_empty_lane a zero zero _ (sortLane c k) hwf hax h0
    (by simp only [sortLane, Arr.flat, sortFlat_nil, Res.map]), ← eq_mk_nil_of_zero_mem a hwf h0]

/-- `argsort(axis)` likewise: `Err(ParameterError)` or the empty index array of the same shape -/
theorem argsort_zero_axis (zero : α) (a : Arr α) (ax : Int) (ka : KindArg) (k : SortKind) (hk : resolveKind ka = .ok k)
    (hwf : a.WF) (h0 : 0 ∈ a.shape) (hax : normalizeAxis a.ndim ax < a.ndim) :
    Sort.argsort c zero a (some ax) ka =
      if 0 ∈ a.shape.eraseIdx (normalizeAxis a.ndim ax) then .err .ParameterError else .ok ⟨[], a.shape⟩ := by
  simp only [Sort.argsort, hk, Res.bind_ok]
  exact along_zero_empty_lane a zero (0 : Nat) _ (argsortLane c k) hwf hax h0
    (by simp only [argsortLane, Arr.flat, argsortFlat_nil, Res.map])

/-- `unique(axis)` likewise -/
theorem unique_zero_axis (zero : α) (a : Arr α) (ax : Int)
    (hwf : a.WF) (h0 : 0 ∈ a.shape) (hax : normalizeAxis a.ndim ax < a.ndim) :
    Sort.unique c zero a (some ax) =
      if 0 ∈ a.shape.eraseIdx (normalizeAxis a.ndim ax) then .err .ParameterError else .ok a := by
  simp only [Sort.unique]
  rw [along_zero_empty_lane a zero zero _ (uniqueLane c) hwf hax h0
    (by simp only [uniqueLane, Arr.flat, uniqueFlat_nil]), ← eq_mk_nil_of_zero_mem a hwf h0]

/-- **`argmax` / `argmin` on a well-formed array with a zero-length axis are ALWAYS refused with an error value**:
`AxisOutOfBounds` for an axis outside the rank, `ParameterError` otherwise (flat form: "cannot be empty"; axis form:
`split(0, None)` or the flat form on the one empty lane), whatever `keepdims` -/
theorem argExtreme_zero (zero : α) (isMax : Bool) (a : Arr α) (axis : Option Int) (kd : Option Bool)
    (hwf : a.WF) (h0 : 0 ∈ a.shape) :
    Sort.argExtreme c zero isMax a axis kd = .err (match axis with
      | some ax => if a.ndim ≤ normalizeAxis a.ndim ax then .AxisOutOfBounds else .ParameterError
      | none => .ParameterError) := by
  have he := elems_nil_of_zero_mem a hwf h0
  cases axis with
  | none => simp [Sort.argExtreme, Arr.countAxis, argExtremeLane, Arr.isEmpty, he]
  | some ax =>
    by_cases hax : a.ndim ≤ normalizeAxis a.ndim ax
    · simp only [Sort.argExtreme, Arr.countAxis, applyAlongAxis_axis_err _ _ _ _ _ hax, Res.bind_err, if_pos hax]
    · have hf : (fun arr => argExtremeLane c isMax arr kd) (Arr.flat []) = .err .ParameterError := by
        simp [argExtremeLane, Arr.isEmpty, Arr.flat]
      simp only [Sort.argExtreme, Arr.countAxis, if_neg hax]
      rw [along_zero_refusing_lane a zero (0 : Nat) _ _ .ParameterError hwf (by omega) h0 hf]
      simp

/-! ## total statements: every well-formed array (zero-length axes or not), every axis option, every selector -/

theorem sortLane_no_panic (h : c.Lawful) (k : SortKind) (x : Arr α) : sortLane c k x ≠ .panic := by
  simp only [sortLane, sorts_agree h k, Res.map]; exact fun h => nomatch h

theorem argsortLane_no_panic (h : c.Lawful) (k : SortKind) (x : Arr α) : argsortLane c k x ≠ .panic := by
  obtain ⟨r, hr, _⟩ := argsort_spec h k x.elems
  simp only [argsortLane, hr, Res.map]; exact fun h => nomatch h

theorem argExtremeLane_no_panic (h : c.Lawful) (isMax : Bool) (kd : Option Bool) (x : Arr α) :
    argExtremeLane c isMax x kd ≠ .panic := by
  unfold argExtremeLane
  by_cases he : x.isEmpty = true
  · rw [if_pos he]; exact fun h => nomatch h
  · rw [if_neg he]
    have hne : x.elems ≠ [] := by
      intro h0; apply he; simp [Arr.isEmpty, h0]
    obtain ⟨p, hp⟩ : ∃ p, argExtremePos c isMax x.elems = .ok p := by
      cases isMax
      · obtain ⟨p, _, hp, _⟩ := argmin_spec h x.elems hne; exact ⟨p, hp⟩
      · obtain ⟨p, _, hp, _⟩ := argmax_spec h x.elems hne; exact ⟨p, hp⟩
    rw [hp, Res.bind_ok]
    unfold Arr.keepdimsTail
    split
    · exact single_atleast_no_panic p _
    · exact fun h => nomatch h

/-- **`sort` is total**: `Ok` with a well-formed array (of the same rank in the axis form, 1-D in the flat form) or an
error value — for every well-formed array, axis option and selector argument -/
theorem sort_op_total (h : c.Lawful) (zero : α) (a : Arr α) (axis : Option Int) (ka : KindArg) (hwf : a.WF) :
    (∃ r, Sort.sort c zero a axis ka = .ok r ∧ r.WF ∧ r.ndim = (if axis.isSome then a.ndim else 1)) ∨
    (∃ e, Sort.sort c zero a axis ka = .err e) := by
  cases hk : resolveKind ka with
  | panic => exact absurd hk (resolveKind_never_panics ka)
  | err e => exact Or.inr ⟨e, sort_bad_kind zero a axis ka e hk⟩
  | ok k =>
    cases axis with
    | none =>
      exact Or.inl ⟨_, sort_flat h zero a ka k hk, flat_WF _, rfl⟩
    | some ax =>
      simp only [Sort.sort, hk, Res.bind_ok, Option.isSome_some, if_true]
      exact applyAlongAxis_total a zero zero _ (sortLane c k) hwf (sortLane_no_panic h k)

theorem argsort_op_total (h : c.Lawful) (zero : α) (a : Arr α) (axis : Option Int) (ka : KindArg) (hwf : a.WF) :
    (∃ r, Sort.argsort c zero a axis ka = .ok r ∧ r.WF ∧ r.ndim = (if axis.isSome then a.ndim else 1)) ∨
    (∃ e, Sort.argsort c zero a axis ka = .err e) := by
  cases hk : resolveKind ka with
  | panic => exact absurd hk (resolveKind_never_panics ka)
  | err e => exact Or.inr ⟨e, argsort_bad_kind zero a axis ka e hk⟩
  | ok k =>
    cases axis with
    | none =>
      obtain ⟨r, _, hr⟩ := argsort_flat h zero a ka k hk
      exact Or.inl ⟨_, hr, flat_WF _, rfl⟩
    | some ax =>
      simp only [Sort.argsort, hk, Res.bind_ok, Option.isSome_some, if_true]
      exact applyAlongAxis_total a zero (0 : Nat) _ (argsortLane c k) hwf (argsortLane_no_panic h k)

/-- `unique` is total for ANY comparison operators (no order law needed) -/
theorem unique_op_total (zero : α) (a : Arr α) (axis : Option Int) (hwf : a.WF) :
    (∃ r, Sort.unique c zero a axis = .ok r ∧ r.WF ∧ r.ndim = (if axis.isSome then a.ndim else 1)) ∨
    (∃ e, Sort.unique c zero a axis = .err e) := by
  cases axis with
  | none => exact Or.inl ⟨_, rfl, flat_WF _, rfl⟩
  | some ax =>
    simp only [Sort.unique, Option.isSome_some, if_true]
    exact applyAlongAxis_total a zero zero _ (uniqueLane c) hwf (fun x => by simp [uniqueLane])

theorem argExtremeLane_total (h : c.Lawful) (isMax : Bool) (kd : Option Bool) (x : Arr α) :
    (∃ r, argExtremeLane c isMax x kd = .ok r ∧ r.WF) ∨ (∃ e, argExtremeLane c isMax x kd = .err e) := by
  unfold argExtremeLane
  by_cases he : x.isEmpty = true
  · rw [if_pos he]; exact Or.inr ⟨_, rfl⟩
  · rw [if_neg he]
    have hne : x.elems ≠ [] := by
      intro h0; apply he; simp [Arr.isEmpty, h0]
    obtain ⟨p, hp⟩ : ∃ p, argExtremePos c isMax x.elems = .ok p := by
      cases isMax
      · obtain ⟨p, _, hp, _⟩ := argmin_spec h x.elems hne; exact ⟨p, hp⟩
      · obtain ⟨p, _, hp, _⟩ := argmax_spec h x.elems hne; exact ⟨p, hp⟩
    rw [hp, Res.bind_ok]
    unfold Arr.keepdimsTail
    split
    · exact single_atleast_total p _
    · exact Or.inl ⟨_, rfl, rfl⟩

/-- `argmax` / `argmin` are total: `Ok` with a well-formed array or an error value (in particular the `Vec::remove`
of the non-`keepdims` arm is only reached with the axis in range, and `position(..).unwrap()` always finds) -/
theorem argExtreme_op_total (h : c.Lawful) (zero : α) (isMax : Bool) (a : Arr α) (axis : Option Int)
    (kd : Option Bool) (hwf : a.WF) :
    (∃ r, Sort.argExtreme c zero isMax a axis kd = .ok r ∧ r.WF) ∨
    (∃ e, Sort.argExtreme c zero isMax a axis kd = .err e) := by
  cases axis with
  | none => exact argExtremeLane_total h isMax kd a
  | some ax =>
    simp only [Sort.argExtreme, Arr.countAxis]
    rcases applyAlongAxis_total a zero (0 : Nat) (normalizeAxis a.ndim ax) (fun arr => argExtremeLane c isMax arr kd) hwf
      (fun x => argExtremeLane_no_panic h isMax kd x) with ⟨r, hr, hrwf, _⟩ | ⟨e, he⟩
    · rw [hr, Res.bind_ok]
      by_cases hkd : kd = some true
      · rw [if_pos hkd]; exact Or.inl ⟨r, rfl, hrwf⟩
      · rw [if_neg hkd]
        have hax : normalizeAxis a.ndim ax < a.shape.length := by
          apply Nat.lt_of_not_le
          intro hge
          rw [applyAlongAxis_axis_err a zero (0 : Nat) _ _ hge] at hr
          cases hr
        simp only [vecRemove, if_neg (Nat.not_le.2 hax), Res.bind_ok, Arr.reshape, Arr.new]
        split
        · rename_i hp; exact Or.inl ⟨_, rfl, hp.symm⟩
        · exact Or.inr ⟨_, rfl⟩
    · rw [he]; exact Or.inr ⟨e, rfl⟩

theorem sort_op_never_panics (h : c.Lawful) (zero : α) (a : Arr α) (axis : Option Int) (ka : KindArg) (hwf : a.WF) :
    Sort.sort c zero a axis ka ≠ .panic := by
  rcases sort_op_total h zero a axis ka hwf with ⟨r, hr, _⟩ | ⟨e, he⟩ <;> simp [*]

theorem argsort_op_never_panics (h : c.Lawful) (zero : α) (a : Arr α) (axis : Option Int) (ka : KindArg)
    (hwf : a.WF) : Sort.argsort c zero a axis ka ≠ .panic := by
  rcases argsort_op_total h zero a axis ka hwf with ⟨r, hr, _⟩ | ⟨e, he⟩ <;> simp [*]

theorem unique_op_never_panics (zero : α) (a : Arr α) (axis : Option Int) (hwf : a.WF) :
    Sort.unique c zero a axis ≠ .panic := by
  rcases unique_op_total (c := c) zero a axis hwf with ⟨r, hr, _⟩ | ⟨e, he⟩ <;> simp [*]

theorem argExtreme_op_never_panics (h : c.Lawful) (zero : α) (isMax : Bool) (a : Arr α) (axis : Option Int)
    (kd : Option Bool) (hwf : a.WF) : Sort.argExtreme c zero isMax a axis kd ≠ .panic := by
  rcases argExtreme_op_total h zero isMax a axis kd hwf with ⟨r, hr, _⟩ | ⟨e, he⟩ <;> simp [*]

/-! ## the selected kind never matters, in any form -/

/-- `sort` with any two accepted selectors (enum values, names in any case, `None`) gives the same answer — flat and
axis forms, every well-formed or ill-formed array, zero-length axes included -/
theorem sort_op_kinds_equal (h : c.Lawful) (zero : α) (a : Arr α) (axis : Option Int) (ka ka' : KindArg)
    (k k' : SortKind) (hk : resolveKind ka = .ok k) (hk' : resolveKind ka' = .ok k') :
    Sort.sort c zero a axis ka = Sort.sort c zero a axis ka' := by
  have hl : sortLane c k = sortLane c k' := funext fun x => by simp only [sortLane, sort_kinds_equal h k k']
  simp only [Sort.sort, hk, hk', Res.bind_ok, hl]

/-- `argsort` likewise: the Stable kind (`tim_sort`) and the three others rank equal keys identically (in order of
appearance, `argsort_spec`) on every lane of every array -/
theorem argsort_op_kinds_equal (h : c.Lawful) (zero : α) (a : Arr α) (axis : Option Int) (ka ka' : KindArg)
    (k k' : SortKind) (hk : resolveKind ka = .ok k) (hk' : resolveKind ka' = .ok k') :
    Sort.argsort c zero a axis ka = Sort.argsort c zero a axis ka' := by
  have hl : argsortLane c k = argsortLane c k' :=
    funext fun x => by simp only [argsortLane, argsort_kinds_equal h k k']
  simp only [Sort.argsort, hk, hk', Res.bind_ok, hl]

/-- **`argsort(axis)`, the three facts per lane** (permutation of `0..n`, `sorted[r[i]] = lane[i]`, equal keys ranked
in order of appearance), for every kind — the Stable kind included — and every lane of every array without a
zero-length axis -/
theorem argsort_axis_lane_facts (h : c.Lawful) (zero : α) (a : Arr α) (ax : Int) (ka : KindArg) (k : SortKind)
    (hk : resolveKind ka = .ok k) (hwf : a.WF) (hnz : 0 ∉ a.shape) (hax : normalizeAxis a.ndim ax < a.ndim) :
    ∃ r, Sort.argsort c zero a (some ax) ka = .ok r ∧ r.shape = a.shape ∧
      ∀ cd, inRange a.shape cd = true →
        (laneOf r (normalizeAxis a.ndim ax) cd).Perm (List.range (laneOf a (normalizeAxis a.ndim ax) cd).length) ∧
        (∀ (i : Nat) (x : α) (p : Nat), (laneOf a (normalizeAxis a.ndim ax) cd)[i]? = some x →
          (laneOf r (normalizeAxis a.ndim ax) cd)[i]? = some p →
          ((laneOf a (normalizeAxis a.ndim ax) cd).mergeSort c.le)[p]? = some x) ∧
        (∀ (i j : Nat) (x : α) (pi pj : Nat), i < j → (laneOf a (normalizeAxis a.ndim ax) cd)[i]? = some x →
          (laneOf a (normalizeAxis a.ndim ax) cd)[j]? = some x →
          (laneOf r (normalizeAxis a.ndim ax) cd)[i]? = some pi →
          (laneOf r (normalizeAxis a.ndim ax) cd)[j]? = some pj → pi < pj) := by
  obtain ⟨r, h1, h2, _, h4⟩ := argsort_axis_spec h zero a ax ka k hk hwf hnz hax
  refine ⟨r, h1, h2, fun cd hcd => ?_⟩
  obtain ⟨r0, e0, f1, f2, f3⟩ := argsort_spec h k (laneOf a (normalizeAxis a.ndim ax) cd)
  have := (h4 cd hcd).symm.trans e0
  cases this
  exact ⟨f1, f2, f3⟩

/-! ## `unique(axis)` -/

/-- **every lane has the same number `k` of distinct values**: `unique(axis)` answers `Ok`, the axis gets length `k`
and every lane of the result is `unique` of the corresponding input lane (for ANY comparison operators) -/
theorem unique_axis_spec (zero : α) (a : Arr α) (ax : Int) (k : Nat)
    (hwf : a.WF) (hnz : 0 ∉ a.shape) (hax : normalizeAxis a.ndim ax < a.ndim)
    (hk : ∀ cd, inRange a.shape cd = true → (uniqueFlat c (laneOf a (normalizeAxis a.ndim ax) cd)).length = k) :
    ∃ r, Sort.unique c zero a (some ax) = .ok r ∧ r.shape = a.shape.set (normalizeAxis a.ndim ax) k ∧ r.WF ∧
      ∀ cd, inRange a.shape cd = true →
        laneOf r (normalizeAxis a.ndim ax) cd = uniqueFlat c (laneOf a (normalizeAxis a.ndim ax) cd) := by
  simp only [Sort.unique]
  exact applyAlongAxis_lanes_uniform a zero zero _ k (uniqueLane c) (uniqueFlat c) hwf hax hnz (fun _ _ => rfl) hk

/-- … and on a lawful order every lane of the result is strictly increasing and has exactly the members of the input
lane: the sorted values of the lane without repetition -/
theorem unique_axis_sorted_distinct (h : c.Lawful) (zero : α) (a : Arr α) (ax : Int) (k : Nat)
    (hwf : a.WF) (hnz : 0 ∉ a.shape) (hax : normalizeAxis a.ndim ax < a.ndim)
    (hk : ∀ cd, inRange a.shape cd = true → (uniqueFlat c (laneOf a (normalizeAxis a.ndim ax) cd)).length = k) :
    ∃ r, Sort.unique c zero a (some ax) = .ok r ∧ r.shape = a.shape.set (normalizeAxis a.ndim ax) k ∧ r.WF ∧
      ∀ cd, inRange a.shape cd = true →
        (laneOf r (normalizeAxis a.ndim ax) cd).Pairwise (fun x y => c.lt x y = true) ∧
        (laneOf r (normalizeAxis a.ndim ax) cd).length = k ∧
        ∀ y, y ∈ laneOf r (normalizeAxis a.ndim ax) cd ↔ y ∈ laneOf a (normalizeAxis a.ndim ax) cd := by
  obtain ⟨r, h1, h2, h3, h4⟩ := unique_axis_spec (c := c) zero a ax k hwf hnz hax hk
  refine ⟨r, h1, h2, h3, fun cd hcd => ?_⟩
  rw [h4 cd hcd]
  exact ⟨(unique_spec h _).1, hk cd hcd, (unique_spec h _).2⟩

/-- **complete outcome of `unique(axis)` on an array without a zero-length axis** (lanes with different numbers of
distinct values included).  With `L = lanesOf a axis` (the lanes in processing order, `mem_lanesOf`), `k0` the number
of distinct values of the FIRST lane (the lane through the origin, `lanesOf_headD`) and `buf` the concatenation of all
per-lane answers: when `buf.length = rest.prod * k0` the answer is `Ok` — shape with the axis replaced by `k0`, and
the element at (remaining coordinates `c'`, axis coordinate `j`) is `buf[ravel rest c' * k0 + j]`, i.e. for ragged
lanes a re-cut buffer, not per-lane values — and otherwise `Err(ShapeMustMatchValuesLength)` (from `reshape`) -/
theorem unique_axis_outcome (zero : α) (a : Arr α) (ax : Int)
    (hwf : a.WF) (hnz : 0 ∉ a.shape) (hax : normalizeAxis a.ndim ax < a.ndim) :
    ((a.shape.eraseIdx (normalizeAxis a.ndim ax)).prod *
        (uniqueFlat c ((lanesOf a (normalizeAxis a.ndim ax)).headD [])).length =
        ((lanesOf a (normalizeAxis a.ndim ax)).flatMap (uniqueFlat c)).length →
      ∃ r, Sort.unique c zero a (some ax) = .ok r ∧
        r.shape = a.shape.set (normalizeAxis a.ndim ax)
          (uniqueFlat c ((lanesOf a (normalizeAxis a.ndim ax)).headD [])).length ∧ r.WF ∧
        ∀ c' j, inRange (a.shape.eraseIdx (normalizeAxis a.ndim ax)) c' = true →
          j < (uniqueFlat c ((lanesOf a (normalizeAxis a.ndim ax)).headD [])).length →
          r.get? (c'.insertIdx (normalizeAxis a.ndim ax) j) =
            ((lanesOf a (normalizeAxis a.ndim ax)).flatMap (uniqueFlat c))[
              ravel (a.shape.eraseIdx (normalizeAxis a.ndim ax)) c' *
                (uniqueFlat c ((lanesOf a (normalizeAxis a.ndim ax)).headD [])).length + j]?) ∧
    ((a.shape.eraseIdx (normalizeAxis a.ndim ax)).prod *
        (uniqueFlat c ((lanesOf a (normalizeAxis a.ndim ax)).headD [])).length ≠
        ((lanesOf a (normalizeAxis a.ndim ax)).flatMap (uniqueFlat c)).length →
      Sort.unique c zero a (some ax) = .err .ShapeMustMatchValuesLength) := by
  simp only [Sort.unique]
  exact applyAlongAxis_pure a zero zero _ (uniqueLane c) (uniqueFlat c) hwf hax hnz (fun _ _ => rfl)

/-- **ragged lanes are refused** whenever the first lane (the lane through the origin) has the largest — or the
smallest — number `k0` of distinct values and some lane differs: `Err(ShapeMustMatchValuesLength)`.  (When counts lie
on both sides of `k0` and happen to add up to `rest.prod * k0` the call succeeds with the re-cut buffer of
`unique_axis_outcome`; see the examples.) -/
theorem unique_axis_ragged_refused (zero : α) (a : Arr α) (ax : Int) (k0 : Nat)
    (hwf : a.WF) (hnz : 0 ∉ a.shape) (hax : normalizeAxis a.ndim ax < a.ndim)
    (hk0 : (uniqueFlat c (laneOf a (normalizeAxis a.ndim ax) (List.replicate a.ndim 0))).length = k0)
    (hrag :
      ((∀ cd, inRange a.shape cd = true → (uniqueFlat c (laneOf a (normalizeAxis a.ndim ax) cd)).length ≤ k0) ∧
        ∃ cd, inRange a.shape cd = true ∧ (uniqueFlat c (laneOf a (normalizeAxis a.ndim ax) cd)).length < k0) ∨
      ((∀ cd, inRange a.shape cd = true → k0 ≤ (uniqueFlat c (laneOf a (normalizeAxis a.ndim ax) cd)).length) ∧
        ∃ cd, inRange a.shape cd = true ∧ k0 < (uniqueFlat c (laneOf a (normalizeAxis a.ndim ax) cd)).length)) :
    Sort.unique c zero a (some ax) = .err .ShapeMustMatchValuesLength := by
  apply (unique_axis_outcome (c := c) zero a ax hwf hnz hax).2
  rw [lanesOf_headD a _ hax hnz, hk0, ← lanesOf_length a (normalizeAxis a.ndim ax)]
  have hmem := mem_lanesOf a _ hax hnz
  rcases hrag with ⟨hle, cd, hcd, hlt⟩ | ⟨hge, cd, hcd, hgt⟩
  · have := sum_lt_of_exists_lt (uniqueFlat c) k0 (lanesOf a (normalizeAxis a.ndim ax))
      (fun l hl => by obtain ⟨cd, hcd, rfl⟩ := (hmem l).1 hl; exact hle cd hcd)
      ⟨_, (hmem _).2 ⟨cd, hcd, rfl⟩, hlt⟩
    omega
  · have := sum_gt_of_exists_gt (uniqueFlat c) k0 (lanesOf a (normalizeAxis a.ndim ax))
      (fun l hl => by obtain ⟨cd, hcd, rfl⟩ := (hmem l).1 hl; exact hge cd hcd)
      ⟨_, (hmem _).2 ⟨cd, hcd, rfl⟩, hgt⟩
    omega

/-! ## non-vacuity of the extension -/

/-- zero-length axes: `[2,0]` (axis 0: the other axis is empty — refused; axis 1: the array comes back), `[0,0]` -/
example : Sort.sort Cmp.int 0 (⟨[], [2, 0]⟩ : Arr Int) (some 0) (.enum .Stable) = .err .ParameterError ∧
    Sort.sort Cmp.int 0 (⟨[], [2, 0]⟩ : Arr Int) (some 1) (.enum .Stable) = .ok ⟨[], [2, 0]⟩ ∧
    Sort.sort Cmp.int 0 (⟨[], [0, 0]⟩ : Arr Int) (some (-1)) .none = .err .ParameterError ∧
    Sort.sort Cmp.int 0 (⟨[], [1, 0, 1]⟩ : Arr Int) (some (-2)) (.enum .Heapsort) = .ok ⟨[], [1, 0, 1]⟩ ∧
    Sort.argsort Cmp.int 0 (⟨[], [2, 0]⟩ : Arr Int) (some 1) .none = .ok ⟨[], [2, 0]⟩ ∧
    Sort.argsort Cmp.int 0 (⟨[], [0, 2]⟩ : Arr Int) none .none = .ok ⟨[], [0]⟩ ∧
    Sort.argExtreme Cmp.int 0 true (⟨[], [2, 0]⟩ : Arr Int) (some 1) (some true) = .err .ParameterError ∧
    Sort.argExtreme Cmp.int 0 false (⟨[], [2, 0]⟩ : Arr Int) (some 2) none = .err .AxisOutOfBounds := by
  decide +kernel
example := sort_zero_axis (c := Cmp.int) 0 (⟨[], [2, 0]⟩ : Arr Int) 1 (.enum .Stable) .Stable rfl (by decide)
  (by decide) (by decide)
example : Sort.unique Cmp.int 0 (⟨[], [2, 0]⟩ : Arr Int) (some 1) = .ok ⟨[], [2, 0]⟩ :=
  (unique_zero_axis 0 _ 1 (by decide) (by decide) (by decide)).trans (by decide)

/-- `unique(axis)`: uniform lanes (2 distinct values each), ragged lanes that are refused (counts 2, 1), and ragged
lanes whose counts 2, 1, 3 add up to `3 * 2`: accepted with the re-cut buffer (rows `[1,2] [5,7] [8,9]`) -/
def uniformU : Arr Int := ⟨[1, 1, 2, 4, 3, 4], [2, 3]⟩

example : Sort.unique Cmp.int 0 uniformU (some 1) = .ok ⟨[1, 2, 3, 4], [2, 2]⟩ := by
  simp only [Sort.unique, uniqueLane_eq_model_sort Cmp.int_lawful]; decide +kernel
example : Sort.unique Cmp.int 0 ⟨[1, 2, 2, 5, 5, 5], [2, 3]⟩ (some (-1)) = .err .ShapeMustMatchValuesLength := by
  simp only [Sort.unique, uniqueLane_eq_model_sort Cmp.int_lawful]; decide +kernel
example : Sort.unique Cmp.int 0 ⟨[1, 2, 2, 5, 5, 5, 7, 8, 9], [3, 3]⟩ (some 1) = .ok ⟨[1, 2, 5, 7, 8, 9], [3, 2]⟩ := by
  simp only [Sort.unique, uniqueLane_eq_model_sort Cmp.int_lawful]; decide +kernel
/-- the hypothesis of `unique_axis_spec` is met by `uniformU` -/
example : ∀ cd, inRange uniformU.shape cd = true →
    (uniqueFlat Cmp.int (laneOf uniformU (normalizeAxis uniformU.ndim 1) cd)).length = 2 := by
  intro cd hcd
  rw [uniqueFlat_eq_model_sort Cmp.int_lawful]
  rcases cd with _ | ⟨x, _ | ⟨y, _ | ⟨z, t⟩⟩⟩
  · simp [inRange, uniformU] at hcd
  · simp [inRange, uniformU] at hcd
  · simp only [inRange, uniformU, Bool.and_eq_true, decide_eq_true_eq, and_true] at hcd
    have hx : x = 0 ∨ x = 1 := by omega
    have hy : y = 0 ∨ y = 1 ∨ y = 2 := by omega
    rcases hx with rfl | rfl <;> rcases hy with rfl | rfl | rfl <;> decide +kernel
  · simp [inRange, uniformU] at hcd

/-! ## the closed form of `argsort` -/

/-- **closed form**: `argsort` (any kind) assigns to position `i` the number of elements smaller than `xs[i]` plus the
number of equal elements appearing before position `i` (`rankOf`) -/
theorem argsort_rank_formula (h : c.Lawful) (k : SortKind) (xs : List α) :
    argsortFlat c k xs = .ok ((List.range xs.length).map (rankOf c xs)) := by
  obtain ⟨r, hr, hp, hA, hB⟩ := argsort_spec h k xs
  rw [hr, rank_unique h xs _ r (h.sorted_mergeSort xs) hp hA hB]

/-- **the three facts of `argsort_spec` determine the answer**: any list of positions that is a permutation of
`0..n`, puts every element where the sorted lane holds it, and ranks equal elements in order of appearance IS the
answer of `argsort`, for every kind -/
theorem argsort_determined (h : c.Lawful) (k : SortKind) (xs : List α) (r : List Nat)
    (hperm : r.Perm (List.range xs.length))
    (hA : ∀ (i : Nat) (x : α) (p : Nat), xs[i]? = some x → r[i]? = some p → (xs.mergeSort c.le)[p]? = some x)
    (hB : ∀ (i j : Nat) (x : α) (pi pj : Nat), i < j → xs[i]? = some x → xs[j]? = some x → r[i]? = some pi →
        r[j]? = some pj → pi < pj) :
    argsortFlat c k xs = .ok r := by
  rw [argsort_rank_formula h k xs, rank_unique h xs _ r (h.sorted_mergeSort xs) hperm hA hB]

example : (List.range 4).map (rankOf Cmp.int [3, 1, 3, 1]) = [2, 0, 3, 1] := by decide
example : (List.range 6).map (rankOf Cmp.int [5, 5, -1, 5, 0, -1]) = [3, 4, 0, 5, 2, 1] := by decide

end ArrModel.C10
