import ArrProofs.Lemmas.C07
import ArrProofs.Lemmas.GenCore
import ArrProofs.Lemmas.GenCoreAxis
/-!
# C07 — reshaping operations never reorder, drop or invent elements

Model under test: `ArrModel/Reshape.lean` (`reshape`, `ravel`) and `ArrModel/Manip.lean` (`resize`, `cycleTake`,
`atleast`, `expandDims`, `squeeze`, `create`).  All statements are for every rank, every length, every axis list
and every chain length.  Specification vocabulary (defined in `Lemmas/C07.lean`):
`insertAll sh ps` = insert a `1` at each position of `ps` in turn, `eraseAll sh ds` = erase each position of `ds` in
turn, `dropIdx P sh` = the entries of `sh` whose index does not satisfy `P`.
-/
namespace ArrModel.C07
open ArrModel Arr
variable {α : Type}

/-! ## 1. reshape, ravel -/

/-- **reshape** succeeds exactly when the element count matches, and then re-wraps the very same element list -/
theorem reshape_ok_iff (a : Arr α) (s : List Nat) (r : Arr α) :
    a.reshape s = .ok r ↔ s.prod = a.elems.length ∧ r = ⟨a.elems, s⟩ := Arr.new_ok_iff _ _ _

/-- … and otherwise it is the error `ShapeMustMatchValuesLength` (never a panic) -/
theorem reshape_err (a : Arr α) (s : List Nat) (h : s.prod ≠ a.elems.length) :
    a.reshape s = .err .ShapeMustMatchValuesLength := Arr.new_of_not_prod h

/-- **ravel** keeps the elements, the shape is `[len]`, the result is well formed -/
theorem ravel_spec (a : Arr α) : a.ravel.elems = a.elems ∧ a.ravel.shape = [a.elems.length] ∧ a.ravel.WF :=
  ⟨rfl, rfl, by simp [Arr.ravel, Arr.flat, Arr.WF]⟩

/-! ## 2. every operation keeps the flat element list -/

theorem atleast_elems (a r : Arr α) (n : Nat) (h : a.atleast n = .ok r) : r.elems = a.elems := by
  have hb : ∀ (x : Res Nat) (f : Nat → List Nat), (x >>= fun d => a.reshape (f d)) = .ok r → r.elems = a.elems := by
    intro x f h
    obtain ⟨d, _, hd⟩ := Res.bind_eq_ok h
    exact Arr.reshape_elems hd
  unfold Arr.atleast at h
  split at h
  · cases h; rfl
  · cases h; rfl
  · unfold Arr.atleast2d at h
    split at h
    · cases h; rfl
    · split at h
      · exact Arr.reshape_elems h
      · exact hb _ (fun d => [1, d]) h
      · exact hb _ (fun d => [d, 1]) h
  · unfold Arr.atleast3d at h
    split at h
    · cases h; rfl
    · split at h
      · exact Arr.reshape_elems h
      · exact hb _ (fun d => [1, d, 1]) h
      · obtain ⟨d0, _, h⟩ := Res.bind_eq_ok h
        exact hb _ (fun d => [d0, d, 1]) h
      · cases h; rfl
  · cases h

theorem expandDims_elems (a r : Arr α) (axes : List Int) (h : a.expandDims axes = .ok r) : r.elems = a.elems := by
  unfold Arr.expandDims at h
  simp only at h
  split at h
  · cases h
  · obtain ⟨sh, _, h⟩ := Res.bind_eq_ok h
    exact Arr.reshape_elems h

theorem squeeze_elems (a r : Arr α) (axes : Option (List Int)) (h : a.squeeze axes = .ok r) :
    r.elems = a.elems := by
  unfold Arr.squeeze at h
  split at h
  · simp only at h
    split at h
    · cases h
    · split at h
      · cases h
      · obtain ⟨dims, _, h⟩ := Res.bind_eq_ok h
        split at h
        · cases h
        · obtain ⟨sh, _, h⟩ := Res.bind_eq_ok h
          exact Arr.reshape_elems h
  · exact Arr.reshape_elems h

/-- **atleast(n)** on a well-formed array, `n ≤ 3`: succeeds, elements kept, well formed, and (for rank ≥ 1) the rank
is raised to `max rank n`.  (Rank 0 with `n = 1` is returned unchanged: `atleast_1d` tests `!ndim >= 1`, a bitwise
NOT, so it never reshapes.) -/
theorem atleast_ok (a : Arr α) (n : Nat) (hwf : a.WF) (hn : n ≤ 3) :
    ∃ r, a.atleast n = .ok r ∧ r.elems = a.elems ∧ r.WF ∧ (1 ≤ a.ndim → r.ndim = max a.ndim n) := by
  obtain ⟨e, sh⟩ := a
  simp only [Arr.WF] at hwf
  have hn' : n = 0 ∨ n = 1 ∨ n = 2 ∨ n = 3 := by omega
  rcases hn' with rfl | rfl | rfl | rfl
  · exact ⟨_, rfl, rfl, hwf, fun _ => by simp⟩
  · exact ⟨_, rfl, rfl, hwf, fun h => by simp only [Arr.ndim] at h ⊢; omega⟩
  · match sh, hwf with
    | [], hwf => exact ⟨⟨e, [1, 1]⟩, by simp [Arr.atleast, Arr.atleast2d, Arr.ndim, Arr.reshape, Arr.new, hwf],
        rfl, by simpa [Arr.WF] using hwf, fun h => by simp [Arr.ndim] at h⟩
    | [d], hwf => exact ⟨⟨e, [1, d]⟩,
        by simp [Arr.atleast, Arr.atleast2d, Arr.ndim, Arr.reshape, Arr.new, Res.idx, hwf],
        rfl, by simpa [Arr.WF] using hwf, fun _ => by simp [Arr.ndim]⟩
    | d0 :: d1 :: rest, hwf => exact ⟨⟨e, d0 :: d1 :: rest⟩, by simp [Arr.atleast, Arr.atleast2d, Arr.ndim],
        rfl, hwf, fun _ => by simp only [Arr.ndim, List.length_cons]; omega⟩
  · match sh, hwf with
    | [], hwf => exact ⟨⟨e, [1, 1, 1]⟩, by simp [Arr.atleast, Arr.atleast3d, Arr.ndim, Arr.reshape, Arr.new, hwf],
        rfl, by simpa [Arr.WF] using hwf, fun h => by simp [Arr.ndim] at h⟩
    | [d], hwf => exact ⟨⟨e, [1, d, 1]⟩,
        by simp [Arr.atleast, Arr.atleast3d, Arr.ndim, Arr.reshape, Arr.new, Res.idx, hwf],
        rfl, by simpa [Arr.WF] using hwf, fun _ => by simp [Arr.ndim]⟩
    | [d0, d1], hwf => exact ⟨⟨e, [d0, d1, 1]⟩,
        by simp [Arr.atleast, Arr.atleast3d, Arr.ndim, Arr.reshape, Arr.new, Res.idx, hwf],
        rfl, by simpa [Arr.WF] using hwf, fun _ => by simp [Arr.ndim]⟩
    | d0 :: d1 :: d2 :: rest, hwf => exact ⟨⟨e, d0 :: d1 :: d2 :: rest⟩,
        by simp [Arr.atleast, Arr.atleast3d, Arr.ndim],
        rfl, hwf, fun _ => by simp only [Arr.ndim, List.length_cons]; omega⟩

/-- the shapes `atleast` produces, rank by rank: `[d] ↦ [1,d]` / `[1,d,1]`, `[d0,d1] ↦ [d0,d1,1]`, `[] ↦ [1,1]` / `[1,1,1]` -/
theorem atleast_shapes (e : List α) :
    (∀ d, d = e.length → (⟨e, [d]⟩ : Arr α).atleast 2 = .ok ⟨e, [1, d]⟩ ∧ (⟨e, [d]⟩ : Arr α).atleast 3 = .ok ⟨e, [1, d, 1]⟩) ∧
    (∀ d0 d1, d0 * d1 = e.length → (⟨e, [d0, d1]⟩ : Arr α).atleast 3 = .ok ⟨e, [d0, d1, 1]⟩) ∧
    (e.length = 1 → (⟨e, []⟩ : Arr α).atleast 2 = .ok ⟨e, [1, 1]⟩ ∧ (⟨e, []⟩ : Arr α).atleast 3 = .ok ⟨e, [1, 1, 1]⟩) := by
  refine ⟨fun d h => ⟨?_, ?_⟩, fun d0 d1 h => ?_, fun h => ⟨?_, ?_⟩⟩ <;>
    simp [Arr.atleast, Arr.atleast2d, Arr.atleast3d, Arr.ndim, Arr.reshape, Arr.new, Res.idx, h]

/-- a rank that is already high enough is left alone; `n > 3` is refused -/
theorem atleast_noop (a : Arr α) (n : Nat) (hn : n ≤ 3) (h : n ≤ a.ndim) : a.atleast n = .ok a := by
  have hn' : n = 0 ∨ n = 1 ∨ n = 2 ∨ n = 3 := by omega
  rcases hn' with rfl | rfl | rfl | rfl
  · rfl
  · rfl
  · simp only [Arr.atleast, Arr.atleast2d]; rw [if_pos h]
  · simp only [Arr.atleast, Arr.atleast3d]; rw [if_pos h]

theorem atleast_unsupported (a : Arr α) (n : Nat) (hn : 3 < n) : a.atleast n = .err .UnsupportedDimension := by
  match n, hn with
  | n + 4, _ => rfl

/-! ## 3. chains -/

/-- one reshaping step -/
inductive Step
  | reshape (s : List Nat)
  | ravel
  | atleast (n : Nat)
  | expand (axes : List Int)
  | squeeze (axes : Option (List Int))

/-- a step is the model's own operation -/
def Step.apply (a : Arr α) : Step → Res (Arr α)
  | .reshape s => a.reshape s
  | .ravel => .ok a.ravel
  | .atleast n => a.atleast n
  | .expand axes => a.expandDims axes
  | .squeeze axes => a.squeeze axes

/-- run a chain left to right; the first error / panic ends it -/
def run (a : Arr α) : List Step → Res (Arr α)
  | [] => .ok a
  | s :: rest => s.apply a >>= fun b => run b rest

theorem step_elems (a r : Arr α) (s : Step) (h : s.apply a = .ok r) : r.elems = a.elems := by
  cases s with
  | reshape s => exact Arr.reshape_elems h
  | ravel => cases h; rfl
  | atleast n => exact atleast_elems a r n h
  | expand axes => exact expandDims_elems a r axes h
  | squeeze axes => exact squeeze_elems a r axes h

/-- **any chain** of reshape / ravel / atleast / expand_dims / squeeze returns exactly the same elements in the
same flat order -/
theorem run_elems (steps : List Step) : ∀ (a r : Arr α), run a steps = .ok r → r.elems = a.elems := by
  induction steps with
  | nil => intro a r h; cases h; rfl
  | cons s rest ih =>
    intro a r h
    obtain ⟨b, hb, hr⟩ := Res.bind_eq_ok h
    rw [ih b r hr, step_elems a b s hb]

/-- **… so any sequence of them that ends in the original shape is the identity** -/
theorem run_identity (steps : List Step) (a r : Arr α) (h : run a steps = .ok r) (hs : r.shape = a.shape) : r = a := by
  have he := run_elems steps a r h
  cases r; cases a; simp only at he hs; rw [he, hs]

theorem step_wf (a r : Arr α) (s : Step) (hwf : a.WF) (h : s.apply a = .ok r) : r.WF := by
  have hshape : ∀ {a r : Arr α} {s : List Nat}, a.reshape s = .ok r → r.WF := Arr.reshape_wf
  cases s with
  | reshape s => exact Arr.reshape_wf h
  | ravel => cases h; exact (ravel_spec a).2.2
  | atleast n =>
    rcases Nat.lt_or_ge 3 n with hn | hn
    · rw [show Step.apply a (.atleast n) = a.atleast n from rfl, atleast_unsupported a n hn] at h; cases h
    · obtain ⟨r', h1, _, h3, _⟩ := atleast_ok a n hwf hn
      rw [show Step.apply a (.atleast n) = a.atleast n from rfl, h1] at h; cases h; exact h3
  | expand axes =>
    simp only [Step.apply, Arr.expandDims] at h
    split at h
    · cases h
    · obtain ⟨sh, _, h⟩ := Res.bind_eq_ok h
      exact Arr.reshape_wf h
  | squeeze axes =>
    simp only [Step.apply, Arr.squeeze] at h
    split at h
    · split at h
      · cases h
      · split at h
        · cases h
        · obtain ⟨dims, _, h⟩ := Res.bind_eq_ok h
          split at h
          · cases h
          · obtain ⟨sh, _, h⟩ := Res.bind_eq_ok h
            exact Arr.reshape_wf h
    · exact Arr.reshape_wf h

/-- chains keep the well-formedness invariant `len = ∏ shape` -/
theorem run_wf (steps : List Step) : ∀ (a r : Arr α), a.WF → run a steps = .ok r → r.WF := by
  induction steps with
  | nil => intro a r hwf h; cases h; exact hwf
  | cons s rest ih =>
    intro a r hwf h
    obtain ⟨b, hb, hr⟩ := Res.bind_eq_ok h
    exact ih b r (step_wf a b s hwf hb) hr

/-! ## 4. expand_dims -/

/-- the positions `expand_dims` inserts at: each request normalised against the *final* rank, sorted ascending -/
def expandPos (nd : Nat) (axes : List Int) : List Nat :=
  sortNat (axes.map (fun i => normalizeAxisDim nd i axes.length))

/-- negative requests count from the end of the result (rank `nd + n`), non-negative ones are taken as they are -/
theorem normalizeAxisDim_spec (nd n : Nat) (i : Int) :
    (0 ≤ i → (normalizeAxisDim nd i n : Int) = i) ∧
    (-((nd + n : Nat) : Int) ≤ i → i < 0 → (normalizeAxisDim nd i n : Int) = i + (nd + n : Nat)) := by
  unfold normalizeAxisDim
  constructor
  · intro h; rw [if_neg (by omega)]; omega
  · intro h1 h2
    rw [if_pos h2]
    simp only
    rw [if_neg (by omega)]
    omega

/-- **expand_dims, the accepted case** (`k`-th smallest request `≤ rank + k` — exactly what the code checks):
the elements are kept, the rank grows by the number of requests, the result has a `1` at every requested position,
and erasing the requested positions (largest first) gives back the old shape.  Repeated requests are allowed here. -/
theorem expandDims_spec (a : Arr α) (axes : List Int) (hwf : a.WF)
    (hpos : ∀ k (h : k < (expandPos a.ndim axes).length), (expandPos a.ndim axes)[k] ≤ a.ndim + k) :
    ∃ r, a.expandDims axes = .ok r ∧ r.elems = a.elems ∧ r.WF ∧ r.ndim = a.ndim + axes.length ∧
      (∀ i ∈ axes, r.shape[normalizeAxisDim a.ndim i axes.length]? = some 1) ∧
      (expandPos a.ndim axes).foldr (fun p s => s.eraseIdx p) r.shape = a.shape := by
  have hok : okPos a.ndim (expandPos a.ndim axes) := (okPos_iff _ _).2 hpos
  refine ⟨_, Arr.expandDims_ok a axes hwf hok, rfl, ?_, ?_, ?_, ?_⟩
  · simp only [Arr.WF, insertAll_prod]; exact hwf
  · have := insertAll_length _ _ hok
    simpa [expandPos, Arr.ndim, sortNat_length] using this
  · intro i hi
    exact insertAll_one_at _ _ (sortNat_sorted _) hok _ (mem_sortNat.2 (List.mem_map.2 ⟨i, hi, rfl⟩))
  · exact erase_insertAll _ _ hok

/-- **expand_dims with distinct positions inside the final rank** (the numpy contract) always succeeds, and the
result shape is the old shape with unit axes at exactly the requested positions: dropping the entries at the
requested indices gives the old shape back. -/
theorem expandDims_distinct (a : Arr α) (axes : List Int) (hwf : a.WF)
    (hnd : (axes.map (fun i => normalizeAxisDim a.ndim i axes.length)).Nodup)
    (hin : ∀ i ∈ axes, normalizeAxisDim a.ndim i axes.length < a.ndim + axes.length) :
    ∃ r, a.expandDims axes = .ok r ∧ r.elems = a.elems ∧ r.ndim = a.ndim + axes.length ∧
      (∀ i ∈ axes, r.shape[normalizeAxisDim a.ndim i axes.length]? = some 1) ∧
      dropIdx (fun p => decide (p ∈ axes.map (fun i => normalizeAxisDim a.ndim i axes.length))) r.shape = a.shape := by
  have hst := sortNat_strict hnd
  have hok : okPos a.ndim (expandPos a.ndim axes) := by
    apply okPos_of_strict_bounded _ _ hst
    intro p hp
    obtain ⟨i, hi, rfl⟩ := List.mem_map.1 (mem_sortNat.1 hp)
    simp only [sortNat_length, List.length_map]; exact hin i hi
  obtain ⟨r, h1, h2, _, h4, h5, h6⟩ := expandDims_spec a axes hwf ((okPos_iff _ _).1 hok)
  refine ⟨r, h1, h2, h4, h5, ?_⟩
  have hrev : (expandPos a.ndim axes).reverse.Pairwise (· > ·) := sortNat_reverse_desc hnd
  have := eraseAll_eq_dropIdx r.shape _ hrev
  rw [eraseAll, List.foldl_reverse] at this
  rw [← h6, this]
  apply dropIdx_congr
  intro p
  simp only [expandPos, List.mem_reverse, mem_sortNat]

/-- **a request beyond the result rank is an error, never a panic** -/
theorem expandDims_out_of_range (a : Arr α) (axes : List Int)
    (h : ∃ i ∈ axes, a.ndim + axes.length ≤ normalizeAxisDim a.ndim i axes.length) :
    a.expandDims axes = .err .AxisOutOfBounds := by
  apply Arr.expandDims_err
  intro hok
  obtain ⟨i, hi, hge⟩ := h
  have hm : normalizeAxisDim a.ndim i axes.length ∈ expandPos a.ndim axes :=
    mem_sortNat.2 (List.mem_map.2 ⟨i, hi, rfl⟩)
  obtain ⟨k, hk, hkv⟩ := List.mem_iff_getElem.1 hm
  have := (okPos_iff _ _).1 hok k hk
  have hl : (expandPos a.ndim axes).length = axes.length := by simp [expandPos, sortNat_length]
  change (expandPos a.ndim axes)[k] ≤ a.ndim + k at this
  omega

/-- `expand_dims` on a well-formed array never panics: it is the spec'd success or `AxisOutOfBounds` -/
theorem expandDims_total (a : Arr α) (axes : List Int) (hwf : a.WF) :
    (∃ r, a.expandDims axes = .ok r) ∨ a.expandDims axes = .err .AxisOutOfBounds := by
  by_cases hok : okPos a.ndim (expandPos a.ndim axes)
  · exact .inl ⟨_, Arr.expandDims_ok a axes hwf hok⟩
  · exact .inr (Arr.expandDims_err a axes hok)

/-! ## 5. squeeze -/

/-- **squeeze(None)** drops every unit axis and nothing else; always succeeds on a well-formed array -/
theorem squeeze_none_shape (a : Arr α) (hwf : a.WF) :
    a.squeeze none = .ok ⟨a.elems, a.shape.filter (fun d => d != 1)⟩ := by
  unfold Arr.squeeze
  exact Arr.reshape_of_prod hwf (prod_filter_ne_one _)

/-- **removing a named axis is allowed only when its length is one** (axes in range and named once each — the two
earlier checks of the code; see `squeeze_out_of_range`, `squeeze_repeated_axis`, and `squeeze_nonunit_is_error` for
the unconditional form) -/
theorem squeeze_rejects_nonunit (a : Arr α) (axes : List Int)
    (hin : ∀ i ∈ axes, normalizeAxis a.ndim i < a.ndim)
    (hnd : (axes.map (normalizeAxis a.ndim)).Nodup)
    (h : ∃ i ∈ axes, a.shape[normalizeAxis a.ndim i]? ≠ some 1) :
    a.squeeze (some axes) = .err .SqueezeShapeOfAxisMustBeOne := by
  apply Arr.squeeze_some_nonunit
  · intro x hx; obtain ⟨i, hi, rfl⟩ := List.mem_map.1 hx; exact hin i hi
  · exact hnd
  · obtain ⟨i, hi, hne⟩ := h; exact ⟨_, List.mem_map.2 ⟨i, hi, rfl⟩, hne⟩

/-- an axis named twice (also through two spellings, e.g. `0` and `-ndim`) is the error `MustBeUnique`, never a panic -/
theorem squeeze_repeated_axis (a : Arr α) (axes : List Int)
    (hin : ∀ i ∈ axes, normalizeAxis a.ndim i < a.ndim)
    (hnd : ¬ (axes.map (normalizeAxis a.ndim)).Nodup) :
    a.squeeze (some axes) = .err .MustBeUnique := by
  apply Arr.squeeze_some_repeated _ _ _ hnd
  intro x hx; obtain ⟨i, hi, rfl⟩ := List.mem_map.1 hx; exact hin i hi

/-- a named axis outside the rank is an error, never a panic -/
theorem squeeze_out_of_range (a : Arr α) (axes : List Int) (h : ∃ i ∈ axes, a.ndim ≤ normalizeAxis a.ndim i) :
    a.squeeze (some axes) = .err .AxisOutOfBounds := by
  apply Arr.squeeze_some_out_of_range
  obtain ⟨i, hi, hge⟩ := h; exact ⟨_, List.mem_map.2 ⟨i, hi, rfl⟩, hge⟩

/-- hence: whenever some named axis has a length other than one (or does not exist), `squeeze` is an error -/
theorem squeeze_nonunit_is_error (a : Arr α) (axes : List Int)
    (h : ∃ i ∈ axes, a.shape[normalizeAxis a.ndim i]? ≠ some 1) : ∃ e, a.squeeze (some axes) = .err e := by
  by_cases hout : ∃ i ∈ axes, a.ndim ≤ normalizeAxis a.ndim i
  · exact ⟨_, squeeze_out_of_range a axes hout⟩
  · have hin : ∀ i ∈ axes, normalizeAxis a.ndim i < a.ndim := by
      intro i hi
      rcases Nat.lt_or_ge (normalizeAxis a.ndim i) a.ndim with h | h
      · exact h
      · exact absurd ⟨i, hi, h⟩ hout
    by_cases hnd : (axes.map (normalizeAxis a.ndim)).Nodup
    · exact ⟨_, squeeze_rejects_nonunit a axes hin hnd h⟩
    · exact ⟨_, squeeze_repeated_axis a axes hin hnd⟩

/-- **squeeze(Some(axes))**, distinct axes all of length one: succeeds, elements kept, and the shape is the old shape
without the entries at the named indices (all ranks, any number of axes, any order, negative spellings) -/
theorem squeeze_named_ok (a : Arr α) (axes : List Int) (hwf : a.WF)
    (hnd : (axes.map (normalizeAxis a.ndim)).Nodup)
    (h1 : ∀ i ∈ axes, a.shape[normalizeAxis a.ndim i]? = some 1) :
    a.squeeze (some axes)
      = .ok ⟨a.elems, dropIdx (fun p => decide (p ∈ axes.map (normalizeAxis a.ndim))) a.shape⟩ := by
  rw [Arr.squeeze_some_ok a axes hwf hnd (fun x hx => by obtain ⟨i, hi, rfl⟩ := List.mem_map.1 hx; exact h1 i hi),
    eraseAll_eq_dropIdx _ _ (sortNat_reverse_desc hnd)]
  congr 2
  apply dropIdx_congr
  intro p
  simp only [List.mem_reverse, mem_sortNat]

/-- single named axis: the shape is the old shape with that one position erased -/
theorem squeeze_single (a : Arr α) (i : Int) (hwf : a.WF) (h1 : a.shape[normalizeAxis a.ndim i]? = some 1) :
    a.squeeze (some [i]) = .ok ⟨a.elems, a.shape.eraseIdx (normalizeAxis a.ndim i)⟩ := by
  rw [Arr.squeeze_some_ok a [i] hwf (by simp) (by simpa using h1)]
  simp [sortNat, eraseAll]

/-- `squeeze` on a well-formed array never panics (any axis list, repeated or out of range included) -/
theorem squeeze_total (a : Arr α) (axes : Option (List Int)) (hwf : a.WF) : a.squeeze axes ≠ .panic := by
  cases axes with
  | none => rw [squeeze_none_shape a hwf]; exact fun h => by cases h
  | some axes =>
    by_cases hout : ∃ i ∈ axes, a.ndim ≤ normalizeAxis a.ndim i
    · rw [squeeze_out_of_range a axes hout]; exact fun h => by cases h
    · have hin : ∀ i ∈ axes, normalizeAxis a.ndim i < a.ndim := by
        intro i hi
        rcases Nat.lt_or_ge (normalizeAxis a.ndim i) a.ndim with h | h
        · exact h
        · exact absurd ⟨i, hi, h⟩ hout
      by_cases hnd : (axes.map (normalizeAxis a.ndim)).Nodup
      · by_cases h1 : ∀ i ∈ axes, a.shape[normalizeAxis a.ndim i]? = some 1
        · rw [squeeze_named_ok a axes hwf hnd h1]; exact fun h => by cases h
        · have h1' : ∃ i ∈ axes, a.shape[normalizeAxis a.ndim i]? ≠ some 1 := by
            apply Classical.byContradiction; intro hc
            apply h1; intro i hi
            apply Classical.byContradiction; intro hne
            exact hc ⟨i, hi, hne⟩
          rw [squeeze_rejects_nonunit a axes hin hnd h1']; exact fun h => by cases h
      · rw [squeeze_repeated_axis a axes hin hnd]; exact fun h => by cases h

/-! ## 6. resize, cycle_take -/

/-- **resize fills the target shape by cycling through the source elements in order** -/
theorem resize_at (a : Arr α) (s : List Nat) (hne : a.elems ≠ []) :
    ∃ r, a.resize s = .ok r ∧ r.shape = s ∧ r.WF ∧
      ∀ i, i < s.prod → r.elems[i]? = a.elems[i % a.elems.length]? := by
  refine ⟨⟨cycleTake a.elems s.prod, s⟩, ?_, rfl, ?_, ?_⟩
  · unfold Arr.resize Arr.reshape
    exact Arr.new_of_prod (by simp [Arr.flat, cycleTake_length _ hne])
  · simp [Arr.WF, cycleTake_length _ hne]
  · intro i hi; exact cycleTake_getElem? _ hne _ _ hi

/-- resizing an empty source: only an empty target works (there is nothing to cycle through) -/
theorem resize_empty (a : Arr α) (s : List Nat) (he : a.elems = []) :
    (s.prod = 0 → a.resize s = .ok ⟨[], s⟩) ∧ (s.prod ≠ 0 → a.resize s = .err .ShapeMustMatchValuesLength) := by
  unfold Arr.resize Arr.reshape
  rw [he, cycleTake_nil]
  exact ⟨fun h => Arr.new_of_prod (by simpa [Arr.flat] using h), fun h => Arr.new_of_not_prod (by simpa [Arr.flat] using h)⟩

/-- `cycle_take(n)`: a flat array of length `n` whose `i`-th element is source element `i mod len` -/
theorem cycleTake_at (a : Arr α) (n : Nat) (hne : a.elems ≠ []) :
    (a.cycleTakeArr n).shape = [n] ∧ (a.cycleTakeArr n).WF ∧
      ∀ i, i < n → (a.cycleTakeArr n).elems[i]? = a.elems[i % a.elems.length]? := by
  refine ⟨by simp [Arr.cycleTakeArr, Arr.flat, cycleTake_length _ hne], by simp [Arr.cycleTakeArr, Arr.flat, Arr.WF], ?_⟩
  intro i hi; exact cycleTake_getElem? _ hne _ _ hi

/-! ## 7. create(ndmin) -/

/-- **create with ndmin** left-pads the shape with ones up to rank `ndmin`, keeps the elements; a count mismatch is
the error `ShapeMustMatchValuesLength` whatever `ndmin` is -/
theorem create_ndmin_spec (elems : List α) (shape : List Nat) (ndmin : Option Nat) :
    (shape.prod = elems.length →
      (shape.length < ndmin.getD 0 →
        Arr.create elems shape ndmin = .ok ⟨elems, List.replicate (ndmin.getD 0 - shape.length) 1 ++ shape⟩ ∧
        (List.replicate (ndmin.getD 0 - shape.length) 1 ++ shape).length = ndmin.getD 0) ∧
      (ndmin.getD 0 ≤ shape.length → Arr.create elems shape ndmin = .ok ⟨elems, shape⟩)) ∧
    (shape.prod ≠ elems.length → Arr.create elems shape ndmin = .err .ShapeMustMatchValuesLength) := by
  refine ⟨fun hp => ⟨fun hlt => ⟨?_, ?_⟩, fun hge => ?_⟩, fun hp => ?_⟩
  · unfold Arr.create
    simp only [gt_iff_lt, hlt, if_true, Arr.new_of_prod hp, Res.bind_ok]
    unfold Arr.reshape
    exact Arr.new_of_prod (by simp [List.prod_append, hp])
  · simp only [List.length_append, List.length_replicate]; omega
  · unfold Arr.create
    simp only [gt_iff_lt, Nat.not_lt.2 hge, if_false, Arr.new_of_prod hp]
  · unfold Arr.create
    simp only [Arr.new_of_not_prod hp, Res.bind_err, ite_self]

/-! ## non-vacuity -/

example : (⟨[1, 2, 3, 4, 5, 6], [2, 3]⟩ : Arr Nat).reshape [3, 2] = .ok ⟨[1, 2, 3, 4, 5, 6], [3, 2]⟩ := by decide
example : (⟨[1, 2, 3, 4, 5, 6], [2, 3]⟩ : Arr Nat).reshape [4, 2] = .err .ShapeMustMatchValuesLength := by decide
example : (⟨[1, 2, 3], [3]⟩ : Arr Nat).atleast 3 = .ok ⟨[1, 2, 3], [1, 3, 1]⟩ := by decide
example : (⟨[1, 2, 3], [3]⟩ : Arr Nat).atleast 4 = .err .UnsupportedDimension := by decide
example : (⟨[1, 2, 3], [1, 3, 1]⟩ : Arr Nat).squeeze none = .ok ⟨[1, 2, 3], [3]⟩ := by decide
example : (⟨[1, 2, 3], [3]⟩ : Arr Nat).resize [2, 4] = .ok ⟨[1, 2, 3, 1, 2, 3, 1, 2], [2, 4]⟩ := by decide
example : Arr.create [1, 2, 3, 4] [2, 2] (some 4) = .ok (⟨[1, 2, 3, 4], [1, 1, 2, 2]⟩ : Arr Nat) := by decide
/-- a chain that ends in the original shape: reshape, ravel, atleast, squeeze(None), reshape back -/
example : run (⟨[1, 2, 3, 4, 5, 6], [2, 3]⟩ : Arr Nat)
    [.reshape [3, 2], .ravel, .atleast 3, .squeeze none, .reshape [2, 3]] = .ok ⟨[1, 2, 3, 4, 5, 6], [2, 3]⟩ := by decide
/-- the hypotheses of `expandDims_distinct` are satisfiable: `expand_dims([0, -1])` on shape `[2]` gives `[1, 2, 1]` -/
example : ∃ r, (⟨[7, 8], [2]⟩ : Arr Nat).expandDims [0, -1] = .ok r ∧ r.elems = [7, 8] ∧ r.ndim = 3 ∧
    r.shape[0]? = some 1 ∧ r.shape[2]? = some 1 ∧ dropIdx (fun p => decide (p ∈ [0, 2])) r.shape = [2] := by
  obtain ⟨r, h1, h2, h3, h4, h5⟩ := expandDims_distinct (⟨[7, 8], [2]⟩ : Arr Nat) [0, -1] (by decide)
    (by decide) (by decide)
  have h40 := h4 0 (by simp)
  have h41 := h4 (-1) (by simp)
  exact ⟨r, h1, h2, h3, h40, h41, h5⟩
/-- the hypotheses of `squeeze_named_ok` are satisfiable: squeezing axes `-1, 0` of `[1, 3, 1]` gives `[3]` -/
example : (⟨[1, 2, 3], [1, 3, 1]⟩ : Arr Nat).squeeze (some [-1, 0]) = .ok ⟨[1, 2, 3], [3]⟩ :=
  squeeze_named_ok (⟨[1, 2, 3], [1, 3, 1]⟩ : Arr Nat) [-1, 0] (by decide) (by decide) (by decide)
example : (⟨[1, 2, 3], [1, 3, 1]⟩ : Arr Nat).squeeze (some [1]) = .err .SqueezeShapeOfAxisMustBeOne :=
  squeeze_rejects_nonunit _ [1] (by decide) (by decide) (by decide)
/-- one axis under two spellings -/
example : (⟨[5], [1]⟩ : Arr Nat).squeeze (some [0, -1]) = .err .MustBeUnique :=
  squeeze_repeated_axis _ [0, -1] (by decide) (by decide)
example : (⟨[1, 2, 3], [1, 3, 1]⟩ : Arr Nat).squeeze (some [3]) = .err .AxisOutOfBounds :=
  squeeze_out_of_range _ [3] (by decide)
example : (⟨[7, 8], [2]⟩ : Arr Nat).expandDims [3] = .err .AxisOutOfBounds :=
  expandDims_out_of_range _ [3] (by decide)

/-! ## The same properties for the code as TRANSLATED FROM THE SOURCE

`ArrModel.Gen.Core.Array_reshape`, `Array_ravel`, `Array_atleast`, `Array_resize`, `Array_create` are regenerated from
`src/core/operations/manipulate.rs` / `create.rs` by `tools/rs2lean.py` on every run; `ArrProofs/Lemmas/GenCore.lean` proves
them equal to the hand-written model for all inputs, so the theorems above transfer. -/

open ArrModel.Gen.Core in
/-- **reshape (translated source)** succeeds exactly when the element count matches, and then re-wraps the very same element list -/
theorem gen_reshape_ok_iff (a : Arr α) (s : List Nat) (r : Arr α) :
    Array_reshape a s = .ok r ↔ s.prod = a.elems.length ∧ r = ⟨a.elems, s⟩ := by
  rw [reshape_eq]; exact reshape_ok_iff a s r

open ArrModel.Gen.Core in
theorem gen_reshape_err (a : Arr α) (s : List Nat) (h : s.prod ≠ a.elems.length) :
    Array_reshape a s = .err .ShapeMustMatchValuesLength := by
  rw [reshape_eq]; exact reshape_err a s h

open ArrModel.Gen.Core in
/-- **ravel (translated source)** always succeeds, keeps the elements, the shape is `[len]`, the result is well formed -/
theorem gen_ravel_spec (a : Arr α) :
    ∃ r, Array_ravel a = .ok r ∧ r.elems = a.elems ∧ r.shape = [a.elems.length] ∧ r.WF :=
  ⟨a.ravel, ravel_eq a, (ravel_spec a).1, (ravel_spec a).2.1, (ravel_spec a).2.2⟩

open ArrModel.Gen.Core in
/-- **atleast (translated source)** keeps the element list; (rank below `usize::MAX`, where `!ndim >= 1` holds) -/
theorem gen_atleast_elems (a r : Arr α) (n : Nat) (hr : a.ndim < Rs.USIZE - 1) (h : Array_atleast a n = .ok r) :
    r.elems = a.elems := by
  rw [atleast_eq a n hr] at h; exact atleast_elems a r n h

open ArrModel.Gen.Core in
theorem gen_atleast_ok (a : Arr α) (n : Nat) (hr : a.ndim < Rs.USIZE - 1) (hwf : a.WF) (hn : n ≤ 3) :
    ∃ r, Array_atleast a n = .ok r ∧ r.elems = a.elems ∧ r.WF ∧ (1 ≤ a.ndim → r.ndim = max a.ndim n) := by
  rw [atleast_eq a n hr]; exact atleast_ok a n hwf hn

open ArrModel.Gen.Core in
theorem gen_atleast_unsupported (a : Arr α) (n : Nat) (hr : a.ndim < Rs.USIZE - 1) (hn : 3 < n) :
    Array_atleast a n = .err .UnsupportedDimension := by
  rw [atleast_eq a n hr]; exact atleast_unsupported a n hn

open ArrModel.Gen.Core in
/-- **resize (translated source) fills the target shape by cycling through the source elements in order** -/
theorem gen_resize_at (a : Arr α) (s : List Nat) (hne : a.elems ≠ []) :
    ∃ r, Array_resize a s = .ok r ∧ r.shape = s ∧ r.WF ∧
      ∀ i, i < s.prod → r.elems[i]? = a.elems[i % a.elems.length]? := by
  rw [resize_eq]; exact resize_at a s hne

open ArrModel.Gen.Core in
theorem gen_resize_empty (a : Arr α) (s : List Nat) (he : a.elems = []) :
    (s.prod = 0 → Array_resize a s = .ok ⟨[], s⟩) ∧ (s.prod ≠ 0 → Array_resize a s = .err .ShapeMustMatchValuesLength) := by
  rw [resize_eq]; exact resize_empty a s he

open ArrModel.Gen.Core in
/-- **create with ndmin (translated source)** is the modelled `create`: left-pads the shape with ones, keeps the elements -/
theorem gen_create_eq (elems : List α) (shape : List Nat) (ndmin : Option Nat) :
    Array_create elems shape ndmin = Arr.create elems shape ndmin := create_eq elems shape ndmin

example : ArrModel.Gen.Core.Array_reshape (⟨[1, 2, 3, 4, 5, 6], [2, 3]⟩ : Arr Nat) [3, 2] = .ok ⟨[1, 2, 3, 4, 5, 6], [3, 2]⟩ := by decide
example : ArrModel.Gen.Core.Array_resize (⟨[1, 2, 3], [3]⟩ : Arr Nat) [2, 4] = .ok ⟨[1, 2, 3, 1, 2, 3, 1, 2], [2, 4]⟩ := by decide
example : ArrModel.Gen.Core.Array_atleast (⟨[1, 2, 3], [3]⟩ : Arr Nat) 3 = .ok ⟨[1, 2, 3], [1, 3, 1]⟩ := by decide

/-! ### `expand_dims`, `squeeze` as translated from `src/core/operations/axis.rs` (phase 2) -/

open ArrModel.Gen.Core in
/-- **expand_dims (translated source)** keeps the element list (through the equivalence up to the error variant) -/
theorem gen_expand_dims_elems (a r : Arr α) (axes : List Int) (h : Array_expand_dims a axes = .ok r) : r.elems = a.elems :=
  expandDims_elems a r axes (Res.sameClass_ok_left (h ▸ expand_dims_sim a axes))

open ArrModel.Gen.Core in
/-- … and on a well-formed array is the spec'd success or an error, never a panic -/
theorem gen_expand_dims_total (a : Arr α) (axes : List Int) (hwf : a.WF) :
    (∃ r, Array_expand_dims a axes = .ok r) ∨ ∃ e, Array_expand_dims a axes = .err e := by
  rcases expandDims_total a axes hwf with ⟨r, hr⟩ | he
  · exact .inl ⟨r, Res.sameClass_ok_right (hr ▸ expand_dims_sim a axes)⟩
  · exact .inr (Res.sameClass_err_right (he ▸ expand_dims_sim a axes))

open ArrModel.Gen.Core in
/-- **squeeze (translated source)** keeps the element list -/
theorem gen_squeeze_elems (a r : Arr α) (axes : Option (List Int)) (h : Array_squeeze a axes = .ok r) : r.elems = a.elems :=
  squeeze_elems a r axes (Res.sameClass_ok_left (h ▸ squeeze_sim a axes))

open ArrModel.Gen.Core in
theorem gen_squeeze_none_shape (a : Arr α) (hwf : a.WF) :
    Array_squeeze a none = .ok ⟨a.elems, a.shape.filter (fun d => d != 1)⟩ :=
  Res.sameClass_ok_right (squeeze_none_shape a hwf ▸ squeeze_sim a none)

open ArrModel.Gen.Core in
theorem gen_squeeze_total (a : Arr α) (axes : Option (List Int)) (hwf : a.WF) : Array_squeeze a axes ≠ .panic :=
  Res.sameClass_not_panic (squeeze_sim a axes) (squeeze_total a axes hwf)

example : ArrModel.Gen.Core.Array_squeeze (⟨[1, 2, 3], [1, 3, 1]⟩ : Arr Nat) none = .ok ⟨[1, 2, 3], [3]⟩ := by decide

end ArrModel.C07
