import ArrModel.Manip
namespace ArrModel.C07
end ArrModel.C07
