import ArrProofs.Lemmas.C13Repeat
/-!
# C13 — delete, insert, append and repeat change exactly the addressed positions

Property theorems only (helper lemmas in `ArrProofs/Lemmas/C13*.lean`).
Model under test: `ArrModel/C13.lean` (`deleteFlat`, `delete`, `insertFlat`, `appendFlat`, `repeatFlat`, `repeatAxis`,
`trimZeros`; `manipulate.rs:238-341, 382-393`, `tiling.rs`), with `applyAlongAxis` (`ArrModel/AlongAxis.lean`),
`broadcastTo` / `broadcastH2` (`ArrModel/Broadcast.lean`), `split` / `moveaxis`.

Specification vocabulary
* `keptIdx n idxs` — the positions `0 … n-1` that are NOT requested, ascending (`(List.range n).filter (· ∉ idxs)`).
* `laneOf`, `a.get? c`, `inRange` — as in C08 / C02.
* `bc1 L n` — a vector stretched to length `n` (itself, or its single entry `n` times).
* `expandIdx R` — the run-length expansion of the indices `0 … R.length-1` with counts `R`: index `i` emitted `R[i]`
  consecutive times (`((List.range R.length).zip R).flatMap (fun p => List.replicate p.2 p.1)`; `expandIdx_spec`).
* `sortByIdx` (model) — the stable sort of the (index, value) pairs the code performs; characterised by `sortByIdx_spec`.
-/
namespace ArrModel.C13
open ArrModel Arr
variable {α : Type}

/-! ## 1. flat delete -/

/-- **flat delete removes exactly the requested positions**, whatever the order or repetition of the request: when
every requested index is inside the array the call succeeds and the result is the flat array of the elements whose
POSITION is not requested, in their original order; when some index is outside, the answer is `Err(OutOfBounds)`.
These two cases are exhaustive, so the call never panics. -/
theorem deleteFlat_spec (a : Arr α) (idxs : List Nat) :
    ((∀ i ∈ idxs, i < a.elems.length) →
      a.deleteFlat idxs = .ok (Arr.flat ((a.elems.zipIdx.filter (fun p => decide (p.2 ∉ idxs))).map (·.1)))) ∧
    ((∃ i ∈ idxs, a.elems.length ≤ i) → a.deleteFlat idxs = .err .OutOfBounds) :=
  ⟨Arr.deleteFlat_ok a idxs, Arr.deleteFlat_err a idxs⟩

/-- the same result position by position: element `j` of the result is the element at the `j`-th non-requested
position, and the length drops by the number of DISTINCT requested positions -/
theorem deleteFlat_at (a : Arr α) (idxs : List Nat) (h : ∀ i ∈ idxs, i < a.elems.length) :
    ∃ r, a.deleteFlat idxs = .ok r ∧ r.shape = [r.elems.length] ∧
      r.elems.length + ((List.range a.elems.length).filter (fun i => decide (i ∈ idxs))).length = a.elems.length ∧
      r.elems.length = (keptIdx a.elems.length idxs).length ∧
      ∀ j : Nat, r.elems[j]? = (keptIdx a.elems.length idxs)[j]?.bind (fun i => a.elems[i]?) :=
  ⟨_, Arr.deleteFlat_ok a idxs h, rfl, keepPositions_length _ _, keepPositions_length' _ _,
    fun j => keepPositions_getElem? _ _ j⟩

/-- **order and repetition of the request are irrelevant**: two requests naming the same set of positions give the
same answer (result or error) -/
theorem deleteFlat_request_set (a : Arr α) (idxs idxs' : List Nat) (h : ∀ i, i ∈ idxs ↔ i ∈ idxs') :
    a.deleteFlat idxs = a.deleteFlat idxs' := by
  by_cases hb : ∀ i ∈ idxs, i < a.elems.length
  · rw [Arr.deleteFlat_ok a idxs hb, Arr.deleteFlat_ok a idxs' (fun i hi => hb i ((h i).2 hi))]
    have : (fun (p : α × Nat) => decide (p.2 ∉ idxs)) = (fun p => decide (p.2 ∉ idxs')) := by funext p; simp [h]
    unfold keepPositions; rw [this]
  · have : ∃ i ∈ idxs, a.elems.length ≤ i := by
      apply Classical.byContradiction; intro hn; apply hb; intro i hi
      apply Classical.byContradiction; intro hlt; exact hn ⟨i, hi, by omega⟩
    rw [Arr.deleteFlat_err a idxs this]
    obtain ⟨i, hi, hle⟩ := this
    rw [Arr.deleteFlat_err a idxs' ⟨i, (h i).1 hi, hle⟩]

/-- with no axis `delete` is the flat delete -/
theorem delete_none (a : Arr α) (zero : α) (idxs : List Nat) : a.delete zero idxs none = a.deleteFlat idxs := rfl

/-! ## 2. delete along an axis -/

/-- **delete along an axis removes exactly those positions from every lane**: for a well-formed array without a
zero-length axis, an axis inside the rank and requested indices inside the axis (any order, any repetition), the call
succeeds; the axis shrinks to the number of non-requested positions, every other axis is kept, and the element at
coordinate `c` of the result is the element of `a` at `c` with the axis coordinate replaced by the `c[axis]`-th
non-requested position (so every untouched element sits at its shifted coordinate, in order). -/
theorem delete_axis_spec (a : Arr α) (zero : α) (idxs : List Nat) (axis : Nat)
    (hwf : a.WF) (hax : axis < a.ndim) (hnz : 0 ∉ a.shape) (hb : ∀ i ∈ idxs, i < a.shape.getD axis 0) :
    ∃ r, a.delete zero idxs (some axis) = .ok r ∧
      r.shape = a.shape.set axis (keptIdx (a.shape.getD axis 0) idxs).length ∧ r.WF ∧
      ∀ c, inRange r.shape c = true →
        ∃ k, (keptIdx (a.shape.getD axis 0) idxs)[c.getD axis 0]? = some k ∧ r.get? c = a.get? (c.set axis k) :=
  Arr.delete_axis_ok a zero idxs axis hwf hax hnz hb

/-- the kept positions: ascending, exactly the non-requested ones, and their number is the axis length minus the
number of distinct requested positions -/
theorem keptIdx_spec (n : Nat) (idxs : List Nat) :
    (keptIdx n idxs).Pairwise (· < ·) ∧ (∀ k, k ∈ keptIdx n idxs ↔ k < n ∧ k ∉ idxs) ∧
    (keptIdx n idxs).length + ((List.range n).filter (fun i => decide (i ∈ idxs))).length = n := by
  refine ⟨?_, fun k => by simp [keptIdx], keptIdx_length n idxs⟩
  unfold keptIdx
  exact (List.pairwise_lt_range (n := n)).filter _

/-- **delete along an axis equals the flat delete on every lane** (the form the code has) -/
theorem delete_axis_lanes (a : Arr α) (zero : α) (idxs : List Nat) (axis : Nat)
    (hwf : a.WF) (hax : axis < a.ndim) (hnz : 0 ∉ a.shape) (hb : ∀ i ∈ idxs, i < a.shape.getD axis 0) :
    ∃ r, a.delete zero idxs (some axis) = .ok r ∧
      ∀ c, inRange r.shape c = true →
        ∃ y, (Arr.flat (laneOf a axis c)).deleteFlat idxs = .ok y ∧ r.get? c = y.elems[c.getD axis 0]? := by
  obtain ⟨r, h1, _, _, h4⟩ := applyAlongAxis_spec a zero zero axis (keptIdx (a.shape.getD axis 0) idxs).length
    (fun lane => lane.deleteFlat idxs) hwf hax hnz
    (fun lane hl => ⟨_, Arr.deleteFlat_ok (Arr.flat lane) idxs
        (by intro i hi; show i < lane.length; rw [hl]; exact hb i hi), by
      show (keepPositions lane idxs).length = _
      rw [keepPositions_length', hl]⟩)
  exact ⟨r, h1, h4⟩

/-- **rejections along an axis**: an index beyond the axis length gives `Err(OutOfBounds)`, an axis outside the rank
`Err(AxisOutOfBounds)` — no panic, no data -/
theorem delete_axis_rejects (a : Arr α) (zero : α) (idxs : List Nat) (axis : Nat) :
    (a.WF → axis < a.ndim → 0 ∉ a.shape → (∃ i ∈ idxs, a.shape.getD axis 0 ≤ i) →
      a.delete zero idxs (some axis) = .err .OutOfBounds) ∧
    (a.ndim ≤ axis → a.delete zero idxs (some axis) = .err .AxisOutOfBounds) :=
  ⟨fun hwf hax hnz hb => Arr.delete_axis_oob a zero idxs axis hwf hax hnz hb,
   fun h => applyAlongAxis_axis_err a zero zero axis _ h⟩

/-! ## 3. flat insert -/

/-- **the pair order the code inserts in**: a permutation of the request, ascending in the index, and pairs carrying
the same index keep their request order (stable) -/
theorem sortByIdx_spec (l : List (Nat × α)) :
    (sortByIdx l).Perm l ∧ (sortByIdx l).Pairwise (fun p q => p.1 ≤ q.1) ∧
    ∀ i, (sortByIdx l).filter (fun p => p.1 == i) = l.filter (fun p => p.1 == i) :=
  ⟨sortByIdx_perm l, sortByIdx_sorted l, sortByIdx_stable l⟩

/-- **flat insert, pairwise case** (`k ≥ 1` indices, `k` values in a 1-D array): positions refer to the OLD flattened
array.  With every index `≤ len` the call succeeds with a flat array of `len + k` elements; with
`S = sortByIdx (idxs.zip values)` (see `sortByIdx_spec`) the `j`-th pair of `S` lands at position `S[j].index + j` and
holds `S[j].value`; and removing exactly the `k` landing positions gives back the old elements in their old order. -/
theorem insertFlat_spec (a : Arr α) (idxs : List Nat) (values : Arr α)
    (hv : values.ndim = 1) (ha : 1 ≤ a.ndim) (hk : 0 < idxs.length) (hlen : values.elems.length = idxs.length)
    (hb : ∀ i ∈ idxs, i ≤ a.elems.length) :
    ∃ r, a.insertFlat idxs values = .ok r ∧ r.shape = [a.elems.length + idxs.length] ∧
      r.elems.length = a.elems.length + idxs.length ∧
      (∀ j (hj : j < (sortByIdx (idxs.zip values.elems)).length),
        r.elems[(sortByIdx (idxs.zip values.elems))[j].1 + j]? = some (sortByIdx (idxs.zip values.elems))[j].2) ∧
      (r.elems.zipIdx.filter (fun p => decide (p.2 ∉
          (sortByIdx (idxs.zip values.elems)).zipIdx.map (fun q => q.1.1 + q.2)))).map (·.1) = a.elems := by
  have hok := Arr.insertFlat_ok a idxs values hv ha hk (by omega) (.inl hlen.symm) hb
  rw [hlen, Nat.max_self, bc1_same, ← hlen, bc1_same] at hok
  have hS : ∀ p ∈ sortByIdx (idxs.zip values.elems), p.1 ≤ a.elems.length := fun p hp =>
    hb _ (List.of_mem_zip ((sortByIdx_perm _).mem_iff.1 hp)).1
  obtain ⟨h1, h2, h3, _⟩ := insertAllAt_spec a.elems _ (sortByIdx_sorted (idxs.zip values.elems)) hS
  have hSl : (sortByIdx (idxs.zip values.elems)).length = idxs.length := by
    rw [sortByIdx_length, List.length_zip, hlen, Nat.min_self]
  refine ⟨_, hok, ?_, ?_, h2, h3⟩
  · show [(insertAllAt _ _).length] = _; rw [h1, hSl]
  · show (insertAllAt _ _).length = _; rw [h1, hSl]

/-- **deleting what was just inserted restores the original**: the flat delete of the landing positions from the
result of the (pairwise) flat insert is the flattened original -/
theorem delete_insert_id (a : Arr α) (idxs : List Nat) (values : Arr α)
    (hv : values.ndim = 1) (ha : 1 ≤ a.ndim) (hk : 0 < idxs.length) (hlen : values.elems.length = idxs.length)
    (hb : ∀ i ∈ idxs, i ≤ a.elems.length) :
    (a.insertFlat idxs values >>= fun r =>
      r.deleteFlat ((sortByIdx (idxs.zip values.elems)).zipIdx.map (fun q => q.1.1 + q.2))) = .ok (Arr.flat a.elems) := by
  have hok := Arr.insertFlat_ok a idxs values hv ha hk (by omega) (.inl hlen.symm) hb
  rw [hlen, Nat.max_self, bc1_same, ← hlen, bc1_same] at hok
  have hS : ∀ p ∈ sortByIdx (idxs.zip values.elems), p.1 ≤ a.elems.length := fun p hp =>
    hb _ (List.of_mem_zip ((sortByIdx_perm _).mem_iff.1 hp)).1
  rw [hok, Res.bind_ok]
  exact (insertAllAt_spec a.elems _ (sortByIdx_sorted (idxs.zip values.elems)) hS).2.2.2

/-- **several values at one position** (the index broadcasts): they go in as one block, in request order, in front of
the old element at that position -/
theorem insertFlat_one_index (a : Arr α) (i : Nat) (values : Arr α)
    (hv : values.ndim = 1) (ha : 1 ≤ a.ndim) (hm : 0 < values.elems.length) (hb : i ≤ a.elems.length) :
    a.insertFlat [i] values = .ok (Arr.flat (a.elems.take i ++ values.elems ++ a.elems.drop i)) := by
  have hok := Arr.insertFlat_ok a [i] values hv ha (by simp) hm (.inr (.inl rfl)) (by simpa using hb)
  have hmax : max [i].length values.elems.length = values.elems.length := by simp; omega
  rw [hmax, bc1_same, bc1_single, zip_replicate_left, sortByIdx_of_sorted, insertAllAt_same_index _ _ hb] at hok
  · exact hok
  · rw [List.pairwise_map]; exact List.pairwise_of_forall_mem_list (fun _ _ _ _ => Nat.le_refl _)

/-- **one value at several positions** (the value broadcasts): exactly the pairwise statement with the value repeated -/
theorem insertFlat_one_value (a : Arr α) (idxs : List Nat) (v : α) (values : Arr α) (hve : values.elems = [v])
    (hv : values.ndim = 1) (ha : 1 ≤ a.ndim) (hk : 0 < idxs.length) (hb : ∀ i ∈ idxs, i ≤ a.elems.length) :
    a.insertFlat idxs values = a.insertFlat idxs (Arr.flat (List.replicate idxs.length v)) := by
  have h1 := Arr.insertFlat_ok a idxs values hv ha hk (by simp [hve]) (.inr (.inr (by simp [hve]))) hb
  have h2 := Arr.insertFlat_ok a idxs (Arr.flat (List.replicate idxs.length v)) rfl ha hk
    (by simpa [Arr.flat] using hk) (.inl (by simp [Arr.flat])) hb
  have hmax : max idxs.length [v].length = idxs.length := by simp; omega
  rw [h1, h2, hve, hmax, bc1_same, bc1_single]
  simp only [Arr.flat, List.length_replicate, Nat.max_self, bc1_same]
  rw [show bc1 (List.replicate idxs.length v) idxs.length = List.replicate idxs.length v from by
    simpa using bc1_same (List.replicate idxs.length v)]

/-- **rejections of flat insert** (exhaustive together with the three success cases above for a 1-D value array, so
the call never panics there): an index beyond `len` gives `Err(OutOfBounds)`; otherwise a value array that is not 1-D
(or a rank-0 receiver) gives `Err(UnsupportedDimension)`; otherwise index and value counts that are neither equal nor
one of them 1 (or zero) give `Err(BroadcastShapeMismatch)`. -/
theorem insertFlat_rejects (a : Arr α) (idxs : List Nat) (values : Arr α) :
    ((∃ i ∈ idxs, a.elems.length < i) → a.insertFlat idxs values = .err .OutOfBounds) ∧
    ((∀ i ∈ idxs, i ≤ a.elems.length) → (values.ndim ≠ 1 ∨ a.ndim = 0) →
      a.insertFlat idxs values = .err .UnsupportedDimension) ∧
    ((∀ i ∈ idxs, i ≤ a.elems.length) → values.ndim = 1 → 1 ≤ a.ndim →
      (idxs.length = 0 ∨ values.elems.length = 0 ∨
        (idxs.length ≠ values.elems.length ∧ idxs.length ≠ 1 ∧ values.elems.length ≠ 1)) →
      a.insertFlat idxs values = .err .BroadcastShapeMismatch) :=
  ⟨Arr.insertFlat_oob a idxs values, Arr.insertFlat_dim a idxs values, Arr.insertFlat_mismatch a idxs values⟩

/-! ## 4. flat append -/

/-- **append puts the new elements exactly at the end**: the result is the flat array of the old elements followed
by the new ones; the first `len` positions are unchanged and position `len + j` holds the `j`-th new element -/
theorem appendFlat_spec (a v : Arr α) :
    (a.appendFlat v).elems = a.elems ++ v.elems ∧ (a.appendFlat v).shape = [a.elems.length + v.elems.length] ∧
    (a.appendFlat v).WF ∧
    (∀ i, i < a.elems.length → (a.appendFlat v).elems[i]? = a.elems[i]?) ∧
    (∀ j, (a.appendFlat v).elems[a.elems.length + j]? = v.elems[j]?) := by
  refine ⟨rfl, by simp [Arr.appendFlat, Arr.flat], by simp [Arr.appendFlat, Arr.flat, Arr.WF], ?_, ?_⟩
  · intro i hi; show (a.elems ++ v.elems)[i]? = _; rw [List.getElem?_append_left hi]
  · intro j; show (a.elems ++ v.elems)[_]? = _
    rw [List.getElem?_append_right (by omega)]; congr 1; omega

/-- deleting the appended tail restores the (flattened) original -/
theorem delete_append_id (a v : Arr α) :
    (a.appendFlat v).deleteFlat ((List.range v.elems.length).map (a.elems.length + ·)) = .ok (Arr.flat a.elems) := by
  rw [Arr.deleteFlat_ok]
  · congr 2
    show keepPositions (a.elems ++ v.elems) _ = a.elems
    unfold keepPositions
    rw [List.zipIdx_append, List.filter_append, List.map_append]
    have h1 : (a.elems.zipIdx.filter (fun p => decide (p.2 ∉ (List.range v.elems.length).map (a.elems.length + ·)))) = a.elems.zipIdx := by
      rw [List.filter_eq_self]
      intro p hp
      have := (List.mem_zipIdx hp).2.1
      simp at this ⊢; intro x _; omega
    have h2 : ((v.elems.zipIdx (0 + a.elems.length)).filter (fun p => decide (p.2 ∉ (List.range v.elems.length).map (a.elems.length + ·)))) = [] := by
      rw [List.filter_eq_nil_iff]
      intro p hp
      have := List.mem_zipIdx hp
      simp at this ⊢
      exact ⟨p.2 - a.elems.length, by omega, by omega⟩
    rw [h1, h2]; simp
  · intro i hi
    obtain ⟨j, hj, rfl⟩ := List.mem_map.1 hi
    have : j < v.elems.length := by simpa using hj
    show _ < (a.elems ++ v.elems).length
    rw [List.length_append]; omega

/-! ## 5. repeat -/

/-- **flat repeat with one count**: every element of the flattened array is emitted `c` consecutive times (any rank;
the last axis must not be empty — then the call is refused) -/
theorem repeatFlat_spec (a : Arr α) (c : Nat) (hwf : a.WF) :
    (a.shape.getLast? ≠ some 0 → a.repeatFlat [c] = .ok (Arr.flat (a.elems.flatMap (List.replicate c)))) ∧
    (a.shape.getLast? = some 0 → a.repeatFlat [c] = .err .BroadcastShapeMismatch) :=
  ⟨repeatFlat_single a c hwf, repeatFlat_single_reject a c⟩

/-- **flat repeat with one count per element** (1-D array of `n ≥ 1` elements, `n` counts, zeros allowed): element `i`
is emitted `repeats[i]` consecutive times; the result has `Σ repeats` elements -/
theorem repeatFlat_counts_spec (a : Arr α) (repeats : List Nat) (n : Nat) (hwf : a.WF) (hs : a.shape = [n]) (hn : 0 < n)
    (hr : repeats.length = n) :
    ∃ r, a.repeatFlat repeats = .ok r ∧
      r.elems = (a.elems.zip repeats).flatMap (fun p => List.replicate p.2 p.1) ∧
      r.shape = [repeats.sum] ∧ r.elems.length = repeats.sum ∧
      ∀ j : Nat, r.elems[j]? = (expandIdx repeats)[j]?.bind (fun i => a.elems[i]?) := by
  have hlen : a.elems.length = n := by rw [hwf, hs]; simp
  have hl : ((a.elems.zip repeats).flatMap (fun p => List.replicate p.2 p.1)).length = repeats.sum :=
    zip_flatMap_replicate_length _ _ (by omega)
  refine ⟨_, repeatFlat_1d a repeats n hs hn hr, rfl, ?_, hl, ?_⟩
  · show [List.length _] = _; rw [hl]
  · intro j
    show ((a.elems.zip repeats).flatMap (fun p => List.replicate p.2 p.1))[j]? = _
    cases he : a.elems with
    | nil => rw [he] at hlen; simp at hlen; omega
    | cons d ds =>
      rw [← he, zip_flatMap_replicate_eq d a.elems repeats (by omega), List.getElem?_map]
      cases hj : (expandIdx repeats)[j]? with
      | none => rfl
      | some i =>
        have hi : i < repeats.length := expandIdx_lt repeats i (List.mem_of_getElem? hj)
        simp [List.getD_eq_getElem?_getD, List.getElem?_eq_getElem (show i < a.elems.length by omega)]

/-- the run-length expansion is determined by: ascending, and index `i` occurs exactly `R[i]` times — i.e. every
index is emitted `R[i]` consecutive times, in index order -/
theorem expandIdx_characterisation (R : List Nat) :
    (expandIdx R).Pairwise (· ≤ ·) ∧ (∀ i, (expandIdx R).count i = R.getD i 0) ∧ (expandIdx R).length = R.sum :=
  ⟨(expandIdx_spec R).1, (expandIdx_spec R).2, expandIdx_length R⟩

/-- **repeat along an axis, EVERY axis of EVERY rank**: for a well-formed array without a zero-length axis and a count
vector `R` with one count per index of the axis (or a single count, which is used for every index; zeros allowed), the
call succeeds, the axis gets length `Σ R`, every other axis is kept, and the element at coordinate `c` of the result
is the element of `a` at `c` with the axis coordinate replaced by the source index of output position `c[axis]` in the
run-length expansion (`expandIdx`): index `i` of the axis is emitted `R[i]` consecutive times. -/
theorem repeatAxis_spec (a : Arr α) (zero : α) (repeats : List Nat) (axis : Nat)
    (hwf : a.WF) (hax : axis < a.ndim) (hnz : 0 ∉ a.shape)
    (hr : repeats.length = a.shape.getD axis 0 ∨ repeats.length = 1) :
    ∃ r, a.repeatAxis zero repeats axis = .ok r ∧
      r.shape = a.shape.set axis (bc1 repeats (a.shape.getD axis 0)).sum ∧ r.WF ∧
      ∀ c, inRange r.shape c = true →
        ∃ k, (expandIdx (bc1 repeats (a.shape.getD axis 0)))[c.getD axis 0]? = some k ∧
          r.get? c = a.get? (c.set axis k) :=
  repeatAxis_ok a zero repeats axis hwf hax hnz hr

/-- the count vector actually used: the request itself when it has one count per index, the single count repeated
otherwise -/
theorem repeat_counts (repeats : List Nat) (n : Nat) :
    (repeats.length = n → bc1 repeats n = repeats) ∧ (∀ c : Nat, bc1 [c] n = List.replicate n c) :=
  ⟨fun h => by rw [← h]; exact bc1_same repeats, fun c => bc1_single c n⟩

/-- **rejections of repeat along an axis**: an axis outside the rank gives `Err(AxisOutOfBounds)`; a count vector
whose length is neither the axis length nor 1 (or is empty) gives `Err(BroadcastShapeMismatch)` -/
theorem repeatAxis_rejects (a : Arr α) (zero : α) (repeats : List Nat) (axis : Nat) :
    (a.ndim ≤ axis → a.repeatAxis zero repeats axis = .err .AxisOutOfBounds) ∧
    (axis < a.ndim →
      (repeats.length ≠ a.shape.getD axis 0 ∧ repeats.length ≠ 1 ∧ a.shape.getD axis 0 ≠ 1 ∨ repeats.length = 0) →
      a.repeatAxis zero repeats axis = .err .BroadcastShapeMismatch) :=
  ⟨repeatAxis_axis_err a zero repeats axis, repeatAxis_count_err a zero repeats axis⟩

/-! ## 6. trim_zeros -/

/-- **trimming removes leading and trailing zeros only**: a rank-1 array is answered with a flat array `r` such that
the input is `p ++ r ++ s` with `p` and `s` all zeros and `r` neither starting nor ending with a zero (so `p`, `s` are
the LONGEST all-zero prefix and suffix); any other rank is refused. -/
theorem trimZeros_spec [DecidableEq α] (a : Arr α) (zero : α) :
    (a.ndim = 1 → ∃ r p s, a.trimZeros zero = .ok r ∧ r.shape = [r.elems.length] ∧
      a.elems = p ++ r.elems ++ s ∧ (∀ x ∈ p, x = zero) ∧ (∀ x ∈ s, x = zero) ∧
      r.elems.head? ≠ some zero ∧ r.elems.getLast? ≠ some zero) ∧
    (a.ndim ≠ 1 → a.trimZeros zero = .err .UnsupportedDimension) := by
  constructor
  · intro h
    obtain ⟨p, s, h1, h2, h3, h4, h5⟩ := trimList_decomp zero a.elems
    refine ⟨Arr.flat (trimList zero a.elems), p, s, ?_, rfl, h1, h2, h3, h4, h5⟩
    unfold Arr.trimZeros; rw [if_neg (by simp [h])]; rfl
  · intro h; unfold Arr.trimZeros; rw [if_pos h]

/-- **nothing else is removed**: the decomposition of `trimZeros_spec` determines the result — whenever the input is
`zeros ++ r ++ zeros` with `r` not starting or ending with zero, the answer is exactly `r` -/
theorem trimZeros_unique [DecidableEq α] (a : Arr α) (zero : α) (h : a.ndim = 1) (p r s : List α)
    (hl : a.elems = p ++ r ++ s) (hp : ∀ x ∈ p, x = zero) (hs : ∀ x ∈ s, x = zero)
    (hh : r.head? ≠ some zero) (ht : r.getLast? ≠ some zero) : a.trimZeros zero = .ok (Arr.flat r) := by
  unfold Arr.trimZeros; rw [if_neg (by simp [h])]
  have := trimList_of_decomp zero a.elems p r s hl hp hs hh ht
  unfold trimList at this
  rw [this]

/-! ## non-vacuity (no `decide` through `List.mergeSort`: the theorems are instantiated, the hypotheses discharged) -/

/-- a `[2,3,2]` sample array -/
def sample : Arr Nat := ⟨List.range 12, [2, 3, 2]⟩

example : sample.WF ∧ 0 ∉ sample.shape := by decide
-- flat delete: request `[4, 1, 4]` (unordered, repeated) on 6 elements
example := (deleteFlat_spec (Arr.flat [10, 11, 12, 13, 14, 15]) [4, 1, 4]).1 (by decide)
example : ((([10, 11, 12, 13, 14, 15] : List Nat).zipIdx.filter (fun p => decide (p.2 ∉ [4, 1, 4]))).map (·.1)) = [10, 12, 13, 15] := by
  decide
example := (deleteFlat_spec (Arr.flat [10, 11, 12]) [0, 3]).2 ⟨3, by decide, by decide⟩
-- delete along the middle axis of the rank-3 sample, positions {2, 0} requested as [2, 0, 2]
example := delete_axis_spec sample 0 [2, 0, 2] 1 (by decide) (by decide) (by decide) (by decide)
example : keptIdx 3 [2, 0, 2] = [1] := by decide
example := (delete_axis_rejects sample 0 [3] 1).1 (by decide) (by decide) (by decide) ⟨3, by decide, by decide⟩
-- flat insert: three values at indices [2, 0, 2] of a 3-element array (equal indices, unordered)
example := insertFlat_spec (Arr.flat [7, 8, 9]) [2, 0, 2] (Arr.flat [100, 200, 300]) rfl (by decide) (by decide) rfl (by decide)
example := delete_insert_id (Arr.flat [7, 8, 9]) [2, 0, 2] (Arr.flat [100, 200, 300]) rfl (by decide) (by decide) rfl (by decide)
example : insertAllAt [7, 8, 9] [(0, 200), (2, 100), (2, 300)] = [200, 7, 8, 100, 300, 9] := by decide
example : landing [(0, 200), (2, 100), (2, 300)] = [0, 3, 4] := by decide
example := insertFlat_one_index (Arr.flat [7, 8, 9]) 1 (Arr.flat [100, 200]) rfl (by decide) (by decide) (by decide)
-- append / trim
example := appendFlat_spec (Arr.flat [1, 2]) (Arr.flat [3])
example := (trimZeros_spec (Arr.flat [0, 0, 1, 0, 2, 0]) 0).1 rfl
example : (Arr.flat [0, 0, 1, 0, 2, 0]).trimZeros 0 = .ok (Arr.flat [1, 0, 2]) := by decide
example := trimZeros_unique (Arr.flat [0, 0, 1, 0, 2, 0]) 0 rfl [0, 0] [1, 0, 2] [0] rfl (by decide) (by decide) (by decide) (by decide)
example := (trimZeros_spec sample 0).2 (by decide)
-- repeat: counts [2, 0, 1] along the middle axis (a zero count), and one count for all along the last axis
example := repeatAxis_spec sample 0 [2, 0, 1] 1 (by decide) (by decide) (by decide) (.inl (by decide))
example := repeatAxis_spec sample 0 [3] 2 (by decide) (by decide) (by decide) (.inr rfl)
example : expandIdx [2, 0, 1] = [0, 0, 2] := by decide
example : sample.repeatAxis 0 [2, 0, 1] 1 = .ok ⟨[0, 1, 0, 1, 4, 5, 6, 7, 6, 7, 10, 11], [2, 3, 2]⟩ := by decide +kernel
example := (repeatFlat_spec sample 2 (by decide)).1 (by decide)
example := repeatFlat_counts_spec (Arr.flat [5, 6, 7]) [2, 0, 1] 3 (by decide) rfl (by decide) rfl

end ArrModel.C13
