import ArrModel.C13
namespace ArrModel.C13
end ArrModel.C13
